"""C18 - type-list algorithms (xmeta_utils.hpp) and promotion / logical / cv traits (xtype_traits.hpp).

 1. TLC enumerates TypeList.tla: every list of length <= 3 (quick) / 4 (thorough) over a 3-atom alphabet (plus
    patterns of length 5..12), two list templates, every metafunction of the property with every argument;
    the theorems of the spec (split concatenates back, unique/merge_set laws, index_of/contains/count
    consistency...) are checked by TLC at start-up.  Every call is emitted with its allowed results.
 2. TLC enumerates Promote.tla for the MEASURED platform (value bits / signedness of the builtin types come from
    a probe program): Add(a,b) for all pairs (triples), promote_type over all packs of 1..2 (quick) / 1..3
    (thorough) types out of 18 builtin arithmetic types and 3 std::complex forms, conjunction/disjunction/
    negation over all argument sequences (with distinct true/false classes and a value-less class behind the
    short-circuit point), apply_cv and constify over all cv/pointer/reference combinations.
 3. S->C (compile time): each table becomes generated translation units of static_asserts on the real templates.
    The Add/Add3 rows are asserted against the COMPILER (decltype(a+b)): a failure there is a spec error (exit 2).
    All other rows are asserted against xtl.  A row that does not compile is re-compiled alone (the rejection
    must repeat); it is then a VIOLATION whose replay is that one-row .cpp file.
 4. C->S: static_if is a run-time function: a driver calls the real static_if for every (condition, form,
    callable kinds) of the spec and TLC validates the recorded table against TypeList.tla (TypeListCheck).
 Round 3: thorough lists to length 5; 15 two-deep compositions as a law table (the composition on the real templates
 equals the composition of the models; CompLaws relate them to the single operations); second routes in every row;
 a second pass of the equality-sensitive rows over a confusable alphabet; -std=c++17 passes; static_if with const-reference
 and non-copyable callables; advisory tables for every remaining public trait (PromoteExtra.tla), reported as one
 ADVISORY line per family.
"""
import json, os, random, re, subprocess, threading
from concurrent.futures import ThreadPoolExecutor
from vlib import core
from vlib.core import MachineryError

HC18 = os.path.join(core.HARNESS, "c18")

# ------------------------------------------------------------------ atoms of the type-list alphabet
ATOM_POOL = [
    "int", "double", "char*", "void", "const int", "volatile double", "int&", "const int&", "int&&", "int[3]", "int[]",
    "int()", "int(*)()", "void(int, ...)", "tl::s_empty", "tl::s_incomplete", "tl::s_abstract", "tl::s_final",
    "tl::e_enum", "tl::u_union", "std::nullptr_t", "xtl::mpl::vector<>", "xtl::mpl::vector<int>",
    "xtl::mpl::vector<int, xtl::mpl::vector<>>", "std::tuple<>", "int tl::s_empty::*", "long double",
    "std::true_type", "std::false_type",      # the marker types of if_/switch_ (default_t is std::true_type) as ordinary elements
]


def emitted(out):
    rows = []
    for line in out.splitlines():
        if line.startswith('"@E@'):
            rows.append(json.loads(json.loads(line)[3:]))
    return rows


def check_assumptions(r, what):
    if re.search(r"Assumption .* is false", r["out"]):
        raise MachineryError("the theorems of %s do not hold (oracle bug), see %s" % (what, r["outfile"]))
    if r["violated"]:
        raise MachineryError("%s violates its own invariant %s, see %s" % (what, r["violated"], r["outfile"]))
    if "Model checking completed. No error has been found" not in r["out"]:
        raise MachineryError("TLC did not complete on %s, see %s" % (what, r["outfile"]))


# ------------------------------------------------------------------ rendering: TypeList rows
TL_TMPL = {"vector": "mpl::vector", "other": "other", "tuple": "std::tuple"}
TL_FUN = {"W": "W", "ptr": "std::add_pointer_t", "rot": "rot", "const1": "const1", "W2": "W2", "tuple1": "std::tuple"}


def tl_ty(t):
    n, a = t["n"], t["a"]
    if n in ("A", "B", "C", "D"):
        return n
    if n == "notype":
        return "notype"
    if n == "W":
        return "W<%s>" % tl_ty(a[0])
    if n == "W2":
        return "W2<%s, void>" % tl_ty(a[0])
    if n == "id":
        return "id<%s>" % tl_ty(a[0])
    if n == "ptr":
        return "std::add_pointer_t<%s>" % tl_ty(a[0])
    if n in TL_TMPL:
        return "%s<%s>" % (TL_TMPL[n], ", ".join(tl_ty(x) for x in a))
    raise MachineryError("renderer: unknown term %r" % (t,))


def seq_as(tmpl, elems):
    return "%s<%s>" % (TL_TMPL[tmpl], ", ".join(tl_ty(x) for x in elems))


def b2s(b):
    return "true" if b else "false"


def any_same(subject, alts):
    return "(" + " || ".join("same<%s, %s>::value" % (subject, tl_ty(x)) for x in alts) + ")"


def mask(p):
    return sum(1 << "ABC".index(x) for x in p)


def fapp(f, x):
    """the C++ spelling of the unary metafunction f applied to the type spelled x"""
    return "%s<%s>" % (TL_FUN[f], x)


def eq_pred(v):
    return "eq_%s" % v["n"]


def render_tl(row):
    """-> (condition, subject, kind) ; subject = the xtl expression observed (for the explanation).
    The condition is the TLC-computed result AND the second routes: the same observable reached through other
    metafunctions of the statement on the real templates (laws that TLC has checked on the spec: ListLaws, MergeLaws)."""
    cond, subject, kind = render_tl_main(row)
    extra = second_routes(row)
    if extra:
        cond = cond + " && " + " && ".join(extra)
    return cond, subject, kind


def second_routes(row):
    op, a = row["op"], row["a"]
    if "l" not in a:
        return []
    L = tl_ty(a["l"])
    tm = TL_TMPL.get(a["l"]["n"])
    n = len(a["l"]["a"])
    sz = "mpl::size<%s>::value" % L
    if op == "Size":
        return ["mpl::size<%s>::type::value == %s" % (L, sz), "len_impl<%s>::value == %s" % (L, sz),
                "mpl::size<mpl::cast_t<%s, std::tuple>>::value == %s" % (L, sz)]
    if op == "Empty":
        return ["mpl::empty<%s>::value == (%s == 0u)" % (L, sz)]
    if op == "Front":
        return ["mpl::index_of<%s, mpl::front_t<%s>>::value == 0u" % (L, L), "same<mpl::front_t<%s>, nth<0, %s>>::value" % (L, L),
                "same<mpl::push_front_t<mpl::pop_front_t<%s>, mpl::front_t<%s>>, %s>::value" % (L, L, L)]
    if op == "Back":
        return ["mpl::contains<%s, mpl::back_t<%s>>::value" % (L, L), "same<mpl::back_t<%s>, nth<%s - 1, %s>>::value" % (L, sz, L)]
    if op == "PopFront":
        return ["mpl::size<mpl::pop_front_t<%s>>::value + 1 == %s" % (L, sz)]
    if op in ("PushFront", "PushBack"):
        f = "push_front" if op == "PushFront" else "push_back"
        return ["mpl::size<mpl::%s_t<%s>>::value == %s + %du" % (f, ", ".join([L] + [tl_ty(x) for x in a["ts"]]), sz, len(a["ts"]))]
    if op == "Count":
        return ["mpl::count<%s, %s>::value == mpl::count_if<%s, %s>::value" % (L, tl_ty(a["v"]), L, eq_pred(a["v"]))]
    if op == "CountIf":
        m = mask(a["p"])
        return ["mpl::count_if<%s, p%d>::value + mpl::count_if<%s, p%d>::value == mpl::count_if<%s, p7>::value" % (L, m, L, 7 - m, L)]
    if op == "Contains":
        v = tl_ty(a["v"])
        return ["mpl::contains<%s, %s>::value == (mpl::index_of<%s, %s>::value != SIZE_MAX)" % (L, v, L, v),
                "mpl::contains<%s, %s>::value == (mpl::count<%s, %s>::value > 0u)" % (L, v, L, v)]
    if op == "IndexOf":
        v = tl_ty(a["v"])
        return ["(mpl::index_of<%s, %s>::value == SIZE_MAX ? %s : mpl::index_of<%s, %s>::value) == mpl::find_if<%s, %s>::value"
                % (L, v, sz, L, v, eq_pred(a["v"]), L)]
    if op == "FindIf":
        m = mask(a["p"])
        return ["(mpl::find_if<p%d, %s>::value == %s) == (mpl::count_if<%s, p%d>::value == 0u)" % (m, L, sz, L, m)]
    if op == "Transform":
        return ["mpl::size<mpl::transform_t<%s, %s>>::value == %s" % (TL_FUN[a["f"]], L, sz)]
    if op == "Cast":
        return ["same<mpl::cast_t<mpl::cast_t<%s, %s>, %s>, %s>::value" % (L, TL_TMPL[a["b"]], tm, L)]
    if op == "Split":
        sp = "mpl::split<%du, %s>" % (a["n"], L)
        return ["same<mpl::cast_t<concat<typename %s::first_type, typename %s::second_type>, %s>, %s>::value" % (sp, sp, tm, L),
                "mpl::size<typename %s::first_type>::value == %du" % (sp, a["n"])]
    if op == "Unique":
        u = "mpl::unique_t<%s>" % L
        return ["same<mpl::unique_t<%s>, %s>::value" % (u, u), "same<mpl::merge_set_t<%s<>, %s>, %s>::value" % (tm, L, u)]
    if op == "MergeSet":
        L2 = a["l2"]
        return ["same<mpl::unique_t<mpl::merge_set_t<%s, %s>>, mpl::unique_t<mpl::push_back_t<%s>>>::value"
                % (L, tl_ty(L2), ", ".join([L] + [tl_ty(x) for x in L2["a"]]))]
    return []


VALUE_SUBJECTS = ("size<%s>", "count<%s, A>", "count_if<%s, p1>", "index_of<%s, A>", "index_of<%s, D>", "find_if<p1, %s>")


def render_tl_main(row):
    op, a, res = row["op"], row["a"], row["res"]
    L = tl_ty(a["l"]) if "l" in a else None
    # ---- round 3: compositions two deep
    if op in ("UniqueMerge", "MergeUnique"):
        s = ("mpl::unique_t<mpl::merge_set_t<%s, %s>>" if op == "UniqueMerge" else "mpl::merge_set_t<mpl::unique_t<%s>, mpl::unique_t<%s>>") % (L, tl_ty(a["l2"]))
        return any_same(s, res), s, "type"
    if op == "SizeMerge":
        s = "mpl::size<mpl::merge_set_t<%s, %s>>::value" % (L, tl_ty(a["l2"]))
        return "(" + " || ".join("%s == %du" % (s, n) for n in res) + ")", s, "value"
    if op in ("IndexOfTransform", "CountTransform"):
        s = "mpl::%s<mpl::transform_t<%s, %s>, %s>::value" % ("index_of" if op == "IndexOfTransform" else "count", TL_FUN[a["f"]], L,
                                                                fapp(a["f"], tl_ty(a["v"])))
        return "%s == %s" % (s, "SIZE_MAX" if res[0] == -1 else "%du" % res[0]), s, "value"
    if op == "TransformTransform":
        s = "mpl::transform_t<%s, mpl::transform_t<%s, %s>>" % (TL_FUN[a["f"]], TL_FUN[a["g"]], L)
        return any_same(s, res), s, "type"
    if op == "UniqueTransform":
        s = "mpl::unique_t<mpl::transform_t<%s, %s>>" % (TL_FUN[a["f"]], L)
        return any_same(s, res), s, "type"
    if op == "CastTransform":
        s = "mpl::cast_t<mpl::transform_t<%s, %s>, %s>" % (TL_FUN[a["f"]], L, TL_TMPL[a["b"]])
        return any_same(s, res), s, "type"
    if op == "FindIfUnique":
        s = "mpl::find_if<p%d, mpl::unique_t<%s>>::value" % (mask(a["p"]), L)
        return "%s == %du" % (s, res[0]), s, "value"
    if op == "IndexOfUnique":
        s = "mpl::index_of<mpl::unique_t<%s>, %s>::value" % (L, tl_ty(a["v"]))
        return "%s == %s" % (s, "SIZE_MAX" if res[0] == -1 else "%du" % res[0]), s, "value"
    if op == "ContainsPopFront":
        s = "mpl::contains<mpl::pop_front_t<%s>, %s>::value" % (L, tl_ty(a["v"]))
        return "%s == %s" % (s, b2s(res[0])), s, "value"
    if op == "UniquePush":
        s = "mpl::unique_t<mpl::push_back_t<%s>>" % ", ".join([L] + [tl_ty(x) for x in a["ts"]])
        return any_same(s, res), s, "type"
    if op == "FrontPopFront":
        s = "mpl::front_t<mpl::pop_front_t<%s>>" % L
        return any_same(s, res), s, "type"
    if op == "BackPushBack":
        s = "mpl::back_t<mpl::push_back_t<%s>>" % ", ".join([L] + [tl_ty(x) for x in a["ts"]])
        return any_same(s, res), s, "type"
    if op == "PopPush":
        s = "mpl::pop_front_t<mpl::push_front_t<%s, %s>>" % (L, tl_ty(a["ts"][0]))
        return any_same(s, res), s, "type"
    # ---- round 3, advisory: void_t, the types of the value members, plus over mixed integral constants
    if op == "VoidT":
        s = "xtl::void_t<%s>" % ", ".join(tl_ty(x) for x in a["l"]["a"])
        return "same<%s, void>::value && same<typename xtl::make_void<%s>::type, void>::value" % (s, L), s, "type"
    if op == "ValueKind":
        c = ["same<decltype(mpl::%s::value), const std::size_t>::value" % (v % L) for v in VALUE_SUBJECTS]
        c += ["same<decltype(mpl::%s::value), const bool>::value" % (v % L) for v in ("empty<%s>", "contains<%s, A>")]
        c += ["same<typename mpl::size<%s>::value_type, std::size_t>::value" % L]
        return " && ".join(c), "mpl::index_of<%s, D>::value" % L, "value"
    if op == "PlusMixed":
        s = "mpl::plus<%s>::value" % ", ".join(["mpl::bool_<%s>" % b2s(b) for b in a["bs"]] + ["mpl::size_t_<%d>" % n for n in a["ns"]])
        return "%s == %du" % (s, res[0]), s, "value"
    if op == "Size":
        s = "mpl::size<%s>::value" % L
        return "%s == %du" % (s, res[0]), s, "value"
    if op == "Empty":
        s = "mpl::empty<%s>::value" % L
        return "%s == %s && same<mpl::empty_t<%s>, mpl::bool_<%s>>::value" % (s, b2s(res[0]), L, b2s(res[0])), s, "value"
    if op in ("Front", "Back", "PopFront", "Unique"):
        s = "mpl::%s_t<%s>" % ({"Front": "front", "Back": "back", "PopFront": "pop_front", "Unique": "unique"}[op], L)
        return any_same(s, res), s, "type"
    if op in ("PushFront", "PushBack"):
        s = "mpl::%s_t<%s>" % ("push_front" if op == "PushFront" else "push_back", ", ".join([L] + [tl_ty(x) for x in a["ts"]]))
        return any_same(s, res), s, "type"
    if op == "MergeSet":
        s = "mpl::merge_set_t<%s, %s>" % (L, tl_ty(a["l2"]))
        return any_same(s, res), s, "type"
    if op == "Transform":
        s = "mpl::transform_t<%s, %s>" % (TL_FUN[a["f"]], L)
        return any_same(s, res), s, "type"
    if op == "Cast":
        s = "mpl::cast_t<%s, %s>" % (L, TL_TMPL[a["b"]])
        return any_same(s, res), s, "type"
    if op == "Count":
        s = "mpl::count<%s, %s>::value" % (L, tl_ty(a["v"]))
        return "%s == %du" % (s, res[0]), s, "value"
    if op == "CountIf":
        s = "mpl::count_if<%s, p%d>::value" % (L, mask(a["p"]))
        return "%s == %du" % (s, res[0]), s, "value"
    if op == "Contains":
        s = "mpl::contains<%s, %s>::value" % (L, tl_ty(a["v"]))
        return "%s == %s" % (s, b2s(res[0])), s, "value"
    if op == "IndexOf":
        s = "mpl::index_of<%s, %s>::value" % (L, tl_ty(a["v"]))
        return "%s == %s" % (s, "SIZE_MAX" if res[0] == -1 else "%du" % res[0]), s, "value"
    if op == "FindIf":
        s = "mpl::find_if<p%d, %s>::value" % (mask(a["p"]), L)
        return "%s == %du" % (s, res[0]), s, "value"
    if op == "Split":
        sp = "mpl::split<%du, %s>" % (a["n"], L)
        # the property fixes the element sequences of the two halves (they concatenate back to the input)
        c = " || ".join("(same<mpl::cast_t<typename %s::first_type, mpl::vector>, %s>::value && "
                        "same<mpl::cast_t<typename %s::second_type, mpl::vector>, %s>::value)"
                        % (sp, seq_as("vector", r["first"]), sp, seq_as("vector", r["second"])) for r in res)
        return "(" + c + ")", "mpl::vector<typename %s::first_type, typename %s::second_type>" % (sp, sp), "type"
    if op == "Plus":
        s = "mpl::plus<%s>::value" % ", ".join("mpl::size_t_<%d>" % n for n in a["ns"])
        return "%s == %du" % (s, res[0]), s, "value"
    if op in ("If", "EvalIf"):
        b, t, f = b2s(a["b"]), tl_ty(a["t"]), tl_ty(a["f"])
        if op == "If":
            forms = ["mpl::if_t<mpl::bool_<%s>, %s, %s>" % (b, t, f), "mpl::if_c_t<%s, %s, %s>" % (b, t, f),
                     "mpl::if_t<cond_t<%s>, %s, %s>" % (b, t, f)]
        else:
            forms = ["mpl::eval_if_t<mpl::bool_<%s>, %s, %s>" % (b, t, f), "typename mpl::eval_if_c<%s, %s, %s>::type" % (b, t, f),
                     "mpl::eval_if_t<cond_t<%s>, %s, %s>" % (b, t, f)]
        return " && ".join(any_same(s, res) for s in forms), forms[0], "type"
    if op == "Switch":
        d = tl_ty(a["d"])
        forms = []
        for cf in ("mpl::bool_<%s>", "cond_t<%s>"):
            args = []
            for c in a["cases"]:
                args += [cf % b2s(c["c"]), tl_ty(c["t"])]
            forms.append("mpl::switch_t<%s, mpl::default_t, %s>" % (", ".join(args), d))
        return " && ".join(any_same(s, res) for s in forms), forms[0], "type"
    raise MachineryError("renderer: unknown TypeList op %s" % op)


# ------------------------------------------------------------------ rendering: Promote rows
CPP = {"bool": "bool", "char": "char", "schar": "signed char", "uchar": "unsigned char", "wchar_t": "wchar_t",
       "char16_t": "char16_t", "char32_t": "char32_t", "short": "short", "ushort": "unsigned short", "int": "int",
       "uint": "unsigned int", "long": "long", "ulong": "unsigned long", "llong": "long long", "ullong": "unsigned long long",
       "float": "float", "double": "double", "ldouble": "long double", "uint8_t": "std::uint8_t"}
EXTRA_OPS = {"BigPromote", "RealPromote", "BoolPromote", "Concepts", "AllScalar",      # documented companions: advisory only
             "CommonOptional", "ChronoPromote",
             "VoidT", "ValueKind", "PlusMixed",
             "Classify", "AllScalarX", "PromoteHalf", "PromoteXc", "PromoteEmpty", "BigPromoteCv", "RealPromoteCv", "OptTraits",
             "ComplexTraits", "LogicInt", "NegationInt"}                                       # (PromoteExtra.tla: not named by the statement)
ALL_OPS = ["PromoteCv", "Size", "Empty", "Front", "Back", "PushFront", "PushBack", "PopFront", "Count", "CountIf", "Contains", "IndexOf",
           "FindIf", "Transform", "Cast", "Split", "Unique", "MergeSet", "Plus", "If", "EvalIf", "Switch", "StaticIf",
           "UniqueMerge", "SizeMerge", "MergeUnique", "IndexOfTransform", "CountTransform", "TransformTransform", "UniqueTransform",
           "FindIfUnique", "IndexOfUnique", "ContainsPopFront", "CastTransform", "UniquePush", "FrontPopFront", "BackPushBack", "PopPush",
           "VoidT", "ValueKind", "PlusMixed",
           "Add", "Add3", "Promote", "BigPromote", "RealPromote", "BoolPromote", "Conjunction", "Disjunction", "Negation",
           "Concepts", "AllScalar", "ApplyCv", "Constify", "CommonOptional", "ChronoPromote",
           "Classify", "AllScalarX", "PromoteHalf", "PromoteXc", "PromoteEmpty", "BigPromoteCv", "RealPromoteCv", "OptTraits",
           "ComplexTraits", "LogicInt", "NegationInt"]
ORACLE_OPS = {"Add", "Add3"}                                              # spec vs compiler, no xtl
# rows whose answer depends on telling two types apart (re-run over a confusable alphabet)
EQ_OPS = {"Count", "Contains", "IndexOf", "Unique", "MergeSet", "UniqueMerge", "MergeUnique", "SizeMerge", "IndexOfUnique", "ContainsPopFront",
          "UniquePush", "CountTransform", "IndexOfTransform", "UniqueTransform", "CountIf", "FindIf", "FindIfUnique", "Front", "Back"}
CONFUSABLE = [("int", "const int", "volatile int", "const volatile int"), ("int", "int&", "const int&", "int&&"),
              ("int[3]", "int[]", "int*", "int[4]"), ("int()", "int(*)()", "int(&)()", "int(*const)()"),
              ("char*", "const char*", "char* const", "void*"), ("double", "const double&", "double&&", "const double"),
              ("tl::s_empty", "const tl::s_empty", "tl::s_empty&", "tl::s_empty*")]


def pr_ty(t):
    if t["n"] == "complex":
        return "std::complex<%s>" % pr_ty(t["a"][0])
    if t["n"] in ("const", "volatile", "cv"):
        return "%s %s" % (pr_ty(t["a"][0]), {"const": "const", "volatile": "volatile", "cv": "const volatile"}[t["n"]])
    return CPP[t["n"]]


def cv_ty(t):
    s = t["b"] + (" const" if t["c"] else "") + (" volatile" if t["v"] else "")
    s += {"none": "", "ptr": "*", "cptr": "* const"}[t["p"]]
    s += {"none": "", "l": "&", "r": "&&"}[t["ref"]]
    return s


def pr_any(subject, alts, f):
    return "(" + " || ".join("same<%s, %s>::value" % (subject, f(x)) for x in alts) + ")"


def logic_row(name, args, r):
    inst = "xtl::%s<%s>" % (name, ", ".join(args))
    neutral = "std::true_type" if name == "conjunction" else "std::false_type"
    base = neutral if r["sel"] == 0 else args[r["sel"] - 1]
    conds = ["base_of<%s, %s>::value" % (base, inst), "%s::value == %s" % (inst, b2s(r["value"]))]
    for o in sorted(set(args)):
        if o != base and o != "X":
            conds.append("!base_of<%s, %s>::value" % (o, inst))
    return " && ".join(conds), inst + "::value"


def opt_ty(t):
    n = t["n"]
    if n == "xoptional":
        return "xtl::xoptional<%s>" % opt_ty(t["a"][0])
    if n == "xoptionalc":
        return "xtl::xoptional<%s, char>" % opt_ty(t["a"][0])
    if n == "const":
        return "const %s" % opt_ty(t["a"][0])
    if n == "constref":
        return "const %s&" % opt_ty(t["a"][0])
    return CPP[n]


EX_KIND = {"cint": "const int", "ptr": "k_class*", "enum": "k_enum", "class": "k_class", "nullptr": "std::nullptr_t", "lref": "int&",
           "void": "void", "half": "xtl::half_float", "chalf": "const xtl::half_float", "xcomplex": "xtl::xcomplex<double, double>",
           "stdcomplex": "std::complex<double>", "xoptional": "xtl::xoptional<int>", "xoptionalc": "xtl::xoptional<double, char>",
           "xmasked": "xtl::xmasked_value<int>", "stdcomplexcref": "const std::complex<double>&",
           "xcomplexcref": "const xtl::xcomplex<double, double>&"}
CLS_TRAIT = {"scalar": "is_scalar", "arithmetic": "is_arithmetic", "fundamental": "is_fundamental", "signed": "is_signed",
             "floating": "is_floating_point", "integral": "is_integral"}


def ex_kind(k):
    return EX_KIND.get(k) or CPP[k]


def ex_ty(t):
    n = t["n"]
    if n == "complex":
        return "std::complex<%s>" % ex_ty(t["a"][0])
    if n == "xcomplex":
        return "xtl::xcomplex<%s, %s>" % (ex_ty(t["a"][0]), ex_ty(t["a"][0]))
    if n == "const":
        return "const %s" % ex_ty(t["a"][0])
    if n == "constref":
        return "const %s&" % ex_ty(t["a"][0])
    return ex_kind(n)


def render_ex(row):
    op, a, res = row["op"], row["a"], row["res"]
    if op == "Classify":
        ty = ex_kind(a["t"])
        c = ["xtl::%s<%s>::value == %s" % (CLS_TRAIT[k], ty, b2s(v == "T")) for k, v in sorted(res[0].items()) if v != "any"]
        subj = ("xtl::is_scalar<%s>::value * 32 + xtl::is_arithmetic<%s>::value * 16 + xtl::is_fundamental<%s>::value * 8 + "
                "xtl::is_signed<%s>::value * 4 + xtl::is_floating_point<%s>::value * 2 + xtl::is_integral<%s>::value") % ((ty,) * 6)
        return " && ".join(c), subj, "value"
    if op == "AllScalarX":
        s = "xtl::all_scalar<%s>::value" % ", ".join(ex_kind(k) for k in a["kinds"])
        return "%s == %s" % (s, b2s(res[0])), s, "value"
    if op in ("PromoteHalf", "PromoteXc"):
        s = "xtl::promote_type_t<%s>" % ", ".join(ex_ty(x) for x in a["pack"])
        return pr_any(s, res, ex_ty), s, "type"
    if op == "PromoteEmpty":
        return "same<xtl::promote_type_t<>, void>::value", "xtl::promote_type_t<>", "type"
    if op in ("BigPromoteCv", "RealPromoteCv"):
        s = "xtl::%s_t<%s>" % ("big_promote_type" if op == "BigPromoteCv" else "real_promote_type", ex_ty(a["t"]))
        return pr_any(s, res, ex_ty), s, "type"
    if op == "OptTraits":
        k, r = [ex_kind(x) for x in a["kinds"]], res[0]
        c = ["xtl::is_xoptional<%s>::value == %s" % (k[0], b2s(r["is_xoptional"])), "xtl::is_xmasked_value<%s>::value == %s" % (k[0], b2s(r["is_xmasked"])),
             "xtl::is_not_xoptional_nor_xmasked_value<%s>::value == %s" % (k[0], b2s(r["neither"])),
             "xtl::at_least_one_xoptional<%s>::value == %s" % (", ".join(k), b2s(r["at_least_one"]))]
        return " && ".join(c), "xtl::at_least_one_xoptional<%s>::value" % ", ".join(k), "value"
    if op == "ComplexTraits":
        k, r = ex_kind(a["k"]), res[0]
        c = ["xtl::%s<%s>::value == %s" % (t, k, b2s(r[t])) for t in ("is_complex", "is_xcomplex", "is_gen_complex")]
        return " && ".join(c), "xtl::is_gen_complex<%s>::value" % k, "value"
    if op == "LogicInt":
        c = []
        for name, key in (("conjunction", "conj"), ("disjunction", "disj")):
            inst = "xtl::%s<%s>" % (name, ", ".join(a["args"]))
            c += ["base_of<%s, %s>::value" % (a["args"][res[0][key]["sel"] - 1], inst), "bool(%s::value) == %s" % (inst, b2s(res[0][key]["value"]))]
        return " && ".join(c), "xtl::conjunction<%s>::value" % ", ".join(a["args"]), "value"
    if op == "NegationInt":
        s = "xtl::negation<%s>::value" % a["arg"]
        return "%s == %s" % (s, b2s(res[0])), s, "value"
    if op == "CommonOptional":
        s = "xtl::common_optional_t<%s>" % ", ".join(opt_ty(x) for x in a["args"])
        return pr_any(s, res, opt_ty), s, "type"
    if op == "ChronoPromote":
        tp = lambda d: "tp<%s, %d, %d>" % (CPP[d["rep"]], d["per"][0], d["per"][1])
        s = "xtl::promote_type_t<%s, %s>" % (tp(a["d1"]), tp(a["d2"]))
        return pr_any(s, res, tp), s, "type"
    raise MachineryError("renderer: unknown PromoteExtra op %s" % op)


def render_pr(row):
    op, a, res = row["op"], row["a"], row["res"]
    if op == "Add":
        s = "add_t<%s, %s>" % (pr_ty(a["x"]), pr_ty(a["y"]))
        return pr_any(s, res, pr_ty), s, "type"
    if op == "Add3":
        s = "add3_t<%s, %s, %s>" % (pr_ty(a["x"]), pr_ty(a["y"]), pr_ty(a["z"]))
        return pr_any(s, res, pr_ty), s, "type"
    if op in ("Promote", "PromoteCv"):
        s = "xtl::promote_type_t<%s>" % ", ".join(pr_ty(x) for x in a["pack"])
        return pr_any(s, res, pr_ty), s, "type"
    if op in ("BigPromote", "RealPromote", "BoolPromote"):
        s = "xtl::%s_t<%s>" % ({"BigPromote": "big_promote_type", "RealPromote": "real_promote_type", "BoolPromote": "bool_promote_type"}[op], pr_ty(a["t"]))
        return pr_any(s, res, pr_ty), s, "type"
    if op in ("Conjunction", "Disjunction"):
        c, s = logic_row(op.lower(), a["args"], res[0])
        return c, s, "value"
    if op == "Negation":
        inst = "xtl::negation<%s>" % a["arg"]
        return "%s::value == %s && base_of<std::integral_constant<bool, %s>, %s>::value" % (inst, b2s(res[0]), b2s(res[0]), inst), inst + "::value", "value"
    if op == "Concepts":
        args, r = ", ".join(a["args"]), res[0]
        c = []
        for vt, chk, key in (("VT_REQUIRES", "check_requires", "requires"), ("VT_EITHER", "check_either", "either"),
                             ("VT_DISALLOW", "check_disallow", "disallow"), ("VT_DISALLOW_ONE", "check_disallow_one", "disallow_one")):
            c.append("%s(%s) == %s" % (vt, args, b2s(r[key])))
            c.append("passes<xtl::%s, pack<%s>>::value == %s" % (chk, args, b2s(r[key])))
            c.append("fn_%s<%s>(0) == %s" % (key, args, b2s(r[key])))
        c.append("passes<xtl::check_concept, pack<%s>>::value == %s" % (args, b2s(r["requires"])))
        return " && ".join(c), "passes<xtl::check_requires, pack<%s>>::value" % args, "value"
    if op == "AllScalar":
        km = {"int": "int_", "double": "double_", "bool": "bool_", "enum": "enum_", "nullptr": "nullptr_", "class": "class_", "void": "void_"}
        s = "xtl::all_scalar<%s>::value" % ", ".join("kind::" + km.get(k, k) for k in a["kinds"])
        return "%s == %s" % (s, b2s(res[0])), s, "value"
    if op == "ApplyCv":
        s = "xtl::apply_cv_t<%s, %s>" % (cv_ty(a["t"]), cv_ty(a["u"]))
        return pr_any(s, res, cv_ty), s, "type"
    if op == "Constify":
        s = "xtl::constify_t<%s>" % cv_ty(a["t"])
        return pr_any(s, res, cv_ty), s, "type"
    raise MachineryError("renderer: unknown Promote op %s" % op)


# ------------------------------------------------------------------ translation units
class Row:
    __slots__ = ("rid", "table", "spec", "cond", "subject", "kind")

    def __init__(self, rid, table, spec, cond, subject, kind):
        self.rid, self.table, self.spec, self.cond, self.subject, self.kind = rid, table, spec, cond, subject, kind


def header(table, atoms):
    if table == "tl":
        h = "".join("#define TL_ATOM_%s %s\n" % (k, atoms[k]) for k in "ABCD")
        return h + '#include "c18/typelist_prelude.hpp"\nnamespace rows\n{\nusing namespace tl;\n'
    if table == "ex":
        return '#include "c18/extra_prelude.hpp"\nnamespace rows\n{\nusing namespace ex;\n'
    return '#include "c18/traits_prelude.hpp"\nnamespace rows\n{\nusing namespace tr;\n'


SHOW = r'''
#ifdef VERIF_SHOW
#include <cstdio>
template <class T> const char* verif_name() { return __PRETTY_FUNCTION__; }
int main()
{
#if VERIF_KIND_TYPE
    std::puts(verif_name<rows::subject>());
#else
    std::printf("%llu\n", static_cast<unsigned long long>(rows::subject));
#endif
}
#endif
'''


def tu_text(rows, atoms, show=False):
    """One static_assert per line; returns (text, {line number: row})."""
    table = rows[0].table
    text = header(table, atoms)
    lines = {}
    ln = text.count("\n") + 1
    out = [text]
    if show:
        r = rows[0]
        out.append("// %s\n" % json.dumps(r.spec, sort_keys=True))
        out.append("#ifdef VERIF_SHOW\n")
        out.append("using subject = %s;\n" % r.subject if r.kind == "type" else "constexpr auto subject = %s;\n" % r.subject)
        out.append("#define VERIF_KIND_TYPE %d\n#else\n" % (1 if r.kind == "type" else 0))
        ln += 5
    for r in rows:
        out.append('static_assert(%s, "row %d");\n' % (r.cond, r.rid))
        lines[ln] = r
        ln += 1
    if show:
        out.append("#endif\n")
    out.append("}\n")
    if show:
        out.append(SHOW)
    return "".join(out), lines


def cxx_cmd(cxx, path, extra=(), std="c++14"):
    return [cxx, "-std=" + std, "-fsyntax-only", "-ftemplate-depth=2000", "-I", core.INCLUDE, "-I", core.HARNESS,
            "-I", os.path.join(core.HARNESS, "common")] + list(extra) + [path]


class Compiler:
    def __init__(self, ctx, cxx, atoms, std="c++14", tag=""):
        self.ctx, self.cxx, self.atoms, self.std = ctx, cxx, atoms, std
        self.name = os.path.basename(cxx) + ("" if std == "c++14" else "-" + std) + tag
        self.dir = ctx.sub("tu-" + self.name)
        self.n = 0
        self.compiles = 0
        self.lock = threading.Lock()

    def compile(self, rows, name=None):
        with self.lock:
            self.n += 1
            self.compiles += 1
            path = os.path.join(self.dir, name or "t%05d.cpp" % self.n)
        text, lines = tu_text(rows, self.atoms)
        with open(path, "w") as f:
            f.write(text)
        rc, out = core.sh(cxx_cmd(self.cxx, path, std=self.std), timeout=1500)
        if rc == 124:
            raise MachineryError("compiler timed out on %s" % path)
        return rc == 0, out, lines, path

    def candidates(self, out, lines, path):
        c = []
        for m in re.finditer(r"^(?:In file included from )?(\S+?):(\d+)(?::\d+)?[:,]", out, re.M):
            if os.path.basename(m.group(1)) == os.path.basename(path) and int(m.group(2)) in lines:
                r = lines[int(m.group(2))]
                if r not in c:
                    c.append(r)
        return c

    def bisect(self, rows, budget=None):
        """Failing rows by halving; stops after 10 have been isolated."""
        budget = budget if budget is not None else [10]
        if budget[0] <= 0:
            return []
        ok, out, _, _ = self.compile(rows)
        if ok:
            return []
        if len(rows) == 1:
            budget[0] -= 1
            return [(rows[0], out)]
        h = len(rows) // 2
        return self.bisect(rows[:h], budget) + self.bisect(rows[h:], budget)

    def failing(self, rows, name):
        """Rows of this TU that do not compile, each confirmed by compiling it alone."""
        ok, out, lines, path = self.compile(rows, name)
        if ok:
            return []
        bad = []
        cands = self.candidates(out, lines, path)
        # confirm a few per operation (a systematic failure would otherwise mean thousands of compiles)
        seen, pick = {}, []
        for r in cands:
            k = r.spec["op"]
            seen[k] = seen.get(k, 0) + 1
            if seen[k] <= 4:
                pick.append(r)
        for r in pick:
            ok1, out1, _, _ = self.compile([r])
            if not ok1:
                bad.append((r, out1))
        if len(pick) == len(cands):
            badset = {r.rid for r, _ in bad}
            rest = [r for r in rows if r.rid not in badset]
            if rest and len(rest) < len(rows):
                ok2, _, _, _ = self.compile(rest)
                if not ok2:
                    bad += self.bisect(rest)[:20]
            elif rest:
                bad += self.bisect(rest)[:20]
        return bad


def explain(ctx, cxx, row, atoms, path, std="c++14"):
    """Write the one-row replay file; obtain the observed type/value by compiling it with -DVERIF_SHOW."""
    text, _ = tu_text([row], atoms, show=True)
    with open(path, "w") as f:
        f.write("// C18 replay: compile with  %s -std=%s -fsyntax-only -I<xtl include> -I/verif/harness %s\n" % (os.path.basename(cxx), std, os.path.basename(path)))
        if row.table == "tl":
            f.write("// alphabet: %s\n" % json.dumps(atoms, sort_keys=True))
        f.write("// (-DVERIF_SHOW builds a program that prints what xtl computes instead of asserting)\n")
        f.write(text)
    exe = os.path.join(ctx.work, "show.bin")
    cmd = [cxx, "-std=" + std, "-DVERIF_SHOW", "-I", core.INCLUDE, "-I", core.HARNESS, "-I", os.path.join(core.HARNESS, "common"), path, "-o", exe]
    rc, out = core.sh(cmd, timeout=300)
    if rc != 0:
        errs = [l for l in out.splitlines() if "error" in l]
        return "(not computable: %s)" % (errs[0][-300:] if errs else "compile error")
    rc, out = core.sh([exe], timeout=60)
    m = re.search(r"\[with T = (.*?)[;\]]", out)
    return (m.group(1) if m else out.strip())[:600]


def expected_text(row):
    return json.dumps(row.spec["res"], sort_keys=True)[:600]


def run_table(ctx, comp, rows, ntu, label, rnd):
    """Compile the rows in ntu translation units in parallel; returns the confirmed failing rows."""
    rows = list(rows)
    rnd.shuffle(rows)                       # balance the work; which rows share a TU depends on the seed
    ntu = max(1, min(ntu, len(rows)))
    chunks = [rows[i::ntu] for i in range(ntu)]
    with ThreadPoolExecutor(max_workers=core.NCPU) as ex:
        res = list(ex.map(lambda ic: comp.failing(ic[1], "%s-%02d.cpp" % (label, ic[0])), enumerate(chunks)))
    return [x for r in res for x in r]


HEADER_OF = {"tl": "xtl/xmeta_utils.hpp", "pr": "xtl/xtype_traits.hpp", "ex": "xtl/xoptional_meta.hpp"}


def prelude_ok(ctx, comp, table):
    """The vocabulary the rows are written in must compile.  If it does not: when the xtl header alone does not compile
    either, no instantiation the property speaks of is well-formed - a VIOLATION (replay: the one-line translation
    unit); otherwise the prelude no longer fits the header (machinery error).  Returns False after a violation."""
    r = Row(0, table, {"op": "prelude"}, "true", "int", "type")
    ok, out, _, path = comp.compile([r], "prelude-%s.cpp" % table)
    if ok:
        return True
    os.makedirs(ctx.replays, exist_ok=True)
    rp = os.path.join(ctx.replays, "header_%s_%s.cpp" % (table, os.path.basename(comp.cxx)))
    with open(rp, "w") as f:
        f.write("// C18 replay: the header alone, %s -std=c++14 -fsyntax-only -I<xtl include>\n#include \"%s\"\nint main() {}\n"
                % (os.path.basename(comp.cxx), HEADER_OF[table]))
    rc, o = core.sh(cxx_cmd(comp.cxx, rp, std=comp.std), timeout=600)
    if rc == 0:
        os.remove(rp)
        raise MachineryError("the C18 prelude does not compile against %s (%s) although %s alone does:\n%s"
                             % (core.INCLUDE, path, HEADER_OF[table], out[-3000:]))
    errs = [l.strip() for l in o.splitlines() if "error" in l][:4]
    ctx.violation("%s does not compile (%s): none of the instantiations the property speaks of is well-formed: %s"
                  % (HEADER_OF[table], comp.cxx, " | ".join(errs)[:1200]), replay_path=rp)
    return False


# ------------------------------------------------------------------ static_if (run time, C->S)
def build_static_if(ctx):
    """-> (driver or None after a VIOLATION, has_tag_form)"""
    from vlib import tables
    drv = os.path.join(ctx.work, "static_if_driver")
    src = os.path.join(HC18, "static_if_driver.cpp")
    rc, o = core.try_build(ctx, os.path.join(HC18, "static_if_probe.cpp"), drv + ".tagprobe", flags=["-DTAG_FORM"])
    tag = rc == 0
    if not tag:
        ctx.notes["static_if_tag_form"] = "the overloads static_if(std::true_type / std::false_type, tf, ff) are not callable; only static_if<cond>(tf, ff) is driven"
    rc, o = core.try_build(ctx, os.path.join(HC18, "static_if_probe.cpp"), drv + ".ncprobe", flags=["-DNOCOPY_FORM"] + (["-DTAG_FORM"] if tag else []))
    nocopy = rc == 0
    if not nocopy:
        ctx.notes["static_if_nocopy"] = False
        note = ("ADVISORY static_if no longer accepts a callable that can be neither copied nor moved (it took its callables by "
                "const reference); the non-copyable branch shape is not driven")
        if note not in ctx.drift:
            ctx.drift.append(note)
    d = tables.build_driver(ctx, "C18", src, drv, os.path.join(HC18, "static_if_probe.cpp"),
                            flags=(["-DHAVE_TAG_FORM"] if tag else []) + (["-DHAVE_NOCOPY"] if nocopy else []))
    return d, tag, nocopy


def static_if_stage(ctx, tl_rows):
    drv, tag, nocopy = build_static_if(ctx)
    if drv is None:
        return 0
    calls = [{"op": "StaticIf", "a": r["a"]} for r in tl_rows if r["op"] == "StaticIf" and (tag or r["a"]["form"] != "tag")
             and (nocopy or "nocopy" not in (r["a"]["t"]["rt"], r["a"]["f"]["rt"]))]
    # seeded values: what the callables return is an input, the spec is evaluated on the logged arguments
    rnd = random.Random(ctx.seed * 7919 + 18)
    for c in calls:
        c["a"]["t"]["val"] = rnd.randrange(0, 30000)
        c["a"]["f"]["val"] = rnd.randrange(0, 30000)
    tdir = ctx.sub("traces")
    sp, tp = os.path.join(tdir, "static_if.script"), os.path.join(tdir, "static_if.ndjson")
    with open(sp, "w") as f:
        for c in calls:
            f.write(json.dumps(c, separators=(",", ":")) + "\n")
    run_static_if(drv, sp, tp)
    core.validate_traces(ctx, "TypeListCheck", "TypeListCheck.cfg", [tp], parallel=1)
    ctx.cov["traces_validated_against_impl"] += 1
    return len(calls)


def run_static_if(drv, sp, tp):
    env = dict(os.environ); env.update(core.ASAN_ENV)
    # unbounded recursion must end at the stack limit, not in the OOM killer (see vlib/tables.py run_harness)
    env["ASAN_OPTIONS"] = env["ASAN_OPTIONS"].replace("detect_stack_use_after_return=1", "detect_stack_use_after_return=0") + ":hard_rss_limit_mb=4096"
    with open(sp) as fin, open(tp, "w") as fout:
        try:
            p = subprocess.run([drv], stdin=fin, stdout=fout, stderr=subprocess.PIPE, env=env, timeout=300)
        except subprocess.TimeoutExpired:
            fout.write('\n{"op":"Crash","why":"the driver did not finish within 300 s"}\n')
            return
    if p.returncode == 3:
        raise MachineryError("static_if driver rejected its script: %s" % p.stderr.decode()[-500:])


# ------------------------------------------------------------------ replay
def replay(ctx, path):
    if path.endswith(".cpp"):
        rc, out = core.sh(cxx_cmd(core.CXX, path), timeout=600)
        if rc == 0:
            print("replay accepted: the row now compiles (xtl computes one of the results the spec allows)")
            return 0
        print("VIOLATION property=C18 replay=%s" % path)
        print("  " + "\n  ".join([l for l in out.splitlines() if "error" in l][:5]))
        return 1
    lines = [l for l in core.read_ndjson(path) if "_meta" not in l]
    drv, tag, nocopy = build_static_if(ctx)
    if drv is None:
        print("VIOLATION property=C18 replay=%s\n  the static_if driver does not build against this tree" % path)
        return 1
    sp, tp = os.path.join(ctx.work, "replay.script"), os.path.join(ctx.work, "replay.ndjson")
    with open(sp, "w") as f:
        for l in lines:
            f.write(json.dumps(l, separators=(",", ":")) + "\n")
    run_static_if(drv, sp, tp)
    r = core.validate_trace(ctx, "TypeListCheck", "TypeListCheck.cfg", tp)
    if r["accepted"]:
        print("replay accepted: the recorded calls now conform to TypeList.tla")
        return 0
    print("VIOLATION property=C18 replay=%s" % path)
    print("  rejected at event %d; spec expected: %s" % (r["fail_line"] + 1, r.get("expected")))
    return 1


# ------------------------------------------------------------------ self-test: mutated copies of the headers must be caught
MUTATIONS = [
    ("nested-complex (defect 13 re-introduced)", "xtype_traits.hpp",
     "using type = typename promote_type<std::complex<typename promote_type<T0, T1>::type>, REST...>::type;",
     "using type = std::complex<typename promote_type<T0, T1, REST...>::type>;", "violation"),
    ("back: 4-element shortcut returns T3", "xmeta_utils.hpp", "using type = T4;", "using type = T3;", "violation"),
    ("disjunction derives from true_type, not Arg1", "xtype_traits.hpp",
     "struct disjunction<Arg1, Arg2, Args...> : std::conditional_t<Arg1::value, Arg1, disjunction<Arg2, Args...>>",
     "struct disjunction<Arg1, Arg2, Args...> : std::conditional_t<Arg1::value, std::true_type, disjunction<Arg2, Args...>>", "violation"),
    ("conjunction<Arg1> loses the identity of Arg1", "xtype_traits.hpp", "struct conjunction<Arg1> : Arg1",
     "struct conjunction<Arg1> : std::integral_constant<bool, Arg1::value>", "violation"),
    ("apply_cv drops volatile on cv lvalue references", "xtype_traits.hpp", "using type = const volatile U&;", "using type = const U&;", "violation"),
    ("apply_cv drops volatile on values", "xtype_traits.hpp", "            using type = volatile U;", "            using type = U;", "violation"),
    ("static_if<cond> also calls the true branch", "xmeta_utils.hpp",
     "            return static_if(std::integral_constant<bool, cond>(), tf, ff);",
     "            tf(identity());\n            return static_if(std::integral_constant<bool, cond>(), tf, ff);", "violation"),
    ("eval_if evaluates the other branch too", "xmeta_utils.hpp",
     "            using type = typename T::type;\n        };\n\n        template <class T, class F>\n        struct eval_if_c<false, T, F>",
     "            using type = typename T::type;\n            using other_type = typename F::type;\n        };\n\n"
     "        template <class T, class F>\n        struct eval_if_c<false, T, F>", "violation"),
    ("promote_type<T1, complex<T2>> ignores T1", "xtype_traits.hpp",
     "using type = std::complex<typename promote_type<T1, T2>::type>;\n    };\n\n    template <class T1, class T2>\n    struct promote_type<std::complex<T1>, T2>",
     "using type = std::complex<T2>;\n    };\n\n    template <class T1, class T2>\n    struct promote_type<std::complex<T1>, T2>", "violation"),
    ("merge_set looks for duplicates in the rest of S2", "xmeta_utils.hpp", "merge_set_impl<if_t<contains<L<T...>, U1>,",
     "merge_set_impl<if_t<contains<L<U...>, U1>,", "violation"),
    ("big_promote_type<long double> is double (documented companion)", "xtype_traits.hpp",
     "std::conditional_t<is_long_double, long double, double>", "std::conditional_t<is_long_double, double, double>", "drift"),
]


def selftest(ctx):
    from vlib import selfmut
    return selfmut.run_mutations("C18", MUTATIONS)


# ------------------------------------------------------------------ the check
def run(ctx):
    q = ctx.quick
    rnd = random.Random(ctx.seed)
    pool = list(ATOM_POOL)
    rnd.shuffle(pool)
    atoms = dict(zip("ABCD", pool[:4]))
    if os.environ.get("VERIF_C18_ATOMS"):                   # reproduce a specific alphabet: four types separated by '|'
        atoms = dict(zip("ABCD", [x.strip() for x in os.environ["VERIF_C18_ATOMS"].split("|")]))
        if len(atoms) != 4:
            raise MachineryError("VERIF_C18_ATOMS must name four types separated by '|'")
    ctx.notes["atoms"] = atoms
    ctx.log("alphabet for seed %d: %s" % (ctx.seed, atoms))

    # ---- platform parameters of Promote.tla (measured, not assumed)
    probe = os.path.join(ctx.work, "platform_probe")
    core.build(ctx, os.path.join(HC18, "platform_probe.cpp"), probe, asan=False)
    rc, out = core.sh([probe], timeout=60)
    if rc != 0:
        raise MachineryError("platform probe failed: %s" % out)
    plat = os.path.join(ctx.work, "platform.json")
    with open(plat, "w") as f:
        f.write(out.strip() + "\n")
    ctx.notes["platform"] = json.loads(out)

    # ---- 1. TLC: TypeList table (+ theorems)
    r = core.tlc_model_check(ctx, "TypeListMC", "TypeList_mc.cfg" if q else "TypeList_mc_thorough.cfg",
                             "type-list calls enumerated; theorems of the spec", coverage=not q, heap="6g",
                             env={"JAVA_TOOL_OPTIONS": "-Xss64m"})     # the nested \E over ~850 lists overflows the default worker stack
    check_assumptions(r, "TypeList.tla")
    tl_spec = emitted(r["out"])
    if not q:
        ctx.notes["typelist_action_coverage"] = r.get("coverage", {})
    r["out"] = ""

    # ---- 2. TLC: Promote table for the measured platform (+ theorems; other data models in thorough)
    r = core.tlc_model_check(ctx, "PromoteMC", "Promote_mc.cfg" if q else "Promote_mc_thorough.cfg",
                             "trait calls enumerated for the measured platform; theorems of the spec",
                             env={"PLATFORM": plat}, coverage=not q, heap="6g")
    check_assumptions(r, "Promote.tla")
    pr_spec = emitted(r["out"])
    if not q:
        ctx.notes["promote_action_coverage"] = r.get("coverage", {})
        for m in ("LP64", "LP64arm", "ILP32", "LLP64", "IP16"):
            rl = core.tlc_model_check(ctx, "PromoteMC", "Promote_laws_%s.cfg" % m, "theorems of Promote.tla on data model " + m,
                                      env={"PLATFORM": plat}, workers=4)
            check_assumptions(rl, "Promote.tla (%s)" % m)
    r["out"] = ""

    # ---- 2b. TLC: the advisory companions (common_optional, time_point promotion)
    r = core.tlc_model_check(ctx, "PromoteExtra", "PromoteExtra_mc.cfg" if q else "PromoteExtra_mc_thorough.cfg",
                             "advisory companions (common_optional, time_point promotion) enumerated; their laws",
                             env={"PLATFORM": plat}, workers=2)
    check_assumptions(r, "PromoteExtra.tla")
    ex_spec = emitted(r["out"])
    r["out"] = ""

    rows, rid = [], 0
    for table, spec_rows, render in (("tl", tl_spec, render_tl), ("pr", pr_spec, render_pr), ("ex", ex_spec, render_ex)):
        for s in spec_rows:
            if s["op"] == "StaticIf":
                continue
            rid += 1
            cond, subject, kind = render(s)
            rows.append(Row(rid, table, s, cond, subject, kind))
    ops = {}
    for x in rows:
        ops[x.spec["op"]] = ops.get(x.spec["op"], 0) + 1
    ops["StaticIf"] = sum(1 for s in tl_spec if s["op"] == "StaticIf")
    ctx.notes["rows_per_operation"] = ops
    # vacuity: every action of the two specs must have been taken by TLC (tier-independent)
    ctx.notes["vacuous_actions"] = [o for o in ALL_OPS if not ops.get(o)]
    if ctx.notes["vacuous_actions"]:
        ctx.log("vacuous actions (never enumerated): %s" % ctx.notes["vacuous_actions"])
    ctx.log("%d type-list calls and %d trait calls enumerated by TLC" % (len(tl_spec), len(pr_spec)))

    # passes: (compiler, language standard, 1/stride of the rows, alphabet, row filter)
    #  - g++ -std=c++14 on every row; clang++ -std=c++14 on every row (thorough) / a seeded quarter (quick);
    #  - round 3: the C++17 reading of the same headers (clang++ and g++; template template matching, noexcept in the type
    #    system, fold expressions in any #if __cplusplus branch): a quarter (clang++) and an eighth (g++) of the rows in thorough,
    #    an eighth (g++) in quick;
    #  - round 3: the equality-sensitive type-list rows once more over a CONFUSABLE alphabet: four pairwise distinct types that
    #    coincide after decay / cv-stripping / pointer conversion (an implementation comparing anything coarser than the types
    #    themselves cannot tell them apart).
    fam = list(rnd.choice(CONFUSABLE))
    rnd.shuffle(fam)
    atoms2 = dict(zip("ABCD", fam))
    ctx.notes["confusable_atoms"] = atoms2
    eq_filter = lambda x: x.table == "tl" and x.spec["op"] in EQ_OPS
    passes = [(core.CXX, "c++14", 1, atoms, None, ""), ("clang++", "c++14", 4 if q else 1, atoms, None, ""),
              (core.CXX, "c++14", 2, atoms2, eq_filter, "-confusable")]
    passes += [(core.CXX, "c++17", 8, atoms, None, "")] if q else [("clang++", "c++17", 4, atoms, None, ""), (core.CXX, "c++17", 8, atoms, None, "")]
    all_rows = rows
    nrows_checked = 0
    advisory_seen = set()
    for cxx, std, stride, atoms_p, flt, tag in passes:
        base_rows = [x for x in all_rows if flt(x)] if flt else all_rows
        if stride > 1:
            rows = list(base_rows)
            rnd.shuffle(rows)
            rows = rows[::stride]
            # every operation keeps at least a few rows
            have = {x.spec["op"] for x in rows}
            rows += [x for x in base_rows if x.spec["op"] not in have]
        else:
            rows = base_rows
        comp = Compiler(ctx, cxx, atoms_p, std, tag)
        cxx_name = comp.name
        usable = {t: prelude_ok(ctx, comp, t) for t in (("tl",) if flt else ("tl", "pr"))}
        if flt:
            usable["pr"] = False
        # the advisory table: a prelude that does not compile (common_optional gone, ...) only switches it off
        rx = Row(0, "ex", {"op": "prelude"}, "true", "int", "type")
        usable["ex"] = False if flt else comp.compile([rx], "prelude-ex.cpp")[0]
        if not usable["ex"] and not flt:
            note = "the advisory table of PromoteExtra.tla (common_optional, time_point promotion) cannot be compiled against this tree (%s)" % cxx
            if note not in ctx.drift:
                ctx.drift.append(note)
        # ---- 3a. the oracle against the compiler
        if usable["pr"]:
            orows = [x for x in rows if x.spec["op"] in ORACLE_OPS]
            bad = run_table(ctx, comp, orows, 4 if q else 12, "oracle", rnd)
            if bad:
                x, out = bad[0]
                raise MachineryError("Promote.tla disagrees with %s on %s: spec says %s; this is a spec error, not a violation\n%s"
                                     % (cxx, x.subject, expected_text(x), out[-1500:]))
            ctx.log("%s: oracle cross-check, %d Add/Add3 rows agree with decltype(a + b)" % (cxx_name, len(orows)))
        # ---- 3b. xtl against the oracle
        for table, label, ntu in (("tl", "typelist", core.NCPU if q else 3 * core.NCPU), ("pr", "traits", max(2, core.NCPU // 2) if q else core.NCPU),
                                  ("ex", "companions", 2)):
            if not usable[table]:
                continue
            irows = [x for x in rows if x.table == table and x.spec["op"] not in ORACLE_OPS]
            bad = run_table(ctx, comp, irows, ntu, label, rnd)
            nrows_checked += len(irows)
            per_op = {}
            for x, out in bad:
                per_op.setdefault(x.spec["op"], []).append((x, out))
            for op, lst in sorted(per_op.items()):
                # (a row that fails with a hard error instead of a failed static_assert - the metafunction is gone, renamed or
                #  ill-formed for these arguments - is reported like any other: every row compiles against a tree where the
                #  property holds, whatever its private names are, because the rows use the public names of the statement only)
                if op in EXTRA_OPS:
                    # advisory: one line per operation (the first compiler that sees it), with the number of rows and the first one
                    if op in advisory_seen:
                        continue
                    advisory_seen.add(op)
                    x, out = lst[0]
                    rp = os.path.join(ctx.work, "advisory_%s.cpp" % op)
                    got = explain(ctx, cxx, x, atoms_p, rp, std)
                    ctx.drift.append("ADVISORY %s (not named by the statement): %d row(s) differ from %s, e.g. %s is %s ; expected: %s  [%s]"
                                     % (op, len(lst), {"pr": "Promote.tla", "tl": "TypeList.tla", "ex": "PromoteExtra.tla"}[table], x.subject, got,
                                        x.cond[:500], cxx_name))
                    ctx.notes.setdefault("advisory_rows", {})[op] = [json.dumps(y.spec, sort_keys=True)[:300] for y, _ in lst[:20]]
                    continue
                for x, out in lst[:4 if stride > 1 else 8]:
                    os.makedirs(ctx.replays, exist_ok=True)
                    rp = os.path.join(ctx.replays, "row_%s_%d_s%d%s.cpp" % (op, x.rid, ctx.seed, tag))
                    got = explain(ctx, cxx, x, atoms_p, rp, std)
                    text = "%s: %s is %s ; %s requires: %s  [%s; spec row %s]" % (
                        op, x.subject, got, {"pr": "Promote.tla", "tl": "TypeList.tla", "ex": "PromoteExtra.tla"}[table], x.cond[:700],
                        cxx_name + (" with A..D = " + json.dumps(atoms_p, sort_keys=True) if table == "tl" else ""),
                        json.dumps(x.spec, sort_keys=True)[:500])
                    ctx.violation(text, replay_path=rp)
            ctx.log("%s: %s table, %d rows asserted, %d rejected" % (cxx_name, label, len(irows), len(bad)))
        ctx.notes["compiles_" + cxx_name] = comp.compiles
        ctx.notes["rows_" + cxx_name] = len(rows)
    rows = all_rows
    for x in rows[:1] + [y for y in rows if y.spec["op"] == "Promote"][-1:] + [y for y in rows if y.spec["op"] == "MergeSet"][:1]:
        ctx.sample({"call": x.spec, "static_assert": x.cond[:400]})

    # ---- 4. static_if at run time
    nsi = static_if_stage(ctx, tl_spec)
    ctx.log("static_if: %d recorded calls validated by TLC" % nsi)

    ctx.cov["evaluations"] = nrows_checked + ctx.cov["events_validated"]
    ctx.cov["distinct_nontrivial"] = len(rows) + nsi
    return core.finish(
        ctx, "exploration",
        rule="exhaustive inside the bounds: every type list of length <= %d over 3 distinct atom types (+ patterns of length 5..%d), "
             "2 list templates, x every metafunction of the property x every argument (values: 3 atoms + 1 absent type; predicates: all 8 "
             "subsets; transform: 6 metafunctions (class templates of one, two (one defaulted) and any number of parameters, alias templates); "
             "split: every n <= size; merge_set: every second list of length <= %d with len1 + len2 <= %d; push: 0..2 types; switch_: 1..%d cases); "
             "15 two-deep compositions (unique(merge_set), merge_set(unique, unique), size(merge_set), index_of/count/unique/cast after transform, "
             "transform twice, find_if/index_of after unique, contains/front after pop_front, back/unique after push_back, pop after push) for "
             "every first list of length <= %d and every second list of length <= 3; every row carries second routes (the same observable "
             "through other metafunctions on the real templates); the equality-sensitive rows are asserted a second time over a confusable "
             "alphabet (4 distinct types equal after decay); every pack of 1..%d types out of 18 builtin arithmetic types + "
             "complex<float|double|long double>; packs of 1..2 const/volatile-qualified arithmetic types; "
             "conjunction/disjunction over every sequence of <= %d arguments out of 2 true, 2 false and 1 value-less class; apply_cv 12x4 and "
             "constify 36 cv/pointer/reference forms; static_if: 2 conditions x 2 forms x 5 x 5 callable shapes. Advisory tables: big/real/"
             "bool_promote_type (also on const / const& forms), concept helpers (variables, check_*, macros), all_scalar, the six "
             "classification traits on 22 type kinds incl. half_float, xcomplex, xoptional, promote_type with half_float / xcomplex / no "
             "argument, is_xoptional / is_xmasked_value / at_least_one_xoptional, is_complex / is_xcomplex / is_gen_complex, logical traits "
             "with int-valued members, void_t, the types of the value members, plus over mixed constants, common_optional, time_point. "
             "A case is one instantiation asserted (static_assert) against the TLC-computed table; "
             "the atoms are mapped to C++ types chosen by VERIF_SEED from a pool of %d."
             % (3 if q else 5, 40 if q else 64, 3 if q else 4, 6 if q else 7, 2 if q else 3, 3 if q else 4, 2 if q else 3, 3 if q else 4, len(ATOM_POOL)),
        assumptions=["the C++ compiler (g++ -std=c++14 on every row; clang++ -std=c++14 on every row in the thorough tier and on a seeded quarter "
                     "in the quick tier; -std=c++17: g++ on a seeded eighth, and clang++ on a seeded quarter in the thorough tier) evaluates "
                     "static_assert correctly",
                     "std::add_pointer_t is left out of the compositions whose answer depends on the equality of transformed elements (it is "
                     "not injective on C++ types)",
                     "Promote.tla's Add table is cross-checked against decltype(a + b) of the same compiler for all pairs (triples in thorough)",
                     "std::complex only with floating-point value types (others are unspecified by the standard)",
                     "where the statement leaves the answer open (a single type after leading bools; merge_set with a repeated first "
                     "operand; apply_cv/constify on rvalue references and const pointers) every reading is accepted"],
        exhaustive=True)

"""C10 - xcomplex arithmetic is complex arithmetic; ieee_compliant mode follows C99 Annex G.

Decidable parts of the property (accuracy on general doubles is outside TLA+, DESIGN.md section 7):

 A. Complex.tla (L1): register machine over exact Gaussian integers - value closures, T& and const T&
    closures, std::complex, real scalars; + - * / (division where the quotient is exact), compound and
    mixed forms, unary ops, conj/norm/proj, accessors incl. assignment through real()/imag(), ==/!=,
    conversions; for T in {float,double} x ieee_compliant in {false,true}.
      S->C: TLC enumerates every transition out of every initial state (all operand-kind patterns x small
            values; all pairs of Gaussian integers in a box x arithmetic patterns) and random walks
            (-simulate); each is replayed on the real objects by harness/complex/machine.cpp and the
            recorded trace (result + all 13 cells + views through the closures) is validated by TLC
            against ComplexTrace.tla.
      The operand-kind patterns the spec enables are also compiled as probes: an enabled call that does
      not compile is a violation (not a machinery error).
 B. AnnexG.tla (L1): allowed-result-class relation for * and / over {nan,+-inf,+-0,+-fin}^4.
      TLC checks the relation's own theorems on all 7^4 x 2 combinations;
      C->S: harness/complex/driver.cpp evaluates the real xcomplex<...,true> operators (5 operator variants,
            float and double, 6 representatives per finite class incl. seeded ones) and TLC validates every
            row of the recorded table (AnnexGCheck.tla), incl. "identical for value and reference closures".
      Extreme-divisor clause: TLC enumerates the cases (powers of two, exact quotient), the harness evaluates
      them, TLC validates sign/exponent/mantissa limbs.
"""
import json, os, random, re, subprocess
from concurrent.futures import ThreadPoolExecutor
from vlib import core, tlaval
from vlib.core import MachineryError

PID = "C10"
HDIR = os.path.join(core.HARNESS, "complex")
CFGS = [("float", 0), ("float", 1), ("double", 0), ("double", 1)]      # index = -DCFG value
ALL_ACTIONS = ["SetVal", "SetPart", "AssignScalar", "Assign", "CtorLv", "FromStd", "ToStd", "Bin", "BinS", "BinStd", "Cmp", "CmpS", "CmpP",
               "CmpStd", "Un", "Norm", "Part", "Eq", "EqStd", "EqReal", "Ctor", "Str", "Fwd"]     # + Load (script set-up only)
# second build of the Annex G harness (thorough tier): the baseline's optimisation flags.  Contraction of a*b+c into
# fused multiply-add is switched off: it is a compiler licence that rounds differently depending on how a call was inlined,
# so "identical for value and reference closures" is only a statement about the source-level arithmetic.
NATIVE_FLAGS = ["-O2", "-march=native", "-DNDEBUG", "-ffp-contract=off"]
OBSERVERS = {"Bin", "BinS", "BinStd", "Un", "Norm", "Part", "Eq", "EqStd", "EqReal", "Ctor", "Str", "Fwd"}


# ------------------------------------------------------------------ compile probes
PRELUDE = r"""
#include <xtl/xcomplex.hpp>
template <class T, bool B> void probe()
{
    using V = xtl::xcomplex<T, T, B>; using W = xtl::xcomplex<T, T, !B>;
    using R = xtl::xcomplex<T&, T&, B>; using K = xtl::xcomplex<const T&, const T&, B>;
    V v1(1, 2), v2(3, 4); W w(1, 1); T p1 = 1, q1 = 2, p2 = 3, q2 = 4;
    R r1(p1, q1), r2(p2, q2); K k1(p1, q1); std::complex<T> s(1, 1); T d = 2; int i = 2;
    (void)v1; (void)v2; (void)w; (void)r1; (void)r2; (void)k1; (void)s; (void)d; (void)i;
"""
POSTLUDE = r"""
}
template void probe<float, false>(); template void probe<float, true>();
template void probe<double, false>(); template void probe<double, true>();
int main() { return 0; }
"""
CREGS = ["v1", "v2", "w", "r1", "r2", "k1"]
MREGS = ["v1", "v2", "w", "r1", "r2"]
KIND = {"v1": "val", "v2": "val", "w": "val", "r1": "ref", "r2": "ref", "k1": "cref"}


def probe_families():
    """The operand-kind patterns Complex.tla enables, as C++ statements (one family per operation class)."""
    fam = {}
    fam["binary + - across closure kinds"] = ["{ auto z = %s + %s; auto y = %s - %s; (void)z; (void)y; }" % (a, b, a, b) for a in CREGS for b in CREGS]
    fam["binary * / across closure kinds"] = ["{ auto z = %s * %s; auto y = %s / %s; (void)z; (void)y; }" % (a, b, a, b) for a in CREGS for b in CREGS]
    fam["compound += -= across closure kinds"] = ["{ %s += %s; %s -= %s; }" % (a, b, a, b) for a in MREGS for b in CREGS]
    fam["compound *= /= across closure kinds"] = ["{ %s *= %s; %s /= %s; }" % (a, b, a, b) for a in MREGS for b in CREGS]
    fam["mixed real/complex, both orders"] = ["{ auto z = %s %s %s; (void)z; }" % (l, o, r) for a in CREGS for o in "+-*/" for sc in ("d", "i") for (l, r) in ((a, sc), (sc, a))]
    fam["compound with a real"] = ["{ %s %s= %s; }" % (a, o, sc) for a in MREGS for o in "+-*/" for sc in ("d", "i")]
    fam["unary - +, conj, proj, norm, explicit value conversion"] = \
        ["{ auto a = -%s; auto b = +%s; auto c = conj(%s); auto e = proj(%s); auto n = norm(%s); V t(%s); (void)a; (void)b; (void)c; (void)e; (void)n; (void)t; }" % ((a,) * 6) for a in CREGS]
    fam["assignment across closure kinds"] = ["{ %s = %s; }" % (a, b) for a in MREGS for b in CREGS if not (KIND[a] == "ref" and KIND[b] == "ref")] + \
        ["{ %s = d; %s = i; }" % (a, a) for a in MREGS]
    fam["== != across closure kinds"] = ["{ bool e = (%s == %s); bool n = (%s != %s); (void)e; (void)n; }" % (a, b, a, b) for a in CREGS for b in CREGS] + \
        ["{ bool e = (%s == V(s)) || (%s != V(d)) || (std::complex<T>(%s) == s); (void)e; }" % (a, a, a) for a in CREGS]
    fam["std::complex conversion and mixed forms"] = \
        ["{ auto z = %s %s V(s); auto y = V(s) %s %s; std::complex<T> x = %s %s s; (void)z; (void)y; (void)x; }" % (a, o, o, a, a, o) for a in CREGS for o in "+-*/"] + \
        ["{ %s %s= V(s); }" % (a, o) for a in MREGS for o in "+-*/"] + ["{ s = %s; std::complex<T> c(%s); (void)c; }" % (a, a) for a in CREGS] + \
        ["{ %s = s; }" % a for a in ("v1", "v2", "w")] + ["{ V t(s); V t2 = s; (void)t; (void)t2; }"]
    fam["real()/imag() accessors and assignment through them"] = \
        ["{ T a = %s.real() + %s.imag() + xtl::real(%s) + xtl::imag(%s); (void)a; }" % ((a,) * 4) for a in CREGS] + \
        ["{ %s.real() = d; %s.imag() = d; xtl::real(%s) = d; xtl::imag(%s) = d; }" % ((a,) * 4) for a in MREGS] + \
        ["{ xtl::real(s) = d; xtl::imag(s) = d; xtl::real(d) = 1; T a = xtl::real(s) + xtl::imag(s) + xtl::real(d) + xtl::imag(d); (void)a; }"]
    return fam


def run_probes(ctx):
    pdir = ctx.sub("probes")
    fams = probe_families()

    def one(item):
        idx, (name, stmts) = item
        src = os.path.join(pdir, "probe_%02d.cpp" % idx)
        pre = PRELUDE.count("\n")
        with open(src, "w") as f:
            f.write(PRELUDE + "\n".join("    " + s for s in stmts) + POSTLUDE)
        rc, out = core.sh([core.CXX, "-std=c++14", "-fsyntax-only", "-I", core.INCLUDE, src], timeout=300)
        if rc == 0:
            return None
        if rc == 124:
            raise MachineryError("compile probe timed out: " + name)
        # which statement: the first diagnostic that points into the probe file
        stmt, first = None, None
        for line in out.splitlines():
            m = re.match(r"%s:(\d+):\d+:\s+(?:required from|error)" % re.escape(src), line.strip())
            if m and stmt is None:
                k = int(m.group(1)) - pre - 1
                if 0 <= k < len(stmts):
                    stmt = stmts[k]
            if " error: " in line and first is None:
                first = line.strip()
        return name, stmt or "(statement not identified)", first or out[-400:], stmts

    with ThreadPoolExecutor(max_workers=6) as ex:
        res = list(ex.map(one, enumerate(sorted(fams.items()))))
    failed = [r for r in res if r]
    for name, stmt, err, stmts in failed:
        ctx.violation("a call Complex.tla enables does not compile - family '%s': %s  ; compiler: %s" % (name, stmt, err[:600]),
                      replay_lines=[{"op": "CompileProbe", "a": {"family": name}}])
    ctx.notes["compile_probe_families"] = len(fams)
    ctx.notes["compile_probe_statements"] = sum(len(v) for v in fams.values())
    return failed


# ------------------------------------------------------------------ helpers
def emitted(out, tag):
    res, seen = [], set()
    for line in out.splitlines():
        if line.startswith('"' + tag):
            s = json.loads(line)[len(tag):]
            if s not in seen:
                seen.add(s)
                res.append(json.loads(s))
    return res


def write_lines(path, lines):
    with open(path, "w") as f:
        for l in lines:
            f.write((l if isinstance(l, str) else json.dumps(l, separators=(",", ":"))) + "\n")


def run_stdin(argv, inp, outp, timeout=1200):
    env = dict(os.environ); env.update(core.ASAN_ENV)
    with open(inp) as fin, open(outp, "w") as fout:
        p = subprocess.run(argv, stdin=fin, stdout=fout, stderr=subprocess.PIPE, env=env, timeout=timeout)
    if p.returncode == 3:
        raise MachineryError("harness rejected its input %s: %s" % (inp, p.stderr.decode(errors="replace")[-500:]))
    return p.returncode


def build_all(ctx, native=False):
    """driver (Annex G) and one machine binary per (T, B)."""
    jobs = [{"src": os.path.join(HDIR, "driver.cpp"), "out": os.path.join(ctx.work, "driver")}]
    for i in range(4):
        jobs.append({"src": os.path.join(HDIR, "machine.cpp"), "out": os.path.join(ctx.work, "machine%d" % i), "flags": ["-DCFG=%d" % i, "-O0"]})   # -O0: 3x faster to compile; small integers are exact at any level
    if native:
        jobs.append({"src": os.path.join(HDIR, "driver.cpp"), "out": os.path.join(ctx.work, "driver_native"),
                     "flags": NATIVE_FLAGS, "asan": False})
    core.build_many(ctx, jobs)
    return jobs


# ------------------------------------------------------------------ part B: Annex G
def annexg_classes(ctx, drv, seed, tag):
    """Run the harness table for one seed/binary and validate it with TLC.  Returns list of BAD dicts."""
    d = ctx.sub("annexg")
    raw = os.path.join(d, "classes-%s.ndjson" % tag)
    rc, err = core.run_bin(ctx, [drv, "classes", str(seed)], timeout=600, stdout_path=raw)
    if rc != 0:
        raise MachineryError("driver classes failed rc=%s: %s" % (rc, err[-800:]))
    with open(raw) as f:
        lines = [l for l in f if l.strip()]
    meta = json.loads(lines[0])["_meta"]
    table = os.path.join(d, "classes-%s.table" % tag)
    with open(table, "w") as f:
        f.writelines(lines[1:])
    r = core.tlc(ctx, "AnnexGCheck", "AnnexGCheck_classes.cfg", name="annexg-table-" + tag, env={"TABLE": table},
                 extra=["-continue"], workers=6, timeout=900)
    bad = emitted(r["out"], "@BAD@")
    if r["distinct"] != 6174:
        raise MachineryError("AnnexGCheck did not visit all 6174 table rows (%s), see %s" % (r["distinct"], r["outfile"]))
    if bool(r["violated"]) != bool(bad):
        raise MachineryError("AnnexGCheck: invariant verdict and reported rows disagree, see %s" % r["outfile"])
    nevals = 0
    for l in lines[1:]:
        row = json.loads(l)
        for t in row["r"].values():
            for v in t.values():
                nevals += v["n"]
    ctx.cov["evaluations"] += nevals
    ctx.cov["states"] += r["distinct"]
    ctx.log("Annex G table (%s, seed %d): %d rows validated by TLC, %d operator evaluations, %d rows rejected" % (tag, seed, r["distinct"], nevals, len(bad)))
    return bad, meta


def bad_key(b):
    k = b["key"]
    return json.dumps([k["f"], k["x"], k["y"]])


def report_class_bad(ctx, drv, seed, tag, bad, again):
    keys_again = {bad_key(b) for b in again}
    for b in bad[:12]:
        if bad_key(b) not in keys_again:
            raise MachineryError("non-reproducible Annex G rejection %s" % bad_key(b))
        k = b["key"]
        f0 = b["fails"][0]
        t = f0["t"] if f0["t"] in ("float", "double") else "double"
        rc, detail = core.run_bin(ctx, [drv, "detail", t, k["f"], k["x"][0], k["x"][1], k["y"][0], k["y"][1], str(seed)], timeout=120)
        # keep the representatives whose result class is one of the rejected ones
        want = {"[%s,%s]" % (x["out"][0], x["out"][1]) for x in b["fails"]}
        dl = [l for l in detail.splitlines() if any(w in l for w in want)][:3]
        grp = {}
        for x in b["fails"]:
            grp.setdefault(("(%s,%s)" % (x["out"][0], x["out"][1]), x["why"]), set()).add("%s/%s" % (x["t"], x["v"]))
        text = "Annex G (%s): %s x=%s y=%s : %s ; e.g. %s" % (
            tag, k["f"], k["x"], k["y"],
            "; ".join("result %s breaks '%s' [%s]" % (o, why, ",".join(sorted(vs))) for (o, why), vs in sorted(grp.items()))[:1100],
            " | ".join(s.strip() for s in dl)[:700])
        ctx.violation(text, replay_lines=[{"op": "AnnexGRow", "a": {"key": k, "seed": seed, "native": tag.startswith("native")}}])
    if len(bad) > 12:
        ctx.log("... and %d more rejected Annex G rows" % (len(bad) - 12))


def extreme_cases(ctx, quick):
    r = core.tlc(ctx, "AnnexGMC", "AnnexG_extreme_quick.cfg" if quick else "AnnexG_extreme.cfg", name="extreme-enumerate", workers=4, timeout=900)
    if r["violated"]:
        raise MachineryError("AnnexG.tla violates its own law %s (oracle bug), see %s" % (r["violated"], r["outfile"]))
    cases = emitted(r["out"], "@X@")
    r["out"] = ""
    if len(cases) != r["distinct"] or not cases:
        raise MachineryError("extreme-divisor enumeration: %d cases written, %d states" % (len(cases), r["distinct"]))
    return cases


def annexg_extreme(ctx, drv, cases):
    d = ctx.sub("extreme")
    cpath, tpath = os.path.join(d, "cases.ndjson"), os.path.join(d, "extreme.table")
    write_lines(cpath, cases)
    run_stdin([drv, "extreme"], cpath, tpath)
    bad = validate_extreme(ctx, tpath, len(cases), "extreme-table")
    ctx.cov["evaluations"] += 3 * len(cases)
    ctx.cov["transitions"] += len(cases)
    ctx.log("extreme-divisor clause: %d cases enumerated by TLC, evaluated (3 operator variants) and validated; %d rejected" % (len(cases), len(bad)))
    if bad:
        # repeat before reporting
        t2 = os.path.join(d, "extreme-again.table")
        run_stdin([drv, "extreme"], cpath, t2)
        again = {json.dumps(b["key"], sort_keys=True) for b in validate_extreme(ctx, t2, len(cases), "extreme-table-again")}
        for b in bad[:8]:
            if json.dumps(b["key"], sort_keys=True) not in again:
                raise MachineryError("non-reproducible extreme-divisor rejection %s" % b["key"])
            k = b["key"]
            text = "extreme divisor (%s): (%s * 2^%d) / (%s * 2^%d) should be %s * 2^%d exactly; %s" % (
                k["t"], k["n"], k["m"], k["u"], k["k"], k["q"], k["m"] - k["k"],
                "; ".join("%s part %d got %s expected %s" % (x["v"], x["part"], x["got"], x["exp"]) for x in b["fails"])[:1200])
            ctx.violation(text, replay_lines=[{"op": "ExtremeCase", "a": k}])
    return bad


def validate_extreme(ctx, tpath, ncases, name):
    r = core.tlc(ctx, "AnnexGCheck", "AnnexGCheck_extreme.cfg", name=name, env={"TABLE": tpath}, extra=["-continue"], workers=6, timeout=900)
    bad = emitted(r["out"], "@BAD@")
    if r["distinct"] != ncases:
        raise MachineryError("AnnexGCheck(extreme) visited %d of %d records, see %s" % (r["distinct"], ncases, r["outfile"]))
    if bool(r["violated"]) != bool(bad):
        raise MachineryError("AnnexGCheck(extreme): invariant verdict and reported rows disagree, see %s" % r["outfile"])
    r["out"] = ""
    return bad


# ------------------------------------------------------------------ part A: register machine
def edge_script(edges, t, b, share=None):
    """One execution per initial state: Reset, Load, then every call out of that state; observers first,
    then the mutators, each preceded by a Load that re-establishes the state.  share = (i, n, rot): only the
    initial states whose rank is congruent to i modulo n (rotated by the seed) - the quick tier spreads the
    initial states over the four instantiations."""
    by = {}
    for e in edges:
        by.setdefault(json.dumps(e["p"]), []).append(e["l"])
    lines, taken = [], 0
    for rank, key in enumerate(sorted(by)):
        if share and (rank + share[2]) % share[1] != share[0]:
            continue
        p = json.loads(key)
        calls = sorted(by[key], key=lambda c: c["op"] not in OBSERVERS)
        lines.append({"op": "Reset", "a": {"t": t, "b": bool(b)}})
        lines.append({"op": "Load", "a": {"c": p}})
        dirty = False
        for c in calls:
            if dirty:
                lines.append({"op": "Load", "a": {"c": p}})
            lines.append(c)
            taken += 1
            dirty = c["op"] not in OBSERVERS
    return lines, taken


def sim_script(simdir, t, b):
    lines, n = [], 0
    for fn in sorted(os.listdir(simdir)):
        states = tlaval.parse_sim_trace(os.path.join(simdir, fn))
        if len(states) < 2:
            continue
        lines.append({"op": "Reset", "a": {"t": t, "b": bool(b)}})
        lines.append({"op": "Load", "a": {"c": states[0]["mem"]}})
        for s in states[1:]:
            lines.append({"op": s["last"]["op"], "a": s["last"]["a"]})
        n += 1
    return lines, n


def chunk_by_reset(lines, nchunks):
    starts = [i for i, l in enumerate(lines) if l["op"] == "Reset"]
    if not starts:
        return [lines]
    per = max(1, (len(starts) + nchunks - 1) // nchunks)
    cuts = starts[::per]
    return [lines[a:b] for a, b in zip(cuts, cuts[1:] + [len(lines)])]


def machine_of(ctx, t, b):
    return os.path.join(ctx.work, "machine%d" % CFGS.index((t, int(bool(b)))))


def enumerate_edges(ctx, q, which):
    """TLC: every transition out of every initial state (also checks TypeOK, Aliases, Frame on them)."""
    cfg, what = {"kinds": ("Complex_s2c_kinds_quick.cfg" if q else "Complex_s2c_kinds.cfg", "all operations x all operand-kind patterns"),
                 "values": ("Complex_s2c_values_quick.cfg" if q else "Complex_s2c_values.cfg", "all pairs of Gaussian integers in the box x arithmetic patterns")}[which]
    r = core.tlc_model_check(ctx, "ComplexMC", cfg, "L1 %s; invariants + frame property" % what, workers=4, heap="8g", timeout=1500,
                             coverage=(not q and which == "kinds"))
    if r["violated"]:
        raise MachineryError("L1 spec Complex.tla violates its own theorem %s (oracle bug), see %s" % (r["violated"], r["outfile"]))
    es = emitted(r["out"], "@E@")
    if "coverage" in r:
        ctx.notes["l1_action_coverage"] = r["coverage"]
    r["out"] = ""
    if not es:
        raise MachineryError("no transitions written by %s" % cfg)
    ctx.notes["s2c_transitions_" + which] = len(es)
    return es


def simulate(ctx, q):
    """TLC simulation walks (longer histories)."""
    simdir = ctx.sub("sim")
    core.tlc(ctx, "ComplexMC", "Complex_sim.cfg", name="s2c-simulate", simulate="file=%s/t,num=%d" % (simdir, 30 if q else 100),
             extra=["-depth", "20" if q else "30", "-seed", str(ctx.seed)], workers=1 if q else 4, timeout=900)
    return simdir


def register_machine(ctx, q, edges_k, edges_v, simdir):
    edges = edges_k + edges_v
    ops = {}
    for e in edges:
        ops[e["l"]["op"]] = ops.get(e["l"]["op"], 0) + 1
    ctx.notes["s2c_transitions_by_operation"] = ops
    # vacuity: every action of Complex.tla must have been taken by TLC (TLC's own -coverage only sees Next as a whole)
    ctx.notes["vacuous_actions"] = sorted(set(ALL_ACTIONS) - set(ops))
    # ---- scripts per instantiation
    tdir = ctx.sub("traces")
    traces, nexec, replayed = [], 0, 0
    jobs = []
    for ci, (t, b) in enumerate(CFGS):
        share = (ci, 4, ctx.seed % 4) if q else None
        lines, taken = edge_script(edges_k, t, b, share)
        l2, t2 = edge_script(edges_v, t, b, share)
        lines += l2
        replayed += taken + t2
        sl, nwalks = sim_script(simdir, t, b)
        ctx.notes["s2c_simulation_walks"] = nwalks
        for i, ch in enumerate(chunk_by_reset(lines, 2 if q else 6) + [sl]):
            if ch:
                jobs.append(("%s-%d-%02d" % (t, b, i), t, b, ch))
    ctx.sample({"script": [json.dumps(x) for x in jobs[0][3][:10]]})
    ctx.sample({"walk": [json.dumps(x) for x in jobs[2 if q else 6][3][:12]]})

    def runone(job):
        name, t, b, lines = job
        sp, tp = os.path.join(tdir, name + ".script"), os.path.join(tdir, name + ".ndjson")
        write_lines(sp, lines)
        run_stdin([machine_of(ctx, t, b), t, str(b)], sp, tp)
        return tp, sum(1 for l in lines if l["op"] == "Reset")

    with ThreadPoolExecutor(max_workers=8) as ex:
        for tp, ne in ex.map(runone, jobs):
            traces.append(tp)
            nexec += ne
    ctx.cov["traces_validated_against_impl"] += nexec
    ctx.notes["s2c_transitions_enumerated"] = len(edges)
    ctx.notes["s2c_transitions_replayed"] = replayed
    ctx.log("S->C: %d L1 transitions enumerated by TLC; %d calls replayed over the 4 instantiations (T x ieee_compliant)%s; %d simulation walks on each" % (
        len(edges), replayed, " (initial states spread over them)" if q else "", ctx.notes.get("s2c_simulation_walks", 0)))
    before = ctx.cov["events_validated"]
    core.validate_traces(ctx, "ComplexTrace", "ComplexTrace.cfg", traces, parallel=6, max_restarts=2)
    ctx.cov["evaluations"] += ctx.cov["events_validated"] - before
    ctx.log("validated %d events in %d traces (%d executions)" % (ctx.cov["events_validated"] - before, len(traces), nexec))


# ------------------------------------------------------------------ replay
def replay(ctx, path):
    lines = [l for l in core.read_ndjson(path) if "_meta" not in l]
    if not lines:
        print("empty replay file")
        return 2
    first = lines[0]
    if first["op"] == "CompileProbe":
        failed = run_probes(ctx)
        hit = [f for f in failed if f[0] == first["a"]["family"]]
        if not hit:
            print("replay accepted: every call of family '%s' compiles" % first["a"]["family"])
            return 0
        print("VIOLATION property=C10 replay=%s" % path)
        print("  %s: %s ; %s" % (hit[0][0], hit[0][1], hit[0][2][:500]))
        return 1
    if first["op"] == "AnnexGRow":
        a = first["a"]
        drv = os.path.join(ctx.work, "driver")
        if a.get("native"):
            core.build(ctx, os.path.join(HDIR, "driver.cpp"), drv, flags=NATIVE_FLAGS, asan=False)
        else:
            core.build(ctx, os.path.join(HDIR, "driver.cpp"), drv)
        bad, _ = annexg_classes(ctx, drv, a["seed"], "replay")
        want = json.dumps([a["key"]["f"], a["key"]["x"], a["key"]["y"]])
        hit = [b for b in bad if bad_key(b) == want]
        if not hit:
            print("replay accepted: the row %s now conforms to AnnexG.tla" % want)
            return 0
        print("VIOLATION property=C10 replay=%s" % path)
        print("  " + json.dumps(hit[0])[:1500])
        return 1
    if first["op"] == "ExtremeCase":
        drv = os.path.join(ctx.work, "driver")
        core.build(ctx, os.path.join(HDIR, "driver.cpp"), drv)
        d = ctx.sub("extreme")
        cpath, tpath = os.path.join(d, "case.ndjson"), os.path.join(d, "case.table")
        write_lines(cpath, [first["a"]])
        run_stdin([drv, "extreme"], cpath, tpath)
        bad = validate_extreme(ctx, tpath, 1, "extreme-replay")
        if not bad:
            print("replay accepted: the case now conforms to AnnexG.tla")
            return 0
        print("VIOLATION property=C10 replay=%s" % path)
        print("  " + json.dumps(bad[0])[:1500])
        return 1
    # a register machine execution
    reset = next((l for l in lines if l["op"] == "Reset"), {"a": {"t": "double", "b": True}})
    t, b = reset["a"]["t"], int(bool(reset["a"]["b"]))
    exe = os.path.join(ctx.work, "machine%d" % CFGS.index((t, b)))
    core.build(ctx, os.path.join(HDIR, "machine.cpp"), exe, flags=["-DCFG=%d" % CFGS.index((t, b)), "-O0"])
    sp, tp = os.path.join(ctx.work, "replay.script"), os.path.join(ctx.work, "replay.ndjson")
    write_lines(sp, lines)
    run_stdin([exe, t, str(b)], sp, tp)
    r = core.validate_trace(ctx, "ComplexTrace", "ComplexTrace.cfg", tp)
    if r["accepted"]:
        print("replay accepted: the recorded calls now conform to Complex.tla")
        return 0
    print("VIOLATION property=C10 replay=%s" % path)
    print("  rejected at event %d; spec expected: %s" % (r["fail_line"] + 1, r.get("expected")))
    return 1


# ------------------------------------------------------------------ selftest (DESIGN.md section 10: corrupted records are rejected)
def selftest(ctx):
    """Corrupt one field of a recorded trace / table row / extreme record and show that TLC rejects exactly there."""
    import copy
    build_all(ctx, native=False)
    ok = True
    # (a) register machine trace: flip one cell of the logged state at event 9
    script = [{"op": "Reset", "a": {"t": "double", "b": True}}, {"op": "Load", "a": {"c": [1, 2, 3, 4, 5, 6, 7, 8, 9, 10, 11, 12, 2]}}]
    script += [{"op": "Cmp", "a": {"o": o, "x": x, "y": y}} for (o, x, y) in (("add", "r1", "v1"), ("mul", "v1", "k1"), ("sub", "r2", "w"), ("mul", "r1", "r2"))]
    script += [{"op": "Bin", "a": {"o": "mul", "x": "k1", "y": "r2"}}, {"op": "CmpS", "a": {"o": "mul", "x": "r2", "st": "T"}},
               {"op": "Cmp", "a": {"o": "div", "x": "r2", "y": "r2"}}, {"op": "Eq", "a": {"ne": False, "x": "r1", "y": "k1"}},
               {"op": "Part", "a": {"x": "k1", "part": "im", "via": "free"}}]
    sp, tp = os.path.join(ctx.work, "st.script"), os.path.join(ctx.work, "st.ndjson")
    write_lines(sp, script)
    run_stdin([machine_of(ctx, "double", 1), "double", "1"], sp, tp)
    r = core.validate_trace(ctx, "ComplexTrace", "ComplexTrace.cfg", tp)
    print("selftest: unmodified trace accepted: %s (%d events)" % (r["accepted"], r["total"]))
    ok &= r["accepted"]
    lines = [json.loads(l) for l in open(tp) if l.strip()]
    for (idx, what, mut) in ((8, "a referent cell in the logged state", lambda e: e["st"]["cells"].__setitem__(8, e["st"]["cells"][8] + 1)),
                             (6, "the returned product", lambda e: e["res"].__setitem__(1, e["res"][1] - 1)),
                             (9, "the result of ==", lambda e: e.__setitem__("res", not e["res"]))):
        cl = copy.deepcopy(lines)
        mut(cl[idx])
        cp = os.path.join(ctx.work, "st-corrupt-%d.ndjson" % idx)
        write_lines(cp, cl)
        r = core.validate_trace(ctx, "ComplexTrace", "ComplexTrace.cfg", cp)
        good = (not r["accepted"]) and r.get("fail_line") == idx
        print("selftest: corrupted %s at event %d -> rejected at event %s : %s" % (what, idx + 1, r.get("fail_line", -1) + 1, "ok" if good else "NOT DETECTED"))
        ok &= good
    # (b) Annex G table: replace one observed result class
    drv = os.path.join(ctx.work, "driver")
    bad, _ = annexg_classes(ctx, drv, ctx.seed, "selftest")
    ok &= not bad
    tab = os.path.join(ctx.work, "annexg", "classes-selftest.table")
    rows = [json.loads(l) for l in open(tab)]
    i = next(j for j, r0 in enumerate(rows) if r0["f"] == "div" and r0["x"] == ["pfin", "pz"] and r0["y"] == ["pinf", "nan"])
    rows[i]["r"]["float"]["rk"]["outs"] = [["pz", "nan"]]
    write_lines(tab + ".corrupt", rows)
    r = core.tlc(ctx, "AnnexGCheck", "AnnexGCheck_classes.cfg", name="selftest-table", env={"TABLE": tab + ".corrupt"}, extra=["-continue"], workers=4)
    b = emitted(r["out"], "@BAD@")
    good = len(b) == 1 and b[0]["key"]["x"] == ["pfin", "pz"] and b[0]["key"]["y"] == ["pinf", "nan"]
    print("selftest: corrupted one result class in row %d of the Annex G table -> %d row(s) rejected: %s" % (i + 1, len(b), "ok" if good else "NOT DETECTED"))
    ok &= good
    # (c) extreme record: exponent off by one
    case = {"t": "float", "q": [3, -1], "u": [1, 1], "n": [4, 2], "m": 0, "k": 126}
    cpath, tpath = os.path.join(ctx.work, "st-case.ndjson"), os.path.join(ctx.work, "st-case.table")
    write_lines(cpath, [case])
    run_stdin([drv, "extreme"], cpath, tpath)
    ok &= not validate_extreme(ctx, tpath, 1, "selftest-extreme")
    rec = json.loads(open(tpath).read())
    rec["r"]["rc"][0]["e"] += 1
    write_lines(tpath + ".corrupt", [rec])
    b = validate_extreme(ctx, tpath + ".corrupt", 1, "selftest-extreme-corrupt")
    print("selftest: corrupted one exponent of an extreme-divisor record -> %d record(s) rejected: %s" % (len(b), "ok" if len(b) == 1 else "NOT DETECTED"))
    ok &= len(b) == 1
    print("selftest %s" % ("passed" if ok else "FAILED"))
    return 0 if ok else 2


# ------------------------------------------------------------------ run
def run(ctx):
    q = ctx.quick
    ctx.cov["evaluations"] = 0
    pool = ThreadPoolExecutor(max_workers=8)
    # everything that needs no harness runs while the harnesses compile
    fprobe = pool.submit(run_probes, ctx)          # 0. the calls the spec enables must exist
    fbuild = pool.submit(build_all, ctx, not q)
    flaws = pool.submit(core.tlc_model_check, ctx, "AnnexGMC", "AnnexG_mc.cfg",
                        "Annex G allowed-result relation: partition, satisfiable, symmetric, sign-blind, NaN only where unspecified (7^4 x {mul,div})",
                        workers=2, coverage=not q)
    fcases = pool.submit(extreme_cases, ctx, q)
    fek = pool.submit(enumerate_edges, ctx, q, "kinds")
    fev = pool.submit(enumerate_edges, ctx, q, "values")
    fsim = pool.submit(simulate, ctx, q)

    failed = fprobe.result()
    ctx.log("compile probes: %d families, %d statements, %d families fail" % (ctx.notes["compile_probe_families"], ctx.notes["compile_probe_statements"], len(failed)))
    r = flaws.result()
    if r["violated"]:
        raise MachineryError("AnnexG.tla violates its own theorem %s (oracle bug), see %s" % (r["violated"], r["outfile"]))
    if r["distinct"] != 4802:
        raise MachineryError("AnnexGMC did not enumerate 7^4 x 2 combinations: %s" % r["distinct"])
    if "coverage" in r:
        ctx.notes["annexg_relation_coverage"] = r["coverage"]
    have = True
    try:
        fbuild.result()
    except MachineryError:
        if not failed:
            raise
        have = False      # the headers lack calls the harnesses make: already reported as violations
        ctx.log("harnesses do not build on this tree (calls missing, see the violations): conformance runs skipped")
    cases, edges_k, edges_v, simdir = fcases.result(), fek.result(), fev.result(), fsim.result()
    ctx.notes["extreme_cases_enumerated_by_tlc"] = len(cases)

    if have:
        # ---- A. register machine (S->C), in the background
        fmach = pool.submit(register_machine, ctx, q, edges_k, edges_v, simdir)
        # ---- B. Annex G class tables (C->S) and the extreme-divisor clause
        drv = os.path.join(ctx.work, "driver")
        fext = pool.submit(annexg_extreme, ctx, drv, cases)
        runs = [(drv, ctx.seed, "asan-O1")]
        if not q:
            runs += [(drv, ctx.seed * 7919 + 13, "asan-O1-s2"), (drv, ctx.seed * 104729 + 71, "asan-O1-s3"),
                     (os.path.join(ctx.work, "driver_native"), ctx.seed, "native-O2")]
        reps = {}
        for (d, seed, tag) in runs:
            bad, meta = annexg_classes(ctx, d, seed, tag)
            reps[tag] = meta["reps"]
            if bad:
                again, _ = annexg_classes(ctx, d, seed, tag + "-again")
                report_class_bad(ctx, d, seed, tag, bad, again)
        ctx.notes["annexg_representatives"] = reps
        ctx.sample({"annexg_row": open(os.path.join(ctx.work, "annexg", "classes-asan-O1.table")).readlines()[1500][:600]})
        fext.result()
        fmach.result()
    pool.shutdown()

    # distinct cases: TLC-deduplicated L1 transitions (state, call, arguments), TLC-enumerated extreme-divisor cases and the
    # 6174 distinct Annex G class rows; representatives / instantiations / operator variants of the same case are not counted again
    ctx.cov["distinct_nontrivial"] = (ctx.notes.get("s2c_transitions_enumerated", 0)
                                      + ctx.notes.get("extreme_cases_enumerated_by_tlc", 0) + 6174)
    return core.finish(
        ctx, "exploration",
        rule="distinct_nontrivial = distinct TLC-enumerated L1 transitions + distinct extreme-divisor cases + 6174 Annex G class rows "
             "(every one involves an arithmetic or aliasing operation on the real objects; repeats over representatives, instantiations "
             "and operator variants are not counted again). (A) Gaussian integers: TLC enumerates every L1 transition out of every initial state - all operations x all operand-kind "
             "patterns over {v,v,w(!B),T&,T&,const T&,std::complex,real} with components in %s, and all pairs of Gaussian integers with "
             "components in %s x arithmetic patterns - plus %d random walks; replayed on float/double x ieee_compliant false/true (quick: "
             "initial states spread over the four) and every recorded step (result, 13 cells, views through closures) validated by TLC. "
             "(B) Annex G: all 7^4 operand class combinations x {mul,div} + 7^3 x 4 mixed real forms, 6 representatives per finite class "
             "(1, 2.5, tiny/huge normal, 2 seeded), float and double, 5 operator variants; extreme-divisor clause on exactly representable "
             "quotients (divisor scale 2^k up to the ends of the normal range). A case is one operator evaluation on the real objects." % (
                 "{-1,0,2}" if q else "{-2,-1,0,3}", "-2..2" if q else "-3..3", 30 if q else 400),
        assumptions=["accuracy ('within a few units of rounding') on general finite doubles is NOT checked: only operands whose exact result is "
                     "representable (small Gaussian integers; powers of two for the extreme-divisor clause), where correct means equal",
                     "division is exercised only where the quotient is a Gaussian integer and the divisor's component ratio is dyadic "
                     "(textbook, scaled Annex G and Smith's algorithm are all exact there)",
                     "'finite operands never yield NaN' is read with the property's own definition: a result with an infinite part is an infinity, not a NaN",
                     "the sign of zero results and NaN payloads are not compared; the non-ieee path is not checked on special values (the property says nothing)",
                     "harnesses are built in ISO mode (-std=c++14: no floating-point contraction); elementary functions other than conj/norm/proj are not checked"],
        exhaustive=False)

"""C10 - xcomplex arithmetic is complex arithmetic; ieee_compliant mode follows C99 Annex G.

Decidable parts of the property (accuracy on general doubles is outside TLA+, DESIGN.md section 7):

 A. Complex.tla (L1): register machine over exact Gaussian integers - value closures, T& and const T&
    closures, std::complex, real scalars; + - * / (division where the quotient is exact), compound and
    mixed forms, unary ops, conj/norm/proj, accessors incl. assignment through real()/imag(), ==/!=,
    conversions; for T in {float,double} x ieee_compliant in {false,true}.
      S->C: TLC enumerates every transition out of every initial state (all operand-kind patterns x small
            values; all pairs of Gaussian integers in a box x arithmetic patterns) and random walks
            (-simulate); each is replayed on the real objects by harness/complex/machine.cpp and the
            recorded trace (result + all 13 cells + views through the closures) is validated by TLC
            against ComplexTrace.tla.
      The operand-kind patterns the spec enables are also compiled as probes: an enabled call that does
      not compile is a violation (not a machinery error).
 B. AnnexG.tla (L1): allowed-result-class relation for * and / over {nan,+-inf,+-0,+-fin}^4.
      TLC checks the relation's own theorems on all 7^4 x 2 combinations;
      C->S: harness/complex/driver.cpp evaluates the real xcomplex<...,true> operators (5 operator variants,
            float and double, 6 representatives per finite class incl. seeded ones) and TLC validates every
            row of the recorded table (AnnexGCheck.tla), incl. "identical for value and reference closures".
      Extreme-divisor clause: TLC enumerates the cases (powers of two, exact quotient), the harness evaluates
      them, TLC validates sign/exponent/mantissa limbs.
 E. ComplexAcc.tla (L1, round 3): the first clause on GENERAL finite, well-scaled operands.  Operands are dyadic rationals, so the
    exact sum / product / (multiplied through) quotient are integers; TLC decides  |computed - exact| <= k u |exact|  with exact
    integer arithmetic on base-4096 limb vectors (+ - componentwise 2u, * / normwise 16u, real operand componentwise 16u), bit-identity
    of the variants that use the same algorithm (value / T& / const T& closures, binary / compound), and - advisory - the signs
    of zero results where IEEE 754 on the components pins them.  Cases: a TLC-enumerated boundary grid + seeded random operands.
"""
import json, os, random, re, subprocess
from concurrent.futures import ThreadPoolExecutor
from vlib import core, tlaval
from vlib.core import MachineryError

PID = "C10"
HDIR = os.path.join(core.HARNESS, "complex")
CFGS = [("float", 0), ("float", 1), ("double", 0), ("double", 1), ("ldouble", 0), ("ldouble", 1)]      # index = -DCFG value; long double: thorough tier only
ALL_ACTIONS = ["SetVal", "SetPart", "AssignScalar", "Assign", "AssignMove", "Swap", "CtorLv", "FromStd", "ToStd", "Bin", "BinS", "BinStd", "Cmp", "CmpS", "CmpP",
               "CmpStd", "Un", "Norm", "Part", "Eq", "EqStd", "EqReal", "Ctor", "Str", "Fwd"]     # + Load (script set-up only)
# second build of the Annex G harness (thorough tier): the baseline's optimisation flags.  Contraction of a*b+c into
# fused multiply-add is switched off: it is a compiler licence that rounds differently depending on how a call was inlined,
# so "identical for value and reference closures" is only a statement about the source-level arithmetic.
NATIVE_FLAGS = ["-O2", "-march=native", "-DNDEBUG", "-ffp-contract=off"]
CLANG_FLAGS = ["-O2", "-DNDEBUG", "-ffp-contract=off"]        # third build (thorough tier): another compiler
OBSERVERS = {"Bin", "BinS", "BinStd", "Un", "Norm", "Part", "Eq", "EqStd", "EqReal", "Ctor", "Str", "Fwd"}


# ------------------------------------------------------------------ compile probes
PRELUDE = r"""
#include <xtl/xcomplex.hpp>
#include <sstream>
template <class T, bool B> void probe()
{
    using V = xtl::xcomplex<T, T, B>; using W = xtl::xcomplex<T, T, !B>;
    using R = xtl::xcomplex<T&, T&, B>; using K = xtl::xcomplex<const T&, const T&, B>;
    V v1(1, 2), v2(3, 4); W w(1, 1); T p1 = 1, q1 = 2, p2 = 3, q2 = 4;
    R r1(p1, q1), r2(p2, q2); K k1(p1, q1); std::complex<T> s(1, 1); T d = 2; int i = 2;
    long l = 2; float f = 2; double dd = 2; long double ld = 2;
    (void)v1; (void)v2; (void)w; (void)r1; (void)r2; (void)k1; (void)s; (void)d; (void)i; (void)l; (void)f; (void)dd; (void)ld;
"""
POSTLUDE = r"""
}
template void probe<float, false>(); template void probe<float, true>();
template void probe<double, false>(); template void probe<double, true>();
int main() { return 0; }
"""
CREGS = ["v1", "v2", "w", "r1", "r2", "k1"]
MREGS = ["v1", "v2", "w", "r1", "r2"]
KIND = {"v1": "val", "v2": "val", "w": "val", "r1": "ref", "r2": "ref", "k1": "cref"}


def probe_families():
    """The operand-kind patterns Complex.tla enables, as C++ statements (one family per operation class)."""
    fam = {}
    fam["binary + - across closure kinds"] = ["{ auto z = %s + %s; auto y = %s - %s; (void)z; (void)y; }" % (a, b, a, b) for a in CREGS for b in CREGS]
    fam["binary * / across closure kinds"] = ["{ auto z = %s * %s; auto y = %s / %s; (void)z; (void)y; }" % (a, b, a, b) for a in CREGS for b in CREGS]
    fam["compound += -= across closure kinds"] = ["{ %s += %s; %s -= %s; }" % (a, b, a, b) for a in MREGS for b in CREGS]
    fam["compound *= /= across closure kinds"] = ["{ %s *= %s; %s /= %s; }" % (a, b, a, b) for a in MREGS for b in CREGS]
    fam["mixed real/complex, both orders"] = ["{ auto z = %s %s %s; (void)z; }" % (l, o, r) for a in CREGS for o in "+-*/" for sc in SCALARS for (l, r) in ((a, sc), (sc, a))]
    fam["compound with a real"] = ["{ %s %s= %s; }" % (a, o, sc) for a in MREGS for o in "+-*/" for sc in SCALARS]
    fam["unary - +, conj, proj, norm, explicit value conversion"] = \
        ["{ auto a = -%s; auto b = +%s; auto c = conj(%s); auto e = proj(%s); auto n = norm(%s); V t(%s); (void)a; (void)b; (void)c; (void)e; (void)n; (void)t; }" % ((a,) * 6) for a in CREGS]
    fam["assignment across closure kinds"] = ["{ %s = %s; }" % (a, b) for a in MREGS for b in CREGS if not (KIND[a] == "ref" and KIND[b] == "ref")] + \
        ["{ %s = %s; }" % (a, sc) for a in MREGS for sc in SCALARS] + \
        ["{ auto t = +%s; %s = std::move(t); }" % (b, a) for a in MREGS for b in CREGS] + ["{ using std::swap; swap(v1, v2); swap(v1, v1); }"]
    fam["== != across closure kinds"] = ["{ bool e = (%s == %s); bool n = (%s != %s); (void)e; (void)n; }" % (a, b, a, b) for a in CREGS for b in CREGS] + \
        ["{ bool e = (%s == V(s)) || (%s != V(d)) || (std::complex<T>(%s) == s); (void)e; }" % (a, a, a) for a in CREGS]
    fam["std::complex conversion and mixed forms"] = \
        ["{ auto z = %s %s V(s); auto y = V(s) %s %s; std::complex<T> x = %s %s s; (void)z; (void)y; (void)x; }" % (a, o, o, a, a, o) for a in CREGS for o in "+-*/"] + \
        ["{ %s %s= V(s); }" % (a, o) for a in MREGS for o in "+-*/"] + ["{ s = %s; std::complex<T> c(%s); (void)c; }" % (a, a) for a in CREGS] + \
        ["{ %s = s; }" % a for a in ("v1", "v2", "w")] + ["{ V t(s); V t2 = s; (void)t; (void)t2; }"]
    fam["real()/imag() accessors and assignment through them"] = \
        ["{ T a = %s.real() + %s.imag() + xtl::real(%s) + xtl::imag(%s); (void)a; }" % ((a,) * 4) for a in CREGS] + \
        ["{ %s.real() = d; %s.imag() = d; xtl::real(%s) = d; xtl::imag(%s) = d; }" % ((a,) * 4) for a in MREGS] + \
        ["{ xtl::real(s) = d; xtl::imag(s) = d; xtl::real(d) = 1; T a = xtl::real(s) + xtl::imag(s) + xtl::real(d) + xtl::imag(d); (void)a; }"]
    fam["operator<<"] = ["{ std::ostringstream os; os << %s; }" % a for a in CREGS]
    fam["forwarded elementary functions"] = ["{ auto z = %s(%s); (void)z; }" % (fn, a) for fn in FWD1 for a in CREGS]
    fam["pow"] = ["{ auto z = pow(%s, %s); (void)z; }" % (a, b) for a in CREGS for b in CREGS] + \
        ["{ auto z = pow(%s, %s); auto y = pow(%s, %s); (void)z; (void)y; }" % (a, sc, sc, a) for a in CREGS for sc in ("d", "i")]
    fam["accessors on rvalues and const objects"] = \
        ["{ auto t1 = %s; auto t2 = %s; const auto& c = %s; T a = std::move(t1).real() + xtl::imag(std::move(t2)) + c.real() + c.imag() + xtl::real(c) + xtl::imag(c); (void)a; }" % (a, a, a) for a in CREGS]
    return fam


SCALARS = ("d", "i", "l", "f", "dd", "ld")
FWD1 = ["abs", "arg", "norm", "conj", "proj", "exp", "log", "log10", "sqrt", "sin", "cos", "tan", "asin", "acos", "atan",
        "sinh", "cosh", "tanh", "asinh", "acosh", "atanh"]


def run_probes(ctx, link=False):
    pdir = ctx.sub("probes")
    fams = probe_families()

    def one(item):
        idx, (name, stmts) = item
        src = os.path.join(pdir, "probe_%02d.cpp" % idx)
        pre = PRELUDE.count("\n")
        with open(src, "w") as f:
            f.write(PRELUDE + "\n".join("    " + s for s in stmts) + POSTLUDE)
        if link:      # also catches an overload that is declared but no longer defined
            rc, out = core.sh([core.CXX, "-std=c++14", "-O0", "-I", core.INCLUDE, src, "-o", src[:-4] + ".bin"], timeout=600)
        else:
            rc, out = core.sh([core.CXX, "-std=c++14", "-fsyntax-only", "-I", core.INCLUDE, src], timeout=300)
        if rc == 0:
            return None
        if rc == 124:
            raise MachineryError("compile probe timed out: " + name)
        # which statement: the first diagnostic that points into the probe file
        stmt, first = None, None
        for line in out.splitlines():
            m = re.match(r"%s:(\d+):\d+:\s+(?:required from|error)" % re.escape(src), line.strip())
            if m and stmt is None:
                k = int(m.group(1)) - pre - 1
                if 0 <= k < len(stmts):
                    stmt = stmts[k]
            if (" error: " in line or "undefined reference" in line) and first is None:
                first = line.strip()
        return name, stmt or "(statement not identified)", first or out[-400:], stmts

    with ThreadPoolExecutor(max_workers=min(6, core.NCPU)) as ex:
        res = list(ex.map(one, enumerate(sorted(fams.items()))))
    failed = [r for r in res if r]
    for name, stmt, err, stmts in failed:
        ctx.violation("a call Complex.tla enables does not %s - family '%s': %s  ; compiler: %s" % ("link" if link else "compile", name, stmt, err[:600]),
                      replay_lines=[{"op": "CompileProbe", "a": {"family": name, "link": link}}])
    ctx.notes["compile_probe_families"] = len(fams)
    ctx.notes["compile_probe_statements"] = sum(len(v) for v in fams.values())
    return failed


# ------------------------------------------------------------------ type table (ComplexTypes.tla -> static_asserts)
OPSYM = {"add": "+", "sub": "-", "mul": "*", "div": "/"}
STC = {"T": "T", "int": "int", "long": "long", "float": "float", "double": "double", "ldouble": "long double"}


def _xc(k, b):
    return "%s<%s>" % (k, "true" if b else "false")


def type_row(e, ty):
    """(C++ condition, human-readable row) of one row of the table TLC enumerated"""
    L = "std::declval<const %s&>()" % _xc(e["kl"], e["bl"])
    LM = "std::declval<%s&>()" % _xc(e["kl"], e["bl"])
    R = "std::declval<const %s&>()" % _xc(e["kr"], e["br"]) if e["kr"] != "-" else None
    S = "std::declval<const %s&>()" % STC[e["st"]] if e["st"] != "-" else None
    f, g = e["f"], e["g"]
    if f == "bin": ex = "%s %s %s" % (L, OPSYM[g], R)
    elif f == "binsr": ex = "%s %s %s" % (L, OPSYM[g], S)
    elif f == "binsl": ex = "%s %s %s" % (S, OPSYM[g], L)
    elif f == "cmp": ex = "%s %s= %s" % (LM, OPSYM[g], R)
    elif f == "cmps": ex = "%s %s= %s" % (LM, OPSYM[g], S)
    elif f == "asg": ex = "%s = %s" % (LM, R)
    elif f == "asgs": ex = "%s = %s" % (LM, S)
    elif f == "un": ex = ("-%s" % L) if g == "neg" else ("+%s" % L) if g == "pos" else "%s(%s)" % (g, L)
    elif f == "refn": ex = "%s(%s)" % (g, L)
    elif f == "eq": ex = "%s %s %s" % (L, "==" if g == "eq" else "!=", R)
    elif f == "pow": ex = "pow(%s, %s)" % ((L, R) if g == "cc" else (L, S) if g == "cs" else (S, L))
    elif f == "direct": ex = "%s %s std::declval<const std::complex<T>&>()" % (L, OPSYM[g])
    elif f == "conv":
        cond = {"tostd": "std::is_convertible<%s, std::complex<T>>::value" % _xc(e["kl"], e["bl"]),
                "fromstd": "std::is_convertible<const std::complex<T>&, %s>::value" % _xc("val", e["bl"]),
                "tovalue": "std::is_constructible<%s, const %s&>::value" % (_xc("val", e["bl"]), _xc(e["kl"], e["bl"]))}[g]
        return cond, cond
    else:
        raise MachineryError("ComplexTypes.tla wrote an unknown expression family %s" % f)
    want = {"xc": _xc("val", ty["ieee"]), "self": _xc(e["kl"], e["bl"]) + "&", "T": "T", "bool": "bool", "std": "std::complex<T>"}[ty["c"]]
    text = "decltype(%s) is %s" % (ex, want)
    for a, b in (("std::declval<const ", ""), ("std::declval<", ""), ("&>()", "")):
        text = text.replace(a, b)
    return "std::is_same<decltype(%s), %s>::value" % (ex, want), text


TYPES_HEAD = ["#include <xtl/xcomplex.hpp>", "#include <type_traits>", "#include <utility>", "#include <complex>",
              "namespace probe {", "using T = %s;",
              "template <bool B> using val = xtl::xcomplex<T, T, B>;", "template <bool B> using ref = xtl::xcomplex<T&, T&, B>;",
              "template <bool B> using cref = xtl::xcomplex<const T&, const T&, B>;"]


def type_table(ctx):
    """TLC enumerates the table of expression types (and checks its laws); every row becomes a static_assert over decltype.
    A row that fails or does not compile is a violation naming the expression."""
    r = core.tlc(ctx, "ComplexTypes", "ComplexTypes.cfg", name="types-enumerate", workers=2, timeout=600)
    if r["violated"]:
        raise MachineryError("ComplexTypes.tla violates its own law %s (oracle bug), see %s" % (r["violated"], r["outfile"]))
    rows = emitted(r["out"], "@T@")
    r["out"] = ""
    if len(rows) != r["distinct"] or not rows:
        raise MachineryError("type table: %d rows written, %d states" % (len(rows), r["distinct"]))
    d = ctx.sub("types")
    conds = [type_row(x["e"], x["ty"]) for x in rows]
    bad = {}

    def one(tname):
        src = os.path.join(d, "types_%s.cpp" % tname.replace(" ", "_"))
        with open(src, "w") as f:
            f.write("\n".join(TYPES_HEAD) % tname + "\n")
            for i, (cond, _) in enumerate(conds):
                f.write('static_assert(%s, "ROW %d");\n' % (cond, i))
            f.write("}\nint main() { return 0; }\n")
        rc, out = core.sh([core.CXX, "-std=c++14", "-fsyntax-only", "-I", core.INCLUDE, src], timeout=600)
        if rc == 124:
            raise MachineryError("type table compile timed out")
        res = {}
        for line in out.splitlines():
            m = re.match(r"%s:(\d+):\d+:\s+error:\s*(.*)" % re.escape(src), line.strip())
            if m:
                k = int(m.group(1)) - len(TYPES_HEAD) - 1
                if 0 <= k < len(conds):
                    res.setdefault(k, m.group(2)[:300])
        if rc != 0 and not res:
            raise MachineryError("type table does not compile for a reason outside its rows:\n%s" % out[-2000:])
        return tname, res

    with ThreadPoolExecutor(max_workers=3) as ex:
        for tname, res in ex.map(one, ["float", "double", "long double"]):
            for k, msg in res.items():
                bad.setdefault(k, []).append((tname, msg))
    for k in sorted(bad)[:10]:
        ts = ", ".join(t for t, _ in bad[k])
        msg = bad[k][0][1]
        what = "has another type" if "static assertion failed" in msg else "does not compile (%s)" % msg[:200]
        ctx.violation("type table (ComplexTypes.tla) row %d: for T in {%s}, %s - the expression %s" % (k, ts, conds[k][1], what),
                      replay_lines=[{"op": "TypeRow", "a": {"e": rows[k]["e"], "ty": rows[k]["ty"]}}])
    if len(bad) > 10:
        ctx.log("... and %d more failing rows of the type table" % (len(bad) - 10))
    ctx.notes["type_table_rows"] = len(rows)
    ctx.notes["type_table_rows_failed"] = len(bad)
    ctx.cov["states"] += r["distinct"]
    return rows, bad


# ------------------------------------------------------------------ helpers
def emitted(out, tag):
    res, seen = [], set()
    for line in out.splitlines():
        if line.startswith('"' + tag):
            s = json.loads(line)[len(tag):]
            if s not in seen:
                seen.add(s)
                res.append(json.loads(s))
    return res


def write_lines(path, lines):
    with open(path, "w") as f:
        for l in lines:
            f.write((l if isinstance(l, str) else json.dumps(l, separators=(",", ":"))) + "\n")


def run_stdin(argv, inp, outp, timeout=1200):
    env = dict(os.environ); env.update(core.ASAN_ENV)
    with open(inp) as fin, open(outp, "w") as fout:
        p = subprocess.run(argv, stdin=fin, stdout=fout, stderr=subprocess.PIPE, env=env, timeout=timeout)
    if p.returncode == 3:
        raise MachineryError("harness rejected its input %s: %s" % (inp, p.stderr.decode(errors="replace")[-500:]))
    return p.returncode


MAX_RESTARTS = 4


def run_machine_script(argv, script_path, trace_path):
    """Run the register machine over a script.  A crash (sanitizer report, signal, per-call CPU limit) ends the machine with a
    final Crash event: the call that crashed is attached to that event (the replay re-executes it) and the machine is restarted
    at the next execution (Reset), so one crash does not hide the rest of the script.  After MAX_RESTARTS crashes the rest of
    the script is dropped (violations are certain by then).  Returns the number of executions dropped."""
    env = dict(os.environ); env.update(core.ASAN_ENV)
    with open(script_path) as f:
        script = [l for l in f.read().splitlines() if l.strip()]
    start, dropped = 0, 0
    with open(trace_path, "w") as fout:
        for attempt in range(MAX_RESTARTS + 1):
            p = subprocess.run(argv, input=("\n".join(script[start:]) + "\n").encode(), stdout=subprocess.PIPE,
                               stderr=subprocess.PIPE, env=env, timeout=1800)
            if p.returncode == 3:
                raise MachineryError("harness rejected script %s: %s" % (script_path, p.stderr.decode(errors="replace")[-500:]))
            out = [l for l in p.stdout.decode(errors="replace").splitlines() if l.strip()]
            crashed = bool(out) and out[-1].startswith('{"op":"Crash"')
            if not crashed:
                if len(out) != len(script) - start:
                    raise MachineryError("machine stopped after %d of %d events without a Crash event (rc=%s): %s"
                                         % (len(out), len(script) - start, p.returncode, p.stderr.decode(errors="replace")[-500:]))
                fout.write("".join(l + "\n" for l in out))
                return dropped
            good = [l for l in out[:-1] if l.endswith("}")]      # a partially written line may precede the Crash event
            crash = json.loads(out[-1])
            if start + len(good) < len(script):
                crash["call"] = json.loads(script[start + len(good)])
            fout.write("".join(l + "\n" for l in good) + json.dumps(crash, separators=(",", ":")) + "\n")
            nxt = start + len(good) + 1
            while nxt < len(script) and not script[nxt].startswith('{"op":"Reset"'):
                nxt += 1
            if nxt >= len(script):
                return dropped
            start = nxt
        dropped = sum(1 for l in script[start:] if l.startswith('{"op":"Reset"'))
    return dropped


def run_table(ctx, argv, cases_path, table_path, kind):
    """Evaluate a case file (one JSON case per line) with a table mode of the driver.  A crash while evaluating a case is a
    violation naming the case (a valid call that does not return a value); the driver is restarted behind it."""
    env = dict(os.environ); env.update(core.ASAN_ENV)
    with open(cases_path) as f:
        cases = [l for l in f.read().splitlines() if l.strip()]
    start, ncrash = 0, 0
    with open(table_path, "w") as fout:
        while start < len(cases):
            p = subprocess.run(argv, input=("\n".join(cases[start:]) + "\n").encode(), stdout=subprocess.PIPE, stderr=subprocess.PIPE, env=env, timeout=1800)
            if p.returncode == 3:
                raise MachineryError("driver rejected %s: %s" % (cases_path, p.stderr.decode(errors="replace")[-500:]))
            out = [l for l in p.stdout.decode(errors="replace").splitlines() if l.strip()]
            crashed = (bool(out) and out[-1].startswith('{"op":"Crash"')) or p.returncode != 0
            good = [l for l in out if not l.startswith('{"op":"Crash"') and l.endswith("}")]
            fout.write("".join(l + "\n" for l in good))
            if not crashed:
                if len(good) != len(cases) - start:
                    raise MachineryError("driver %s wrote %d rows for %d cases" % (argv[-1], len(good), len(cases) - start))
                break
            ncrash += 1
            bad_case = cases[start + len(good)] if start + len(good) < len(cases) else "{}"
            if ncrash <= 4:
                ctx.violation("the harness crashed (%s) while evaluating the %s case %s" % (
                    (out[-1] if out and out[-1].startswith('{"op":"Crash"') else "rc=%s %s" % (p.returncode, p.stderr.decode(errors="replace")[-300:])), kind, bad_case[:400]),
                    replay_lines=[{"op": kind, "a": json.loads(bad_case)}])
            if ncrash >= MAX_RESTARTS:
                break
            start += len(good) + 1
    return ncrash


def build_each(ctx, jobs):
    """Compile the harnesses in parallel; a job that does not compile is recorded (job["error"]) instead of ending the run."""
    def one(j):
        try:
            core.build(ctx, j["src"], j["out"], j.get("flags", ()), j.get("asan", True), j.get("cxx"))
            j["ok"] = True
        except MachineryError as e:
            j["ok"], j["error"] = False, str(e)
        return j
    with ThreadPoolExecutor(max_workers=core.NCPU) as ex:
        return list(ex.map(one, jobs))


def harness_jobs(ctx, thorough):
    """driver parts (1: Annex G tables, 2: exact arithmetic, 3: functions, 4: accuracy on general operands) and one machine binary per (T, B)."""
    drv = os.path.join(HDIR, "driver.cpp")
    jobs = [{"name": "driver%d" % k, "src": drv, "out": os.path.join(ctx.work, "driver%d" % k), "flags": ["-DDRV_PART=%d" % k]} for k in (1, 2, 3, 4)]
    for i in range(len(CFGS) if thorough else 4):
        # -O0: faster to compile; small integers are exact at any level
        jobs.append({"name": "machine%d" % i, "src": os.path.join(HDIR, "machine.cpp"), "out": os.path.join(ctx.work, "machine%d" % i),
                     "flags": ["-DCFG=%d" % i, "-O0"]})
    if thorough:
        jobs.append({"name": "driver_native", "src": drv, "out": os.path.join(ctx.work, "driver_native"), "flags": NATIVE_FLAGS, "asan": False})
        jobs.append({"name": "driver_clang", "src": drv, "out": os.path.join(ctx.work, "driver_clang"), "flags": CLANG_FLAGS, "asan": False, "cxx": "clang++"})
    return jobs


# ------------------------------------------------------------------ part B: Annex G
def annexg_classes(ctx, drv, seed, tag):
    """Run the harness table for one seed/binary and validate it with TLC.  Returns list of BAD dicts."""
    d = ctx.sub("annexg")
    raw = os.path.join(d, "classes-%s.ndjson" % tag)
    rc, err = core.run_bin(ctx, [drv, "classes", str(seed)], timeout=900, stdout_path=raw)
    with open(raw) as f:
        lines = [l for l in f if l.strip()]
    if rc == 3:
        raise MachineryError("driver classes: %s" % err[-800:])
    if rc != 0 or (lines and lines[-1].startswith('{"op":"Crash"')) or len(lines) != 6175:
        # a valid multiplication / division that crashes or does not return: the row after the last one written
        last = {}
        for l in reversed(lines[1:]):
            try:
                last = json.loads(l)
                if "f" in last:
                    break
            except ValueError:
                continue
        ctx.violation("Annex G table (%s): the harness crashed or stopped (rc=%s, %s) after %d of 6174 rows; last complete row: %s %s %s" % (
            tag, rc, (lines[-1].strip() if lines and lines[-1].startswith('{"op":"Crash"') else err[-300:]), max(0, len(lines) - 1),
            last.get("f"), last.get("x"), last.get("y")),
            replay_lines=[{"op": "AnnexGTable", "a": {"seed": seed, "native": tag.split("-")[0] if tag.split("-")[0] in ("native", "clang") else ""}}])
        return [], {"reps": {}}
    meta = json.loads(lines[0])["_meta"]
    table = os.path.join(d, "classes-%s.table" % tag)
    with open(table, "w") as f:
        f.writelines(lines[1:])
    r = core.tlc(ctx, "AnnexGCheck", "AnnexGCheck_classes.cfg", name="annexg-table-" + tag, env={"TABLE": table},
                 extra=["-continue"], workers=W, timeout=900)
    bad = emitted(r["out"], "@BAD@")
    if r["distinct"] != 6174:
        raise MachineryError("AnnexGCheck did not visit all 6174 table rows (%s), see %s" % (r["distinct"], r["outfile"]))
    if bool(r["violated"]) != bool(bad):
        raise MachineryError("AnnexGCheck: invariant verdict and reported rows disagree, see %s" % r["outfile"])
    nevals = 0
    for l in lines[1:]:
        row = json.loads(l)
        for t in row["r"].values():
            for v in t.values():
                nevals += v["n"]
    ctx.cov["evaluations"] += nevals
    ctx.cov["states"] += r["distinct"]
    ctx.log("Annex G table (%s, seed %d): %d rows validated by TLC, %d operator evaluations, %d rows rejected" % (tag, seed, r["distinct"], nevals, len(bad)))
    return bad, meta


def bad_key(b):
    k = b["key"]
    return json.dumps([k["f"], k["x"], k["y"]])


def report_class_bad(ctx, drv, seed, tag, bad, again):
    keys_again = {bad_key(b) for b in again}
    for b in bad[:12]:
        if bad_key(b) not in keys_again:
            raise MachineryError("non-reproducible Annex G rejection %s" % bad_key(b))
        k = b["key"]
        f0 = b["fails"][0]
        t = f0["t"] if f0["t"] in ("float", "double") else "double"
        rc, detail = core.run_bin(ctx, [drv, "detail", t, k["f"], k["x"][0], k["x"][1], k["y"][0], k["y"][1], str(seed)], timeout=120)
        # keep the representatives whose result class is one of the rejected ones
        want = {"[%s,%s]" % (x["out"][0], x["out"][1]) for x in b["fails"]}
        dl = [l for l in detail.splitlines() if any(w in l for w in want)][:3]
        grp = {}
        for x in b["fails"]:
            grp.setdefault(("(%s,%s)" % (x["out"][0], x["out"][1]), x["why"]), set()).add("%s/%s" % (x["t"], x["v"]))
        text = "Annex G (%s): %s x=%s y=%s : %s ; e.g. %s" % (
            tag, k["f"], k["x"], k["y"],
            "; ".join("result %s breaks '%s' [%s]" % (o, why, ",".join(sorted(vs))) for (o, why), vs in sorted(grp.items()))[:1100],
            " | ".join(s.strip() for s in dl)[:700])
        ctx.violation(text, replay_lines=[{"op": "AnnexGRow", "a": {"key": k, "seed": seed, "native": tag.split("-")[0] if tag.split("-")[0] in ("native", "clang") else ""}}])
    if len(bad) > 12:
        ctx.log("... and %d more rejected Annex G rows" % (len(bad) - 12))


def extreme_cases(ctx, quick):
    r = core.tlc(ctx, "AnnexGMC", "AnnexG_extreme_quick.cfg" if quick else "AnnexG_extreme.cfg", name="extreme-enumerate", workers=W, timeout=900)
    if r["violated"]:
        raise MachineryError("AnnexG.tla violates its own law %s (oracle bug), see %s" % (r["violated"], r["outfile"]))
    cases = emitted(r["out"], "@X@")
    r["out"] = ""
    if len(cases) != r["distinct"] or not cases:
        raise MachineryError("extreme-divisor enumeration: %d cases written, %d states" % (len(cases), r["distinct"]))
    return cases


def annexg_extreme(ctx, drv, cases):
    d = ctx.sub("extreme")
    cpath, tpath = os.path.join(d, "cases.ndjson"), os.path.join(d, "extreme.table")
    write_lines(cpath, cases)
    ncrash = run_table(ctx, [drv, "extreme"], cpath, tpath, "ExtremeCase")
    nrows = sum(1 for _ in open(tpath))
    if ncrash:
        if not nrows:
            return []
        cases = cases[:0] + [json.loads(l) for l in open(tpath)]
    bad = validate_extreme(ctx, tpath, nrows, "extreme-table")
    ctx.cov["evaluations"] += 3 * nrows
    ctx.cov["transitions"] += nrows
    ctx.log("extreme-divisor clause: %d cases enumerated by TLC, evaluated (3 operator variants; real dividend / divisor: also the mixed forms) and validated; %d rejected" % (len(cases), len(bad)))
    if bad:
        # repeat before reporting
        c2, t2 = os.path.join(d, "extreme-again.ndjson"), os.path.join(d, "extreme-again.table")
        write_lines(c2, [b["key"] for b in bad])
        run_table(ctx, [drv, "extreme"], c2, t2, "ExtremeCase")
        again = {json.dumps(b["key"], sort_keys=True) for b in validate_extreme(ctx, t2, sum(1 for _ in open(t2)), "extreme-table-again")}
        for b in bad[:8]:
            if json.dumps(b["key"], sort_keys=True) not in again:
                raise MachineryError("non-reproducible extreme-divisor rejection %s" % b["key"])
            k = b["key"]
            text = "extreme divisor (%s): (%s * 2^%d) / (%s * 2^%d) should be %s * 2^%d (exactly; within 4 ulp if the divisor's squared modulus is not a power of two); %s" % (
                k["t"], k["n"], k["m"], k["u"], k["k"], k["q"], k["m"] - k["k"],
                "; ".join("%s part %d got %s expected %s" % (x["v"], x["part"], x["got"], x["exp"]) for x in b["fails"])[:1200])
            ctx.violation(text, replay_lines=[{"op": "ExtremeCase", "a": k}])
    return bad


def validate_extreme(ctx, tpath, ncases, name):
    r = core.tlc(ctx, "AnnexGCheck", "AnnexGCheck_extreme.cfg", name=name, env={"TABLE": tpath}, extra=["-continue"], workers=W, timeout=900)
    bad = emitted(r["out"], "@BAD@")
    if r["distinct"] != ncases:
        raise MachineryError("AnnexGCheck(extreme) visited %d of %d records, see %s" % (r["distinct"], ncases, r["outfile"]))
    if bool(r["violated"]) != bool(bad):
        raise MachineryError("AnnexGCheck(extreme): invariant verdict and reported rows disagree, see %s" % r["outfile"])
    r["out"] = ""
    return bad


# ------------------------------------------------------------------ parts C, D: exact dyadic arithmetic, functions equal to <complex>'s
W = min(4, core.NCPU)


def enumerate_cases(ctx, module, cfg, name):
    """TLC enumerates the cases of a table spec (and checks the spec's own laws on each)."""
    r = core.tlc(ctx, module, cfg, name=name, workers=W, timeout=1500, heap="6g")
    if r["violated"]:
        raise MachineryError("%s violates its own law %s (oracle bug), see %s" % (module, r["violated"], r["outfile"]))
    cases = emitted(r["out"], "@X@")
    r["out"] = ""
    if len(cases) != r["distinct"] or not cases:
        raise MachineryError("%s: %d cases written, %d states" % (name, len(cases), r["distinct"]))
    ctx.cov["states"] += r["distinct"]
    return cases


def sample_cases(cases, seed, quick, frac=0.6):
    """quick tier: a seeded 60 % of the enumerated cases (other seeds take other cases); thorough: all"""
    if not quick:
        return cases
    rnd = random.Random(seed * 1000003 + len(cases))
    return [c for c in cases if rnd.random() < frac]


def check_table(ctx, module, cfg, tpath, nrows, name):
    r = core.tlc(ctx, module, cfg, name=name, env={"TABLE": tpath}, extra=["-continue"], workers=W, timeout=1500, heap="6g")
    bad = emitted(r["out"], "@BAD@")
    oracle = emitted(r["out"], "@ORACLE@")
    if oracle:
        raise MachineryError("%s disagrees with std::complex itself on %d rows (bug of the specification), e.g. %s" % (module, len(oracle), json.dumps(oracle[0])[:600]))
    if r["distinct"] != nrows:
        raise MachineryError("%s visited %d of %d rows, see %s" % (module, r["distinct"], nrows, r["outfile"]))
    if bool(r["violated"]) != bool(bad):
        raise MachineryError("%s: invariant verdict and reported rows disagree, see %s" % (module, r["outfile"]))
    r["out"] = ""
    return bad


def table_stage(ctx, kind, drv, mode, cases, module, describe, build=""):
    """S->C + C->S for one table spec: the harness evaluates the TLC-enumerated cases, TLC validates the recorded table.
    Rejected rows are re-evaluated and re-validated once before they are reported."""
    d = ctx.sub(kind + build)
    cpath, tpath = os.path.join(d, "cases.ndjson"), os.path.join(d, "table.ndjson")
    write_lines(cpath, cases)
    ncrash = run_table(ctx, [drv, mode], cpath, tpath, kind + "Case")
    nrows = sum(1 for _ in open(tpath))
    if nrows == 0:
        return []
    bad = check_table(ctx, module, module + ".cfg", tpath, nrows, kind + build + "-table")
    ctx.cov["evaluations"] += nrows
    if not build:
        ctx.cov["transitions"] += nrows
        ctx.notes[kind + "_cases_evaluated"] = nrows
    else:
        ctx.notes["%s_cases_evaluated_%s_build" % (kind, build)] = nrows
    ctx.log("%s%s: %d cases enumerated by TLC and evaluated on the real objects, table validated by TLC; %d rejected%s" % (
        kind, " (%s build)" % build if build else "", nrows, len(bad), ", %d crashes" % ncrash if ncrash else ""))
    if bad:
        keys = [json.dumps(b["key"], sort_keys=True) for b in bad]
        c2, t2 = os.path.join(d, "again.ndjson"), os.path.join(d, "again.table")
        write_lines(c2, [b["key"] for b in bad])
        run_table(ctx, [drv, mode], c2, t2, kind + "Case")
        again = {json.dumps(b["key"], sort_keys=True) for b in check_table(ctx, module, module + ".cfg", t2, sum(1 for _ in open(t2)), kind + build + "-table-again")}
        for b, k in list(zip(bad, keys))[:8]:
            if k not in again:
                raise MachineryError("non-reproducible %s rejection %s" % (kind, k))
            ctx.violation((("[%s build] " % build) if build else "") + describe(b), replay_lines=[{"op": kind + "Case", "a": b["key"], "build": build}])
        if len(bad) > 8:
            ctx.log("... and %d more rejected %s rows" % (len(bad) - 8, kind))
    return bad


def describe_exact(b):
    k = b["key"]
    sc = "" if k["st"] == "T" else " (scalar of C++ type %s)" % k["st"]
    return "exact arithmetic (ComplexExact.tla), %s ieee_compliant=%s: %s with xcomplex operand %s * 2^%d and other operand %s * 2^%d%s: %s" % (
        k["t"], str(k["b"]).lower(), k["f"], k["x"], k["m"], k["y"] if k["f"] in ("add", "sub", "mul", "div") else k["y"][0], k["k"], sc,
        "; ".join("variants %s part %d got %s expected %s" % (x["v"], x["part"], x["got"], x["exp"]) for x in b["fails"])[:1500])


def describe_fn(b):
    k = b["key"]
    return "equal to std::complex's (ComplexFn.tla), %s ieee_compliant=%s: %s(x%s) with x = %s%s: %s" % (
        k["t"], str(k["b"]).lower(), k["fn"], ", y" if k["fn"] in ("eq", "ne", "pow_cc", "pow_cs", "pow_sc", "pow_ci") else "",
        json.dumps(k["x"]), (", y = " + json.dumps(k["y"])) if k["fn"] in ("eq", "ne", "pow_cc", "pow_cs", "pow_sc", "pow_ci") else "",
        "; ".join("closure kinds %s got %s expected %s" % (x["v"], x["got"], x["exp"]) for x in b["fails"])[:1500])


# ------------------------------------------------------------------ part E: accuracy on general finite operands (ComplexAcc.tla)
ACC_PREC = {"float": 24, "double": 53, "ldouble": 64}
ACC_W = {"float": 30, "double": 250}
ACC_FORMS = ["add", "sub", "mul", "div", "adds", "subs", "muls", "divs", "sadd", "ssub", "smul", "sdiv"]
ACC_STS = ["T", "int", "long", "float", "double", "ldouble"]


def acc_num(sign, N, e):
    """(-1)^sign * N * 2^e in the canonical form of ComplexAcc.tla (N odd, base-4096 limbs, least significant first)"""
    if N == 0:
        return {"k": "zero", "s": sign, "n": [0], "e": 0}
    while N % 2 == 0:
        N //= 2
        e += 1
    limbs = []
    while N:
        limbs.append(N % 4096)
        N //= 4096
    return {"k": "num", "s": sign, "n": limbs, "e": e}


def acc_random_cases(seed, n):
    """seeded random finite, well-scaled operands: random and boundary significands of full width, exponents anywhere in the
    well-scaled range, component offsets from 0 to beyond the precision, zeros of both signs, nearly cancelling products"""
    rnd = random.Random(seed * 7919 + 101)

    def sig(p):
        k = rnd.random()
        if k < 0.5:
            return rnd.getrandbits(p - 1) | (1 << (p - 1)) | rnd.getrandbits(1)
        return rnd.choice([1 << (p - 1), (1 << (p - 1)) + 1, (1 << p) - 1, (1 << p) - 2, 3 << (p - 2), (3 << (p - 2)) + 1,
                           int(((1 << p) - 1) * 2 / 3) | (1 << (p - 1)), (1 << (p - 1)) + (1 << (p // 2))])

    W = [0]

    def number(p, E, allow_zero=True):
        if allow_zero and rnd.random() < 0.12:
            return acc_num(rnd.getrandbits(1), 0, 0)
        E = max(-W[0], min(W[0], E))
        return acc_num(rnd.getrandbits(1), sig(p), E - (p - 1))          # leading bit 2^E, inside the well-scaled range

    out = []
    for i in range(n):
        t = rnd.choice(["float", "double"])
        p = ACC_PREC[t]
        W[0] = ACC_W[t]
        f = ACC_FORMS[i % len(ACC_FORMS)]
        E = rnd.randint(-W[0], W[0])
        off = lambda: max(-32, min(32, rnd.choice([0, 0, 0, 0, 1, -1, 2, -3, 7, -(p + 1), p + 1, -12, 23, -30, 31, rnd.randint(-32, 32)])))
        x = [number(p, E + off()), number(p, E + off())]
        st = "T"
        if f in ("add", "sub", "mul", "div"):
            if rnd.random() < 0.15 and x[0]["k"] == "num" and x[1]["k"] == "num":
                # the transposed operand with the last bits changed: the real part of the product nearly cancels
                def perturb(d):
                    N = sum(l << (12 * j) for j, l in enumerate(d["n"]))
                    sh = p - N.bit_length()
                    return acc_num(d["s"], ((N << sh) ^ rnd.choice([1, 2, 3])) | (1 << (p - 1)), d["e"] - sh)
                y = [perturb(x[1]), perturb(x[0])]
            else:
                y = [number(p, E + off()), number(p, E + off())]
            if f == "div" and y[0]["k"] == "zero" and y[1]["k"] == "zero":
                y[0] = number(p, E, False)
        else:
            st = rnd.choice(ACC_STS)
            if st == "float" and t == "double":                           # the scalar must be a normal float too
                E = rnd.randint(-90, 90)
                x = [number(p, E + off()), number(p, E + off())]
            if st in ("int", "long"):
                v = rnd.choice([1, 2, 3, 5, 7, 10, 100, 255, 4097, 12345, rnd.randint(1, 30000)])
                sc = acc_num(rnd.getrandbits(1), v, 0)
                E = rnd.randint(-20, 30)                                  # keep the operands within the window of the integer
                x = [number(p, E + rnd.choice([0, 1, -2, 5])), number(p, E + rnd.choice([0, -1, 3, -6]))]
            else:
                ps = min(p, ACC_PREC[t if st == "T" else st])              # a value of the scalar's type and of the element type
                sc = number(ps, E + off(), allow_zero=(f not in ("divs",)))
            if f == "sdiv" and x[0]["k"] == "zero" and x[1]["k"] == "zero":
                x[1] = number(p, E, False)
            y = [sc, acc_num(0, 0, 0)]
        out.append({"t": t, "b": bool(rnd.getrandbits(1)), "f": f, "st": st, "x": x, "y": y})
    return out


def acc_check_table(ctx, tpath, name, nproc=4):
    """TLC validates the table in nproc parallel pieces (one initial state per row; their computation is sequential in TLC)"""
    rows = [l for l in open(tpath).read().splitlines() if l.strip()]
    pieces = [rows[i::nproc] for i in range(nproc) if rows[i::nproc]]

    def one(item):
        i, piece = item
        pp = "%s.part%d" % (tpath, i)
        write_lines(pp, piece)
        r = core.tlc(ctx, "ComplexAccCheck", "ComplexAccCheck.cfg", name="%s-%d" % (name, i), env={"TABLE": pp}, extra=["-continue"], workers=1,
                     timeout=3000, heap="3g")
        bad, adv, echo = emitted(r["out"], "@BAD@"), emitted(r["out"], "@ADV@"), emitted(r["out"], "@ECHO@")
        if echo:
            raise MachineryError("ComplexAccCheck: the harness did not evaluate the case the specification describes (or the case is outside its domain): %s" % json.dumps(echo[0])[:800])
        if r["distinct"] != len(piece):
            raise MachineryError("ComplexAccCheck visited %d of %d rows, see %s" % (r["distinct"], len(piece), r["outfile"]))
        if bool(r["violated"]) != bool(bad):
            raise MachineryError("ComplexAccCheck: invariant verdict and reported rows disagree, see %s" % r["outfile"])
        r["out"] = ""
        return bad, adv

    bad, adv = [], []
    with ThreadPoolExecutor(max_workers=nproc) as ex:
        for b, a in ex.map(one, enumerate(pieces)):
            bad += b
            adv += a
    return bad, adv, len(rows)


def acc_text(d):
    if d["k"] != "num":
        return ("-" if d["s"] else "+") + {"zero": "0", "inf": "inf", "nan": "nan"}[d["k"]]
    N = sum(l << (12 * j) for j, l in enumerate(d["n"]))
    return "%s0x%x*2^%d" % ("-" if d["s"] else "", N, d["e"])


def describe_acc(b):
    k = b["key"]
    opnd = lambda v: "(%s, %s)" % (acc_text(v[0]), acc_text(v[1]))
    return "accuracy on general operands (ComplexAcc.tla), %s ieee_compliant=%s: %s with xcomplex operand %s and other operand %s%s: %s" % (
        k["t"], str(k["b"]).lower(), k["f"], opnd(k["x"]), opnd(k["y"]) if k["f"] in ("add", "sub", "mul", "div") else acc_text(k["y"][0]),
        "" if k["st"] == "T" else " (scalar of C++ type %s)" % k["st"],
        "; ".join("variants %s break '%s' (bounds: + - componentwise 2u, * / normwise 16u, real operand componentwise 16u): got %s" % (x["v"], x["why"], x["got"][:500]) for x in b["fails"])[:1800])


def acc_stage(ctx, drv, cases):
    d = ctx.sub("Acc")
    cpath, tpath = os.path.join(d, "cases.ndjson"), os.path.join(d, "table.ndjson")
    write_lines(cpath, cases)
    ncrash = run_table(ctx, [drv, "acc"], cpath, tpath, "AccCase")
    bad, adv, nrows = acc_check_table(ctx, tpath, "Acc-table")
    ctx.cov["evaluations"] += nrows
    ctx.cov["transitions"] += nrows
    ctx.cov["states"] += nrows
    ctx.notes["Acc_cases_evaluated"] = nrows
    ctx.notes["Acc_cases_by_form"] = {f: sum(1 for c in cases if c["f"] == f) for f in ACC_FORMS}
    ctx.log("Acc: %d general finite operand cases (TLC-enumerated boundary grid + seeded random) evaluated on the real objects in every operator variant; "
            "exact-integer error bounds and bit-identity across closure kinds validated by TLC; %d rejected, %d with a sign of zero outside the pinned set%s" % (
                nrows, len(bad), len(adv), ", %d crashes" % ncrash if ncrash else ""))
    if adv:
        forms = sorted({a["key"]["f"] for a in adv})
        a0 = adv[0]
        ctx.drift.append("ADVISORY C10 signs of zero: %d of %d + - * / results have a zero whose sign is not the one IEEE 754 arithmetic on the components (C99 G.5) gives "
                         "(forms %s); e.g. %s ieee=%s %s x=(%s, %s) y=(%s, %s): %s" % (len(adv), nrows, ",".join(forms), a0["key"]["t"], a0["key"]["b"], a0["key"]["f"],
                                                                                    acc_text(a0["key"]["x"][0]), acc_text(a0["key"]["x"][1]), acc_text(a0["key"]["y"][0]),
                                                                                    acc_text(a0["key"]["y"][1]), json.dumps(a0["devs"])[:400]))
        ctx.notes["Acc_zero_sign_advisories"] = len(adv)
    if bad:
        c2, t2 = os.path.join(d, "again.ndjson"), os.path.join(d, "again.table")
        write_lines(c2, [b["key"] for b in bad[:40]])
        run_table(ctx, [drv, "acc"], c2, t2, "AccCase")
        again = {json.dumps(b["key"], sort_keys=True) for b in acc_check_table(ctx, t2, "Acc-table-again")[0]}
        for b in bad[:8]:
            if json.dumps(b["key"], sort_keys=True) not in again:
                raise MachineryError("non-reproducible accuracy rejection %s" % json.dumps(b["key"]))
            ctx.violation(describe_acc(b), replay_lines=[{"op": "AccCase", "a": b["key"], "build": ""}])
        if len(bad) > 8:
            ctx.log("... and %d more rejected Acc rows" % (len(bad) - 8))
    return bad


# ------------------------------------------------------------------ part A: register machine
def edge_script(edges, t, b, share=None):
    """One execution per initial state: Reset, Load, then every call out of that state; observers first,
    then the mutators, each preceded by a Load that re-establishes the state.  share = (i, n, rot): only the
    initial states whose rank is congruent to i modulo n (rotated by the seed) - the quick tier spreads the
    initial states over the four instantiations."""
    by = {}
    for e in edges:
        by.setdefault(json.dumps(e["p"]), []).append(e["l"])
    lines, taken = [], 0
    for rank, key in enumerate(sorted(by)):
        if share and (rank + share[2]) % share[1] != share[0]:
            continue
        p = json.loads(key)
        calls = sorted(by[key], key=lambda c: c["op"] not in OBSERVERS)
        lines.append({"op": "Reset", "a": {"t": t, "b": bool(b)}})
        lines.append({"op": "Load", "a": {"c": p}})
        dirty = False
        for c in calls:
            if dirty:
                lines.append({"op": "Load", "a": {"c": p}})
            lines.append(c)
            taken += 1
            dirty = c["op"] not in OBSERVERS
    return lines, taken


def sim_script(simdir, t, b):
    lines, n = [], 0
    for fn in sorted(os.listdir(simdir)):
        states = tlaval.parse_sim_trace(os.path.join(simdir, fn))
        if len(states) < 2:
            continue
        lines.append({"op": "Reset", "a": {"t": t, "b": bool(b)}})
        lines.append({"op": "Load", "a": {"c": states[0]["mem"]}})
        for s in states[1:]:
            lines.append({"op": s["last"]["op"], "a": s["last"]["a"]})
        n += 1
    return lines, n


def chunk_by_reset(lines, nchunks):
    starts = [i for i, l in enumerate(lines) if l["op"] == "Reset"]
    if not starts:
        return [lines]
    per = max(1, (len(starts) + nchunks - 1) // nchunks)
    cuts = starts[::per]
    return [lines[a:b] for a, b in zip(cuts, cuts[1:] + [len(lines)])]


def machine_of(ctx, t, b):
    return os.path.join(ctx.work, "machine%d" % CFGS.index((t, int(bool(b)))))


def enumerate_edges(ctx, q, which):
    """TLC: every transition out of every initial state (also checks TypeOK, Aliases, Frame on them)."""
    cfg, what = {"kinds": ("Complex_s2c_kinds_quick.cfg" if q else "Complex_s2c_kinds.cfg", "all operations x all operand-kind patterns"),
                 "values": ("Complex_s2c_values_quick.cfg" if q else "Complex_s2c_values.cfg", "all pairs of Gaussian integers in the box x arithmetic patterns")}[which]
    r = core.tlc_model_check(ctx, "ComplexMC", cfg, "L1 %s; invariants + frame property" % what, workers=W, heap="8g", timeout=1500,
                             coverage=(not q and which == "kinds"))
    if r["violated"]:
        raise MachineryError("L1 spec Complex.tla violates its own theorem %s (oracle bug), see %s" % (r["violated"], r["outfile"]))
    es = emitted(r["out"], "@E@")
    if "coverage" in r:
        ctx.notes["l1_action_coverage"] = r["coverage"]
    r["out"] = ""
    if not es:
        raise MachineryError("no transitions written by %s" % cfg)
    ctx.notes["s2c_transitions_" + which] = len(es)
    return es


def simulate(ctx, q):
    """TLC simulation walks (longer histories)."""
    simdir = ctx.sub("sim")
    core.tlc(ctx, "ComplexMC", "Complex_sim.cfg", name="s2c-simulate", simulate="file=%s/t,num=%d" % (simdir, 30 if q else 100),
             extra=["-depth", "20" if q else "30", "-seed", str(ctx.seed)], workers=1 if q else W, timeout=900)
    return simdir


def register_machine(ctx, q, edges_k, edges_v, simdir):
    edges = edges_k + edges_v
    ops = {}
    for e in edges:
        ops[e["l"]["op"]] = ops.get(e["l"]["op"], 0) + 1
    ctx.notes["s2c_transitions_by_operation"] = ops
    # vacuity: every action of Complex.tla must have been taken by TLC (TLC's own -coverage only sees Next as a whole)
    ctx.notes["vacuous_actions"] = sorted(set(ALL_ACTIONS) - set(ops))
    # ---- scripts per instantiation
    tdir = ctx.sub("traces")
    traces, nexec, replayed = [], 0, 0
    jobs = []
    ncfg = 4 if q else len(CFGS)
    dropped = [0]
    for ci, (t, b) in enumerate(CFGS[:ncfg]):
        if not os.path.exists(machine_of(ctx, t, b)):
            continue                      # this instantiation did not build (reported by the caller)
        # quick: the initial states are spread over the four instantiations; thorough: float and double take all of them,
        # the two long double instantiations (outside the property's quantifier) one half each
        share = (ci, 4, ctx.seed % 4) if q else ((ci - 4, 2, ctx.seed % 2) if ci >= 4 else None)
        lines, taken = edge_script(edges_k, t, b, share)
        l2, t2 = edge_script(edges_v, t, b, share)
        lines += l2
        replayed += taken + t2
        sl, nwalks = sim_script(simdir, t, b)
        ctx.notes["s2c_simulation_walks"] = nwalks
        for i, ch in enumerate(chunk_by_reset(lines, 2 if q else 6) + [sl]):
            if ch:
                jobs.append(("%s-%d-%02d" % (t, b, i), t, b, ch))
    ctx.sample({"script": [json.dumps(x) for x in jobs[0][3][:10]]})
    ctx.sample({"walk": [json.dumps(x) for x in jobs[min(len(jobs) - 1, 2 if q else 6)][3][:12]]})

    def runone(job):
        name, t, b, lines = job
        sp, tp = os.path.join(tdir, name + ".script"), os.path.join(tdir, name + ".ndjson")
        write_lines(sp, lines)
        dropped[0] += run_machine_script([machine_of(ctx, t, b), t, str(b)], sp, tp)
        return tp, sum(1 for l in lines if l["op"] == "Reset")

    if not jobs:
        return
    with ThreadPoolExecutor(max_workers=min(8, core.NCPU)) as ex:
        for tp, ne in ex.map(runone, jobs):
            traces.append(tp)
            nexec += ne
    ctx.cov["traces_validated_against_impl"] += nexec
    ctx.notes["s2c_transitions_enumerated"] = len(edges)
    ctx.notes["s2c_transitions_replayed"] = replayed
    ctx.log("S->C: %d L1 transitions enumerated by TLC; %d calls replayed over the %d instantiations (T x ieee_compliant)%s; %d simulation walks on each" % (
        len(edges), replayed, ncfg, " (initial states spread over them)" if q else "", ctx.notes.get("s2c_simulation_walks", 0)))
    if dropped[0]:
        ctx.log("the machine crashed more than %d times on a script: %d executions were not run" % (MAX_RESTARTS, dropped[0]))
        ctx.notes["executions_dropped_after_repeated_crashes"] = dropped[0]
    before = ctx.cov["events_validated"]
    core.validate_traces(ctx, "ComplexTrace", "ComplexTrace.cfg", traces, parallel=min(6, core.NCPU), max_restarts=2)
    ctx.cov["evaluations"] += ctx.cov["events_validated"] - before
    ctx.log("validated %d events in %d traces (%d executions)" % (ctx.cov["events_validated"] - before, len(traces), nexec))


# ------------------------------------------------------------------ replay
def build_driver(ctx, part, build=""):
    """the driver part (1 Annex G, 2 exact, 3 fn, 4 acc) in the build flavour a violation was found with"""
    out = os.path.join(ctx.work, "driver%d%s" % (part, build))
    src = os.path.join(HDIR, "driver.cpp")
    if build == "native":
        core.build(ctx, src, out, flags=NATIVE_FLAGS + ["-DDRV_PART=%d" % part], asan=False)
    elif build == "clang":
        core.build(ctx, src, out, flags=CLANG_FLAGS + ["-DDRV_PART=%d" % part], asan=False, cxx="clang++")
    else:
        core.build(ctx, src, out, flags=["-DDRV_PART=%d" % part])
    return out


def replay(ctx, path):
    lines = [l for l in core.read_ndjson(path) if "_meta" not in l]
    if not lines:
        print("empty replay file")
        return 2
    first = lines[0]
    if first["op"] == "CompileProbe":
        failed = run_probes(ctx, link=bool(first["a"].get("link")))
        hit = [f for f in failed if f[0] == first["a"]["family"]]
        if not hit:
            print("replay accepted: every call of family '%s' compiles" % first["a"]["family"])
            return 0
        print("VIOLATION property=C10 replay=%s" % path)
        print("  %s: %s ; %s" % (hit[0][0], hit[0][1], hit[0][2][:500]))
        return 1
    if first["op"] == "TypeRow":
        rows, bad = type_table(ctx)
        hit = [k for k in bad if rows[k]["e"] == first["a"]["e"]]
        if not hit:
            print("replay accepted: the expression has the type ComplexTypes.tla states")
            return 0
        print("VIOLATION property=C10 replay=%s" % path)
        print("  row %d: %s" % (hit[0], bad[hit[0]][0][1][:500]))
        return 1
    if first["op"] in ("AnnexGRow", "AnnexGTable"):
        a = first["a"]
        build = a.get("native") or ""
        build = "native" if build is True else build
        drv = build_driver(ctx, 1, build)
        n0 = len(ctx.violations)
        bad, _ = annexg_classes(ctx, drv, a["seed"], "replay")
        if first["op"] == "AnnexGTable":
            if len(ctx.violations) == n0:
                print("replay accepted: the whole Annex G table is evaluated without a crash")
                return 0
            print("VIOLATION property=C10 replay=%s" % path)
            print("  " + ctx.violations[-1][1][:1500])
            return 1
        want = json.dumps([a["key"]["f"], a["key"]["x"], a["key"]["y"]])
        hit = [b for b in bad if bad_key(b) == want]
        if not hit and len(ctx.violations) == n0:
            print("replay accepted: the row %s now conforms to AnnexG.tla" % want)
            return 0
        print("VIOLATION property=C10 replay=%s" % path)
        print("  " + (json.dumps(hit[0])[:1500] if hit else ctx.violations[-1][1][:1500]))
        return 1
    if first["op"] == "AccCase":
        drv = build_driver(ctx, 4, "")
        d = ctx.sub("replay")
        cpath, tpath = os.path.join(d, "case.ndjson"), os.path.join(d, "case.table")
        write_lines(cpath, [first["a"]])
        n0 = len(ctx.violations)
        run_table(ctx, [drv, "acc"], cpath, tpath, "AccCase")
        bad = acc_check_table(ctx, tpath, "replay-acc", nproc=1)[0] if len(ctx.violations) == n0 else []
        if not bad and len(ctx.violations) == n0:
            print("replay accepted: the case now conforms to the specification")
            return 0
        print("VIOLATION property=C10 replay=%s" % path)
        print("  " + (json.dumps(bad[0])[:1500] if bad else ctx.violations[-1][1][:1500]))
        return 1
    if first["op"] in ("ExtremeCase", "ExactCase", "FnCase"):
        part, mode, module = {"ExtremeCase": (1, "extreme", None), "ExactCase": (2, "exact", "ComplexExactCheck"), "FnCase": (3, "fn", "ComplexFnCheck")}[first["op"]]
        drv = build_driver(ctx, part, first.get("build", ""))
        d = ctx.sub("replay")
        cpath, tpath = os.path.join(d, "case.ndjson"), os.path.join(d, "case.table")
        write_lines(cpath, [first["a"]])
        n0 = len(ctx.violations)
        run_table(ctx, [drv, mode], cpath, tpath, first["op"])
        bad = []
        if len(ctx.violations) == n0:
            bad = validate_extreme(ctx, tpath, 1, "extreme-replay") if module is None else check_table(ctx, module, module + ".cfg", tpath, 1, "replay-table")
        if not bad and len(ctx.violations) == n0:
            print("replay accepted: the case now conforms to the specification")
            return 0
        print("VIOLATION property=C10 replay=%s" % path)
        print("  " + (json.dumps(bad[0])[:1500] if bad else ctx.violations[-1][1][:1500]))
        return 1
    # a register machine execution (a Crash event carries the call that crashed: re-execute it)
    lines = [l.get("call") if l.get("op") == "Crash" else l for l in lines]
    lines = [l for l in lines if l]
    reset = next((l for l in lines if l["op"] == "Reset"), {"a": {"t": "double", "b": True}})
    t, b = reset["a"]["t"], int(bool(reset["a"]["b"]))
    exe = os.path.join(ctx.work, "machine%d" % CFGS.index((t, b)))
    core.build(ctx, os.path.join(HDIR, "machine.cpp"), exe, flags=["-DCFG=%d" % CFGS.index((t, b)), "-O0"])
    sp, tp = os.path.join(ctx.work, "replay.script"), os.path.join(ctx.work, "replay.ndjson")
    write_lines(sp, lines)
    run_machine_script([exe, t, str(b)], sp, tp)
    r = core.validate_trace(ctx, "ComplexTrace", "ComplexTrace.cfg", tp)
    if r["accepted"]:
        print("replay accepted: the recorded calls now conform to Complex.tla")
        return 0
    print("VIOLATION property=C10 replay=%s" % path)
    print("  rejected at event %d; spec expected: %s" % (r["fail_line"] + 1, r.get("expected")))
    return 1


# ------------------------------------------------------------------ selftest (DESIGN.md section 10: corrupted records are rejected)
def selftest(ctx):
    """Corrupt one field of a recorded trace / table row / extreme record and show that TLC rejects exactly there."""
    import copy
    jobs = build_each(ctx, harness_jobs(ctx, False))
    if not all(j["ok"] for j in jobs):
        raise MachineryError(next(j["error"] for j in jobs if not j["ok"]))
    ok = True
    # (a) register machine trace: flip one cell of the logged state at event 9
    script = [{"op": "Reset", "a": {"t": "double", "b": True}}, {"op": "Load", "a": {"c": [1, 2, 3, 4, 5, 6, 7, 8, 9, 10, 11, 12, 2]}}]
    script += [{"op": "Cmp", "a": {"o": o, "x": x, "y": y}} for (o, x, y) in (("add", "r1", "v1"), ("mul", "v1", "k1"), ("sub", "r2", "w"), ("mul", "r1", "r2"))]
    script += [{"op": "Bin", "a": {"o": "mul", "x": "k1", "y": "r2"}}, {"op": "CmpS", "a": {"o": "mul", "x": "r2", "st": "T"}},
               {"op": "Cmp", "a": {"o": "div", "x": "r2", "y": "r2"}}, {"op": "Eq", "a": {"ne": False, "x": "r1", "y": "k1"}},
               {"op": "Part", "a": {"x": "k1", "part": "im", "via": "free"}}]
    sp, tp = os.path.join(ctx.work, "st.script"), os.path.join(ctx.work, "st.ndjson")
    write_lines(sp, script)
    run_machine_script([machine_of(ctx, "double", 1), "double", "1"], sp, tp)
    r = core.validate_trace(ctx, "ComplexTrace", "ComplexTrace.cfg", tp)
    print("selftest: unmodified trace accepted: %s (%d events)" % (r["accepted"], r["total"]))
    ok &= r["accepted"]
    lines = [json.loads(l) for l in open(tp) if l.strip()]
    for (idx, what, mut) in ((8, "a referent cell in the logged state", lambda e: e["st"]["cells"].__setitem__(8, e["st"]["cells"][8] + 1)),
                             (6, "the returned product", lambda e: e["res"].__setitem__(1, e["res"][1] - 1)),
                             (9, "the result of ==", lambda e: e.__setitem__("res", not e["res"]))):
        cl = copy.deepcopy(lines)
        mut(cl[idx])
        cp = os.path.join(ctx.work, "st-corrupt-%d.ndjson" % idx)
        write_lines(cp, cl)
        r = core.validate_trace(ctx, "ComplexTrace", "ComplexTrace.cfg", cp)
        good = (not r["accepted"]) and r.get("fail_line") == idx
        print("selftest: corrupted %s at event %d -> rejected at event %s : %s" % (what, idx + 1, r.get("fail_line", -1) + 1, "ok" if good else "NOT DETECTED"))
        ok &= good
    # (b) Annex G table: replace one observed result class
    drv = os.path.join(ctx.work, "driver1")
    bad, _ = annexg_classes(ctx, drv, ctx.seed, "selftest")
    ok &= not bad
    tab = os.path.join(ctx.work, "annexg", "classes-selftest.table")
    rows = [json.loads(l) for l in open(tab)]
    i = next(j for j, r0 in enumerate(rows) if r0["f"] == "div" and r0["x"] == ["pfin", "pz"] and r0["y"] == ["pinf", "nan"])
    rows[i]["r"]["float"]["rk"]["outs"] = [["pz", "nan"]]
    write_lines(tab + ".corrupt", rows)
    r = core.tlc(ctx, "AnnexGCheck", "AnnexGCheck_classes.cfg", name="selftest-table", env={"TABLE": tab + ".corrupt"}, extra=["-continue"], workers=4)
    b = emitted(r["out"], "@BAD@")
    good = len(b) == 1 and b[0]["key"]["x"] == ["pfin", "pz"] and b[0]["key"]["y"] == ["pinf", "nan"]
    print("selftest: corrupted one result class in row %d of the Annex G table -> %d row(s) rejected: %s" % (i + 1, len(b), "ok" if good else "NOT DETECTED"))
    ok &= good
    # (c) extreme record: exponent off by one
    case = {"t": "float", "q": [3, -1], "u": [1, 1], "n": [4, 2], "m": 0, "k": 126}
    cpath, tpath = os.path.join(ctx.work, "st-case.ndjson"), os.path.join(ctx.work, "st-case.table")
    write_lines(cpath, [case])
    run_stdin([drv, "extreme"], cpath, tpath)
    ok &= not validate_extreme(ctx, tpath, 1, "selftest-extreme")
    rec = json.loads(open(tpath).read())
    rec["r"]["rc"][0]["e"] += 1
    write_lines(tpath + ".corrupt", [rec])
    b = validate_extreme(ctx, tpath + ".corrupt", 1, "selftest-extreme-corrupt")
    print("selftest: corrupted one exponent of an extreme-divisor record -> %d record(s) rejected: %s" % (len(b), "ok" if len(b) == 1 else "NOT DETECTED"))
    ok &= len(b) == 1
    print("selftest %s" % ("passed" if ok else "FAILED"))
    return 0 if ok else 2


# ------------------------------------------------------------------ run
def run(ctx):
    q = ctx.quick
    ctx.cov["evaluations"] = 0
    # development aid (mutation experiments): VERIF_C10_STAGES=machine,annexg,exact,fn restricts the conformance stages that are
    # run; the registered commands never set it and the evidence records it
    only = set(x for x in os.environ.get("VERIF_C10_STAGES", "").split(",") if x)
    if only:
        ctx.notes["stages_restricted_to"] = sorted(only)
    on = lambda st: not only or st in only
    pool = ThreadPoolExecutor(max_workers=8)
    # everything that needs no harness runs while the harnesses compile
    ftypes = pool.submit(type_table, ctx)          # 0a. the types of the expressions the property talks about
    fprobe = pool.submit(run_probes, ctx)          # 0b. the calls the specs enable must exist (and their bodies compile)
    jobs = harness_jobs(ctx, not q)
    fbuild = pool.submit(build_each, ctx, jobs)
    flaws = pool.submit(core.tlc_model_check, ctx, "AnnexGMC", "AnnexG_mc.cfg",
                        "Annex G allowed-result relation: partition, satisfiable, symmetric, sign-blind, NaN only where unspecified (7^4 x {mul,div})",
                        workers=2, coverage=not q)
    fcases = pool.submit(extreme_cases, ctx, q)
    fek = pool.submit(enumerate_edges, ctx, q, "kinds")
    fev = pool.submit(enumerate_edges, ctx, q, "values")
    fsim = pool.submit(simulate, ctx, q)
    fexact = pool.submit(enumerate_cases, ctx, "ComplexExactMC", "ComplexExact_quick.cfg" if q else "ComplexExact_thorough.cfg", "exact-enumerate")
    ffn = pool.submit(enumerate_cases, ctx, "ComplexFnMC", "ComplexFn_quick.cfg" if q else "ComplexFn_thorough.cfg", "fn-enumerate")
    facclaws = pool.submit(core.tlc_model_check, ctx, "ComplexAccMC", "ComplexAcc_laws.cfg",
                           "limb arithmetic of ComplexAcc.tla against TLC's integers and polynomial identities; the error bounds on hand-computed examples", workers=1)
    facc = pool.submit(enumerate_cases, ctx, "ComplexAccMC", "ComplexAcc_quick.cfg" if q else "ComplexAcc_thorough.cfg", "acc-enumerate")

    rows, badrows = ftypes.result()
    ctx.log("type table: %d rows enumerated by TLC, checked as static_asserts for float, double, long double; %d fail" % (len(rows), len(badrows)))
    failed = fprobe.result()
    ctx.log("compile probes: %d families, %d statements, %d families fail" % (ctx.notes["compile_probe_families"], ctx.notes["compile_probe_statements"], len(failed)))
    r = flaws.result()
    if r["violated"]:
        raise MachineryError("AnnexG.tla violates its own theorem %s (oracle bug), see %s" % (r["violated"], r["outfile"]))
    if r["distinct"] != 4802:
        raise MachineryError("AnnexGMC did not enumerate 7^4 x 2 combinations: %s" % r["distinct"])
    if "coverage" in r:
        ctx.notes["annexg_relation_coverage"] = r["coverage"]
    jobs = fbuild.result()
    built = {j["name"]: j["ok"] for j in jobs}
    notbuilt = [j for j in jobs if not j["ok"]]
    if notbuilt:
        ctx.log("harnesses that do not build on this tree: %s" % ", ".join(j["name"] for j in notbuilt))
        if not ctx.violations:
            # nothing found by the syntax-level probes: an overload may be declared but not defined - compile and link them
            run_probes(ctx, link=True)
        if not ctx.violations:
            raise MachineryError(notbuilt[0]["error"])
        ctx.notes["harnesses_not_built"] = [j["name"] for j in notbuilt]
    cases, edges_k, edges_v, simdir = fcases.result(), fek.result(), fev.result(), fsim.result()
    ecases, fcs = fexact.result(), ffn.result()
    r = facclaws.result()
    if r["violated"]:
        raise MachineryError("ComplexAcc.tla violates its own laws %s (oracle bug), see %s" % (r["violated"], r["outfile"]))
    agrid = facc.result()
    ctx.notes["acc_grid_cases_enumerated_by_tlc"] = len(agrid)
    # TLC's exact integer arithmetic costs ~50 ms per row: a seeded sample of the enumerated grid plus as many seeded random cases
    nacc = 500 if q else 3000
    rnd = random.Random(ctx.seed * 31337 + 7)
    acases = rnd.sample(agrid, min(nacc, len(agrid))) + acc_random_cases(ctx.seed, nacc)
    ctx.notes["extreme_cases_enumerated_by_tlc"] = len(cases)
    ctx.notes["exact_cases_enumerated_by_tlc"] = len(ecases)
    ctx.notes["fn_cases_enumerated_by_tlc"] = len(fcs)
    # vacuity of the table specs: every form / scalar type / function occurs among the enumerated cases
    ctx.notes["exact_cases_by_form"] = {f: sum(1 for c in ecases if c["f"] == f) for f in sorted({c["f"] for c in ecases})}
    ctx.notes["exact_cases_by_scalar_type"] = {f: sum(1 for c in ecases if c["st"] == f) for f in sorted({c["st"] for c in ecases})}
    ctx.notes["fn_cases_by_function"] = {f: sum(1 for c in fcs if c["fn"] == f) for f in sorted({c["fn"] for c in fcs})}

    futs = []
    # ---- A. register machine (S->C), in the background
    if on("machine") and any(built.get("machine%d" % i) for i in range(6)):
        futs.append(pool.submit(register_machine, ctx, q, edges_k, edges_v, simdir))
    # ---- C, D. exact dyadic arithmetic, functions equal to std::complex's
    if on("exact") and built.get("driver2"):
        futs.append(pool.submit(table_stage, ctx, "Exact", os.path.join(ctx.work, "driver2"), "exact", sample_cases(ecases, ctx.seed, q), "ComplexExactCheck", describe_exact))
    if on("fn") and built.get("driver3"):
        futs.append(pool.submit(table_stage, ctx, "Fn", os.path.join(ctx.work, "driver3"), "fn", sample_cases(fcs, ctx.seed, q), "ComplexFnCheck", describe_fn))
    # ---- E. accuracy on general finite operands
    if on("acc") and built.get("driver4"):
        futs.append(pool.submit(acc_stage, ctx, os.path.join(ctx.work, "driver4"), acases))
    # ---- B. Annex G class tables (C->S) and the extreme-divisor clause
    if on("annexg") and built.get("driver1"):
        drv = os.path.join(ctx.work, "driver1")
        futs.append(pool.submit(annexg_extreme, ctx, drv, cases))
        runs = [(drv, ctx.seed, "asan-O1")]
        if not q:
            runs += [(drv, ctx.seed * 7919 + 13, "asan-O1-s2"), (drv, ctx.seed * 104729 + 71, "asan-O1-s3")]
            runs += [(os.path.join(ctx.work, n), ctx.seed, tag) for n, tag in (("driver_native", "native-O2"), ("driver_clang", "clang-O2")) if built.get(n)]
        reps = {}
        for (d, seed, tag) in runs:
            bad, meta = annexg_classes(ctx, d, seed, tag)
            reps[tag] = meta["reps"]
            if bad:
                again, _ = annexg_classes(ctx, d, seed, tag + "-again")
                report_class_bad(ctx, d, seed, tag, bad, again)
        ctx.notes["annexg_representatives"] = reps
        tab = os.path.join(ctx.work, "annexg", "classes-asan-O1.table")
        if os.path.exists(tab):
            ctx.sample({"annexg_row": open(tab).readlines()[1500][:600]})
        # the other two compilers also evaluate the exact and the function tables (thorough tier)
        for n, tag in (("driver_native", "native"), ("driver_clang", "clang")):
            if not q and built.get(n):
                futs.append(pool.submit(alt_tables, ctx, os.path.join(ctx.work, n), tag, ecases, fcs))
    for f in futs:
        f.result()
    pool.shutdown()

    # distinct cases: TLC-deduplicated L1 transitions (state, call, arguments), TLC-enumerated extreme-divisor, exact-arithmetic and
    # function cases and the 6174 distinct Annex G class rows; representatives / instantiations / operator variants are not counted again
    ctx.cov["distinct_nontrivial"] = (ctx.notes.get("s2c_transitions_enumerated", 0) + ctx.notes.get("extreme_cases_enumerated_by_tlc", 0)
                                      + ctx.notes.get("Exact_cases_evaluated", 0) + ctx.notes.get("Fn_cases_evaluated", 0)
                                      + ctx.notes.get("Acc_cases_evaluated", 0) + 6174)
    return core.finish(
        ctx, "exploration",
        rule="distinct_nontrivial = distinct TLC-enumerated L1 transitions + distinct extreme-divisor, exact-arithmetic and function cases + 6174 Annex G class rows "
             "(every one is an arithmetic, aliasing or forwarding operation on the real objects; repeats over representatives, instantiations "
             "and operator variants are not counted again). (A) Gaussian integers: TLC enumerates every L1 transition out of every initial state - all operations x all operand-kind "
             "patterns over {v,v,w(!B),T&,T&,const T&,std::complex,real of type T/int/long/float/double} with components in %s, and all pairs of Gaussian integers with "
             "components in %s x arithmetic patterns - plus %d random walks; replayed on %s x ieee_compliant false/true (quick: "
             "initial states spread over the four) and every recorded step (result, 13 cells, views through closures) validated by TLC. "
             "(B) Annex G: all 7^4 operand class combinations x {mul,div} + 7^3 x 4 mixed real forms, 6 representatives per finite class "
             "(1, 2.5, tiny/huge normal, 2 seeded), float and double, 7 operator variants incl. operands with different ieee flags; extreme-divisor clause on exactly "
             "representable quotients (divisor scale 2^k up to the ends of the normal range). (C) exact dyadic arithmetic n*2^e: 12 operator forms x 6 scalar C++ types x "
             "float/double/long double x both flags x 8 operator variants, operands moderate / subnormal / near the ends of the range%s. (D) ==, !=, unary -, +, conj, "
             "real, imag defined by IEEE 754 and 24 forwarded functions equal bit-for-bit to <complex>'s on NaN / inf / signed zero / subnormal / huge / dyadic parts%s. "
             "(E) accuracy on general finite well-scaled operands (ComplexAcc.tla): full-width 24/53-bit significands, leading-bit exponents in -30..30 (float) / -250..250 (double), "
             "components within 2^64 of each other, zeros of both signs; 12 operator forms x 6 scalar C++ types x both flags x 8 operator variants; %d cases"
             " (a seeded sample of the TLC-enumerated boundary grid + as many seeded random cases; TLC's exact limb arithmetic costs ~50 ms per case). "
             "(0) 982-row type table and %d compile-probe statements. A case is one operator or function evaluation on the real objects." % (
                 "{-1,0,2}" if q else "{-2,-1,0,3}", "-2..2" if q else "-3..3", 30 if q else 400, "float/double" if q else "float/double/long double",
                 " (a seeded 60 % of the enumerated cases)" if q else "; a seeded 30 % also with g++ -O2 -march=native and with clang++ -O2",
                 " (float, double; a seeded 60 %)" if q else " (also long double)", ctx.notes.get("Acc_cases_evaluated", 0), ctx.notes.get("compile_probe_statements", 0)),
        assumptions=["accuracy ('within a few units of rounding') is read as: + - componentwise within 2u, * / of two complex numbers normwise within 16u, * / with a real operand "
                     "componentwise within 16u (u = 2^-24 / 2^-53), decided exactly by TLC on a SAMPLE of general operands (part E: well-scaled = leading-bit exponents within "
                     "+-30 / +-250 and components within 2^64 of each other; scalars of another C++ type are values of the element type too); parts A, C and the extreme-divisor "
                     "clause demand equality where the exact result is representable (a quotient by a divisor whose squared modulus is not a power of two: 4 ulp)",
                     "division in the register machine only by divisors whose squared modulus is a power of two (every algorithm, also reciprocal multiplication, is exact there); "
                     "other exact quotients are in part C with the 4 ulp tolerance",
                     "'finite operands never yield NaN' is read with the property's own definition: a result with an infinite part is an infinity, not a NaN",
                     "the sign of zero results of + - * / is compared between closure kinds (violation) and with the sign IEEE 754 arithmetic on the components / C99 G.5 gives "
                     "(ADVISORY only: the statement says 'mathematically correct'; both answers are allowed where promoting the real operand gives the other one; complex quotients open); "
                     "NaN payloads are not compared (signs of zeros ARE compared for unary -, +, conj, real, imag and every forwarded function); "
                     "the non-ieee path is not checked on special values (the property says nothing)",
                     "configurations: T in {float,double} both tiers, long double thorough only (outside the property's quantifier, like xcomplex<int>, which is not exercised); "
                     "closure kinds T / T& / const T& and ieee_compliant false/true everywhere; compilers: g++ -O0/-O1 with AddressSanitizer both tiers, g++ -O2 -march=native -DNDEBUG and "
                     "clang++ -O2 -DNDEBUG for parts B, C, D in the thorough tier only; ISO mode (-std=c++14, -ffp-contract=off): no floating-point contraction; "
                     "only the default rounding direction; -ffast-math / flush-to-zero builds are not exercised",
                     "operands of different element types (xcomplex<float> with xcomplex<double>) do not compile in xtl (common_xcomplex) and are outside the quantifier"],
        exhaustive=False)


def alt_tables(ctx, drv, tag, ecases, fcs):
    """thorough tier: the exact and the function tables once more with a driver built by another compiler / at -O2"""
    for kind, mode, cs, module, describe in (("Exact", "exact", ecases, "ComplexExactCheck", describe_exact), ("Fn", "fn", fcs, "ComplexFnCheck", describe_fn)):
        table_stage(ctx, kind, drv, mode, sample_cases(cs, ctx.seed + len(tag), True, frac=0.3), module, describe, build=tag)

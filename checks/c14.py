"""C14 - byte hashes are pure functions of the bytes and equal reference MurmurHash2 / MurmurHash64A.

 1. TLC: Words.tla (fixed-width word arithmetic on byte digits) checked against TLA+ integers and algebraic laws;
    Murmur.tla (reference MurmurHash2 and MurmurHash64A) reproduces the published SMHasher verification values
    0x27864C1E and 0x1F0D3804 (MurmurMC.tla).
 2. C->S: the real murmur2_x86 / murmur2_x64 / hash_bytes (built with -fsanitize=address,bounds) hash every key at
    several placements: alignments 0..7 x {inside a pre-filled frame, exact-size heap block} x two fill patterns;
    TLC checks every observation against the reference, that all placements of a key agree, and - through a map
    variable - that a (bytes, seed) seen earlier produced the same values (MurmurCheck.tla).
 The std::hash<xbasic_fixed_string> clause of the property is covered by the C01 trace spec, not here.
"""
import os, random
from concurrent.futures import ThreadPoolExecutor
from vlib import core, tables
from vlib.core import MachineryError

FLAGS = ["-fsanitize=bounds", "-fno-sanitize-recover=bounds"]
PER_LINE = 16
WINDOW = 12            # lines between Reset events (the map `seen` is cleared there)
SEEDS = [0, 1, 0xc70f6907, 0xFFFFFFFF, 0x100000000, 0x8000000000000000, 0xFFFFFFFFFFFFFFFF]


def slimbs(v):
    return [(v >> (16 * k)) & 0xFFFF for k in range(4)]


def all_placements(fills=(0x00, 0xFF)):
    return [[kind, a, f] for kind in (0, 1) for a in range(8) for f in fills]


def content(rnd, n, variant):
    if variant == 0:
        return [rnd.randrange(256) for _ in range(n)]
    if variant == 1:
        return [0xFF] * n
    if variant == 2:
        return [rnd.choice([0x00, 0x80]) for _ in range(n)]
    if variant == 3:
        return [(i * 37 + 1) & 0xFF for i in range(n)]
    return [rnd.randrange(128, 256) for _ in range(n)]


def add_resets(lines):
    out = []
    for i, l in enumerate(lines):
        if i and i % WINDOW == 0:
            out.append({"op": "Reset", "c": [[0]]})
        out.append(l)
    return out


def pack(cases, per=PER_LINE):
    return add_resets([{"op": "H", "c": cases[i:i + per]} for i in range(0, len(cases), per)])


def scripts(ctx):
    q = ctx.quick
    rnd = random.Random(ctx.seed * 15485863 + 14)
    out = {}
    # (a) grid: every length 0..maxlen (all residues mod 4 and mod 8, up to 9 64-bit blocks + tail) x seeds x contents,
    #     every key at all 8 alignments x 2 buffer kinds x 2 fills
    maxlen = 40 if q else 80
    grid = []
    for n in range(0, maxlen + 1):
        for s in SEEDS + [rnd.getrandbits(64)]:
            for variant in ((0, 1) if q else (0, 1, 2, 3, 4)):
                if n == 0 and variant:
                    continue
                grid.append([content(rnd, n, variant), slimbs(s), all_placements()])
    rnd.shuffle(grid)
    # after every window's worth of keys, some of them again at other placements / fills (same Reset window,
    # so the map `seen` of MurmurCheck.tla still holds their first results): (bytes, seed) -> hash is a function
    cases = []
    per_window = PER_LINE * WINDOW
    gi = 0
    while gi < len(grid):
        chunk = grid[gi:gi + per_window - per_window // 6]
        gi += len(chunk)
        rep = [[c[0], c[1], [[rnd.randrange(2), rnd.randrange(8), rnd.choice([0x5A, 0xA5, 0x01])] for _ in range(3)]]
               for c in rnd.sample(chunk, min(len(chunk), per_window // 6))]
        cases += chunk + rep
    out["grid"] = pack(cases)
    # (b) seeded random keys up to length 300, a few random placements each
    nr = 600 if q else 40000
    rk = []
    for _ in range(nr):
        t = rnd.random()
        n = rnd.randrange(0, 41) if t < 0.3 else rnd.randrange(41, 301)
        rk.append([content(rnd, n, rnd.choice([0, 0, 0, 2, 4])), slimbs(rnd.choice(SEEDS) if rnd.random() < 0.3 else rnd.getrandbits(64)),
                   [[rnd.randrange(2), rnd.randrange(8), rnd.choice([0, 0xFF])], [1, rnd.randrange(8), rnd.choice([0, 0xFF])],
                    [0, rnd.randrange(8), rnd.choice([0x5A, 0xA5])]]])
    out["random"] = pack(rk)
    # (c) the SMHasher key family {0,1,..,n-1} with seed 256-n, at the worst alignments
    sm = [[list(range(n)), slimbs(256 - n), [[1, 1, 0xFF], [1, 7, 0], [0, 3, 0xFF], [1, 0, 0]]] for n in range(0, 256, 1 if not q else 5)]
    out["smhasher-keys"] = pack(sm)
    return out


def build(ctx):
    drv = os.path.join(ctx.work, "hash_driver")
    core.build(ctx, os.path.join(core.HARNESS, "hash", "driver.cpp"), drv, flags=FLAGS)
    return drv


def describe(l):
    c = l["c"][0]
    return "hash of %d-byte key %s%s seed limbs %s" % (len(c[0]), c[0][:24], "..." if len(c[0]) > 24 else "", c[1]) if l["op"] == "H" else l["op"]


def replay(ctx, path):
    return tables.replay(ctx, path, "MurmurCheck", "MurmurCheck.cfg", build(ctx), pid="C14")


def selftest(ctx):
    rnd = random.Random(5)
    cases = [[content(rnd, n, 0), slimbs(rnd.getrandbits(64)), all_placements()[:6]] for n in (0, 3, 8, 13, 21, 40, 64, 7)]
    lines = [{"op": "H", "c": cases[i:i + 2]} for i in range(0, len(cases), 2)]

    def corrupt(tl, j):
        tl["c"][j][2][4][4][2] ^= 1     # one bit of one limb of murmur2_x64 in the 5th placement
    return tables.selftest_corrupt(ctx, "MurmurCheck", "MurmurCheck.cfg", build(ctx), lines, corrupt, (3, 2), pid="C14")


def run(ctx):
    q = ctx.quick
    with ThreadPoolExecutor(2) as ex:      # the model-checking run overlaps with compiling the harness
        f1 = ex.submit(core.tlc_model_check, ctx, "MurmurMC", "Murmur_mc.cfg",
                       "word arithmetic vs integers + algebraic laws; reference hashes reproduce the SMHasher verification values",
                       workers=tables.tlc_workers())
        drv = build(ctx)
        sc = scripts(ctx)
        r = f1.result()
    if r["violated"]:
        raise MachineryError("Words.tla/Murmur.tla violate their own laws or the published vectors (%s): oracle bug, see %s" % (
            r["violated"], r["outfile"]))
    jobs = []
    for name, lines in sc.items():
        n = {"grid": 6, "random": 4, "smhasher-keys": 2}[name] if q else {"grid": 8, "random": 24, "smhasher-keys": 2}[name]
        k = max(1, (len(lines) + n - 1) // n)
        for i in range(0, len(lines), k):
            jobs.append(tables.Job("%s-%d" % (name, i // k), drv, lines[i:i + k]))
    keys = sum(len(l["c"]) for j in jobs for l in j.lines if l["op"] == "H")
    calls = sum(len(c[2]) for j in jobs for l in j.lines if l["op"] == "H" for c in l["c"])
    ctx.log("C->S: %d keys, %d placements (x 4 functions) in %d tables" % (keys, calls, len(jobs)))
    ctx.sample({"script": [str(sc["grid"][0]["c"][0])[:300]]})
    ok = tables.validate(ctx, "MurmurCheck", "MurmurCheck.cfg", jobs, describe=describe, parallel=core.NCPU if not q else None)
    ctx.cov["distinct_nontrivial"] = keys
    ctx.cov["evaluations"] = calls * 3
    ctx.notes["keys"] = keys
    ctx.notes["placements_hashed"] = calls
    ctx.notes["cases_by_family"] = {k: sum(len(l["c"]) for l in v if l["op"] == "H") for k, v in sc.items()}
    ctx.log("TLC accepted %d table cases (keys + resets) covering %d keys" % (ok, keys))
    return core.finish(
        ctx, "exploration",
        rule="murmur2_x86, murmur2_x64, hash_bytes: every key length 0..%d x 8 seeds (0, 1, 0xc70f6907, 2^32-1, 2^32, 2^63, 2^64-1, random) x %d "
             "byte contents, each at alignments 0..7 x {inside a pre-filled frame, exact-size heap block} x 2 fill bytes; repeats of "
             "earlier keys at other placements; %d seeded random keys up to 300 bytes at 3 placements; the SMHasher key family; "
             "one case = one key with all its placements, compared by TLC with the Murmur.tla reference and with each other"
             % (40 if q else 80, 2 if q else 5, 600 if q else 40000),
        assumptions=["little-endian host with sizeof(std::size_t) = 8: the 32-bit-platform branch of murmur_hash<8> and big-endian "
                     "loads are not compiled here (no -m32 runtime on this machine)",
                     "reads before a key that is not at the start of its heap block are detected only through the two fill patterns "
                     "(AddressSanitizer cannot poison a partial granule on the left)",
                     "std::hash<xbasic_fixed_string> (last clause of the property) is checked by the C01 trace spec"],
        exhaustive=False)

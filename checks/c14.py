"""C14 - byte hashes are pure functions of the bytes and equal reference MurmurHash2 / MurmurHash64A.

 1. TLC: Words.tla (fixed-width word arithmetic on byte digits) checked against TLA+ integers and algebraic laws;
    Murmur.tla (reference MurmurHash2 and MurmurHash64A) reproduces the published SMHasher verification values
    0x27864C1E and 0x1F0D3804 (MurmurMC.tla).
 2. TLC: MurmurImpl.tla (L2: the two hash loops, the tail switch and load_bytes transcribed as a state machine)
    returns the L1 reference value for every key of a finite universe and dereferences exactly the key's bytes.
 3. C->S: the real murmur2_x86 / murmur2_x64 / hash_bytes hash every key at several placements: alignments 0..7 x
    {inside a pre-filled frame, exact-size heap block} x two fill patterns, plus the key flush against the end /
    the start of a page whose neighbour is PROT_NONE (an over-read faults in every build); in several builds of the
    driver (g++ -O1 ASan+bounds, g++ -O2 without sanitizer, clang++ -O2 ASan; g++ -O3 -march=native and -O0 in the
    thorough tier).  TLC checks every observation against the reference, that all placements of a key agree, and -
    through a map variable - that a (bytes, seed) seen earlier produced the same values (MurmurCheck.tla).
 The std::hash<xbasic_fixed_string> clause of the property is covered by the C01 trace spec, not here.
 A driver that dies, hangs or does not build ends in a VIOLATION whenever the property's functions are at fault.
"""
import os, random
from concurrent.futures import ThreadPoolExecutor
from vlib import core, tables
from vlib.core import MachineryError

FLAGS = ["-fsanitize=bounds", "-fno-sanitize-recover=bounds"]
PER_LINE = 16
WINDOW = 12            # lines between Reset events (the map `seen` is cleared there)
FLAVOURS = {"asan": tables.Flavour("asan", flags=FLAGS),
            "O2": tables.Flavour("O2", flags=["-O2"], asan=False),
            "clangO2": tables.Flavour("clangO2", cxx="clang++", flags=["-O2"] + FLAGS),
            "O3native": tables.Flavour("O3native", flags=["-O3", "-march=native"], asan=False),
            "O0": tables.Flavour("O0", flags=["-O0"] + FLAGS)}
SEEDS = [0, 1, 0xc70f6907, 0xFFFFFFFF, 0x100000000, 0x8000000000000000, 0xFFFFFFFFFFFFFFFF,
         0x80000000, 0x8000000080000000, 0x7FFFFFFF7FFFFFFF]      # round 3: the high bit of each half alone / both / neither
STRAT = [0x00, 0x01, 0x7F, 0x80, 0xFF]
NALIGN = 16            # every alignment 0..15 (round 3; 0..7 before)


def slimbs(v):
    return [(v >> (16 * k)) & 0xFFFF for k in range(4)]


def all_placements(fills=(0x00, 0xFF)):
    """frame and exact heap block at every alignment x fill; flush against a PROT_NONE page behind / before the key"""
    return [[kind, a, f] for kind in (0, 1) for a in range(NALIGN) for f in fills] + [[2, 0, fills[0]], [2, 0, fills[1]], [3, 0, fills[1]]]


def content(rnd, n, variant):
    if variant == 0:
        return [rnd.randrange(256) for _ in range(n)]
    if variant == 1:
        return [0xFF] * n
    if variant == 2:
        return [rnd.choice([0x00, 0x80]) for _ in range(n)]
    if variant == 3:
        return [(i * 37 + 1) & 0xFF for i in range(n)]
    return [rnd.randrange(128, 256) for _ in range(n)]


def add_resets(lines):
    out = []
    for i, l in enumerate(lines):
        if i and i % WINDOW == 0:
            out.append({"op": "Reset", "c": [[0]]})
        out.append(l)
    return out


def pack(cases, per=PER_LINE):
    # the empty key is also hashed through a null pointer (kind 5): reading no byte needs no object
    for c in cases:
        if len(c[0]) == 0 and [5, 0, 0] not in c[2]:
            c[2] = list(c[2]) + [[5, 0, 0]]
    return add_resets([{"op": "H", "c": cases[i:i + per]} for i in range(0, len(cases), per)])


def scripts(ctx):
    q = ctx.quick
    rnd = random.Random(ctx.seed * 15485863 + 14)
    out = {}
    # (a) grid: every length 0..maxlen (all residues mod 4 and mod 8, up to 9 64-bit blocks + tail) x seeds x contents,
    #     every key at all 8 alignments x 2 buffer kinds x 2 fills
    maxlen = 40 if q else 80
    grid = []
    for n in range(0, maxlen + 1):
        for s in SEEDS + [rnd.getrandbits(64)]:
            for variant in ((0, 1) if q else (0, 1, 2, 3, 4)):
                if n == 0 and variant:
                    continue
                grid.append([content(rnd, n, variant), slimbs(s), all_placements()])
    rnd.shuffle(grid)
    # after every window's worth of keys, some of them again at other placements / fills (same Reset window,
    # so the map `seen` of MurmurCheck.tla still holds their first results): (bytes, seed) -> hash is a function
    cases = []
    per_window = PER_LINE * WINDOW
    gi = 0
    while gi < len(grid):
        chunk = grid[gi:gi + per_window - per_window // 6]
        gi += len(chunk)
        rep = [[c[0], c[1], [[rnd.randrange(2), rnd.randrange(NALIGN), rnd.choice([0x5A, 0xA5, 0x01])] for _ in range(3)]]
               for c in rnd.sample(chunk, min(len(chunk), per_window // 6))]
        cases += chunk + rep
    out["grid"] = pack(cases)
    # (b) seeded random keys up to length 300, a few random placements each
    nr = 600 if q else 40000
    rk = []
    for _ in range(nr):
        t = rnd.random()
        n = rnd.randrange(0, 41) if t < 0.3 else rnd.randrange(41, 301)
        rk.append([content(rnd, n, rnd.choice([0, 0, 0, 2, 4])), slimbs(rnd.choice(SEEDS) if rnd.random() < 0.3 else rnd.getrandbits(64)),
                   [[rnd.randrange(2), rnd.randrange(NALIGN), rnd.choice([0, 0xFF])], [1, rnd.randrange(NALIGN), rnd.choice([0, 0xFF])],
                    [0, rnd.randrange(NALIGN), rnd.choice([0x5A, 0xA5])], [2, 0, rnd.choice([0, 0xFF])]]])
    out["random"] = pack(rk)
    # (c) the SMHasher key family {0,1,..,n-1} with seed 256-n, at the worst alignments
    sm = [[list(range(n)), slimbs(256 - n), [[1, 1, 0xFF], [1, 7, 0], [0, 3, 0xFF], [1, 0, 0], [2, 0, 0xFF], [3, 0, 0]]] for n in range(0, 256, 1 if not q else 5)]
    out["smhasher-keys"] = pack(sm)
    # (d) long keys (to 20 000 bytes: more than one page, lengths around the page size), a few placements each
    lk = []
    for n in [4095, 4096, 4097, 8193, 20001] + [rnd.randrange(301, 6000) for _ in range(5 if q else 60)]:
        lk.append([content(rnd, n, rnd.choice([0, 0, 3, 4])), slimbs(rnd.choice(SEEDS) if rnd.random() < 0.5 else rnd.getrandbits(64)),
                   [[1, rnd.randrange(8), 0xFF], [0, rnd.randrange(8), 0], [2, 0, 0xFF]]])
    out["long"] = pack(lk, per=2)
    # (e) a reused buffer: runs of keys of the same length and seed hashed one after the other at the same address
    #     (and the first one again at the end): only the bytes differ from call to call
    ru = []
    for _ in range(40 if q else 600):
        n = rnd.choice([1, 3, 7, 8, 12, 16, 17, 24, 31, 32, 33, 40, 64, 100, rnd.randrange(1, 300)])
        sd = slimbs(rnd.choice(SEEDS) if rnd.random() < 0.5 else rnd.getrandbits(64))
        a, f = rnd.randrange(8), rnd.choice([0, 0xFF])
        ks = [content(rnd, n, v) for v in (0, 4, 0)]
        for k in ks + [ks[0]]:
            ru.append([k, sd, [[4, a, f], [4, a, f]]])
    out["reused"] = pack(ru, per=4)
    # (f) one key longer than 65 536 bytes (a length that does not fit 16 bits), default build only (TLC needs ~10 s for it)
    out["huge"] = pack([[content(rnd, 65536 + rnd.randrange(1, 3000), 0), slimbs(rnd.getrandbits(64)), [[1, rnd.randrange(8), 0xFF]]]])
    # (g) round 3, exhaustive: EVERY key of length <= 2 over all 256 byte values (65 793 keys), with a seed that has the high
    #     bit of each half set (thorough: also seed 0 and a seeded random seed); exact-size block at a rotating alignment,
    #     flush behind a PROT_NONE page and flush before one
    ex2_seeds = [0x8000000080000001] + ([] if q else [0, rnd.getrandbits(64)])
    ex2 = []
    for sd in ex2_seeds:
        for k in [[]] + [[a] for a in range(256)] + [[a, b] for a in range(256) for b in range(256)]:
            ex2.append([k, slimbs(sd), [[1, (sum(k) + len(k)) % NALIGN, 0xFF], [3, 0, 0x00], [2, 0, 0xFF]]])
    out["exh2"] = pack(ex2, per=64)
    # (h) round 3, stratified: every key over the bytes {00, 01, 7F, 80, FF} up to length 4 (thorough: 6), and for the lengths up
    #     to 9 every position set to each of these bytes in a random key and in an all-FF key
    st = []
    nfull = 4 if q else 6
    frontier = [[]]
    allk = [[]]
    for _ in range(nfull):
        frontier = [k + [b] for k in frontier for b in STRAT]
        allk += frontier
    for k in allk:
        st.append(k)
    for n in range(nfull + 1, 10):
        for base in ([rnd.randrange(256) for _ in range(n)], [0xFF] * n, [rnd.choice(STRAT) for _ in range(n)]):
            for pos in range(n):
                for b in STRAT:
                    st.append(base[:pos] + [b] + base[pos + 1:])
    out["strat"] = pack([[k, slimbs(SEEDS[(i + len(k)) % len(SEEDS)]), [[1, i % NALIGN, 0xFF], [0, (i * 7) % NALIGN, 0x00], [2, 0, 0xFF], [3, 0, 0xFF]]]
                         for i, k in enumerate(st)], per=32)
    # (i) round 3: lengths up to 4 KiB beyond the grid: every length 81..129 and lengths around 256/512/1024 (thorough: every
    #     length to 520, then a stride of 61 - every residue mod 8 and mod 16 - to 4 KiB and the lengths around 4096)
    if q:
        lens = list(range(81, 130)) + [255, 256, 257, 511, 513, 1023, 1025]
    else:
        lens = list(range(81, 521)) + list(range(521, 4100, 61)) + [4093, 4094, 4095, 4096, 4097, 4098, 4099]
    out["lengths"] = pack([[content(rnd, n, 3 if n % 3 else 0), slimbs(SEEDS[n % len(SEEDS)]), [[1, n % NALIGN, 0xFF], [2, 0, 0x00]]] for n in lens], per=4)
    return out


_generic = {}


def has_generic(ctx):
    """does the header still have the (detail::) fallback template?  Not part of the property: advisory comparison only"""
    if "v" not in _generic:
        rc, o = core.try_build(ctx, os.path.join(core.HARNESS, "hash", "generic_probe.cpp"), os.path.join(ctx.work, "generic_probe"))
        _generic["v"] = rc == 0
        if rc != 0:
            ctx.drift.append("xhash.hpp no longer has the primary template detail::murmur_hash<N> (fallback for an unusual "
                             "sizeof(std::size_t)); not part of the property, the Poly131 comparison is skipped")
    return _generic["v"]


def build(ctx, flavour="asan"):
    """-> path of the driver built in that flavour, or None after a VIOLATION (the property's functions cannot be called)"""
    if flavour == "ilp32":
        d = build32(ctx)
        if d is None:
            raise MachineryError("the ILP32 driver cannot be built / run here: %s" % ctx.notes.get("ilp32"))
        return d
    fl = FLAVOURS[flavour or "asan"]
    return tables.build_driver(ctx, "C14", os.path.join(core.HARNESS, "hash", "driver.cpp"), os.path.join(ctx.work, "hash_driver_" + fl.name),
                               os.path.join(core.HARNESS, "hash", "api_probe.cpp"),
                               flags=["-DHAVE_GENERIC_FALLBACK"] if has_generic(ctx) else [], flavour=fl)


M32_FLAGS = ["-std=c++14", "-m32", "-O1", "-g", "-ffreestanding", "-nostdinc++", "-fno-stack-protector", "-fno-pie", "-no-pie",
             "-fno-exceptions", "-fno-rtti", "-nostdlib", "-static"]
_ilp32 = {}


def build32(ctx):
    """The ILP32 build of the driver (harness/hash/driver32.cpp: freestanding, -m32, raw system calls) - the only way to
    compile AND run the header's branch for 32-bit platforms on this machine.  -> path, or None when this machine cannot
    build or start such a program (recorded in the evidence; nothing of the property's LP64 claim depends on it)."""
    if "v" in _ilp32:
        return _ilp32["v"]
    out = os.path.join(ctx.work, "hash_driver_ilp32")
    cmd = [core.CXX] + M32_FLAGS + ["-isystem", os.path.join(core.HARNESS, "hash", "stubs32"), "-I", core.INCLUDE,
                                   os.path.join(core.HARNESS, "hash", "driver32.cpp"), "-o", out]
    rc, o = core.sh(cmd, timeout=600)
    _ilp32["v"] = None
    if rc != 0:
        # does the 64-bit interface probe build?  then the tree is fine for LP64 and only the 32-bit configuration is broken
        errs = " | ".join([l.strip() for l in o.splitlines() if "error" in l][:3])[:600]
        if "xhash.hpp" in o:
            ctx.drift.append("ADVISORY ILP32: xhash.hpp does not compile for a 32-bit target (g++ -m32, freestanding): " + errs)
        ctx.notes["ilp32"] = "driver32.cpp does not build with -m32 here: " + errs
        return None
    rc, o = _run_empty(out)
    if rc != 0:
        ctx.notes["ilp32"] = "the -m32 driver builds but this kernel does not run it (status %s): %s" % (rc, o[:200])
        return None
    ctx.notes["ilp32"] = "built and run: " + " ".join(cmd[:1] + M32_FLAGS)
    _ilp32["v"] = out
    return out


def _run_empty(exe):
    import subprocess
    try:
        p = subprocess.run([exe], stdin=subprocess.DEVNULL, stdout=subprocess.PIPE, stderr=subprocess.STDOUT, timeout=60)
        return p.returncode, p.stdout.decode(errors="replace")
    except (OSError, subprocess.TimeoutExpired) as e:
        return 126, str(e)


def describe(l):
    c = l["c"][0]
    return "hash of %d-byte key %s%s seed limbs %s%s" % (len(c[0]), c[0][:24], "..." if len(c[0]) > 24 else "", c[1],
                                                          " [ILP32 build, -m32]" if l.get("bld") == "ilp32" else "") if l["op"] == "H" else l["op"]


def replay(ctx, path):
    return tables.replay(ctx, path, "MurmurCheck", "MurmurCheck.cfg", lambda bld: build(ctx, bld), pid="C14")


def selftest(ctx):
    rnd = random.Random(5)
    cases = [[content(rnd, n, 0), slimbs(rnd.getrandbits(64)), all_placements()[:6]] for n in (0, 3, 8, 13, 21, 40, 64, 7)]
    lines = [{"op": "H", "c": cases[i:i + 2]} for i in range(0, len(cases), 2)]

    def corrupt(tl, j):
        tl["c"][j][2][4][4][2] ^= 1     # one bit of one limb of murmur2_x64 in the 5th placement
    return tables.selftest_corrupt(ctx, "MurmurCheck", "MurmurCheck.cfg", build(ctx), lines, corrupt, (3, 2), pid="C14")


def run(ctx):
    q = ctx.quick
    flavours = ["asan", "O2", "clangO2"] + ([] if q else ["O3native", "O0"])
    has_generic(ctx)
    with ThreadPoolExecutor(4) as ex:      # the model-checking runs overlap with compiling the harness
        f1 = ex.submit(core.tlc_model_check, ctx, "MurmurMC", "Murmur_mc.cfg",
                       "word arithmetic vs integers + algebraic laws; reference hashes reproduce the SMHasher verification values",
                       workers=tables.tlc_workers())
        f2 = ex.submit(core.tlc_model_check, ctx, "MurmurImpl", "MurmurImpl_mc.cfg" if q else "MurmurImpl_mc_thorough.cfg",
                       "L2 hash loops / tail switch / load_bytes return the L1 value and read exactly the key's bytes; terminate",
                       coverage=not q, workers=tables.tlc_workers())
        f3 = ex.submit(core.tlc_model_check, ctx, "MurmurImpl32", "MurmurImpl32_mc.cfg" if q else "MurmurImpl32_mc_thorough.cfg",
                       "L2 of the 32-bit-platform branch of murmur_hash<8> returns MurmurHash2A(low seed half) zero-extended and reads exactly the key's bytes; terminates",
                       coverage=not q, workers=tables.tlc_workers())
        drvs = {f: d for f, d in zip(flavours, ex.map(lambda f: build(ctx, f), flavours))}
        d32 = build32(ctx)
        sc = scripts(ctx)
        r, r2, r3 = f1.result(), f2.result(), f3.result()
    if r3["violated"] or "No error has been found" not in r3["out"]:
        ctx.drift.append("MurmurImpl32.tla (the transcribed 32-bit-platform branch) does not compute Murmur!X64OnILP32 (%s); see %s" % (r3["violated"], r3["outfile"]))
    # expected counterexample: that branch is not MurmurHash64A (what the statement asks of murmur2_x64); proposed fix C14-01
    r4 = core.tlc(ctx, "MurmurImpl32", "MurmurImpl32_vs64A.cfg", name="l2-ilp32-vs-murmur64a", workers=tables.tlc_workers())
    ctx.notes["l2_ilp32_branch_vs_MurmurHash64A"] = ("IsMurmur64A violated (as on the unchanged tree): on a 32-bit platform murmur2_x64 is MurmurHash2A of the "
                                                     "low seed half, a 32-bit value" if r4["violated"] else "IsMurmur64A holds: the 32-bit-platform branch computes MurmurHash64A")
    if r["violated"]:
        raise MachineryError("Words.tla/Murmur.tla violate their own laws or the published vectors (%s): oracle bug, see %s" % (
            r["violated"], r["outfile"]))
    if r2["violated"] or "No error has been found" not in r2["out"]:
        ctx.drift.append("MurmurImpl.tla (the transcribed loops) does not compute Murmur.tla's functions (%s); see %s" % (r2["violated"], r2["outfile"]))
    if not q:
        ctx.notes["l2_action_coverage"] = r2.get("coverage", {})
        ctx.notes["vacuous_actions"] = sorted(k for k, v in r2.get("coverage", {}).items() if v[1] == 0 and k[0] == "X")
        ctx.notes["l2_ilp32_action_coverage"] = {k: v for k, v in r3.get("coverage", {}).items() if k[0].isupper()}
        ctx.notes["vacuous_actions"] += sorted(k for k, v in r3.get("coverage", {}).items()
                                               if v[1] == 0 and k in ("PBlock", "Switch", "Case3", "Case2", "Case1", "MixT", "MixL", "PFinal"))
    if any(d is None for d in drvs.values()):      # the functions cannot be called as the property states: reported by build()
        return core.finish(ctx, "exploration", rule="the conformance driver does not build against this tree; no key was hashed",
                           assumptions=[], exhaustive=False)
    jobs = []
    for name, lines in sc.items():
        n = {"grid": 6, "random": 4, "smhasher-keys": 2, "long": 1, "huge": 1, "reused": 1, "exh2": 4, "strat": 1, "lengths": 1}[name] if q else {"grid": 8, "random": 24, "smhasher-keys": 2, "long": 4, "huge": 1, "reused": 2, "exh2": 24, "strat": 6, "lengths": 4}[name]
        k = max(1, (len(lines) + n - 1) // n)
        k += (-k) % (WINDOW + 1)              # cut at Reset lines
        for i in range(0, len(lines), k):
            jobs.append(tables.Job("%s-%d" % (name, i // k), drvs["asan"], lines[i:i + k], bld="asan"))
    # the other builds: a slice of the grid (every length and seed occurs in each slice of WINDOW lines or more), the long
    # keys and a slice of the random keys
    for f in flavours[1:]:
        for name, frac in (("grid", 3), ("random", 4 if q else 12), ("smhasher-keys", 1), ("long", 1), ("reused", 1)):
            lines = sc[name]
            k = max(WINDOW + 1, len(lines) // frac)
            k += (-k) % (WINDOW + 1)
            off = (flavours.index(f) * k) % max(1, len(lines) - k + 1)
            off -= off % (WINDOW + 1)
            jobs.append(tables.Job("%s-%s-0" % (name, f), drvs[f], lines[off:off + k], bld=f))
    # the ILP32 build (round 3): murmur2_x86 and hash_bytes are checked like everywhere else, murmur2_x64 as described in
    # MurmurCheck.tla; a slice of every family (all short and stratified keys in the thorough tier)
    if d32:
        for name, frac in (("grid", 3), ("random", 4 if q else 12), ("smhasher-keys", 1), ("long", 1), ("reused", 1), ("strat", 1),
                           ("lengths", 1), ("exh2", 4 if q else 3)):
            if q and name == "lengths":
                continue
            lines = sc[name]
            k = max(WINDOW + 1, len(lines) // frac)
            k += (-k) % (WINDOW + 1)
            off = ((ctx.seed % frac) * k) % max(1, len(lines) - k + 1) if name == "exh2" and q else 0
            off -= off % (WINDOW + 1)
            part = lines[off:off + k]
            nt = 1 if len(part) < 400 else (2 if q else 6)
            kk = max(WINDOW + 1, (len(part) + nt - 1) // nt)
            kk += (-kk) % (WINDOW + 1)
            for i in range(0, len(part), kk):
                jobs.append(tables.Job("%s-ilp32-%d" % (name, i // kk), d32, part[i:i + kk], bld="ilp32"))
    ctx.notes["build_flavours"] = {f: " ".join([FLAVOURS[f].cxx or core.CXX] + FLAVOURS[f].flags + ([] if not FLAVOURS[f].asan else ["-fsanitize=address"])) for f in flavours}
    keys = sum(len(l["c"]) for j in jobs for l in j.lines if l["op"] == "H")
    calls = sum(len(c[2]) for j in jobs for l in j.lines if l["op"] == "H" for c in l["c"])
    ctx.log("C->S: %d keys, %d placements (x 3 functions) in %d tables, builds %s" % (keys, calls, len(jobs), flavours))
    ctx.sample({"script": [str(sc["grid"][0]["c"][0])[:300]]})
    ok = tables.validate(ctx, "MurmurCheck", "MurmurCheck.cfg", jobs, describe=describe, parallel=core.NCPU if not q else None)
    ctx.cov["distinct_nontrivial"] = keys
    ctx.cov["evaluations"] = calls * 3
    ctx.notes["keys"] = keys
    ctx.notes["placements_hashed"] = calls
    ctx.notes["cases_by_family"] = {k: sum(len(l["c"]) for l in v if l["op"] == "H") for k, v in sc.items()}
    ctx.log("TLC accepted %d table cases (keys + resets) covering %d keys" % (ok, keys))
    return core.finish(
        ctx, "exploration",
        rule="murmur2_x86, murmur2_x64, hash_bytes: every key length 0..%d x 11 seeds (0, 1, 0xc70f6907, 2^32-1, 2^32, 2^63, 2^64-1, 2^31, 2^63+2^31, "
             "2^63-1 with bit 31 clear, random) x %d byte contents, each at alignments 0..15 x {inside a pre-filled frame, exact-size heap block} x 2 fill "
             "bytes and flush against a PROT_NONE page behind (2 fills) and before the key; repeats of earlier keys at other placements; EVERY key of "
             "length <= 2 over all 256 byte values (65 793 keys) x %d seed(s) with the high bit of both halves set; every key over {00,01,7F,80,FF} to "
             "length %d and single-position substitutions of these bytes to length 9; %d seeded random keys up to 300 bytes at 4 placements; the "
             "SMHasher key family; lengths %s; %d long keys (to 20 000 bytes, lengths around the page size) and one of more than 65 536 bytes; %d runs "
             "of 4 keys of equal length and seed hashed one after the other in one reused buffer; slices of all families repeated in the builds %s%s; "
             "one case = one key with all its placements, compared by TLC with the Murmur.tla reference and with each other"
             % (40 if q else 80, 2 if q else 5, 1 if q else 3, 4 if q else 6, 600 if q else 40000,
                "81..129 and around 256/512/1024" if q else "81..520, then every 61st to 4 KiB, 4093..4099", 10 if q else 65, 40 if q else 600,
                ", ".join(flavours[1:]), " and in the ILP32 build (g++ -m32, freestanding: sizeof(std::size_t) = 4, the header's 32-bit-platform branch)" if d32 else ""),
        assumptions=["little-endian hosts only (big-endian loads are not compiled). LP64 builds: verdicts for all three functions. ILP32 build "
                     "(harness/hash/driver32.cpp, compiled with -m32 -ffreestanding -nostdlib against stub standard headers and started by the "
                     "kernel's 32-bit support; %s): murmur2_x86 and hash_bytes (= MurmurHash2 there) are verdicts, placement/history independence of "
                     "all three is a verdict, the VALUE of murmur2_x64 is advisory until proposed fix C14-01 is committed (the unchanged branch returns "
                     "32-bit MurmurHash2A of the low seed half, which MurmurImpl32.tla transcribes and TLC proves; ILP32_X64=verdict in the environment "
                     "makes it a verdict)" % ctx.notes.get("ilp32", "not available"),
                     "a read behind the key faults in every build (PROT_NONE page) and is an ASan report in the sanitizer builds; a read "
                     "before a key at an address that is not 8-aligned is detected only through the two fill patterns (neither a guard page "
                     "nor AddressSanitizer can forbid part of a granule on the left)",
                     "xhash.hpp has exactly three public entry points (hash_bytes, murmur2_x86, murmur2_x64; grep over include/xtl: the only other "
                     "caller is std::hash<xbasic_fixed_string>); all are driven. The detail:: fallback template is compared with its description as an "
                     "advisory only, when it exists",
                     "std::hash<xbasic_fixed_string> (last clause of the property) is checked by the C01 trace spec",
                     "avalanche / distribution quality is not part of the statement and is not examined"],
        exhaustive=False)

"""C17 script generation: TLC output -> scripts, seeded random scripts, fixed upstream sequences.
A script is a list of calls {"op":..,"a":{..}}; an execution starts at a Reset event."""
import json, os
from vlib import tlaval

FAST_KINDS = {"fast_dyn", "fast_static", "raw_fast", "vfast_dyn"}
SMALL_COMBOS = [(1, 0), (2, 1)]       # (arity, extras) compiled into -DC17_SMALL builds
COMBOS = {1: [0, 1, 3], 2: [0, 1, 2], 3: [0, 1]}
CLONE_HOWS = ["ctor", "assign"]
TAKE_HOWS = ["copy", "copyctor", "move", "movector", "swap", "self"]


def reset_ev(cfg, bf=None):
    a = {"kind": cfg["kind"], "ar": cfg["ar"], "nx": cfg["nx"], "k": cfg["k"]}
    if cfg.get("fl", "exc") != "exc":
        a["fl"] = cfg["fl"]
    if bf:
        a["bf"] = bf            # build flavour of the driver (ignored by driver and spec; kept for replays)
    return {"op": "Reset", "a": a}


def emitted(out, tag):
    res = []
    pre = '"' + tag
    for line in out.splitlines():
        if line.startswith(pre):
            res.append(json.loads(json.loads(line)[len(tag):]))
    return res


def split_executions(lines):
    out, cur = [], []
    for l in lines:
        if l["op"] == "Reset" and cur:
            out.append(cur)
            cur = []
        cur.append(l)
    if cur:
        out.append(cur)
    return out


class Tracker:
    """What the generators need to know to stay inside the call contract and to bias their choices:
    which tuples are registered in which object, whether the second object exists, which classes have
    been registered (fast dispatchers: no new class while two objects are alive)."""

    def __init__(self, cfg):
        self.cfg = cfg
        self.reg = {1: {}, 2: {}}
        self.has2 = False
        self.seen = set()

    def slots(self):
        return [1, 2] if self.has2 else [1]

    def fresh_ok(self, t):
        return not (self.cfg["kind"] in FAST_KINDS and self.has2) or set(t) <= self.seen

    def apply(self, ev):
        op, a = ev["op"], ev["a"]
        d = a.get("d", 1)
        if op == "Insert":
            self.reg[d][tuple(a["t"])] = a["h"]
            self.seen |= set(a["t"])
        elif op == "Erase":
            self.reg[d].pop(tuple(a["t"]), None)
        elif op == "Clone":
            self.reg[2] = dict(self.reg[1])
            self.has2 = True
        elif op == "Take":
            how = a["how"]
            if how == "swap":
                self.reg[1], self.reg[2] = self.reg[2], self.reg[1]
            elif how != "self":
                self.reg[1] = dict(self.reg[2])
                if how in ("move", "movector"):
                    self.reg[2] = {}
                    self.has2 = False
        elif op == "Drop2":
            self.reg[2] = {}
            self.has2 = False
        elif op == "New2":
            self.reg[2] = {}
            self.has2 = True


def rand_objs(rnd, cfg, classes=None):
    """argument objects: any object of the classes in use (second objects, the same object twice)"""
    os_ = []
    for i in range(cfg["ar"]):
        c = classes[i] if classes else rnd.randint(1, cfg["k"])
        os_.append(10 * c + rnd.randint(0, 1))
    if cfg["ar"] >= 2 and rnd.random() < 0.15:
        os_[1] = os_[0]
    return os_


def rand_xs(rnd, cfg):
    return [rnd.choice([0, 1, 5, 9, 17, 50]) for _ in range(cfg["nx"])]


def rand_dispatch(rnd, cfg, trk):
    """biased towards registered tuples and their permutations (the interesting unregistered ones)"""
    d = rnd.choice(trk.slots())
    registered = trk.reg[d] or trk.reg[1] or trk.reg[2]
    c = rnd.random()
    classes = None
    if registered and c < 0.45:
        classes = list(rnd.choice(sorted(registered)))
        if c < 0.2:
            rnd.shuffle(classes)
    a = {"os": rand_objs(rnd, cfg, classes), "xs": rand_xs(rnd, cfg)}
    if d != 1 or rnd.random() < 0.3:
        a["d"] = d
    return {"op": "Dispatch", "a": a}


# ------------------------------------------------------------------- TLC -> scripts
def hist_event(e):
    op = e["op"]
    if op == "I":
        return {"op": "Insert", "a": {"d": e["d"], "t": e["t"], "h": e["h"]}}
    if op == "E":
        return {"op": "Erase", "a": {"d": e["d"], "t": e["t"]}}
    if op == "C":
        return {"op": "Clone", "a": {"how": e["how"]}}
    if op == "T":
        return {"op": "Take", "a": {"how": e["how"]}}
    if op == "D":
        return {"op": "Drop2", "a": {"z": 0}}
    if op == "N":
        return {"op": "New2", "a": {"z": 0}}
    raise ValueError("history event %r" % (e,))


def hist_scripts(hists, rnd, ndisp):
    """One execution per complete history: Reset, the calls of the history, then a few dispatches."""
    by_cfg = {}
    for h in hists:
        cfg = h["cfg"]
        lines = [reset_ev(cfg)]
        trk = Tracker(cfg)
        for e in h["hist"]:
            ev = hist_event(e)
            lines.append(ev)
            trk.apply(ev)
        for _ in range(ndisp):
            lines.append(rand_dispatch(rnd, cfg, trk))
        by_cfg.setdefault(json.dumps(cfg, sort_keys=True), []).append(lines)
    return by_cfg


def cells_of(p, ar):
    """nested probe table -> {tuple: h} for registered cells"""
    out = {}

    def walk(x, pref):
        if len(pref) == ar:
            if x["h"]:
                out[tuple(pref)] = x["h"]
            return
        for i, y in enumerate(x):
            walk(y, pref + [i + 1])
    walk(p, [])
    return out


def edge_scripts(edges, rnd, can_erase):
    """One execution per source table: Reset, registrations in a seeded random order, every
    dispatch out of that table, then every Insert/Erase each followed by the call(s) that
    re-establish the table (a new execution where that needs an erase the library lacks).
    Returns {cfg-json: (lines, taken)}."""
    by_src = {}
    for e in edges:
        key = json.dumps([e["cfg"], e["p"]], sort_keys=True)
        by_src.setdefault(key, []).append(e["l"])
    out = {}
    for key in sorted(by_src):
        cfg, p = json.loads(key)
        ck = json.dumps(cfg, sort_keys=True)
        lines, taken = out.setdefault(ck, ([], [0]))
        cells = cells_of(p, cfg["ar"])
        ce = can_erase(cfg["kind"])

        def setup():
            o = [reset_ev(cfg)]
            ts = sorted(cells)
            rnd.shuffle(ts)
            for t in ts:
                o.append({"op": "Insert", "a": {"t": list(t), "h": cells[t]}})
            return o
        lines.extend(setup())
        calls = sorted(by_src[key], key=lambda c: (c["op"] != "Dispatch", json.dumps(c, sort_keys=True)))
        for c in calls:
            lines.append(c)
            taken[0] += 1
            if c["op"] == "Dispatch":
                continue
            t = tuple(c["a"]["t"])
            if t in cells:
                lines.append({"op": "Insert", "a": {"t": list(t), "h": cells[t]}})
            elif c["op"] == "Insert":
                if ce:
                    lines.append({"op": "Erase", "a": {"t": list(t)}})
                else:
                    lines.extend(setup())
    return {k: (v[0], v[1][0]) for k, v in out.items()}


def sim_scripts(simdir):
    """-simulate trace files -> {cfg-json: [executions]}"""
    out, n = {}, 0
    for fn in sorted(os.listdir(simdir)):
        states = tlaval.parse_sim_trace(os.path.join(simdir, fn))
        if len(states) < 2:
            continue
        cfg = states[0]["cfg"]
        lines = [reset_ev(cfg)]
        for s in states[1:]:
            lines.append({"op": s["last"]["op"], "a": s["last"]["a"]})
        out.setdefault(json.dumps(cfg, sort_keys=True), []).append(lines)
        n += 1
    return out, n


# ------------------------------------------------------------------- random scripts (C->S)
BEH_IDS = [50, 51, 52, 60, 61, 62]     # throwing and nesting handlers (specs/Dispatch.tla, BehOfIn)
REG_IDS = [70, 71, 72]                 # handlers that register while they run (advisory scripts only)


def random_script(rnd, kind, can_erase, can_copy, nexec, nops, ars, fl="exc", bf=None, small=False, kmax=5, beh=(), new2=False):
    lines = []
    for _ in range(nexec):
        if small:
            ar, nx = rnd.choice([c for c in SMALL_COMBOS if c[0] in ars] or SMALL_COMBOS)
        else:
            ar = rnd.choice(ars)
            nx = rnd.choice(COMBOS[ar])
        k = min(rnd.choice([5, 5, 5, 4, 3, 2]), 3 if ar == 3 else kmax)
        cfg = {"kind": kind, "ar": ar, "nx": nx, "k": k, "fl": fl}
        lines.append(reset_ev(cfg, bf))
        trk = Tracker(cfg)
        # a few "hot" classes so that tuples collide, get replaced and get erased
        hot = [rnd.randint(1, k) for _ in range(3)]
        nh = 0
        for _ in range(rnd.randint(nops // 2, nops)):
            c = rnd.random()
            ev = None
            if c < 0.36:
                d = rnd.choice(trk.slots())
                t = [rnd.choice(hot) if rnd.random() < 0.6 else rnd.randint(1, k) for _ in range(ar)]
                if not trk.fresh_ok(t):
                    known = sorted(trk.seen)
                    if not known:
                        continue
                    t = [rnd.choice(known) for _ in range(ar)]
                nh += 1
                h = nh if rnd.random() < 0.7 else rnd.randint(1, 9)
                if beh and rnd.random() < 0.5:
                    h = rnd.choice(list(beh))
                a = {"t": t, "h": h}
                if d != 1 or rnd.random() < 0.3:
                    a["d"] = d
                ev = {"op": "Insert", "a": a}
            elif c < 0.50 and can_erase:
                d = rnd.choice(trk.slots())
                if trk.reg[d] and rnd.random() < 0.7:
                    t = list(rnd.choice(sorted(trk.reg[d])))
                else:
                    t = [rnd.randint(1, k) for _ in range(ar)]
                ev = {"op": "Erase", "a": {"d": d, "t": t}}
            elif c < 0.62 and can_copy:
                c2 = rnd.random()
                if new2 and c2 < 0.12:
                    ev = {"op": "New2", "a": {"z": 0}}
                elif not trk.has2 or c2 < 0.3:
                    ev = {"op": "Clone", "a": {"how": rnd.choice(CLONE_HOWS if trk.has2 else ["ctor"])}}
                elif c2 < 0.85:
                    ev = {"op": "Take", "a": {"how": rnd.choice(TAKE_HOWS)}}
                else:
                    ev = {"op": "Drop2", "a": {"z": 0}}
            else:
                ev = rand_dispatch(rnd, cfg, trk)
            lines.append(ev)
            trk.apply(ev)
    return lines


def upstream_scripts(bf=None):
    """The call sequences of /repo/test/test_xmultimethods.cpp (function_dispatcher, *_static_cast,
    fast_function_dispatcher, fast_function_partial_dispatcher): six ordered pairs over three leaf
    classes registered in the tests' order, then the six dispatches - here with everything logged."""
    pairs = [(1, 2), (1, 3), (2, 1), (2, 3), (3, 1), (3, 2)]
    out = {}
    for kind, nx in (("map_dyn", 0), ("map_static", 0), ("fast_static", 0), ("fast_static", 1)):
        cfg = {"kind": kind, "ar": 2, "nx": nx, "k": 3, "fl": "exc"}
        lines = [reset_ev(cfg, bf)]
        for i, t in enumerate(pairs):
            lines.append({"op": "Insert", "a": {"t": list(t), "h": i + 1}})
        for t in pairs:
            lines.append({"op": "Dispatch", "a": {"os": [10 * t[0], 10 * t[1]], "xs": [7] * nx}})
        out.setdefault(kind, []).extend(lines)
    return out


def upstream_visitor_script(bf=None, fl="exc"):
    """test_xvisitor.cpp: two leaves visited through a root reference by a visitor of both, for the
    mutable and const acyclic flavours and both cyclic flavours."""
    lines = [reset_ev({"kind": "none", "ar": 1, "nx": 0, "k": 1, "fl": fl}, bf)]
    for v in ("default", "cdefault"):
        for o in (10, 20):
            lines.append({"op": "Accept", "a": {"v": v, "m": "AB", "o": o}})
    for cst in (False, True):
        for o in (10, 20):
            lines.append({"op": "Cyclic", "a": {"cst": cst, "rv": "long", "o": o}})
    return lines

------------------------------- MODULE IntCmp -------------------------------
(***************************************************************************)
(* L1 property specification for C15: xtl::cmp_equal, cmp_not_equal,        *)
(* cmp_less, cmp_greater, cmp_less_equal, cmp_greater_equal                 *)
(* (xtl/xcompare.hpp) "compare integers by mathematical value for every     *)
(* pair of integer types".                                                  *)
(*                                                                          *)
(* Variable-free.  TLC integers are 32 bit, the operands are up to 64 bit,  *)
(* so a mathematical integer v with |v| <= 2^64 - 1 is the record           *)
(*      [neg |-> v < 0,  mag |-> <<l0, l1, l2, l3>>]                        *)
(* with |v| = l0 + l1*2^16 + l2*2^32 + l3*2^48 (little-endian 16-bit limbs) *)
(* and zero never negative.  The C++ types do not occur in the comparison   *)
(* at all - that is the property: the answer depends on the two             *)
(* mathematical integers only.  The type ids are used only to state which   *)
(* values a type can hold (Representable).                                  *)
(*                                                                          *)
(* Less is defined twice (sign + lexicographic magnitude; borrow chain on   *)
(* offset-binary); IntCmpMC.tla has TLC check that they agree, trichotomy,  *)
(* transitivity and agreement with TLA+'s own < on small integers.          *)
(***************************************************************************)
EXTENDS Integers, Sequences

Limb  == 0..65535
Zero4 == <<0, 0, 0, 0>>

IsValue(v) == /\ v.neg \in BOOLEAN
              /\ v.mag \in [1..4 -> Limb]
              /\ ~(v.neg /\ v.mag = Zero4)

(* magnitudes: a < b iff at the most significant limb where they differ a's is smaller *)
MagLess(a, b) == \E i \in 1..4 : a[i] < b[i] /\ \A k \in (i + 1)..4 : a[k] = b[k]

Equal(x, y) == x.neg = y.neg /\ x.mag = y.mag
Less(x, y)  == IF x.neg # y.neg THEN x.neg                 \* a negative number is below every non-negative one
               ELSE IF x.neg THEN MagLess(y.mag, x.mag)    \* both negative: the larger magnitude is the smaller number
               ELSE MagLess(x.mag, y.mag)

(* the six functions of the header, on mathematical integers *)
CmpEqual(x, y)        == Equal(x, y)
CmpNotEqual(x, y)     == ~Equal(x, y)
CmpLess(x, y)         == Less(x, y)
CmpGreater(x, y)      == Less(y, x)
CmpLessEqual(x, y)    == Less(x, y) \/ Equal(x, y)
CmpGreaterEqual(x, y) == Less(y, x) \/ Equal(x, y)

B(p) == IF p THEN 1 ELSE 0
(* the six answers packed as the harness logs them: eq=1 ne=2 lt=4 gt=8 le=16 ge=32 *)
Mask(x, y) == B(CmpEqual(x, y)) + 2 * B(CmpNotEqual(x, y)) + 4 * B(CmpLess(x, y))
              + 8 * B(CmpGreater(x, y)) + 16 * B(CmpLessEqual(x, y)) + 32 * B(CmpGreaterEqual(x, y))
MaskEqual   == 1 + 16 + 32
MaskLess    == 2 + 4 + 16
MaskGreater == 2 + 8 + 32

----------------------------------------------------------------------------
(* small integers <-> values *)
FromInt(i) == LET m == IF i < 0 THEN -i ELSE i IN
              [neg |-> i < 0, mag |-> <<m % 65536, (m \div 65536) % 65536, 0, 0>>]     \* |i| < 2^31
IsSmall(v) == v.mag[3] = 0 /\ v.mag[4] = 0 /\ v.mag[2] < 16384
ToInt(v)   == LET m == v.mag[1] + 65536 * v.mag[2] IN IF v.neg THEN -m ELSE m          \* when IsSmall(v)

(* which values a C++ type holds.  Type ids as in the harness:              *)
(*   0 int8  1 uint8  2 int16  3 uint16  4 int32  5 uint32  6 int64  7 uint64 *)
TypeIds      == 0..7
IsSignedT(t) == t % 2 = 0
BitsOf(t)    == CASE t \in {0, 1} -> 8 [] t \in {2, 3} -> 16 [] t \in {4, 5} -> 32 [] t \in {6, 7} -> 64
Pow2Mag(k)   == [i \in 1..4 |-> IF i = (k \div 16) + 1 THEN 2 ^ (k % 16) ELSE 0]       \* 2^k, k <= 63
Representable(t, v) ==
    IF IsSignedT(t)
      THEN IF v.neg THEN ~MagLess(Pow2Mag(BitsOf(t) - 1), v.mag)       \* |v| <= 2^(b-1)
                    ELSE MagLess(v.mag, Pow2Mag(BitsOf(t) - 1))        \*  v  <  2^(b-1)
      ELSE ~v.neg /\ (BitsOf(t) = 64 \/ MagLess(v.mag, Pow2Mag(BitsOf(t))))

(* the same for a type described by what the compiler reports about it: sd = <<is_signed (1/0), numeric_limits::digits>> *)
(* (used for the operand types that are not fixed-width typedefs: char, wchar_t, char16_t, char32_t, long long, bool)   *)
RepresentableSD(sd, v) ==
    IF sd[1] = 1
      THEN IF v.neg THEN ~MagLess(Pow2Mag(sd[2]), v.mag)               \* |v| <= 2^digits
                    ELSE MagLess(v.mag, Pow2Mag(sd[2]))                \*  v  <  2^digits
      ELSE ~v.neg /\ (sd[2] = 64 \/ MagLess(v.mag, Pow2Mag(sd[2])))
SDOf(t) == <<IF IsSignedT(t) THEN 1 ELSE 0, IF IsSignedT(t) THEN BitsOf(t) - 1 ELSE BitsOf(t)>>
(* range of a type of at most 16 bits as TLA+ integers *)
LoSD(sd) == IF sd[1] = 1 THEN -(2 ^ sd[2]) ELSE 0
HiSD(sd) == (2 ^ sd[2]) - 1

(* the six answers for two small integers, directly on TLA+'s integers (which ARE the mathematical integers) *)
MaskInts(a, b) == B(a = b) + 2 * B(a # b) + 4 * B(a < b) + 8 * B(a > b) + 16 * B(a <= b) + 32 * B(a >= b)

----------------------------------------------------------------------------
(* Second definition of Less: map v to the unsigned 5-limb number v + 2^64  *)
(* (offset binary) and decide a < b by the borrow out of a - b, computed    *)
(* limb by limb from the least significant end.                             *)

RECURSIVE AddOne(_, _)
AddOne(m, i) == IF i > Len(m) THEN m                                   \* wraps (never happens for |v| >= 1)
                ELSE IF m[i] = 65535 THEN AddOne([m EXCEPT ![i] = 0], i + 1)
                ELSE [m EXCEPT ![i] = m[i] + 1]
Neg4(m) == AddOne([i \in 1..4 |-> 65535 - m[i]], 1)                     \* 2^64 - m for 1 <= m < 2^64
Offset(v) == IF v.neg THEN Neg4(v.mag) \o <<0>> ELSE v.mag \o <<1>>

RECURSIVE BorrowOut(_, _, _, _)
BorrowOut(a, b, i, bin) == IF i > Len(a) THEN bin
                           ELSE BorrowOut(a, b, i + 1, IF a[i] - b[i] - bin < 0 THEN 1 ELSE 0)
LessByBorrow(x, y) == BorrowOut(Offset(x), Offset(y), 1, 0) = 1

----------------------------------------------------------------------------
(* Laws *)
PairLaws(x, y) ==
    /\ Less(x, y) <=> LessByBorrow(x, y)                                  \* the two definitions agree
    /\ B(Less(x, y)) + B(Equal(x, y)) + B(Less(y, x)) = 1                 \* exactly one of less, equal, greater
    /\ Mask(x, y) \in {MaskEqual, MaskLess, MaskGreater}                   \* the six answers are mutually consistent
    /\ (Mask(x, y) = MaskLess) = (Mask(y, x) = MaskGreater)
    /\ Equal(x, y) <=> x = y
    /\ (x.neg /\ ~y.neg) => (Mask(x, y) = MaskLess)                        \* negative vs. any unsigned value
    /\ (IsSmall(x) /\ IsSmall(y)) => /\ Less(x, y) <=> ToInt(x) < ToInt(y)
                                     /\ Equal(x, y) <=> ToInt(x) = ToInt(y)

TripleLaws(x, y, z) == (Less(x, y) /\ Less(y, z)) => Less(x, z)

IntLaws(a, b) == /\ Less(FromInt(a), FromInt(b)) <=> a < b
                 /\ Mask(FromInt(a), FromInt(b)) = MaskInts(a, b)
                 /\ \A t \in TypeIds : Representable(t, FromInt(a)) = RepresentableSD(SDOf(t), FromInt(a))
                 /\ \A t \in 0..3 : Representable(t, FromInt(a)) = (LoSD(SDOf(t)) <= a /\ a <= HiSD(SDOf(t)))
                 /\ Equal(FromInt(a), FromInt(b)) <=> a = b
                 /\ IsValue(FromInt(a))
                 /\ (a > -1073741824 /\ a < 1073741824) => ToInt(FromInt(a)) = a

(* type ranges: the ends of every type are representable, one step outside is not *)
RangeLaws ==
    /\ \A t \in TypeIds : /\ Representable(t, FromInt(0)) /\ Representable(t, FromInt(127))
                         /\ IsSignedT(t) = Representable(t, FromInt(-1))
                         /\ IsSignedT(t) = Representable(t, FromInt(-128))
    /\ Representable(0, FromInt(-128)) /\ ~Representable(0, FromInt(-129)) /\ ~Representable(0, FromInt(128))
    /\ Representable(1, FromInt(255)) /\ ~Representable(1, FromInt(256))
    /\ Representable(2, FromInt(-32768)) /\ ~Representable(2, FromInt(-32769)) /\ Representable(2, FromInt(32767)) /\ ~Representable(2, FromInt(32768))
    /\ Representable(3, FromInt(65535)) /\ ~Representable(3, FromInt(65536))
    /\ Representable(4, [neg |-> TRUE, mag |-> <<0, 32768, 0, 0>>]) /\ ~Representable(4, [neg |-> TRUE, mag |-> <<1, 32768, 0, 0>>])
    /\ Representable(4, FromInt(2147483647)) /\ ~Representable(4, [neg |-> FALSE, mag |-> <<0, 32768, 0, 0>>])
    /\ Representable(5, [neg |-> FALSE, mag |-> <<65535, 65535, 0, 0>>]) /\ ~Representable(5, [neg |-> FALSE, mag |-> <<0, 0, 1, 0>>])
    /\ Representable(6, [neg |-> TRUE, mag |-> <<0, 0, 0, 32768>>]) /\ ~Representable(6, [neg |-> TRUE, mag |-> <<1, 0, 0, 32768>>])
    /\ Representable(6, [neg |-> FALSE, mag |-> <<65535, 65535, 65535, 32767>>]) /\ ~Representable(6, [neg |-> FALSE, mag |-> <<0, 0, 0, 32768>>])
    /\ Representable(7, [neg |-> FALSE, mag |-> <<65535, 65535, 65535, 65535>>]) /\ ~Representable(7, FromInt(-1))
=============================================================================

SPECIFICATION Spec
CONSTANTS
  Strict = FALSE
  Vals = {1}
  MaxFuse = 1
  MaxEv = 2
  CallSet <- SmallCalls
VIEW l1view
INVARIANTS TypeOK Quiescent RelLaws
PROPERTIES ValuelessOnlyAfterThrow ObserversPure

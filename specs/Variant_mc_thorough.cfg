SPECIFICATION Spec
CONSTANTS
  TrackedAlts = {1, 2, 3}
  NTMAlts = {0, 1}
  Strict = FALSE
  Vals = {1}
  MaxFuse = 1
  MaxEv = 2
  CallSet <- SmallCalls
VIEW l1view
INVARIANTS TypeOK Quiescent RelLaws
PROPERTIES ValuelessOnlyAfterThrow ObserversPure

---------------------------- MODULE VariantTrace ----------------------------
(* Trace validation for C05: every line of the ndjson trace recorded from the   *)
(* real xtl::variant objects (Begin / ECtor / EDtor / EAssign / EThrow / End)   *)
(* must be a step of Variant (L1): element events must be enabled by the        *)
(* lifetime rules, and every End must satisfy EndOK for the logged result and   *)
(* the logged projection of both variants.                                      *)
EXTENDS Variant, IOUtils

VARIABLE l     \* next line of the trace to be explained

JsonTrace == ndJsonDeserialize(IOEnv.TRACE)
ExplainAt == atoi(IOEnv.EXPLAIN)

TInit == l = 1 /\ Init

(* a new execution: no variant exists, no object is alive, ids restart at 1 *)
TReset ==
    /\ v' = [k \in K |-> Absent]
    /\ call' = NoCall
    /\ thrown' = FALSE
    /\ nid' = 0 /\ live' = {} /\ obj' = <<>>
    /\ last' = [op |-> "Reset"]

Dispatch(e) ==
    \/ e.op = "Reset"   /\ TReset
    \/ e.op = "Begin"   /\ Begin(e.c, e.a, e.fuse)
    \/ e.op = "ECtor"   /\ ECtor(e.id, e.alt, e.kind, e.src, e.home, e.val)
    \/ e.op = "EDtor"   /\ EDtor(e.id)
    \/ e.op = "EAssign" /\ EAssign(e.dst, e.src, e.kind, e.val)
    \/ e.op = "EThrow"  /\ EThrow(e.at, e.alt, e.kind)
    \/ e.op = "End"     /\ End(e.res, e.st) /\ e.live = Cardinality(live)

(* what the spec knows at the rejected event (printed by the explain re-run) *)
Diagnosis(e) ==
    [call |-> call, thrown |-> thrown, before |-> v, live |-> obj,
     expected_if_nothing_threw |-> IF Open THEN Expect(call.c, call.a) ELSE <<>>,
     expected_result |-> IF Open /\ call.c \in Observers THEN ObsResSet(call.c, call.a) ELSE {},
     allowed_after_throw |-> IF Open /\ call.c \in Mutators THEN AllowedPairs(call.c, call.a) ELSE {}]

TNext ==
    /\ l <= Len(JsonTrace)
    /\ LET e == JsonTrace[l] IN
         IF l = ExplainAt
         THEN PrintT(<<"EXPECTED", Diagnosis(e)>>) /\ UNCHANGED vars
         ELSE Dispatch(e)
    /\ l' = l + 1

TSpec == TInit /\ [][TNext]_<<vars, l>>
TraceAccepted == TLCGet("stats").diameter - 1 = Len(JsonTrace)
=============================================================================

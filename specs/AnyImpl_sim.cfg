SPECIFICATION Spec
CONSTANTS
  Anys = {1, 2, 3}
  Types = {"Small", "Big", "STM", "NC", "Int", "Str", "CStr", "Fn", "Sp", "Ov", "Nest", "Ov32", "Ov64", "P16", "P17"}
  Vals = {1, 2, 3}
  Fuses = {0, 0, 1, 2}
  AFuses = {0, 0, 0, 1}
  InPlaceTypes = {"Small", "NC", "Int", "CStr", "Fn", "Sp", "P16"}
  NothrowMove = {"Small", "Big", "NC", "Int", "Str", "CStr", "Fn", "Sp", "Ov", "Nest", "Ov32", "Ov64", "P16", "P17"}
  SelfSwapGuard = TRUE
  EmitMode = "none"

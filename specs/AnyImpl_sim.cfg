SPECIFICATION Spec
CONSTANTS
  Anys = {1, 2, 3}
  Types = {"Small", "Big", "STM"}
  Vals = {1, 2, 3}
  Fuses = {0, 0, 1, 2}
  InPlaceTypes = {"Small"}
  NothrowMove = {"Small", "Big"}
  SelfSwapGuard = TRUE
  EmitMode = "none"

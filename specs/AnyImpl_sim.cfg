SPECIFICATION Spec
CONSTANTS
  Anys = {1, 2, 3}
  Types = {"Small", "Big", "STM", "NC", "Int", "Str", "CStr", "Fn", "Sp", "Ov", "Nest"}
  Vals = {1, 2, 3}
  Fuses = {0, 0, 1, 2}
  InPlaceTypes = {"Small", "NC", "Int", "CStr", "Fn", "Sp"}
  NothrowMove = {"Small", "Big", "NC", "Int", "Str", "CStr", "Fn", "Sp", "Ov", "Nest"}
  SelfSwapGuard = TRUE
  EmitMode = "none"

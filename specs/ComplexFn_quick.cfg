SPECIFICATION Spec
CONSTANTS
  Ts <- QuickTs
  FnsOn <- AllFns
  Grid = "few"
INVARIANTS FnLaws

SPECIFICATION Spec
CONSTANTS
  W = 5
INVARIANT OldRefines

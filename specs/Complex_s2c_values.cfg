SPECIFICATION Spec
CONSTANTS
  MaxAbs = 1024
  Vals <- ValsVT
  Classes <- ArithClasses
  LRegs <- LV
  RRegs <- RV
  ScalarTs <- FewSTs
  OneStep = TRUE
  EmitOn = TRUE
ACTION_CONSTRAINT Emit
INVARIANTS TypeOK Aliases
PROPERTIES Frame

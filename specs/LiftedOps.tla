------------------------------ MODULE LiftedOps ------------------------------
(* GENERATED from harness/lifted/ops.def by `python3 -m checks.c04 gen` - do not edit.     *)
(* The operators and <cmath> names that xoptional.hpp and xmasked_value.hpp lift, with the *)
(* codes of the toy algebra shared with harness/lifted/probe.hpp.                          *)
UnOps     == {"pos", "neg", "bitnot", "lognot"}
BinOps    == {"plus", "minus", "mul", "div", "mod", "band", "bor", "bxor", "lor", "land", "lt", "le", "gt", "ge"}
ToyBinOps == {"band", "bor", "bxor", "lor", "land"}
CmpOps    == {"eq", "ne"}
AsgOps    == {"plus_eq", "minus_eq", "mul_eq", "div_eq", "mod_eq", "band_eq", "bor_eq", "bxor_eq"}
AsgBase   == [plus_eq |-> "plus", minus_eq |-> "minus", mul_eq |-> "mul", div_eq |-> "div", mod_eq |-> "mod",
              band_eq |-> "band", bor_eq |-> "bor", bxor_eq |-> "bxor"]
UFuns     == {"abs", "fabs", "exp", "exp2", "expm1", "log", "log10", "log2", "log1p", "sqrt", "cbrt", "sin", "cos",
              "tan", "acos", "asin", "atan", "sinh", "cosh", "tanh", "acosh", "asinh", "atanh", "erf", "erfc",
              "tgamma", "lgamma", "ceil", "floor", "trunc", "round", "nearbyint", "rint"}
UPreds    == {"isfinite", "isinf", "isnan"}
BFuns     == {"fmod", "remainder", "fmax", "fmin", "fdim", "pow", "hypot", "atan2"}
TFuns     == {"fma"}
BoolRes   == {"lognot", "lt", "le", "gt", "ge", "isfinite", "isinf", "isnan"}
AllFuns   == UnOps \cup BinOps \cup CmpOps \cup AsgOps \cup UFuns \cup UPreds \cup BFuns \cup TFuns
Code      == [pos |-> 1, neg |-> 2, bitnot |-> 3, lognot |-> 4, plus |-> 5, minus |-> 6, mul |-> 7, div |-> 8,
              mod |-> 9, band |-> 10, bor |-> 11, bxor |-> 12, lor |-> 13, land |-> 14, lt |-> 15, le |-> 16,
              gt |-> 17, ge |-> 18, eq |-> 19, ne |-> 20, abs |-> 21, fabs |-> 22, exp |-> 23, exp2 |-> 24,
              expm1 |-> 25, log |-> 26, log10 |-> 27, log2 |-> 28, log1p |-> 29, sqrt |-> 30, cbrt |-> 31,
              sin |-> 32, cos |-> 33, tan |-> 34, acos |-> 35, asin |-> 36, atan |-> 37, sinh |-> 38, cosh |-> 39,
              tanh |-> 40, acosh |-> 41, asinh |-> 42, atanh |-> 43, erf |-> 44, erfc |-> 45, tgamma |-> 46,
              lgamma |-> 47, ceil |-> 48, floor |-> 49, trunc |-> 50, round |-> 51, nearbyint |-> 52, rint |-> 53,
              isfinite |-> 54, isinf |-> 55, isnan |-> 56, fmod |-> 57, remainder |-> 58, fmax |-> 59, fmin |-> 60,
              fdim |-> 61, pow |-> 62, hypot |-> 63, atan2 |-> 64, fma |-> 65]
=============================================================================

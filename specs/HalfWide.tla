------------------------------ MODULE HalfWide ------------------------------
(* Integer helpers for Half.tla that keep every intermediate value inside     *)
(* TLC's 32-bit integers.  Variable-free.                                      *)
(*                                                                             *)
(* TLC integers are Java ints, so nothing here may exceed 2^31-1.  The exact   *)
(* results that IEEE 754 operations round (sums of operands whose exponents    *)
(* differ by up to 40, the 33-bit sum inside fma, 46-bit sums of squares in    *)
(* hypot) are wider than that.  Two devices are used:                          *)
(*   * AlignSum: an exact sum A*2^d +- B is replaced by (m, c, st) meaning a   *)
(*     value strictly between m*2^c and (m+1)*2^c when st is TRUE and equal    *)
(*     to m*2^c otherwise.  The bits that are folded into st lie strictly      *)
(*     below the guard bit of any later rounding to 11 significant bits, so    *)
(*     round-to-nearest-even of the folded value is that of the exact value.   *)
(*   * two-limb naturals <<hi, lo>> in base 2^15 with exact add, compare,      *)
(*     multiply of 15-bit limbs: used for squares and cubes (hypot, cbrt).     *)
EXTENDS Integers, Sequences, TLC

Pow2T == << 1, 2, 4, 8, 16, 32, 64, 128, 256, 512, 1024, 2048, 4096, 8192, 16384, 32768,
            65536, 131072, 262144, 524288, 1048576, 2097152, 4194304, 8388608, 16777216,
            33554432, 67108864, 134217728, 268435456, 536870912, 1073741824 >>

(* 2^n for 0 <= n <= 30 *)
Pow2(n) == Pow2T[n + 1]

BL8(m) == IF m < 16
            THEN (IF m < 4 THEN (IF m < 2 THEN m ELSE 2) ELSE (IF m < 8 THEN 3 ELSE 4))
            ELSE (IF m < 64 THEN (IF m < 32 THEN 5 ELSE 6) ELSE (IF m < 128 THEN 7 ELSE 8))

(* number of significant bits of 0 <= m < 2^31 (0 for 0) *)
BitLen(m) == IF m < 65536
               THEN (IF m < 256 THEN BL8(m) ELSE 8 + BL8(m \div 256))
               ELSE (IF m < 16777216 THEN 16 + BL8(m \div 65536) ELSE 24 + BL8(m \div 16777216))

Max(a, b) == IF a >= b THEN a ELSE b
Min(a, b) == IF a <= b THEN a ELSE b
Abs(a) == IF a < 0 THEN -a ELSE a

(* floor(m / 2^k) and m mod 2^k for any k >= 0, 0 <= m < 2^31 *)
ShrFloor(m, k) == IF k >= 31 THEN 0 ELSE m \div Pow2(k)
LowBits(m, k) == IF k >= 31 THEN m ELSE m % Pow2(k)

(* ------------------------------------------------------------------------ *)
(* |A*2^d +- B| for naturals A, B and d >= 0, where the caller guarantees    *)
(*   (1) A*2^d >= B,  (2) A < 2^22, B < 2^22,                                 *)
(*   (3) if d > 7 then A*2^d +- B >= 2^(d+4)  (no deep cancellation)          *)
(* Result [m, c, st]: the exact value v satisfies  m*2^c <= v, and            *)
(* v = m*2^c when ~st, m*2^c < v < (m+1)*2^c when st.  With (3) the folded    *)
(* bits (positions < c = d-7) are at least 12 positions below the leading     *)
(* bit of v, i.e. below the guard bit of a rounding to 11 significant bits;   *)
(* m < 2^29 + 2^22.                                                           *)
AlignSum(A, d, B, sub) ==
    LET c  == IF d > 7 THEN d - 7 ELSE 0
        Bh == ShrFloor(B, c)
        Bl == LowBits(B, c)
        st == Bl # 0
        hi == A * Pow2(d - c)
    IN  IF sub THEN [m |-> hi - Bh - (IF st THEN 1 ELSE 0), c |-> c, st |-> st]
               ELSE [m |-> hi + Bh, c |-> c, st |-> st]

(* ------------------------------------------------------------------------ *)
(* floor(sqrt(n)) for 0 <= n < 2^30, bit by bit from 2^14 down               *)
RECURSIVE ISqrtR(_, _, _)
ISqrtR(n, r, b) == IF b < 0 THEN r
                   ELSE LET t == r + Pow2(b) IN ISqrtR(n, IF t * t <= n THEN t ELSE r, b - 1)
ISqrt(n) == ISqrtR(n, 0, 14)

(* 2^d mod n for any d >= 0, 1 <= n < 2^15 *)
RECURSIVE PowMod2(_, _)
PowMod2(d, n) == IF d <= 15 THEN Pow2(d) % n ELSE (PowMod2(d - 15, n) * (32768 % n)) % n

(* ------------------------------------------------------------------------ *)
(* Wide naturals: sequences of limbs, least significant first, base 2^15.    *)
(* Canonical form: no trailing zero limb; << >> is 0.                        *)
B15 == 32768

RECURSIVE WTrim(_)
WTrim(w) == IF Len(w) > 0 /\ w[Len(w)] = 0 THEN WTrim(SubSeq(w, 1, Len(w) - 1)) ELSE w

(* from a natural n < 2^31 *)
WFromNat(n) == WTrim(<< n % B15, (n \div B15) % B15, n \div (B15 * B15) >>)

WLimb(w, i) == IF i <= Len(w) THEN w[i] ELSE 0

RECURSIVE WAddR(_, _, _, _)
WAddR(a, b, i, carry) ==
    IF i > Max(Len(a), Len(b))
      THEN (IF carry = 0 THEN << >> ELSE << carry >>)
      ELSE LET s == WLimb(a, i) + WLimb(b, i) + carry
           IN  << s % B15 >> \o WAddR(a, b, i + 1, s \div B15)
WAdd(a, b) == WTrim(WAddR(a, b, 1, 0))

(* a * k for a limb k < 2^15 *)
RECURSIVE WMulLimbR(_, _, _, _)
WMulLimbR(a, k, i, carry) ==
    IF i > Len(a)
      THEN (IF carry = 0 THEN << >> ELSE << carry >>)
      ELSE LET p == a[i] * k + carry
           IN  << p % B15 >> \o WMulLimbR(a, k, i + 1, p \div B15)
WMulLimb(a, k) == WTrim(WMulLimbR(a, k, 1, 0))

(* a shifted left by n whole limbs *)
RECURSIVE WShiftLimbs(_, _)
WShiftLimbs(a, n) == IF n = 0 \/ Len(a) = 0 THEN a ELSE WShiftLimbs(<< 0 >> \o a, n - 1)

RECURSIVE WMulR(_, _, _)
WMulR(a, b, i) == IF i > Len(b) THEN << >>
                  ELSE WAdd(WShiftLimbs(WMulLimb(a, b[i]), i - 1), WMulR(a, b, i + 1))
WMul(a, b) == WMulR(a, b, 1)

(* a * 2^n for any n >= 0 *)
WShl(a, n) == WShiftLimbs(WMulLimb(a, Pow2(n % 15)), n \div 15)

(* number of significant bits of a canonical wide natural (0 for 0) *)
WBitLen(w) == IF Len(w) = 0 THEN 0 ELSE (Len(w) - 1) * 15 + BitLen(w[Len(w)])

(* -1, 0, 1 as a < b, a = b, a > b (canonical operands) *)
RECURSIVE WCmpR(_, _, _)
WCmpR(a, b, i) == IF i = 0 THEN 0
                  ELSE IF a[i] < b[i] THEN -1 ELSE IF a[i] > b[i] THEN 1 ELSE WCmpR(a, b, i - 1)
WCmp(a, b) == IF Len(a) < Len(b) THEN -1 ELSE IF Len(a) > Len(b) THEN 1 ELSE WCmpR(a, b, Len(a))

=============================================================================

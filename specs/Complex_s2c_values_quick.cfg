SPECIFICATION Spec
CONSTANTS
  MaxAbs = 1024
  Vals <- ValsVQ
  Classes <- ArithClasses
  LRegs <- LV
  RRegs <- RV
  ScalarTs <- FewSTs
  OneStep = TRUE
  EmitOn = TRUE
ACTION_CONSTRAINT Emit
INVARIANTS TypeOK Aliases
PROPERTIES Frame

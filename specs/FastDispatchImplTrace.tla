------------------------ MODULE FastDispatchImplTrace ------------------------
(* Advisory (MODEL-DRIFT) trace validation of the representation-level spec: the class indices *)
(* read through the public get_class_static_index() after every call, and the type of the       *)
(* exception that reports an unregistered tuple, must be what FastDispatchImpl predicts.        *)
(* Events of other dispatcher kinds in the same trace are skipped.                              *)
EXTENDS FastDispatchImpl, Json, IOUtils

VARIABLE l

JsonTrace == ndJsonDeserialize(IOEnv.TRACE)

TInit ==
    /\ l = 1
    /\ cfg = [kind |-> "none", ar |-> 1, nx |-> 0, k |-> 1, fl |-> "exc"]
    /\ idx = [c \in 1..5 |-> MAX]
    /\ next = 0 /\ next2 = 0
    /\ cbs = <<>> /\ cbs2 = <<>>
    /\ has2 = FALSE
    /\ ub = FALSE
    /\ what = ""
    /\ hist = <<>>
    /\ last = [op |-> "Init", a |-> A!NoArg, res |-> A!Void]
    /\ pre = [reg |-> <<>>]
    /\ areg = A!ZeroReg(1, 1) /\ areg2 = A!ZeroReg(1, 1)

Has(a, f) == f \in DOMAIN a
SlotOf(a) == IF Has(a, "d") THEN a.d ELSE 1

TReset(e) ==
    /\ cfg' = [kind |-> e.a.kind, ar |-> e.a.ar, nx |-> e.a.nx, k |-> e.a.k, fl |-> IF Has(e.a, "fl") THEN e.a.fl ELSE "exc"]
    /\ idx' = [c \in 1..5 |-> MAX]
    /\ next' = 0 /\ cbs' = <<>> /\ next2' = 0 /\ cbs2' = <<>> /\ has2' = FALSE
    /\ ub' = FALSE /\ what' = "" /\ hist' = <<>>
    /\ last' = [op |-> "Reset", a |-> e.a, res |-> A!Void]
    /\ pre' = [reg |-> <<>>]
    /\ areg' = A!ZeroReg(e.a.ar, e.a.k) /\ areg2' = A!ZeroReg(e.a.ar, e.a.k)

(* the kinds this transcription describes, in builds where an error is an exception *)
Fast == cfg.kind \in {"fast_dyn", "fast_static"} /\ cfg.fl = "exc"
FOps == {"Insert", "Erase", "Dispatch", "Clone", "Take", "Drop2", "New2"}
Skip == UNCHANGED <<cfg, idx, next, cbs, next2, cbs2, has2, ub, hist, last, pre, areg, areg2>> /\ what' = ""

Apply(e) == LET a == e.a IN
    \/ e.op = "Reset" /\ TReset(e)
    \/ e.op = "Insert"   /\ Fast /\ Insert(SlotOf(a), a.t, a.h)
    \/ e.op = "Erase"    /\ Fast /\ Erase(SlotOf(a), a.t)
    \/ e.op = "Dispatch" /\ Fast /\ Dispatch(SlotOf(a), a.os, a.xs)
    \/ e.op = "Clone"    /\ Fast /\ Clone(a.how)
    \/ e.op = "Take"     /\ Fast /\ Take(a.how)
    \/ e.op = "Drop2"    /\ Fast /\ Drop2
    \/ e.op = "New2"     /\ Fast /\ New2
    \/ e.op \in FOps /\ ~Fast /\ Skip
    \/ e.op \in {"Static", "StaticSym", "Accept", "Cyclic"} /\ Skip

TNext ==
    /\ l <= Len(JsonTrace)
    /\ LET e == JsonTrace[l] IN
        /\ Apply(e)
        /\ (Fast' /\ e.op \in FOps \cup {"Reset"}) =>
              /\ [c \in 1..5 |-> idx'[c]] = e.l2.idx
              /\ (e.op = "Dispatch" => what' = e.l2.what)
              /\ (Mutation # "two_fresh" => ~ub')
    /\ l' = l + 1

TSpec == TInit /\ [][TNext]_<<ivars, l>>
TraceAccepted == TLCGet("stats").diameter - 1 = Len(JsonTrace)
=============================================================================

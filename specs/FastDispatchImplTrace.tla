------------------------ MODULE FastDispatchImplTrace ------------------------
(* Advisory (MODEL-DRIFT) trace validation of the representation-level spec: the class indices *)
(* read through the public get_class_static_index() after every call, and the type of the       *)
(* exception that reports an unregistered tuple, must be what FastDispatchImpl predicts.        *)
(* Events of other components in the same trace (static dispatcher, visitors) are skipped.      *)
EXTENDS FastDispatchImpl, Json, IOUtils

VARIABLE l

JsonTrace == ndJsonDeserialize(IOEnv.TRACE)

TInit ==
    /\ l = 1
    /\ cfg = [kind |-> "none", ar |-> 1, nx |-> 0, k |-> 1]
    /\ idx = [c \in 1..5 |-> MAX]
    /\ next = 0
    /\ cbs = <<>>
    /\ ub = FALSE
    /\ what = ""
    /\ hist = <<>>
    /\ last = [op |-> "Init", a |-> A!NoArg, res |-> A!Void]
    /\ pre = [reg |-> <<>>]
    /\ areg = A!ZeroReg(1, 1)

TReset(e) ==
    /\ cfg' = [kind |-> e.a.kind, ar |-> e.a.ar, nx |-> e.a.nx, k |-> e.a.k]
    /\ idx' = [c \in 1..5 |-> MAX]
    /\ next' = 0 /\ cbs' = <<>> /\ ub' = FALSE /\ what' = "" /\ hist' = <<>>
    /\ last' = [op |-> "Reset", a |-> e.a, res |-> A!Void]
    /\ pre' = [reg |-> <<>>]
    /\ areg' = A!ZeroReg(e.a.ar, e.a.k)

Fast == cfg.kind \in {"fast_dyn", "fast_static"}
Skip == UNCHANGED <<cfg, idx, next, cbs, ub, hist, last, pre, areg>> /\ what' = ""

Apply(e) == LET a == e.a IN
    \/ e.op = "Reset" /\ TReset(e)
    \/ e.op = "Insert"   /\ Fast /\ Insert(a.t, a.h)
    \/ e.op = "Erase"    /\ Fast /\ Erase(a.t)
    \/ e.op = "Dispatch" /\ Fast /\ Dispatch(a.os, a.xs)
    \/ e.op \in {"Insert", "Erase", "Dispatch"} /\ ~Fast /\ Skip
    \/ e.op \in {"Static", "StaticSym", "Accept", "Cyclic"} /\ Skip

TNext ==
    /\ l <= Len(JsonTrace)
    /\ LET e == JsonTrace[l] IN
        /\ Apply(e)
        /\ (Fast' /\ e.op \in {"Reset", "Insert", "Erase", "Dispatch"}) =>
              /\ [c \in 1..5 |-> idx'[c]] = e.l2.idx
              /\ (e.op = "Dispatch" => what' = e.l2.what)
              /\ ~ub'
    /\ l' = l + 1

TSpec == TInit /\ [][TNext]_<<ivars, l>>
TraceAccepted == TLCGet("stats").diameter - 1 = Len(JsonTrace)
=============================================================================

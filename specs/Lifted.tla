------------------------------- MODULE Lifted -------------------------------
(***************************************************************************)
(* L1 property specification for C04: missing / masked values propagate    *)
(* through every lifted operator and are never evaluated.                   *)
(*                                                                          *)
(* A register machine.  Register i holds one operand of kind                *)
(*   plain   a scalar of the value type            int    a raw int scalar  *)
(*   opt     xoptional<T, bool>                    optref xoptional<T&, bool&> *)
(*   optcr   xoptional<const T&, const bool&>      optvr  xoptional<T&, bool>  *)
(*   masked  xmasked_value<T, bool>                mref   xmasked_value<T&, bool&> *)
(* (T = the counting integer operand type of the harness), or               *)
(*   dplain  double    dopt  xoptional<double, bool>                        *)
(*   dmasked xmasked_value<double, bool>     (real IEEE operands: small     *)
(*                                            integers and NaN)             *)
(* abstractly a pair [has, val] (plain operands always "have").  Every      *)
(* lifted call is one action; its C++ arguments are the action parameters.  *)
(*                                                                          *)
(* The last parameter o of every action is the OBSERVATION of the call:     *)
(* [kind, has, val, d] = what it returned and d = how many operations of    *)
(* the underlying value type it evaluated.  An action is enabled exactly    *)
(* when o is an answer the property allows (Legal); where the property is   *)
(* silent (the value behind a missing result, how often a present operand   *)
(* is evaluated, whether == looks at a missing value) every answer is legal *)
(* and the next state is built from the observed one.  The model checker    *)
(* supplies the canonical legal observation (Canon), trace validation the   *)
(* logged one.  Written from the property statement, not from xtl's code.   *)
(*                                                                          *)
(* The value type's algebra (Apply1/2/3) is the one of harness/lifted/      *)
(* probe.hpp: integer semantics for + - * / % - ~ ! < <= > >= == !=, an     *)
(* injective toy formula for everything else, results wrapped to -M..M.     *)
(***************************************************************************)
EXTENDS Integers, Sequences, FiniteSets, TLC, Json, LiftedOps

CONSTANTS NReg,      \* number of registers
          Vals,      \* operand values the model checker loads / starts from
          MCKinds,   \* register kinds the model checker starts from
          Classes,   \* action classes enabled in the model checker's next-state relation
          MCFuns,    \* operation names the model checker uses (a subset of AllFuns)
          Canonical, \* TRUE: operands sit in registers 1,2,3 in call order, unused registers are plain 0,
                     \*       results are not stored (the single-call enumeration of S->C)
          EmitOn     \* TRUE: every transition is written out as JSON (see Emit)

VARIABLES r,      \* r[i] = [kind, has, val]
          evals,  \* number of underlying operations evaluated so far
          last,   \* ghost: [op, a, res] of the call just performed
          pre     \* ghost: r before that call

vars == <<r, evals, last, pre>>
absvars == <<r>>

Regs       == DOMAIN r      \* 1..NReg in the model checker; the trace of an execution fixes its own number
OptKinds   == {"opt", "optref", "optcr", "optvr", "dopt"}
MskKinds   == {"masked", "mref", "dmasked"}
PlainKinds == {"plain", "int", "dplain"}
DKinds     == {"dplain", "dopt", "dmasked"}                  \* the value type is double
Kinds      == OptKinds \cup MskKinds \cup PlainKinds
Writable   == {"opt", "optref", "optvr", "masked", "mref", "dopt", "dmasked"}   \* optcr closes over const referents
ValRef     == {"optref", "optcr", "optvr", "mref"}           \* the value is a reference to a caller's cell
FlagRef    == {"optref", "optcr", "mref"}                    \* the flag is a reference to a caller's cell
LiftedK(k) == k \notin PlainKinds

----------------------------------------------------------------------------
(* The algebra of the operand type (shared with probe.hpp).                 *)
M == 46000
Wrap(v) == ((v + M) % (2 * M + 1)) - M
Abs(x) == IF x < 0 THEN -x ELSE x
TDiv(a, b) == IF (a >= 0) = (b > 0) THEN Abs(a) \div Abs(b) ELSE -(Abs(a) \div Abs(b))   \* C++: towards zero
TRem(a, b) == a - b * TDiv(a, b)
Toy(c, x, y, z) == Wrap(c * 600 + x + 7 * y + 49 * z)
Pred(c, x) == ((x + c) % 3) # 0
B2I(b) == IF b THEN 1 ELSE 0

Apply1(f, x) ==
    CASE f = "pos"    -> x
      [] f = "neg"    -> Wrap(-x)
      [] f = "bitnot" -> Wrap(-x - 1)
      [] f = "lognot" -> B2I(x = 0)
      [] f \in UFuns  -> Toy(Code[f], x, 0, 0)
      [] f \in UPreds -> B2I(Pred(Code[f], x))

Apply2(f, x, y) ==
    CASE f = "plus"  -> Wrap(x + y)
      [] f = "minus" -> Wrap(x - y)
      [] f = "mul"   -> Wrap(x * y)
      [] f = "div"   -> Wrap(TDiv(x, y))
      [] f = "mod"   -> Wrap(TRem(x, y))
      [] f = "lt"    -> B2I(x < y)
      [] f = "le"    -> B2I(x <= y)
      [] f = "gt"    -> B2I(x > y)
      [] f = "ge"    -> B2I(x >= y)
      [] f \in ToyBinOps \cup BFuns -> Toy(Code[f], x, y, 0)

Apply3(f, x, y, z) == Toy(Code[f], x, y, z)

(* double operands: small integers (exact in binary64) and NaN, IEEE semantics.  Only the operations whose *)
(* result on such operands is again a small integer, NaN or a bool are used on them.                       *)
NaNv == 2147480000                   \* how the harness writes a NaN
InNum(v) == (v >= -2000000000 /\ v <= 2000000000) \/ v = NaNv
IsNaN(x) == x = NaNv
Max2(x, y) == IF x >= y THEN x ELSE y
Min2(x, y) == IF x <= y THEN x ELSE y
DUnFuns  == {"pos", "neg", "lognot", "abs", "fabs", "ceil", "floor", "trunc", "round", "nearbyint", "rint",
             "isnan", "isinf", "isfinite"}
DBinFuns == {"plus", "minus", "mul", "lt", "le", "gt", "ge", "fmax", "fmin"}
DFuns    == DUnFuns \cup DBinFuns \cup {"fma", "eq", "ne", "plus_eq", "minus_eq"}
DApply1(f, x) ==
    CASE f = "pos"    -> x
      [] f = "neg"    -> IF IsNaN(x) THEN NaNv ELSE -x
      [] f = "lognot" -> B2I(x = 0)                                \* NaN is "true"
      [] f \in {"abs", "fabs"} -> IF IsNaN(x) THEN NaNv ELSE Abs(x)
      [] f \in {"ceil", "floor", "trunc", "round", "nearbyint", "rint"} -> x
      [] f = "isnan"    -> B2I(IsNaN(x))
      [] f = "isinf"    -> 0
      [] f = "isfinite" -> B2I(~IsNaN(x))
DApply2(f, x, y) == LET n == IsNaN(x) \/ IsNaN(y) IN
    CASE f = "plus"  -> IF n THEN NaNv ELSE x + y
      [] f = "minus" -> IF n THEN NaNv ELSE x - y
      [] f = "mul"   -> IF n THEN NaNv ELSE x * y
      [] f = "lt"    -> B2I(~n /\ x < y)                          \* comparisons with NaN are false
      [] f = "le"    -> B2I(~n /\ x <= y)
      [] f = "gt"    -> B2I(~n /\ x > y)
      [] f = "ge"    -> B2I(~n /\ x >= y)
      [] f = "fmax"  -> IF IsNaN(x) THEN y ELSE IF IsNaN(y) THEN x ELSE Max2(x, y)
      [] f = "fmin"  -> IF IsNaN(x) THEN y ELSE IF IsNaN(y) THEN x ELSE Min2(x, y)
DApply3(f, x, y, z) == IF IsNaN(x) \/ IsNaN(y) \/ IsNaN(z) THEN NaNv ELSE x * y + z       \* fma
ValEq(x, y) == x = y /\ ~IsNaN(x)                                 \* NaN == NaN is false
DSmall == (-3)..3 \cup {NaNv}       \* what the drivers put into double registers (keeps products far from 2^31)
NumFor(kind) == IF kind \in DKinds THEN DSmall ELSE (-M)..M
DBound(x) == IsNaN(x) \/ (x >= -1000 /\ x <= 1000)   \* += / -= on doubles only while they are small (same reason)

----------------------------------------------------------------------------
(* Observations and what the property demands of them.                      *)
MaxD == 16
Want(kind, has, val, cmp, strict) == [kind |-> kind, has |-> has, val |-> val, cmp |-> cmp, strict |-> strict]
    \* kind/has: always demanded.  val: demanded iff cmp.  strict: a missing result must come with d = 0
    \* ("never evaluate the underlying operation on a missing operand").
Legal(o, w) ==
    /\ o.kind = w.kind
    /\ o.has = w.has
    /\ w.cmp => o.val = w.val
    /\ (w.strict /\ ~w.has) => o.d = 0
    /\ o.d \in 0..MaxD
    /\ InNum(o.val)
Canon(w) == [kind |-> w.kind, has |-> w.has, val |-> IF w.cmp THEN w.val ELSE 0, d |-> IF w.has /\ w.strict THEN 1 ELSE 0]
VoidW == Want("void", TRUE, 0, TRUE, FALSE)

KS(S)      == {r[i].kind : i \in S}
HasOpt(ks) == ks \cap OptKinds # {}
HasMsk(ks) == ks \cap MskKinds # {}
IsD(ks)    == ks \cap DKinds # {}
PatOK(ks)  == /\ (HasOpt(ks) \/ HasMsk(ks)) /\ ~(HasOpt(ks) /\ HasMsk(ks))   \* some operand lifted, families not mixed
              /\ (IsD(ks) => ks \subseteq DKinds)                              \* one value type per call
OpOK(f, ks) == IsD(ks) => f \in DFuns
ResKind(ks, f) == IF f \in BoolRes THEN (IF HasOpt(ks) THEN "optb" ELSE "maskedb")
                  ELSE IF IsD(ks) THEN (IF HasOpt(ks) THEN "dopt" ELSE "dmasked")
                  ELSE (IF HasOpt(ks) THEN "opt" ELSE "masked")
Ap1(ks, f, x)       == IF IsD(ks) THEN DApply1(f, x) ELSE Apply1(f, x)
Ap2(ks, f, x, y)    == IF IsD(ks) THEN DApply2(f, x, y) ELSE Apply2(f, x, y)
Ap3(ks, f, x, y, z) == IF IsD(ks) THEN DApply3(f, x, y, z) ELSE Apply3(f, x, y, z)
DivOK(f, present, divisor) == (f \in {"div", "mod"} /\ present) => divisor # 0   \* C++ precondition

Store(d, o) == IF d = 0 THEN r ELSE [r EXCEPT ![d] = [kind |-> o.kind, has |-> o.has, val |-> o.val]]
DestOK(d, f, ks) == d \in {0} \cup Regs /\ (d # 0 => f \notin BoolRes /\ ~IsD(ks))   \* double results are not fed back

Do(op, a, o, newr) ==
    /\ pre' = r
    /\ r' = newr
    /\ evals' = evals + o.d
    /\ last' = [op |-> op, a |-> a, res |-> o]

----------------------------------------------------------------------------
(* The lifted calls.                                                         *)

(* op x, f(x): present iff x is; lifted <cmath> names are never evaluated on a missing x (the *)
(* built-in unary operators are exempt from that clause, as in the property statement).      *)
WUnary(f, i) == LET x == r[i] IN
    Want(ResKind({x.kind}, f), x.has, IF x.has THEN Ap1({x.kind}, f, x.val) ELSE 0, x.has, f \in UFuns \cup UPreds)
Unary(f, i, d, o) ==
    /\ f \in UnOps \cup UFuns \cup UPreds /\ i \in Regs /\ LiftedK(r[i].kind) /\ OpOK(f, KS({i})) /\ DestOK(d, f, KS({i}))
    /\ Legal(o, WUnary(f, i))
    /\ Do("Unary", [f |-> f, i |-> i, d |-> d], o, Store(d, o))

(* x op y, f(x, y) *)
WBinary(f, i, j) == LET x == r[i]  y == r[j]  p == x.has /\ y.has IN
    Want(ResKind({x.kind, y.kind}, f), p, IF p THEN Ap2({x.kind, y.kind}, f, x.val, y.val) ELSE 0, p, TRUE)
Binary(f, i, j, d, o) ==
    /\ f \in BinOps \cup BFuns /\ i \in Regs /\ j \in Regs /\ PatOK(KS({i, j})) /\ OpOK(f, KS({i, j})) /\ DestOK(d, f, KS({i, j}))
    /\ DivOK(f, r[i].has /\ r[j].has, r[j].val)
    /\ Legal(o, WBinary(f, i, j))
    /\ Do("Binary", [f |-> f, i |-> i, j |-> j, d |-> d], o, Store(d, o))

(* f(x, y, z) *)
WTernary(f, i, j, k) == LET x == r[i]  y == r[j]  z == r[k]  p == x.has /\ y.has /\ z.has IN
    Want(ResKind({x.kind, y.kind, z.kind}, f), p, IF p THEN Ap3({x.kind, y.kind, z.kind}, f, x.val, y.val, z.val) ELSE 0, p, TRUE)
Ternary(f, i, j, k, d, o) ==
    /\ f \in TFuns /\ i \in Regs /\ j \in Regs /\ k \in Regs /\ PatOK(KS({i, j, k})) /\ OpOK(f, KS({i, j, k})) /\ DestOK(d, f, KS({i, j, k}))
    /\ Legal(o, WTernary(f, i, j, k))
    /\ Do("Ternary", [f |-> f, i |-> i, j |-> j, k |-> k, d |-> d], o, Store(d, o))

(* x == y, x != y: a plain bool.  Two missing values are equal, a missing and a present one are *)
(* unequal, two present ones compare their values; != is the exact negation.                    *)
EqRegs(x, y) == (~x.has /\ ~y.has) \/ (x.has /\ y.has /\ ValEq(x.val, y.val))
WCompare(f, i, j) == LET e == EqRegs(r[i], r[j]) IN
    Want("bool", TRUE, B2I(IF f = "eq" THEN e ELSE ~e), TRUE, FALSE)
Compare(f, i, j, o) ==
    /\ f \in CmpOps /\ i \in Regs /\ j \in Regs /\ PatOK(KS({i, j}))      \* (eq, ne are defined for double operands too)
    /\ Legal(o, WCompare(f, i, j))
    /\ Do("Compare", [f |-> f, i |-> i, j |-> j], o, r)

(* x op= y: the observation is the destination afterwards.  Missing operand: not evaluated, the *)
(* destination becomes missing; for /= and %= the property also demands the value is untouched. *)
WCompound(f, i, j) == LET x == r[i]  y == r[j]  p == x.has /\ y.has  b == AsgBase[f] IN
    Want(x.kind, p, IF p THEN Ap2({x.kind, y.kind}, b, x.val, y.val) ELSE x.val, p \/ b \in {"div", "mod"}, TRUE)
Compound(f, i, j, o) ==
    /\ f \in AsgOps /\ i \in Regs /\ j \in Regs /\ r[i].kind \in Writable /\ PatOK(KS({i, j})) /\ OpOK(f, KS({i, j}))
    /\ IsD(KS({i, j})) => DBound(r[i].val) /\ DBound(r[j].val)
    /\ DivOK(AsgBase[f], r[i].has /\ r[j].has, r[j].val)
    /\ Legal(o, WCompound(f, i, j))
    /\ Do("Compound", [f |-> f, i |-> i, j |-> j], o,
          [r EXCEPT ![i] = [kind |-> @.kind, has |-> o.has, val |-> o.val]])

(* select(c, x, y): missing when the condition is missing, otherwise the chosen branch unchanged. *)
(* c = [lifted, has, val]: a plain bool (lifted = FALSE, has = TRUE) or an xoptional<bool>.       *)
WSelect(c, i, j) == LET b == IF c.val THEN r[i] ELSE r[j]  p == c.has /\ b.has IN
    Want(IF IsD(KS({i, j})) THEN "dopt" ELSE "opt", p, b.val, p, FALSE)
Select(c, i, j, d, o) ==
    /\ i \in Regs /\ j \in Regs /\ d \in {0} \cup Regs /\ (d # 0 => ~IsD(KS({i, j})))
    /\ KS({i, j}) \subseteq OptKinds \cup PlainKinds /\ (IsD(KS({i, j})) => KS({i, j}) \subseteq DKinds)
    /\ IF c.lifted THEN KS({i, j}) # {"int"} ELSE c.has /\ HasOpt(KS({i, j}))
    /\ Legal(o, WSelect(c, i, j))
    /\ Do("Select", [c |-> c, i |-> i, j |-> j, d |-> d], o, Store(d, o))

(* x.value_or(dv): the value when present, the default otherwise. *)
WValueOr(i, dv) == Want(IF r[i].kind \in DKinds THEN "dplain" ELSE "plain", TRUE, IF r[i].has THEN r[i].val ELSE dv, TRUE, FALSE)
ValueOr(i, dv, o) ==
    /\ i \in Regs /\ r[i].kind \in OptKinds /\ dv \in NumFor(r[i].kind)
    /\ Legal(o, WValueOr(i, dv))
    /\ Do("ValueOr", [i |-> i, dv |-> dv], o, r)

----------------------------------------------------------------------------
(* Housekeeping calls (construction, accessors, plain assignment, swap).     *)
(* They build the operands the lifted calls are applied to; their semantics  *)
(* is the documented one of the two classes, not part of the property        *)
(* sentence, so a mismatch here is reported as advisory (MODEL-DRIFT).       *)

LoadHows == {"plain", "int", "opt2", "opt1", "optdef", "missing", "optional_vv", "optref", "optional_rr", "optcr",
             "optvr", "optional_rv", "masked2", "masked1", "maskeddef", "maskedf", "masked_value1", "masked_value2",
             "mref", "masked_value_rr", "dplain", "dopt2", "dmasked2"}
LoadKind(how) ==
    CASE how \in {"plain", "int", "dplain"} -> how
      [] how = "dopt2" -> "dopt"
      [] how = "dmasked2" -> "dmasked"
      [] how \in {"opt2", "opt1", "optdef", "missing", "optional_vv"} -> "opt"
      [] how \in {"optref", "optional_rr"} -> "optref"
      [] how = "optcr" -> "optcr"
      [] how \in {"optvr", "optional_rv"} -> "optvr"
      [] how \in {"masked2", "masked1", "maskeddef", "maskedf", "masked_value1", "masked_value2"} -> "masked"
      [] how \in {"mref", "masked_value_rr"} -> "mref"
\* value-only constructors give a present value; default-constructed xoptional / missing<T>() / masked<T>() are
\* missing with an unspecified value; a default-constructed xmasked_value is left unconstrained
WLoad(how, has, v) ==
    CASE how \in {"plain", "int", "dplain", "opt1", "masked1", "masked_value1"} -> Want(LoadKind(how), TRUE, v, TRUE, FALSE)
      [] how \in {"optdef", "missing", "maskedf"} -> Want(LoadKind(how), FALSE, 0, FALSE, FALSE)
      [] how = "maskeddef" -> Want("masked", TRUE, 0, FALSE, FALSE)
      [] OTHER -> Want(LoadKind(how), has, v, TRUE, FALSE)
Load(i, how, has, v, o) ==
    /\ i \in Regs /\ how \in LoadHows /\ has \in BOOLEAN /\ v \in NumFor(LoadKind(how))
    /\ IF how = "maskeddef" THEN o.kind = "masked" /\ o.val \in (-M)..M /\ o.d \in 0..MaxD
                            ELSE Legal(o, WLoad(how, has, v))
    /\ Do("Load", [i |-> i, how |-> how, has |-> has, v |-> v], o,
          [r EXCEPT ![i] = [kind |-> o.kind, has |-> o.has, val |-> o.val]])

(* has_value()/visible() and value(), through members, free functions, rvalue overloads, conversion *)
Get(i, path, o) ==
    /\ i \in Regs
    /\ \/ path \in {"member", "rvalue"} /\ LiftedK(r[i].kind)
       \/ path = "free" /\ r[i].kind \in OptKinds \cup {"plain"}
       \/ path = "conv" /\ r[i].kind \in MskKinds
    /\ Legal(o, Want("get", r[i].has, r[i].val, TRUE, FALSE))
    /\ Do("Get", [i |-> i, path |-> path], o, r)

SetFlag(i, b, o) ==
    /\ i \in Regs /\ r[i].kind \in Writable /\ b \in BOOLEAN /\ Legal(o, VoidW)
    /\ Do("SetFlag", [i |-> i, b |-> b], o, [r EXCEPT ![i].has = b])
SetVal(i, v, o) ==
    /\ i \in Regs /\ r[i].kind # "optcr" /\ v \in NumFor(r[i].kind) /\ Legal(o, VoidW)
    /\ Do("SetVal", [i |-> i, v |-> v], o, [r EXCEPT ![i].val = v])
(* the caller writes the referents of a reference closure directly *)
Poke(i, has, v, o) ==
    /\ i \in Regs /\ r[i].kind \in ValRef /\ has \in BOOLEAN /\ v \in (-M)..M /\ Legal(o, VoidW)
    /\ Do("Poke", [i |-> i, has |-> has, v |-> v], o,
          [r EXCEPT ![i] = [kind |-> @.kind, has |-> IF @.kind \in FlagRef THEN has ELSE @.has, val |-> v]])

(* x = v: an xoptional becomes present; a masked xmasked_value ignores the assignment *)
AssignVal(i, v, o) ==
    /\ i \in Regs /\ r[i].kind \in Writable /\ v \in NumFor(r[i].kind) /\ Legal(o, VoidW)
    /\ Do("AssignVal", [i |-> i, v |-> v], o,
          [r EXCEPT ![i] = IF @.kind \in OptKinds THEN [kind |-> @.kind, has |-> TRUE, val |-> v]
                           ELSE IF @.has THEN [kind |-> @.kind, has |-> TRUE, val |-> v] ELSE @])
(* x = y (same family).  Closures with reference members are not copy-assignable from their own type. *)
Assignable(a, b) == ~(a = b /\ a \in ValRef)
AssignReg(i, j, o) ==
    /\ i \in Regs /\ j \in Regs /\ r[i].kind \in Writable /\ LiftedK(r[j].kind)
    /\ (r[i].kind \in OptKinds) = (r[j].kind \in OptKinds) /\ Assignable(r[i].kind, r[j].kind)
    /\ (r[i].kind \in DKinds) = (r[j].kind \in DKinds)
    /\ Legal(o, VoidW)
    /\ LET x == r[i]  y == r[j]
           nh == IF x.kind \in OptKinds \/ x.kind = y.kind THEN y.has ELSE x.has /\ y.has
           nv == IF x.kind \in OptKinds \/ x.kind = y.kind THEN y.val ELSE IF nh THEN y.val ELSE x.val
       IN Do("AssignReg", [i |-> i, j |-> j], o, [r EXCEPT ![i] = [kind |-> x.kind, has |-> nh, val |-> nv]])
Swap(i, j, how, o) ==
    /\ i \in Regs /\ j \in Regs /\ r[i].kind = r[j].kind /\ r[i].kind \in Writable
    /\ how \in {"member", "free"} /\ (how = "free" => r[i].kind \in MskKinds) /\ Legal(o, VoidW)
    /\ Do("Swap", [i |-> i, j |-> j, how |-> how], o,
          [r EXCEPT ![i] = [kind |-> @.kind, has |-> r[j].has, val |-> r[j].val],
                    ![j] = [kind |-> @.kind, has |-> r[i].has, val |-> r[i].val]])

----------------------------------------------------------------------------
(* What the harness reports about every register after each call.           *)
Proj(i) == LET x == r[i] IN
    [kind |-> x.kind, has |-> x.has, val |-> x.val,
     ref  |-> [has |-> IF x.kind \in FlagRef THEN x.has ELSE FALSE,      \* the caller's cells behind a
               val |-> IF x.kind \in ValRef THEN x.val ELSE 0]]          \* reference closure, read directly
ProjAll == [r |-> [i \in Regs |-> Proj(i)], evals |-> evals]

----------------------------------------------------------------------------
(* Model checking.                                                          *)
PlainZero == [kind |-> "plain", has |-> TRUE, val |-> 0]
RegVals == {[kind |-> k, has |-> h, val |-> v] : k \in MCKinds, h \in BOOLEAN, v \in Vals}
InitRegs == {x \in RegVals : (x.kind \in PlainKinds => x.has) /\ x.val \in NumFor(x.kind)}
Init ==
    /\ r \in [1..NReg -> InitRegs]
    /\ evals = 0
    /\ last = [op |-> "Init", a |-> [z |-> 0], res |-> Canon(VoidW)]
    /\ pre = r

F(S) == S \cap MCFuns
Conds == {[lifted |-> FALSE, has |-> TRUE, val |-> b] : b \in BOOLEAN}
             \cup {[lifted |-> TRUE, has |-> h, val |-> b] : h \in BOOLEAN, b \in BOOLEAN}
Idle(S) == \A i \in S : i \in Regs => r[i] = PlainZero     \* canonical form: unused registers are plain 0
I1 == IF Canonical THEN {1} ELSE Regs
I2 == IF Canonical THEN {2} ELSE Regs
I3 == IF Canonical THEN {3} ELSE Regs
D0 == IF Canonical THEN {0} ELSE 0..NReg
C(S) == Canonical => Idle(S)

(* the single-call enumeration (Canonical) expands initial states only *)
G == Canonical => last.op = "Init"

NUnary == G /\ "unary" \in Classes /\ C({2, 3}) /\ \E f \in F(UnOps \cup UFuns \cup UPreds), i \in I1, d \in D0 :
    LiftedK(r[i].kind) /\ OpOK(f, KS({i})) /\ Unary(f, i, d, Canon(WUnary(f, i)))
NBinary == G /\ "binary" \in Classes /\ C({3}) /\ \E f \in F(BinOps \cup BFuns), i \in I1, j \in I2, d \in D0 :
    DivOK(f, r[i].has /\ r[j].has, r[j].val) /\ PatOK(KS({i, j})) /\ OpOK(f, KS({i, j})) /\ Binary(f, i, j, d, Canon(WBinary(f, i, j)))
NTernary == G /\ "ternary" \in Classes /\ \E f \in F(TFuns), i \in I1, j \in I2, k \in I3, d \in D0 :
    PatOK(KS({i, j, k})) /\ OpOK(f, KS({i, j, k})) /\ Ternary(f, i, j, k, d, Canon(WTernary(f, i, j, k)))
NCompare == G /\ "compare" \in Classes /\ C({3}) /\ \E f \in F(CmpOps), i \in I1, j \in I2 : Compare(f, i, j, Canon(WCompare(f, i, j)))
NCompound == G /\ "compound" \in Classes /\ C({3}) /\ \E f \in F(AsgOps), i \in I1, j \in I2 :
    DivOK(AsgBase[f], r[i].has /\ r[j].has, r[j].val) /\ PatOK(KS({i, j})) /\ OpOK(f, KS({i, j})) /\ Compound(f, i, j, Canon(WCompound(f, i, j)))
NCompoundSelf == G /\ "compound" \in Classes /\ C({2, 3}) /\ \E f \in F(AsgOps), i \in I1 :          \* x op= x
    DivOK(AsgBase[f], r[i].has, r[i].val) /\ LiftedK(r[i].kind) /\ OpOK(f, KS({i})) /\ Compound(f, i, i, Canon(WCompound(f, i, i)))
NSelect == G /\ "select" \in Classes /\ C({3}) /\ \E c \in Conds, i \in I1, j \in I2, d \in D0 : Select(c, i, j, d, Canon(WSelect(c, i, j)))
NValueOr == G /\ "valueor" \in Classes /\ C({2, 3}) /\ \E i \in I1, dv \in Vals : r[i].kind \in OptKinds /\ ValueOr(i, dv, Canon(WValueOr(i, dv)))
NGet == G /\ "access" \in Classes /\ C({2, 3}) /\ \E i \in I1, p \in {"member", "free", "rvalue", "conv"} :
    Get(i, p, Canon(Want("get", r[i].has, r[i].val, TRUE, FALSE)))
NSetFlag == G /\ "access" \in Classes /\ C({2, 3}) /\ \E i \in I1, b \in BOOLEAN : SetFlag(i, b, Canon(VoidW))
NSetVal == G /\ "access" \in Classes /\ C({2, 3}) /\ \E i \in I1, v \in Vals : SetVal(i, v, Canon(VoidW))
NAssignVal == G /\ "access" \in Classes /\ C({2, 3}) /\ \E i \in I1, v \in Vals : AssignVal(i, v, Canon(VoidW))
NPoke == G /\ "access" \in Classes /\ C({2, 3}) /\ \E i \in I1, v \in Vals, h \in BOOLEAN : Poke(i, h, v, Canon(VoidW))
NAssignReg == G /\ "assign" \in Classes /\ C({3}) /\ \E i \in I1, j \in I2 : AssignReg(i, j, Canon(VoidW))
NSwap == G /\ "assign" \in Classes /\ C({3}) /\ \E i \in I1, j \in I2, how \in {"member", "free"} : Swap(i, j, how, Canon(VoidW))
NLoad == G /\ "load" \in Classes /\ C({1, 2, 3}) /\ \E i \in I1, how \in LoadHows, h \in BOOLEAN, v \in Vals :
    /\ how \in {"plain", "int", "dplain", "opt1", "masked1", "masked_value1", "optdef", "missing", "maskedf", "maskeddef"} => h
    /\ how \in {"optdef", "missing", "maskedf", "maskeddef"} => v = 0
    /\ Load(i, how, h, v, IF how = "maskeddef" THEN [kind |-> "masked", has |-> TRUE, val |-> 0, d |-> 0]
                                               ELSE Canon(WLoad(how, h, v)))

Next == \/ NUnary \/ NBinary \/ NTernary \/ NCompare \/ NCompound \/ NCompoundSelf \/ NSelect \/ NValueOr
        \/ NGet \/ NSetFlag \/ NSetVal \/ NAssignVal \/ NPoke \/ NAssignReg \/ NSwap \/ NLoad

Spec == Init /\ [][Next]_vars

(* simulation walks start from three plain zeros and build their operands with Load *)
SimInit ==
    /\ r = [i \in 1..NReg |-> PlainZero]
    /\ evals = 0
    /\ last = [op |-> "Init", a |-> [z |-> 0], res |-> Canon(VoidW)]
    /\ pre = r
SimSpec == SimInit /\ [][Next]_vars

(* S->C: the single-call enumeration: only transitions out of initial states are allowed, and every such *)
(* transition is written out: the registers before, and the call (an ACTION_CONSTRAINT of the s2c configs) *)
Emit == /\ last.op = "Init"
        /\ EmitOn => PrintT("@E@" \o ToJson([p |-> [i \in Regs |-> pre'[i]], l |-> [op |-> last'.op, a |-> last'.a]]))
(* multi-step exploration: keep the value space small *)
Small == \A i \in Regs : r[i].val \in -6..6
Smaller == \A i \in Regs : r[i].val \in -2..3

----------------------------------------------------------------------------
(* Theorems of the specification itself (they guard the oracle).            *)
TypeOK ==
    /\ \A i \in Regs : /\ r[i].kind \in Kinds /\ r[i].has \in BOOLEAN /\ InNum(r[i].val)
                       /\ (r[i].kind \notin DKinds => r[i].val \in (-M)..M)
                       /\ (r[i].kind \in PlainKinds => r[i].has)
    /\ evals \in Nat

(* == is symmetric, a register equals itself, != is the negation, for every pair of registers *)
EqualityLaws == \A i \in Regs, j \in Regs :
    /\ EqRegs(r[i], r[j]) = EqRegs(r[j], r[i])
    /\ EqRegs(r[i], r[i])
    /\ WCompare("ne", i, j).val = 1 - WCompare("eq", i, j).val
    /\ (~r[i].has /\ ~r[j].has) => EqRegs(r[i], r[j])
    /\ (r[i].has # r[j].has) => ~EqRegs(r[i], r[j])

Operands(l) ==
    CASE l.op = "Unary"    -> {l.a.i}
      [] l.op \in {"Binary", "Compound", "Compare"} -> {l.a.i, l.a.j}
      [] l.op = "Ternary"  -> {l.a.i, l.a.j, l.a.k}
      [] OTHER -> {}
LiftedCalls == {"Unary", "Binary", "Ternary", "Compound"}
(* the result is present exactly when every operand is present *)
Propagation == [][last'.op \in LiftedCalls => (last'.res.has = \A i \in Operands(last') : r[i].has)]_vars
(* binary and ternary operators, compound assignments and lifted functions never evaluate on a missing operand *)
NeverEvaluated == [][(/\ last'.op \in LiftedCalls
                      /\ ~(last'.op = "Unary" /\ last'.a.f \in UnOps)
                      /\ \E i \in Operands(last') : ~r[i].has) => evals' = evals]_vars
(* a missing divisor (even zero) leaves the target of /= and %= untouched *)
DivTargetKept == [][(last'.op = "Compound" /\ last'.a.f \in {"div_eq", "mod_eq"} /\ ~last'.res.has)
                       => r'[last'.a.i].val = r[last'.a.i].val]_vars
(* select and value_or *)
SelectLaw == [][last'.op = "Select" =>
                  LET c == last'.a.c  b == IF c.val THEN r[last'.a.i] ELSE r[last'.a.j] IN
                  /\ ~c.has => ~last'.res.has
                  /\ c.has => last'.res.has = b.has /\ (b.has => last'.res.val = b.val)]_vars
ValueOrLaw == [][last'.op = "ValueOr" =>
                  last'.res.val = IF r[last'.a.i].has THEN r[last'.a.i].val ELSE last'.a.dv]_vars
(* calls that only compute leave every register alone (unless the result is stored) *)
OperandsKept == [][(last'.op \in {"Unary", "Binary", "Ternary", "Select"} /\ last'.a.d = 0) \/ last'.op \in {"Compare", "ValueOr", "Get"}
                      => r' = r]_vars
=============================================================================

------------------------------- MODULE Lifted -------------------------------
(***************************************************************************)
(* L1 property specification for C04: missing / masked values propagate    *)
(* through every lifted operator and are never evaluated.                   *)
(*                                                                          *)
(* A register machine.  Register i holds one operand of kind                *)
(*   plain   a scalar of the value type            int    a raw int scalar  *)
(*   opt     xoptional<T, bool>                    optref xoptional<T&, bool&> *)
(*   optcr   xoptional<const T&, const bool&>      optvr  xoptional<T&, bool>  *)
(*   masked  xmasked_value<T, bool>                mref   xmasked_value<T&, bool&> *)
(*   optbr   xoptional<T&, bitset::reference>: the flag is a proxy for one bit  *)
(*           of a caller's xdynamic_bitset (the element type of xoptional_vector) *)
(* (T = the counting integer operand type of the harness), or               *)
(*   dplain  double    dopt  xoptional<double, bool>                        *)
(*   dmasked xmasked_value<double, bool>     (real IEEE operands: integers, *)
(*                        NaN, infinities, fractions, huge and tiny values) *)
(* or, the two families nested,                                              *)
(*   mo      xmasked_value<xoptional<T, bool>, bool>   a masked optional     *)
(*   po      xoptional<T, bool> standing where a call of the mo family       *)
(*           takes its plain scalar                                          *)
(* abstractly a pair [has, val] (plain operands always "have"); the value of *)
(* a mo / po register is NAv when its inner optional is missing.  Reference  *)
(* kinds close over cells of the caller; two registers may close over the    *)
(* same cell (va, fa name the value cell and the flag cell of a register).   *)
(* Every lifted call is one action; its C++ arguments are the action         *)
(* parameters.                                                               *)
(*                                                                          *)
(* The last parameter o of every action is the OBSERVATION of the call:     *)
(* [kind, has, val, d, u] = what it returned, d = how many operations of    *)
(* the underlying value type it evaluated, u = (double operands) what the   *)
(* same operation gave on the underlying doubles.  An action is enabled     *)
(* exactly when o is an answer the property allows (Legal); where the       *)
(* property is silent (the value behind a missing result, how often a       *)
(* present operand is evaluated, whether == looks at a missing value) every *)
(* answer is legal and the next state is built from the observed one.  The  *)
(* model checker supplies the canonical legal observation (Canon), trace    *)
(* validation the logged one.  Written from the property statement, not     *)
(* from xtl's code.                                                          *)
(*                                                                          *)
(* The value type's algebra (Apply1/2/3) is the one of harness/lifted/      *)
(* probe.hpp: integer semantics for + - * / % - ~ ! < <= > >= == !=, an     *)
(* injective toy formula for everything else, results wrapped to -M..M.     *)
(***************************************************************************)
EXTENDS Integers, Sequences, FiniteSets, TLC, Json, LiftedOps

CONSTANTS NReg,      \* number of registers
          Vals,      \* operand values the model checker loads / starts from
          MCKinds,   \* register kinds the model checker starts from
          Classes,   \* action classes enabled in the model checker's next-state relation
          MCFuns,    \* operation names the model checker uses (a subset of AllFuns)
          MCHows,    \* constructions the model checker's Load uses (a subset of LoadHows)
          Canonical, \* TRUE: operands sit in registers 1,2,3 in call order, unused registers are plain 0,
                     \*       results are not stored (the single-call enumeration of S->C)
          AliasInit, \* TRUE: the initial states also contain register files in which register 2 closes over
                     \*       the cells of register 1; only initial states are expanded
          EmitOn     \* TRUE: every transition is written out as JSON (see Emit)

VARIABLES r,      \* r[i] = [kind, has, val]
          va, fa, \* va[i], fa[i]: the value cell / flag cell register i closes over (reference kinds)
          evals,  \* number of underlying operations evaluated so far
          last,   \* ghost: [op, a, res] of the call just performed
          pre     \* ghost: [r, va, fa] before that call

vars == <<r, va, fa, evals, last, pre>>
absvars == <<r, va, fa>>

Regs       == DOMAIN r      \* 1..NReg in the model checker; the trace of an execution fixes its own number
OptKinds   == {"opt", "optref", "optcr", "optvr", "optbr", "dopt"}
MskKinds   == {"masked", "mref", "dmasked", "mo"}
PlainKinds == {"plain", "int", "dplain", "po"}
DKinds     == {"dplain", "dopt", "dmasked"}                  \* the value type is double
MixKinds   == {"mo", "po"}                                   \* the value type is xoptional<T>
Kinds      == OptKinds \cup MskKinds \cup PlainKinds
Writable   == {"opt", "optref", "optvr", "optbr", "masked", "mref", "dopt", "dmasked", "mo"}   \* optcr closes over const referents
ValRef     == {"optref", "optcr", "optvr", "mref", "optbr"}           \* the value is a reference to a caller's cell
FlagRef    == {"optref", "optcr", "mref", "optbr"}           \* the flag is a reference to (optbr: a proxy for) a caller's cell
BitFlag    == {"optbr"}                                      \* ... a single bit of a caller's bitset: not shareable with a bool&
LiftedK(k) == k \notin PlainKinds

----------------------------------------------------------------------------
(* The algebra of the operand type (shared with probe.hpp).                 *)
M == 46000
Wrap(v) == ((v + M) % (2 * M + 1)) - M
Abs(x) == IF x < 0 THEN -x ELSE x
TDiv(a, b) == IF (a >= 0) = (b > 0) THEN Abs(a) \div Abs(b) ELSE -(Abs(a) \div Abs(b))   \* C++: towards zero
TRem(a, b) == a - b * TDiv(a, b)
Toy(c, x, y, z) == Wrap(c * 600 + x + 7 * y + 49 * z)
Pred(c, x) == ((x + c) % 3) # 0
B2I(b) == IF b THEN 1 ELSE 0

Apply1(f, x) ==
    CASE f = "pos"    -> x
      [] f = "neg"    -> Wrap(-x)
      [] f = "bitnot" -> Wrap(-x - 1)
      [] f = "lognot" -> B2I(x = 0)
      [] f \in UFuns  -> Toy(Code[f], x, 0, 0)
      [] f \in UPreds -> B2I(Pred(Code[f], x))

Apply2(f, x, y) ==
    CASE f = "plus"  -> Wrap(x + y)
      [] f = "minus" -> Wrap(x - y)
      [] f = "mul"   -> Wrap(x * y)
      [] f = "div"   -> Wrap(TDiv(x, y))
      [] f = "mod"   -> Wrap(TRem(x, y))
      [] f = "lt"    -> B2I(x < y)
      [] f = "le"    -> B2I(x <= y)
      [] f = "gt"    -> B2I(x > y)
      [] f = "ge"    -> B2I(x >= y)
      [] f \in ToyBinOps \cup BFuns -> Toy(Code[f], x, y, 0)

Apply3(f, x, y, z) == Toy(Code[f], x, y, z)

(* the mo family: the underlying value type is itself an xoptional over the algebra above; NAv = "missing" *)
NAv == 2147470000
IsNA(x) == x = NAv
OApply1(f, x)       == IF IsNA(x) THEN NAv ELSE Apply1(f, x)
OApply2(f, x, y)    == IF IsNA(x) \/ IsNA(y) THEN NAv ELSE Apply2(f, x, y)
OApply3(f, x, y, z) == IF IsNA(x) \/ IsNA(y) \/ IsNA(z) THEN NAv ELSE Apply3(f, x, y, z)

(* double operands.  A double is written as: an integer up to 2*10^9 as itself, NaN as NaNv, the infinities as  *)
(* PInfv / NInfv, anything else as a hash of its bit pattern (HashLo..HashHi).  What a lifted call returns on     *)
(* present double operands must be what the harness got from the same operation on the underlying doubles (o.u, *)
(* recorded next to it); for small integer and NaN operands of the operations below the spec also computes the    *)
(* IEEE result itself.                                                                                             *)
NaNv == 2147480000                   \* how the harness writes a NaN
PInfv == 2147480002
NInfv == 2147480003
InNum(v) == v >= -2000000000 /\ v <= NInfv
IsNaN(x) == x = NaNv
SmallD(x) == IsNaN(x) \/ (x >= -1000 /\ x <= 1000)
Max2(x, y) == IF x >= y THEN x ELSE y
Min2(x, y) == IF x <= y THEN x ELSE y
DUnFuns  == {"pos", "neg", "lognot", "abs", "fabs", "ceil", "floor", "trunc", "round", "nearbyint", "rint",
             "isnan", "isinf", "isfinite"}
DBinFuns == {"plus", "minus", "mul", "lt", "le", "gt", "ge", "fmax", "fmin", "lor", "land"}
DFuns    == DUnFuns \cup DBinFuns \cup {"fma", "eq", "ne", "plus_eq", "minus_eq", "mul_eq"}
DNoFuns  == {"mod", "band", "bor", "bxor", "bitnot", "mod_eq", "band_eq", "bor_eq", "bxor_eq"}   \* not defined for doubles
DApply1(f, x) ==
    CASE f = "pos"    -> x
      [] f = "neg"    -> IF IsNaN(x) THEN NaNv ELSE -x
      [] f = "lognot" -> B2I(x = 0)                                \* NaN is "true"
      [] f \in {"abs", "fabs"} -> IF IsNaN(x) THEN NaNv ELSE Abs(x)
      [] f \in {"ceil", "floor", "trunc", "round", "nearbyint", "rint"} -> x
      [] f = "isnan"    -> B2I(IsNaN(x))
      [] f = "isinf"    -> 0
      [] f = "isfinite" -> B2I(~IsNaN(x))
DApply2(f, x, y) == LET n == IsNaN(x) \/ IsNaN(y) IN
    CASE f = "plus"  -> IF n THEN NaNv ELSE x + y
      [] f = "minus" -> IF n THEN NaNv ELSE x - y
      [] f = "mul"   -> IF n THEN NaNv ELSE x * y
      [] f = "lt"    -> B2I(~n /\ x < y)                          \* comparisons with NaN are false
      [] f = "le"    -> B2I(~n /\ x <= y)
      [] f = "gt"    -> B2I(~n /\ x > y)
      [] f = "ge"    -> B2I(~n /\ x >= y)
      [] f = "fmax"  -> IF IsNaN(x) THEN y ELSE IF IsNaN(y) THEN x ELSE Max2(x, y)
      [] f = "fmin"  -> IF IsNaN(x) THEN y ELSE IF IsNaN(y) THEN x ELSE Min2(x, y)
      [] f = "lor"   -> B2I(x # 0 \/ y # 0)                       \* NaN is "true"
      [] f = "land"  -> B2I(x # 0 /\ y # 0)
DApply3(f, x, y, z) == IF IsNaN(x) \/ IsNaN(y) \/ IsNaN(z) THEN NaNv ELSE x * y + z       \* fma
ValEq(x, y) == x = y /\ ~IsNaN(x)                                 \* NaN == NaN is false
DTabIdx == 1000000..1000019          \* Load / Poke arguments that select one of the harness's remarkable doubles
DArg    == (-1000)..1000 \cup {NaNv}       \* double arguments the spec knows the value of
NumFor(kind) == IF kind \in DKinds THEN DArg ELSE IF kind \in MixKinds THEN (-M)..M \cup {NAv} ELSE (-M)..M

----------------------------------------------------------------------------
(* Observations and what the property demands of them.                      *)
MaxD == 16
Want(kind, has, val, cmp, z, uv) == [kind |-> kind, has |-> has, val |-> val, cmp |-> cmp, z |-> z, uv |-> uv]
    \* kind/has: always demanded.  val: demanded iff cmp.  z: the call must not evaluate the underlying operation
    \* ("never evaluate the underlying operation on a missing operand").  uv: (doubles) a present result is the
    \* recorded result of the same operation on the underlying values.
(* || and && on doubles: xoptional answers in the operands' common type, xmasked_value in bool; both "equal the  *)
(* same operation on the underlying values"                                                                        *)
KindOK(ok, wk) == \/ ok = wk
                  \/ wk = "dlogopt" /\ ok \in {"dopt", "optb"}
                  \/ wk = "dlogmsk" /\ ok \in {"dmasked", "maskedb"}
CanonKind(wk) == CASE wk = "dlogopt" -> "dopt" [] wk = "dlogmsk" -> "maskedb" [] OTHER -> wk
Legal(o, w) ==
    /\ KindOK(o.kind, w.kind)
    /\ o.has = w.has
    /\ w.cmp => o.val = w.val
    /\ (w.uv /\ w.has) => o.val = o.u
    /\ w.z => o.d = 0
    /\ o.d \in 0..MaxD
    /\ InNum(o.val)
Canon(w) == [kind |-> CanonKind(w.kind), has |-> w.has, val |-> IF w.cmp THEN w.val ELSE 0,
             d |-> IF w.z THEN 0 ELSE 1, u |-> IF w.uv /\ w.cmp THEN w.val ELSE 0]
Loose(kind, has, val, cmp) == Want(kind, has, val, cmp, FALSE, FALSE)       \* calls that may evaluate as they like
Canon0(w) == [Canon(w) EXCEPT !.d = 0]
VoidW == Loose("void", TRUE, 0, TRUE)

KS(S)      == {r[i].kind : i \in S}
HasOpt(ks) == ks \cap OptKinds # {}
HasMsk(ks) == ks \cap MskKinds # {}
IsD(ks)    == ks \cap DKinds # {}
IsMix(ks)  == ks \cap MixKinds # {}
PatOK(ks)  == /\ (HasOpt(ks) \/ HasMsk(ks)) /\ ~(HasOpt(ks) /\ HasMsk(ks))   \* some operand lifted, families not mixed
              /\ (IsD(ks) => ks \subseteq DKinds)                              \* one value type per call
              /\ (IsMix(ks) => ks \subseteq MixKinds)
OpOK(f, ks) == IsD(ks) => f \notin DNoFuns
ResKind(ks, f) == IF IsMix(ks) THEN (IF f \in BoolRes THEN "mob" ELSE "mo")
                  ELSE IF IsD(ks) /\ f \in {"lor", "land"} THEN (IF HasOpt(ks) THEN "dlogopt" ELSE "dlogmsk")
                  ELSE IF f \in BoolRes THEN (IF HasOpt(ks) THEN "optb" ELSE "maskedb")
                  ELSE IF IsD(ks) THEN (IF HasOpt(ks) THEN "dopt" ELSE "dmasked")
                  ELSE (IF HasOpt(ks) THEN "opt" ELSE "masked")
Ap1(ks, f, x)       == IF IsD(ks) THEN DApply1(f, x) ELSE IF IsMix(ks) THEN OApply1(f, x) ELSE Apply1(f, x)
Ap2(ks, f, x, y)    == IF IsD(ks) THEN DApply2(f, x, y) ELSE IF IsMix(ks) THEN OApply2(f, x, y) ELSE Apply2(f, x, y)
Ap3(ks, f, x, y, z) == IF IsD(ks) THEN DApply3(f, x, y, z) ELSE IF IsMix(ks) THEN OApply3(f, x, y, z) ELSE Apply3(f, x, y, z)
(* the spec computes the value of a call itself: always for the integer algebra; for doubles when the operation is *)
(* one of DFuns and every operand is a small integer or NaN                                                         *)
Known(ks, f, xs) == IsD(ks) => (f \in DFuns /\ \A x \in xs : SmallD(x))
(* C++ precondition: no integer division / modulo by a present zero *)
DivOK(ks, f, present, divisor) == (f \in {"div", "mod"} /\ present /\ ~IsD(ks) /\ ~IsNA(divisor)) => divisor # 0

----------------------------------------------------------------------------
(* Cells.  A reference-kind register designates a value cell (and, for the kinds whose flag is a reference,  *)
(* a flag cell); a write through one register shows in every register that designates the same cell.          *)
SharesV(rr, nva, k, m) == rr[k].kind \in ValRef /\ rr[m].kind \in ValRef /\ nva[k] = nva[m]
SharesF(rr, nfa, k, m) == rr[k].kind \in FlagRef /\ rr[m].kind \in FlagRef /\ nfa[k] = nfa[m]
Prop(newr, nva, nfa) ==
    LET Mod == {m \in Regs : newr[m] # r[m]} IN
    [k \in Regs |->
       IF k \in Mod THEN newr[k]
       ELSE LET mv == {m \in Mod : SharesV(newr, nva, k, m)}
                mf == {m \in Mod : SharesF(newr, nfa, k, m)}
            IN [kind |-> newr[k].kind,
                has  |-> IF mf = {} THEN newr[k].has ELSE newr[CHOOSE m \in mf : TRUE].has,
                val  |-> IF mv = {} THEN newr[k].val ELSE newr[CHOOSE m \in mv : TRUE].val]]
(* a cell id no other register uses *)
Fresh(ids, i) == CHOOSE k \in Regs : (\A j \in Regs \ {i} : ids[j] # k) /\ (\A n \in Regs : (\A j \in Regs \ {i} : ids[j] # n) => k <= n)
ReVa(i) == [va EXCEPT ![i] = Fresh(va, i)]
ReFa(i) == [fa EXCEPT ![i] = Fresh(fa, i)]

Store(d, o) == IF d = 0 THEN r ELSE [r EXCEPT ![d] = [kind |-> o.kind, has |-> o.has, val |-> o.val]]
DestOK(d, f, ks) == d \in {0} \cup Regs /\ (d # 0 => f \notin BoolRes /\ ~IsD(ks))   \* double results are not fed back

DoA(op, a, o, newr, nva, nfa) ==
    /\ pre' = [r |-> r, va |-> va, fa |-> fa]
    /\ r' = Prop(newr, nva, nfa)
    /\ va' = nva /\ fa' = nfa
    /\ evals' = evals + o.d
    /\ last' = [op |-> op, a |-> a, res |-> o]
Do(op, a, o, newr) == DoA(op, a, o, newr, va, fa)
(* a call whose result is stored into register d re-creates d as a value register *)
DoS(op, a, o, d) == IF d = 0 THEN Do(op, a, o, r) ELSE DoA(op, a, o, Store(d, o), ReVa(d), ReFa(d))

----------------------------------------------------------------------------
(* The lifted calls.                                                         *)

(* op x, f(x): present iff x is; lifted <cmath> names are never evaluated on a missing x (the *)
(* built-in unary operators are exempt from that clause, as in the property statement).      *)
WUnary(f, i) == LET x == r[i]  ks == {x.kind}  q == ~IsNA(x.val)  strict == f \in UFuns \cup UPreds IN
    Want(ResKind(ks, f), x.has, IF x.has /\ Known(ks, f, {x.val}) THEN Ap1(ks, f, x.val) ELSE 0,
         x.has /\ Known(ks, f, {x.val}), strict /\ ~(x.has /\ q), IsD(ks))
Unary(f, i, d, o) ==
    /\ f \in UnOps \cup UFuns \cup UPreds /\ i \in Regs /\ LiftedK(r[i].kind) /\ OpOK(f, KS({i})) /\ DestOK(d, f, KS({i}))
    /\ Legal(o, WUnary(f, i))
    /\ DoS("Unary", [f |-> f, i |-> i, d |-> d], o, d)

(* x op y, f(x, y) *)
WBinary(f, i, j) == LET x == r[i]  y == r[j]  ks == {x.kind, y.kind}  p == x.has /\ y.has
                        q == ~IsNA(x.val) /\ ~IsNA(y.val)  kn == Known(ks, f, {x.val, y.val}) IN
    Want(ResKind(ks, f), p, IF p /\ kn THEN Ap2(ks, f, x.val, y.val) ELSE 0, p /\ kn, ~(p /\ q), IsD(ks))
Binary(f, i, j, d, o) ==
    /\ f \in BinOps \cup BFuns /\ i \in Regs /\ j \in Regs /\ PatOK(KS({i, j})) /\ OpOK(f, KS({i, j})) /\ DestOK(d, f, KS({i, j}))
    /\ DivOK(KS({i, j}), f, r[i].has /\ r[j].has /\ ~IsNA(r[i].val), r[j].val)
    /\ Legal(o, WBinary(f, i, j))
    /\ DoS("Binary", [f |-> f, i |-> i, j |-> j, d |-> d], o, d)

(* f(x, y, z) *)
WTernary(f, i, j, k) == LET x == r[i]  y == r[j]  z == r[k]  ks == {x.kind, y.kind, z.kind}  p == x.has /\ y.has /\ z.has
                            q == ~IsNA(x.val) /\ ~IsNA(y.val) /\ ~IsNA(z.val)  kn == Known(ks, f, {x.val, y.val, z.val}) IN
    Want(ResKind(ks, f), p, IF p /\ kn THEN Ap3(ks, f, x.val, y.val, z.val) ELSE 0, p /\ kn, ~(p /\ q), IsD(ks))
Ternary(f, i, j, k, d, o) ==
    /\ f \in TFuns /\ i \in Regs /\ j \in Regs /\ k \in Regs /\ PatOK(KS({i, j, k})) /\ OpOK(f, KS({i, j, k})) /\ DestOK(d, f, KS({i, j, k}))
    /\ Legal(o, WTernary(f, i, j, k))
    /\ DoS("Ternary", [f |-> f, i |-> i, j |-> j, k |-> k, d |-> d], o, d)

(* x == y, x != y: a plain bool.  Two missing values are equal, a missing and a present one are *)
(* unequal, two present ones compare their values; != is the exact negation.                    *)
EqRegs(x, y) == (~x.has /\ ~y.has) \/ (x.has /\ y.has /\ ValEq(x.val, y.val))
WCompare(f, i, j) == LET e == EqRegs(r[i], r[j])  ks == KS({i, j}) IN
    Want("bool", TRUE, B2I(IF f = "eq" THEN e ELSE ~e), TRUE, FALSE, IsD(ks) /\ r[i].has /\ r[j].has)
Compare(f, i, j, o) ==
    /\ f \in CmpOps /\ i \in Regs /\ j \in Regs /\ PatOK(KS({i, j}))      \* (eq, ne are defined for double operands too)
    /\ Legal(o, WCompare(f, i, j))
    /\ Do("Compare", [f |-> f, i |-> i, j |-> j], o, r)

(* x op= y: the observation is the destination afterwards.  Missing operand: not evaluated, the *)
(* destination becomes missing; for /= and %= the property also demands the value is untouched. *)
WCompound(f, i, j) == LET x == r[i]  y == r[j]  ks == {x.kind, y.kind}  p == x.has /\ y.has  b == AsgBase[f]
                          q == ~IsNA(x.val) /\ ~IsNA(y.val)  kn == Known(ks, f, {x.val, y.val}) IN
    Want(x.kind, p, IF p THEN (IF kn THEN Ap2(ks, b, x.val, y.val) ELSE 0) ELSE x.val,
         (p /\ kn) \/ (~p /\ b \in {"div", "mod"}), ~(p /\ q), IsD(ks))
(* cj: the VALUE CATEGORY / constness of the right operand as the call names it -- a const lvalue ("cl"), a    *)
(* non-const lvalue ("lv": an ordinary variable), an rvalue ("rv": a temporary, e.g. the result of another call). *)
(* The property does not depend on it: the same answer is demanded for all three.                                  *)
Cats   == {"cl", "lv", "rv"}
MCCats == Cats              \* the categories the model checker enumerates (a cfg may override it)
Compound(f, i, j, cj, o) ==
    /\ f \in AsgOps /\ i \in Regs /\ j \in Regs /\ r[i].kind \in Writable /\ PatOK(KS({i, j})) /\ OpOK(f, KS({i, j}))
    /\ cj \in Cats
    /\ DivOK(KS({i, j}), AsgBase[f], r[i].has /\ r[j].has /\ ~IsNA(r[i].val), r[j].val)
    /\ Legal(o, WCompound(f, i, j))
    /\ Do("Compound", [f |-> f, i |-> i, j |-> j, cj |-> cj], o,
          [r EXCEPT ![i] = [kind |-> @.kind, has |-> o.has, val |-> o.val]])

(* select(c, x, y): missing when the condition is missing, otherwise the chosen branch unchanged. *)
(* c = [lifted, has, val]: a plain bool (lifted = FALSE, has = TRUE) or an xoptional<bool>.       *)
WSelect(c, i, j) == LET b == IF c.val THEN r[i] ELSE r[j]  p == c.has /\ b.has IN
    Loose(IF IsD(KS({i, j})) THEN "dopt" ELSE "opt", p, b.val, p)
Select(c, i, j, d, o) ==
    /\ i \in Regs /\ j \in Regs /\ d \in {0} \cup Regs /\ (d # 0 => ~IsD(KS({i, j})))
    /\ KS({i, j}) \subseteq OptKinds \cup (PlainKinds \ MixKinds) /\ (IsD(KS({i, j})) => KS({i, j}) \subseteq DKinds)
    /\ IF c.lifted THEN KS({i, j}) # {"int"} ELSE c.has /\ HasOpt(KS({i, j}))
    /\ Legal(o, WSelect(c, i, j))
    /\ DoS("Select", [c |-> c, i |-> i, j |-> j, d |-> d], o, d)

(* x.value_or(dv): the value when present, the default otherwise. *)
WValueOr(i, dv) == Loose(IF r[i].kind \in DKinds THEN "dplain" ELSE "plain", TRUE, IF r[i].has THEN r[i].val ELSE dv, TRUE)
(* form: on the object itself (lv), on an rvalue (rv), on a const rvalue (crv): the two overloads of value_or *)
ValueOr(i, dv, form, o) ==
    /\ i \in Regs /\ r[i].kind \in OptKinds /\ dv \in NumFor(r[i].kind) /\ form \in {"lv", "rv", "crv"}
    /\ Legal(o, WValueOr(i, dv))
    /\ Do("ValueOr", [i |-> i, dv |-> dv, form |-> form], o, r)

----------------------------------------------------------------------------
(* Construction and the accessors: what "an operand that is present / missing and holds v" means.  A       *)
(* register built from (v, flag) through the two-argument constructor reads back flag and v through           *)
(* has_value() / visible() / value(); for a reference closure these are the caller's cells.  The other         *)
(* housekeeping calls (further constructors and factories, free and rvalue accessors, conversion, streaming,  *)
(* plain assignment, swap) follow the documented behaviour of the two classes; the statement of the property   *)
(* does not name them and the runner reports a deviation there as advisory (MODEL-DRIFT).                      *)

LoadHows == {"plain", "int", "opt2", "opt1", "optdef", "missing", "optional_vv", "optref", "optional_rr", "optcr", "optbr",
             "optvr", "optional_rv", "masked2", "masked1", "maskeddef", "maskedf", "masked_value1", "masked_value2",
             "mref", "masked_value_rr", "dplain", "dopt2", "dmasked2", "mo2", "po2",
             "opt_from_ref", "opt_from_cref", "opt_from_vr", "opt_from_int", "opt_from_intmv"}
LoadKind(how) ==
    CASE how \in {"plain", "int", "dplain"} -> how
      [] how = "dopt2" -> "dopt"
      [] how = "dmasked2" -> "dmasked"
      [] how = "mo2" -> "mo"
      [] how = "po2" -> "po"
      [] how \in {"opt2", "opt1", "optdef", "missing", "optional_vv", "opt_from_ref", "opt_from_cref", "opt_from_vr",
                  "opt_from_int", "opt_from_intmv"} -> "opt"
      [] how \in {"optref", "optional_rr"} -> "optref"
      [] how = "optcr" -> "optcr"
      [] how = "optbr" -> "optbr"
      [] how \in {"optvr", "optional_rv"} -> "optvr"
      [] how \in {"masked2", "masked1", "maskeddef", "maskedf", "masked_value1", "masked_value2"} -> "masked"
      [] how \in {"mref", "masked_value_rr"} -> "mref"
\* value-only constructors give a present value; default-constructed xoptional / missing<T>() / masked<T>() are
\* missing with an unspecified value; a default-constructed xmasked_value is left unconstrained.  The value
\* stored behind a missing flag is kept (it is the caller's cell for reference closures); for one of the
\* harness's remarkable doubles the spec takes the value as recorded.
LoadArgs(how) == IF LoadKind(how) \in DKinds THEN DArg \cup DTabIdx ELSE NumFor(LoadKind(how))
WLoad(how, has, v) ==
    CASE how \in {"plain", "int", "dplain", "opt1", "masked1", "masked_value1", "po2"} -> Loose(LoadKind(how), TRUE, v, v \notin DTabIdx)
      [] how \in {"optdef", "missing", "maskedf"} -> Loose(LoadKind(how), FALSE, 0, FALSE)
      [] how = "maskeddef" -> Loose("masked", TRUE, 0, FALSE)
      [] OTHER -> Loose(LoadKind(how), has, v, v \notin DTabIdx)
Load(i, how, has, v, o) ==
    /\ i \in Regs /\ how \in LoadHows /\ has \in BOOLEAN /\ v \in LoadArgs(how)
    /\ IF how = "maskeddef" THEN o.kind = "masked" /\ o.val \in (-M)..M /\ o.d \in 0..MaxD
                            ELSE Legal(o, WLoad(how, has, v))
    /\ DoA("Load", [i |-> i, how |-> how, has |-> has, v |-> v], o,
           [r EXCEPT ![i] = [kind |-> o.kind, has |-> o.has, val |-> o.val]], ReVa(i), ReFa(i))

(* register i becomes a reference closure of kind `how` over the cells register j closes over: the value cell, *)
(* and the flag cell too unless the new closure holds its flag by value (optvr: flag = has)                     *)
AliasHows == {"optref", "optcr", "optvr", "mref"}
Alias(i, how, j, has, o) ==
    /\ i \in Regs /\ j \in Regs /\ i # j /\ how \in AliasHows /\ has \in BOOLEAN
    /\ r[j].kind \in (IF how = "optvr" THEN ValRef ELSE FlagRef \ BitFlag)
    /\ LET h == IF how = "optvr" THEN has ELSE r[j].has IN
       /\ Legal(o, Loose(how, h, r[j].val, TRUE))
       /\ DoA("Alias", [i |-> i, how |-> how, j |-> j, has |-> has], o,
              [r EXCEPT ![i] = [kind |-> how, has |-> h, val |-> r[j].val]],
              [va EXCEPT ![i] = va[j]],
              IF how = "optvr" THEN ReFa(i) ELSE [fa EXCEPT ![i] = fa[j]])

(* has_value()/visible() and value(), through members, free functions, rvalue overloads, conversion, operator<< *)
Get(i, path, o) ==
    /\ i \in Regs
    /\ \/ path = "member" /\ LiftedK(r[i].kind)
       \/ path \in {"rvalue", "stream"} /\ LiftedK(r[i].kind) /\ r[i].kind \notin MixKinds
       \/ path = "free" /\ r[i].kind \in OptKinds \cup {"plain"}
       \/ path = "conv" /\ r[i].kind \in MskKinds \ MixKinds
    /\ Legal(o, Loose("get", r[i].has, r[i].val, path # "stream" \/ r[i].has))      \* (a missing value prints as a word)
    /\ Do("Get", [i |-> i, path |-> path], o, r)

SetFlag(i, b, o) ==
    /\ i \in Regs /\ r[i].kind \in Writable /\ b \in BOOLEAN /\ Legal(o, VoidW)
    /\ Do("SetFlag", [i |-> i, b |-> b], o, [r EXCEPT ![i].has = b])
SetVal(i, v, o) ==
    /\ i \in Regs /\ r[i].kind \notin {"optcr", "mo", "po"} /\ v \in NumFor(r[i].kind) /\ Legal(o, VoidW)
    /\ Do("SetVal", [i |-> i, v |-> v], o, [r EXCEPT ![i].val = v])
(* the caller writes the referents of a reference closure directly *)
Poke(i, has, v, o) ==
    /\ i \in Regs /\ r[i].kind \in ValRef /\ has \in BOOLEAN /\ v \in (-M)..M /\ Legal(o, VoidW)
    /\ Do("Poke", [i |-> i, has |-> has, v |-> v], o,
          [r EXCEPT ![i] = [kind |-> @.kind, has |-> IF @.kind \in FlagRef THEN has ELSE @.has, val |-> v]])

(* x = v: an xoptional becomes present; a masked xmasked_value ignores the assignment *)
AssignVal(i, v, o) ==
    /\ i \in Regs /\ r[i].kind \in Writable \ MixKinds /\ v \in NumFor(r[i].kind) /\ Legal(o, VoidW)
    /\ Do("AssignVal", [i |-> i, v |-> v], o,
          [r EXCEPT ![i] = IF @.kind \in OptKinds THEN [kind |-> @.kind, has |-> TRUE, val |-> v]
                           ELSE IF @.has THEN [kind |-> @.kind, has |-> TRUE, val |-> v] ELSE @])
(* x = y (same family).  Closures with reference members are not copy-assignable from their own type. *)
Assignable(a, b) == ~(a = b /\ a \in ValRef)
AssignReg(i, j, o) ==
    /\ i \in Regs /\ j \in Regs /\ r[i].kind \in Writable /\ LiftedK(r[j].kind) /\ ~IsMix(KS({i, j}))
    /\ (r[i].kind \in OptKinds) = (r[j].kind \in OptKinds) /\ Assignable(r[i].kind, r[j].kind)
    /\ (r[i].kind \in DKinds) = (r[j].kind \in DKinds)
    /\ Legal(o, VoidW)
    /\ LET x == r[i]  y == r[j]
           nh == IF x.kind \in OptKinds \/ x.kind = y.kind THEN y.has ELSE x.has /\ y.has
           nv == IF x.kind \in OptKinds \/ x.kind = y.kind THEN y.val ELSE IF nh THEN y.val ELSE x.val
       IN Do("AssignReg", [i |-> i, j |-> j], o, [r EXCEPT ![i] = [kind |-> x.kind, has |-> nh, val |-> nv]])
Swap(i, j, how, o) ==
    /\ i \in Regs /\ j \in Regs /\ r[i].kind = r[j].kind /\ r[i].kind \in Writable \ MixKinds
    /\ how \in {"member", "free"} /\ (how = "free" => r[i].kind \in MskKinds) /\ Legal(o, VoidW)
    /\ Do("Swap", [i |-> i, j |-> j, how |-> how], o,
          [r EXCEPT ![i] = [kind |-> @.kind, has |-> r[j].has, val |-> r[j].val],
                    ![j] = [kind |-> @.kind, has |-> r[i].has, val |-> r[i].val]])

----------------------------------------------------------------------------
(* What the harness reports about every register after each call.           *)
MinOf(S) == CHOOSE m \in S : \A n \in S : m <= n
AV(i) == IF r[i].kind \in ValRef THEN MinOf({k \in Regs : SharesV(r, va, i, k)}) ELSE i
AF(i) == IF r[i].kind \in FlagRef THEN MinOf({k \in Regs : SharesF(r, fa, i, k)}) ELSE i
Proj(i) == LET x == r[i] IN
    [kind |-> x.kind, has |-> x.has, val |-> x.val,
     ref  |-> [has |-> IF x.kind \in FlagRef THEN x.has ELSE FALSE,      \* the caller's cells behind a
               val |-> IF x.kind \in ValRef THEN x.val ELSE 0,           \* reference closure, read directly
               g   |-> TRUE],                                            \* (proxy flag: the neighbouring bits are untouched)
     al   |-> [v |-> AV(i), f |-> AF(i)]]                                \* the lowest register closing over the same cell
ProjAll == [r |-> [i \in Regs |-> Proj(i)], evals |-> evals]

----------------------------------------------------------------------------
(* Model checking.                                                          *)
PlainZero == [kind |-> "plain", has |-> TRUE, val |-> 0]
RegVals == {[kind |-> k, has |-> h, val |-> v] : k \in MCKinds, h \in BOOLEAN, v \in Vals}
InitRegs == {x \in RegVals : (x.kind \in PlainKinds => x.has) /\ x.val \in (IF x.kind \in DKinds THEN DArg \cup DTabIdx ELSE NumFor(x.kind))}
Ident == [i \in 1..NReg |-> i]
InitGhost ==
    /\ evals = 0
    /\ last = [op |-> "Init", a |-> [z |-> 0], res |-> Canon0(VoidW)]
    /\ pre = [r |-> r, va |-> va, fa |-> fa]
(* register 2 closes over the cells of register 1: the value cell only (it holds its flag by value) or both *)
Init ==
    /\ r \in [1..NReg -> InitRegs]
    /\ \/ va = Ident /\ fa = Ident
       \/ /\ AliasInit /\ NReg >= 2
          /\ r[1].kind \in ValRef /\ r[2].kind \in ValRef /\ r[1].val = r[2].val
          /\ va = [Ident EXCEPT ![2] = 1]
          /\ \/ r[2].kind = "optvr" /\ fa = Ident
             \/ r[2].kind \in FlagRef /\ r[1].kind \in FlagRef /\ r[1].has = r[2].has /\ fa = [Ident EXCEPT ![2] = 1]
    /\ InitGhost

F(S) == S \cap MCFuns
Conds == {[lifted |-> FALSE, has |-> TRUE, val |-> b] : b \in BOOLEAN}
             \cup {[lifted |-> TRUE, has |-> h, val |-> b] : h \in BOOLEAN, b \in BOOLEAN}
Idle(S) == \A i \in S : i \in Regs => r[i] = PlainZero     \* canonical form: unused registers are plain 0
I1 == IF Canonical THEN {1} ELSE Regs
I2 == IF Canonical THEN {2} ELSE Regs
I3 == IF Canonical THEN {3} ELSE Regs
D0 == IF Canonical THEN {0} ELSE 0..NReg
C(S) == Canonical => Idle(S)

(* the single-call enumerations (Canonical, AliasInit) expand initial states only *)
G == (Canonical \/ AliasInit) => last.op = "Init"

NUnary == G /\ "unary" \in Classes /\ C({2, 3}) /\ \E f \in F(UnOps \cup UFuns \cup UPreds), i \in I1, d \in D0 :
    LiftedK(r[i].kind) /\ OpOK(f, KS({i})) /\ Unary(f, i, d, Canon(WUnary(f, i)))
NBinary == G /\ "binary" \in Classes /\ C({3}) /\ \E f \in F(BinOps \cup BFuns), i \in I1, j \in I2, d \in D0 :
    PatOK(KS({i, j})) /\ OpOK(f, KS({i, j})) /\ Binary(f, i, j, d, Canon(WBinary(f, i, j)))
NTernary == G /\ "ternary" \in Classes /\ \E f \in F(TFuns), i \in I1, j \in I2, k \in I3, d \in D0 :
    PatOK(KS({i, j, k})) /\ OpOK(f, KS({i, j, k})) /\ Ternary(f, i, j, k, d, Canon(WTernary(f, i, j, k)))
NCompare == G /\ "compare" \in Classes /\ C({3}) /\ \E f \in F(CmpOps), i \in I1, j \in I2 : Compare(f, i, j, Canon0(WCompare(f, i, j)))
NCompound == G /\ "compound" \in Classes /\ C({3}) /\ \E f \in F(AsgOps), i \in I1, j \in I2, cj \in MCCats :
    (IF Canonical THEN TRUE ELSE i # j) /\ PatOK(KS({i, j})) /\ OpOK(f, KS({i, j})) /\ Compound(f, i, j, cj, Canon(WCompound(f, i, j)))
NCompoundSelf == G /\ "compound" \in Classes /\ C({2, 3}) /\ \E f \in F(AsgOps), i \in I1, cj \in MCCats :          \* x op= x
    LiftedK(r[i].kind) /\ OpOK(f, KS({i})) /\ Compound(f, i, i, cj, Canon(WCompound(f, i, i)))
NSelect == G /\ "select" \in Classes /\ C({3}) /\ \E c \in Conds, i \in I1, j \in I2, d \in D0 : Select(c, i, j, d, Canon0(WSelect(c, i, j)))
NValueOr == G /\ "valueor" \in Classes /\ C({2, 3}) /\ \E i \in I1, dv \in Vals, form \in {"lv", "rv", "crv"} : r[i].kind \in OptKinds /\ ValueOr(i, dv, form, Canon0(WValueOr(i, dv)))
NGet == G /\ "access" \in Classes /\ C({2, 3}) /\ \E i \in I1, p \in {"member", "free", "rvalue", "conv", "stream"} :
    Get(i, p, Canon0(Loose("get", r[i].has, r[i].val, TRUE)))
NSetFlag == G /\ "access" \in Classes /\ C({2, 3}) /\ \E i \in I1, b \in BOOLEAN : SetFlag(i, b, Canon0(VoidW))
NSetVal == G /\ "access" \in Classes /\ C({2, 3}) /\ \E i \in I1, v \in Vals : SetVal(i, v, Canon0(VoidW))
NAssignVal == G /\ "access" \in Classes /\ C({2, 3}) /\ \E i \in I1, v \in Vals : AssignVal(i, v, Canon0(VoidW))
NPoke == G /\ "access" \in Classes /\ C({2, 3}) /\ \E i \in I1, v \in Vals, h \in BOOLEAN : Poke(i, h, v, Canon0(VoidW))
NAssignReg == G /\ "assign" \in Classes /\ C({3}) /\ \E i \in I1, j \in I2 : AssignReg(i, j, Canon0(VoidW))
NSwap == G /\ "assign" \in Classes /\ C({3}) /\ \E i \in I1, j \in I2, how \in {"member", "free"} : Swap(i, j, how, Canon0(VoidW))
NLoad == G /\ "load" \in Classes /\ C({1, 2, 3}) /\ \E i \in I1, how \in LoadHows \cap MCHows, h \in BOOLEAN, v \in Vals :
    /\ how \in {"plain", "int", "dplain", "opt1", "masked1", "masked_value1", "optdef", "missing", "maskedf", "maskeddef", "po2"} => h
    /\ how \in {"optdef", "missing", "maskedf", "maskeddef"} => v = 0
    /\ Load(i, how, h, v, IF how = "maskeddef" THEN [kind |-> "masked", has |-> TRUE, val |-> 0, d |-> 0, u |-> 0]
                                               ELSE Canon0(WLoad(how, h, v)))
NAlias == G /\ ("load" \in Classes \/ "alias" \in Classes) /\ ~Canonical /\ \E i \in Regs, j \in Regs, how \in AliasHows, h \in BOOLEAN :
    /\ how # "optvr" => h
    /\ i # j /\ r[j].kind \in (IF how = "optvr" THEN ValRef ELSE FlagRef \ BitFlag)
    /\ Alias(i, how, j, h, Canon0(Loose(how, IF how = "optvr" THEN h ELSE r[j].has, r[j].val, TRUE)))

Next == \/ NUnary \/ NBinary \/ NTernary \/ NCompare \/ NCompound \/ NCompoundSelf \/ NSelect \/ NValueOr
        \/ NGet \/ NSetFlag \/ NSetVal \/ NAssignVal \/ NPoke \/ NAssignReg \/ NSwap \/ NLoad \/ NAlias

Spec == Init /\ [][Next]_vars

(* simulation walks start from three plain zeros and build their operands with Load *)
SimInit ==
    /\ r = [i \in 1..NReg |-> PlainZero]
    /\ va = Ident /\ fa = Ident
    /\ InitGhost
SimSpec == SimInit /\ [][Next]_vars

(* S->C: the single-call enumeration: only transitions out of initial states are allowed, and every such *)
(* transition is written out: the registers before (with the cells they share), and the call (an        *)
(* ACTION_CONSTRAINT of the s2c configs)                                                                  *)
Emit == /\ last.op = "Init"
        /\ EmitOn => PrintT("@E@" \o ToJson([p |-> [i \in Regs |-> pre'.r[i]], va |-> pre'.va, fa |-> pre'.fa,
                                            l |-> [op |-> last'.op, a |-> last'.a]]))
(* multi-step exploration: keep the value space small *)
Small == \A i \in Regs : r[i].val \in -6..6
Smaller == \A i \in Regs : r[i].val \in -2..3
Tiny == \A i \in Regs : r[i].val \in {-2, 0, 2}

----------------------------------------------------------------------------
(* Theorems of the specification itself (they guard the oracle).            *)
TypeOK ==
    /\ \A i \in Regs : /\ r[i].kind \in Kinds /\ r[i].has \in BOOLEAN /\ InNum(r[i].val)
                       /\ (r[i].kind \notin DKinds \cup MixKinds => r[i].val \in (-M)..M)
                       /\ (r[i].kind \in MixKinds => r[i].val \in (-M)..M \cup {NAv})
                       /\ (r[i].kind \in PlainKinds => r[i].has)
                       /\ va[i] \in Regs /\ fa[i] \in Regs
    /\ evals \in Nat

(* registers that close over one cell always show the same content *)
AliasCoherent == \A i \in Regs, j \in Regs :
    /\ SharesV(r, va, i, j) => r[i].val = r[j].val
    /\ SharesF(r, fa, i, j) => r[i].has = r[j].has
(* registers that own their storage share it with nobody: a call changes them only if it names them *)
OwnersKept == [][\A k \in Regs : (r[k].kind \notin ValRef /\ r'[k] # r[k]) =>
                    (k \in {IF "i" \in DOMAIN last'.a THEN last'.a.i ELSE 0, IF "j" \in DOMAIN last'.a THEN last'.a.j ELSE 0,
                            IF "d" \in DOMAIN last'.a THEN last'.a.d ELSE 0})]_vars

(* == is symmetric, a register equals itself, != is the negation, for every pair of registers *)
EqualityLaws == \A i \in Regs, j \in Regs :
    /\ EqRegs(r[i], r[j]) = EqRegs(r[j], r[i])
    /\ EqRegs(r[i], r[i])
    /\ WCompare("ne", i, j).val = 1 - WCompare("eq", i, j).val
    /\ (~r[i].has /\ ~r[j].has) => EqRegs(r[i], r[j])
    /\ (r[i].has # r[j].has) => ~EqRegs(r[i], r[j])

Operands(l) ==
    CASE l.op = "Unary"    -> {l.a.i}
      [] l.op \in {"Binary", "Compound", "Compare"} -> {l.a.i, l.a.j}
      [] l.op = "Ternary"  -> {l.a.i, l.a.j, l.a.k}
      [] OTHER -> {}
LiftedCalls == {"Unary", "Binary", "Ternary", "Compound"}
(* the result is present exactly when every operand is present *)
Propagation == [][last'.op \in LiftedCalls => (last'.res.has = \A i \in Operands(last') : r[i].has)]_vars
(* binary and ternary operators, compound assignments and lifted functions never evaluate on a missing operand *)
NeverEvaluated == [][(/\ last'.op \in LiftedCalls
                      /\ ~(last'.op = "Unary" /\ last'.a.f \in UnOps)
                      /\ \E i \in Operands(last') : ~r[i].has \/ IsNA(r[i].val)) => evals' = evals]_vars
(* a missing divisor (even zero) leaves the target of /= and %= untouched *)
DivTargetKept == [][(last'.op = "Compound" /\ last'.a.f \in {"div_eq", "mod_eq"} /\ ~last'.res.has)
                       => r'[last'.a.i].val = r[last'.a.i].val]_vars
(* select and value_or *)
SelectLaw == [][last'.op = "Select" =>
                  LET c == last'.a.c  b == IF c.val THEN r[last'.a.i] ELSE r[last'.a.j] IN
                  /\ ~c.has => ~last'.res.has
                  /\ c.has => last'.res.has = b.has /\ (b.has => last'.res.val = b.val)]_vars
ValueOrLaw == [][last'.op = "ValueOr" =>
                  last'.res.val = IF r[last'.a.i].has THEN r[last'.a.i].val ELSE last'.a.dv]_vars
(* calls that only compute leave every register alone (unless the result is stored) *)
OperandsKept == [][(last'.op \in {"Unary", "Binary", "Ternary", "Select"} /\ last'.a.d = 0) \/ last'.op \in {"Compare", "ValueOr", "Get"}
                      => r' = r]_vars
=============================================================================

SPECIFICATION Spec
CONSTANTS
  P <- LP64
  MaxPack = 2
  MaxArgs = 3
INVARIANT TypeOK

SPECIFICATION Spec
CONSTANTS
  GenText <- QuickText
  GenMaxText = 5
  GenBytes <- QuickBytes
  GenMaxBytes = 3
INVARIANT Inv

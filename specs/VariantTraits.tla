--------------------------- MODULE VariantTraits ---------------------------
(***************************************************************************)
(* Compile-time contract of xtl::variant for C05, as tables that TLC       *)
(* enumerates and checks/c05.py turns into static_asserts / a small probe  *)
(* program compiled against the tree under test BEFORE the conformance     *)
(* driver is built.  Written from [variant.ctor], [variant.assign],        *)
(* [variant.swap], [variant.get], [over.ics.rank] of the C++ standard.     *)
(*                                                                         *)
(* 1. Traits of variant<S> as a function of the traits of the alternatives *)
(*    (which special members exist, which are noexcept, which are trivial).*)
(* 2. Which alternative the converting constructor / assignment selects    *)
(*    for an argument type: overload resolution over the imaginary         *)
(*    functions FUN(T_i).  Where C++17 as published and the later defect   *)
(*    report P0608 differ, both answers are allowed.                       *)
(* 3. The result type of get / get_if / xget for every value category.     *)
(***************************************************************************)
EXTENDS Integers, Sequences, FiniteSets, TLC, Json

----------------------------------------------------------------------------
(* 1. alternative kinds (fixtures of the probe program) and their own traits *)
ClassKinds == {"int", "Triv", "NA", "TA", "NT", "TM", "MO", "NDC", "TD"}
(* int: builtin; Triv: trivially copyable struct; NA: user-provided special members, all noexcept;      *)
(* NT: copy may throw, move noexcept; TM: copy and move may throw; MO: move-only (noexcept);            *)
(* NDC: as NA but no default constructor; TD: as NA but the default constructor may throw;              *)
(* TA: as NA but with DEFAULTED (trivial) assignment operators next to user-provided constructors and    *)
(* destructor - a variant over it must still construct / destroy when it assigns across alternatives    *)
Trivial(k)          == k \in {"int", "Triv"}
DefaultCtor(k)      == k # "NDC"
NothrowDefault(k)   == k \notin {"NDC", "TD"}
CopyCtor(k)         == k # "MO"
NothrowCopy(k)      == k \in {"int", "Triv", "NA", "TA", "NDC", "TD", "TS", "MA"}
(* round 3: kinds on which "nothrow move" and "nothrow swap" differ ([variant.swap]: noexcept iff every alternative is BOTH  *)
(* nothrow move constructible AND nothrow swappable).  SW: a pre-C++11 style class - copy constructor and copy assignment  *)
(* that may throw, no move members, and a noexcept ADL swap; TS: everything noexcept except its ADL swap.                  *)
(* round 4: kinds on which the exception specifications of the move CONSTRUCTOR and of the move ASSIGNMENT differ                *)
(* ([variant.assign]: operator=(variant&&) is noexcept iff every alternative is nothrow move constructible AND nothrow move      *)
(* assignable; [variant.ctor]: variant(variant&&) looks at the constructors only).  MA: everything noexcept except the move      *)
(* assignment; MC: copy / move constructors may throw, both assignments are noexcept.  Neither has an ADL swap: std::swap<T> is   *)
(* noexcept iff T is nothrow move constructible and nothrow move assignable.                                                     *)
ExtraKinds          == {"SW", "TS", "MA", "MC"}
NothrowMove(k)      == k \notin {"TM", "SW", "MC"}       \* is_nothrow_move_constructible<T>
NothrowMoveAssign(k) == k \notin {"TM", "SW", "MA"}      \* is_nothrow_move_assignable<T>
NothrowSwap(k)      == k \notin {"TM", "TS", "MA", "MC"}  \* is_nothrow_swappable<T>

AltLists == {<<a>> : a \in ClassKinds} \cup {<<a, b>> : a, b \in ClassKinds}
            \cup {<<"int", "NT", "TM">>, <<"Triv", "int", "Triv">>, <<"NA", "MO", "NT">>, <<"TD", "NT", "int">>}
            \cup {<<a>> : a \in ExtraKinds} \cup {<<"int", "SW">>, <<"SW", "NT">>, <<"TS", "int">>, <<"NA", "TS">>, <<"SW", "TS">>, <<"int", "NA", "SW">>}
            \cup {<<"int", "MA">>, <<"MA", "NT">>, <<"MC", "int">>, <<"NA", "MC">>, <<"MA", "MC">>, <<"int", "NA", "MA">>, <<"SW", "MA">>}
All(S, P(_)) == \A i \in 1..Len(S) : P(S[i])

(* [variant.ctor] [variant.assign] [variant.swap]: value of each trait of variant<S>.  "dir" says how a *)
(* deviation is judged: "must" - both directions violate the property's premises (an operation the      *)
(* property quantifies over does not exist / a throwing element operation would terminate the program); *)
(* "nothrow" - claiming noexcept where an alternative may throw is a violation, the converse is only    *)
(* conservative; "trivial" - a special member claimed trivial although an alternative's own constructor, *)
(* assignment or destructor is not would bypass that alternative's lifetime (violation); not being       *)
(* trivial where it could be is only a missed optimisation.                                              *)
TraitRows(S) ==
    { [trait |-> "default_constructible",        want |-> DefaultCtor(S[1]),                    dir |-> "must"],
      [trait |-> "nothrow_default_constructible", want |-> NothrowDefault(S[1]),                 dir |-> "nothrow"],
      [trait |-> "copy_constructible",            want |-> All(S, CopyCtor),                     dir |-> "must"],
      [trait |-> "move_constructible",            want |-> TRUE,                                 dir |-> "must"],
      [trait |-> "nothrow_move_constructible",    want |-> All(S, NothrowMove),                  dir |-> "nothrow"],
      [trait |-> "copy_assignable",               want |-> All(S, CopyCtor),                     dir |-> "must"],
      [trait |-> "move_assignable",               want |-> TRUE,                                 dir |-> "must"],
      [trait |-> "nothrow_move_assignable",       want |-> All(S, NothrowMove) /\ All(S, NothrowMoveAssign), dir |-> "nothrow"],
      [trait |-> "nothrow_swappable",             want |-> All(S, NothrowMove) /\ All(S, NothrowSwap), dir |-> "nothrow"],
      [trait |-> "nothrow_destructible",          want |-> TRUE,                                 dir |-> "must"],
      [trait |-> "trivially_copy_constructible",  want |-> All(S, Trivial),                      dir |-> "trivial"],
      [trait |-> "trivially_move_constructible",  want |-> All(S, Trivial),                      dir |-> "trivial"],
      [trait |-> "trivially_copy_assignable",     want |-> All(S, Trivial),                      dir |-> "trivial"],
      [trait |-> "trivially_move_assignable",     want |-> All(S, Trivial),                      dir |-> "trivial"],
      [trait |-> "trivially_destructible",        want |-> All(S, Trivial),                      dir |-> "trivial"] }

----------------------------------------------------------------------------
(* 2. converting constructor / assignment: FUN overload resolution *)
ArgKinds == {"int", "long", "char", "float", "double", "bool", "cstr", "string"}
ConvAlts == {"int", "long", "char", "float", "double", "bool", "string"}
Integral(k) == k \in {"int", "long", "char", "bool"}
Floating(k) == k \in {"float", "double"}
Arith(k)    == Integral(k) \/ Floating(k)

(* rank of the implicit conversion sequence from an rvalue of kind a to T of kind t ([over.ics.scs]):  *)
(* 0 exact, 1 promotion, 2 conversion, 3 conversion of a pointer to bool (worse than any other         *)
(* conversion, [over.ics.rank]/4), 4 user-defined, 9 none                                              *)
Rank(a, t) ==
    IF a = t THEN 0
    ELSE IF (a \in {"char", "bool"} /\ t = "int") \/ (a = "float" /\ t = "double") THEN 1
    ELSE IF Arith(a) /\ Arith(t) THEN 2
    ELSE IF a = "cstr" /\ t = "bool" THEN 3
    ELSE IF a = "cstr" /\ t = "string" THEN 4
    ELSE 9

Best(a, S, Viable(_)) ==
    LET cand == {i \in 1..Len(S) : Viable(i)}
        best == {i \in cand : \A j \in cand \ {i} : Rank(a, S[i]) < Rank(a, S[j])}
    IN IF Cardinality(best) = 1 THEN (CHOOSE i \in best : TRUE) - 1 ELSE -1       \* index, or -1: no converting constructor

(* C++17 as published: every T_i with an implicit conversion takes part *)
Cxx17(a, S) == Best(a, S, LAMBDA i : Rank(a, S[i]) < 9)
(* P0608: T_i takes part only if  T_i x[] = {arg}  is well formed (no narrowing) and, for bool, only from bool *)
Size(k) == CASE k = "bool" -> 1 [] k = "char" -> 2 [] k = "int" -> 3 [] k = "long" -> 4 [] k = "float" -> 5 [] k = "double" -> 6 [] OTHER -> 0
Narrowing(a, t) ==
    \/ Integral(a) /\ Integral(t) /\ Size(t) < Size(a)
    \/ Floating(a) /\ Floating(t) /\ Size(t) < Size(a)
    \/ Floating(a) /\ Integral(t)
    \/ Integral(a) /\ Floating(t)
P0608(a, S) == Best(a, S, LAMBDA i : /\ Rank(a, S[i]) < 9
                                     /\ ~(Arith(a) /\ Arith(S[i]) /\ Narrowing(a, S[i]))
                                     /\ (S[i] = "bool" => a = "bool"))
ConvLists == {<<a>> : a \in ConvAlts} \cup {<<a, b>> \in ConvAlts \X ConvAlts : a # b}
             \cup {<<"int", "double", "string">>, <<"string", "bool", "long">>, <<"char", "long", "float">>, <<"double", "string", "int">>}
ConvAllowed(a, S) == {Cxx17(a, S), P0608(a, S)}

----------------------------------------------------------------------------
(* 3. get<I>(v), get<T>(v), xget<T>(v): T with the value category and constness of v; get_if: pointer (to const) *)
Forms == {"l", "cl", "r", "cr"}          \* variant&, const variant&, variant&&, const variant&&
GetType(form) == CASE form = "l" -> "T&" [] form = "cl" -> "const T&" [] form = "r" -> "T&&" [] form = "cr" -> "const T&&"
GetIfType(c)  == IF c = 1 THEN "const T*" ELSE "T*"
(* closure-aware xget<T&> / xget<const T&> on a variant of closure wrappers: a reference to the wrapped object, *)
(* const when asked for or when the variant is const                                                         *)
XGetRefType(want, form) == IF want = "cref" \/ form \in {"cl", "cr"} THEN "const int&" ELSE "int&"

----------------------------------------------------------------------------
(* enumeration: one state per table row, printed as a JSON line *)
VARIABLES trow, crow, grow
TraitRowSet == UNION {{[t |-> "trait", S |-> S, trait |-> r.trait, want |-> r.want, dir |-> r.dir] : r \in TraitRows(S)} : S \in AltLists}
ConvRowSet  == {[t |-> "conv", S |-> S, arg |-> a, cxx17 |-> Cxx17(a, S), p0608 |-> P0608(a, S)] : S \in ConvLists, a \in ArgKinds}
G(t, form, by, alt, c, want, list, type) == [t |-> t, form |-> form, by |-> by, alt |-> alt, c |-> c, want |-> want, list |-> list, type |-> type]
GetRowSet   == {G("get", f, b, i, 0, "", 0, GetType(f)) : f \in Forms, b \in {"index", "type"}, i \in 0..3}
               \cup {G("get_if", "", b, i, c, "", 0, GetIfType(c)) : c \in {0, 1}, b \in {"index", "type"}, i \in 0..3}
               \cup {G("xget", f, "type", i, 0, "", 0, GetType(f)) : f \in Forms, i \in 0..3}
               \cup {G("xgetref", f, "", 0, 0, w, n, XGetRefType(w, f)) : w \in {"ref", "cref"}, f \in Forms, n \in {2, 3, 4}}
NoT == [t |-> "none", S |-> <<>>, trait |-> "", want |-> FALSE, dir |-> ""]
NoC == [t |-> "none", S |-> <<>>, arg |-> "", cxx17 |-> -1, p0608 |-> -1]
NoG == G("none", "", "", 0, 0, "", 0, "")

Init == \/ trow \in TraitRowSet /\ crow = NoC /\ grow = NoG
        \/ trow = NoT /\ crow \in ConvRowSet /\ grow = NoG
        \/ trow = NoT /\ crow = NoC /\ grow \in GetRowSet
Next == UNCHANGED <<trow, crow, grow>>
Spec == Init /\ [][Next]_<<trow, crow, grow>>

EmitRows == /\ trow.t = "none" \/ PrintT("@R@" \o ToJson(trow))
            /\ crow.t = "none" \/ PrintT("@R@" \o ToJson(crow))
            /\ grow.t = "none" \/ PrintT("@R@" \o ToJson(grow))

(* theorems of the tables themselves *)
(* a variant is nothrow-movable exactly if no alternative has a throwing move; trivially destructible only over trivial alternatives *)
TraitLaws == trow.t = "trait" =>
    /\ (trow.trait = "nothrow_move_constructible" => (trow.want <=> \A i \in 1..Len(trow.S) : trow.S[i] \notin {"TM", "SW", "MC"}))
    /\ (trow.trait = "nothrow_move_assignable" => (trow.want <=> \A i \in 1..Len(trow.S) : trow.S[i] \notin {"TM", "SW", "MC", "MA"}))
    /\ (trow.trait = "nothrow_swappable" => (trow.want <=> \A i \in 1..Len(trow.S) : trow.S[i] \notin {"TM", "SW", "TS", "MA", "MC"}))
    /\ ((trow.trait = "trivially_destructible" /\ trow.want) => \A i \in 1..Len(trow.S) : trow.S[i] \in {"int", "Triv"})
(* an argument of exactly an alternative's type selects that alternative, under both rules *)
ConvLaws == crow.t = "conv" =>
    /\ {crow.cxx17, crow.p0608} \subseteq -1..(Len(crow.S) - 1)
    /\ (\E i \in 1..Len(crow.S) : crow.S[i] = crow.arg) =>
          {crow.cxx17, crow.p0608} = {(CHOOSE i \in 1..Len(crow.S) : crow.S[i] = crow.arg) - 1}
=============================================================================

SPECIFICATION Spec
CONSTANTS
  Cfgs <- CfgsVecOnly
  MaxLen = 3
  Vals = {0, 1}
  ArrayFlagsMove = FALSE
  ObserveMoved = TRUE
CONSTRAINT SizeBound
VIEW absview
INVARIANTS Lockstep EqAgrees
PROPERTIES Refines

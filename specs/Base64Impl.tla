----------------------------- MODULE Base64Impl -----------------------------
(***************************************************************************)
(* L2 for C13: the bit accumulators of xtl/xbase64.hpp, transcribed from    *)
(* the code as a state machine, one action per step of the loops:           *)
(*                                                                          *)
(*  base64encode:  int val = 0, valb = -6;                                  *)
(*                 for c in input: val = (val << 8) + c; valb += 8;         *)
(*                      while (valb >= 0) { out += A[(val >> valb) & 0x3F]; *)
(*                                          valb -= 6; }                    *)
(*                 if (valb > -6) out += A[((val << 8) >> (valb + 8)) & 0x3F]; *)
(*                 while (out.size() % 4) out += '=';                       *)
(*  base64decode:  T[256] filled with -1, T[alphabet[i]] = i;               *)
(*                 int val = 0, valb = -8;                                  *)
(*                 for c in input: if (T[index(c)] == -1) break;            *)
(*                      val = (val << 6) + T[index(c)]; valb += 6;          *)
(*                      if (valb >= 0) { out += (val >> valb) & 0xFF;       *)
(*                                       valb -= 8; }                       *)
(*                                                                          *)
(* TLC checks, for every input of a finite universe, that the machine       *)
(* terminates with out = Base64!Encode(input) resp. DecodePrefix(input)     *)
(* (the L1 functions), that every table index is inside the table, and the  *)
(* accumulator-window invariant below.                                      *)
(*                                                                          *)
(* val is the C++ int exactly: its 32-bit two's complement pattern, kept as  *)
(* two 16-bit limbs <<hi, lo>> (TLC integers are 32 bit themselves).  `<<`   *)
(* drops what leaves the 32 bits (what g++ and clang++ do, and what C++20    *)
(* prescribes); `>> k` followed by a mask reads a bit field, which is the    *)
(* same for an arithmetic shift whatever the sign (Field).  The accumulator  *)
(* is never masked by the code, so from the 4th input byte (6th character)   *)
(* on it wraps: Refines/Progress hold nevertheless, because only bits below  *)
(* 14 are ever read (WindowInv).  By the letter of C++14 a left shift of a   *)
(* negative int, or one whose result does not fit unsigned int, is undefined *)
(* behaviour: the ghost ub records it (NoShiftUB is violated for inputs of 5 *)
(* bytes / 7 characters and more - an observation, not part of the property, *)
(* see Base64Impl_shiftub.cfg).                                              *)
(*                                                                          *)
(* IndexMode = "uchar": the table is indexed with the unsigned value of the *)
(* character (the repaired code).  IndexMode = "size_t_of_char": the        *)
(* pre-repair expression T[std::size_t(c)] with plain (signed) char: a byte *)
(* >= 0x80 becomes 2^64 - (256 - c), written here as the pair               *)
(* <<"huge", 256 - c>>; IndexInTable then fails (DESIGN.md section 9 #11).  *)
(***************************************************************************)
EXTENDS Naturals, Integers, Sequences, FiniteSets, TLC

CONSTANTS ByteReps, MaxLen, TextReps, MaxText, IndexMode,
          ReadMode      \* round 4: how the decoder walks its argument, see "reads" below

L1 == INSTANCE Base64

VARIABLES mode,    \* "enc" | "dec"
          input,   \* the argument
          pos,     \* next input position (1-based)
          val, valb, out,
          pc,      \* "loop" | "emit" | "pad" | "done"
          idx,     \* ghost: the last table index used by decode (or <<"none">>)
          ub,      \* ghost: a left shift so far was undefined behaviour by the letter of C++14
          rd,      \* ghost (round 4): the set of 0-based indices at which the argument string has been read so far
          scan     \* the length a pre-pass over the argument has arrived at (Len(input) when there is no pre-pass)
vars == <<mode, input, pos, val, valb, out, pc, idx, ub, rd, scan>>

StringsUpTo(A, n) == UNION {[1..k -> A] : k \in 0..n}

(* the decode table as the code builds it *)
Table == [c \in 0..255 |-> IF \E i \in 1..64 : L1!Alphabet[i] = c
                              THEN (CHOOSE i \in 1..64 : L1!Alphabet[i] = c) - 1
                              ELSE -1]
IndexOf(c) == IF IndexMode = "uchar" \/ c < 128 THEN <<"small", c>> ELSE <<"huge", 256 - c>>
Lookup(ix) == IF ix[1] = "small" THEN Table[ix[2]] ELSE -1      \* what an out-of-table read yields is unknowable; -1 is one possibility

Init == /\ \/ mode = "enc" /\ input \in StringsUpTo(ByteReps, MaxLen) /\ valb = -6
           \/ mode = "dec" /\ input \in StringsUpTo(TextReps, MaxText) /\ valb = -8
        /\ pos = 1 /\ val = <<0, 0>> /\ out = <<>> /\ idx = <<"none">> /\ ub = FALSE
        /\ rd = {} /\ scan = Len(input)
        /\ pc = IF mode = "dec" /\ ReadMode = "strip_trailing_pad" THEN "scan" ELSE "loop"

(* 32-bit int as <<hi, lo>> *)
Shl(v, k)      == <<(v[1] * (2 ^ k) + (v[2] \div (2 ^ (16 - k)))) % 65536, (v[2] * (2 ^ k)) % 65536>>      \* k <= 8
AddLow(v, c)   == <<v[1], v[2] + c>>                  \* after a shift by k the low k bits are 0 and c < 2^k: no carry
Field(v, k, w) == ((v[2] \div (2 ^ k)) + (v[1] % 256) * (2 ^ (16 - k))) % (2 ^ w)      \* (v >> k) & (2^w - 1) for k <= 15, k + w <= 24
ShlUB(v, k)    == v[1] >= 32768 \/ v[1] * (2 ^ k) >= 65536                              \* negative, or the result does not fit unsigned int

(* ---- encode *)
EncFeed == /\ mode = "enc" /\ pc = "loop" /\ pos <= Len(input)
           /\ val' = AddLow(Shl(val, 8), input[pos])
           /\ ub' = (ub \/ ShlUB(val, 8))
           /\ valb' = valb + 8
           /\ pc' = "emit"
           /\ rd' = rd \cup {pos - 1}
           /\ UNCHANGED <<mode, input, pos, out, idx, scan>>
EncEmit == /\ mode = "enc" /\ pc = "emit" /\ valb >= 0
           /\ out' = Append(out, L1!Alphabet[Field(val, valb, 6) + 1])
           /\ valb' = valb - 6
           /\ UNCHANGED <<mode, input, pos, val, pc, idx, ub, rd, scan>>
EncNext == /\ mode = "enc" /\ pc = "emit" /\ valb < 0
           /\ pos' = pos + 1 /\ pc' = "loop"
           /\ UNCHANGED <<mode, input, val, valb, out, idx, ub, rd, scan>>
EncTail == /\ mode = "enc" /\ pc = "loop" /\ pos > Len(input)
           /\ out' = IF valb > -6
                       THEN Append(out, L1!Alphabet[Field(Shl(val, 8), valb + 8, 6) + 1])
                       ELSE out
           /\ ub' = (ub \/ (valb > -6 /\ ShlUB(val, 8)))
           /\ pc' = "pad"
           /\ UNCHANGED <<mode, input, pos, val, valb, idx, rd, scan>>
EncPad  == /\ mode = "enc" /\ pc = "pad" /\ Len(out) % 4 # 0
           /\ out' = Append(out, L1!Pad)
           /\ UNCHANGED <<mode, input, pos, val, valb, pc, idx, ub, rd, scan>>
EncDone == /\ mode = "enc" /\ pc = "pad" /\ Len(out) % 4 = 0
           /\ pc' = "done"
           /\ UNCHANGED <<mode, input, pos, val, valb, out, idx, ub, rd, scan>>

(* ---- decode *)
(* "reads": the range-for of the code dereferences its iterator only while it differs from end(), i.e. it reads   *)
(* input[pos - 1] (0-based) under the guard pos <= Len(input): DecFeed / EncFeed add that index to rd.             *)
(* ReadMode = "forward" is the code.  ReadMode = "strip_trailing_pad" is a NEGATIVE CONTROL for ReadsInInput (like  *)
(* IndexMode = "size_t_of_char" for IndexInTable): a pre-pass `len = size(); while (input[len - 1] == '=') --len;`   *)
(* that sizes the result - with no lower bound it reads index -1 of the empty and of every all-padding text         *)
(* (Base64Impl_strippad.cfg: ReadsInInput must FAIL there).  What a read outside the string yields is unknowable;   *)
(* "not a padding character" is one possibility.                                                                  *)
DecScan == /\ mode = "dec" /\ pc = "scan"
           /\ LET i == scan - 1 IN
              /\ rd' = rd \cup {i}
              /\ IF i \in 0..(Len(input) - 1) /\ input[i + 1] = L1!Pad
                   THEN scan' = scan - 1 /\ pc' = pc
                   ELSE scan' = scan /\ pc' = "loop"
           /\ UNCHANGED <<mode, input, pos, val, valb, out, idx, ub>>
DecFeed == /\ mode = "dec" /\ pc = "loop" /\ pos <= Len(input)
           /\ LET ix == IndexOf(input[pos])
                  t  == Lookup(ix) IN
              /\ idx' = ix
              /\ rd' = rd \cup {pos - 1}
              /\ IF t = -1
                   THEN pc' = "done" /\ UNCHANGED <<pos, val, valb, out, ub>>
                   ELSE LET v  == AddLow(Shl(val, 6), t)
                            vb == valb + 6 IN
                        /\ val' = v
                        /\ ub' = (ub \/ ShlUB(val, 6))
                        /\ pos' = pos + 1
                        /\ pc' = "loop"
                        /\ IF vb >= 0
                             THEN out' = Append(out, Field(v, vb, 8)) /\ valb' = vb - 8
                             ELSE out' = out /\ valb' = vb
           /\ UNCHANGED <<mode, input, scan>>
DecEnd  == /\ mode = "dec" /\ pc = "loop" /\ pos > Len(input)
           /\ pc' = "done"
           /\ UNCHANGED <<mode, input, pos, val, valb, out, idx, ub, rd, scan>>

Next == EncFeed \/ EncEmit \/ EncNext \/ EncTail \/ EncPad \/ EncDone \/ DecScan \/ DecFeed \/ DecEnd
Spec == Init /\ [][Next]_vars

----------------------------------------------------------------------------
(* L2 computes the L1 function *)
Refines == pc = "done" =>
              out = IF mode = "enc" THEN L1!Encode(input) ELSE L1!DecodePrefix(input)

(* stronger, at every loop head: the output so far is the L1 output of the consumed prefix *)
Progress == pc = "loop" =>
              IF mode = "enc"
                THEN LET e == L1!Encode(input) IN
                     /\ Len(out) = (8 * (pos - 1)) \div 6
                     /\ \A i \in 1..Len(out) : out[i] = e[i]
                ELSE out = L1!DecodePrefix(SubSeq(input, 1, pos - 1))

(* "never indexes outside its lookup table" *)
IndexInTable == idx[1] # "huge"

(* round 4 - "never indexes outside ... the input": every index at which the argument is read is one of its       *)
(* characters, for EVERY input of the universe - the empty one, the all-padding ones and the ones that end in       *)
(* padding included (InputClasses below has TLC count them).                                                       *)
ReadsInInput == rd \subseteq 0..(Len(input) - 1)
(* ... and the walk is the one the statement describes: at every loop head exactly the consumed prefix has been     *)
(* read; when the decoder is done it has read the leading alphabet run and the one character that ended it, nothing *)
(* behind it ("stops at the first other character"); the encoder has read every byte                               *)
ReadsPrefix  == /\ pc = "loop" => rd = 0..(pos - 2)
                /\ pc = "done" /\ mode = "dec" =>
                      LET n == L1!AlphaRun(input) IN rd = 0..((IF n < Len(input) THEN n + 1 ELSE n) - 1)
                /\ pc = "done" /\ mode = "enc" => rd = 0..(Len(input) - 1)
(* the degenerate decoder arguments the read-index invariant is about; TLC must meet each class: at start-up it     *)
(* prints how many decoder arguments of the universe fall into each (lines <<"@CLASS@", class, count>>, read by      *)
(* checks/c13.py; a count of 0 for a class is a machinery error there)                                              *)
InputClass(t) == IF Len(t) = 0 THEN "empty"
                 ELSE IF \A k \in 1..Len(t) : t[k] = L1!Pad THEN "all-padding"
                 ELSE IF t[Len(t)] = L1!Pad THEN "ends-in-padding"
                 ELSE IF L1!AlphaRun(t) = Len(t) THEN "all-alphabet"
                 ELSE "other"
InputClasses == {"empty", "all-padding", "ends-in-padding", "all-alphabet", "other"}
ASSUME \A c \in InputClasses :
          PrintT(<<"@CLASS@", c, Cardinality({t \in StringsUpTo(TextReps, MaxText) : InputClass(t) = c})>>)

(* only bits 0..13 of the accumulator are ever read (Field(val, valb, 6 or 8) with these bounds on valb), so what  *)
(* happens to the bits that leave the int on the left never matters                                              *)
WindowInv == /\ mode = "enc" => valb \in -6..6
             /\ mode = "dec" => valb \in -8..4
             /\ val \in (0..65535) \X (0..65535)
(* by the letter of C++14 (not of C++20, not of what g++/clang++ document) - see the header comment *)
NoShiftUB == ~ub

Terminates == <>(pc = "done")
FairSpec == Spec /\ WF_vars(Next)

BoundaryBytes == {0, 1, 63, 64, 127, 128, 191, 192, 254, 255}
BoundaryText  == {65, 47, 43, 122, 57, 61, 32, 128, 255, 0}
(* longer inputs over fewer values: the int accumulator wraps from the 4th byte / 6th character on *)
WrapBytes     == {0, 127, 128, 255}
WrapText      == {65, 47, 103, 61}              \* 'A' (value 0), '/' (63), 'g' (32), '='
=============================================================================

----------------------------- MODULE Base64Impl -----------------------------
(***************************************************************************)
(* L2 for C13: the bit accumulators of xtl/xbase64.hpp, transcribed from    *)
(* the code as a state machine, one action per step of the loops:           *)
(*                                                                          *)
(*  base64encode:  int val = 0, valb = -6;                                  *)
(*                 for c in input: val = (val << 8) + c; valb += 8;         *)
(*                      while (valb >= 0) { out += A[(val >> valb) & 0x3F]; *)
(*                                          valb -= 6; }                    *)
(*                 if (valb > -6) out += A[((val << 8) >> (valb + 8)) & 0x3F]; *)
(*                 while (out.size() % 4) out += '=';                       *)
(*  base64decode:  T[256] filled with -1, T[alphabet[i]] = i;               *)
(*                 int val = 0, valb = -8;                                  *)
(*                 for c in input: if (T[index(c)] == -1) break;            *)
(*                      val = (val << 6) + T[index(c)]; valb += 6;          *)
(*                      if (valb >= 0) { out += (val >> valb) & 0xFF;       *)
(*                                       valb -= 8; }                       *)
(*                                                                          *)
(* TLC checks, for every input of a finite universe, that the machine       *)
(* terminates with out = Base64!Encode(input) resp. DecodePrefix(input)     *)
(* (the L1 functions), that every table index is inside the table, and the  *)
(* accumulator-window invariant below.                                      *)
(*                                                                          *)
(* Abstraction of val: the C++ int grows without bound (and wraps); the     *)
(* code only ever reads bits valb .. valb+7 of it with valb <= 6, so the    *)
(* model keeps val modulo 2^16 before each shift (WindowInv states the      *)
(* bound on valb that makes this exact).                                    *)
(*                                                                          *)
(* IndexMode = "uchar": the table is indexed with the unsigned value of the *)
(* character (the repaired code).  IndexMode = "size_t_of_char": the        *)
(* pre-repair expression T[std::size_t(c)] with plain (signed) char: a byte *)
(* >= 0x80 becomes 2^64 - (256 - c), written here as the pair               *)
(* <<"huge", 256 - c>>; IndexInTable then fails (DESIGN.md section 9 #11).  *)
(***************************************************************************)
EXTENDS Naturals, Integers, Sequences, TLC

CONSTANTS ByteReps, MaxLen, TextReps, MaxText, IndexMode

L1 == INSTANCE Base64

VARIABLES mode,    \* "enc" | "dec"
          input,   \* the argument
          pos,     \* next input position (1-based)
          val, valb, out,
          pc,      \* "loop" | "emit" | "pad" | "done"
          idx      \* ghost: the last table index used by decode (or <<"none">>)
vars == <<mode, input, pos, val, valb, out, pc, idx>>

StringsUpTo(A, n) == UNION {[1..k -> A] : k \in 0..n}

(* the decode table as the code builds it *)
Table == [c \in 0..255 |-> IF \E i \in 1..64 : L1!Alphabet[i] = c
                              THEN (CHOOSE i \in 1..64 : L1!Alphabet[i] = c) - 1
                              ELSE -1]
IndexOf(c) == IF IndexMode = "uchar" \/ c < 128 THEN <<"small", c>> ELSE <<"huge", 256 - c>>
Lookup(ix) == IF ix[1] = "small" THEN Table[ix[2]] ELSE -1      \* what an out-of-table read yields is unknowable; -1 is one possibility

Init == /\ \/ mode = "enc" /\ input \in StringsUpTo(ByteReps, MaxLen) /\ valb = -6
           \/ mode = "dec" /\ input \in StringsUpTo(TextReps, MaxText) /\ valb = -8
        /\ pos = 1 /\ val = 0 /\ out = <<>> /\ pc = "loop" /\ idx = <<"none">>

Shr(x, k) == x \div (2 ^ k)

(* ---- encode *)
EncFeed == /\ mode = "enc" /\ pc = "loop" /\ pos <= Len(input)
           /\ val' = (val % 65536) * 256 + input[pos]
           /\ valb' = valb + 8
           /\ pc' = "emit"
           /\ UNCHANGED <<mode, input, pos, out, idx>>
EncEmit == /\ mode = "enc" /\ pc = "emit" /\ valb >= 0
           /\ out' = Append(out, L1!Alphabet[(Shr(val, valb) % 64) + 1])
           /\ valb' = valb - 6
           /\ UNCHANGED <<mode, input, pos, val, pc, idx>>
EncNext == /\ mode = "enc" /\ pc = "emit" /\ valb < 0
           /\ pos' = pos + 1 /\ pc' = "loop"
           /\ UNCHANGED <<mode, input, val, valb, out, idx>>
EncTail == /\ mode = "enc" /\ pc = "loop" /\ pos > Len(input)
           /\ out' = IF valb > -6
                       THEN Append(out, L1!Alphabet[(Shr((val % 65536) * 256, valb + 8) % 64) + 1])
                       ELSE out
           /\ pc' = "pad"
           /\ UNCHANGED <<mode, input, pos, val, valb, idx>>
EncPad  == /\ mode = "enc" /\ pc = "pad" /\ Len(out) % 4 # 0
           /\ out' = Append(out, L1!Pad)
           /\ UNCHANGED <<mode, input, pos, val, valb, pc, idx>>
EncDone == /\ mode = "enc" /\ pc = "pad" /\ Len(out) % 4 = 0
           /\ pc' = "done"
           /\ UNCHANGED <<mode, input, pos, val, valb, out, idx>>

(* ---- decode *)
DecFeed == /\ mode = "dec" /\ pc = "loop" /\ pos <= Len(input)
           /\ LET ix == IndexOf(input[pos])
                  t  == Lookup(ix) IN
              /\ idx' = ix
              /\ IF t = -1
                   THEN pc' = "done" /\ UNCHANGED <<pos, val, valb, out>>
                   ELSE LET v  == (val % 65536) * 64 + t
                            vb == valb + 6 IN
                        /\ val' = v
                        /\ pos' = pos + 1
                        /\ pc' = "loop"
                        /\ IF vb >= 0
                             THEN out' = Append(out, Shr(v, vb) % 256) /\ valb' = vb - 8
                             ELSE out' = out /\ valb' = vb
           /\ UNCHANGED <<mode, input>>
DecEnd  == /\ mode = "dec" /\ pc = "loop" /\ pos > Len(input)
           /\ pc' = "done"
           /\ UNCHANGED <<mode, input, pos, val, valb, out, idx>>

Next == EncFeed \/ EncEmit \/ EncNext \/ EncTail \/ EncPad \/ EncDone \/ DecFeed \/ DecEnd
Spec == Init /\ [][Next]_vars

----------------------------------------------------------------------------
(* L2 computes the L1 function *)
Refines == pc = "done" =>
              out = IF mode = "enc" THEN L1!Encode(input) ELSE L1!DecodePrefix(input)

(* stronger, at every loop head: the output so far is the L1 output of the consumed prefix *)
Progress == pc = "loop" =>
              IF mode = "enc"
                THEN LET e == L1!Encode(input) IN
                     /\ Len(out) = (8 * (pos - 1)) \div 6
                     /\ \A i \in 1..Len(out) : out[i] = e[i]
                ELSE out = L1!DecodePrefix(SubSeq(input, 1, pos - 1))

(* "never indexes outside its lookup table" *)
IndexInTable == idx[1] # "huge"

(* the window abstraction of val is exact: no bit at or above 16 is ever read *)
WindowInv == /\ mode = "enc" => valb \in -6..6
             /\ mode = "dec" => valb \in -8..4
             /\ val < 16777216

Terminates == <>(pc = "done")
FairSpec == Spec /\ WF_vars(Next)

BoundaryBytes == {0, 1, 63, 64, 127, 128, 191, 192, 254, 255}
BoundaryText  == {65, 47, 43, 122, 57, 61, 32, 128, 255, 0}
=============================================================================

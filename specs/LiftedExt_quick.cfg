SPECIFICATION Spec
CONSTANTS
  MCTys <- AllTys
  NValOf <- NQuick
  EmitOn = TRUE
ACTION_CONSTRAINT Emit
PROPERTIES PropagationLaw EqualityLaw FlagLaw
CHECK_DEADLOCK FALSE

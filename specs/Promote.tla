------------------------------- MODULE Promote -------------------------------
(***************************************************************************)
(* L1 property specification for C18 (second half): the promotion, logical  *)
(* and cv traits of xtype_traits.hpp.                                       *)
(*                                                                          *)
(*  - promote_type_t over a pack of arithmetic types "is the type C++       *)
(*    yields for adding values of those types (a leading bool being         *)
(*    neutral)"; over a pack containing std::complex it is std::complex of  *)
(*    the promotion of all component types, in every argument order, never  *)
(*    nested.                                                               *)
(*  - conjunction / disjunction / negation equal their std definitions.     *)
(*  - apply_cv / constify equal their hand-derived definitions for every    *)
(*    cv/reference combination.                                             *)
(*                                                                          *)
(* Written from the C++ standard ([conv.prom], [expr.arith.conv],           *)
(* [meta.logical]) and the documentation comments, not from xtl's code.     *)
(* The integer model is parameterised by the platform P (value bits and     *)
(* signedness of every builtin type), which the runner MEASURES with a      *)
(* probe program; the table Add(a, b) is moreover cross-checked against the *)
(* compiler (decltype(a + b)) before it is used as an oracle.               *)
(*                                                                          *)
(* Types are terms [n |-> name, a |-> <<args>>] as in TypeList; a builtin   *)
(* type is a term without arguments, std::complex<float> is                 *)
(* [n |-> "complex", a |-> <<float>>].  Each action records in last.res the *)
(* SEQUENCE OF ALLOWED RESULTS: one element where the statement fixes the   *)
(* answer, two where it leaves it open (see ArithAllowed, ApplyCvAllowed,   *)
(* ConstifyAllowed).                                                        *)
(***************************************************************************)
EXTENDS Integers, Sequences, FiniteSets, TLC, Json

CONSTANTS P,          \* platform: [digits |-> [name |-> value bits], signed |-> [name |-> BOOLEAN]]
          MaxPack,    \* promote_type packs of 1..MaxPack types are enumerated
          MaxArgs     \* conjunction/disjunction take 0..MaxArgs arguments

VARIABLE last
vars == <<last>>

T(n)        == [n |-> n, a |-> <<>>]
Tm(n, args) == [n |-> n, a |-> args]

----------------------------------------------------------------------------
(* Builtin arithmetic types                                                 *)
StdInts   == <<"int", "uint", "long", "ulong", "llong", "ullong">>   \* promotion targets, in the order of [conv.prom]/2
SmallInts == {"char", "schar", "uchar", "short", "ushort"}           \* rank below int
CharLike  == {"wchar_t", "char16_t", "char32_t"}                     \* promoted by value range, [conv.prom]/2
Floats    == <<"float", "double", "ldouble">>                        \* increasing rank
StdIntSet == {StdInts[i] : i \in DOMAIN StdInts}
FloatSet  == {Floats[i] : i \in DOMAIN Floats}
Integral  == {"bool"} \cup SmallInts \cup CharLike \cup StdIntSet
Arith     == Integral \cup FloatSet

Signed(t) == P.signed[t]
Digits(t) == P.digits[t]                       \* std::numeric_limits<T>::digits
(* every value of t is representable in u *)
Fits(t, u) == IF Signed(t) THEN Signed(u) /\ Digits(t) <= Digits(u)
                           ELSE Digits(t) <= Digits(u)

Rank(t) == CASE t \in {"int", "uint"}     -> 3
             [] t \in {"long", "ulong"}   -> 4
             [] t \in {"llong", "ullong"} -> 5
Uns(t)  == CASE t \in {"int", "uint"}     -> "uint"
             [] t \in {"long", "ulong"}   -> "ulong"
             [] t \in {"llong", "ullong"} -> "ullong"
FRank(t) == CHOOSE i \in DOMAIN Floats : Floats[i] = t

(* [conv.prom]: integral promotion *)
IntPromote(t) ==
    CASE t = "bool"      -> "int"
      [] t \in SmallInts -> IF Fits(t, "int") THEN "int" ELSE "uint"
      [] t \in CharLike  -> StdInts[CHOOSE i \in DOMAIN StdInts : Fits(t, StdInts[i]) /\ \A j \in 1..(i - 1) : ~Fits(t, StdInts[j])]
      [] OTHER           -> t

(* [expr.arith.conv]: usual arithmetic conversions = the type of a + b *)
Add(a, b) ==
    IF a \in FloatSet \/ b \in FloatSet
    THEN IF a \in FloatSet /\ b \in FloatSet THEN (IF FRank(a) >= FRank(b) THEN a ELSE b)
         ELSE IF a \in FloatSet THEN a ELSE b
    ELSE LET x == IntPromote(a)
             y == IntPromote(b)
         IN IF x = y THEN x
            ELSE IF Signed(x) = Signed(y) THEN (IF Rank(x) >= Rank(y) THEN x ELSE y)
            ELSE LET u == IF Signed(x) THEN y ELSE x          \* the unsigned operand
                     s == IF Signed(x) THEN x ELSE y          \* the signed operand
                 IN IF Rank(u) >= Rank(s) THEN u
                    ELSE IF Fits(u, s) THEN s
                    ELSE Uns(s)

RECURSIVE FoldAdd(_)
FoldAdd(s) == IF Len(s) = 1 THEN s[1] ELSE Add(FoldAdd(SubSeq(s, 1, Len(s) - 1)), s[Len(s)])     \* (a + b) + c
RECURSIVE FoldAddR(_)
FoldAddR(s) == IF Len(s) = 1 THEN s[1] ELSE Add(s[1], FoldAddR(Tail(s)))                           \* a + (b + c)

(* promote_type over a pack of names of arithmetic types.  Leading bools are  *)
(* neutral: they are dropped (a pack of bools only is bool).  What remains is *)
(* added up.  When ONE type T remains there is nothing to add: the statement  *)
(* can be read as "T" (the neutral bool leaves T alone) or as "T + T" (the    *)
(* sum of values of type T); both are allowed -- they differ only for types   *)
(* of rank below int.                                                         *)
RECURSIVE StripBool(_)
StripBool(s) == IF Len(s) > 1 /\ s[1] = "bool" THEN StripBool(Tail(s)) ELSE s
ArithAllowed(s) == LET r == StripBool(s) IN
    IF Len(r) = 1 THEN {r[1], Add(r[1], r[1])} ELSE {FoldAdd(r)}

IsComplex(t)   == t.n = "complex"
HasComplex(pk) == \E i \in DOMAIN pk : IsComplex(pk[i])
Component(t)   == IF IsComplex(t) THEN t.a[1].n ELSE t.n
Components(pk) == [i \in DOMAIN pk |-> Component(pk[i])]
PromoteAllowed(pk) ==
    IF HasComplex(pk) THEN {Tm("complex", <<T(x)>>) : x \in ArithAllowed(Components(pk))}
                      ELSE {T(x) : x \in ArithAllowed(Components(pk))}

(* cv-qualified arithmetic types are arithmetic types too: [n |-> "const" | "volatile" | "cv", a |-> <<T>>].  Values  *)
(* of type const int added up are ints: the qualifiers do not reach the result - except that where ONE type remains *)
(* after the leading bools the element as it was written is allowed as well (the "bool leaves T alone" reading).    *)
CvNames  == {"const", "volatile", "cv"}
Bare(t)  == IF t.n \in CvNames THEN t.a[1].n ELSE t.n
RECURSIVE DropLeadingBools(_)
DropLeadingBools(pk) == IF Len(pk) > 1 /\ Bare(pk[1]) = "bool" THEN DropLeadingBools(Tail(pk)) ELSE pk
PromoteCvAllowed(pk) ==
    LET r == DropLeadingBools(pk) IN
    IF Len(r) = 1 THEN {r[1], T(Bare(r[1])), T(Add(Bare(r[1]), Bare(r[1])))}
                  ELSE {T(FoldAdd([i \in DOMAIN r |-> Bare(r[i])]))}

(* a set of terms as a sequence (for last.res); order is irrelevant *)
RECURSIVE SetToSeq(_)
SetToSeq(S) == IF S = {} THEN <<>> ELSE LET x == CHOOSE y \in S : TRUE IN <<x>> \o SetToSeq(S \ {x})

(* documented companions (header comments), kept apart from the property:      *)
(*  big_promote_type: "the biggest type of the same kind"; real_promote_type:   *)
(*  the type of sqrt(x); bool_promote_type: bool -> uint8_t, everything else    *)
(*  unchanged.                                                                  *)
BigName(x)  == IF x \in FloatSet THEN (IF x = "ldouble" THEN "ldouble" ELSE "double")
               ELSE IF Signed(x) THEN "llong" ELSE "ullong"
BigPromote(t)  == IF IsComplex(t) THEN Tm("complex", <<T(BigName(t.a[1].n))>>) ELSE T(BigName(t.n))
RealPromote(t) == IF IsComplex(t) THEN t ELSE IF t.n \in FloatSet THEN t ELSE T("double")
BoolPromote(t) == IF t = T("bool") THEN T("uint8_t") ELSE t
(* all_scalar<Args...>: every argument is a scalar type, [basic.types]: arithmetic, enumeration, pointer,   *)
(* pointer-to-member, std::nullptr_t (cv-qualified or not); classes, references, arrays, void, functions are not *)
ScalarKinds    == {"int", "double", "bool", "pointer", "enum", "nullptr", "memptr", "cint"}
NonScalarKinds == {"class", "lref", "array", "void", "function"}
AllScalar(ks)  == \A i \in DOMAIN ks : ks[i] \in ScalarKinds

----------------------------------------------------------------------------
(* Logical traits, [meta.logical].  An argument is a trait-like class:       *)
(* "T1","T2" have value true, "F1","F2" value false (two of each so that the *)
(* identity of the selected base class is observable), "X" has no member      *)
(* value at all: it may only stand where the std definition guarantees that  *)
(* Bi::value is not instantiated (Val has no arm for it: TLC would stop).    *)
Val(b) == CASE b \in {"T1", "T2"} -> TRUE [] b \in {"F1", "F2"} -> FALSE
Bools  == {"T1", "T2", "F1", "F2"}

(* conjunction<B1..Bn> derives from the first Bi with bool(Bi::value) == false, *)
(* or from Bn if there is none; conjunction<> from true_type.  0 = no argument. *)
RECURSIVE ConjScan(_, _)
ConjScan(s, i) == IF i = Len(s) THEN i ELSE IF Val(s[i]) THEN ConjScan(s, i + 1) ELSE i
ConjSel(s) == IF s = <<>> THEN 0 ELSE ConjScan(s, 1)
RECURSIVE DisjScan(_, _)
DisjScan(s, i) == IF i = Len(s) THEN i ELSE IF Val(s[i]) THEN i ELSE DisjScan(s, i + 1)
DisjSel(s) == IF s = <<>> THEN 0 ELSE DisjScan(s, 1)
Conjunction(s) == [sel |-> ConjSel(s), value |-> IF s = <<>> THEN TRUE ELSE Val(s[ConjSel(s)])]
Disjunction(s) == [sel |-> DisjSel(s), value |-> IF s = <<>> THEN FALSE ELSE Val(s[DisjSel(s)])]
Negation(b)    == ~Val(b)
(* the concept helpers are defined by the header in terms of the three traits *)
Requires(s)    == Conjunction(s).value
Either(s)      == Disjunction(s).value
Disallow(s)    == ~Conjunction(s).value
DisallowOne(s) == ~Disjunction(s).value

----------------------------------------------------------------------------
(* cv / reference algebra.  A type is [b, c, v, p, ref]: base name b with     *)
(* cv-qualifiers c, v; p = "none" | "ptr" (pointer to that) | "cptr" (const   *)
(* pointer to that); ref = "none" | "l" | "r".                                *)
CvRefTypes(b, ps) == [b : {b}, c : BOOLEAN, v : BOOLEAN, p : ps, ref : {"none", "l", "r"}]

(* apply_cv<T, U>: U with the cv-qualifiers of T (of the referred-to type when *)
(* T is a reference) added, and T's lvalue-reference-ness.  For an rvalue      *)
(* reference T the documentation says nothing: dropping it or keeping it are   *)
(* both allowed.  U is a non-reference, non-pointer type.                      *)
ApplyCv(T_, U, keepR) ==
    [U EXCEPT !.c = @ \/ T_.c, !.v = @ \/ T_.v,
              !.ref = IF T_.ref = "l" THEN "l" ELSE IF T_.ref = "r" /\ keepR THEN "r" ELSE "none"]
ApplyCvAllowed(T_, U) == IF T_.ref = "r" THEN <<ApplyCv(T_, U, FALSE), ApplyCv(T_, U, TRUE)>>
                                         ELSE <<ApplyCv(T_, U, FALSE)>>

(* constify<T>: "adds const to the underlying type of a reference or pointer,  *)
(* or to the type itself if it's not a reference nor a pointer".               *)
(*   X cv          -> const X cv                                               *)
(*   X cv *        -> const X cv *         (pointee)                           *)
(*   X cv * &      -> X cv * const &       (the referred-to type is the pointer)*)
(*   X cv &        -> const X cv &                                             *)
(* Open cases, both readings allowed: a const pointer X* const (is it "a        *)
(* pointer"? then the pointee gets const; otherwise const is already there),    *)
(* and rvalue references (a reference whose underlying type gets const, or      *)
(* std::add_const on a reference type = no change).                             *)
AddConstUnder(t) == IF t.p = "none" THEN [t EXCEPT !.c = TRUE] ELSE [t EXCEPT !.p = "cptr"]
ConstifyAllowed(t) ==
    CASE t.ref = "l" -> <<AddConstUnder(t)>>
      [] t.ref = "r" -> <<t, AddConstUnder(t)>>
      [] t.ref = "none" /\ t.p = "none" -> <<[t EXCEPT !.c = TRUE]>>
      [] t.ref = "none" /\ t.p = "ptr"  -> <<[t EXCEPT !.c = TRUE]>>
      [] t.ref = "none" /\ t.p = "cptr" -> <<t, [t EXCEPT !.c = TRUE]>>

----------------------------------------------------------------------------
(* Argument domains                                                         *)
SeqsUpTo(S, n) == UNION {[1..m -> S] : m \in 0..n}
ComplexTypes == {Tm("complex", <<T(f)>>) : f \in FloatSet}
PackTypes    == {T(x) : x \in Arith} \cup ComplexTypes
Packs        == UNION {[1..m -> PackTypes] : m \in 1..MaxPack}
CvBases      == {"bool", "uchar", "short", "int", "ulong", "float"}
CvTypes      == {Tm(q, <<T(x)>>) : q \in CvNames, x \in CvBases} \cup {T(x) : x \in {"bool", "char", "int", "double"}}
CvPacks      == UNION {[1..m -> CvTypes] : m \in 1..2}
LogicArgs    == SeqsUpTo(Bools \cup {"X"}, MaxArgs)
(* "X" only where the std definition does not look at it: strictly after the selected argument *)
NoXUpTo(s, k) == \A i \in 1..k : s[i] # "X"
RECURSIVE ConjScanX(_, _)
ConjScanX(s, i) == IF i > Len(s) \/ s[i] = "X" THEN 0 ELSE IF i = Len(s) THEN i ELSE IF Val(s[i]) THEN ConjScanX(s, i + 1) ELSE i
RECURSIVE DisjScanX(_, _)
DisjScanX(s, i) == IF i > Len(s) \/ s[i] = "X" THEN 0 ELSE IF i = Len(s) THEN i ELSE IF Val(s[i]) THEN i ELSE DisjScanX(s, i + 1)
ConjOK(s) == s = <<>> \/ ConjScanX(s, 1) # 0       \* the scan meets no "X" before it stops
DisjOK(s) == s = <<>> \/ DisjScanX(s, 1) # 0

----------------------------------------------------------------------------
Call(op, args, allowed) == last' = [op |-> op, a |-> args, res |-> allowed]
One(x) == <<x>>

(* cross-check rows: the oracle itself against the compiler (no xtl involved) *)
DoAdd(a, b)          == Call("Add", [x |-> T(a), y |-> T(b)], One(T(Add(a, b))))
DoAdd3(a, b, c)      == Call("Add3", [x |-> T(a), y |-> T(b), z |-> T(c)], One(T(FoldAdd(<<a, b, c>>))))
DoPromote(pk)        == Call("Promote", [pack |-> pk], SetToSeq(PromoteAllowed(pk)))
DoPromoteCv(pk)      == /\ \E i \in DOMAIN pk : pk[i].n \in CvNames
                        /\ Call("PromoteCv", [pack |-> pk], SetToSeq(PromoteCvAllowed(pk)))
DoBigPromote(t)      == Call("BigPromote", [t |-> t], One(BigPromote(t)))
DoRealPromote(t)     == Call("RealPromote", [t |-> t], One(RealPromote(t)))
DoBoolPromote(t)     == Call("BoolPromote", [t |-> t], One(BoolPromote(t)))
DoConjunction(s)     == ConjOK(s) /\ Call("Conjunction", [args |-> s], One(Conjunction(s)))
DoDisjunction(s)     == DisjOK(s) /\ Call("Disjunction", [args |-> s], One(Disjunction(s)))
DoNegation(b)        == Call("Negation", [arg |-> b], One(Negation(b)))
DoConcepts(s)        == /\ \A i \in DOMAIN s : s[i] # "X"
                        /\ Call("Concepts", [args |-> s], One([requires |-> Requires(s), either |-> Either(s),
                                                              disallow |-> Disallow(s), disallow_one |-> DisallowOne(s)]))
DoAllScalar(ks)      == Call("AllScalar", [kinds |-> ks], One(AllScalar(ks)))
DoApplyCv(T_, U)     == Call("ApplyCv", [t |-> T_, u |-> U], ApplyCvAllowed(T_, U))
DoConstify(t)        == Call("Constify", [t |-> t], ConstifyAllowed(t))

Init == last = [op |-> "Init", a |-> [z |-> 0], res |-> <<>>]

Next == /\ last.op = "Init"
        /\ \/ \E a, b \in Arith : DoAdd(a, b)
           \/ MaxPack >= 3 /\ \E a, b, c \in Arith : DoAdd3(a, b, c)
           \/ \E pk \in Packs : DoPromote(pk)
           \/ \E pk \in CvPacks : DoPromoteCv(pk)
           \/ \E t \in PackTypes : DoBigPromote(t) \/ DoRealPromote(t) \/ DoBoolPromote(t)
           \/ \E s \in LogicArgs : DoConjunction(s) \/ DoDisjunction(s) \/ DoConcepts(s)
           \/ \E b \in Bools : DoNegation(b)
           \/ \E ks \in SeqsUpTo(ScalarKinds \cup NonScalarKinds, 2) : DoAllScalar(ks)
           \/ \E T_ \in CvRefTypes("double", {"none"}), U \in [b : {"int"}, c : BOOLEAN, v : BOOLEAN, p : {"none"}, ref : {"none"}] :
                 DoApplyCv(T_, U)
           \/ \E t \in CvRefTypes("int", {"none", "ptr", "cptr"}) : DoConstify(t)

Spec == Init /\ [][Next]_vars

Emit == PrintT("@E@" \o ToJson(last'))

----------------------------------------------------------------------------
(* Theorems of the specification itself (guard the oracle); checked by TLC   *)
(* once, as an assumption of the model-checking module, for each platform.  *)
TypeOK == last.op \in STRING /\ Len(last.res) \in 0..3

ArithLaws ==
    /\ \A a, b \in Arith : /\ Add(a, b) = Add(b, a)
                           /\ Add(a, b) \in StdIntSet \cup FloatSet               \* never a type below int
                           /\ Add(Add(a, b), Add(a, b)) = Add(a, b)
                           /\ (a \in FloatSet \/ b \in FloatSet) <=> Add(a, b) \in FloatSet
    /\ \A a, b, c \in Arith : Add(Add(a, b), c) = Add(a, Add(b, c))               \* so the order of folding is immaterial
    /\ \A a \in Integral : Fits(a, IntPromote(a))

PromoteLaws ==
    \A pk \in Packs :
        /\ PromoteAllowed(pk) # {}
        /\ HasComplex(pk) => /\ Cardinality(PromoteAllowed(pk)) = 1
                             /\ \A r \in PromoteAllowed(pk) : IsComplex(r) /\ r.a[1].n \in FloatSet     \* never nested
        /\ Len(pk) = 2 /\ HasComplex(pk) => PromoteAllowed(pk) = PromoteAllowed(<<pk[2], pk[1]>>)       \* every argument order
        /\ Len(pk) = 3 /\ HasComplex(pk) => /\ PromoteAllowed(pk) = PromoteAllowed(<<pk[2], pk[3], pk[1]>>)
                                           /\ PromoteAllowed(pk) = PromoteAllowed(<<pk[3], pk[2], pk[1]>>)
        /\ Len(pk) >= 2 /\ ~HasComplex(pk) /\ pk[1] # T("bool") =>
              PromoteAllowed(pk) = {T(FoldAddR(Components(pk)))}

LogicLaws ==
    \A s \in SeqsUpTo(Bools, MaxArgs) :
        /\ Conjunction(s).value = (\A i \in DOMAIN s : Val(s[i]))
        /\ Disjunction(s).value = (\E i \in DOMAIN s : Val(s[i]))
        /\ ConjOK(s) /\ DisjOK(s)

(* Round 3: further theorems *)
Range(s) == {s[i] : i \in DOMAIN s}
Perms3(pk) == {<<pk[1], pk[2], pk[3]>>, <<pk[1], pk[3], pk[2]>>, <<pk[2], pk[1], pk[3]>>,
               <<pk[2], pk[3], pk[1]>>, <<pk[3], pk[1], pk[2]>>, <<pk[3], pk[2], pk[1]>>}
MoreLaws ==
    /\ \A pk \in Packs :
          /\ Len(pk) = 3 /\ HasComplex(pk) => \A q \in Perms3(pk) : PromoteAllowed(q) = PromoteAllowed(pk)   \* all six orders
          /\ Len(pk) = 2 /\ pk[1] # T("bool") /\ pk[2] # T("bool") =>
                PromoteAllowed(<<pk[1], pk[2], pk[2]>>) = PromoteAllowed(pk)                               \* a repeated type adds nothing
          /\ \A r \in PromoteAllowed(pk) : IsComplex(r) <=> HasComplex(pk)
    /\ \A pk \in CvPacks : PromoteAllowed([i \in DOMAIN pk |-> T(Bare(pk[i]))]) \subseteq PromoteCvAllowed(pk) \* cv never reaches a sum
    /\ \A t \in PackTypes : /\ BigPromote(BigPromote(t)) = BigPromote(t)
                            /\ RealPromote(RealPromote(t)) = RealPromote(t)
                            /\ BoolPromote(BoolPromote(t)) = BoolPromote(t)
                            /\ IsComplex(BigPromote(t)) <=> IsComplex(t)
    /\ \A a \in Integral : Fits(a, BigName(a))
    /\ \A s \in SeqsUpTo(Bools, MaxArgs) :
          /\ s # <<>> => /\ Val(s[Conjunction(s).sel]) = Conjunction(s).value                              \* the selected base decides
                         /\ Val(s[Disjunction(s).sel]) = Disjunction(s).value
                         /\ \A i \in 1..(Conjunction(s).sel - 1) : Val(s[i])
                         /\ \A i \in 1..(Disjunction(s).sel - 1) : ~Val(s[i])
          /\ Disallow(s) = ~Requires(s) /\ DisallowOne(s) = ~Either(s)
          /\ Requires(s) => (Either(s) \/ s = <<>>)
    /\ \A T_ \in CvRefTypes("double", {"none"}), U \in [b : {"int"}, c : BOOLEAN, v : BOOLEAN, p : {"none"}, ref : {"none"}] :
          /\ \A r \in Range(ApplyCvAllowed(T_, U)) : r.b = U.b /\ (r.c <=> (U.c \/ T_.c)) /\ (r.v <=> (U.v \/ T_.v))
          /\ (~T_.c /\ ~T_.v /\ T_.ref = "none") => ApplyCvAllowed(T_, U) = <<U>>
    /\ \A t \in CvRefTypes("int", {"none", "ptr", "cptr"}) :
          \A r \in Range(ConstifyAllowed(t)) : /\ r.b = t.b /\ r.ref = t.ref /\ r.v = t.v
                                               /\ r \in Range(ConstifyAllowed(r))                           \* constify is idempotent

Laws == ArithLaws /\ PromoteLaws /\ LogicLaws /\ MoreLaws
=============================================================================

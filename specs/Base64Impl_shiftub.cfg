SPECIFICATION Spec
CONSTANTS
  ByteReps <- WrapBytes
  MaxLen = 6
  TextReps <- WrapText
  MaxText = 8
  IndexMode = "uchar"
  ReadMode = "forward"
INVARIANTS NoShiftUB

SPECIFICATION Spec
CONSTANTS
  MaxBits = 20
  Widths = {8}
  MaxShift = 21
  Targets = {1, 2}
  OtherInit <- NoOther
  ILArgs <- RepILB
  LimbReps <- RepLimbs
  Classes <- SimClasses
  EmitOps <- NoEmit
CONSTRAINT SizeBound

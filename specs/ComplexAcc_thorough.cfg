SPECIFICATION Spec
CONSTANTS
  Mode = "grid"
  Ts <- AllTs
  FormsOn <- AllForms
  PatSet = "many"
  ExpSet = "few"
  STs <- AllSTs
INVARIANTS Laws

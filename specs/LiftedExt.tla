----------------------------- MODULE LiftedExt -----------------------------
(***************************************************************************)
(* L1 for C04, second part: the lifted calls over VALUE TYPES other than    *)
(* the counting integer of Lifted.tla, and the neighbours of the two        *)
(* classes.  The property does not restrict the value type: "the result is  *)
(* present exactly when every optional operand is present and then equals   *)
(* the same operation on the underlying values".                            *)
(*                                                                          *)
(* Value types (ty):                                                        *)
(*   cpx   xoptional<xcomplex<double>>            (a neighbouring component) *)
(*   nest  xoptional<xoptional<int>>              (the lifted call on the    *)
(*         underlying values is itself a lifted call)                        *)
(*   dbit  xoptional<double>      mbit  xmasked_value<double>                *)
(*         over doubles that small integers do not reach: both zeros, both   *)
(*         infinities, NaN with both signs, the smallest denormal, the       *)
(*         largest finite value, 0.1 -- compared BIT FOR BIT                 *)
(* An operand is [l, h, x]: l = lifted (xoptional / xmasked_value) or a     *)
(* plain value of the value type, h = present, x = index into the harness's *)
(* table of values of that type.  The observation o of a call is            *)
(*   [has, val, u, vn, un, pre]                                              *)
(* has/val = presence and value of what the call returned (compound          *)
(* assignment: of the target afterwards), u = what the SAME operation gave   *)
(* on the underlying values (performed by the harness directly, without      *)
(* xtl's lifting), vn/un = val/u is a NaN (in some component), pre = the     *)
(* target's value before a compound assignment.  Values are canonical text   *)
(* (the bit patterns in hex); the spec only compares them.                   *)
(*                                                                          *)
(* Also here, as ADVISORY actions (the statement does not name them): the    *)
(* implicit conversion xmasked_value -> xoptional, the json round trip of    *)
(* xjson.hpp, the member equal(), missing<T>() / has_value(x) / value(x).     *)
(* Written from the property statement and the documentation, not from       *)
(* xtl's code.                                                               *)
(***************************************************************************)
EXTENDS Integers, Sequences, FiniteSets, TLC, Json

CONSTANTS MCTys,     \* value types the model checker enumerates
          NValOf,    \* ty -> number of table values the model checker uses
          EmitOn

VARIABLES last       \* ghost: the call just performed and what it returned

Tys      == {"cpx", "nest", "dbit", "mbit"}
UnFuns   == [cpx  |-> {"pos", "neg"},
             nest |-> {"pos", "neg", "bitnot"},              \* (bool-valued calls flatten the two levels: not modelled)
             dbit |-> {"pos", "neg", "fabs", "sqrt", "floor", "isnan", "isinf"},
             mbit |-> {"pos", "neg", "fabs", "sqrt", "floor", "isnan", "isinf"}]
BinFuns  == [cpx  |-> {"plus", "minus", "mul", "div"},
             nest |-> {"plus", "minus", "mul", "band"},
             dbit |-> {"plus", "minus", "mul", "div", "lt", "ge", "fmax", "fmin", "pow", "atan2"},
             mbit |-> {"plus", "minus", "mul", "div", "lt", "ge", "fmax", "fmin", "pow", "atan2"}]
AsgFuns  == [cpx  |-> {"plus_eq", "minus_eq", "mul_eq", "div_eq"},
             nest |-> {"plus_eq", "mul_eq"},
             dbit |-> {"plus_eq", "minus_eq", "mul_eq", "div_eq"},
             mbit |-> {"plus_eq", "minus_eq", "mul_eq", "div_eq"}]
TerFuns  == [cpx |-> {}, nest |-> {}, dbit |-> {"fma"}, mbit |-> {"fma"}]
CmpFuns  == {"eq", "ne"}
DivLike  == {"div_eq", "mod_eq"}

(* xtl offers the forms with a plain operand only for value types that are fundamental or name themselves as  *)
(* value_type (common_optional_t); the operands of a call over xcomplex<double> are therefore all lifted; so are *)
(* those over xoptional<int> (a "plain" xoptional<int> beside an xoptional<xoptional<int>> is itself a lifted     *)
(* operand, of another value type)                                                                              *)
PlainOK(ty) == ty \notin {"cpx", "nest"}
(* c: the VALUE CATEGORY / constness under which the call names the operand: a const lvalue ("cl"), a non-const *)
(* lvalue ("lv": an ordinary variable), an rvalue ("rv": a temporary, e.g. the result of another call).  The      *)
(* property does not depend on it: every rule below demands the same answer for all of them.  (The target of a    *)
(* compound assignment is a non-const lvalue by the language; its c is not looked at.)                              *)
Cats == {"cl", "lv", "rv"}
Opd(l, h, x, c) == [l |-> l, h |-> h, x |-> x, c |-> c]
OpdOK(p)  == p.l \in BOOLEAN /\ p.h \in BOOLEAN /\ p.x \in Nat /\ (~p.l => p.h) /\ p.c \in Cats    \* a plain operand is always "present"
AllHave(ps) == \A i \in 1..Len(ps) : ps[i].h
SomeLifted(ps) == \E i \in 1..Len(ps) : ps[i].l

(* the result: present iff every operand is; a present result is the underlying operation's result -- *)
(* bit for bit, except that two NaNs need not carry the same sign / payload (C++ does not say which of *)
(* two NaN operands an operation propagates)                                                          *)
SameVal(o) == o.val = o.u \/ (o.vn /\ o.un)
Legal(o, has) == /\ o.has = has
                 /\ has => SameVal(o)
(* compound assignment: the target ends up present iff both were; then it holds the underlying result; *)
(* a missing operand of /= (%=) leaves the target's value untouched                                     *)
LegalAsg(o, f, has) == /\ o.has = has
                       /\ has => SameVal(o)
                       /\ (~has /\ f \in DivLike) => o.val = o.pre

Do(op, a, o) == last' = [op |-> op, a |-> a, res |-> o]

Call(ty, f, ps, o) ==
    /\ ty \in Tys /\ Len(ps) \in 1..3 /\ \A i \in 1..Len(ps) : OpdOK(ps[i])
    /\ SomeLifted(ps)
    /\ f \in (CASE Len(ps) = 1 -> UnFuns[ty] [] Len(ps) = 2 -> BinFuns[ty] [] OTHER -> TerFuns[ty])
    /\ Legal(o, AllHave(ps))
    /\ Do("Call", [ty |-> ty, f |-> f, ps |-> ps], o)

(* x == y, x != y: a plain bool; o.val = "1" / "0"; o.u = what the same operator says about the underlying values *)
Compare(ty, f, ps, o) ==
    /\ ty \in Tys /\ f \in CmpFuns /\ Len(ps) = 2 /\ \A i \in 1..2 : OpdOK(ps[i]) /\ SomeLifted(ps)
    /\ LET ueq == (o.u = "1") = (f = "eq")       \* the underlying values compare equal (o.u: the same operator on them)
           e == (~ps[1].h /\ ~ps[2].h) \/ (ps[1].h /\ ps[2].h /\ ueq) IN
       o.val = (IF (f = "eq") = e THEN "1" ELSE "0")
    /\ Do("Compare", [ty |-> ty, f |-> f, ps |-> ps], o)

(* FLAG TYPES.  The flag type is a free parameter of xoptional and "a falsy flag means that the value is missing", so *)
(* presence is the TRUTH of the flag: flags 1, 2 and 4 all say "present".  An operand here is xoptional<int, FT> with  *)
(* FT one of FlagTys (intref: xoptional<int&, int&> over the caller's cells, e.g. an element of a mask array), given   *)
(* by its flag type t, its flag value f and the index x of its value.  The two operands of a call may have different   *)
(* flag types (an operator result always carries a bool flag).                                                          *)
FlagTys == {"bool", "int", "u8", "intref"}
FOpd(t, f, x) == [t |-> t, f |-> f, x |-> x]
FOpdOK(p) == p.t \in FlagTys /\ p.f \in 0..255 /\ (p.t = "bool" => p.f \in {0, 1}) /\ p.x \in Nat
Truthy(p) == p.f # 0
CompareF(f, p, q, o) ==
    /\ f \in CmpFuns /\ FOpdOK(p) /\ FOpdOK(q)
    /\ LET ueq == (o.u = "1") = (f = "eq")
           e == (~Truthy(p) /\ ~Truthy(q)) \/ (Truthy(p) /\ Truthy(q) /\ ueq) IN
       o.val = (IF (f = "eq") = e THEN "1" ELSE "0")
    /\ Do("CompareF", [f |-> f, p |-> p, q |-> q], o)
(* x op y on such operands: present iff both flags are truthy, then the underlying result *)
FBinFuns == {"plus", "minus", "mul", "lt"}
CallF(f, p, q, o) ==
    /\ f \in FBinFuns /\ FOpdOK(p) /\ FOpdOK(q)
    /\ Legal(o, Truthy(p) /\ Truthy(q))
    /\ Do("CallF", [f |-> f, p |-> p, q |-> q], o)
(* x op= y: the target is present afterwards iff both were *)
FAsgFuns == {"plus_eq", "mul_eq", "div_eq"}
CompoundF(f, p, q, o) ==
    /\ f \in FAsgFuns /\ FOpdOK(p) /\ FOpdOK(q)
    /\ LegalAsg(o, f, Truthy(p) /\ Truthy(q))
    /\ Do("CompoundF", [f |-> f, p |-> p, q |-> q], o)

Compound(ty, f, ps, o) ==
    /\ ty \in Tys /\ f \in AsgFuns[ty] /\ Len(ps) = 2 /\ \A i \in 1..2 : OpdOK(ps[i]) /\ ps[1].l
    /\ LegalAsg(o, f, AllHave(ps))
    /\ Do("Compound", [ty |-> ty, f |-> f, ps |-> ps], o)

(* a + b * c written as one expression: two lifted calls, the second on the first's result *)
Expr(ty, f, g, ps, o) ==
    /\ ty \in Tys /\ f \in BinFuns[ty] /\ g \in BinFuns[ty] /\ {f, g} \subseteq {"plus", "minus", "mul"}
    /\ Len(ps) = 3 /\ \A i \in 1..3 : OpdOK(ps[i]) /\ (ps[2].l \/ ps[3].l)
    /\ Legal(o, AllHave(ps))
    /\ Do("Expr", [ty |-> ty, f |-> f, g |-> g, ps |-> ps], o)

----------------------------------------------------------------------------
(* ADVISORY (documented behaviour beside the statement).                     *)
(* xoptional<T> o = m  for an xmasked_value<T> m: a visible value arrives as a present one; what a masked *)
(* value converts to is not documented (every answer is allowed)                                           *)
Conv(vis, x, o) ==
    /\ vis \in BOOLEAN /\ x \in Nat
    /\ vis => (o.has /\ o.val = o.u)
    /\ Do("Conv", [vis |-> vis, x |-> x], o)
(* nlohmann::json j = o; o2 = j.get<xoptional<T>>(): same presence, same value when present; a missing value is null *)
JsonTrip(h, x, o) ==
    /\ h \in BOOLEAN /\ x \in Nat
    /\ o.has = h /\ (h => o.val = o.u) /\ (o.pre = "null") = ~h
    /\ Do("JsonTrip", [h |-> h, x |-> x], o)
(* the member a.equal(b) of both classes: what == is defined by *)
EqualM(fam, ps, o) ==
    /\ fam \in {"opt", "masked"} /\ Len(ps) = 2 /\ \A i \in 1..2 : OpdOK(ps[i]) /\ ps[1].l
    /\ o.val = (IF (~ps[1].h /\ ~ps[2].h) \/ (ps[1].h /\ ps[2].h /\ o.u = "1") THEN "1" ELSE "0")
    /\ Do("EqualM", [fam |-> fam, ps |-> ps], o)
(* missing<T>() is missing; has_value(x) / value(x) of a plain x are true / x *)
Factory(how, x, o) ==
    /\ how \in {"missing", "free_plain"} /\ x \in Nat
    /\ o.has = (how = "free_plain") /\ (how = "free_plain" => o.val = o.u)
    /\ Do("Factory", [how |-> how, x |-> x], o)

Advisory == {"Conv", "JsonTrip", "EqualM", "Factory"}

----------------------------------------------------------------------------
(* Model checking: TLC enumerates the cases; each is written out and executed by the harness. *)
NoObs == [has |-> FALSE, val |-> "", u |-> "", vn |-> FALSE, un |-> FALSE, pre |-> ""]
CanonObs(has) == [NoObs EXCEPT !.has = has]
Init == last = [op |-> "Init", a |-> [z |-> 0], res |-> NoObs]

Idx(ty) == 0..(NValOf[ty] - 1)
Opds(ty) == {Opd(l, h, x, "cl") : l \in BOOLEAN, h \in BOOLEAN, x \in Idx(ty)}
GoodOpds(ty) == {p \in Opds(ty) : OpdOK(p) /\ (PlainOK(ty) \/ p.l)}
(* every category: all table values for the right operand of a compound assignment, the first two for binary calls *)
OpdsAC(ty) == {Opd(l, h, x, c) : l \in BOOLEAN, h \in BOOLEAN, x \in Idx(ty), c \in Cats}
GoodOpdsAC(ty) == {p \in OpdsAC(ty) : OpdOK(p) /\ (PlainOK(ty) \/ p.l)}
GoodOpdsC(ty) == {p \in GoodOpdsAC(ty) : p.x <= 1}
NonCL(p, q) == p.c # "cl" \/ q.c # "cl"
(* the model checker supplies an observation the rule accepts (values are the harness's business) *)
NCall1 == \E ty \in MCTys : \E f \in UnFuns[ty], p \in GoodOpds(ty) :
              p.l /\ Call(ty, f, <<p>>, CanonObs(p.h))
NCall2 == \E ty \in MCTys : \E f \in BinFuns[ty], p \in GoodOpds(ty), q \in GoodOpds(ty) :
              (p.l \/ q.l) /\ Call(ty, f, <<p, q>>, CanonObs(p.h /\ q.h))
NCall3 == \E ty \in MCTys : \E f \in TerFuns[ty], p \in GoodOpds(ty), q \in GoodOpds(ty), s \in GoodOpds(ty) :
              (p.l \/ q.l \/ s.l) /\ p.x <= 2 /\ Call(ty, f, <<p, q, s>>, CanonObs(p.h /\ q.h /\ s.h))
NCompare == \E ty \in MCTys : \E f \in CmpFuns, p \in GoodOpds(ty), q \in GoodOpds(ty) :
              (p.l \/ q.l) /\ Compare(ty, f, <<p, q>>,
                    [NoObs EXCEPT !.u = IF (p.x = q.x) = (f = "eq") THEN "1" ELSE "0",
                                  !.val = IF (f = "eq") = ((~p.h /\ ~q.h) \/ (p.h /\ q.h /\ p.x = q.x)) THEN "1" ELSE "0"])
FVals(t) == IF t = "bool" THEN {0, 1} ELSE {0, 1, 2, 4}
FOpds == {p \in {FOpd(t, f, x) : t \in FlagTys, f \in {0, 1, 2, 4}, x \in 0..1} : p.f \in FVals(p.t)}
NCompareF == \E f \in CmpFuns, p \in FOpds, q \in FOpds :
              CompareF(f, p, q,
                    [NoObs EXCEPT !.u = IF (p.x = q.x) = (f = "eq") THEN "1" ELSE "0",
                                  !.val = IF (f = "eq") = ((~Truthy(p) /\ ~Truthy(q)) \/ (Truthy(p) /\ Truthy(q) /\ p.x = q.x)) THEN "1" ELSE "0"])
NCallF == \E f \in {"plus", "lt"}, p \in FOpds, q \in FOpds : CallF(f, p, q, CanonObs(Truthy(p) /\ Truthy(q)))
NCompoundF == \E f \in {"plus_eq", "div_eq"}, p \in FOpds, q \in FOpds : (f = "div_eq" /\ Truthy(p) /\ Truthy(q) => q.x # 0) /\ CompoundF(f, p, q, CanonObs(Truthy(p) /\ Truthy(q)))
(* the value categories of the operands of binary calls and comparisons *)
NCall2C == \E ty \in MCTys : \E f \in BinFuns[ty], p \in GoodOpdsC(ty), q \in GoodOpdsC(ty) :
              (p.l \/ q.l) /\ NonCL(p, q) /\ Call(ty, f, <<p, q>>, CanonObs(p.h /\ q.h))
NCompareC == \E ty \in MCTys : \E f \in CmpFuns, p \in GoodOpdsC(ty), q \in GoodOpdsC(ty) :
              (p.l \/ q.l) /\ NonCL(p, q) /\ Compare(ty, f, <<p, q>>,
                    [NoObs EXCEPT !.u = IF (p.x = q.x) = (f = "eq") THEN "1" ELSE "0",
                                  !.val = IF (f = "eq") = ((~p.h /\ ~q.h) \/ (p.h /\ q.h /\ p.x = q.x)) THEN "1" ELSE "0"])
NCompound == \E ty \in MCTys : \E f \in AsgFuns[ty], p \in GoodOpds(ty), q \in GoodOpdsAC(ty) :
              p.l /\ Compound(ty, f, <<p, q>>, CanonObs(p.h /\ q.h))
NExpr == \E ty \in MCTys : \E f \in {"plus", "mul"}, g \in {"minus", "mul"}, p \in GoodOpds(ty), q \in GoodOpds(ty), s \in GoodOpds(ty) :
              (q.l \/ s.l) /\ p.x <= 1 /\ q.x <= 2 /\ Expr(ty, f, g, <<p, q, s>>, CanonObs(p.h /\ q.h /\ s.h))
NConv == \E vis \in BOOLEAN, x \in 0..2 : Conv(vis, x, [NoObs EXCEPT !.has = TRUE])
NJson == \E h \in BOOLEAN, x \in 0..2 : JsonTrip(h, x, [NoObs EXCEPT !.has = h, !.pre = IF h THEN "" ELSE "null"])
NEqualM == \E fam \in {"opt", "masked"}, p \in GoodOpds("dbit"), q \in GoodOpds("dbit") :
              p.l /\ p.x <= 2 /\ q.x <= 2 /\ EqualM(fam, <<p, q>>,
                    [NoObs EXCEPT !.u = IF p.x = q.x THEN "1" ELSE "0",
                                  !.val = IF (~p.h /\ ~q.h) \/ (p.h /\ q.h /\ p.x = q.x) THEN "1" ELSE "0"])
NFactory == \E how \in {"missing", "free_plain"}, x \in 0..1 : Factory(how, x, [NoObs EXCEPT !.has = (how = "free_plain")])

Next == last.op = "Init" /\ (NCall1 \/ NCall2 \/ NCall2C \/ NCall3 \/ NCompare \/ NCompareC \/ NCompareF \/ NCallF \/ NCompoundF \/ NCompound \/ NExpr \/ NConv \/ NJson \/ NEqualM \/ NFactory)
Spec == Init /\ [][Next]_last

Emit == EmitOn => PrintT("@X@" \o ToJson([op |-> last'.op, a |-> last'.a]))

(* Laws of the rules themselves *)
(* presence is the conjunction; a missing operand anywhere makes every call's result missing *)
PropagationLaw == [][last'.op \in {"Call", "Compound", "Expr"} =>
                       (last'.res.has = \A i \in 1..Len(last'.a.ps) : last'.a.ps[i].h)]_last
(* != is the negation of ==, == of two missing values holds, == of a missing and a present one does not *)
(* with any flag type: the result is present exactly when both flags are truthy *)
FlagLaw == [][last'.op \in {"CallF", "CompoundF"} => (last'.res.has = (last'.a.p.f # 0 /\ last'.a.q.f # 0))]_last
EqualityLaw == [][last'.op = "Compare" =>
                    LET ps == last'.a.ps IN
                    /\ (~ps[1].h /\ ~ps[2].h) => (last'.res.val = IF last'.a.f = "eq" THEN "1" ELSE "0")
                    /\ (ps[1].h # ps[2].h) => (last'.res.val = IF last'.a.f = "eq" THEN "0" ELSE "1")]_last
=============================================================================

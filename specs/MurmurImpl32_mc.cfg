SPECIFICATION FairSpec
CONSTANTS
  Keys <- KeysQ
  Seeds <- SeedsQ
INVARIANTS Refines ReadsInside TailIsLittleEndian
PROPERTY Terminates

SPECIFICATION Spec
CONSTANTS
  Cfgs <- CfgsArr
  MaxLen = 3
  Vals = {0, 1}
  Targets = {1}
  OtherInit <- RepOther
  ILArgs <- AllIL
  Classes <- AllClasses
  EmitOps <- AllOps
CONSTRAINT SizeBound
ACTION_CONSTRAINT Emit
VIEW absvars

----------------------------- MODULE ComplexAccMC -----------------------------
(* (1) Mode = "laws": the limb arithmetic of ComplexAcc against TLC's own integer arithmetic (small values across the   *)
(*     limb boundaries) and against polynomial identities on many-limb values - these guard the oracle.                *)
(* (2) Mode = "grid": S->C enumeration of a structured operand grid: every form x element type x flag x scalar C++ type  *)
(*     x boundary significands (1, 1 + ulp, 2 - ulp, 1.0101..) x signs x exponents at both ends and in the middle of     *)
(*     the well-scaled range x component offsets 0 / beyond the precision x second operands incl. the operand itself,    *)
(*     its transpose (cancelling product) and zeros of both signs.  harness/complex/driver.cpp (mode "acc") evaluates    *)
(*     exactly these cases (plus seeded random ones drawn by checks/c10.py) on the real xcomplex objects.                *)
EXTENDS ComplexAcc, TLC, Json

CONSTANTS Mode, Ts, FormsOn, PatSet, ExpSet, STs
VARIABLE c

D(s, n, e) == [k |-> "num", s |-> s, n |-> n, e |-> e]
(* significand patterns: limbs of an odd integer and its bit length *)
POne == [n |-> <<1>>, bl |-> 1]
P15  == [n |-> <<3>>, bl |-> 2]
POneP(t) == IF t = "float" THEN [n |-> <<1, 2048>>, bl |-> 24] ELSE [n |-> <<1, 0, 0, 0, 16>>, bl |-> 53]               \* 1 + ulp
PAll(t)  == IF t = "float" THEN [n |-> <<4095, 4095>>, bl |-> 24] ELSE [n |-> <<4095, 4095, 4095, 4095, 31>>, bl |-> 53]  \* 2 - ulp
PThird(t) == IF t = "float" THEN [n |-> <<2731, 2730>>, bl |-> 24] ELSE [n |-> <<1365, 1365, 1365, 1365, 21>>, bl |-> 53]
Pats(t) == IF PatSet = "few" THEN {POneP(t), PAll(t)} ELSE {POne, POneP(t), PAll(t), PThird(t)}
(* the number with sign s, pattern pt and leading bit 2^E *)
Mk(s, pt, E) == D(s, pt.n, E - (pt.bl - 1))
Exps(t) == IF ExpSet = "few" THEN {0 - WellW(t), 0, WellW(t) - 6}
           ELSE {0 - WellW(t), 0 - (WellW(t) \div 2), 0 - 1, 0, 1, 7, WellW(t) \div 2 + 1, WellW(t) - 6}
Offs(t) == {0, 0 - (Prec(t) + 1)}
(* second operands of the complex forms, placed relative to the first *)
YsOf(t, x, E) == {<<Mk(0, POneP(t), E), Mk(1, PAll(t), E - 1)>>,
                  <<Mk(1, PAll(t), E + 5), Mk(0, PThird(t), E + 5)>>,
                  <<Mk(0, PThird(t), E - 20), ZeroD(1)>>,
                  <<ZeroD(0), Mk(1, POneP(t), E + 1)>>,
                  <<x[2], x[1]>>, x}
(* scalars: values of the scalar's C++ type and of the element type *)
Scalars(t, st, E) == CASE st = "T" -> {Mk(0, PAll(t), E + 1), Mk(1, POneP(t), E - 3)}
                       [] st \in {"int", "long"} -> {D(0, <<3>>, 0), D(1, <<7>>, 2), D(0, <<1, 1>>, 0), ZeroD(0)}
                       [] OTHER -> {Mk(1, PAll("float"), E + 2), Mk(0, P15, E - 1)}
AllTs == FloatTypes
AllForms == Forms
AllSTs == ScalarTypes
FewSTs == {"T", "int", "double"}

GridInit == \E t \in Ts, b \in BOOLEAN, f \in FormsOn, s1 \in {0, 1}, s2 \in {0, 1} :
             \E E \in Exps(t), o \in Offs(t), p1 \in Pats(t), p2 \in Pats(t) :
              LET x == <<Mk(s1, p1, E), Mk(s2, p2, E + o)>> IN
              \E st \in (IF f \in CForms THEN {"T"} ELSE STs) :
               \E y \in (IF f \in CForms THEN YsOf(t, x, E) ELSE {<<s, ZeroD(0)>> : s \in Scalars(t, st, E)}) :
                 LET cc == [t |-> t, b |-> b, f |-> f, st |-> st, x |-> x, y |-> y] IN
                 /\ Admissible(cc) /\ c = cc /\ PrintT("@X@" \o ToJson(cc))

(* ---- laws of the limb arithmetic *)
Small == (0 - 20)..20 \cup {4095, 4096, 4097, 8191, 8192, 12345, 46000, 0 - 4095, 0 - 4096, 0 - 4097, 0 - 8192, 0 - 46000}
Big == {<<4095, 4095, 4095, 0>>, <<1, 0, 0, 0, 16, 0>>, <<4095, 4095, 4095, 4095, 4095, 4095, 4095, 0 - 1>>, <<7, 0>>,
        <<1365, 2730, 1365, 2730, 1365, 2730, 1365, 2730, 1365, 2730, 21, 0>>, <<0>>}
LawInit == \/ \E i \in Small, j \in Small : c = [m |-> "small", i |-> i, j |-> j]
           \/ \E a \in Big, b \in Big : c = [m |-> "big", i |-> a, j |-> b]
SameN(a, b) == IsZeroN(Norm(PSub(a, b)))
SmallLaws ==
    LET i == c.i  j == c.j  a == OfInt(i)  b == OfInt(j) IN
    /\ ToInt(a) = i /\ ToInt(Norm(PAdd(a, b))) = i + j /\ ToInt(Norm(PSub(a, b))) = i - j /\ ToInt(Norm(PNeg(a))) = 0 - i
    /\ ToInt(Norm(PMul(a, b))) = i * j
    /\ ToInt(AbsN(a)) = AbsI(i) /\ IsNegN(a) = (i < 0) /\ IsZeroN(a) = (i = 0)
    /\ LeqN(a, b) = (i <= j)
    /\ (i > 0 => BitLen(a) = FL2(i) + 1) /\ BitLen(OfInt(0)) = 0
    /\ (AbsI(i) <= 20 /\ j \in 0..13 => ToInt(ShlN(a, j)) = i * Pow2(j))
    /\ SameN(ShlN(a, 37), Norm(PMul(a, ShlN(One, 37))))
BigLaws ==
    LET a == c.i  b == c.j  s == Norm(PAdd(a, b)) IN
    /\ SameN(Norm(PMul(s, s)), Norm(PAdd(PAdd(Norm(PMul(a, a)), Norm(PMul(b, b))), PShl(Norm(PMul(a, b)), 1))))     \* (a+b)^2
    /\ SameN(Norm(PMul(Norm(PSub(a, b)), s)), Norm(PSub(Norm(PMul(a, a)), Norm(PMul(b, b)))))                        \* (a-b)(a+b)
    /\ SameN(Norm(PMul(a, b)), Norm(PMul(b, a)))
    /\ SameN(Norm(PMul(AbsN(a), AbsN(a))), Norm(PMul(a, a)))
    /\ LeqN(ZeroP, Norm(PMul(a, a)))
    /\ (LeqN(a, b) \/ LeqN(b, a)) /\ (LeqN(a, b) /\ LeqN(b, a) => SameN(a, b))
    /\ SameN(ShlN(ShlN(a, 5), 31), ShlN(a, 36))
    /\ BitLen(AbsN(ShlN(a, 29))) = (IF IsZeroN(a) THEN 0 ELSE BitLen(AbsN(a)) + 29)
(* the bounds themselves on hand-computed examples (float, p = 24) *)
F(n, e) == D(0, n, e)
ExampleLaws ==
    LET one == F(<<1>>, 0)  three == F(<<3>>, 0)
        mulc == [t |-> "float", b |-> FALSE, f |-> "mul", st |-> "T", x |-> <<one, one>>, y |-> <<one, one>>]            \* (1+i)^2 = 2i
        addc == [mulc EXCEPT !.f = "add"]                                                                               \* 2 + 2i
        divc == [mulc EXCEPT !.f = "div", !.x = <<three, ZeroD(0)>>, !.y = <<ZeroD(0), one>>]                           \* 3 / i = -3i
        twoU(k) == D(0, <<1, 2048>>, k - 23)       \* (1 + 2^-23) * 2^k  =  2^k (1 + 2 u)
        big(k, j) == D(0, <<1 + 2 * j, 2048>>, k - 23)     \* 2^k (1 + (1 + 2j) * 2 u)
    IN /\ Admissible(mulc) /\ Admissible(divc)
       /\ Accurate(mulc, <<ZeroD(0), F(<<1>>, 1)>>) /\ Accurate(mulc, <<ZeroD(1), F(<<1>>, 1)>>)
       /\ ~Accurate(mulc, <<ZeroD(0), F(<<1>>, 0)>>) /\ ~Accurate(mulc, <<F(<<1>>, 1), ZeroD(0)>>)
       /\ Accurate(mulc, <<F(<<1>>, 0 - 22), F(<<1>>, 1)>>)                  \* the bound is 16 u |2i| = 2^-19
       /\ Accurate(mulc, <<F(<<1>>, 0 - 19), F(<<1>>, 1)>>)                  \* on the bound
       /\ ~Accurate(mulc, <<F(<<3>>, 0 - 20), F(<<1>>, 1)>>)                 \* 1.5 times the bound
       /\ Accurate(mulc, <<F(<<1>>, 0 - 140), F(<<1>>, 1)>>)                 \* a negligible component
       /\ ~Accurate(mulc, <<F(<<1>>, 40), F(<<1>>, 1)>>)                     \* a huge component
       /\ ~Accurate(mulc, <<[k |-> "nan", s |-> 0, n |-> <<0>>, e |-> 0], F(<<1>>, 1)>>)
       /\ Accurate(mulc, <<ZeroD(0), big(1, 3)>>) /\ ~Accurate(mulc, <<ZeroD(0), big(1, 4)>>) /\ ~Accurate(mulc, <<ZeroD(0), big(1, 8)>>)   \* 14 u | 18 u | 34 u
       /\ Accurate(addc, <<F(<<1>>, 1), twoU(1)>>) /\ ~Accurate(addc, <<F(<<1>>, 1), big(1, 1)>>)   \* 2 u | 6 u componentwise
       /\ ~Accurate(addc, <<F(<<1>>, 1), ZeroD(0)>>)
       /\ Accurate(divc, <<ZeroD(0), D(1, <<3>>, 0)>>) /\ Accurate(divc, <<ZeroD(1), D(1, <<3>>, 0)>>)
       /\ ~Accurate(divc, <<ZeroD(0), D(0, <<3>>, 0)>>) /\ ~Accurate(divc, <<D(1, <<3>>, 0), ZeroD(0)>>)
       /\ ZeroSigns(mulc, 1) = {0} /\ ExactZero(mulc, 1) /\ ~ExactZero(mulc, 2)
       /\ ZeroSigns([addc EXCEPT !.x = <<ZeroD(1), one>>, !.y = <<ZeroD(1), one>>], 1) = {1}
       /\ ZeroSigns([addc EXCEPT !.f = "sadd", !.x = <<one, ZeroD(1)>>, !.y = <<one, ZeroD(0)>>], 2) = {0, 1}
       /\ ZeroSigns([addc EXCEPT !.f = "subs", !.x = <<one, ZeroD(1)>>, !.y = <<one, ZeroD(0)>>], 2) = {1}

Init == IF Mode = "laws" THEN LawInit ELSE GridInit
Next == UNCHANGED c
Spec == Init /\ [][Next]_c
Laws == IF Mode # "laws" THEN TRUE
        ELSE IF c.m = "small" THEN SmallLaws
        ELSE BigLaws /\ (c.i = <<0>> /\ c.j = <<0>> => ExampleLaws)            \* the examples once
=============================================================================

\* L1 theorems with the handler behaviours (plain / throwing / nesting) and a second, independent dispatcher object
SPECIFICATION Spec
CONSTANTS
  Kinds <- KFastStatic
  Arities = {1, 2}
  NXs = {1}
  K = 2
  MaxHist = 100
  MaxCells = 2
  OpClasses <- OpsTableBeh
  EmitMode <- ModeNone
  Plans <- NoPlans
CONSTRAINT Bound
VIEW absvars
INVARIANTS TypeOK OutcomeOK DispatchExact
PROPERTIES LookupsPure OneCell CopiesAreValues

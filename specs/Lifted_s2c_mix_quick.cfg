SPECIFICATION Spec
CONSTANTS
  NReg = 3
  Vals <- ValsMixQuick
  MCKinds <- KindsMix
  Classes <- MixClasses
  MCFuns <- EveryFun
  MCHows <- EveryHow
  Canonical = TRUE
  AliasInit = FALSE
  EmitOn = TRUE
ACTION_CONSTRAINT Emit

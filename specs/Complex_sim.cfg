SPECIFICATION Spec
CONSTANTS
  MaxAbs = 1024
  Vals <- ValsSim
  Classes <- WithAlias
  LRegs <- AllRegs
  RRegs <- AllRegs
  ScalarTs <- AllSTs
  OneStep = FALSE
  EmitOn = FALSE
INVARIANTS TypeOK Aliases

SPECIFICATION Spec
INVARIANTS TypeOK LvalueToRefRvalueToValue Idempotent ApplyCvLaws ConstifyLaws FactoryLaws AccessorLaws EmitRows
CHECK_DEADLOCK FALSE

SPECIFICATION Spec
INVARIANTS TypeOK LvalueToRefRvalueToValue Idempotent ApplyCvLaws ConstifyLaws FactoryLaws EmitRows
CHECK_DEADLOCK FALSE

SPECIFICATION Spec
CONSTANTS
  Ts <- AllTs
  FnsOn <- AllFns
  Grid = "many"
INVARIANTS FnLaws

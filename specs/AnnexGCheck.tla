----------------------------- MODULE AnnexGCheck -----------------------------
(* C->S for C10 / Annex G: tables recorded from the real xcomplex<...,true> operators are        *)
(* validated by TLC against AnnexG (L1).                                                          *)
(*                                                                                                *)
(* Mode "classes": TLC enumerates every operator form x operand class combination (7^4 x {mul,   *)
(*   div} plus the mixed real/complex forms 7^3 x 4) and looks up the recorded row: for every    *)
(*   element type and every operator variant (value closures, reference closures, compound       *)
(*   forms) the set of result classes observed over all representatives of the operand classes.  *)
(*   Every observed result class must be allowed by the relation, and all variants must have     *)
(*   produced identical results (same classes, same checksum of the result bit patterns).        *)
(* Mode "extreme": every recorded case of the extreme-divisor clause must be a case the spec     *)
(*   admits and both quotient parts must be the correctly scaled values (see QuotientOK), for    *)
(*   every division form evaluated: complex / complex (vv vc rc), real / complex (sv sk) when    *)
(*   the dividend is real, complex / real (vs vsc) when the divisor is real.                      *)
(* Rows that fail are written out as JSON lines ("@BAD@...") and flagged in the state.           *)
EXTENDS AnnexG, TLC, Json, IOUtils

CONSTANT Mode
VARIABLES c, bad

Table == ndJsonDeserialize(IOEnv.TABLE)

FormSeq == <<"mul", "div", "mulr", "rmul", "divr", "rdiv">>
Ix(s) == CHOOSE i \in 1..7 : ClsSeq[i] = s
FIx(f) == CHOOSE i \in 1..6 : FormSeq[i] = f
RowIndex(f, x, y) ==
    IF f \in CoreOps
      THEN (FIx(f) - 1) * 2401 + (((Ix(x[1]) - 1) * 7 + (Ix(x[2]) - 1)) * 7 + (Ix(y[1]) - 1)) * 7 + Ix(y[2])
      ELSE 4802 + (FIx(f) - 3) * 343 + ((Ix(x[1]) - 1) * 7 + (Ix(x[2]) - 1)) * 7 + Ix(y[1])
NRows == 4802 + 4 * 343

Keys == [f : CoreOps, x : CC, y : CC] \cup [f : Forms \ CoreOps, x : CC, y : {Embed(d) : d \in Cls}]

SeqToSet(s) == {s[i] : i \in 1..Len(s)}

NoOut == <<"-", "-">>
Fail(t, v, out, why) == [t |-> t, v |-> v, out |-> out, why |-> why]

RowFailures(row, f, x, y) ==
    IF ~(row.f = f /\ row.x = x /\ row.y = y) THEN {Fail("-", "-", NoOut, "table row out of order or missing")}
    ELSE
      LET op == CoreOf(f)  L == LeftOf(f, x, y)  R == RightOf(f, x, y)
          ts == DOMAIN row.r
      IN UNION { UNION { LET e == row.r[t][v] IN
                           UNION { {Fail(t, v, e.outs[i], why) : why \in Broken(op, L, R, e.outs[i])} : i \in 1..Len(e.outs) }
                           \cup {Fail(t, v, e.outs[i], "not a pair of classes") : i \in {j \in 1..Len(e.outs) : e.outs[j] \notin CC}}
                           \cup (IF e.n > 0 THEN {} ELSE {Fail(t, v, NoOut, "no representative evaluated")})
                       : v \in DOMAIN row.r[t] }
                 \cup UNION { {Fail(t, v, <<w, "-">>, "variants differ: value closures, reference closures and compound forms must give identical results") :
                                  w \in {w2 \in DOMAIN row.r[t] :
                                      row.r[t][w2].sum # row.r[t][v].sum \/ SeqToSet(row.r[t][w2].outs) # SeqToSet(row.r[t][v].outs)}}
                             : v \in DOMAIN row.r[t] }
               : t \in ts }

(* The quotient must be the exactly scaled value when the divisor's squared modulus is a power of two (then every     *)
(* algorithm, also a multiplication by a reciprocal, is exact).  Otherwise "correctly scaled ... to within a few        *)
(* units of rounding" is all the property asks for: within 4 ulp of the exact quotient (a subnormal quotient: the same  *)
(* or a neighbouring binade).                                                                                            *)
CE == INSTANCE ComplexExact
QuotientOK(t, u, exp, got) ==
    IF CE!IsPow2(u[1] * u[1] + u[2] * u[2]) THEN FpMatches(exp, got)
    ELSE IF exp.k = "zero" THEN got.k = "zero"
    ELSE IF exp.e >= EMinN(t) THEN got \in CE!Near(exp, t)
    ELSE got.k = "num" /\ got.s = exp.s /\ got.e \in (exp.e - 1)..(exp.e + 1)
ExtFailures(row) ==
    IF ~(ExtremeCase(row.t, row.q, row.u, row.m, row.k) /\ row.n = GMul2(row.q, row.u))
      THEN {[v |-> "-", part |-> 0, got |-> "-", exp |-> "not a case of the clause"]}
    ELSE LET e == ExtremeExpected(row.q, row.m, row.k) IN
         UNION { {[v |-> v, part |-> i, got |-> ToJson(row.r[v][i]), exp |-> ToJson(e[i])] :
                     i \in {j \in 1..2 : ~QuotientOK(row.t, row.u, e[j], row.r[v][j])}}
                 : v \in DOMAIN row.r }

Report(key, fl) == fl = {} \/ PrintT("@BAD@" \o ToJson([key |-> key, fails |-> fl]))

InitClasses == /\ Len(Table) = NRows
               /\ \E key \in Keys :
                    LET fl == RowFailures(Table[RowIndex(key.f, key.x, key.y)], key.f, key.x, key.y) IN
                    /\ c = key /\ bad = (fl # {}) /\ Report(key, fl)
InitExtreme == \E i \in 1..Len(Table) :
                    LET row == Table[i]  fl == ExtFailures(row)
                        key == [t |-> row.t, q |-> row.q, u |-> row.u, n |-> row.n, m |-> row.m, k |-> row.k] IN
                    /\ c = key /\ bad = (fl # {}) /\ Report(key, fl)

Init == IF Mode = "classes" THEN InitClasses ELSE InitExtreme
Next == UNCHANGED <<c, bad>>
Spec == Init /\ [][Next]_<<c, bad>>
Conforms == ~bad
=============================================================================

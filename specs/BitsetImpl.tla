----------------------------- MODULE BitsetImpl -----------------------------
(***************************************************************************)
(* L2 representation specification for C03, transcribed from               *)
(* include/xtl/xdynamic_bitset.hpp: a vector of W-bit blocks plus m_size.  *)
(* One action per public member, written as the code's own steps           *)
(* (buffer resize, last-block patch, zero_unused_bits, the two shift       *)
(* paths, whole-buffer popcount, block-wise equality, all() with its mask).*)
(* TLC checks that every step is the corresponding step of Bitset (L1)     *)
(* under the refinement mapping obj[k] = bits of buf[k] below msz[k], and  *)
(* that observers computed on the representation agree with L1.            *)
(***************************************************************************)
EXTENDS Naturals, Sequences, FiniteSets, TLC

CONSTANTS W, MaxBits, MaxShift

VARIABLES buf,   \* buf[k]: sequence of blocks; a block is a function 1..W -> {0,1} (bit j-1 at index j)
          msz,   \* msz[k]: m_size
          kind,  \* "own" | "view"
          last,  \* [op, k, a, res] as in L1; res computed from the representation
          pre

ivars == <<buf, msz, kind, last, pre>>
Bit == {0, 1}
Other(k) == 3 - k

\* ---------------------------------------------------------------- block algebra
BZero      == [j \in 1..W |-> 0]
BOnes      == [j \in 1..W |-> 1]
BShl(b, r) == [j \in 1..W |-> IF j > r THEN b[j - r] ELSE 0]          \* b << r, truncated to the block
BShr(b, r) == [j \in 1..W |-> IF j + r <= W THEN b[j + r] ELSE 0]     \* b >> r
BOrB(a, b)  == [j \in 1..W |-> IF a[j] = 1 \/ b[j] = 1 THEN 1 ELSE 0]
BAndB(a, b) == [j \in 1..W |-> IF a[j] = 1 /\ b[j] = 1 THEN 1 ELSE 0]
BXorB(a, b) == [j \in 1..W |-> IF a[j] # b[j] THEN 1 ELSE 0]
BNot(b)    == [j \in 1..W |-> 1 - b[j]]
MaskLow(e) == [j \in 1..W |-> IF j <= e THEN 1 ELSE 0]                \* ~(~block_type(0) << e)
BitMask(p) == [j \in 1..W |-> IF j = (p % W) + 1 THEN 1 ELSE 0]       \* block_type(1) << bit_index(p)
PopCnt(b)  == Cardinality({j \in 1..W : b[j] = 1})
BlockCount(n) == n \div W + (IF n % W # 0 THEN 1 ELSE 0)              \* compute_block_count
BlkIdx(p)  == p \div W + 1                                            \* block_index (1-based here)
FillB(n, b) == [i \in 1..n |-> b]
VecResize(v, n, b) == [i \in 1..n |-> IF i <= Len(v) THEN v[i] ELSE b] \* std::vector::resize(n, value)

ZeroUnused(v, sz) ==                                                   \* zero_unused_bits()
    LET e == sz % W IN
    IF e # 0 THEN [v EXCEPT ![Len(v)] = BAndB(v[Len(v)], MaskLow(e))] ELSE v

\* ---------------------------------------------------------------- refinement mapping
AbsBits(v, sz) == [i \in 1..sz |-> v[((i - 1) \div W) + 1][((i - 1) % W) + 1]]
AbsObj == <<AbsBits(buf[1], msz[1]), AbsBits(buf[2], msz[2])>>

Ok(v)  == [exc |-> "none", val |-> v]
Exc(e) == [exc |-> e, val |-> <<>>]
Void   == Ok(<<>>)
NoArg  == [z |-> 0]

Do(op, k, a, nb, ns, nk, res) ==
    /\ pre'  = [obj |-> AbsObj, kind |-> kind]
    /\ buf'  = [buf EXCEPT ![k] = nb]
    /\ msz'  = [msz EXCEPT ![k] = ns]
    /\ kind' = [kind EXCEPT ![k] = nk]
    /\ last' = [op |-> op, k |-> k, a |-> a, res |-> res]
Mut(op, k, a, nb, ns, res) == Do(op, k, a, nb, ns, kind[k], res)
Obs(op, k, a, res) == Do(op, k, a, buf[k], msz[k], kind[k], res)
Own(k) == kind[k] = "own"

\* ---------------------------------------------------------------- code transcription
\* resize(asize, b)
ResizeImpl(v, sz, n, b) ==
    LET oldbc == Len(v)
        newbc == BlockCount(n)
        value == IF b = 1 THEN BOnes ELSE BZero
        v1 == IF newbc # oldbc THEN VecResize(v, newbc, value) ELSE v
        e  == sz % W
        v2 == IF b = 1 /\ n > sz /\ e > 0 THEN [v1 EXCEPT ![oldbc] = BOrB(v1[oldbc], BShl(value, e))] ELSE v1
    IN ZeroUnused(v2, n)

SetAllImpl(v, sz)   == ZeroUnused(FillB(Len(v), BOnes), sz)
ResetAllImpl(v)     == FillB(Len(v), BZero)
FlipAllImpl(v, sz)  == ZeroUnused([i \in 1..Len(v) |-> BNot(v[i])], sz)
SetPosImpl(v, p, x) == IF x = 1 THEN [v EXCEPT ![BlkIdx(p)] = BOrB(v[BlkIdx(p)], BitMask(p))]
                                ELSE [v EXCEPT ![BlkIdx(p)] = BAndB(v[BlkIdx(p)], BNot(BitMask(p)))]
FlipPosImpl(v, p)   == [v EXCEPT ![BlkIdx(p)] = BXorB(v[BlkIdx(p)], BitMask(p))]
BitAtImpl(v, p)     == v[BlkIdx(p)][(p % W) + 1]
\* copy of a bool range through iterators: *it = b for each position
CopyBits(v, bits)   == [j \in 1..Len(v) |-> [q \in 1..W |-> IF (j - 1) * W + q <= Len(bits) THEN bits[(j - 1) * W + q] ELSE v[j][q]]]

\* operator<<=(pos)
ShlImpl(v, sz, pos) ==
    IF pos >= sz THEN ResetAllImpl(v)
    ELSE IF pos = 0 THEN v
    ELSE LET lastb == Len(v) - 1                      \* 0-based index of the last block
             div == pos \div W
             r == pos % W
             rs == W - r
             \* new block at 0-based index x (>= div): from old blocks x-div and x-div-1
             moved == [x \in 1..Len(v) |->
                        LET i == (x - 1) - div IN      \* 0-based source index
                        IF i < 0 THEN BZero            \* std::fill_n(begin, div, 0)
                        ELSE IF r # 0
                             THEN IF i > 0 THEN BOrB(BShl(v[i + 1], r), BShr(v[i], rs)) ELSE BShl(v[1], r)
                             ELSE v[i + 1]]
         IN ZeroUnused(moved, sz)

\* operator>>=(pos)  (no zero_unused_bits: zeros enter from above)
ShrImpl(v, sz, pos) ==
    IF pos >= sz THEN ResetAllImpl(v)
    ELSE IF pos = 0 THEN v
    ELSE LET lastb == Len(v) - 1
             div == pos \div W
             r == pos % W
             ls == W - r
         IN [x \in 1..Len(v) |->
                LET i == (x - 1) + div IN              \* 0-based source index
                IF i > lastb THEN BZero                \* std::fill_n(begin + block_count - div, div, 0)
                ELSE IF r # 0
                     THEN IF i < lastb THEN BOrB(BShr(v[i + 1], r), BShl(v[i + 2], ls)) ELSE BShr(v[lastb + 1], r)
                     ELSE v[i + 1]]

BinImpl(f(_, _), v, u) == [i \in 1..Len(v) |-> f(v[i], u[i])]

\* observers on the representation
RECURSIVE CountUpTo(_, _)
CountUpTo(v, i) == IF i = 0 THEN 0 ELSE PopCnt(v[i]) + CountUpTo(v, i - 1)
CountImpl(v) == CountUpTo(v, Len(v))                                  \* whole-buffer popcount
AnyImpl(v)   == \E i \in 1..Len(v) : v[i] # BZero
AllImpl(v, sz) ==
    IF sz = 0 THEN TRUE
    ELSE LET e == sz % W
             n == IF e # 0 THEN Len(v) - 1 ELSE Len(v)
         IN /\ \A i \in 1..n : v[i] = BOnes
            /\ (e # 0 => v[Len(v)] = MaskLow(e))
EqImpl == msz[1] = msz[2] /\ \A i \in 1..Len(buf[1]) : buf[1][i] = buf[2][i]

\* block arguments arrive as limb sequences <<x>> with x < 2^W (W < 16 in the model)
BlockOfLimbs(l) == [j \in 1..W |-> (l[1] \div (2 ^ (j - 1))) % 2]
BlocksOf(bl)    == [i \in 1..Len(bl) |-> BlockOfLimbs(bl[i])]
RECURSIVE LimbFrom(_, _)
LimbFrom(b, j)  == IF j > W THEN 0 ELSE b[j] + 2 * LimbFrom(b, j + 1)
LimbOfBlock(b)  == <<LimbFrom(b, 1)>>
BitsValImpl(v, sz) == [bits |-> AbsBits(v, sz), blk |-> [i \in 1..Len(v) |-> LimbOfBlock(v[i])], size |-> sz]

\* ---------------------------------------------------------------- actions
CtorDefault(k)  == Do("CtorDefault", k, NoArg, <<>>, 0, "own", Void)
CtorN(k, n)     == Do("CtorN", k, [n |-> n], FillB(BlockCount(n), BZero), n, "own", Void)
CtorNV(k, n, v) == Do("CtorNV", k, [n |-> n, v |-> v],
                      ZeroUnused(FillB(BlockCount(n), IF v = 1 THEN BOnes ELSE BZero), n), n, "own", Void)
CtorIL(k, bits) == Do("CtorIL", k, [bits |-> bits],
                      CopyBits(FillB(BlockCount(Len(bits)), BZero), bits), Len(bits), "own", Void)
CtorBlocks(k, bl) == Do("CtorBlocks", k, [blocks |-> bl], BlocksOf(bl), Len(bl) * W, "own", Void)
CtorCopy(k)     == Do("CtorCopy", k, NoArg, buf[Other(k)], msz[Other(k)], "own", Void)
CtorView(k, bl, n) == /\ BlockCount(n) = Len(bl)
                      /\ Do("CtorView", k, [blocks |-> bl, n |-> n], ZeroUnused(BlocksOf(bl), n), n, "view", Void)

AssignNV(k, n, v) == Own(k) /\
    LET v1 == ResizeImpl(buf[k], msz[k], n, 0) IN
    Mut("AssignNV", k, [n |-> n, v |-> v], IF v = 1 THEN SetAllImpl(v1, n) ELSE ResetAllImpl(v1), n, Void)
AssignIL(k, bits) == Own(k) /\
    Mut("AssignIL", k, [bits |-> bits], CopyBits(ResizeImpl(buf[k], msz[k], Len(bits), 0), bits), Len(bits), Void)
AssignBlocks(k, bl) == Own(k) /\
    LET v1 == ResizeImpl(buf[k], msz[k], Len(bl) * W, 0) IN
    Mut("AssignBlocks", k, [blocks |-> bl], [i \in 1..Len(v1) |-> BlocksOf(bl)[i]], Len(bl) * W, Void)
CopyAssign(k) == Own(k) /\ Mut("CopyAssign", k, NoArg, buf[Other(k)], msz[Other(k)], Void)

Resize(k, n, v) == Own(k) /\ Mut("Resize", k, [n |-> n, v |-> v], ResizeImpl(buf[k], msz[k], n, v), n, Void)
Resize1(k, n)   == Own(k) /\ Mut("Resize1", k, [n |-> n], ResizeImpl(buf[k], msz[k], n, 0), n, Void)
ResizeView(k, n) == kind[k] = "view" /\ Obs("ResizeView", k, [n |-> n], IF n # msz[k] THEN Exc("runtime_error") ELSE Void)
Clear(k)        == Own(k) /\ Mut("Clear", k, NoArg, <<>>, 0, Void)
PushBack(k, v)  == Own(k) /\
    LET s == msz[k]  v1 == ResizeImpl(buf[k], s, s + 1, 0) IN
    Mut("PushBack", k, [v |-> v], SetPosImpl(v1, s, v), s + 1, Void)
PopBack(k) == Own(k) /\ msz[k] > 0 /\
    LET oldbc == Len(buf[k])  newbc == BlockCount(msz[k] - 1)
        v1 == IF newbc # oldbc THEN SubSeq(buf[k], 1, oldbc - 1) ELSE buf[k]
    IN Mut("PopBack", k, NoArg, ZeroUnused(v1, msz[k] - 1), msz[k] - 1, Void)

SetAll(k)    == Mut("SetAll", k, NoArg, SetAllImpl(buf[k], msz[k]), msz[k], Void)
ResetAll(k)  == Mut("ResetAll", k, NoArg, ResetAllImpl(buf[k]), msz[k], Void)
FlipAll(k)   == Mut("FlipAll", k, NoArg, FlipAllImpl(buf[k], msz[k]), msz[k], Void)
Set(k, i, v) == i < msz[k] /\ Mut("Set", k, [i |-> i, v |-> v], SetPosImpl(buf[k], i, v), msz[k], Void)
Set1(k, i)   == i < msz[k] /\ Mut("Set1", k, [i |-> i], SetPosImpl(buf[k], i, 1), msz[k], Void)
ResetBit(k, i) == i < msz[k] /\ Mut("ResetBit", k, [i |-> i], SetPosImpl(buf[k], i, 0), msz[k], Void)
Flip(k, i)   == i < msz[k] /\ Mut("Flip", k, [i |-> i], FlipPosImpl(buf[k], i), msz[k], Void)
ShlEq(k, p)  == Mut("ShlEq", k, [p |-> p], ShlImpl(buf[k], msz[k], p), msz[k], Void)
ShrEq(k, p)  == Mut("ShrEq", k, [p |-> p], ShrImpl(buf[k], msz[k], p), msz[k], Void)
SameSize(k)  == msz[k] = msz[Other(k)]
AndEq(k) == SameSize(k) /\ Mut("AndEq", k, NoArg, BinImpl(BAndB, buf[k], buf[Other(k)]), msz[k], Void)
OrEq(k)  == SameSize(k) /\ Mut("OrEq", k, NoArg, BinImpl(BOrB, buf[k], buf[Other(k)]), msz[k], Void)
XorEq(k) == SameSize(k) /\ Mut("XorEq", k, NoArg, BinImpl(BXorB, buf[k], buf[Other(k)]), msz[k], Void)
\* operators returning a temporary: copy (blocks + size), then the compound form
Not(k)    == Obs("Not", k, NoArg, Ok(BitsValImpl(FlipAllImpl(buf[k], msz[k]), msz[k])))
And(k)    == SameSize(k) /\ Obs("And", k, NoArg, Ok(BitsValImpl(BinImpl(BAndB, buf[k], buf[Other(k)]), msz[k])))
Or(k)     == SameSize(k) /\ Obs("Or", k, NoArg, Ok(BitsValImpl(BinImpl(BOrB, buf[k], buf[Other(k)]), msz[k])))
Xor(k)    == SameSize(k) /\ Obs("Xor", k, NoArg, Ok(BitsValImpl(BinImpl(BXorB, buf[k], buf[Other(k)]), msz[k])))
Shl(k, p) == Obs("Shl", k, [p |-> p], Ok(BitsValImpl(ShlImpl(buf[k], msz[k], p), msz[k])))
Shr(k, p) == Obs("Shr", k, [p |-> p], Ok(BitsValImpl(ShrImpl(buf[k], msz[k], p), msz[k])))
Swap(k) == /\ Own(1) /\ Own(2)
           /\ pre' = [obj |-> AbsObj, kind |-> kind]
           /\ buf' = <<buf[2], buf[1]>> /\ msz' = <<msz[2], msz[1]>> /\ UNCHANGED kind
           /\ last' = [op |-> "Swap", k |-> k, a |-> NoArg, res |-> Void]
\* at(i): range check on the bit index, then the element reference
At(k, i) == Obs("At", k, [i |-> i], IF i >= msz[k] THEN Exc("out_of_range") ELSE Ok(<<BitAtImpl(buf[k], i)>>))
Read(k, path, i) ==
    /\ i < msz[k]
    /\ path \in {"front", "cfront"} => i = 0
    /\ path \in {"back", "cback"} => i = msz[k] - 1
    /\ Obs("Read", k, [path |-> path, i |-> i], Ok(<<IF path = "neg" THEN 1 - BitAtImpl(buf[k], i) ELSE BitAtImpl(buf[k], i)>>))
RefWrite(k, path, i, wk, v, j) ==
    /\ i < msz[k] /\ j < msz[k]
    /\ path = "front" => i = 0
    /\ path = "back" => i = msz[k] - 1
    /\ LET old == BitAtImpl(buf[k], i)
           nb == CASE wk = "assign" -> SetPosImpl(buf[k], i, v)
                   [] wk = "and"    -> IF v = 0 THEN SetPosImpl(buf[k], i, 0) ELSE buf[k]
                   [] wk = "or"     -> IF v = 1 THEN SetPosImpl(buf[k], i, 1) ELSE buf[k]
                   [] wk = "xor"    -> IF v = 1 THEN FlipPosImpl(buf[k], i) ELSE buf[k]
                   [] wk = "flip"   -> FlipPosImpl(buf[k], i)
                   [] wk = "aref"   -> SetPosImpl(buf[k], i, BitAtImpl(buf[k], j))
       IN Mut("RefWrite", k, [path |-> path, i |-> i, wk |-> wk, v |-> v, j |-> j], nb, msz[k], Void)

\* ---------------------------------------------------------------- next-state relation
Sizes == 0..MaxBits
BitSeqs(n) == UNION {[1..m -> Bit] : m \in 0..n}
LimbSeqs(n) == UNION {[1..m -> {<<x>> : x \in 0..(2 ^ W - 1)}] : m \in 0..n}
Idx(k) == 0..(msz[k] - 1)
ReadPaths == {"cindex", "front", "back", "iter", "riter", "neg"}
WritePaths == {"index", "front", "back"}
WriteKinds == {"assign", "and", "or", "xor", "flip", "aref"}

Init == /\ buf = <<<<>>, <<>>>> /\ msz = <<0, 0>> /\ kind = <<"own", "own">>
        /\ last = [op |-> "Init", k |-> 0, a |-> NoArg, res |-> Void]
        /\ pre = [obj |-> <<<<>>, <<>>>>, kind |-> <<"own", "own">>]

NextK(k) ==
    \/ CtorDefault(k) \/ CtorCopy(k) \/ CopyAssign(k) \/ Clear(k) \/ PopBack(k) \/ Swap(k)
    \/ \E n \in Sizes : CtorN(k, n) \/ Resize1(k, n) \/ ResizeView(k, n)
    \/ \E n \in Sizes, v \in Bit : CtorNV(k, n, v) \/ AssignNV(k, n, v) \/ Resize(k, n, v)
    \/ \E b \in BitSeqs(MaxBits) : CtorIL(k, b) \/ AssignIL(k, b)
    \/ \E bl \in LimbSeqs(MaxBits \div W) : CtorBlocks(k, bl) \/ AssignBlocks(k, bl)
    \/ \E bl \in LimbSeqs(BlockCount(MaxBits)), n \in Sizes : CtorView(k, bl, n)
    \/ \E v \in Bit : PushBack(k, v)
    \/ SetAll(k) \/ ResetAll(k) \/ FlipAll(k) \/ Not(k)
    \/ \E i \in Idx(k) : Set1(k, i) \/ ResetBit(k, i) \/ Flip(k, i) \/ (\E v \in Bit : Set(k, i, v))
    \/ \E p \in 0..MaxShift : ShlEq(k, p) \/ ShrEq(k, p) \/ Shl(k, p) \/ Shr(k, p)
    \/ AndEq(k) \/ OrEq(k) \/ XorEq(k) \/ And(k) \/ Or(k) \/ Xor(k)
    \/ \E i \in 0..(BlockCount(MaxBits) * W + 1) : At(k, i)
    \/ \E i \in Idx(k), path \in ReadPaths : Read(k, path, i)
    \/ \E i \in Idx(k), path \in WritePaths, wk \in WriteKinds, v \in Bit, j \in Idx(k) :
          /\ (wk \in {"flip", "aref"} => v = 0) /\ (wk # "aref" => j = 0)
          /\ RefWrite(k, path, i, wk, v, j)

Next == \E k \in {1, 2} : NextK(k)
SizeBound == msz[1] <= MaxBits /\ msz[2] <= MaxBits
Spec == Init /\ [][Next]_ivars
absview == <<buf, msz, kind>>

\* ---------------------------------------------------------------- what TLC checks
\* representation invariants
RepInv == \A k \in {1, 2} :
    /\ Len(buf[k]) = BlockCount(msz[k])
    /\ \A i \in 1..Len(buf[k]) : \A j \in 1..W : ((i - 1) * W + j > msz[k]) => buf[k][i][j] = 0   \* unused bits are zero

\* observers computed on the representation agree with the abstract sequence
A == INSTANCE Bitset WITH w <- W, obj <- AbsObj, Widths <- {W}, Targets <- {1, 2}, OtherInit <- {}, ILArgs <- {},
                          LimbReps <- 0..(2 ^ W - 1), Classes <- {}, EmitOps <- {}
ObserversAgree == \A k \in {1, 2} : LET s == AbsObj[k] IN
    /\ CountImpl(buf[k]) = A!Count(s)
    /\ AnyImpl(buf[k]) = (\E i \in 1..Len(s) : s[i] = 1)
    /\ AllImpl(buf[k], msz[k]) = (\A i \in 1..Len(s) : s[i] = 1)
    /\ EqImpl = (AbsObj[1] = AbsObj[2])
    /\ [i \in 1..Len(buf[k]) |-> LimbOfBlock(buf[k][i])] = A!Limbs(s, W)

\* every L2 step is the L1 step of the same call with the same arguments (refinement)
StepRefines == LET k == last'.k  a == last'.a  o == last'.op IN
    \/ o = "CtorDefault"  /\ A!CtorDefault(k)
    \/ o = "CtorN"        /\ A!CtorN(k, a.n)
    \/ o = "CtorNV"       /\ A!CtorNV(k, a.n, a.v)
    \/ o = "CtorIL"       /\ A!CtorIL(k, a.bits)
    \/ o = "CtorBlocks"   /\ A!CtorBlocks(k, a.blocks)
    \/ o = "CtorCopy"     /\ A!CtorCopy(k)
    \/ o = "CtorView"     /\ A!CtorView(k, a.blocks, a.n)
    \/ o = "AssignNV"     /\ A!AssignNV(k, a.n, a.v)
    \/ o = "AssignIL"     /\ A!AssignIL(k, a.bits)
    \/ o = "AssignBlocks" /\ A!AssignBlocks(k, a.blocks)
    \/ o = "CopyAssign"   /\ A!CopyAssign(k)
    \/ o = "Resize"       /\ A!Resize(k, a.n, a.v)
    \/ o = "Resize1"      /\ A!Resize1(k, a.n)
    \/ o = "ResizeView"   /\ A!ResizeView(k, a.n)
    \/ o = "Clear"        /\ A!Clear(k)
    \/ o = "PushBack"     /\ A!PushBack(k, a.v)
    \/ o = "PopBack"      /\ A!PopBack(k)
    \/ o = "SetAll"       /\ A!SetAll(k)
    \/ o = "ResetAll"     /\ A!ResetAll(k)
    \/ o = "FlipAll"      /\ A!FlipAll(k)
    \/ o = "Set"          /\ A!Set(k, a.i, a.v)
    \/ o = "Set1"         /\ A!Set1(k, a.i)
    \/ o = "ResetBit"     /\ A!Reset(k, a.i)
    \/ o = "Flip"         /\ A!Flip(k, a.i)
    \/ o = "ShlEq"        /\ A!ShlEq(k, a.p)
    \/ o = "ShrEq"        /\ A!ShrEq(k, a.p)
    \/ o = "AndEq"        /\ A!AndEq(k)
    \/ o = "OrEq"         /\ A!OrEq(k)
    \/ o = "XorEq"        /\ A!XorEq(k)
    \/ o = "Not"          /\ A!Not(k)
    \/ o = "And"          /\ A!And(k)
    \/ o = "Or"           /\ A!Or(k)
    \/ o = "Xor"          /\ A!Xor(k)
    \/ o = "Shl"          /\ A!Shl(k, a.p)
    \/ o = "Shr"          /\ A!Shr(k, a.p)
    \/ o = "Swap"         /\ A!Swap(k)
    \/ o = "At"           /\ A!At(k, a.i)
    \/ o = "Read"         /\ A!Read(k, a.path, a.i)
    \/ o = "RefWrite"     /\ A!RefWrite(k, a.path, a.i, a.wk, a.v, a.j)
Refines == [][StepRefines]_ivars
=============================================================================

----------------------------- MODULE BitsetImpl -----------------------------
(***************************************************************************)
(* L2 representation specification for C03, transcribed from               *)
(* include/xtl/xdynamic_bitset.hpp: a vector of W-bit blocks plus m_size.  *)
(* One action per public member, written as the code's own steps           *)
(* (buffer resize, last-block patch, zero_unused_bits, the two shift       *)
(* paths, whole-buffer popcount, block-wise equality, all() with its mask).*)
(* TLC checks that every step is the corresponding step of Bitset (L1)     *)
(* under the refinement mapping obj[k] = bits of buf[k] below msz[k], and  *)
(* that observers computed on the representation agree with L1.            *)
(***************************************************************************)
EXTENDS Naturals, Sequences, FiniteSets, TLC

CONSTANTS W, MaxBits, MaxShift,
          MoveKeepsSize,  \* TRUE: the defaulted move operations (m_size is copied, the vector is emptied);
                          \* FALSE: the move operations leave the source empty (proposed fix C03-03)
          ObserveMoved,   \* TRUE: the moved-from object is kept and observed (re = 0 moves are explored)
          Targets,        \* objects the model checker applies operations to
          OtherSeqs,      \* bit sequences the non-target object may be given directly
          SplitNext       \* TRUE: the factored next-state relation (see NextSplit) - two-object coverage without the square

VARIABLES buf,   \* buf[k]: sequence of blocks; a block is a function 1..W -> {0,1} (bit j-1 at index j)
          msz,   \* msz[k]: m_size
          kind,  \* "own" | "view"
          last,  \* [op, k, a, res] as in L1; res computed from the representation
          pre

ivars == <<buf, msz, kind, last, pre>>
Bit == {0, 1}
Other(k) == 3 - k

\* ---------------------------------------------------------------- block algebra
BZero      == [j \in 1..W |-> 0]
BOnes      == [j \in 1..W |-> 1]
BShl(b, r) == [j \in 1..W |-> IF j > r THEN b[j - r] ELSE 0]          \* b << r, truncated to the block
BShr(b, r) == [j \in 1..W |-> IF j + r <= W THEN b[j + r] ELSE 0]     \* b >> r
BOrB(a, b)  == [j \in 1..W |-> IF a[j] = 1 \/ b[j] = 1 THEN 1 ELSE 0]
BAndB(a, b) == [j \in 1..W |-> IF a[j] = 1 /\ b[j] = 1 THEN 1 ELSE 0]
BXorB(a, b) == [j \in 1..W |-> IF a[j] # b[j] THEN 1 ELSE 0]
BNot(b)    == [j \in 1..W |-> 1 - b[j]]
MaskLow(e) == [j \in 1..W |-> IF j <= e THEN 1 ELSE 0]                \* ~(~block_type(0) << e)
BitMask(p) == [j \in 1..W |-> IF j = (p % W) + 1 THEN 1 ELSE 0]       \* block_type(1) << bit_index(p)
PopCnt(b)  == Cardinality({j \in 1..W : b[j] = 1})
BlockCount(n) == n \div W + (IF n % W # 0 THEN 1 ELSE 0)              \* compute_block_count
BlkIdx(p)  == p \div W + 1                                            \* block_index (1-based here)
FillB(n, b) == [i \in 1..n |-> b]
VecResize(v, n, b) == [i \in 1..n |-> IF i <= Len(v) THEN v[i] ELSE b] \* std::vector::resize(n, value)

ZeroUnused(v, sz) ==                                                   \* zero_unused_bits()
    LET e == sz % W IN
    IF e # 0 THEN [v EXCEPT ![Len(v)] = BAndB(v[Len(v)], MaskLow(e))] ELSE v

\* ---------------------------------------------------------------- refinement mapping
AbsBits(v, sz) == [i \in 1..sz |-> v[((i - 1) \div W) + 1][((i - 1) % W) + 1]]
AbsObj == <<AbsBits(buf[1], msz[1]), AbsBits(buf[2], msz[2])>>

Ok(v)  == [exc |-> "none", val |-> v]
Exc(e) == [exc |-> e, val |-> <<>>]
Void   == Ok(<<>>)
NoArg  == [z |-> 0]

Do(op, k, a, nb, ns, nk, res) ==
    /\ pre'  = [obj |-> AbsObj, kind |-> kind]
    /\ buf'  = [buf EXCEPT ![k] = nb]
    /\ msz'  = [msz EXCEPT ![k] = ns]
    /\ kind' = [kind EXCEPT ![k] = nk]
    /\ last' = [op |-> op, k |-> k, a |-> a, res |-> res]
Mut(op, k, a, nb, ns, res) == Do(op, k, a, nb, ns, kind[k], res)
Obs(op, k, a, res) == Do(op, k, a, buf[k], msz[k], kind[k], res)
Own(k) == kind[k] = "own"

\* ---------------------------------------------------------------- code transcription
\* resize(asize, b)
ResizeImpl(v, sz, n, b) ==
    LET oldbc == Len(v)
        newbc == BlockCount(n)
        value == IF b = 1 THEN BOnes ELSE BZero
        v1 == IF newbc # oldbc THEN VecResize(v, newbc, value) ELSE v
        e  == sz % W
        v2 == IF b = 1 /\ n > sz /\ e > 0 THEN [v1 EXCEPT ![oldbc] = BOrB(v1[oldbc], BShl(value, e))] ELSE v1
    IN ZeroUnused(v2, n)

SetAllImpl(v, sz)   == ZeroUnused(FillB(Len(v), BOnes), sz)
ResetAllImpl(v)     == FillB(Len(v), BZero)
FlipAllImpl(v, sz)  == ZeroUnused([i \in 1..Len(v) |-> BNot(v[i])], sz)
SetPosImpl(v, p, x) == IF x = 1 THEN [v EXCEPT ![BlkIdx(p)] = BOrB(v[BlkIdx(p)], BitMask(p))]
                                ELSE [v EXCEPT ![BlkIdx(p)] = BAndB(v[BlkIdx(p)], BNot(BitMask(p)))]
FlipPosImpl(v, p)   == [v EXCEPT ![BlkIdx(p)] = BXorB(v[BlkIdx(p)], BitMask(p))]
BitAtImpl(v, p)     == v[BlkIdx(p)][(p % W) + 1]
\* copy of a bool range through iterators: *it = b for each position
CopyBits(v, bits)   == [j \in 1..Len(v) |-> [q \in 1..W |-> IF (j - 1) * W + q <= Len(bits) THEN bits[(j - 1) * W + q] ELSE v[j][q]]]

\* operator<<=(pos)
ShlImpl(v, sz, pos) ==
    IF pos >= sz THEN ResetAllImpl(v)
    ELSE IF pos = 0 THEN v
    ELSE LET lastb == Len(v) - 1                      \* 0-based index of the last block
             div == pos \div W
             r == pos % W
             rs == W - r
             \* new block at 0-based index x (>= div): from old blocks x-div and x-div-1
             moved == [x \in 1..Len(v) |->
                        LET i == (x - 1) - div IN      \* 0-based source index
                        IF i < 0 THEN BZero            \* std::fill_n(begin, div, 0)
                        ELSE IF r # 0
                             THEN IF i > 0 THEN BOrB(BShl(v[i + 1], r), BShr(v[i], rs)) ELSE BShl(v[1], r)
                             ELSE v[i + 1]]
         IN ZeroUnused(moved, sz)

\* operator>>=(pos)  (no zero_unused_bits: zeros enter from above)
ShrImpl(v, sz, pos) ==
    IF pos >= sz THEN ResetAllImpl(v)
    ELSE IF pos = 0 THEN v
    ELSE LET lastb == Len(v) - 1
             div == pos \div W
             r == pos % W
             ls == W - r
         IN [x \in 1..Len(v) |->
                LET i == (x - 1) + div IN              \* 0-based source index
                IF i > lastb THEN BZero                \* std::fill_n(begin + block_count - div, div, 0)
                ELSE IF r # 0
                     THEN IF i < lastb THEN BOrB(BShr(v[i + 1], r), BShl(v[i + 2], ls)) ELSE BShr(v[lastb + 1], r)
                     ELSE v[i + 1]]

BinImpl(f(_, _), v, u) == [i \in 1..Len(v) |-> f(v[i], u[i])]

\* observers on the representation
RECURSIVE CountUpTo(_, _)
CountUpTo(v, i) == IF i = 0 THEN 0 ELSE PopCnt(v[i]) + CountUpTo(v, i - 1)
CountImpl(v) == CountUpTo(v, Len(v))                                  \* whole-buffer popcount
AnyImpl(v)   == \E i \in 1..Len(v) : v[i] # BZero
AllImpl(v, sz) ==
    IF sz = 0 THEN TRUE
    ELSE LET e == sz % W
             n == IF e # 0 THEN Len(v) - 1 ELSE Len(v)
         IN /\ \A i \in 1..n : v[i] = BOnes
            /\ (e # 0 => v[Len(v)] = MaskLow(e))
EqImpl == msz[1] = msz[2] /\ \A i \in 1..Len(buf[1]) : buf[1][i] = buf[2][i]

\* block arguments arrive as limb sequences <<x>> with x < 2^W (W < 16 in the model)
BlockOfLimbs(l) == [j \in 1..W |-> (l[1] \div (2 ^ (j - 1))) % 2]
BlocksOf(bl)    == [i \in 1..Len(bl) |-> BlockOfLimbs(bl[i])]
RECURSIVE LimbFrom(_, _)
LimbFrom(b, j)  == IF j > W THEN 0 ELSE b[j] + 2 * LimbFrom(b, j + 1)
LimbOfBlock(b)  == <<LimbFrom(b, 1)>>
BitsValImpl(v, sz) == [bits |-> AbsBits(v, sz), blk |-> [i \in 1..Len(v) |-> LimbOfBlock(v[i])], size |-> sz]

\* ---------------------------------------------------------------- actions
CtorDefault(k)  == Do("CtorDefault", k, NoArg, <<>>, 0, "own", Void)
CtorN(k, n)     == Do("CtorN", k, [n |-> n], FillB(BlockCount(n), BZero), n, "own", Void)
CtorNV(k, n, v) == Do("CtorNV", k, [n |-> n, v |-> v],
                      ZeroUnused(FillB(BlockCount(n), IF v = 1 THEN BOnes ELSE BZero), n), n, "own", Void)
CtorIL(k, bits) == Do("CtorIL", k, [bits |-> bits],
                      CopyBits(FillB(BlockCount(Len(bits)), BZero), bits), Len(bits), "own", Void)
CtorBlocks(k, bl) == Do("CtorBlocks", k, [blocks |-> bl], BlocksOf(bl), Len(bl) * W, "own", Void)
CtorAlloc(k)    == Do("CtorAlloc", k, NoArg, <<>>, 0, "own", Void)
CtorCopy(k)     == Do("CtorCopy", k, NoArg, buf[Other(k)], msz[Other(k)], "own", Void)
\* move construction / assignment: the vector is moved (the source's becomes empty), m_size is copied or reset;
\* re = 1: the harness destroys the source and default-constructs it again
DoMove(op, k, re) ==
    LET o == Other(k)
        left == IF re = 1 \/ ~MoveKeepsSize THEN 0 ELSE msz[o]
    IN /\ kind[1] = "own" /\ kind[2] = "own"
       /\ pre'  = [obj |-> AbsObj, kind |-> kind]
       /\ buf'  = IF k = 1 THEN <<buf[2], <<>>>> ELSE <<<<>>, buf[1]>>
       /\ msz'  = IF k = 1 THEN <<msz[2], left>> ELSE <<left, msz[1]>>
       /\ UNCHANGED kind
       /\ last' = [op |-> op, k |-> k, a |-> [re |-> re], res |-> Void]
CtorMove(k, re)   == DoMove("CtorMove", k, re)
MoveAssign(k, re) == DoMove("MoveAssign", k, re)
CtorView(k, bl, n) == /\ BlockCount(n) = Len(bl)
                      /\ Do("CtorView", k, [blocks |-> bl, n |-> n], ZeroUnused(BlocksOf(bl), n), n, "view", Void)

AssignNV(k, n, v) == Own(k) /\
    LET v1 == ResizeImpl(buf[k], msz[k], n, 0) IN
    Mut("AssignNV", k, [n |-> n, v |-> v], IF v = 1 THEN SetAllImpl(v1, n) ELSE ResetAllImpl(v1), n, Void)
AssignIL(k, bits) == Own(k) /\
    Mut("AssignIL", k, [bits |-> bits], CopyBits(ResizeImpl(buf[k], msz[k], Len(bits), 0), bits), Len(bits), Void)
AssignBlocks(k, bl) == Own(k) /\
    LET v1 == ResizeImpl(buf[k], msz[k], Len(bl) * W, 0) IN
    Mut("AssignBlocks", k, [blocks |-> bl], [i \in 1..Len(v1) |-> BlocksOf(bl)[i]], Len(bl) * W, Void)
Src(k, sf) == IF sf = 1 THEN k ELSE Other(k)
SelfArg(sf) == [self |-> sf]
CopyAssign(k, sf) == Own(k) /\ Mut("CopyAssign", k, SelfArg(sf), buf[Src(k, sf)], msz[Src(k, sf)], Void)

Resize(k, n, v) == Own(k) /\ Mut("Resize", k, [n |-> n, v |-> v], ResizeImpl(buf[k], msz[k], n, v), n, Void)
Resize1(k, n)   == Own(k) /\ Mut("Resize1", k, [n |-> n], ResizeImpl(buf[k], msz[k], n, 0), n, Void)
ResizeView(k, n) == kind[k] = "view" /\ Obs("ResizeView", k, [n |-> n], IF n # msz[k] THEN Exc("runtime_error") ELSE Void)
Clear(k)        == Own(k) /\ Mut("Clear", k, NoArg, <<>>, 0, Void)
\* reserve(new_cap): m_buffer.reserve(compute_block_count(new_cap)); capacity() = m_buffer.capacity() * bits per block
Reserve(k, n)   == Own(k) /\ Obs("Reserve", k, [n |-> n],
                       Ok(<<(IF BlockCount(n) > Len(buf[k]) THEN BlockCount(n) ELSE Len(buf[k])) * W>>))
MaxSize(k)      == Own(k) /\ Obs("MaxSize", k, NoArg, Ok(<<1073741824>>))
PushBack(k, v)  == Own(k) /\
    LET s == msz[k]  v1 == ResizeImpl(buf[k], s, s + 1, 0) IN
    Mut("PushBack", k, [v |-> v], SetPosImpl(v1, s, v), s + 1, Void)
PopBack(k) == Own(k) /\ msz[k] > 0 /\
    LET oldbc == Len(buf[k])  newbc == BlockCount(msz[k] - 1)
        v1 == IF newbc # oldbc THEN SubSeq(buf[k], 1, oldbc - 1) ELSE buf[k]
    IN Mut("PopBack", k, NoArg, ZeroUnused(v1, msz[k] - 1), msz[k] - 1, Void)

SetAll(k)    == Mut("SetAll", k, NoArg, SetAllImpl(buf[k], msz[k]), msz[k], Void)
ResetAll(k)  == Mut("ResetAll", k, NoArg, ResetAllImpl(buf[k]), msz[k], Void)
FlipAll(k)   == Mut("FlipAll", k, NoArg, FlipAllImpl(buf[k], msz[k]), msz[k], Void)
Set(k, i, v) == i < msz[k] /\ Mut("Set", k, [i |-> i, v |-> v], SetPosImpl(buf[k], i, v), msz[k], Void)
Set1(k, i)   == i < msz[k] /\ Mut("Set1", k, [i |-> i], SetPosImpl(buf[k], i, 1), msz[k], Void)
ResetBit(k, i) == i < msz[k] /\ Mut("ResetBit", k, [i |-> i], SetPosImpl(buf[k], i, 0), msz[k], Void)
Flip(k, i)   == i < msz[k] /\ Mut("Flip", k, [i |-> i], FlipPosImpl(buf[k], i), msz[k], Void)
ShlEq(k, p)  == Mut("ShlEq", k, [p |-> p], ShlImpl(buf[k], msz[k], p), msz[k], Void)
ShrEq(k, p)  == Mut("ShrEq", k, [p |-> p], ShrImpl(buf[k], msz[k], p), msz[k], Void)
SameSize(k)  == msz[k] = msz[Other(k)]
BinOK(k, sf) == sf = 1 \/ SameSize(k)
AndEq(k, sf) == BinOK(k, sf) /\ Mut("AndEq", k, SelfArg(sf), BinImpl(BAndB, buf[k], buf[Src(k, sf)]), msz[k], Void)
OrEq(k, sf)  == BinOK(k, sf) /\ Mut("OrEq", k, SelfArg(sf), BinImpl(BOrB, buf[k], buf[Src(k, sf)]), msz[k], Void)
XorEq(k, sf) == BinOK(k, sf) /\ Mut("XorEq", k, SelfArg(sf), BinImpl(BXorB, buf[k], buf[Src(k, sf)]), msz[k], Void)
\* operators returning a temporary: copy (blocks + size), then the compound form
Not(k)    == Obs("Not", k, NoArg, Ok(BitsValImpl(FlipAllImpl(buf[k], msz[k]), msz[k])))
And(k, sf) == BinOK(k, sf) /\ Obs("And", k, SelfArg(sf), Ok(BitsValImpl(BinImpl(BAndB, buf[k], buf[Src(k, sf)]), msz[k])))
Or(k, sf)  == BinOK(k, sf) /\ Obs("Or", k, SelfArg(sf), Ok(BitsValImpl(BinImpl(BOrB, buf[k], buf[Src(k, sf)]), msz[k])))
Xor(k, sf) == BinOK(k, sf) /\ Obs("Xor", k, SelfArg(sf), Ok(BitsValImpl(BinImpl(BXorB, buf[k], buf[Src(k, sf)]), msz[k])))
Shl(k, p) == Obs("Shl", k, [p |-> p], Ok(BitsValImpl(ShlImpl(buf[k], msz[k], p), msz[k])))
Shr(k, p) == Obs("Shr", k, [p |-> p], Ok(BitsValImpl(ShrImpl(buf[k], msz[k], p), msz[k])))
\* swap(rhs): std::swap of the two buffers and of the two sizes (for views: of the two spans); std::swap / ADL swap
\* of two owning bitsets is three moves, whose net effect is the same whatever a move leaves behind
Swap(k, how, sf) ==
    LET o == Src(k, sf) IN
        /\ kind[k] = kind[o]
        /\ (kind[k] = "view" \/ sf = 1) => how = "member"
        /\ pre' = [obj |-> AbsObj, kind |-> kind]
        /\ buf' = IF o = k THEN buf ELSE <<buf[2], buf[1]>>
        /\ msz' = IF o = k THEN msz ELSE <<msz[2], msz[1]>>
        /\ UNCHANGED kind
        /\ last' = [op |-> "Swap", k |-> k, a |-> [how |-> how, self |-> sf], res |-> Void]
\* at(i): range check on the bit index, then the element reference
At(k, c, i) == Obs("At", k, [c |-> c, i |-> i], IF i >= msz[k] THEN Exc("out_of_range") ELSE Ok(<<BitAtImpl(buf[k], i)>>))
Read(k, path, i) ==
    /\ i < msz[k]
    /\ path \in {"front", "cfront"} => i = 0
    /\ path \in {"back", "cback"} => i = msz[k] - 1
    /\ Obs("Read", k, [path |-> path, i |-> i], Ok(<<IF path = "neg" THEN 1 - BitAtImpl(buf[k], i) ELSE BitAtImpl(buf[k], i)>>))
RefWrite(k, path, i, wk, v, j) ==
    /\ i < msz[k] /\ j < msz[k]
    /\ path = "front" => i = 0
    /\ path = "back" => i = msz[k] - 1
    /\ LET old == BitAtImpl(buf[k], i)
           nb == CASE wk = "assign" -> SetPosImpl(buf[k], i, v)
                   [] wk = "and"    -> IF v = 0 THEN SetPosImpl(buf[k], i, 0) ELSE buf[k]
                   [] wk = "or"     -> IF v = 1 THEN SetPosImpl(buf[k], i, 1) ELSE buf[k]
                   [] wk = "xor"    -> IF v = 1 THEN FlipPosImpl(buf[k], i) ELSE buf[k]
                   [] wk = "flip"   -> FlipPosImpl(buf[k], i)
                   [] wk = "aref"   -> SetPosImpl(buf[k], i, BitAtImpl(buf[k], j))
                   [] wk = "ptr"    -> SetPosImpl(buf[k], i, v)
       IN Mut("RefWrite", k, [path |-> path, i |-> i, wk |-> wk, v |-> v, j |-> j], nb, msz[k], Void)

\* std::fill over [begin() + i, begin() + j): one reference assignment per position
RECURSIVE FillFrom(_, _, _, _)
FillFrom(v, i, j, x) == IF i >= j THEN v ELSE FillFrom(SetPosImpl(v, i, x), i + 1, j, x)
Fill(k, i, j, x) == i <= j /\ j <= msz[k] /\ Mut("Fill", k, [i |-> i, j |-> j, v |-> x], FillFrom(buf[k], i, j, x), msz[k], Void)

\* ---------------------------------------------------------------- next-state relation
Sizes == 0..MaxBits
BitSeqs(n) == UNION {[1..m -> Bit] : m \in 0..n}
LimbSeqs(n) == UNION {[1..m -> {<<x>> : x \in 0..(2 ^ W - 1)}] : m \in 0..n}
Idx(k) == 0..(msz[k] - 1)
ReadPaths == {"cindex", "front", "back", "iter", "riter", "neg", "data", "blockit"}
WritePaths == {"index", "front", "back"}
WriteKinds == {"assign", "and", "or", "xor", "flip", "aref", "ptr"}

Init == /\ buf = <<<<>>, <<>>>> /\ msz = <<0, 0>> /\ kind = <<"own", "own">>
        /\ last = [op |-> "Init", k |-> 0, a |-> NoArg, res |-> Void]
        /\ pre = [obj |-> <<<<>>, <<>>>>, kind |-> <<"own", "own">>]

\* calls whose effect depends on (or changes) BOTH objects
NextPair(k) ==
    \/ CtorCopy(k)
    \/ \E sf \in {0, 1} : CopyAssign(k, sf)
    \* calls that change the other object as well: only where both objects are targets (the single-target
    \* configurations keep the second object inside OtherSeqs), or in the factored relation with OtherSeqs = all sequences
    \/ (Targets = {1, 2} \/ SplitNext) /\ \E how \in {"member", "std", "adl"}, sf \in {0, 1} : Swap(k, how, sf)
    \/ (Targets = {1, 2} \/ SplitNext) /\ \E re \in (IF ObserveMoved THEN {0, 1} ELSE {1}) : CtorMove(k, re) \/ MoveAssign(k, re)
    \/ \E sf \in {0, 1} : AndEq(k, sf) \/ OrEq(k, sf) \/ XorEq(k, sf) \/ And(k, sf) \/ Or(k, sf) \/ Xor(k, sf)

\* calls on one object whose effect does not depend on the current content of that object (constructors)
NextCtor(k) ==
    \/ CtorDefault(k) \/ CtorAlloc(k)
    \/ \E n \in Sizes : CtorN(k, n)
    \/ \E n \in Sizes, v \in Bit : CtorNV(k, n, v)
    \/ \E b \in BitSeqs(MaxBits) : CtorIL(k, b)
    \/ \E bl \in LimbSeqs(MaxBits \div W) : CtorBlocks(k, bl)
    \/ \E bl \in LimbSeqs(BlockCount(MaxBits)), n \in Sizes : CtorView(k, bl, n)

\* calls on one object that start from its current content
NextSelf(k) ==
    \/ Clear(k) \/ PopBack(k) \/ MaxSize(k)
    \/ \E n \in Sizes : Resize1(k, n) \/ ResizeView(k, n) \/ Reserve(k, n)
    \/ Reserve(k, MaxBits + W)
    \/ \E n \in Sizes, v \in Bit : AssignNV(k, n, v) \/ Resize(k, n, v)
    \/ \E b \in BitSeqs(MaxBits) : AssignIL(k, b)
    \/ \E bl \in LimbSeqs(MaxBits \div W) : AssignBlocks(k, bl)
    \/ \E v \in Bit : PushBack(k, v)
    \/ SetAll(k) \/ ResetAll(k) \/ FlipAll(k) \/ Not(k)
    \/ \E i \in Idx(k) : Set1(k, i) \/ ResetBit(k, i) \/ Flip(k, i) \/ (\E v \in Bit : Set(k, i, v))
    \/ \E p \in 0..MaxShift : ShlEq(k, p) \/ ShrEq(k, p) \/ Shl(k, p) \/ Shr(k, p)
    \/ \E i \in 0..(BlockCount(MaxBits) * W + 1), c \in {"c", "m"} : At(k, c, i)
    \/ \E i \in Idx(k), path \in ReadPaths : Read(k, path, i)
    \/ \E i \in Idx(k), path \in WritePaths, wk \in WriteKinds, v \in Bit, j \in Idx(k) :
          /\ (wk \in {"flip", "aref"} => v = 0) /\ (wk # "aref" => j = 0)
          /\ RefWrite(k, path, i, wk, v, j)
    \/ \E i \in 0..msz[k], j \in 0..msz[k], v \in Bit : Fill(k, i, j, v)

NextK(k) == NextPair(k) \/ NextCtor(k) \/ NextSelf(k)

\* representative contents for a non-target object (deep single-target configurations)
RepOther == UNION {{[i \in 1..n |-> 1], [i \in 1..n |-> i % 2]} : n \in {0, MaxBits - W, MaxBits - 1, MaxBits}}
NoOther  == {}
Both     == {1, 2}
OnlyFirst == {1}
AllOther  == BitSeqs(MaxBits)
NextFull == (\E k \in Targets : NextK(k)) \/ (\E k \in {1, 2} \ Targets : \E b \in OtherSeqs : CtorIL(k, b))
(* The factored relation.  Every call is a function of the representation of the object(s) it names, and RepInv (checked
   in the same run) makes the representation a function of the abstract content.  So it is enough to take
   - the constructors (their effect does not depend on the state) from the initial state only,
   - the one-object calls from every content of the target while the other object is empty,
   - the two-object calls from every pair (target content, other content),
   and to give the other object each of OtherSeqs once, as an owning bitset or as a view.  With OtherSeqs = AllOther this
   covers every (state, call, argument) triple of NextFull on two objects, at a cost linear in the number of pairs. *)
OtherEmpty(k) == msz[Other(k)] = 0 /\ kind[Other(k)] = "own"
ViewLimbs(b) == [i \in 1..BlockCount(Len(b)) |-> <<LimbFrom([j \in 1..W |-> IF (i - 1) * W + j <= Len(b) THEN b[(i - 1) * W + j] ELSE 1], 1)>>]
NextSplit ==
    \/ \E k \in Targets :
          \/ NextPair(k)
          \/ OtherEmpty(k) /\ NextSelf(k)
          \/ OtherEmpty(k) /\ msz[k] = 0 /\ kind[k] = "own" /\ NextCtor(k)
    \/ \E k \in {1, 2} \ Targets : msz[k] = 0 /\ kind[k] = "own" /\ \E b \in OtherSeqs :
          CtorIL(k, b) \/ CtorView(k, ViewLimbs(b), Len(b))
Next == IF SplitNext THEN NextSplit ELSE NextFull
SizeBound == msz[1] <= MaxBits /\ msz[2] <= MaxBits
Spec == Init /\ [][Next]_ivars
absview == <<buf, msz, kind>>

\* ---------------------------------------------------------------- what TLC checks
\* representation invariants
RepInv == \A k \in {1, 2} :
    /\ Len(buf[k]) = BlockCount(msz[k])
    /\ \A i \in 1..Len(buf[k]) : \A j \in 1..W : ((i - 1) * W + j > msz[k]) => buf[k][i][j] = 0   \* unused bits are zero

\* observers computed on the representation agree with the abstract sequence
A == INSTANCE Bitset WITH w <- W, obj <- AbsObj, Widths <- {W}, Targets <- {1, 2}, OtherInit <- {}, ILArgs <- {},
                          LimbReps <- 0..(2 ^ W - 1), Classes <- {}, EmitOps <- {}
ObserversAgree == \A k \in {1, 2} : LET s == AbsObj[k] IN
    /\ CountImpl(buf[k]) = A!Count(s)
    /\ AnyImpl(buf[k]) = (\E i \in 1..Len(s) : s[i] = 1)
    /\ AllImpl(buf[k], msz[k]) = (\A i \in 1..Len(s) : s[i] = 1)
    /\ EqImpl = (AbsObj[1] = AbsObj[2])
    /\ [i \in 1..Len(buf[k]) |-> LimbOfBlock(buf[k][i])] = A!Limbs(s, W)

\* every L2 step is the L1 step of the same call with the same arguments (refinement)
StepRefines == LET k == last'.k  a == last'.a  o == last'.op IN
    \/ o = "CtorDefault"  /\ A!CtorDefault(k)
    \/ o = "CtorN"        /\ A!CtorN(k, a.n)
    \/ o = "CtorNV"       /\ A!CtorNV(k, a.n, a.v)
    \/ o = "CtorIL"       /\ A!CtorIL(k, a.bits)
    \/ o = "CtorBlocks"   /\ A!CtorBlocks(k, a.blocks)
    \/ o = "CtorAlloc"    /\ A!CtorAlloc(k)
    \/ o = "CtorCopy"     /\ A!CtorCopy(k)
    \/ o = "CtorMove"     /\ A!CtorMove(k, a.re, AbsObj'[Other(k)])
    \/ o = "MoveAssign"   /\ A!MoveAssign(k, a.re, AbsObj'[Other(k)])
    \/ o = "Reserve"      /\ A!Reserve(k, a.n, last'.res.val[1])
    \/ o = "MaxSize"      /\ A!MaxSize(k, last'.res.val[1])
    \/ o = "Fill"         /\ A!Fill2(k, a.i, a.j, a.v)
    \/ o = "CtorView"     /\ A!CtorView(k, a.blocks, a.n)
    \/ o = "AssignNV"     /\ A!AssignNV(k, a.n, a.v)
    \/ o = "AssignIL"     /\ A!AssignIL(k, a.bits)
    \/ o = "AssignBlocks" /\ A!AssignBlocks(k, a.blocks)
    \/ o = "CopyAssign"   /\ A!CopyAssign(k, a.self)
    \/ o = "Resize"       /\ A!Resize(k, a.n, a.v)
    \/ o = "Resize1"      /\ A!Resize1(k, a.n)
    \/ o = "ResizeView"   /\ A!ResizeView(k, a.n)
    \/ o = "Clear"        /\ A!Clear(k)
    \/ o = "PushBack"     /\ A!PushBack(k, a.v)
    \/ o = "PopBack"      /\ A!PopBack(k)
    \/ o = "SetAll"       /\ A!SetAll(k)
    \/ o = "ResetAll"     /\ A!ResetAll(k)
    \/ o = "FlipAll"      /\ A!FlipAll(k)
    \/ o = "Set"          /\ A!Set(k, a.i, a.v)
    \/ o = "Set1"         /\ A!Set1(k, a.i)
    \/ o = "ResetBit"     /\ A!Reset(k, a.i)
    \/ o = "Flip"         /\ A!Flip(k, a.i)
    \/ o = "ShlEq"        /\ A!ShlEq(k, a.p)
    \/ o = "ShrEq"        /\ A!ShrEq(k, a.p)
    \/ o = "AndEq"        /\ A!AndEq(k, a.self)
    \/ o = "OrEq"         /\ A!OrEq(k, a.self)
    \/ o = "XorEq"        /\ A!XorEq(k, a.self)
    \/ o = "Not"          /\ A!Not(k)
    \/ o = "And"          /\ A!And(k, a.self)
    \/ o = "Or"           /\ A!Or(k, a.self)
    \/ o = "Xor"          /\ A!Xor(k, a.self)
    \/ o = "Shl"          /\ A!Shl(k, a.p)
    \/ o = "Shr"          /\ A!Shr(k, a.p)
    \/ o = "Swap"         /\ A!Swap(k, a.how, a.self)
    \/ o = "At"           /\ A!At(k, a.c, a.i)
    \/ o = "Read"         /\ A!Read(k, a.path, a.i)
    \/ o = "RefWrite"     /\ A!RefWrite(k, a.path, a.i, a.wk, a.v, a.j)
Refines == [][StepRefines]_ivars
=============================================================================

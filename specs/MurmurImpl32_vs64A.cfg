SPECIFICATION Spec
CONSTANTS
  Keys <- KeysQ
  Seeds <- SeedsQ
INVARIANTS IsMurmur64A

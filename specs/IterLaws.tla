------------------------------ MODULE IterLaws ------------------------------
(***************************************************************************)
(* L1 property specification for C12: iterators built on                    *)
(* xbidirectional_iterator_base / xrandom_access_iterator_base (and the     *)
(* size_t extension base) obey the bidirectional / random-access iterator   *)
(* laws.  Written from the property statement and the C++ iterator          *)
(* requirements ([bidirectional.iterators], [random.access.iterators]),     *)
(* not from xtl's code.                                                     *)
(*                                                                          *)
(* The abstract state is a container of n elements and two iterators a, b   *)
(* into it, each identified with its position in 0..n (n = end()).  An      *)
(* iterator with stride `step` over an underlying sequence `under` sees     *)
(* element i at under[i*step+1]; all other kinds have step = 1.  Every      *)
(* iterator expression is one action whose C++ arguments are the action     *)
(* parameters; the expected result is recorded in the ghost variable last,  *)
(* the state before the call in the ghost variable pre.  An action is       *)
(* enabled only when C++ gives the expression a meaning: the resulting      *)
(* iterator stays in [begin(), end()] and only positions in [0, n) are      *)
(* dereferenced.                                                            *)
(*                                                                          *)
(* The results are index arithmetic; the property's law set is stated       *)
(* separately (Laws, and the action properties below) and checked by TLC    *)
(* on this spec, which guards the oracle.                                   *)
(***************************************************************************)
EXTENDS Integers, Sequences, FiniteSets, TLC, Json

CONSTANTS MaxN,       \* model checking: container sizes 0..MaxN
          Steps,      \* model checking: strides explored
          Cfgs,       \* model checking: capability records explored (see cfg)
          WriteVals,  \* model checking: element values written through an iterator
          EmitOps     \* S->C: operations whose transitions are written out as JSON (see Emit)

VARIABLES cfg,    \* [ra, ext, mut, std]: random access? size_t overloads? assignable elements? usable with std::iterator_traits?
          step,   \* stride of the iterator (>= 1)
          n,      \* number of elements the iterator range [begin(), end()) covers
          under,  \* the underlying element sequence; Len(under) = n * step; an element is a tuple of integers
          p, q,   \* positions of iterator a (k = 1) and iterator b (k = 2), in 0..n
          last,   \* ghost: [op, k, a, res] of the call just performed
          pre     \* ghost: [n, step, p, q] before that call

vars    == <<cfg, step, n, under, p, q, last, pre>>
absvars == <<cfg, step, n, under, p, q>>

NA == 0 - 99                       \* "this kind has no such operator" in an observation
Other(k) == 3 - k
Pos(k) == IF k = 1 THEN p ELSE q

----------------------------------------------------------------------------
(* Index arithmetic: the meaning of every iterator expression on positions.  *)
InR(i) == i \in 0..n               \* a valid iterator value of this range
InD(i) == i \in 0..(n - 1)         \* a dereferenceable one
Elem(i) == under[i * step + 1]     \* the element at position i (0-based)
Elems == [i \in 1..n |-> under[(i - 1) * step + 1]]
Rev(s) == [i \in 1..Len(s) |-> s[Len(s) + 1 - i]]

IPlus(i, k)     == i + k           \* it + k, it += k, it + size_t(k)
IPlusLeft(k, i) == k + i           \* k + it, size_t(k) + it
IMinus(i, k)    == i - k           \* it - k, it -= k, it - size_t(k)
IDiff(i, j)     == i - j           \* a - b
IIndex(i, k)    == Elem(i + k)     \* it[k], it[size_t(k)]
IDeref(i)       == Elem(i)         \* *it, and what it.operator->() points at
IEq(i, j) == i = j
INe(i, j) == i # j
ILt(i, j) == i < j
ILe(i, j) == i <= j
IGt(i, j) == i > j
IGe(i, j) == i >= j

----------------------------------------------------------------------------
(* What the observers report about an iterator at position i: the number of *)
(* increments from begin() needed to compare equal to it (c), it - begin()   *)
(* (d) and end() - it (e) for random-access kinds, and *it (v; empty at      *)
(* end()).  Three independent routes to the same position.                   *)
ObsAt(i) == [c |-> i,
             d |-> IF cfg.ra THEN i ELSE NA,
             e |-> IF cfg.ra THEN n - i ELSE NA,
             v |-> IF i < n THEN Elem(i) ELSE <<>>]

(* the full projection compared after every call: the container's size, its  *)
(* storage read without any xtl iterator, and both iterators                 *)
ProjAll == [n |-> n, under |-> under, a |-> ObsAt(p), b |-> ObsAt(q)]

----------------------------------------------------------------------------
Val(v)   == [val |-> v]            \* the expression's value
ItRes(i) == [it |-> ObsAt(i)]      \* the expression yields an iterator: what the observers say about it
Void     == Val(<<>>)
NoArg    == [z |-> 0]

Do(op, k, a, np, nq, nunder, res) ==
    /\ pre'   = [n |-> n, step |-> step, p |-> p, q |-> q]
    /\ p'     = np
    /\ q'     = nq
    /\ under' = nunder
    /\ last'  = [op |-> op, k |-> k, a |-> a, res |-> res]
    /\ UNCHANGED <<cfg, step, n>>

Move(op, k, a, i, res) == Do(op, k, a, IF k = 1 THEN i ELSE p, IF k = 2 THEN i ELSE q, under, res)
Look(op, k, a, res)    == Do(op, k, a, p, q, under, res)
K(k) == [k |-> k]

(* ---- bidirectional operations (every kind) ---- *)
PreInc(k)  == InR(Pos(k) + 1) /\ Move("PreInc",  k, NoArg, Pos(k) + 1, ItRes(Pos(k) + 1))   \* ++it yields the advanced iterator
PostInc(k) == InR(Pos(k) + 1) /\ Move("PostInc", k, NoArg, Pos(k) + 1, ItRes(Pos(k)))       \* it++ yields the OLD position
PreDec(k)  == InR(Pos(k) - 1) /\ Move("PreDec",  k, NoArg, Pos(k) - 1, ItRes(Pos(k) - 1))
PostDec(k) == InR(Pos(k) - 1) /\ Move("PostDec", k, NoArg, Pos(k) - 1, ItRes(Pos(k)))
Deref(k)   == InD(Pos(k)) /\ Look("Deref", k, NoArg, Val(IDeref(Pos(k))))
Arrow(k)   == InD(Pos(k)) /\ Look("Arrow", k, NoArg, Val(IDeref(Pos(k))))
Eq(k)      == InR(Pos(k)) /\ Look("Eq", k, NoArg, Val(IEq(Pos(k), Pos(Other(k)))))
Ne(k)      == InR(Pos(k)) /\ Look("Ne", k, NoArg, Val(INe(Pos(k), Pos(Other(k)))))
Assign(k)  == InR(Pos(Other(k))) /\ Move("Assign", k, NoArg, Pos(Other(k)), Void)                                  \* it_k = it_other (copy)

(* ---- random-access operations, difference_type arguments ---- *)
AddAssign(k, d) == cfg.ra /\ InR(IPlus(Pos(k), d))     /\ Move("AddAssign", k, K(d), IPlus(Pos(k), d),  ItRes(IPlus(Pos(k), d)))
SubAssign(k, d) == cfg.ra /\ InR(IMinus(Pos(k), d))    /\ Move("SubAssign", k, K(d), IMinus(Pos(k), d), ItRes(IMinus(Pos(k), d)))
Plus(k, d)      == cfg.ra /\ InR(IPlus(Pos(k), d))     /\ Look("Plus",     k, K(d), ItRes(IPlus(Pos(k), d)))
PlusLeft(k, d)  == cfg.ra /\ InR(IPlusLeft(d, Pos(k))) /\ Look("PlusLeft", k, K(d), ItRes(IPlusLeft(d, Pos(k))))
Minus(k, d)     == cfg.ra /\ InR(IMinus(Pos(k), d))    /\ Look("Minus",    k, K(d), ItRes(IMinus(Pos(k), d)))
Index(k, d)     == cfg.ra /\ InD(Pos(k) + d)           /\ Look("Index",    k, K(d), Val(IIndex(Pos(k), d)))
Diff(k)         == cfg.ra /\ Look("Diff", k, NoArg, Val(IDiff(Pos(k), Pos(Other(k)))))
Lt(k)           == cfg.ra /\ Look("Lt", k, NoArg, Val(ILt(Pos(k), Pos(Other(k)))))
Le(k)           == cfg.ra /\ Look("Le", k, NoArg, Val(ILe(Pos(k), Pos(Other(k)))))
Gt(k)           == cfg.ra /\ Look("Gt", k, NoArg, Val(IGt(Pos(k), Pos(Other(k)))))
Ge(k)           == cfg.ra /\ Look("Ge", k, NoArg, Val(IGe(Pos(k), Pos(Other(k)))))

(* ---- the size_t overloads of xrandom_access_iterator_ext: same meaning, unsigned argument ---- *)
PlusU(k, d)     == cfg.ext /\ d >= 0 /\ InR(IPlus(Pos(k), d))     /\ Look("PlusU",     k, K(d), ItRes(IPlus(Pos(k), d)))
PlusLeftU(k, d) == cfg.ext /\ d >= 0 /\ InR(IPlusLeft(d, Pos(k))) /\ Look("PlusLeftU", k, K(d), ItRes(IPlusLeft(d, Pos(k))))
MinusU(k, d)    == cfg.ext /\ d >= 0 /\ InR(IMinus(Pos(k), d))    /\ Look("MinusU",    k, K(d), ItRes(IMinus(Pos(k), d)))
IndexU(k, d)    == cfg.ext /\ d >= 0 /\ InD(Pos(k) + d)           /\ Look("IndexU",    k, K(d), Val(IIndex(Pos(k), d)))

(* ---- std::iterator_traits driven algorithms (iterator_category / difference_type exported by the base) ---- *)
(* std::advance(it, d): any d for random access, and for a bidirectional iterator too (negative = --).       *)
StdAdvance(k, d) == cfg.std /\ InR(Pos(k) + d) /\ Move("StdAdvance", k, K(d), Pos(k) + d, Void)
(* std::distance(it_k, it_other): for a bidirectional iterator only defined when it_other is reachable.      *)
StdDistance(k)   == cfg.std /\ (cfg.ra \/ Pos(k) <= Pos(Other(k))) /\ Look("StdDistance", k, NoArg, Val(Pos(Other(k)) - Pos(k)))
StdNext(k, d)    == cfg.std /\ InR(Pos(k) + d) /\ Look("StdNext", k, K(d), ItRes(Pos(k) + d))
StdPrev(k, d)    == cfg.std /\ InR(Pos(k) - d) /\ Look("StdPrev", k, K(d), ItRes(Pos(k) - d))

(* ---- writing through the iterator (kinds whose reference is assignable) ---- *)
Write(k, v)         == cfg.mut /\ InD(Pos(k)) /\
                       Do("Write", k, [v |-> v], p, q, [under EXCEPT ![Pos(k) * step + 1] = v], Void)
IndexWrite(k, d, v) == cfg.mut /\ cfg.ra /\ InD(Pos(k) + d) /\
                       Do("IndexWrite", k, [k |-> d, v |-> v], p, q, [under EXCEPT ![(Pos(k) + d) * step + 1] = v], Void)

(* ---- whole traversals: `how` names the loop that is run ---- *)
(*   forward: "pre"   for (it = begin(); it != end(); ++it) out( *it )                                          *)
(*            "post"  it = begin(); while (it != end()) out( *it++ )                                            *)
(*            "lt"    for (it = begin(); it < end(); ++it) out( *it )            (random access)                *)
(*            "index" for (i = 0; i < end() - begin(); ++i) out(begin()[i])    (random access)                *)
(*            "plus"  for (it = begin(); it != end(); it = it + 1) out( *it )    (random access)                *)
(*   reverse: "pre"   it = end(); while (it != begin()) out( *--it )                                            *)
(*            "post"  it = end(); while (it != begin()) { it--; out( *it ) }                                    *)
(*            "gt"    it = end(); while (it > begin()) out( *--it )              (random access)                *)
(*            "minus" it = end(); while (it != begin()) { it = it - 1; out( *it ) }  (random access)            *)
FwdHows == {"pre", "post"} \cup (IF cfg.ra THEN {"lt", "index", "plus"} ELSE {})
RevHows == {"pre", "post"} \cup (IF cfg.ra THEN {"gt", "minus"} ELSE {})
TraverseForward(how) == how \in FwdHows /\ Look("TraverseForward", 1, [how |-> how], Val(Elems))
TraverseReverse(how) == how \in RevHows /\ Look("TraverseReverse", 1, [how |-> how], Val(Rev(Elems)))

(* ---- (re)seat both iterators: from begin() by ++ ("inc"), from end() by -- ("dec"),                        *)
(*      begin() + i ("add"), end() - (n - i) ("sub") ---- *)
Vias == {"inc", "dec"} \cup (IF cfg.ra THEN {"add", "sub"} ELSE {})
Seat(i, j, via) == InR(i) /\ InR(j) /\ via \in Vias /\
                   Do("Seat", 1, [p |-> i, q |-> j, via |-> via], i, j, under, Void)

----------------------------------------------------------------------------
Offs == (0 - MaxN)..MaxN

IndexUnder(m, s) == [j \in 1..(m * s) |-> <<j - 1>>]       \* element j holds its own index

Init ==
    /\ cfg \in Cfgs
    /\ step \in Steps
    /\ n \in 0..MaxN
    /\ under = IndexUnder(n, step)
    /\ p = 0 /\ q = 0
    /\ last = [op |-> "Init", k |-> 0, a |-> NoArg, res |-> Void]
    /\ pre = [n |-> n, step |-> step, p |-> 0, q |-> 0]

Next ==
    \/ \E k \in {1, 2} :
        \/ PreInc(k) \/ PostInc(k) \/ PreDec(k) \/ PostDec(k) \/ Deref(k) \/ Arrow(k) \/ Eq(k) \/ Ne(k) \/ Assign(k)
        \/ Diff(k) \/ Lt(k) \/ Le(k) \/ Gt(k) \/ Ge(k) \/ StdDistance(k)
        \/ \E d \in Offs : \/ AddAssign(k, d) \/ SubAssign(k, d) \/ Plus(k, d) \/ PlusLeft(k, d) \/ Minus(k, d) \/ Index(k, d)
                           \/ PlusU(k, d) \/ PlusLeftU(k, d) \/ MinusU(k, d) \/ IndexU(k, d)
                           \/ StdAdvance(k, d) \/ StdNext(k, d) \/ StdPrev(k, d)
        \/ \E v \in WriteVals : Write(k, v) \/ (\E d \in Offs : IndexWrite(k, d, v))
    \/ \E how \in {"pre", "post", "lt", "index", "plus"} : TraverseForward(how)
    \/ \E how \in {"pre", "post", "gt", "minus"} : TraverseReverse(how)
    \/ \E i, j \in 0..MaxN, via \in {"inc", "dec", "add", "sub"} : Seat(i, j, via)

Spec == Init /\ [][Next]_vars

(* S->C enumeration.  With VIEW absvars every abstract state is expanded once; this action     *)
(* constraint only lets states with the pristine storage be expanded and writes each           *)
(* transition out of them (capabilities, pre-state, call) as one JSON line on TLC's output.    *)
Pristine == under = IndexUnder(n, step)
Emit == /\ Pristine
        /\ (last'.op \in EmitOps) =>
              PrintT("@E@" \o ToJson([c |-> cfg, p |-> pre', l |-> [op |-> last'.op, k |-> last'.k, a |-> last'.a]]))

----------------------------------------------------------------------------
(* Invariants and theorems of the specification itself.                      *)
TypeOK ==
    /\ cfg \in [ra : BOOLEAN, ext : BOOLEAN, mut : BOOLEAN, std : BOOLEAN]
    /\ step \in Nat \ {0}
    /\ n \in Nat /\ Len(under) = n * step
    /\ p \in 0..n /\ q \in 0..n
    /\ cfg.ext => cfg.ra

(* The law set of the property, over ALL positions a, b of the current container and all       *)
(* offsets that keep the result in range (not only over the positions the iterators are at).   *)
Laws ==
    /\ \A i \in 0..n : \A d \in (0 - i)..(n - i) :
        /\ IDiff(IPlus(i, d), i) = d                                   \* (it + n) - it == n
        /\ IPlusLeft(d, i) = IPlus(i, d)                               \* n + it == it + n
        /\ IMinus(IPlus(i, d), d) = i                                  \* it - n undoes it + n
        /\ IPlus(IMinus(i, 0 - d), 0) = IPlus(i, d)                    \* it - (-n) == it + n
        /\ InD(i + d) => IIndex(i, d) = IDeref(IPlus(i, d))            \* it[n] == *(it + n)
        /\ InR(IPlus(i, d)) /\ InR(IMinus(IPlus(i, d), d))
    /\ \A i, j \in 0..n :
        /\ ILt(i, j) <=> IDiff(j, i) > 0                               \* a < b exactly when b - a > 0
        /\ ILe(i, j) <=> ~ILt(j, i)
        /\ IGt(i, j) <=> ILt(j, i)
        /\ IGe(i, j) <=> ~ILt(i, j)
        /\ INe(i, j) <=> ~IEq(i, j)
        /\ IEq(i, j) <=> (IDiff(i, j) = 0)
        /\ IPlus(j, IDiff(i, j)) = i                                   \* b + (a - b) == a
    /\ Len(Elems) = n /\ \A i \in 0..(n - 1) : Elems[i + 1] = IDeref(i) /\ Rev(Elems)[n - i] = IDeref(i)
    /\ Rev(Rev(Elems)) = Elems

(* the same laws on what the actions actually return *)
PosAfter(k) == IF k = 1 THEN p' ELSE q'
PostfixReturnsOld ==
    [][/\ last'.op \in {"PostInc", "PostDec"} => last'.res.it.c = Pos(last'.k) /\ pre'.p = p /\ pre'.q = q
       /\ last'.op = "PostInc" => PosAfter(last'.k) = Pos(last'.k) + 1
       /\ last'.op = "PostDec" => PosAfter(last'.k) = Pos(last'.k) - 1
       /\ last'.op \in {"PreInc", "PreDec", "AddAssign", "SubAssign"} => last'.res.it.c = PosAfter(last'.k)]_vars
ObserverOps == {"Deref", "Arrow", "Eq", "Ne", "Diff", "Lt", "Le", "Gt", "Ge", "Plus", "PlusLeft", "Minus", "Index",
                "PlusU", "PlusLeftU", "MinusU", "IndexU", "StdDistance", "StdNext", "StdPrev", "TraverseForward", "TraverseReverse"}
ObserversPure == [][last'.op \in ObserverOps => p' = p /\ q' = q /\ under' = under]_vars
OnlyWritesWrite == [][under' # under => last'.op \in {"Write", "IndexWrite", "Reset"}]_vars
(* the size_t overloads give the same result as the difference_type ones *)
ExtAgrees ==
    [][/\ last'.op = "PlusU"     => last'.res = ItRes(IPlus(Pos(last'.k), last'.a.k))
       /\ last'.op = "PlusLeftU" => last'.res = ItRes(IPlus(Pos(last'.k), last'.a.k))
       /\ last'.op = "MinusU"    => last'.res = ItRes(IMinus(Pos(last'.k), last'.a.k))
       /\ last'.op = "IndexU"    => last'.res = Val(IDeref(IPlus(Pos(last'.k), last'.a.k)))]_vars
(* an iterator result always denotes a position of the range; a dereference never leaves it *)
ResultsInRange ==
    [][/\ "it" \in DOMAIN last'.res => last'.res.it.c \in 0..n
       /\ last'.op \in {"Deref", "Arrow", "Index", "IndexU"} => \E i \in 0..(n - 1) : last'.res.val = Elem(i)]_vars
=============================================================================

------------------------------ MODULE IterLaws ------------------------------
(***************************************************************************)
(* L1 property specification for C12: iterators built on                    *)
(* xbidirectional_iterator_base / xrandom_access_iterator_base (and the     *)
(* size_t extension base) obey the bidirectional / random-access iterator   *)
(* laws.  Written from the property statement and the C++ iterator          *)
(* requirements ([bidirectional.iterators], [random.access.iterators]),     *)
(* not from xtl's code.                                                     *)
(*                                                                          *)
(* The abstract state is a container of n elements and two iterators a, b   *)
(* into it, each identified with its position in 0..n (n = end()).  An      *)
(* iterator with stride `step` over an underlying sequence `under` sees     *)
(* element i at under[i*step+1]; all other kinds have step = 1.  Every      *)
(* iterator expression is one action whose C++ arguments are the action     *)
(* parameters; the expected result is recorded in the ghost variable last,  *)
(* the state before the call in the ghost variable pre.  An action is       *)
(* enabled only when C++ gives the expression a meaning: the resulting      *)
(* iterator stays in [begin(), end()] and only positions in [0, n) are      *)
(* dereferenced.                                                            *)
(*                                                                          *)
(* The results are index arithmetic; the property's law set is stated       *)
(* separately (Laws, and the action properties below) and checked by TLC    *)
(* on this spec, which guards the oracle.                                   *)
(***************************************************************************)
EXTENDS Integers, Sequences, FiniteSets, TLC, Json

CONSTANTS MaxN,       \* model checking: container sizes 0..MaxN
          Steps,      \* model checking: strides explored
          Cfgs,       \* model checking: capability records explored (see cfg)
          WriteVals,  \* model checking: element values written through an iterator
          EmitOps     \* S->C: operations whose transitions are written out as JSON (see Emit)

VARIABLES cfg,    \* [ra, ext, mut, std, dc, stp]: random access? size_t overloads? assignable elements? usable with
                  \* std::iterator_traits? default-constructible? has the equal()/less_than() members of xstepping_iterator?
          step,   \* stride of the iterator (>= 1)
          n,      \* number of elements the iterator range [begin(), end()) covers
          under,  \* the underlying element sequence; Len(under) = n * step; an element is a tuple of integers
          p, q,   \* positions of iterator a (k = 1) and iterator b (k = 2), in 0..n
          last,   \* ghost: [op, k, a, res] of the call just performed
          pre     \* ghost: [n, step, p, q] before that call

vars    == <<cfg, step, n, under, p, q, last, pre>>
absvars == <<cfg, step, n, under, p, q>>

NA == 0 - 99                       \* "this kind has no such operator" in an observation
Other(k) == 3 - k
Pos(k) == IF k = 1 THEN p ELSE q

----------------------------------------------------------------------------
(* Index arithmetic: the meaning of every iterator expression on positions.  *)
InR(i) == i \in 0..n               \* a valid iterator value of this range
InD(i) == i \in 0..(n - 1)         \* a dereferenceable one
Elem(i) == under[i * step + 1]     \* the element at position i (0-based)
Elems == [i \in 1..n |-> under[(i - 1) * step + 1]]
Rev(s) == [i \in 1..Len(s) |-> s[Len(s) + 1 - i]]
Slice(i, j) == [x \in 1..(j - i) |-> Elem(i + x - 1)]          \* the elements of the iterator range [i, j), i <= j

(* elements are tuples of integers, all of one length; the order used by the comparator the      *)
(* harness hands to std::sort / std::lower_bound is the lexicographic one                         *)
TupLt(a, b) == \E i \in 1..Len(a) : a[i] < b[i] /\ \A j \in 1..(i - 1) : a[j] = b[j]
TupLe(a, b) == a = b \/ TupLt(a, b)
IsSorted(s) == \A i \in 1..(Len(s) - 1) : TupLe(s[i], s[i + 1])
(* the sorted rearrangement of s: position i holds the element e with #{< e} < i <= #{<= e}      *)
SortedSeq(s) == [i \in 1..Len(s) |->
                 CHOOSE e \in {s[j] : j \in 1..Len(s)} :
                    /\ Cardinality({j \in 1..Len(s) : TupLt(s[j], e)}) < i
                    /\ i <= Cardinality({j \in 1..Len(s) : TupLe(s[j], e)})]
(* first position in [i, j) whose element satisfies P, else j *)
FirstIn(i, j, P(_)) == IF \E x \in i..(j - 1) : P(Elem(x))
                         THEN CHOOSE x \in i..(j - 1) : P(Elem(x)) /\ \A y \in i..(x - 1) : ~P(Elem(y))
                         ELSE j

IPlus(i, k)     == i + k           \* it + k, it += k, it + size_t(k)
IPlusLeft(k, i) == k + i           \* k + it, size_t(k) + it
IMinus(i, k)    == i - k           \* it - k, it -= k, it - size_t(k)
IDiff(i, j)     == i - j           \* a - b
IIndex(i, k)    == Elem(i + k)     \* it[k], it[size_t(k)]
IDeref(i)       == Elem(i)         \* *it, and what it.operator->() points at
IEq(i, j) == i = j
INe(i, j) == i # j
ILt(i, j) == i < j
ILe(i, j) == i <= j
IGt(i, j) == i > j
IGe(i, j) == i >= j

----------------------------------------------------------------------------
(* What the observers report about an iterator at position i: the number of *)
(* increments from begin() needed to compare equal to it (c), it - begin()   *)
(* (d) and end() - it (e) for random-access kinds, and *it (v; empty at      *)
(* end()).  Three independent routes to the same position.                   *)
ObsAt(i) == [c |-> i,
             d |-> IF cfg.ra THEN i ELSE NA,
             e |-> IF cfg.ra THEN n - i ELSE NA,
             v |-> IF i < n THEN Elem(i) ELSE <<>>]

(* the full projection compared after every call: the container's size, its  *)
(* storage read without any xtl iterator, and both iterators                 *)
ProjAll == [n |-> n, under |-> under, a |-> ObsAt(p), b |-> ObsAt(q)]

----------------------------------------------------------------------------
Val(v)   == [val |-> v]            \* the expression's value
ItRes(i) == [it |-> ObsAt(i)]      \* the expression yields an iterator: what the observers say about it
Void     == Val(<<>>)
NoArg    == [z |-> 0]

Do(op, k, a, np, nq, nunder, res) ==
    /\ pre'   = [n |-> n, step |-> step, p |-> p, q |-> q]
    /\ p'     = np
    /\ q'     = nq
    /\ under' = nunder
    /\ last'  = [op |-> op, k |-> k, a |-> a, res |-> res]
    /\ UNCHANGED <<cfg, step, n>>

Move(op, k, a, i, res) == Do(op, k, a, IF k = 1 THEN i ELSE p, IF k = 2 THEN i ELSE q, under, res)
Look(op, k, a, res)    == Do(op, k, a, p, q, under, res)
K(k) == [k |-> k]

(* ---- bidirectional operations (every kind) ---- *)
PreInc(k)  == InR(Pos(k) + 1) /\ Move("PreInc",  k, NoArg, Pos(k) + 1, ItRes(Pos(k) + 1))   \* ++it yields the advanced iterator
PostInc(k) == InR(Pos(k) + 1) /\ Move("PostInc", k, NoArg, Pos(k) + 1, ItRes(Pos(k)))       \* it++ yields the OLD position
PreDec(k)  == InR(Pos(k) - 1) /\ Move("PreDec",  k, NoArg, Pos(k) - 1, ItRes(Pos(k) - 1))
PostDec(k) == InR(Pos(k) - 1) /\ Move("PostDec", k, NoArg, Pos(k) - 1, ItRes(Pos(k)))
Deref(k)   == InD(Pos(k)) /\ Look("Deref", k, NoArg, Val(IDeref(Pos(k))))
Arrow(k)   == InD(Pos(k)) /\ Look("Arrow", k, NoArg, Val(IDeref(Pos(k))))
Eq(k)      == InR(Pos(k)) /\ Look("Eq", k, NoArg, Val(IEq(Pos(k), Pos(Other(k)))))
Ne(k)      == InR(Pos(k)) /\ Look("Ne", k, NoArg, Val(INe(Pos(k), Pos(Other(k)))))
Assign(k)  == InR(Pos(Other(k))) /\ Move("Assign", k, NoArg, Pos(Other(k)), Void)                                  \* it_k = it_other (copy)
(* round 3: *it++ and *it-- ([forward.iterators] table: *r++ yields the element at the OLD position; the same for a   *)
(* bidirectional *r--); the temporary that the postfix operator returns is dereferenced, also for proxy references     *)
PostIncDeref(k) == InD(Pos(k)) /\ Move("PostIncDeref", k, NoArg, Pos(k) + 1, Val(IDeref(Pos(k))))
PostDecDeref(k) == InD(Pos(k)) /\ InR(Pos(k) - 1) /\ Move("PostDecDeref", k, NoArg, Pos(k) - 1, Val(IDeref(Pos(k))))
(* a default-initialised (singular) iterator `It t;` may be assigned to and destroyed ([iterator.requirements.general]/7): *)
(* { It t; t = it_k; observe t; } - afterwards t denotes the position of it_k                                              *)
DcAssign(k) == cfg.dc /\ InR(Pos(k)) /\ Look("DcAssign", k, NoArg, ItRes(Pos(k)))
(* multi-pass guarantee ([forward.iterators]/6): two copies c1, c2 of it_k; c1 is advanced m times by ++c1 (elements   *)
(* read before each step), THEN c2 m times by c2++: both read the same m elements, c1 == c2 afterwards, and it_k itself *)
(* has not moved (it stays in the projection)                                                                            *)
MultiPass(k, m) == m >= 0 /\ InR(Pos(k) + m) /\
                   Look("MultiPass", k, [m |-> m], [first |-> Slice(Pos(k), Pos(k) + m), second |-> Slice(Pos(k), Pos(k) + m),
                                                    eq |-> TRUE, it |-> ObsAt(Pos(k) + m)])

(* ---- random-access operations, difference_type arguments ---- *)
AddAssign(k, d) == cfg.ra /\ InR(IPlus(Pos(k), d))     /\ Move("AddAssign", k, K(d), IPlus(Pos(k), d),  ItRes(IPlus(Pos(k), d)))
SubAssign(k, d) == cfg.ra /\ InR(IMinus(Pos(k), d))    /\ Move("SubAssign", k, K(d), IMinus(Pos(k), d), ItRes(IMinus(Pos(k), d)))
Plus(k, d)      == cfg.ra /\ InR(IPlus(Pos(k), d))     /\ Look("Plus",     k, K(d), ItRes(IPlus(Pos(k), d)))
PlusLeft(k, d)  == cfg.ra /\ InR(IPlusLeft(d, Pos(k))) /\ Look("PlusLeft", k, K(d), ItRes(IPlusLeft(d, Pos(k))))
Minus(k, d)     == cfg.ra /\ InR(IMinus(Pos(k), d))    /\ Look("Minus",    k, K(d), ItRes(IMinus(Pos(k), d)))
Index(k, d)     == cfg.ra /\ InD(Pos(k) + d)           /\ Look("Index",    k, K(d), Val(IIndex(Pos(k), d)))
Diff(k)         == cfg.ra /\ Look("Diff", k, NoArg, Val(IDiff(Pos(k), Pos(Other(k)))))
Lt(k)           == cfg.ra /\ Look("Lt", k, NoArg, Val(ILt(Pos(k), Pos(Other(k)))))
Le(k)           == cfg.ra /\ Look("Le", k, NoArg, Val(ILe(Pos(k), Pos(Other(k)))))
Gt(k)           == cfg.ra /\ Look("Gt", k, NoArg, Val(IGt(Pos(k), Pos(Other(k)))))
Ge(k)           == cfg.ra /\ Look("Ge", k, NoArg, Val(IGe(Pos(k), Pos(Other(k)))))

(* ---- the size_t overloads of xrandom_access_iterator_ext: same meaning, unsigned argument ---- *)
PlusU(k, d)     == cfg.ext /\ d >= 0 /\ InR(IPlus(Pos(k), d))     /\ Look("PlusU",     k, K(d), ItRes(IPlus(Pos(k), d)))
PlusLeftU(k, d) == cfg.ext /\ d >= 0 /\ InR(IPlusLeft(d, Pos(k))) /\ Look("PlusLeftU", k, K(d), ItRes(IPlusLeft(d, Pos(k))))
MinusU(k, d)    == cfg.ext /\ d >= 0 /\ InR(IMinus(Pos(k), d))    /\ Look("MinusU",    k, K(d), ItRes(IMinus(Pos(k), d)))
IndexU(k, d)    == cfg.ext /\ d >= 0 /\ InD(Pos(k) + d)           /\ Look("IndexU",    k, K(d), Val(IIndex(Pos(k), d)))

(* ---- std::iterator_traits driven algorithms (iterator_category / difference_type exported by the base) ---- *)
(* std::advance(it, d): any d for random access, and for a bidirectional iterator too (negative = --).       *)
StdAdvance(k, d) == cfg.std /\ InR(Pos(k) + d) /\ Move("StdAdvance", k, K(d), Pos(k) + d, Void)
(* std::distance(it_k, it_other): for a bidirectional iterator only defined when it_other is reachable.      *)
StdDistance(k)   == cfg.std /\ (cfg.ra \/ Pos(k) <= Pos(Other(k))) /\ Look("StdDistance", k, NoArg, Val(Pos(Other(k)) - Pos(k)))
StdNext(k, d)    == cfg.std /\ InR(Pos(k) + d) /\ Look("StdNext", k, K(d), ItRes(Pos(k) + d))
StdPrev(k, d)    == cfg.std /\ InR(Pos(k) - d) /\ Look("StdPrev", k, K(d), ItRes(Pos(k) - d))

(* ---- writing through the iterator (kinds whose reference is assignable) ---- *)
Write(k, v)         == cfg.mut /\ InD(Pos(k)) /\
                       Do("Write", k, [v |-> v], p, q, [under EXCEPT ![Pos(k) * step + 1] = v], Void)
IndexWrite(k, d, v) == cfg.mut /\ cfg.ra /\ InD(Pos(k) + d) /\
                       Do("IndexWrite", k, [k |-> d, v |-> v], p, q, [under EXCEPT ![(Pos(k) + d) * step + 1] = v], Void)

(* ---- std algorithms over the range [it_k, it_other): the iterator laws composed ---- *)
(* Enabled only for a valid range (it_k <= it_other).  The harness hands every algorithm that    *)
(* compares elements a predicate / comparator on the element tuples, so no operator== or         *)
(* operator< of the element types is involved.                                                    *)
Lo(k) == Pos(k)
Hi(k) == Pos(Other(k))
RangeOK(k) == Pos(k) <= Pos(Other(k))
StdCopy(k)         == cfg.std /\ RangeOK(k) /\ Look("StdCopy", k, NoArg, Val(Slice(Lo(k), Hi(k))))            \* std::copy(a, b, out)
StdCopyBackward(k) == cfg.std /\ RangeOK(k) /\ Look("StdCopyBackward", k, NoArg, Val(Slice(Lo(k), Hi(k))))    \* std::copy_backward(a, b, out_end)
StdReverseCopy(k)  == cfg.std /\ RangeOK(k) /\ Look("StdReverseCopy", k, NoArg, Val(Rev(Slice(Lo(k), Hi(k)))))
StdFind(k, v)      == cfg.std /\ RangeOK(k) /\                                                                  \* std::find_if(a, b, [v](x){ x == v })
                      Look("StdFind", k, [v |-> v], ItRes(FirstIn(Lo(k), Hi(k), LAMBDA e : e = v)))
StdCount(k, v)     == cfg.std /\ RangeOK(k) /\
                      Look("StdCount", k, [v |-> v], Val(Cardinality({x \in Lo(k)..(Hi(k) - 1) : Elem(x) = v})))
(* std::equal(a, b, c) where c is an iterator of the same kind at position j of the same container *)
StdEqual(k, j)     == cfg.std /\ RangeOK(k) /\ j \in 0..n /\ j + (Hi(k) - Lo(k)) <= n /\
                      Look("StdEqual", k, [j |-> j], Val(Slice(Lo(k), Hi(k)) = Slice(j, j + (Hi(k) - Lo(k)))))
(* std::lower_bound(a, b, v, lexicographic-less): the range must be sorted *)
StdLowerBound(k, v) == cfg.std /\ RangeOK(k) /\ IsSorted(Slice(Lo(k), Hi(k))) /\
                      Look("StdLowerBound", k, [v |-> v], ItRes(FirstIn(Lo(k), Hi(k), LAMBDA e : ~TupLt(e, v))))
(* writers: only the positions of [a, b) change, strides between them keep their elements *)
InRange(k, x) == (x - 1) % step = 0 /\ ((x - 1) \div step) \in Lo(k)..(Hi(k) - 1)     \* storage index x (1-based) is visited
StdFill(k, v)      == cfg.std /\ cfg.mut /\ RangeOK(k) /\
                      Do("StdFill", k, [v |-> v], p, q, [x \in 1..Len(under) |-> IF InRange(k, x) THEN v ELSE under[x]], Void)
StdReverse(k)      == cfg.std /\ cfg.mut /\ RangeOK(k) /\
                      Do("StdReverse", k, NoArg, p, q,
                         [x \in 1..Len(under) |-> IF InRange(k, x) THEN Elem(Lo(k) + Hi(k) - 1 - ((x - 1) \div step)) ELSE under[x]], Void)
StdSort(k)         == cfg.std /\ cfg.mut /\ cfg.ra /\ RangeOK(k) /\
                      Do("StdSort", k, NoArg, p, q,
                         [x \in 1..Len(under) |-> IF InRange(k, x) THEN SortedSeq(Slice(Lo(k), Hi(k)))[((x - 1) \div step) - Lo(k) + 1]
                                                                   ELSE under[x]], Void)

(* round 3: std::rotate(a, a + m, b): element i of the new range is element (i + m) mod len of the old one; returns a + (b - (a + m)) *)
RotSrc(k, m, i) == Lo(k) + ((i - Lo(k) + m) % (Hi(k) - Lo(k)))
RotUnder(k, m) == [x \in 1..Len(under) |-> IF InRange(k, x) THEN Elem(RotSrc(k, m, (x - 1) \div step)) ELSE under[x]]
StdRotate(k, m)    == cfg.std /\ cfg.mut /\ RangeOK(k) /\ m \in 0..(Hi(k) - Lo(k)) /\
                      LET nu == RotUnder(k, m)
                          r  == Lo(k) + (Hi(k) - (Lo(k) + m))
                      IN Do("StdRotate", k, [m |-> m], p, q, nu,          \* the returned iterator is observed AFTER the rotation
                            [it |-> [c |-> r, d |-> IF cfg.ra THEN r ELSE NA, e |-> IF cfg.ra THEN n - r ELSE NA,
                                     v |-> IF r < n THEN nu[r * step + 1] ELSE <<>>]])
(* std::copy(a, b, d) INSIDE the container, d = the iterator at position j outside [a, b) with room for the range: every   *)
(* element is assigned reference-to-reference ( *d = *a : for proxy references that must assign the referent); returns d + (b - a) *)
StdCopyWithin(k, j) == cfg.std /\ cfg.mut /\ RangeOK(k) /\ j \in 0..n /\ (j <= Lo(k) \/ j >= Hi(k)) /\ j + (Hi(k) - Lo(k)) <= n /\
                       LET len == Hi(k) - Lo(k)
                           Dst(x) == (x - 1) % step = 0 /\ ((x - 1) \div step) \in j..(j + len - 1)
                           nu == [x \in 1..Len(under) |-> IF Dst(x) THEN Elem(Lo(k) + (((x - 1) \div step) - j)) ELSE under[x]]
                           r  == j + len
                       IN Do("StdCopyWithin", k, [j |-> j], p, q, nu,
                             [it |-> [c |-> r, d |-> IF cfg.ra THEN r ELSE NA, e |-> IF cfg.ra THEN n - r ELSE NA,
                                      v |-> IF r < n THEN nu[r * step + 1] ELSE <<>>]])
(* std::min_element(a, b, lexicographic-less): the FIRST smallest element, b for an empty range *)
StdMinElement(k)   == cfg.std /\ RangeOK(k) /\
                      Look("StdMinElement", k, NoArg,
                           ItRes(IF Lo(k) = Hi(k) THEN Hi(k)
                                 ELSE CHOOSE x \in Lo(k)..(Hi(k) - 1) : /\ \A y \in Lo(k)..(Hi(k) - 1) : ~TupLt(Elem(y), Elem(x))
                                                                        /\ \A y \in Lo(k)..(x - 1) : TupLt(Elem(x), Elem(y))))

(* ---- round 3, mixed iterator / const_iterator expressions (where the container offers the conversion; the property  *)
(* statement does not name them: the binding reports deviations as advisory).  ToConst: const_iterator c = it_k, seen  *)
(* through observers that start from cbegin() / cend().  MixedCmp: it_k OP const_iterator(it_other).                    *)
ToConst(k)     == InR(Pos(k)) /\ Look("ToConst", k, NoArg, ItRes(Pos(k)))
MixedOps == {"eq", "ne"} \cup (IF cfg.ra THEN {"lt", "le", "gt", "ge", "diff"} ELSE {})
MixedCmp(k, o) == o \in MixedOps /\
                  Look("MixedCmp", k, [o |-> o],
                       Val(CASE o = "eq" -> IEq(Pos(k), Pos(Other(k))) [] o = "ne" -> INe(Pos(k), Pos(Other(k)))
                             [] o = "lt" -> ILt(Pos(k), Pos(Other(k))) [] o = "le" -> ILe(Pos(k), Pos(Other(k)))
                             [] o = "gt" -> IGt(Pos(k), Pos(Other(k))) [] o = "ge" -> IGe(Pos(k), Pos(Other(k)))
                             [] o = "diff" -> IDiff(Pos(k), Pos(Other(k)))))

(* ---- value-initialised iterators (C++14 [forward.iterators]/2): It a{}, b{}; a OP b ---- *)
ViOps == {"eq", "ne"} \cup (IF cfg.ra THEN {"lt", "le", "gt", "ge"} ELSE {})
ValueInit(o) == cfg.dc /\ o \in ViOps /\ Look("ValueInit", 1, [o |-> o], Val(o \in {"eq", "le", "ge"}))

(* ---- the public members equal() / less_than() of xstepping_iterator (same stride on both sides) ---- *)
EqualM(k)    == cfg.stp /\ Look("EqualM", k, NoArg, Val(IEq(Pos(k), Pos(Other(k)))))
LessThanM(k) == cfg.stp /\ Look("LessThanM", k, NoArg, Val(ILt(Pos(k), Pos(Other(k)))))

(* ---- whole traversals: `how` names the loop that is run ---- *)
(*   forward: "pre"   for (it = begin(); it != end(); ++it) out( *it )                                          *)
(*            "post"  it = begin(); while (it != end()) out( *it++ )                                            *)
(*            "lt"    for (it = begin(); it < end(); ++it) out( *it )            (random access)                *)
(*            "index" for (i = 0; i < end() - begin(); ++i) out(begin()[i])    (random access)                *)
(*            "plus"  for (it = begin(); it != end(); it = it + 1) out( *it )    (random access)                *)
(*   reverse: "pre"   it = end(); while (it != begin()) out( *--it )                                            *)
(*            "post"  it = end(); while (it != begin()) { it--; out( *it ) }                                    *)
(*            "gt"    it = end(); while (it > begin()) out( *--it )              (random access)                *)
(*            "minus" it = end(); while (it != begin()) { it = it - 1; out( *it ) }  (random access)            *)
(*            "stdrev"    for (std::reverse_iterator<It> r(end()), e(begin()); r != e; ++r) out( *r )   (traits)  *)
(*            "stdrevidx" r, e as above; for (i = 0; i < e - r; ++i) out(r[i])         (traits, random access)    *)
FwdHows == {"pre", "post"} \cup (IF cfg.ra THEN {"lt", "index", "plus"} ELSE {})
RevHows == {"pre", "post"} \cup (IF cfg.ra THEN {"gt", "minus"} ELSE {})
                           \cup (IF cfg.std THEN {"stdrev"} ELSE {}) \cup (IF cfg.std /\ cfg.ra THEN {"stdrevidx"} ELSE {})
TraverseForward(how) == how \in FwdHows /\ Look("TraverseForward", 1, [how |-> how], Val(Elems))
TraverseReverse(how) == how \in RevHows /\ Look("TraverseReverse", 1, [how |-> how], Val(Rev(Elems)))

(* ---- (re)seat both iterators: from begin() by ++ ("inc"), from end() by -- ("dec"),                        *)
(*      begin() + i ("add"), end() - (n - i) ("sub") ---- *)
Vias == {"inc", "dec"} \cup (IF cfg.ra THEN {"add", "sub"} ELSE {})
Seat(i, j, via) == InR(i) /\ InR(j) /\ via \in Vias /\
                   Do("Seat", 1, [p |-> i, q |-> j, via |-> via], i, j, under, Void)

----------------------------------------------------------------------------
Offs == (0 - MaxN)..MaxN

IndexUnder(m, s) == [j \in 1..(m * s) |-> <<j - 1>>]       \* element j holds its own index
(* values searched for by the model: the element at position j, one below and one above everything stored *)
FV(j) == IF j < n THEN Elem(j) ELSE IF j = n THEN <<0 - 7>> ELSE <<9999>>
StdFindJ(k, j)       == j <= n + 1 /\ StdFind(k, FV(j))
StdCountJ(k, j)      == j <= n + 1 /\ StdCount(k, FV(j))
StdLowerBoundJ(k, j) == j <= n + 1 /\ StdLowerBound(k, FV(j))

Init ==
    /\ cfg \in Cfgs
    /\ step \in Steps
    /\ n \in 0..MaxN
    /\ under = IndexUnder(n, step)
    /\ p = 0 /\ q = 0
    /\ last = [op |-> "Init", k |-> 0, a |-> NoArg, res |-> Void]
    /\ pre = [n |-> n, step |-> step, p |-> 0, q |-> 0]

Next ==
    \/ \E k \in {1, 2} :
        \/ PreInc(k) \/ PostInc(k) \/ PreDec(k) \/ PostDec(k) \/ Deref(k) \/ Arrow(k) \/ Eq(k) \/ Ne(k) \/ Assign(k)
        \/ PostIncDeref(k) \/ PostDecDeref(k) \/ DcAssign(k) \/ StdMinElement(k) \/ ToConst(k)
        \/ \E m \in 0..MaxN : MultiPass(k, m) \/ StdRotate(k, m)
        \/ \E o \in {"eq", "ne", "lt", "le", "gt", "ge", "diff"} : MixedCmp(k, o)
        \/ Diff(k) \/ Lt(k) \/ Le(k) \/ Gt(k) \/ Ge(k) \/ StdDistance(k)
        \/ StdCopy(k) \/ StdCopyBackward(k) \/ StdReverseCopy(k) \/ StdReverse(k) \/ StdSort(k) \/ EqualM(k) \/ LessThanM(k)
        \/ \E j \in 0..(MaxN + 1) : StdFindJ(k, j) \/ StdCountJ(k, j) \/ StdLowerBoundJ(k, j)
        \/ \E j \in 0..MaxN : StdEqual(k, j) \/ StdCopyWithin(k, j)
        \/ \E d \in Offs : \/ AddAssign(k, d) \/ SubAssign(k, d) \/ Plus(k, d) \/ PlusLeft(k, d) \/ Minus(k, d) \/ Index(k, d)
                           \/ PlusU(k, d) \/ PlusLeftU(k, d) \/ MinusU(k, d) \/ IndexU(k, d)
                           \/ StdAdvance(k, d) \/ StdNext(k, d) \/ StdPrev(k, d)
        \/ \E v \in WriteVals : Write(k, v) \/ (\E d \in Offs : IndexWrite(k, d, v)) \/ StdFill(k, v)
    \/ \E how \in {"pre", "post", "lt", "index", "plus"} : TraverseForward(how)
    \/ \E how \in {"pre", "post", "gt", "minus", "stdrev", "stdrevidx"} : TraverseReverse(how)
    \/ \E o \in {"eq", "ne", "lt", "le", "gt", "ge"} : ValueInit(o)
    \/ \E i, j \in 0..MaxN, via \in {"inc", "dec", "add", "sub"} : Seat(i, j, via)

Spec == Init /\ [][Next]_vars

(* S->C enumeration.  With VIEW absvars every abstract state is expanded once; this action     *)
(* constraint only lets states with the pristine storage be expanded and writes each           *)
(* transition out of them (capabilities, pre-state, call) as one JSON line on TLC's output.    *)
Pristine == under = IndexUnder(n, step)
(* SpecP: only states with the pristine storage take steps (every action from every (n, step, p, q), one writer step  *)
(* deep).  Used for the S->C enumeration and for model checking at the larger bounds; the unconstrained Spec with      *)
(* small bounds covers longer write histories (reverse after fill after sort ...).                                     *)
SpecP == Init /\ [][Pristine /\ Next]_vars
Emit == /\ Pristine
        /\ (last'.op \in EmitOps) =>
              PrintT("@E@" \o ToJson([c |-> cfg, p |-> pre', l |-> [op |-> last'.op, k |-> last'.k, a |-> last'.a]]))

----------------------------------------------------------------------------
(* Invariants and theorems of the specification itself.                      *)
TypeOK ==
    /\ cfg \in [ra : BOOLEAN, ext : BOOLEAN, mut : BOOLEAN, std : BOOLEAN, dc : BOOLEAN, stp : BOOLEAN]
    /\ step \in Nat \ {0}
    /\ n \in Nat /\ Len(under) = n * step
    /\ p \in 0..n /\ q \in 0..n
    /\ cfg.ext => cfg.ra
    /\ cfg.stp => cfg.ra

(* The law set of the property, over ALL positions a, b of the current container and all       *)
(* offsets that keep the result in range (not only over the positions the iterators are at).   *)
Laws ==
    /\ \A i \in 0..n : \A d \in (0 - i)..(n - i) :
        /\ IDiff(IPlus(i, d), i) = d                                   \* (it + n) - it == n
        /\ IPlusLeft(d, i) = IPlus(i, d)                               \* n + it == it + n
        /\ IMinus(IPlus(i, d), d) = i                                  \* it - n undoes it + n
        /\ IPlus(IMinus(i, 0 - d), 0) = IPlus(i, d)                    \* it - (-n) == it + n
        /\ InD(i + d) => IIndex(i, d) = IDeref(IPlus(i, d))            \* it[n] == *(it + n)
        /\ InR(IPlus(i, d)) /\ InR(IMinus(IPlus(i, d), d))
    /\ \A i, j \in 0..n :
        /\ ILt(i, j) <=> IDiff(j, i) > 0                               \* a < b exactly when b - a > 0
        /\ ILe(i, j) <=> ~ILt(j, i)
        /\ IGt(i, j) <=> ILt(j, i)
        /\ IGe(i, j) <=> ~ILt(i, j)
        /\ INe(i, j) <=> ~IEq(i, j)
        /\ IEq(i, j) <=> (IDiff(i, j) = 0)
        /\ IPlus(j, IDiff(i, j)) = i                                   \* b + (a - b) == a
    /\ Len(Elems) = n /\ \A i \in 0..(n - 1) : Elems[i + 1] = IDeref(i) /\ Rev(Elems)[n - i] = IDeref(i)
    /\ Rev(Rev(Elems)) = Elems

(* the same laws on what the actions actually return *)
PosAfter(k) == IF k = 1 THEN p' ELSE q'
PostfixReturnsOld ==
    [][/\ last'.op \in {"PostInc", "PostDec"} => last'.res.it.c = Pos(last'.k) /\ pre'.p = p /\ pre'.q = q
       /\ last'.op = "PostInc" => PosAfter(last'.k) = Pos(last'.k) + 1
       /\ last'.op = "PostDec" => PosAfter(last'.k) = Pos(last'.k) - 1
       /\ last'.op \in {"PreInc", "PreDec", "AddAssign", "SubAssign"} => last'.res.it.c = PosAfter(last'.k)
       /\ last'.op = "PostIncDeref" => last'.res.val = Elem(Pos(last'.k)) /\ PosAfter(last'.k) = Pos(last'.k) + 1
       /\ last'.op = "PostDecDeref" => last'.res.val = Elem(Pos(last'.k)) /\ PosAfter(last'.k) = Pos(last'.k) - 1
       /\ last'.op \in {"PostIncDeref", "PostDecDeref"} => Pos(Other(last'.k)) = (IF last'.k = 1 THEN q' ELSE p')]_vars
ObserverOps == {"Deref", "Arrow", "Eq", "Ne", "Diff", "Lt", "Le", "Gt", "Ge", "Plus", "PlusLeft", "Minus", "Index",
                "PlusU", "PlusLeftU", "MinusU", "IndexU", "StdDistance", "StdNext", "StdPrev", "TraverseForward", "TraverseReverse",
                "StdCopy", "StdCopyBackward", "StdReverseCopy", "StdFind", "StdCount", "StdEqual", "StdLowerBound",
                "ValueInit", "EqualM", "LessThanM", "DcAssign", "MultiPass", "StdMinElement", "ToConst", "MixedCmp"}
ObserversPure == [][last'.op \in ObserverOps => p' = p /\ q' = q /\ under' = under]_vars
OnlyWritesWrite == [][under' # under => last'.op \in {"Write", "IndexWrite", "StdFill", "StdReverse", "StdSort", "StdRotate", "StdCopyWithin", "Reset"}]_vars
(* the size_t overloads give the same result as the difference_type ones *)
ExtAgrees ==
    [][/\ last'.op = "PlusU"     => last'.res = ItRes(IPlus(Pos(last'.k), last'.a.k))
       /\ last'.op = "PlusLeftU" => last'.res = ItRes(IPlus(Pos(last'.k), last'.a.k))
       /\ last'.op = "MinusU"    => last'.res = ItRes(IMinus(Pos(last'.k), last'.a.k))
       /\ last'.op = "IndexU"    => last'.res = Val(IDeref(IPlus(Pos(last'.k), last'.a.k)))]_vars
(* the composite actions are what the element-wise laws make of them (guards the oracle: these   *)
(* characterisations are stated independently of the definitions used in the actions)             *)
SliceNow(k)  == Slice(Lo(k), Hi(k))
SliceNext(k) == [x \in 1..(Hi(k) - Lo(k)) |-> under'[(Lo(k) + x - 1) * step + 1]]
Occ(s, e) == Cardinality({i \in 1..Len(s) : s[i] = e})
AlgoLaws ==
    [][LET k == last'.k  o == last'.op  r == last'.res IN
       /\ o \in {"StdCopy", "StdCopyBackward"} =>
             Len(r.val) = IDiff(Hi(k), Lo(k)) /\ \A i \in 1..Len(r.val) : r.val[i] = IDeref(IPlus(Lo(k), i - 1))
       /\ o = "StdReverseCopy" =>
             Len(r.val) = IDiff(Hi(k), Lo(k)) /\ \A i \in 1..Len(r.val) : r.val[i] = IDeref(IMinus(Hi(k), i))
       /\ o = "StdFind" =>
             /\ r.it.c \in Lo(k)..Hi(k)
             /\ r.it.c < Hi(k) => Elem(r.it.c) = last'.a.v
             /\ \A y \in Lo(k)..(r.it.c - 1) : Elem(y) # last'.a.v
       /\ o = "StdCount" => r.val = Occ(SliceNow(k), last'.a.v)
       /\ o = "StdEqual" => (r.val <=> \A i \in 0..(Hi(k) - Lo(k) - 1) : Elem(Lo(k) + i) = Elem(last'.a.j + i))
       /\ o = "StdLowerBound" =>
             /\ r.it.c \in Lo(k)..Hi(k)
             /\ \A y \in Lo(k)..(r.it.c - 1) : TupLt(Elem(y), last'.a.v)
             /\ \A y \in r.it.c..(Hi(k) - 1) : ~TupLt(Elem(y), last'.a.v)
       /\ o = "StdFill" => \A i \in 1..(Hi(k) - Lo(k)) : SliceNext(k)[i] = last'.a.v
       /\ o = "StdReverse" => SliceNext(k) = Rev(SliceNow(k))
       /\ o = "StdSort" => /\ IsSorted(SliceNext(k))
                           /\ \A i \in 1..(Hi(k) - Lo(k)) : Occ(SliceNext(k), SliceNow(k)[i]) = Occ(SliceNow(k), SliceNow(k)[i])
       /\ o = "StdRotate" => LET m == last'.a.m  len == Hi(k) - Lo(k) IN
             /\ \A i \in 0..(m - 1) : SliceNext(k)[len - m + i + 1] = SliceNow(k)[i + 1]            \* [a, mid) lands at the back
             /\ \A i \in m..(len - 1) : SliceNext(k)[i - m + 1] = SliceNow(k)[i + 1]               \* [mid, b) lands at the front
             /\ r.it.c = Lo(k) + (len - m)                                                          \* where the old first element went
       /\ o = "StdCopyWithin" => LET j == last'.a.j  len == Hi(k) - Lo(k) IN
             /\ \A i \in 0..(len - 1) : under'[(j + i) * step + 1] = IDeref(IPlus(Lo(k), i))             \* the copy holds the OLD source elements
             /\ \A x \in 1..Len(under) : ~((x - 1) % step = 0 /\ ((x - 1) \div step) \in j..(j + len - 1)) => under'[x] = under[x]
             /\ r.it.c = j + len /\ Len(under') = Len(under) /\ p' = p /\ q' = q
       /\ o = "StdMinElement" =>
             /\ r.it.c \in Lo(k)..Hi(k) /\ (r.it.c = Hi(k) <=> Lo(k) = Hi(k))
             /\ r.it.c < Hi(k) => /\ \A y \in Lo(k)..(Hi(k) - 1) : ~TupLt(Elem(y), Elem(r.it.c))
                                  /\ \A y \in Lo(k)..(r.it.c - 1) : Elem(y) # Elem(r.it.c)
       /\ o = "MultiPass" => /\ r.first = r.second /\ Len(r.first) = last'.a.m /\ r.eq
                             /\ \A i \in 1..last'.a.m : r.first[i] = IDeref(IPlus(Pos(k), i - 1))
                             /\ r.it.c = Pos(k) + last'.a.m
       /\ o \in {"DcAssign", "ToConst"} => r.it = ObsAt(Pos(k))
       /\ o = "MixedCmp" => r.val = (CASE last'.a.o = "eq" -> Pos(k) = Pos(Other(k)) [] last'.a.o = "ne" -> Pos(k) # Pos(Other(k))
                                        [] last'.a.o = "lt" -> IDiff(Pos(Other(k)), Pos(k)) > 0 [] last'.a.o = "le" -> ~(IDiff(Pos(k), Pos(Other(k))) > 0)
                                        [] last'.a.o = "gt" -> IDiff(Pos(k), Pos(Other(k))) > 0 [] last'.a.o = "ge" -> ~(IDiff(Pos(Other(k)), Pos(k)) > 0)
                                        [] last'.a.o = "diff" -> Pos(k) - Pos(Other(k)))
       /\ o \in {"StdFill", "StdReverse", "StdSort", "StdRotate"} =>
             /\ Len(under') = Len(under) /\ p' = p /\ q' = q
             /\ \A x \in 1..Len(under) : ~InRange(k, x) => under'[x] = under[x]
       /\ o = "EqualM" => (r.val <=> IEq(Pos(k), Pos(Other(k))))
       /\ o = "LessThanM" => (r.val <=> IDiff(Pos(Other(k)), Pos(k)) > 0)]_vars
(* value-initialised iterators: every comparison is that of two equal positions *)
ValueInitLaws ==
    [][last'.op = "ValueInit" =>
         LET o == last'.a.o IN last'.res.val = (CASE o = "eq" -> IEq(0, 0) [] o = "ne" -> INe(0, 0) [] o = "lt" -> ILt(0, 0)
                                                  [] o = "le" -> ILe(0, 0) [] o = "gt" -> IGt(0, 0) [] o = "ge" -> IGe(0, 0))]_vars
(* an iterator result always denotes a position of the range; a dereference never leaves it *)
ResultsInRange ==
    [][/\ "it" \in DOMAIN last'.res => last'.res.it.c \in 0..n
       /\ last'.op \in {"Deref", "Arrow", "Index", "IndexU", "PostIncDeref", "PostDecDeref"} => \E i \in 0..(n - 1) : last'.res.val = Elem(i)]_vars
=============================================================================

SPECIFICATION Spec

SPECIFICATION Spec
CONSTANTS
  Mode = "extreme"
INVARIANT Conforms

---------------------------- MODULE LiftedTrace ----------------------------
(* Trace validation for C04: every line of the ndjson trace recorded from the   *)
(* real xoptional / xmasked_value objects must be a step of Lifted (L1) with the *)
(* logged arguments: the logged result must be an answer the property allows    *)
(* (the action is enabled for it) and the logged registers, referents, shared    *)
(* cells and evaluation counter must be the spec's next state.                   *)
EXTENDS Lifted, IOUtils

VARIABLE l     \* next line of the trace to be explained

JsonTrace == ndJsonDeserialize(IOEnv.TRACE)
ExplainAt == atoi(IOEnv.EXPLAIN)

Fresh0(n) == [i \in 1..n |-> PlainZero]
Id(n) == [i \in 1..n |-> i]

TInit ==
    /\ l = 1
    /\ r = Fresh0(3)
    /\ va = Id(3) /\ fa = Id(3)
    /\ evals = 0
    /\ last = [op |-> "Init", a |-> [z |-> 0], res |-> Canon0(VoidW)]
    /\ pre = [r |-> r, va |-> va, fa |-> fa]

(* a new execution: n fresh registers (plain 0), evaluation counter reset *)
TReset(e) ==
    /\ r' = Fresh0(e.a.n)
    /\ va' = Id(e.a.n) /\ fa' = Id(e.a.n)
    /\ evals' = 0
    /\ pre' = [r |-> r, va |-> va, fa |-> fa]
    /\ last' = [op |-> "Reset", a |-> e.a, res |-> e.res]
(* validation resumes behind an event that was rejected and reported: the spec takes over the recorded state *)
TSync(e) ==
    /\ r' = [i \in 1..Len(e.st.r) |-> [kind |-> e.st.r[i].kind, has |-> e.st.r[i].has, val |-> e.st.r[i].val]]
    /\ va' = [i \in 1..Len(e.st.r) |-> e.st.r[i].al.v]
    /\ fa' = [i \in 1..Len(e.st.r) |-> e.st.r[i].al.f]
    /\ evals' = e.st.evals
    /\ pre' = [r |-> r, va |-> va, fa |-> fa]
    /\ last' = [op |-> "Sync", a |-> e.a, res |-> Canon0(VoidW)]

NR == Len(r)            \* the number of registers of this execution
InR(i) == i \in 1..NR

Dispatch(e) == LET a == e.a  o == e.res IN
    \/ e.op = "Reset"     /\ TReset(e)
    \/ e.op = "Sync"      /\ TSync(e)
    \/ e.op = "Load"      /\ Load(a.i, a.how, a.has, a.v, o)
    \/ e.op = "Alias"     /\ Alias(a.i, a.how, a.j, a.has, o)
    \/ e.op = "Unary"     /\ Unary(a.f, a.i, a.d, o)
    \/ e.op = "Binary"    /\ Binary(a.f, a.i, a.j, a.d, o)
    \/ e.op = "Ternary"   /\ Ternary(a.f, a.i, a.j, a.k, a.d, o)
    \/ e.op = "Compare"   /\ Compare(a.f, a.i, a.j, o)
    \/ e.op = "Compound"  /\ Compound(a.f, a.i, a.j, IF "cj" \in DOMAIN a THEN a.cj ELSE "cl", o)
    \/ e.op = "Select"    /\ Select(a.c, a.i, a.j, a.d, o)
    \/ e.op = "ValueOr"   /\ ValueOr(a.i, a.dv, a.form, o)
    \/ e.op = "Get"       /\ Get(a.i, a.path, o)
    \/ e.op = "SetFlag"   /\ SetFlag(a.i, a.b, o)
    \/ e.op = "SetVal"    /\ SetVal(a.i, a.v, o)
    \/ e.op = "Poke"      /\ Poke(a.i, a.has, a.v, o)
    \/ e.op = "AssignVal" /\ AssignVal(a.i, a.v, o)
    \/ e.op = "AssignReg" /\ AssignReg(a.i, a.j, o)
    \/ e.op = "Swap"      /\ Swap(a.i, a.j, a.how, o)

(* what the property demands of the call in event e (printed when a trace is rejected); for a Crash event: of the *)
(* call during which the driver crashed                                                                          *)
Exp0(op, a) ==
    CASE op = "Unary"    -> WUnary(a.f, a.i)
      [] op = "Binary"   -> WBinary(a.f, a.i, a.j)
      [] op = "Ternary"  -> WTernary(a.f, a.i, a.j, a.k)
      [] op = "Compare"  -> WCompare(a.f, a.i, a.j)
      [] op = "Compound" -> WCompound(a.f, a.i, a.j)
      [] op = "Select"   -> WSelect(a.c, a.i, a.j)
      [] op = "ValueOr"  -> WValueOr(a.i, a.dv)
      [] op = "Get"      -> Loose("get", r[a.i].has, r[a.i].val, TRUE)
      [] op = "Load"     -> WLoad(a.how, a.has, a.v)
      [] OTHER           -> VoidW
Expected(e) == IF e.op = "Crash" THEN Exp0(e.a.call.op, e.a.call.a) ELSE Exp0(e.op, e.a)

TNext ==
    /\ l <= Len(JsonTrace)
    /\ LET e == JsonTrace[l] IN
        IF l = ExplainAt
          THEN /\ PrintT(<<"EXPECTED", [demanded |-> Expected(e),
                           meaning |-> "kind,has as shown; val iff cmp; d = 0 when z; val = u (same operation on the underlying doubles) when uv and has",
                           registers_before |-> r, evals_before |-> evals]>>)
               /\ UNCHANGED vars
          ELSE /\ Dispatch(e)
               /\ ProjAll' = e.st
    /\ l' = l + 1

TSpec == TInit /\ [][TNext]_<<vars, l>>
TraceAccepted == TLCGet("stats").diameter - 1 = Len(JsonTrace)
=============================================================================

---------------------------- MODULE LiftedTrace ----------------------------
(* Trace validation for C04: every line of the ndjson trace recorded from the   *)
(* real xoptional / xmasked_value objects must be a step of Lifted (L1) with the *)
(* logged arguments: the logged result must be an answer the property allows    *)
(* (the action is enabled for it) and the logged registers, referents and        *)
(* evaluation counter must be the spec's next state.                             *)
EXTENDS Lifted, IOUtils

VARIABLE l     \* next line of the trace to be explained

JsonTrace == ndJsonDeserialize(IOEnv.TRACE)
ExplainAt == atoi(IOEnv.EXPLAIN)

Fresh0(n) == [i \in 1..n |-> PlainZero]

TInit ==
    /\ l = 1
    /\ r = Fresh0(3)
    /\ evals = 0
    /\ last = [op |-> "Init", a |-> [z |-> 0], res |-> Canon(VoidW)]
    /\ pre = r

(* a new execution: n fresh registers (plain 0), evaluation counter reset *)
TReset(e) ==
    /\ r' = Fresh0(e.a.n)
    /\ evals' = 0
    /\ pre' = r
    /\ last' = [op |-> "Reset", a |-> e.a, res |-> e.res]

NR == Len(r)            \* the number of registers of this execution
InR(i) == i \in 1..NR

Dispatch(e) == LET a == e.a  o == e.res IN
    \/ e.op = "Reset"     /\ TReset(e)
    \/ e.op = "Load"      /\ Load(a.i, a.how, a.has, a.v, o)
    \/ e.op = "Unary"     /\ Unary(a.f, a.i, a.d, o)
    \/ e.op = "Binary"    /\ Binary(a.f, a.i, a.j, a.d, o)
    \/ e.op = "Ternary"   /\ Ternary(a.f, a.i, a.j, a.k, a.d, o)
    \/ e.op = "Compare"   /\ Compare(a.f, a.i, a.j, o)
    \/ e.op = "Compound"  /\ Compound(a.f, a.i, a.j, o)
    \/ e.op = "Select"    /\ Select(a.c, a.i, a.j, a.d, o)
    \/ e.op = "ValueOr"   /\ ValueOr(a.i, a.dv, o)
    \/ e.op = "Get"       /\ Get(a.i, a.path, o)
    \/ e.op = "SetFlag"   /\ SetFlag(a.i, a.b, o)
    \/ e.op = "SetVal"    /\ SetVal(a.i, a.v, o)
    \/ e.op = "Poke"      /\ Poke(a.i, a.has, a.v, o)
    \/ e.op = "AssignVal" /\ AssignVal(a.i, a.v, o)
    \/ e.op = "AssignReg" /\ AssignReg(a.i, a.j, o)
    \/ e.op = "Swap"      /\ Swap(a.i, a.j, a.how, o)

(* what the property demands of the call in event e (printed when a trace is rejected) *)
Expected(e) == LET a == e.a IN
    CASE e.op = "Unary"    -> WUnary(a.f, a.i)
      [] e.op = "Binary"   -> WBinary(a.f, a.i, a.j)
      [] e.op = "Ternary"  -> WTernary(a.f, a.i, a.j, a.k)
      [] e.op = "Compare"  -> WCompare(a.f, a.i, a.j)
      [] e.op = "Compound" -> WCompound(a.f, a.i, a.j)
      [] e.op = "Select"   -> WSelect(a.c, a.i, a.j)
      [] e.op = "ValueOr"  -> WValueOr(a.i, a.dv)
      [] e.op = "Get"      -> Want("get", r[a.i].has, r[a.i].val, TRUE, FALSE)
      [] e.op = "Load"     -> WLoad(a.how, a.has, a.v)
      [] OTHER             -> VoidW

TNext ==
    /\ l <= Len(JsonTrace)
    /\ LET e == JsonTrace[l] IN
        IF l = ExplainAt
          THEN /\ PrintT(<<"EXPECTED", [demanded |-> Expected(e),
                           meaning |-> "kind,has as shown; val iff cmp; d = 0 when strict and not has",
                           registers_before |-> r, evals_before |-> evals]>>)
               /\ UNCHANGED vars
          ELSE /\ Dispatch(e)
               /\ ProjAll' = e.st
    /\ l' = l + 1

TSpec == TInit /\ [][TNext]_<<vars, l>>
TraceAccepted == TLCGet("stats").diameter - 1 = Len(JsonTrace)
=============================================================================

--------------------------- MODULE IterLawsTypes ---------------------------
(***************************************************************************)
(* Compile-time tables for C12, evaluated by TLC and printed as JSON        *)
(* (ASSUME ... PrintT); checks/c12.py joins them with what                  *)
(* harness/iter/facts.cpp observes on the real iterator types.              *)
(*                                                                          *)
(* 1. Rows(c): the type-level facts the iterator laws of IterLaws.tla need  *)
(*    of an iterator kind of capability class c, written from the C++14     *)
(*    iterator requirement tables ([iterator.iterators], [input.iterators], *)
(*    [forward.iterators], [bidirectional.iterators],                       *)
(*    [random.access.iterators]): which expressions exist and what their    *)
(*    types are.  need = "must": a kind of the class without the fact       *)
(*    violates the property (an action IterLaws.tla enables cannot be       *)
(*    called); need = "cap": the fact is a capability of the tree that only *)
(*    decides the class of the kind.                                        *)
(* 2. TagRows: common_iterator_tag over tuples of iterator categories: the  *)
(*    weakest category.  Not named by the property statement: a failing row *)
(*    is advisory.                                                          *)
(***************************************************************************)
EXTENDS Integers, Sequences, FiniteSets, TLC, Json

B == BOOLEAN
Classes == {c \in [ra : B, ext : B, mut : B, std : B, dc : B, stp : B] : (c.ext => c.ra) /\ (c.stp => c.ra)}

Must(S) == {[f |-> x, need |-> "must"] : x \in S}
Cap(S)  == {[f |-> x, need |-> "cap"]  : x \in S}

(* every kind: an iterator is copy constructible, copy assignable, destructible; ++r is X&, r++ is     *)
(* convertible to const X&, *r is convertible to reference (the same for --), a == b and a != b are    *)
(* contextually convertible to bool; the member types the xtl bases export exist                       *)
BaseFacts == {"copy_constructible", "copy_assignable", "destructible",
              "m_difference_type", "m_value_type", "m_reference", "m_pointer",
              "preinc", "postinc", "predec", "postdec", "deref", "arrow", "eq", "ne"}
(* random access: r += n and r -= n are X&; a + n, n + a, a - n are X; b - a is difference_type;      *)
(* a[n] is convertible to reference; a < b, a > b, a >= b, a <= b are contextually convertible to bool *)
RaFacts   == {"addassign", "subassign", "plus", "plusleft", "minus", "diff", "index", "lt", "le", "gt", "ge"}
(* the size_t overloads of xrandom_access_iterator_ext *)
ExtFacts  == {"plus_u", "plusleft_u", "minus_u", "index_u"}
(* usable with std::iterator_traits: the category is (derived from) the tag of the class, the other   *)
(* four members are the iterator's own                                                                 *)
StdFacts(c) == {IF c.ra THEN "traits_ra" ELSE "traits_bi", "traits_members"}
StpFacts  == {"equal_m", "less_than_m"}

Rows(c) == Must(BaseFacts)
           \cup (IF c.ra  THEN Must(RaFacts)     ELSE {})
           \cup (IF c.ext THEN Must(ExtFacts)    ELSE {})
           \cup (IF c.std THEN Must(StdFacts(c)) ELSE Cap({IF c.ra THEN "traits_ra" ELSE "traits_bi"}))
           \cup (IF c.stp THEN Must(StpFacts)    ELSE {})
           \cup Cap({"default_constructible"})

AllFacts == BaseFacts \cup RaFacts \cup ExtFacts \cup {"traits_ra", "traits_bi", "traits_members"} \cup StpFacts \cup {"default_constructible"}

(* ---- common_iterator_tag ---- *)
Tags == <<"input", "forward", "bidirectional", "random_access">>
Rank(t) == CHOOSE i \in 1..4 : Tags[i] = t
TagSet == {Tags[i] : i \in 1..4}
Tuples == UNION {[1..m -> TagSet] : m \in 1..3}
Weakest(tp) == Tags[CHOOSE r \in 1..4 : (\E i \in DOMAIN tp : Rank(tp[i]) = r) /\ (\A i \in DOMAIN tp : Rank(tp[i]) >= r)]
TagRows == {[tags |-> tp, common |-> Weakest(tp)] : tp \in Tuples}

(* theorems of the tables *)
ASSUME \A c \in Classes : \A r \in Rows(c) : r.f \in AllFacts
ASSUME \A c \in Classes : \A r1, r2 \in Rows(c) : r1.f = r2.f => r1 = r2                 \* one requirement per fact
ASSUME \A c, d \in Classes : (\A x \in DOMAIN c : c[x] => d[x]) =>                        \* more capabilities, more obligations
          \A r \in Rows(c) : r.need = "must" /\ r.f # "traits_bi" => r \in Rows(d)
ASSUME \A tp \in Tuples : /\ \E i \in DOMAIN tp : tp[i] = Weakest(tp)
                          /\ \A i \in DOMAIN tp : Rank(Weakest(tp)) <= Rank(tp[i])
ASSUME Cardinality(TagRows) = 4 + 16 + 64

ASSUME \A c \in Classes : PrintT("@T@" \o ToJson([c |-> c, rows |-> Rows(c)]))
ASSUME \A r \in TagRows : PrintT("@G@" \o ToJson(r))

VARIABLE x
Init == x = 0
Next == UNCHANGED x
Spec == Init /\ [][Next]_x
=============================================================================

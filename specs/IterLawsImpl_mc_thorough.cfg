SPECIFICATION Spec
CONSTANTS
  MaxN = 5
  Steps = {1, 2, 3}
  Impls <- AllImpls
  W = 4
  Mutant = "none"
VIEW absview
INVARIANTS RepInv ObserversAgree
PROPERTIES Refines

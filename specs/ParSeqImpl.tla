----------------------------- MODULE ParSeqImpl -----------------------------
(***************************************************************************)
(* L2 representation specification for C11, transcribed from               *)
(* include/xtl/xoptional_sequence.hpp, xcomplex_sequence.hpp and           *)
(* xsequence.hpp: a container is TWO storages A[k] (m_values / m_real) and *)
(* B[k] (m_flags / m_imag), each with a length of its own.  Every member   *)
(* function is written as what the code does to each storage separately    *)
(* (make_sequence for a vector and for a std::array, two resize calls,     *)
(* reference(m_values[i], m_flags[i]), iterators that are a pair of        *)
(* positions advanced together, size() = m_values.size(), == as two        *)
(* container comparisons, defaulted copy and move).  Nothing here makes    *)
(* the two lengths equal by construction: that they are is the invariant   *)
(* Lockstep, which TLC checks in every reachable state, together with      *)
(* "every step is the L1 step of the same call" (Refines, against          *)
(* ParSeq.tla under obj[k][i] = <<A[k][i], B[k][i]>>).                     *)
(*                                                                         *)
(* ArrayFlagsMove: what a moved-from array flavour keeps.  The values of a *)
(* std::array are copied by a move; the flags of an xoptional_array are an *)
(* xdynamic_bitset, which a move empties.  TRUE transcribes that (the      *)
(* moved-from xoptional_array then has I values and 0 flags; with          *)
(* ObserveMoved = TRUE TLC reports Lockstep violated); FALSE transcribes a *)
(* tree in which the array flavours keep their flags.                      *)
(***************************************************************************)
EXTENDS Integers, Sequences, FiniteSets, TLC

CONSTANTS Cfgs, MaxLen, Vals,
          ArrayFlagsMove,  \* see above
          ObserveMoved     \* TRUE: moves that keep and observe the moved-from object (re = 0) are explored

VARIABLES cfg, A, B, last, pre
ivars == <<cfg, A, B, last, pre>>

Other(k) == 3 - k
IsOpt == cfg.fl = "optional"
IsVec == cfg.ct = "vector"
HasFwd == cfg.fwd = 1
HasAssign == IF IsOpt THEN TRUE ELSE cfg.cas = 1
N0 == IF IsVec THEN 0 ELSE cfg.n
SizeOK(n) == IF IsVec THEN TRUE ELSE n = cfg.n

Fill(n, x)  == [i \in 1..n |-> x]
VecResize(s, n, x) == [i \in 1..n |-> IF i <= Len(s) THEN s[i] ELSE x]
\* make_sequence<S>(size, v): a vector of `size` copies; a std::array ignores the size and fills its N elements
MakeA(n, x) == IF IsVec THEN Fill(n, x) ELSE Fill(cfg.n, x)
\* the flag storage of the optional flavours is a dynamic bitset whatever the value storage is: it takes the size given
MakeB(n, x) == IF IsOpt \/ IsVec THEN Fill(n, x) ELSE Fill(cfg.n, x)

\* ---------------------------------------------------------------- refinement mapping
\* Only meaningful where the two lengths agree (Lockstep); elsewhere the shorter storage is padded with a value no
\* element can have, so that a broken state can never be mistaken for an L1 state.
Pair(k, i) == <<IF i <= Len(A[k]) THEN A[k][i] ELSE -99, IF i <= Len(B[k]) THEN B[k][i] ELSE -99>>
AbsOf(k)   == [i \in 1..(IF Len(A[k]) >= Len(B[k]) THEN Len(A[k]) ELSE Len(B[k])) |-> Pair(k, i)]
AbsObj     == <<AbsOf(1), AbsOf(2)>>

Ok(v)  == [exc |-> "none", val |-> v]
Exc(e) == [exc |-> e, val |-> <<>>]
Void   == Ok(<<>>)
NoArg  == [z |-> 0]

Do(op, k, a, na, nb, res) ==
    /\ pre'  = AbsObj
    /\ A'    = [A EXCEPT ![k] = na]
    /\ B'    = [B EXCEPT ![k] = nb]
    /\ cfg'  = cfg
    /\ last' = [op |-> op, k |-> k, a |-> a, res |-> res]
Obs(op, k, a, res) == Do(op, k, a, A[k], B[k], res)

OfValue(v)  == IF IsOpt THEN <<v[1], 1>> ELSE v

\* ---------------------------------------------------------------- constructors
\* vectors: defaulted (two empty storages); xoptional_array(): values value-initialised, flags make_sequence(I, false);
\* xcomplex_array(): base_type(N)
CtorDefault(k, how) == Do("CtorDefault", k, [how |-> how], Fill(N0, 0), Fill(N0, 0), Void)
CtorN(k, n)         == ~IsOpt /\ SizeOK(n) /\ Do("CtorN", k, [n |-> n], MakeA(n, 0), MakeB(n, 0), Void)
CtorNV(k, n, v)     == SizeOK(n) /\ Do("CtorNV", k, [n |-> n, v |-> v], MakeA(n, OfValue(v)[1]), MakeB(n, OfValue(v)[2]), Void)
CtorNO(k, n, e, ck) == SizeOK(n) /\ Do("CtorNO", k, [n |-> n, e |-> e, ck |-> ck], MakeA(n, e[1]), MakeB(n, e[2]), Void)
\* make_sequence(init.size()) twice, then two std::transform passes over the list
CtorIL(k, es)       == ~IsOpt /\ IsVec /\ Do("CtorIL", k, [es |-> es], [i \in 1..Len(es) |-> es[i][1]], [i \in 1..Len(es) |-> es[i][2]], Void)
CtorCopy(k)         == Do("CtorCopy", k, NoArg, A[Other(k)], B[Other(k)], Void)
CopyAssign(k)       == Do("CopyAssign", k, NoArg, A[Other(k)], B[Other(k)], Void)
\* defaulted move: each storage is moved.  A vector / a dynamic bitset is left empty, a std::array keeps its elements.
MovedA(s) == IF IsVec THEN <<>> ELSE s
MovedB(s) == IF IsVec THEN <<>> ELSE IF IsOpt /\ ArrayFlagsMove THEN <<>> ELSE s
DoMove(op, k, re) ==
    LET o == Other(k)
        la == IF re = 1 THEN Fill(N0, 0) ELSE MovedA(A[o])
        lb == IF re = 1 THEN Fill(N0, 0) ELSE MovedB(B[o])
    IN /\ pre'  = AbsObj
       /\ A'    = IF k = 1 THEN <<A[2], la>> ELSE <<la, A[1]>>
       /\ B'    = IF k = 1 THEN <<B[2], lb>> ELSE <<lb, B[1]>>
       /\ cfg'  = cfg
       /\ last' = [op |-> op, k |-> k, a |-> [re |-> re], res |-> Void]
CtorMove(k, re)   == DoMove("CtorMove", k, re)
MoveAssign(k, re) == DoMove("MoveAssign", k, re)

\* ---------------------------------------------------------------- resize: one call per storage
Resize(k, n)         == IsVec /\ Do("Resize", k, [n |-> n], VecResize(A[k], n, 0), VecResize(B[k], n, 0), Void)
ResizeV(k, n, v)     == IsVec /\ Do("ResizeV", k, [n |-> n, v |-> v], VecResize(A[k], n, OfValue(v)[1]), VecResize(B[k], n, OfValue(v)[2]), Void)
ResizeO(k, n, e, ck) == IsVec /\ Do("ResizeO", k, [n |-> n, e |-> e, ck |-> ck], VecResize(A[k], n, e[1]), VecResize(B[k], n, e[2]), Void)

\* ---------------------------------------------------------------- element access: a position in each storage
\* size() is m_values.size() / m_real.size()
Size(k) == Len(A[k])
IterPaths == {"iter", "citer", "riter", "criter"}
FromEnd   == {"minus", "dec", "meq"}
Navs      == {"plus", "minus", "inc", "dec", "sub", "arrow", "peq", "meq", "postinc"}
\* 1-based positions <<ia, ib>> in the two storages that the access designates for logical index i (0-based)
Pos(k, path, nav, i) ==
    LET n == Size(k) IN
    CASE path \in {"index", "cindex", "at", "cat"}  -> <<i + 1, i + 1>>
      [] path \in {"front", "cfront"}               -> <<1, 1>>
      [] path \in {"back", "cback"}                 -> <<Len(A[k]), Len(B[k])>>
      [] path \in {"iter", "citer"}                 -> IF nav \in FromEnd
                                                         THEN <<Len(A[k]) - (n - i) + 1, Len(B[k]) - (n - i) + 1>>     \* end() - back
                                                         ELSE <<i + 1, i + 1>>                                         \* begin() + i
      [] path \in {"riter", "criter"}               -> \* the harness asks for reverse position n - 1 - i
                                                       IF nav \in FromEnd
                                                         THEN <<i + 1, i + 1>>                                         \* rend() - (i + 1)
                                                         ELSE <<Len(A[k]) - (n - 1 - i), Len(B[k]) - (n - 1 - i)>>     \* rbegin() + (n - 1 - i)
\* the same for a container whose storages have the lengths la, lb (the sibling container of the cross-container assignments)
PosL(la, lb, path, nav, i) ==
    CASE path \in {"index", "cindex", "at", "cat"}  -> <<i + 1, i + 1>>
      [] path \in {"front", "cfront"}               -> <<1, 1>>
      [] path \in {"back", "cback"}                 -> <<la, lb>>
      [] path \in {"iter", "citer"}                 -> IF nav \in FromEnd THEN <<la - (la - i) + 1, lb - (la - i) + 1>> ELSE <<i + 1, i + 1>>
      [] path \in {"riter", "criter"}               -> IF nav \in FromEnd THEN <<i + 1, i + 1>> ELSE <<la - (la - 1 - i), lb - (la - 1 - i)>>
PosOK(k, p) == p[1] >= 1 /\ p[1] <= Len(A[k]) /\ p[2] >= 1 /\ p[2] <= Len(B[k])
PathOK(k, path, nav, i) ==
    /\ i < Size(k)
    /\ path \in {"front", "cfront"} => i = 0
    /\ path \in {"back", "cback"} => i = Size(k) - 1
    /\ IF path \in IterPaths THEN nav \in Navs ELSE nav = "na"
    /\ path \in {"iter", "citer"} => HasFwd

\* at(i): reference(m_values.at(i), m_flags.at(i)) - either container may throw
At(k, c, i, h) == Obs("At", k, [c |-> c, i |-> i, h |-> h],
                      IF h = 0 /\ i < Len(A[k]) /\ i < Len(B[k]) THEN Ok(<<A[k][i + 1], B[k][i + 1]>>) ELSE Exc("out_of_range"))

ReadPaths  == {"index", "cindex", "at", "cat", "front", "cfront", "back", "cback", "iter", "citer", "riter", "criter"}
WritePaths == {"index", "at", "front", "back", "iter", "riter"}
Read(k, path, nav, i) ==
    /\ path \in ReadPaths /\ PathOK(k, path, nav, i)
    /\ LET p == Pos(k, path, nav, i) IN
         /\ PosOK(k, p)
         /\ Obs("Read", k, [path |-> path, nav |-> nav, i |-> i], Ok(<<A[k][p[1]], B[k][p[2]], A[k][p[1]], B[k][p[2]]>>))

WriteKinds == {"a", "b", "scalar", "pair", "from", "addeq", "muleq", "addpair"}
\* what the proxy's assignment / compound operators do to the two referents <<a, b>>
NewPair(old, wk, e, src) ==
    CASE wk = "a"      -> <<e[1], old[2]>>
      [] wk = "b"      -> <<old[1], e[2]>>
      [] wk = "scalar" -> IF IsOpt THEN <<e[1], 1>> ELSE <<e[1], 0>>
      [] wk = "pair"   -> e
      [] wk = "from"   -> src
      [] wk = "addeq"  -> IF IsOpt THEN (IF old[2] = 1 THEN <<old[1] + e[1], 1>> ELSE old) ELSE <<old[1] + e[1], old[2]>>
      [] wk = "muleq"  -> IF IsOpt THEN (IF old[2] = 1 THEN <<old[1] * e[1], 1>> ELSE old) ELSE <<old[1] * e[1], old[2] * e[1]>>
      [] wk = "addpair" -> IF IsOpt THEN (IF old[2] = 1 /\ e[2] = 1 THEN <<old[1] + e[1], 1>> ELSE <<old[1], 0>>)
                                    ELSE <<old[1] + e[1], old[2] + e[2]>>
Write(k, path, nav, i, wk, e, j) ==
    /\ path \in WritePaths /\ wk \in WriteKinds
    /\ wk \in {"pair", "from", "addpair"} => HasAssign
    /\ PathOK(k, path, nav, i) /\ j < Size(k)
    /\ LET p == Pos(k, path, nav, i)
           q == <<j + 1, j + 1>>            \* the source of "from" is read through the const operator[]
       IN /\ PosOK(k, p) /\ PosOK(k, q)
          /\ LET np == NewPair(<<A[k][p[1]], B[k][p[2]]>>, wk, e, <<A[k][q[1]], B[k][q[2]]>>) IN
               Do("Write", k, [path |-> path, nav |-> nav, i |-> i, wk |-> wk, e |-> e, j |-> j],
                  [A[k] EXCEPT ![p[1]] = np[1]], [B[k] EXCEPT ![p[2]] = np[2]], Void)
\* resize(n, proxy): the proxy is reference(m_values[p1], m_flags[p2]) of container s (s = k: of the container being resized); each
\* storage is resized with the component the proxy refers to (std::vector::resize copes with an argument inside the vector; the flag of
\* a bitset is passed by value)
ResizeFrom(k, n, s, spath, snav, j) ==
    /\ IsVec /\ spath \in ReadPaths /\ PathOK(s, spath, snav, j)
    /\ LET p == Pos(s, spath, snav, j) IN
         /\ PosOK(s, p)
         /\ Do("ResizeFrom", k, [n |-> n, s |-> s, path |-> spath, nav |-> snav, j |-> j],
               VecResize(A[k], n, A[s][p[1]]), VecResize(B[k], n, B[s][p[2]]), Void)
CtorFrom(k, n, spath, snav, j) ==
    /\ SizeOK(n) /\ spath \in ReadPaths /\ PathOK(Other(k), spath, snav, j)
    /\ LET o == Other(k)  p == Pos(o, spath, snav, j) IN
         /\ PosOK(o, p)
         /\ Do("CtorFrom", k, [n |-> n, path |-> spath, nav |-> snav, j |-> j], MakeA(n, A[o][p[1]]), MakeB(n, B[o][p[2]]), Void)
\* dst-proxy = src-proxy of the sibling container F (two storages of their own: pad zeros followed by a copy of each storage of the
\* other object): the value reference is assigned from F's value storage, the flag / imaginary reference from F's second storage
XAssign(k, path, nav, i, pad, spath, snav, j, mv) ==
    /\ HasAssign /\ path \in WritePaths /\ PathOK(k, path, nav, i) /\ (~IsVec => pad = 0)
    /\ LET o == Other(k)
           FA == Fill(pad, 0) \o A[o]
           FB == Fill(pad, 0) \o B[o]
           p == Pos(k, path, nav, i)
           q == PosL(Len(FA), Len(FB), spath, snav, pad + j)
       IN /\ spath \in ReadPaths /\ j < Size(o) /\ pad + j < Len(FA)
          /\ (spath \in {"front", "cfront"} => pad + j = 0) /\ (spath \in {"back", "cback"} => pad + j = Len(FA) - 1)
          /\ (IF spath \in IterPaths THEN snav \in Navs ELSE snav = "na") /\ (spath \in {"iter", "citer"} => HasFwd)
          /\ PosOK(k, p) /\ q[1] >= 1 /\ q[1] <= Len(FA) /\ q[2] >= 1 /\ q[2] <= Len(FB)
          /\ Do("XAssign", k, [path |-> path, nav |-> nav, i |-> i, pad |-> pad, spath |-> spath, snav |-> snav, j |-> j, mv |-> mv],
                [A[k] EXCEPT ![p[1]] = FA[q[1]]], [B[k] EXCEPT ![p[2]] = FB[q[2]]], Void)
WriteUnder(k, which, i, x) ==
    /\ which \in {"a", "b"} /\ i < Size(k) /\ i < Len(B[k])
    /\ Do("WriteUnder", k, [which |-> which, i |-> i, x |-> x],
          IF which = "a" THEN [A[k] EXCEPT ![i + 1] = x] ELSE A[k], IF which = "b" THEN [B[k] EXCEPT ![i + 1] = x] ELSE B[k], Void)
Extract(k, which) == which \in {"a", "b"} /\ Obs("Extract", k, [which |-> which], Ok(IF which = "a" THEN A[k] ELSE B[k]))
\* p = begin + i, q = begin + j: == compares both sub-iterators, - uses the first one only, end - begin likewise
IterRel(k, path, i, j) ==
    /\ path \in IterPaths /\ i <= Size(k) /\ j <= Size(k)
    /\ path \in {"iter", "citer"} => HasFwd
    /\ Obs("IterRel", k, [path |-> path, i |-> i, j |-> j],
           Ok(<<IF i = j /\ i = j THEN 1 ELSE 0, IF ~(i = j /\ i = j) THEN 1 ELSE 0, j - i, Len(A[k])>>))
ProxySwap(k, i, j) ==
    /\ IsOpt /\ i # j /\ i < Size(k) /\ j < Size(k) /\ i < Len(B[k]) /\ j < Len(B[k])
    \* std::swap on the two value references, std::swap on the two flag closures (transcribed as an exchange; the
    \* bit-reference flavour's real behaviour is recorded by the check as advisory)
    /\ Do("ProxySwap", k, [i |-> i, j |-> j], [A[k] EXCEPT ![i + 1] = A[k][j + 1], ![j + 1] = A[k][i + 1]],
          [B[k] EXCEPT ![i + 1] = B[k][j + 1], ![j + 1] = B[k][i + 1]], Void)
MaxSize(k) == Obs("MaxSize", k, NoArg, Ok(<<1073741824>>))

\* ---------------------------------------------------------------- next-state relation
Sizes  == 0..MaxLen
BDom   == IF IsOpt THEN {0, 1} ELSE Vals
Elems  == Vals \X BDom
Idx(k) == 0..(Size(k) - 1)
SeqsUpTo(S, n) == UNION {[1..m -> S] : m \in 0..n}
\* the transcription only distinguishes "from begin()" and "from end()": one representative navigation of each kind
NavsOf(path) == IF path \in IterPaths THEN {"plus", "minus"} ELSE {"na"}

Init == /\ cfg \in Cfgs
        /\ A = <<Fill(N0, 0), Fill(N0, 0)>> /\ B = <<Fill(N0, 0), Fill(N0, 0)>>
        /\ last = [op |-> "Init", k |-> 0, a |-> NoArg, res |-> Void]
        /\ pre = <<Fill(N0, <<0, 0>>), Fill(N0, <<0, 0>>)>>

NextK(k) ==
    \/ \E how \in {"dinit", "vinit"} : CtorDefault(k, how)
    \/ \E n \in Sizes : CtorN(k, n) \/ Resize(k, n)
    \/ \E n \in Sizes, v \in (IF IsOpt THEN Vals \X {1} ELSE Elems) : CtorNV(k, n, v) \/ ResizeV(k, n, v)
    \/ \E n \in Sizes, e \in Elems : CtorNO(k, n, e, "val") \/ ResizeO(k, n, e, "val")
    \/ \E es \in SeqsUpTo(Vals \X Vals, MaxLen) : CtorIL(k, es)
    \/ CtorCopy(k) \/ CopyAssign(k) \/ MaxSize(k)
    \/ \E re \in (IF ObserveMoved THEN {0, 1} ELSE {1}) : CtorMove(k, re) \/ MoveAssign(k, re)
    \/ \E c \in {"m", "c"}, i \in 0..(MaxLen + 1), h \in {0, 1} : At(k, c, i, h)
    \/ \E path \in ReadPaths, i \in Idx(k) : \E nav \in NavsOf(path) : Read(k, path, nav, i)
    \/ \E path \in WritePaths, i \in Idx(k), wk \in WriteKinds, e \in Elems, j \in Idx(k) : \E nav \in NavsOf(path) :
          /\ (wk = "from" => e = <<0, 0>>) /\ (wk # "from" => j = 0)
          /\ (wk \in {"a", "scalar", "addeq", "muleq"} => e[2] = 0) /\ (wk = "b" => e[1] = 0)
          /\ (wk \in {"addeq", "muleq", "addpair"} => NewPair(<<A[k][i + 1], B[k][i + 1]>>, wk, e, <<0, 0>>) \in Elems)
          /\ Write(k, path, nav, i, wk, e, j)
    \/ \E n \in Sizes, s \in {1, 2}, spath \in ReadPaths : \E j \in Idx(s), snav \in NavsOf(spath) : ResizeFrom(k, n, s, spath, snav, j)
    \/ \E n \in Sizes, spath \in {"index", "cback", "iter", "criter"} : \E j \in Idx(Other(k)), snav \in NavsOf(spath) : CtorFrom(k, n, spath, snav, j)
    \/ \E i \in Idx(k), j \in Idx(Other(k)), pad \in (IF IsVec THEN {0, 2} ELSE {0}) :
          \/ \E path \in WritePaths : \E nav \in NavsOf(path) : XAssign(k, path, nav, i, pad, "index", "na", j, 0)
          \/ \E spath \in ReadPaths : \E snav \in NavsOf(spath) : XAssign(k, "index", "na", i, pad, spath, snav, j, 1)
    \/ \E which \in {"a", "b"}, i \in Idx(k), x \in Vals : (which = "b" => x \in BDom) /\ WriteUnder(k, which, i, x)
    \/ \E which \in {"a", "b"} : Extract(k, which)
    \/ \E path \in IterPaths, i \in 0..Size(k), j \in 0..Size(k) : IterRel(k, path, i, j)
    \/ \E i \in Idx(k), j \in Idx(k) : ProxySwap(k, i, j)

Next == \E k \in {1, 2} : NextK(k)
SizeBound == \A k \in {1, 2} : Len(A[k]) <= MaxLen /\ Len(B[k]) <= MaxLen
Spec == Init /\ [][Next]_ivars
absview == <<cfg, A, B>>

CfgsSmall == {[fl |-> "optional", ct |-> "vector", n |-> 0, fwd |-> 1, cas |-> 1], [fl |-> "optional", ct |-> "array", n |-> 2, fwd |-> 1, cas |-> 1],
              [fl |-> "complex",  ct |-> "vector", n |-> 0, fwd |-> 1, cas |-> 1], [fl |-> "complex",  ct |-> "array", n |-> 2, fwd |-> 1, cas |-> 1],
              [fl |-> "optional", ct |-> "array", n |-> 0, fwd |-> 1, cas |-> 1], [fl |-> "complex",  ct |-> "array", n |-> 0, fwd |-> 1, cas |-> 1]}
CfgsVecOnly == {[fl |-> "optional", ct |-> "vector", n |-> 0, fwd |-> 1, cas |-> 1], [fl |-> "complex",  ct |-> "vector", n |-> 0, fwd |-> 1, cas |-> 1]}
CfgsOptArr == {[fl |-> "optional", ct |-> "array", n |-> 2, fwd |-> 1, cas |-> 1]}

\* ---------------------------------------------------------------- what TLC checks
\* the two storages always have the length size() reports (arrays: their extent)
Lockstep == \A k \in {1, 2} : Len(A[k]) = Len(B[k]) /\ (~IsVec => Len(A[k]) = cfg.n)
\* == as the code computes it (two container comparisons) is equality of the sequences of pairs
EqAgrees == ((A[1] = A[2]) /\ (B[1] = B[2])) = (AbsObj[1] = AbsObj[2])

L1 == INSTANCE ParSeq WITH obj <- AbsObj, Targets <- {1, 2}, OtherInit <- {}, ILArgs <- {}, Classes <- {}, EmitOps <- {}
StepRefines == LET k == last'.k  a == last'.a  o == last'.op IN
    \/ o = "CtorDefault" /\ L1!CtorDefault(k, a.how)
    \/ o = "CtorN"       /\ L1!CtorN(k, a.n)
    \/ o = "CtorNV"      /\ L1!CtorNV(k, a.n, a.v)
    \/ o = "CtorNO"      /\ L1!CtorNO(k, a.n, a.e, a.ck)
    \/ o = "CtorIL"      /\ L1!CtorIL(k, a.es)
    \/ o = "CtorCopy"    /\ L1!CtorCopy(k)
    \/ o = "CopyAssign"  /\ L1!CopyAssign(k)
    \/ o = "CtorMove"    /\ L1!CtorMove(k, a.re, AbsObj'[Other(k)])
    \/ o = "MoveAssign"  /\ L1!MoveAssign(k, a.re, AbsObj'[Other(k)])
    \/ o = "Resize"      /\ L1!Resize(k, a.n)
    \/ o = "ResizeV"     /\ L1!ResizeV(k, a.n, a.v)
    \/ o = "ResizeO"     /\ L1!ResizeO(k, a.n, a.e, a.ck)
    \/ o = "At"          /\ L1!At(k, a.c, a.i, a.h)
    \/ o = "Read"        /\ L1!Read(k, a.path, a.nav, a.i)
    \/ o = "Write"       /\ L1!Write(k, a.path, a.nav, a.i, a.wk, a.e, a.j)
    \/ o = "WriteUnder"  /\ L1!WriteUnder(k, a.which, a.i, a.x)
    \/ o = "Extract"     /\ L1!Extract(k, a.which)
    \/ o = "IterRel"     /\ L1!IterRel(k, a.path, a.i, a.j)
    \/ o = "ProxySwap"   /\ L1!ProxySwap(k, a.i, a.j, AbsObj'[k][a.i + 1], AbsObj'[k][a.j + 1])
    \/ o = "MaxSize"     /\ L1!MaxSize(k, last'.res.val[1])
    \/ o = "ResizeFrom"  /\ L1!ResizeFrom(k, a.n, a.s, a.path, a.nav, a.j)
    \/ o = "CtorFrom"    /\ L1!CtorFrom(k, a.n, a.path, a.nav, a.j)
    \/ o = "XAssign"     /\ L1!XAssign(k, a.path, a.nav, a.i, a.pad, a.spath, a.snav, a.j, a.mv)
Refines == [][StepRefines]_ivars
=============================================================================

SPECIFICATION TSpec
CONSTANTS
  N <- EnvN
  Policies = {"silent", "throwing"}
  Layouts = {"packed", "sizefield", "strlen"}
  Chars = {}
  Lits = {}
  PosDom = {}
  SubDom = {}
  OtherVals = {}
  Junk = {}
  AliasMode = "repaired"
POSTCONDITION TraceAccepted
CHECK_DEADLOCK FALSE

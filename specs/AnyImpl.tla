------------------------------ MODULE AnyImpl ------------------------------
(***************************************************************************)
(* L2 for C06: the representation and the steps of xtl::any, transcribed   *)
(* from include/xtl/xany.hpp (the hand-written vtable, the two-word        *)
(* in-place buffer vs. the heap pointer chosen by requires_allocation, the *)
(* copy-and-swap assignments, the three-way any::swap, vtable_stack::swap  *)
(* via three moves).  TLC checks that every call of this model is a call   *)
(* allowed by the property specification Any (L1): Refines.                *)
(*                                                                         *)
(* A public call runs on a machine record M: vtable pointer and storage of *)
(* the three any objects and of the temporaries the code creates, payload  *)
(* values, the element events produced so far, the fault fuse.  The        *)
(* operators below mirror the functions of the header one by one.  Payload *)
(* ids: between calls the object contained in any k has id k (canonical    *)
(* form, see Any!CanonA); objects created during a call get NA+1, NA+2 ... *)
(*                                                                         *)
(* The model deliberately keeps STALE ids in storage that has been         *)
(* destroyed or moved from, so that a use of a dead object by the code     *)
(* shows up as an element event on a dead id, which L1 rejects.            *)
(* SelfSwapGuard = FALSE gives the header before proposed fix C06-01: TLC  *)
(* then finds  Construct(k, Small, ..); Swap(k, k)  as a counterexample.   *)
(*                                                                         *)
(* Payload types without element events (Untracked) go through the same    *)
(* steps; the model numbers their objects too but writes no events for     *)
(* them.  For the types that own a shared_ptr control block (Counted) the  *)
(* machine keeps the owner count rc[v] per value: +1 for a value / copy    *)
(* construction, -1 for the destruction of an object that has not been     *)
(* moved from.  L1 compares it with the number of any objects that contain *)
(* such an object afterwards.                                              *)
(***************************************************************************)
EXTENDS Integers, Sequences, FiniteSets, TLC, Json, AnyLifetime

CONSTANTS Anys, Types,
          Vals,            \* payload values the model checker stores
          Fuses,           \* fuse settings explored (0 = no fault)
          AFuses,          \* allocation-failure fuse settings explored (0 = none; n: the n-th `new T` of the call throws bad_alloc)
          InPlaceTypes,    \* !requires_allocation<T>: nothrow move, size <= 2 words, alignment fits
          NothrowMove,     \* types whose move constructor is noexcept
          SelfSwapGuard,   \* the `if (this == &rhs) return;` of proposed fix C06-01
          EmitMode         \* "none" | "all" | "quick": which transitions are written as JSON lines (S->C scripts)

VARIABLES vt,     \* vt[k] \in {"raw", "null"} \cup Types : no object / vtable == nullptr / vtable_for_type<T>()
          pv,     \* pv[k]: value of the contained payload object (0 if none)
          last    \* ghost: [op, k, a, ev, res, post]

ivars   == <<vt, pv, last>>
absview == <<vt, pv>>

NA  == Cardinality(Anys)
TA  == NA + 1      \* the temporary any of operator= : any(rhs) / any(std::move(rhs)) / any(value)
TS  == NA + 2      \* any tmp(std::move(rhs)) inside any::swap
TT  == NA + 3      \* storage_union tmp_storage inside vtable_stack::swap
ARG == NA + 4      \* the caller's value / the object returned by a value any_cast
Loc == 1..(NA + 4)

Untracked == {"Int", "Str", "CStr", "Fn", "Sp", "Ov", "Nest", "Ov32", "Ov64", "P16", "P17", "Var", "Fs", "Opt"}     \* as Any!UntrackedTypes
Counted   == {"Sp", "Nest"}                                      \* as Any!CountedTypes
NoThrowCp == {"NC"} \cup Untracked                               \* as Any!NothrowCopy
InPlace(t) == t \in InPlaceTypes
Capable(t, kind) == (kind = "copy" /\ t \notin NoThrowCp) \/ (kind = "move" /\ t \notin NothrowMove)   \* may throw: counts on the fuse

Start0(f) ==
    [vt   |-> [l \in Loc |-> IF l \in Anys THEN vt[l] ELSE "raw"],
     sto  |-> [l \in Loc |-> IF l \in Anys /\ vt[l] \in Types THEN l ELSE 0],
     val  |-> [i \in {k \in Anys : vt[k] \in Types} |-> pv[i]],
     rc   |-> [v \in Vals |-> Cardinality({k \in Anys : vt[k] \in Counted /\ pv[k] = v})],
     evs  |-> <<>>, nid |-> NA + 1, fuse |-> f, threw |-> FALSE, afuse |-> 0, afail |-> FALSE]
StartG(g) == [Start0(g.fuse) EXCEPT !.afuse = IF "afuse" \in DOMAIN g THEN g.afuse ELSE 0]
Start(f) == Start0(f)

(* `new T(...)` for a type that requires allocation: operator new runs before T's constructor; with the allocation fuse at 1
   it throws bad_alloc (the machine stops like after a throwing constructor, but without a throw event) *)
Alloc(M, t) ==
    IF M.threw \/ InPlace(t) THEN M
    ELSE IF M.afuse = 1 THEN [M EXCEPT !.afuse = 0, !.threw = TRUE, !.afail = TRUE]
    ELSE IF M.afuse > 1 THEN [M EXCEPT !.afuse = @ - 1] ELSE M

----------------------------------------------------------------------------
(* payload level *)

(* T's constructor at storage d; src = id found in the source storage (possibly stale) *)
PCtor(M, t, kind, src, v, d) ==
    IF M.threw THEN M
    ELSE IF Capable(t, kind) /\ M.fuse = 1
      THEN [M EXCEPT !.evs = Append(@, EThrow(t, kind, src)), !.fuse = 0, !.threw = TRUE]
      ELSE LET id == M.nid
               vv == IF kind = "value" THEN v ELSE IF src \in DOMAIN M.val THEN M.val[src] ELSE -9
               w  == IF kind = "move" /\ src \in DOMAIN M.val THEN [M.val EXCEPT ![src] = MOVED] ELSE M.val
           IN [M EXCEPT !.evs = IF t \in Untracked THEN @ ELSE Append(@, ECtor(id, t, kind, src, vv)),
                        !.val = Ext(w, id, vv),
                        !.rc = IF t \in Counted /\ kind # "move" /\ vv \in DOMAIN @ THEN [@ EXCEPT ![vv] = @ + 1] ELSE @,
                        !.nid = id + 1,
                        !.fuse = IF Capable(t, kind) /\ @ > 1 THEN @ - 1 ELSE @,
                        !.sto[d] = id]
PDtor(M, id, t) == [M EXCEPT !.evs = IF t \in Untracked THEN @ ELSE Append(@, EDtor(id, t)),
                             !.rc = IF t \in Counted /\ id \in DOMAIN M.val /\ M.val[id] \in DOMAIN @
                                      THEN [@ EXCEPT ![M.val[id]] = @ - 1] ELSE @]

----------------------------------------------------------------------------
(* vtable_stack<T> / vtable_dynamic<T>  (xany.hpp 232-299) *)

VtDestroy(M, t, s) ==
    IF InPlace(t) THEN PDtor(M, M.sto[s], t)                      \* reinterpret_cast<T*>(&storage.stack)->~T()
    ELSE IF M.sto[s] # 0 THEN PDtor(M, M.sto[s], t) ELSE M        \* delete reinterpret_cast<T*>(storage.dynamic)

VtCopy(M, t, s, d) == PCtor(Alloc(M, t), t, "copy", M.sto[s], 0, d)         \* new (&dest.stack) T(src) / dest.dynamic = new T(*src)

VtMove(M, t, s, d) ==
    IF InPlace(t)
      THEN LET M1 == PCtor(M, t, "move", M.sto[s], 0, d)          \* new (&dest.stack) T(std::move(src))
           IN VtDestroy(M1, t, s)                                 \* destroy(src)  - reads src AFTER the construction
      ELSE [M EXCEPT !.sto[d] = M.sto[s], !.sto[s] = 0]           \* dest.dynamic = src.dynamic; src.dynamic = nullptr

VtSwap(M, t, l, r) ==
    IF InPlace(t)
      THEN VtMove(VtMove(VtMove(M, t, r, TT), t, l, r), t, TT, l) \* move(rhs,tmp); move(lhs,rhs); move(tmp,lhs)
      ELSE [M EXCEPT !.sto[l] = M.sto[r], !.sto[r] = M.sto[l]]    \* std::swap(lhs.dynamic, rhs.dynamic)

----------------------------------------------------------------------------
(* class any  (xany.hpp 59-196, 371-384) *)

AnyCopyCtor(M, s, d) ==                                           \* any(const any& rhs)
    IF M.threw THEN M
    ELSE LET M1 == [M EXCEPT !.vt[d] = M.vt[s]] IN                \* : vtable(rhs.vtable)
         IF M.vt[s] = "null" THEN M1
         ELSE LET M2 == VtCopy(M1, M.vt[s], s, d) IN              \* rhs.vtable->copy(rhs.storage, this->storage)
              IF M2.threw THEN [M2 EXCEPT !.vt[d] = "raw"] ELSE M2     \* constructor left by exception: no object

AnyMoveCtor(M, s, d) ==                                           \* any(any&& rhs) noexcept
    IF M.threw THEN M
    ELSE LET M1 == [M EXCEPT !.vt[d] = M.vt[s]] IN
         IF M.vt[s] = "null" THEN M1
         ELSE [VtMove(M1, M.vt[s], s, d) EXCEPT !.vt[s] = "null"] \* move; rhs.vtable = nullptr

AnyValueCtor(M, d, t, kind, src) ==                               \* any(ValueType&&) -> construct()
    IF M.threw THEN M
    ELSE LET M1 == PCtor(Alloc([M EXCEPT !.vt[d] = t], t), t, kind, src, 0, d) IN   \* vtable = vtable_for_type<T>(); new T(forward(value))
         IF M1.threw THEN [M1 EXCEPT !.vt[d] = "raw"] ELSE M1

AnyClear(M, s) ==                                                 \* clear() / reset()
    IF M.vt[s] = "null" THEN M
    ELSE [VtDestroy(M, M.vt[s], s) EXCEPT !.vt[s] = "null"]
AnyDtor(M, s) == [AnyClear(M, s) EXCEPT !.vt[s] = "raw"]          \* ~any()

AnySwap(M, this, rhs) ==                                          \* void swap(any& rhs) noexcept
    IF M.threw THEN M
    ELSE IF SelfSwapGuard /\ this = rhs THEN M
    ELSE IF M.vt[this] # M.vt[rhs]
      THEN LET M1 == AnyMoveCtor(M, rhs, TS)                                  \* any tmp(std::move(rhs));
               M2 == [M1 EXCEPT !.vt[rhs] = M1.vt[this]]                      \* rhs.vtable = this->vtable;
               M3 == IF M2.vt[this] # "null" THEN VtMove(M2, M2.vt[this], this, rhs) ELSE M2
               M4 == [M3 EXCEPT !.vt[this] = M3.vt[TS]]                       \* this->vtable = tmp.vtable;
               M5 == IF M4.vt[TS] # "null"
                       THEN [VtMove(M4, M4.vt[TS], TS, this) EXCEPT !.vt[TS] = "null"]
                       ELSE M4
           IN AnyDtor(M5, TS)                                                 \* ~tmp
      ELSE IF M.vt[this] # "null" THEN VtSwap(M, M.vt[this], this, rhs) ELSE M

----------------------------------------------------------------------------
(* any_cast (xany.hpp): is_typed(typeid(T)) then cast<T>() *)
CastHit(M, k, g) == g.form \notin {"p_n", "p_nc"} /\ M.vt[k] = g.t
ValueCastForms == {"v_m", "v_mc", "v_c", "v_cc", "v_r", "v_rc"}

(* one public call, as the driver performs it *)
FormKind(f) == IF f = "rv" THEN "move" ELSE "copy"     \* T&& binds to the move constructor, T&, const T&, const T&& to the copy constructor

(* round 4: any b(e) / b = e for an any expression e of category g.cat.  xany.hpp: the perfect-forwarding constructor and
   operator= are constrained with enable_if<!is_same<decay_t<ValueType>, any>>, so overload resolution sees only
   any(const any&), any(any&&) / operator=(const any&), operator=(any&&): any&& is selected for a non-const rvalue only *)
Selected(op, g) == IF op = "ConstructFrom" THEN (IF g.cat = "rv" THEN "MoveConstruct" ELSE "CopyConstruct")
                   ELSE IF op = "AssignFrom" THEN (IF g.cat = "rv" THEN "MoveAssign" ELSE "CopyAssign")
                   ELSE op
Run0(op, k, g) ==
    LET M0 == StartG(g) IN
    CASE op = "DefaultConstruct" -> [M0 EXCEPT !.vt[k] = "null"]
      [] op = "Construct" ->
            LET M1 == PCtor(M0, g.t, "value", 0, g.v, ARG)                     \* T x(v);
                M2 == AnyValueCtor(M1, k, g.t, FormKind(g.form), M1.sto[ARG])  \* new (slot) any(x)
            IN PDtor(M2, M1.sto[ARG], g.t)                                     \* ~x
      [] op = "CopyConstruct" -> AnyCopyCtor(M0, g.j, k)
      [] op = "MoveConstruct" -> AnyMoveCtor(M0, g.j, k)
      [] op = "CopyAssign" ->                                                  \* any(rhs).swap(*this)
            LET M1 == AnyCopyCtor(M0, g.j, TA) IN
            IF M1.threw THEN M1 ELSE AnyDtor(AnySwap(M1, TA, k), TA)
      [] op = "MoveAssign" ->                                                  \* any(std::move(rhs)).swap(*this)
            AnyDtor(AnySwap(AnyMoveCtor(M0, g.j, TA), TA, k), TA)
      [] op = "AssignValue" ->                                                 \* any(std::forward<ValueType>(value)).swap(*this)
            LET M1 == PCtor(M0, g.t, "value", 0, g.v, ARG)
                M2 == AnyValueCtor(M1, TA, g.t, FormKind(g.form), M1.sto[ARG])
                M3 == IF M2.threw THEN M2 ELSE AnyDtor(AnySwap(M2, TA, k), TA)
            IN PDtor(M3, M1.sto[ARG], g.t)
      [] op \in {"Swap", "StdSwap"} -> AnySwap(M0, k, g.j)
      [] op \in {"AReset", "AClear"} -> AnyClear(M0, k)
      [] op = "Destroy" -> AnyDtor(M0, k)
      [] op = "DestroyIf" -> IF M0.vt[k] = "raw" THEN M0 ELSE AnyDtor(M0, k)
      [] op = "Cast" ->
            IF CastHit(M0, k, g) /\ g.form \in ValueCastForms
              THEN LET M1 == PCtor(M0, g.t, "copy", M0.sto[k], 0, ARG) IN      \* return *p;  (no ANY_IMPL_ANY_CAST_MOVEABLE)
                   IF M1.threw THEN M1 ELSE PDtor(M1, M1.sto[ARG], g.t)
              ELSE M0
      [] op = "SetVia" ->
            IF M0.vt[k] = g.t
              THEN LET old == M0.val[M0.sto[k]] IN
                   [M0 EXCEPT !.evs = IF g.t \in Untracked THEN @ ELSE Append(@, ESet(M0.sto[k], g.t, g.v)),
                              !.val[M0.sto[k]] = g.v,
                              !.rc = IF g.t \in Counted /\ old # g.v                       \* the old owner goes, a new one comes
                                       THEN [v \in DOMAIN @ |-> IF v = old THEN @[v] - 1 ELSE IF v = g.v THEN @[v] + 1 ELSE @[v]] ELSE @]
              ELSE M0
      [] OTHER -> M0        \* observers

NoRes == [exc |-> "none", null |-> FALSE, id |-> 0, v |-> 0, loc |-> 0, ty |-> ""]
Res(op, k, g, M0, M) ==
    IF M.afail THEN [NoRes EXCEPT !.exc = "bad_alloc"]
    ELSE IF M.threw THEN [NoRes EXCEPT !.exc = "fuse"]
    ELSE CASE op = "HasValue" -> [NoRes EXCEPT !.v = IF M0.vt[k] = "null" THEN 0 ELSE 1]       \* !empty()
           [] op = "Empty"    -> [NoRes EXCEPT !.v = IF M0.vt[k] = "null" THEN 1 ELSE 0]       \* vtable == nullptr
           [] op = "Type"     -> [NoRes EXCEPT !.ty = IF M0.vt[k] = "null" THEN "void" ELSE M0.vt[k]]
           [] op = "Cast" ->
                IF CastHit(M0, k, g)
                  THEN IF g.form \in ValueCastForms
                         THEN [NoRes EXCEPT !.id = IF g.t \in Untracked THEN 0 ELSE M.sto[ARG], !.v = M.val[M.sto[ARG]]]
                         ELSE IF g.t \in Untracked THEN [NoRes EXCEPT !.loc = M0.sto[k], !.v = M0.val[M0.sto[k]]]
                         ELSE [NoRes EXCEPT !.id = M0.sto[k], !.v = M0.val[M0.sto[k]]]
                  ELSE IF g.form \in {"p_m", "p_mc", "p_c", "p_cc", "p_n", "p_nc"}
                         THEN [NoRes EXCEPT !.null = TRUE]
                         ELSE [NoRes EXCEPT !.exc = "bad_any_cast"]
           [] op = "SetVia" -> IF M0.vt[k] # g.t THEN [NoRes EXCEPT !.null = TRUE]
                               ELSE IF g.t \in Untracked THEN [NoRes EXCEPT !.loc = M0.sto[k], !.v = g.v]
                               ELSE [NoRes EXCEPT !.id = M0.sto[k], !.v = g.v]
           [] OTHER -> NoRes

Run(op, k, g) == Run0(Selected(op, g), k, g)

----------------------------------------------------------------------------
(* abstraction to L1 *)
RAWc == -2
EMPTYc == -1
UNTc == 0
NoUc == [t |-> "", v |-> 0, loc |-> 0]
AbsA == [k \in Anys |-> IF vt[k] = "raw" THEN RAWc ELSE IF vt[k] = "null" THEN EMPTYc ELSE IF vt[k] \in Untracked THEN UNTc ELSE k]
AbsU == [k \in Anys |-> IF vt[k] \in Untracked THEN [t |-> vt[k], v |-> pv[k], loc |-> k] ELSE NoUc]
AbsL == LET hs == {k \in Anys : vt[k] \in Types \ Untracked} IN
        [typ |-> [k \in hs |-> vt[k]], val |-> [k \in hs |-> pv[k]], hi |-> NA]
ValAt(M, k) == IF M.sto[k] \in DOMAIN M.val THEN M.val[M.sto[k]] ELSE -9
PostOf(M) == [k \in Anys |-> IF M.vt[k] = "raw" THEN RAWc ELSE IF M.vt[k] = "null" THEN EMPTYc
                             ELSE IF M.vt[k] \in Untracked THEN UNTc ELSE M.sto[k]]
PostU(M)  == [k \in Anys |-> IF M.vt[k] \in Untracked THEN [t |-> M.vt[k], v |-> ValAt(M, k), loc |-> M.sto[k]] ELSE NoUc]
PostSpc(M) == [v \in {w \in DOMAIN M.rc : M.rc[w] # 0} |-> M.rc[v]]

A == INSTANCE Any WITH a <- AbsA, u <- AbsU, lt <- AbsL, env <- [noexc |-> FALSE, mov |-> FALSE], last <- last, pre <- last

Do(op, k, g) ==
    /\ A!Pre(op, k, g)
    /\ LET M0 == StartG(g)
           M  == Run(op, k, g)
       IN /\ vt' = [i \in Anys |-> M.vt[i]]
          /\ pv' = [i \in Anys |-> IF M.vt[i] \in Types /\ M.sto[i] \in DOMAIN M.val THEN M.val[M.sto[i]] ELSE 0]
          /\ last' = [op |-> op, k |-> k, a |-> g, ev |-> M.evs, res |-> Res(op, k, g, M0, M), post |-> PostOf(M),
                      postu |-> PostU(M), spc |-> PostSpc(M),
                      inp |-> [i \in Anys |-> IF M.vt[i] \in Types /\ InPlace(M.vt[i]) THEN 1 ELSE 0]]

ValueForms == {"lv", "clv", "rv", "crv"}
FormsOf(t) == ValueForms \cup (IF t \in {"CStr", "Fn"} THEN {"decay"} ELSE {})
CastFormsAll == {"p_m", "p_mc", "p_c", "p_cc", "p_n", "p_nc", "v_m", "v_mc", "v_c", "v_cc", "v_r", "v_rc", "r_m", "r_mc", "r_c", "r_r", "lr_r", "x_r", "cx_r"}
CastTargets == Types \cup {"CharP"}

NDefaultConstruct == \E k \in Anys, f \in Fuses : Do("DefaultConstruct", k, [fuse |-> f])
NConstruct   == \E k \in Anys, f \in Fuses, af \in AFuses, t \in Types, v \in Vals, fm \in ValueForms \cup {"decay"} :
                    fm \in FormsOf(t) /\ Do("Construct", k, [t |-> t, v |-> v, form |-> fm, fuse |-> f, afuse |-> af])
NAssignValue == \E k \in Anys, f \in Fuses, af \in AFuses, t \in Types, v \in Vals, fm \in ValueForms \cup {"decay"} :
                    fm \in FormsOf(t) /\ Do("AssignValue", k, [t |-> t, v |-> v, form |-> fm, fuse |-> f, afuse |-> af])
NCopyConstruct == \E k \in Anys, f \in Fuses, af \in AFuses, j \in Anys : Do("CopyConstruct", k, [j |-> j, fuse |-> f, afuse |-> af])
NMoveConstruct == \E k \in Anys, f \in Fuses, j \in Anys : Do("MoveConstruct", k, [j |-> j, fuse |-> f])
NCopyAssign  == \E k \in Anys, f \in Fuses, af \in AFuses, j \in Anys : Do("CopyAssign", k, [j |-> j, fuse |-> f, afuse |-> af])
NMoveAssign  == \E k \in Anys, f \in Fuses, j \in Anys : Do("MoveAssign", k, [j |-> j, fuse |-> f])
SrcCatsAll == {"lv", "clv", "rv", "crv"}
NConstructFrom == \E k \in Anys, f \in Fuses, af \in AFuses, j \in Anys, c \in SrcCatsAll :
                    (c = "rv" => af = 0) /\ Do("ConstructFrom", k, [j |-> j, cat |-> c, fuse |-> f, afuse |-> af])
NAssignFrom  == \E k \in Anys, f \in Fuses, af \in AFuses, j \in Anys, c \in SrcCatsAll :
                    (c = "rv" => af = 0) /\ Do("AssignFrom", k, [j |-> j, cat |-> c, fuse |-> f, afuse |-> af])
NSwap        == \E k \in Anys, f \in Fuses, j \in Anys : Do("Swap", k, [j |-> j, fuse |-> f])
NStdSwap     == \E k \in Anys, f \in Fuses, j \in Anys : Do("StdSwap", k, [j |-> j, fuse |-> f])
NAReset      == \E k \in Anys, f \in Fuses : Do("AReset", k, [fuse |-> f])
NAClear      == \E k \in Anys, f \in Fuses : Do("AClear", k, [fuse |-> f])
NDestroy     == \E k \in Anys, f \in Fuses : Do("Destroy", k, [fuse |-> f])
NDestroyIf   == \E k \in Anys, f \in Fuses : Do("DestroyIf", k, [fuse |-> f])
NHasValue    == \E k \in Anys, f \in Fuses : Do("HasValue", k, [fuse |-> f])
NEmpty       == \E k \in Anys, f \in Fuses : Do("Empty", k, [fuse |-> f])
NType        == \E k \in Anys, f \in Fuses : Do("Type", k, [fuse |-> f])
NCast        == \E k \in Anys, f \in Fuses, t \in CastTargets, fm \in CastFormsAll : Do("Cast", k, [t |-> t, form |-> fm, fuse |-> f])
NSetVia      == \E k \in Anys, f \in Fuses, t \in Types, v \in Vals : Do("SetVia", k, [t |-> t, v |-> v, fuse |-> f])

Next == \/ NDefaultConstruct \/ NConstruct \/ NAssignValue \/ NCopyConstruct \/ NMoveConstruct \/ NCopyAssign \/ NMoveAssign
        \/ NConstructFrom \/ NAssignFrom
        \/ NSwap \/ NStdSwap \/ NAReset \/ NAClear \/ NDestroy \/ NDestroyIf \/ NHasValue \/ NEmpty \/ NType \/ NCast \/ NSetVia

Init ==
    /\ vt = [k \in Anys |-> "raw"]
    /\ pv = [k \in Anys |-> 0]
    /\ last = [op |-> "Init", k |-> 0, a |-> [fuse |-> 0], ev |-> <<>>, res |-> NoRes, post |-> [k \in Anys |-> RAWc],
               postu |-> [k \in Anys |-> NoUc], spc |-> [v \in {} |-> 0],
               inp |-> [k \in Anys |-> 0]]

Spec == Init /\ [][Next]_ivars

----------------------------------------------------------------------------
(* what TLC checks *)

(* representation invariants: an any never contains a moved-from object; no value without an object *)
RepInv == \A k \in Anys :
    /\ vt[k] \in {"raw", "null"} \cup Types
    /\ vt[k] \in Types => pv[k] \in Vals
    /\ vt[k] \notin Types => pv[k] = 0

(* every L2 call is an L1 call with the same arguments, element events, result and contents,
   and the next L2 state is the (canonically renamed) L1 state after it *)
StepRefines ==
    /\ A!CallOK(last'.op, last'.k, last'.a, last'.ev, last'.res, last'.post, last'.postu, last'.spc)
    /\ AbsA' = A!CanonA(last'.post)
    /\ AbsU' = A!CanonU(last'.post, last'.postu)
    /\ AbsL' = A!CanonL(last'.post, Fold(AbsL, last'.ev, 1).L)
Refines == [][StepRefines]_ivars

(* the code leaves a moved-from any empty (one of the answers L1 allows) *)
MovedFromIsEmpty == [][(Selected(last'.op, last'.a) \in {"MoveConstruct", "MoveAssign"} /\ last'.a.j # last'.k) => vt'[last'.a.j] = "null"]_ivars

(* S->C: every transition (canonical pre-state, call, and the shape of what the model predicts)
   is written as one JSON line; scripts for the real code are built from them *)
Shape(evs) == [i \in 1..Len(evs) |-> evs[i].e \o ":" \o evs[i].kind \o ":" \o evs[i].t]
EmitSel(g) ==
    CASE EmitMode = "all"   -> TRUE
      [] EmitMode = "quick" -> /\ \A k \in Anys : pv[k] \in {0, 1}            \* the two values are interchangeable: states over one of them,
                               /\ ("v" \in DOMAIN g => g.v = 2)                \* new values always the other one
                               /\ g.fuse \in {0, 1}
      [] OTHER -> FALSE
Emit == EmitSel(last'.a) =>
    PrintT("@E@" \o ToJson([p |-> [vt |-> vt, pv |-> pv],
                            l |-> [op |-> last'.op, k |-> last'.k, a |-> last'.a],
                            x |-> [shape |-> Shape(last'.ev), exc |-> last'.res.exc, inp |-> last'.inp]]))
=============================================================================

SPECIFICATION TSpec
CONSTANTS
  NX = 3
  NF = 2
  NB = 3
  NS = 2
  NW = 3
  NT = 4
  Vals = {0, 1, 2, 3}
  Kinds = {}
  Payloads = {}
  FeatSets = {}
  Cats = {}
  MCVars = 0
  Depth = 0
  Mutation = "none"
POSTCONDITION TraceAccepted
CHECK_DEADLOCK FALSE

SPECIFICATION Spec
CONSTANTS
  NX = 2
  NF = 2
  NB = 2
  NS = 1
  NW = 2
  NT = 1
  Vals <- V2
  Kinds <- KAll
  Payloads <- PCounted
  FeatSets <- FBoth
  Cats <- CatsFew
  MCVars = 1
  Classes <- ClsAll
  Havoc = TRUE
  Depth = 2
  Staged = FALSE
  Ops = 0
  EmitOn = FALSE
VIEW depthview
INVARIANTS TypeOK NoDangling Lifetimes
PROPERTIES LvalueAliases NoCopyForLvalues NeverRebinds CopiesAlias AssignWritesReferent ObserversPure TempsIndependent SwapExchanges

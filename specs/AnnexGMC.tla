------------------------------ MODULE AnnexGMC ------------------------------
(* Model-checking instances of AnnexG.                                                          *)
(*  Mode "classes": TLC enumerates all 7^4 operand class combinations x {mul, div} and checks    *)
(*                  the theorems of the allowed-result relation on each.                          *)
(*  Mode "extreme": TLC enumerates the cases of the extreme-divisor clause inside the given      *)
(*                  constants and writes each one out as a JSON line (S->C: the harness evaluates *)
(*                  exactly these cases on the real xcomplex objects).                            *)
EXTENDS AnnexG, TLC, Json

CONSTANTS Mode,
          QVals,    \* components of the exact quotient q
          Us,       \* divisor shapes u (Gaussian integers with a dyadic component ratio)
          Ms,       \* exponents of the dividend scale
          KsD, KsF  \* exponents of the divisor scale for double / float (extreme and moderate)

VARIABLE c

UsQuick == {<<1, 0>>, <<0, 1>>, <<0 - 1, 0>>, <<0, 0 - 1>>, <<1, 1>>, <<1, 0 - 1>>, <<0 - 1, 1>>, <<2, 0>>, <<1, 2>>, <<0 - 2, 1>>, <<3, 0>>}
UsAll   == UsQuick \cup {<<0 - 1, 0 - 1>>, <<0, 0 - 2>>, <<2, 2>>, <<2, 0 - 1>>, <<0 - 1, 0 - 2>>, <<0, 3>>, <<0 - 3, 0>>, <<4, 1>>, <<1, 0 - 4>>, <<3, 3>>, <<0 - 3, 3>>}
QQuick  == (0 - 2)..2
QAll    == (0 - 3)..3
MsAll   == {0 - 1, 0, 1}
KsDouble == {0 - 1022, 0 - 1021, 0 - 1000, 0 - 600, 0 - 52, 0 - 3, 0, 5, 53, 600, 1000, 1021, 1022, 1023}
KsFloat  == {0 - 126, 0 - 125, 0 - 100, 0 - 60, 0 - 24, 0 - 3, 0, 5, 24, 60, 100, 125, 126, 127}

InitClasses == c \in [op : CoreOps, x : CC, y : CC]
InitExtreme ==
    \E t \in {"float", "double"}, q1 \in QVals, q2 \in QVals, u \in Us, m \in Ms :
      \E k \in (IF t = "double" THEN KsD ELSE KsF) :
        /\ ExtremeCase(t, <<q1, q2>>, u, m, k)
        /\ c = [t |-> t, q |-> <<q1, q2>>, u |-> u, n |-> GMul2(<<q1, q2>>, u), m |-> m, k |-> k]
        /\ PrintT("@X@" \o ToJson(c))

Init == IF Mode = "classes" THEN InitClasses ELSE InitExtreme
Next == UNCHANGED c
Spec == Init /\ [][Next]_c

RelationLaws == Mode = "classes" =>
    /\ Partition(c.x) /\ Partition(c.y)
    /\ Satisfiable(c.op, c.x, c.y)
    /\ MulSymmetric(c.x, c.y)
    /\ SignBlind(c.op, c.x, c.y)
    /\ NaNOnlyWhereUnspecified(c.op, c.x, c.y)

(* the expected quotient is a well-formed logged number; moderate scales agree with plain integers *)
ExtremeLaws == Mode = "extreme" =>
    LET e == ExtremeExpected(c.q, c.m, c.k) IN
    /\ \A i \in 1..2 : e[i].k = "num" => (e[i].f[1] \in 0..65535 /\ e[i].s \in {0, 1})
    /\ (c.m = c.k => \A i \in 1..2 : e[i] = FpScaled(c.q[i], 0))
    /\ FpScaled(1, 0) = [k |-> "num", s |-> 0, e |-> 0, f |-> <<0, 0, 0, 0>>]
    /\ FpScaled(0 - 3, 2) = [k |-> "num", s |-> 1, e |-> 3, f |-> <<32768, 0, 0, 0>>]
    /\ FpScaled(5, 0 - 1) = [k |-> "num", s |-> 0, e |-> 1, f |-> <<16384, 0, 0, 0>>]
=============================================================================

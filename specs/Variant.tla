------------------------------ MODULE Variant ------------------------------
(***************************************************************************)
(* L1 property specification for C05: xtl::variant (= mpark::variant).      *)
(* Written from the property statement and from [variant] of the C++        *)
(* standard, not from xtl's code.                                           *)
(*                                                                          *)
(* Two variants v[1], v[2] over four alternatives 0..3 live in raw storage, *)
(* so that construction and destruction are calls.  Which alternatives are  *)
(* lifetime-tracked payload types and which of them move without throwing   *)
(* is the alternative SET (constants TrackedAlts, NTMAlts of                *)
(* VariantLifetime):                                                        *)
(*   mixed  <int, NT, TM, TM2>   NT: copy may throw, move noexcept;         *)
(*                               TM, TM2: copy and move may throw           *)
(*   triv   <int, Tv1, Tv2, Tv3> every alternative trivially copyable and   *)
(*                               destructible (mpark's TriviallyAvailable   *)
(*                               code paths); nothing can throw             *)
(*   td     <TD, NT, TM, int>    alternative 0 is a payload type whose      *)
(*                               default constructor may throw              *)
(* A public call is a bracket  Begin(c, a, fuse) ... element events ... End *)
(* (DESIGN.md Appendix B).  Between Begin and End the implementation may    *)
(* perform any element operations the lifetime rules allow (module          *)
(* VariantLifetime): L1 does not prescribe an algorithm.  What it demands   *)
(* is checked when the bracket closes:                                      *)
(*   * observers (index, valueless_by_exception, holds_alternative, get_if) *)
(*     agree on one alternative per variant;                                *)
(*   * the storage of each variant holds exactly the one live payload       *)
(*     object that the observers report (none if valueless / int), with     *)
(*     that alternative and value; nothing else is alive (no temporaries,   *)
(*     no leaks);                                                           *)
(*   * nothing threw: alternative and value are those of [variant.ctor],    *)
(*     [variant.assign], [variant.mod], [variant.swap];                     *)
(*   * an exception left the call: an element operation threw, and each     *)
(*     variant the call involves is valueless or holds an alternative whose *)
(*     value existed before the call or was requested by it (a moved-from   *)
(*     value counts as existing); variants the call does not involve, and   *)
(*     const sources, are untouched.  With Strict = TRUE the sharper        *)
(*     guarantees the standard words for each operation are demanded too    *)
(*     (advisory use only, see checks/c05.py).                              *)
(***************************************************************************)
EXTENDS VariantLifetime, VariantCalls, Sequences, TLC, Json

CONSTANTS Strict,    \* BOOLEAN: also demand the per-operation exception guarantees of [variant]
          Vals,      \* model checking: payload values requested by calls
          MaxFuse,   \* model checking: fuse values 0..MaxFuse
          MaxEv,     \* model checking of L1 alone: bound on element events per call
          CallSet    \* model checking: the set of calls [c, a] explored

VARIABLES v,        \* v[k]: abstract state of variant k as of the last End (see Absent/Valueless/Holds)
          call,     \* the open bracket [c, a, fuse, n] or NoCall
          thrown,   \* an element operation of the open call threw
          last      \* ghost: the event just performed

vars == <<v, call, thrown, last, nid, live, obj>>


Absent       == [s |-> "absent",    alt |-> -1, val |-> 0, id |-> 0]
Valueless    == [s |-> "valueless", alt |-> -1, val |-> 0, id |-> 0]
Holds(a, x, i) == [s |-> "holds", alt |-> a, val |-> x, id |-> i]
NoId(r)      == [r EXCEPT !.id = 0]
Present(r)   == r.s # "absent"
IsVl(r)      == r.s = "valueless"
HoldsAlt(r, a) == r.s = "holds" /\ r.alt = a

NoCall == [c |-> "none", a |-> [z |-> 0], fuse |-> 0, n |-> 0]
Ok(x)  == [exc |-> "none", val |-> x]
Exc(e) == [exc |-> e, val |-> <<>>]
Void   == Ok(<<>>)

----------------------------------------------------------------------------
(* The observable projection of one variant, as the harness logs it.        *)
(* the answers of a 4-way observer family as a bit mask: bit I is set iff the observer says "alternative I" *)
Mask(a) == IF a \in 0..3 THEN 2 ^ a ELSE 0
StOf(r) ==
    IF r.s = "absent"
    THEN [p |-> FALSE, index |-> -2, vbe |-> FALSE, hi |-> 0, ht |-> 0, gi |-> 0, gt |-> 0, val |-> 0, id |-> 0]
    ELSE [p |-> TRUE,
          index |-> r.alt,              \* index(); -1 stands for variant_npos
          vbe   |-> r.s = "valueless",  \* valueless_by_exception()
          hi    |-> Mask(r.alt),       \* holds_alternative<I>
          ht    |-> Mask(r.alt),       \* holds_alternative<T>
          gi    |-> Mask(r.alt),       \* get_if<I> != nullptr
          gt    |-> Mask(r.alt),       \* get_if<T> != nullptr
          val   |-> r.val,              \* value read through get_if<index()>
          id    |-> r.id]               \* identity of the object found there (0: int / none)
AbsOf(s) == IF ~s.p THEN Absent
            ELSE IF s.index = -1 THEN Valueless
            ELSE Holds(s.index, s.val, s.id)
(* all observers agree on one alternative *)
StConsistent(s) ==
    /\ s.p => s.index \in -1..3
    /\ s = StOf(AbsOf(s))
    /\ (s.p /\ s.index \notin TrackedAlts) => s.id = 0

(* the storage of variant k holds exactly the payload the observers report *)
Matches(k, r) ==
    IF r.s = "holds" /\ r.alt \in TrackedAlts
    THEN /\ LiveIn(k) = {r.id}
         /\ obj[r.id].alt = r.alt
         /\ obj[r.id].val = r.val
    ELSE LiveIn(k) = {}

----------------------------------------------------------------------------
(* Calls.  a.k is the variant the call is made on, a.o the other operand.   *)
Ctors     == {"CtorDefault", "CtorValue", "CtorCopy", "CtorMove"}
Mutators  == Ctors \cup {"Destroy", "Emplace", "ConvAssign", "CopyAssign", "MoveAssign", "Swap"}
Observers == {"Get", "XGet", "GetIf", "Rel", "Visit", "XRef", "Hash", "Mono", "Nest", "Up"}
Binary    == {"CtorCopy", "CtorMove", "CopyAssign", "MoveAssign", "Swap", "Rel", "Hash"}
Stateless == {"Visit", "XRef", "Mono", "Nest", "Up"}      \* calls that name no variant through a.k
Valued    == {"CtorValue", "Emplace", "ConvAssign"}

Involved(c, a) ==
    IF c \in Binary THEN {a.k, a.o}
    ELSE IF c \in Stateless THEN {}
    ELSE IF c = "GetIf" /\ a.null = 1 THEN {}
    ELSE {a.k}
(* operands passed as const& cannot change *)
ConstSrc(c, a) == IF c \in {"CtorCopy", "CopyAssign"} THEN {a.o} \ {a.k} ELSE {}

ArgOK(c, a) ==
    /\ c \in Valued =>
          /\ a.alt \in Alts
          /\ a.ak \in {"value", "copy", "move", "ilist", "multi"}    \* ilist: (initializer_list, arg) ; multi: two arguments
          /\ a.alt \notin TrackedAlts => a.ak = "value"
          /\ a.val = UNORD => a.alt \notin IntAlts(TrackedAlts)            \* an int is totally ordered: no unordered value
          /\ a.ak \in {"ilist", "multi"} => c # "ConvAssign" /\ a.form \in {"index", "type"}
          /\ c = "CtorValue" => a.form \in {"conv", "index", "type"}
          /\ c = "Emplace" => a.form \in {"index", "type"}
    /\ c \in {"Get", "XGet", "GetIf"} => a.alt \in Alts
    /\ c = "Visit" => a.r \in {0, 1} /\ a.rv \in {0, 1} /\ (a.r = 1 => Len(a.ks) >= 1)
    /\ c = "XRef" => /\ a.held \in {"ref", "cref", "other"} /\ a.want \in {"ref", "cref"} /\ a.list \in {2, 3, 4} /\ a.w \in {0, 1}
                     /\ a.list = 4 => a.want = "cref"                       \* xget<int&> does not compile on a variant without closure<int&>
                     /\ a.w = 1 => a.want = "ref" /\ a.ref \in {"l", "r"}    \* writing needs a non-const reference
    /\ c = "Mono" => a.q \in {"eq", "ne", "lt", "gt", "le", "ge", "hash", "default"}
    /\ c = "Nest" => a.alt \in Alts /\ a.mode \in {"copy", "move", "swap", "visit"}
    /\ c = "Up" => a.t \in {"overload", "visitret"} /\ a.alt \in 0..2 /\ a.val \in Nat

(* C++ preconditions of the harness (which object exists) *)
Pre(c, a) ==
    /\ c \in Mutators \cup Observers
    /\ ArgOK(c, a)
    /\ CASE c \in {"CtorDefault", "CtorValue"} -> ~Present(v[a.k])
         [] c \in {"CtorCopy", "CtorMove"}     -> a.k # a.o /\ ~Present(v[a.k]) /\ Present(v[a.o])
         [] c \in {"Destroy", "Emplace", "ConvAssign", "Get", "XGet"} -> Present(v[a.k])
         [] c \in {"CopyAssign", "Swap", "Rel", "Hash"} -> Present(v[a.k]) /\ Present(v[a.o])
         [] c = "MoveAssign"                   -> a.k # a.o /\ Present(v[a.k]) /\ Present(v[a.o])
         [] c = "GetIf"                        -> a.null = 1 \/ Present(v[a.k])
         [] c = "Visit"                        -> \A i \in 1..Len(a.ks) : Present(v[a.ks[i]])
         [] c \in {"XRef", "Mono", "Nest", "Up"} -> TRUE

(* what a move leaves behind: an int is copied, a payload object is MOVED *)
MovedFrom(r) == IF r.s = "holds" /\ r.alt \in TrackedAlts THEN [r EXCEPT !.val = MOVED] ELSE r

(* [variant.ctor] [variant.assign] [variant.mod] [variant.swap] when nothing throws: *)
(* alternative and value of each variant after the call (identities left open).      *)
Expect(c, a) ==
    LET u == [j \in K |-> NoId(v[j])] IN
    CASE c = "CtorDefault" -> [u EXCEPT ![a.k] = Holds(0, 0, 0)]
      [] c \in Valued      -> [u EXCEPT ![a.k] = Holds(a.alt, a.val, 0)]
      [] c = "CtorCopy"    -> [u EXCEPT ![a.k] = u[a.o]]
      [] c = "CopyAssign"  -> [u EXCEPT ![a.k] = u[a.o]]
      [] c \in {"CtorMove", "MoveAssign"} -> [u EXCEPT ![a.k] = u[a.o], ![a.o] = MovedFrom(u[a.o])]
      [] c = "Destroy"     -> [u EXCEPT ![a.k] = Absent]
      [] c = "Swap"        -> [u EXCEPT ![a.k] = u[a.o], ![a.o] = u[a.k]]
      [] OTHER             -> u

(* [variant.relops]: each of the six operators applies THE SAME operator of the held alternative when both operands hold
   the same alternative ("get<i>(v) <= get<i>(w)" etc.); none is derived from another.  That matters for alternatives whose
   values are only partially ordered (a double holding NaN): the payload fixtures of the harness treat the value UNORD as
   unordered with everything (itself included): ==, <, >, <=, >= are false, != is true.  The scripts never give UNORD to
   the int alternative. *)
ElemRel(rel, a, b) ==
    IF a = UNORD \/ b = UNORD THEN rel = "ne"
    ELSE CASE rel = "eq" -> a = b [] rel = "ne" -> a # b [] rel = "lt" -> a < b
           [] rel = "gt" -> a > b [] rel = "le" -> a <= b [] rel = "ge" -> a >= b
RelRes(rel, x, y) ==
    LET vx == IsVl(x)  vy == IsVl(y) IN
    CASE rel = "eq" -> IF x.alt # y.alt \/ vx # vy THEN FALSE ELSE IF vx THEN TRUE ELSE ElemRel("eq", x.val, y.val)
      [] rel = "ne" -> IF x.alt # y.alt \/ vx # vy THEN TRUE ELSE IF vx THEN FALSE ELSE ElemRel("ne", x.val, y.val)
      [] rel = "lt" -> IF vy THEN FALSE ELSE IF vx THEN TRUE ELSE IF x.alt < y.alt THEN TRUE
                       ELSE IF x.alt > y.alt THEN FALSE ELSE ElemRel("lt", x.val, y.val)
      [] rel = "gt" -> IF vx THEN FALSE ELSE IF vy THEN TRUE ELSE IF x.alt > y.alt THEN TRUE
                       ELSE IF x.alt < y.alt THEN FALSE ELSE ElemRel("gt", x.val, y.val)
      [] rel = "le" -> IF vx THEN TRUE ELSE IF vy THEN FALSE ELSE IF x.alt < y.alt THEN TRUE
                       ELSE IF x.alt > y.alt THEN FALSE ELSE ElemRel("le", x.val, y.val)
      [] rel = "ge" -> IF vy THEN TRUE ELSE IF vx THEN FALSE ELSE IF x.alt > y.alt THEN TRUE
                       ELSE IF x.alt < y.alt THEN FALSE ELSE ElemRel("ge", x.val, y.val)

RECURSIVE SumSeq(_)
SumSeq(s) == IF Len(s) = 0 THEN 0 ELSE Head(s) + SumSeq(Tail(s))

(* closure-aware xget on a variant of closure wrappers.  list: 2 = <closure<int&>, closure<double&>>,        *)
(* 3 = <closure<int&>, closure<const int&>, closure<double&>>, 4 = <closure<const int&>, closure<const double&>> *)
(* (the variant types of test_xvariant.cpp); xget<want> reads the closure alternative XRefTarget.               *)
XRefTarget(want, list) == IF want = "ref" THEN "ref" ELSE IF list \in {3, 4} THEN "cref" ELSE "ref"

(* [variant.monostate.relops], hash<monostate>; a default-constructed variant<monostate, T> holds alternative 0 *)
MonoRes(q) == CASE q \in {"eq", "le", "ge", "hash", "default"} -> TRUE [] OTHER -> FALSE

(* a variant of variants  W = variant<int, V>: outer index, inner index and inner value of the destination   *)
(* (d) and of the source (s) after copying / moving / swapping / visiting an outer variant that holds an       *)
(* inner variant holding (alt, val); "swap" exchanges it with an outer variant holding the int 7              *)
NestRes(a) ==
    LET left == IF a.mode = "move" /\ a.alt \in TrackedAlts THEN MOVED ELSE a.val IN
    IF a.mode = "swap"
    THEN [oi |-> 1, ii |-> a.alt, iv |-> a.val, soi |-> 0, sii |-> -1, siv |-> 7]
    ELSE [oi |-> 1, ii |-> a.alt, iv |-> a.val, soi |-> 1, sii |-> a.alt, siv |-> left]

(* the value an observer returns / the exception it throws *)
ObsRes(c, a) ==
    CASE c \in {"Get", "XGet"} ->
            IF HoldsAlt(v[a.k], a.alt) THEN Ok([id |-> v[a.k].id, val |-> v[a.k].val]) ELSE Exc("bad_variant_access")
      [] c = "GetIf" ->
            IF a.null = 0 /\ HoldsAlt(v[a.k], a.alt)
            THEN Ok([nonnull |-> TRUE, id |-> v[a.k].id, val |-> v[a.k].val])
            ELSE Ok([nonnull |-> FALSE, id |-> 0, val |-> 0])
      [] c = "Rel" -> Ok([b |-> RelRes(a.rel, v[a.k], v[a.o])])
      [] c = "Visit" ->
            IF \E i \in 1..Len(a.ks) : IsVl(v[a.ks[i]]) THEN Exc("bad_variant_access")
            ELSE LET alts == [i \in 1..Len(a.ks) |-> v[a.ks[i]].alt]
                     vals == [i \in 1..Len(a.ks) |-> v[a.ks[i]].val] IN
                 Ok([alts |-> alts,
                     vals |-> vals,
                     ids  |-> [i \in 1..Len(a.ks) |-> v[a.ks[i]].id],
                     rv   |-> [i \in 1..Len(a.ks) |-> a.rv],                \* rvalue variants are visited as rvalues
                     \* a.r = 1: the visitor returns a reference to the first visited value; visit returns that very reference
                     alias |-> a.r = 1,
                     ret  |-> IF a.r = 1 THEN vals[1] ELSE Len(a.ks) + SumSeq(alts)])
      [] c = "XRef" ->
            \* a.w = 1: the caller writes val + 1 through the returned reference; `after` is the referent read directly
            IF a.held = XRefTarget(a.want, a.list) THEN Ok([alias |-> TRUE, val |-> a.val, after |-> a.val + a.w])
            ELSE Exc("bad_variant_access")
      [] c = "Mono" -> Ok([b |-> MonoRes(a.q)])
      [] c = "Nest" -> Ok(NestRes(a))
      \* the visit scenarios of test_xvariant.cpp on U = variant<int, double, std::string> holding alternative a.alt made from a.val
      \* (int val / double val + 0.5 / a string of val characters):
      \*   overload  visit(make_overload(f_int, f_double, f_string), u): exactly the lambda for the held alternative runs (i), on the held value (x)
      \*   visitret  visit([](auto&& arg) -> U { return arg + arg; }, u): the result holds the same alternative, doubled
      [] c = "Up" -> Ok([i |-> a.alt, x |-> IF a.t = "overload" THEN a.val ELSE 2 * a.val + (IF a.alt = 1 THEN 1 ELSE 0)])

(* std::hash<variant>: the value is unspecified, but equal variants hash equally ([unord.hash]).  The harness  *)
(* hashes both operands in one call and reports whether the two results are equal.                             *)
HashOK(a, res) == res.exc = "none" /\ res.val.same \in BOOLEAN /\ (RelRes("eq", v[a.k], v[a.o]) => res.val.same)
ObsResOK(c, a, res) == IF c = "Hash" THEN HashOK(a, res) ELSE res = ObsRes(c, a)
ObsResSet(c, a) == IF c = "Hash" THEN {Ok([same |-> TRUE])} \cup (IF RelRes("eq", v[a.k], v[a.o]) THEN {} ELSE {Ok([same |-> FALSE])})
                   ELSE {ObsRes(c, a)}

(* the value a mutator returns: emplace returns a reference to the new contained value *)
MutRes(c, a, post) == IF c = "Emplace" THEN Ok([id |-> post[a.k].id, val |-> a.val]) ELSE Void

----------------------------------------------------------------------------
(* Outcome of a call that an exception left (property statement).           *)
PairsOf(S) == {<<r.alt, r.val>> : r \in {x \in S : x.s = "holds"}}
Existing(c, a) == PairsOf({v[j] : j \in Involved(c, a)}) \cup (IF c \in Valued THEN {<<a.alt, a.val>>} ELSE {})
AllowedPairs(c, a) == Existing(c, a) \cup {<<p[1], MOVED>> : p \in {q \in Existing(c, a) : q[1] \in TrackedAlts}}
HeldAllowed(r, c, a) == IsVl(r) \/ (r.s = "holds" /\ <<r.alt, r.val>> \in AllowedPairs(c, a))

ThrowOK(c, a, post) ==
    \A j \in K :
        IF j \notin Involved(c, a) \/ c \in Observers \/ j \in ConstSrc(c, a) THEN post[j] = v[j]
        ELSE IF c \in Ctors /\ j = a.k THEN post[j] = Absent
        ELSE HeldAllowed(post[j], c, a)

(* The sharper exception guarantees of the standard, per operation (Strict). *)
(* [variant.assign]: T&& / const variant& / variant&& use emplace directly iff  *)
(* is_nothrow_constructible<Tj, Arg> or !is_nothrow_move_constructible<Tj>,     *)
(* otherwise a temporary is built first (strong guarantee).                     *)
NothrowCtorFrom(alt, ak) == (alt \notin TrackedAlts /\ alt \notin UntrackedThrowAlts) \/ (alt \in TrackedAlts /\ ak = "move" /\ NoThrowMove(alt))
TempFirst(alt, ak)       == ~(NothrowCtorFrom(alt, ak) \/ ~NoThrowMove(alt))
Same(x, y)               == NoId(x) = NoId(y)
VlOrOld(j, post)         == IsVl(post[j]) \/ Same(post[j], v[j])

StrictThrowOK(c, a, post) ==
    LET k == a.k IN
    CASE c = "Emplace" -> VlOrOld(k, post)
      [] c = "ConvAssign" ->
            IF HoldsAlt(v[k], a.alt) THEN Same(post[k], v[k])       \* "valueless_by_exception() will be false"
            ELSE IF TempFirst(a.alt, a.ak) THEN Same(post[k], v[k])
            ELSE VlOrOld(k, post)
      [] c = "CopyAssign" ->
            LET o == a.o IN
            IF k = o \/ v[k].alt = v[o].alt THEN Same(post[k], v[k])
            ELSE IF TempFirst(v[o].alt, "copy") THEN Same(post[k], v[k])
            ELSE VlOrOld(k, post)
      [] c = "MoveAssign" ->
            LET o == a.o IN
            /\ Same(post[o], v[o])                     \* the throwing move has not touched its source
            /\ IF v[k].alt = v[o].alt THEN Same(post[k], v[k]) ELSE VlOrOld(k, post)
      [] c = "CtorMove" -> Same(post[a.o], v[a.o])
      [] c = "Swap" ->
            LET o == a.o IN
            IF k = o THEN Same(post[k], v[k]) \/ Same(post[k], MovedFrom(v[k]))
            ELSE IF v[k].alt = v[o].alt
            THEN \/ Same(post[k], v[k]) /\ Same(post[o], v[o])                 \* swap(get<i>, get<i>): std::swap's three steps
                 \/ Same(post[k], MovedFrom(v[k])) /\ Same(post[o], v[o])
                 \/ Same(post[k], v[o]) /\ Same(post[o], MovedFrom(v[o]))
            ELSE \A j \in {k, o} : LET i == IF j = k THEN o ELSE k IN
                    \/ IsVl(post[j]) \/ Same(post[j], v[j]) \/ Same(post[j], MovedFrom(v[j])) \/ Same(post[j], v[i])
      [] OTHER -> TRUE

----------------------------------------------------------------------------
(* Actions *)
Begin(c, a, fuse) ==
    /\ call = NoCall
    /\ Pre(c, a)
    /\ fuse \in Nat
    /\ call' = [c |-> c, a |-> a, fuse |-> fuse, n |-> 0]
    /\ thrown' = FALSE
    /\ last' = [op |-> "Begin", c |-> c, a |-> a, fuse |-> fuse]
    /\ UNCHANGED <<v, nid, live, obj>>

Open == call # NoCall
Tick == call' = [call EXCEPT !.n = @ + 1]

ECtor(id, alt, kind, src, home, val) ==
    /\ Open
    /\ home \in {TEMP, 1, 2}
    /\ LCtor(id, alt, kind, src, home, val)
    /\ Tick
    /\ last' = [op |-> "ECtor", id |-> id, alt |-> alt, kind |-> kind, src |-> src, home |-> home, val |-> val]
    /\ UNCHANGED <<v, thrown>>

EDtor(id) ==
    /\ Open
    /\ LDtor(id)
    /\ Tick
    /\ last' = [op |-> "EDtor", id |-> id]
    /\ UNCHANGED <<v, thrown>>

EAssign(dst, src, kind, val) ==
    /\ Open
    /\ LAssign(dst, src, kind, val)
    /\ Tick
    /\ last' = [op |-> "EAssign", dst |-> dst, src |-> src, kind |-> kind, val |-> val]
    /\ UNCHANGED <<v, thrown>>

(* the fuse fired inside a throwing-capable element operation: nothing was constructed / assigned *)
EThrow(at, alt, kind) ==
    /\ Open
    /\ call.fuse > 0
    /\ ~thrown
    /\ at \in {"ctor", "assign"}
    /\ CanThrow(alt, kind)
    /\ thrown' = TRUE
    /\ Tick
    /\ last' = [op |-> "EThrow", at |-> at, alt |-> alt, kind |-> kind]
    /\ UNCHANGED <<v, nid, live, obj>>

EndOK(res, st) ==
    LET c == call.c  a == call.a
        post == [k \in K |-> AbsOf(st[k])] IN
    /\ \A k \in K : StConsistent(st[k])                      \* observers agree on one alternative
    /\ \A k \in K : Matches(k, post[k])                      \* exactly the reported payload is alive in k
    /\ LiveIn(TEMP) = {}                                     \* every temporary / argument has been destroyed
    /\ IF res.exc = "injected"
       THEN /\ thrown                                        \* only if an element operation threw
            /\ res = Exc("injected")
            /\ ThrowOK(c, a, post)
            /\ Strict => StrictThrowOK(c, a, post)
       ELSE /\ ~thrown                                       \* an element exception is not swallowed
            /\ \A j \in K : /\ NoId(post[j]) = Expect(c, a)[j]
                            /\ (j \notin Involved(c, a) \/ c \in Observers) => post[j] = v[j]
            /\ IF c \in Observers THEN ObsResOK(c, a, res) ELSE res = MutRes(c, a, post)

End(res, st) ==
    /\ Open
    /\ EndOK(res, st)
    /\ v' = [k \in K |-> AbsOf(st[k])]
    /\ call' = NoCall
    /\ thrown' = FALSE
    /\ last' = [op |-> "End", res |-> res, st |-> st]
    /\ UNCHANGED <<nid, live, obj>>

Init ==
    /\ v = [k \in K |-> Absent]
    /\ call = NoCall
    /\ thrown = FALSE
    /\ last = [op |-> "Init"]
    /\ LInit

----------------------------------------------------------------------------
(* Model checking of L1 alone: the implementation is any sequence of element   *)
(* events (at most MaxEv per call) that the lifetime rules allow; End offers   *)
(* every projection that is consistent with the storage.                       *)
ValDom == Vals \cup {0, MOVED}
PostCands(k) ==
    IF LiveIn(k) = {} THEN {Absent, Valueless} \cup {Holds(0, x, 0) : x \in Vals \cup {0}}
    ELSE {Holds(obj[i].alt, obj[i].val, i) : i \in LiveIn(k)}
ResCands(post) ==
    {Void, Exc("injected")}
      \cup (IF call.c \in Observers THEN ObsResSet(call.c, call.a) ELSE {MutRes(call.c, call.a, post)})

NextBegin == \E cl \in CallSet, f \in 0..MaxFuse : Begin(cl.c, cl.a, f)
MCAlts == {cl.a.alt : cl \in {x \in CallSet : x.c \in Valued}} \cap TrackedAlts   \* alternatives the explored calls can create
(* one disjunct of Next per event kind, so that TLC's coverage counts each of them *)
Budget == Open /\ call.n < MaxEv
Next ==
    \/ NextBegin
    \/ Budget /\ \E alt \in MCAlts, home \in {TEMP, 1, 2}, val \in Vals : ECtor(nid + 1, alt, "value", 0, home, val)
    \/ Budget /\ \E src \in live, kind \in {"copy", "move"}, home \in {TEMP, 1, 2} :
                     ECtor(nid + 1, obj[src].alt, kind, src, home, obj[src].val)
    \/ Budget /\ \E id \in live : EDtor(id)
    \/ Budget /\ \E dst \in live, val \in Vals : EAssign(dst, 0, "value", val)
    \/ Budget /\ \E dst \in live, src \in live, kind \in {"copy", "move", "self"} : EAssign(dst, src, kind, obj[src].val)
    \/ Budget /\ \E alt \in MCAlts, kind \in {"value", "move"}, at \in {"ctor", "assign"} : EThrow(at, alt, kind)
    \/ Open /\ \E p1 \in PostCands(1), p2 \in PostCands(2) :
                   LET post == <<p1, p2>> IN \E res \in ResCands(post) : End(res, <<StOf(p1), StOf(p2)>>)
Spec == Init /\ [][Next]_vars

MCCalls == MCCallsOver(Vals, TrackedAlts)

----------------------------------------------------------------------------
(* Theorems of the specification itself (they guard the oracle).            *)
TypeOK ==
    /\ LifetimeTypeOK
    /\ \A k \in K : v[k].s \in {"absent", "valueless", "holds"} /\ (v[k].s = "holds" => v[k].alt \in Alts)
    /\ thrown \in BOOLEAN

(* between calls each variant owns exactly the payload it reports, and nothing else is alive *)
Quiescent == ~Open => /\ \A k \in K : Matches(k, v[k])
                      /\ LiveIn(TEMP) = {}
                      /\ Cardinality(live) = Cardinality({k \in K : v[k].s = "holds" /\ v[k].alt \in TrackedAlts})
                      /\ ~thrown

(* the six relational operators are the lexicographic order on (valueless first, index, value) *)
KeyLess(x, y) == x.alt < y.alt \/ (x.alt = y.alt /\ x.val < y.val)
RelLaws == (Present(v[1]) /\ Present(v[2]) /\ v[1].val # UNORD /\ v[2].val # UNORD) =>      \* a total order unless a value is unordered
    LET x == v[1]  y == v[2] IN
    /\ RelRes("lt", x, y) = KeyLess(x, y)
    /\ RelRes("gt", x, y) = KeyLess(y, x)
    /\ RelRes("le", x, y) = ~KeyLess(y, x)
    /\ RelRes("ge", x, y) = ~KeyLess(x, y)
    /\ RelRes("eq", x, y) = (~KeyLess(x, y) /\ ~KeyLess(y, x))
    /\ RelRes("ne", x, y) = ~RelRes("eq", x, y)

(* a variant becomes valueless only in a call that threw, or by copying / moving / swapping a valueless one *)
ValuelessOnlyAfterThrow ==
    [][\A k \in K : (IsVl(v'[k]) /\ ~IsVl(v[k])) =>
          \/ last'.res.exc = "injected"
          \/ \E j \in K : IsVl(v[j])]_vars
ObserversPure == [][(last'.op = "End" /\ call.c \in Observers) => v' = v]_vars
(* identities matter only up to their order: the model checker explores states modulo renaming *)
Rank(i) == IF i \in live THEN Cardinality({j \in live : j <= i}) ELSE 0
l1view == <<[k \in K |-> [v[k] EXCEPT !.id = Rank(@)]], call, thrown, {<<Rank(i), obj[i]>> : i \in live}>>
=============================================================================

SPECIFICATION SimSpec
CONSTANTS
  NReg = 3
  Vals <- ValsSim
  MCKinds <- KindsAll
  Classes <- AllClasses
  MCFuns <- SimFuns
  MCHows <- EveryHow
  Canonical = FALSE
  AliasInit = FALSE
  EmitOn = FALSE

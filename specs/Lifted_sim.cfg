SPECIFICATION SimSpec
CONSTANTS
  NReg = 3
  Vals <- ValsSim
  MCKinds <- KindsAll
  Classes <- AllClasses
  MCFuns <- SimFuns
  Canonical = FALSE
  EmitOn = FALSE

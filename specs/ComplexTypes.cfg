SPECIFICATION Spec
INVARIANTS TypeLaws

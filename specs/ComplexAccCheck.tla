--------------------------- MODULE ComplexAccCheck ---------------------------
(* C->S for ComplexAcc: the table recorded from the real xcomplex operators (one row per case: the case, the operands *)
(* the harness actually built ("in"), and for every operator variant both parts of the result as sign / integer      *)
(* significand limbs / exponent; row.r is a sequence of [v |-> variants with bit-identical results, z |-> result])   *)
(* is validated by TLC:                                                                                              *)
(*   - every variant's result satisfies the accuracy bound of ComplexAcc (exact integer arithmetic)    -> "@BAD@"     *)
(*   - the same operation through value, T& and const T& closures gives bit-identical results, signs of zeros      *)
(*     included ("identical for value and reference closures")                                         -> "@BAD@"     *)
(*   - signs of zero results where IEEE 754 / C99 G.5 pin them                                         -> "@ADV@"     *)
(*     (advisory: the property statement says "mathematically correct", which a zero of either sign is)              *)
(*   - the harness built the operands the case describes, and the case is one the specification admits -> "@ECHO@"    *)
(*     (machinery, never a verdict)                                                                                  *)
EXTENDS ComplexAcc, TLC, Json, IOUtils

VARIABLES c, bad
Table == ndJsonDeserialize(IOEnv.TABLE)

(* operator variants, as in ComplexExactCheck; "mixed" ones involve an operand with the other ieee flag *)
VariantsOf(f) == IF f \in CForms THEN {"vv", "vc", "rk", "rc", "kv", "vw", "wv", "wc"}
                 ELSE IF f \in RForms THEN {"vv", "vc", "rk", "rc", "kv", "wv"} ELSE {"vv", "rk", "kv", "wv"}
Mixed == {"vw", "wv", "wc"}
Evaluated(row) == UNION {{row.r[g].v[j] : j \in 1..Len(row.r[g].v)} : g \in 1..Len(row.r)}
GroupOf(row, v) == CHOOSE g \in 1..Len(row.r) : \E j \in 1..Len(row.r[g].v) : row.r[g].v[j] = v
KeyOf(row) == [t |-> row.t, b |-> row.b, f |-> row.f, st |-> row.st, x |-> row.x, y |-> row.y]
EchoOK(row) == Admissible(KeyOf(row)) /\ row.in = <<row.x, row.y>> /\ Evaluated(row) = VariantsOf(row.f)

(* classes of variants that must agree bit for bit: the SAME operation (binary, or compound) on the same operands through  *)
(* different closure kinds - value, T&, const T&.  Binary against compound, and operands with different ieee flags (all of   *)
(* them value closures), are not compared: the statement does not say they are identical.                                    *)
Classes(cc) == {VariantsOf(cc.f) \cap {"vv", "rk", "kv"}, VariantsOf(cc.f) \cap {"vc", "rc"}}
Failures(row) ==
    LET cc == KeyOf(row) IN
    {[v |-> ToJson(row.r[g].v), why |-> "accuracy", got |-> ToJson(row.r[g].z)] : g \in {h \in 1..Len(row.r) : ~Accurate(cc, row.r[h].z)}}
    \cup {[v |-> ToJson(S), why |-> "identical for value and reference closures", got |-> ToJson({row.r[GroupOf(row, v)].z : v \in S})]
            : S \in {K \in Classes(cc) : Cardinality({GroupOf(row, v) : v \in K}) > 1}}
SignDevs(row) ==
    LET cc == KeyOf(row) IN
    UNION {{[v |-> ToJson(row.r[g].v), part |-> i, got |-> row.r[g].z[i].s, allowed |-> ToJson(ZeroSigns(cc, i))]
              : i \in {j \in 1..2 : ExactZero(cc, j) /\ row.r[g].z[j].k = "zero" /\ row.r[g].z[j].s \notin ZeroSigns(cc, j)}}
           : g \in 1..Len(row.r)}

Init == \E i \in 1..Len(Table) :
          LET row == Table[i] IN
          /\ c = KeyOf(row)
          /\ IF ~EchoOK(row) THEN bad = FALSE /\ PrintT("@ECHO@" \o ToJson([key |-> KeyOf(row), got |-> row.in, ev |-> Evaluated(row)]))
             ELSE LET fl == Failures(row)  sd == SignDevs(row) IN
                  /\ bad = (fl # {})
                  /\ (fl = {} \/ PrintT("@BAD@" \o ToJson([key |-> KeyOf(row), fails |-> fl])))
                  /\ (sd = {} \/ PrintT("@ADV@" \o ToJson([key |-> KeyOf(row), devs |-> sd])))
Next == UNCHANGED <<c, bad>>
Spec == Init /\ [][Next]_<<c, bad>>
Conforms == ~bad
=============================================================================

SPECIFICATION Spec
CONSTANTS
  Anys = {1, 2, 3}
  Types = {"NC", "Sp", "Str", "Int", "Nest"}
  Vals = {1, 2}
  Fuses = {0, 1}
  AFuses = {0, 1}
  InPlaceTypes = {"NC", "Sp", "Int"}
  NothrowMove = {"NC", "Sp", "Str", "Int", "Nest"}
  SelfSwapGuard = TRUE
  EmitMode = "quick"
ACTION_CONSTRAINT Emit
VIEW absview
INVARIANTS RepInv
PROPERTIES Refines MovedFromIsEmpty

------------------------ MODULE FixedStringImplTrace ------------------------
(* Advisory conformance of the L2 model (FixedStringImpl) with the code: every recorded call is     *)
(* replayed as the L2 action with the logged arguments; the result must be the logged one and every  *)
(* buffer cell the model knows must equal the logged raw cell (data()[0..N]), stale cells behind the  *)
(* terminator included.  Cells the code never initialised (packed layout, fresh object) are UNK in    *)
(* the model and compare equal to anything.  A rejection here is reported as MODEL-DRIFT, never as a  *)
(* violation: it says that FixedStringImpl.tla no longer describes the code (DESIGN.md 2.3).          *)
(* Calls that FixedStringImpl does not transcribe are skipped: observers leave the model's cells      *)
(* alone, the two stream mutators re-synchronise the model with the logged cells.                     *)
EXTENDS FixedStringImpl, Json, IOUtils

VARIABLE l
JsonTrace == ndJsonDeserialize(IOEnv.TRACE)
EnvN      == atoi(IOEnv.FS_N)
UNK       == -9

TInit ==
    /\ l = 1
    /\ cfv = [policy |-> "silent", layout |-> "sizefield"]
    /\ mem = <<[b |-> Zeros, z |-> 0], [b |-> Zeros, z |-> 0]>>
    /\ oob = FALSE
    /\ last = [op |-> "Init", k |-> 0, a |-> NoArg, res |-> Void]
    /\ pre = [obj |-> <<<<>>, <<>>>>]

Logged(e) == [op |-> e.op, k |-> e.k, a |-> e.a, res |-> e.res]
TReset(e) ==
    /\ cfv' = [policy |-> e.a.policy, layout |-> e.a.layout]
    /\ LET f == IF e.a.layout = "packed"
                  THEN [b |-> [i \in 1..(N + 1) |-> IF i = 1 THEN 0 ELSE IF i = N + 1 THEN N ELSE UNK], z |-> 0]
                  ELSE [b |-> Zeros, z |-> 0]
       IN mem' = <<f, f>>
    /\ oob' = FALSE /\ pre' = pre /\ last' = Logged(e)
Skip(e)   == UNCHANGED <<cfv, mem, oob, pre>> /\ last' = Logged(e)
Resync(e) == /\ mem' = [k \in {1, 2} |-> [b |-> e.raw[k], z |-> e.st.o[k].size]]
             /\ UNCHANGED <<cfv, oob, pre>> /\ last' = Logged(e)

Modelled == {"Reset", "CtorDefault", "CtorFill", "CtorSub", "CtorSeq", "Overlay", "AssignFill", "AssignSub", "AssignSeq", "At", "Index",
             "Write", "Clear", "PushBack", "PopBack", "Resize1", "Resize2", "Swap", "Substr", "Copy", "InsertFill", "InsertSeq", "InsertSub",
             "InsertIt", "InsertItSeq", "Erase", "EraseIt", "EraseRange", "AppendFill", "AppendSeq", "AppendSub", "Compare1", "Replace",
             "ReplaceSub", "ReplaceFill", "ReplaceIt", "ReplaceItFill", "Find"}
ConcatModelled(a) == <<a.lk, a.rk>> \in {<<"self", "obj">>, <<"self", "ptr">>, <<"self", "ch">>, <<"selfm", "obj">>, <<"self", "objm">>}

(* source kinds added to L1 in round 3 (mutable / reverse iterators into the object itself, iterator pairs of other  *)
(* containers): not transcribed here; the cells are taken from the log and the model goes on from there            *)
NewKinds == {"selfmit", "selfrit", "itp", "itpm", "its"}
HasNewKind(e) == "sk" \in DOMAIN e.a /\ e.a.sk \in NewKinds
DispatchOld(e) ==
    LET k == e.k
        a == e.a
        v == IF "sk" \in DOMAIN a /\ a.sk \in {"obj", "objm"} THEN AbsStr(Other(k)) ELSE a.src
    IN
    \/ e.op = "Reset"         /\ TReset(e)
    \/ e.op = "CtorDefault"   /\ CtorDefault(k, UNK)
    \/ e.op = "CtorFill"      /\ CtorFill(k, UNK, a.n, a.ch)
    \/ e.op = "CtorSub"       /\ CtorSub(k, UNK, a.sk, v, a.pos, a.n)
    \/ e.op = "CtorSeq"       /\ CtorSeq(k, UNK, a.sk, v)
    \/ e.op = "Overlay"       /\ Overlay(k, a.cells)
    \/ e.op = "AssignFill"    /\ AssignFill(k, a.ov, a.n, a.ch)
    \/ e.op = "AssignSub"     /\ AssignSub(k, a.sk, v, a.pos, a.n)
    \/ e.op = "AssignSeq"     /\ AssignSeq(k, a.ov, a.sk, v)
    \/ e.op = "At"            /\ At(k, a.c, a.i)
    \/ e.op = "Index"         /\ Index(k, a.c, a.i)
    \/ e.op = "Write"         /\ Write(k, a.path, a.i, a.ch)
    \/ e.op = "Clear"         /\ Clear(k)
    \/ e.op = "PushBack"      /\ PushBack(k, a.ov, a.ch)
    \/ e.op = "PopBack"       /\ PopBack(k)
    \/ e.op = "Resize1"       /\ Resize1(k, a.n)
    \/ e.op = "Resize2"       /\ Resize2(k, a.n, a.ch)
    \/ e.op = "Swap"          /\ Swap(k, a.ov)
    \/ e.op = "Substr"        /\ Substr(k, a.pos, a.n)
    \/ e.op = "Copy"          /\ Copy(k, a.n, a.pos, a.dn, a.fill)
    \/ e.op = "InsertFill"    /\ InsertFill(k, a.idx, a.n, a.ch)
    \/ e.op = "InsertSeq"     /\ InsertSeq(k, a.idx, a.sk, v)
    \/ e.op = "InsertSub"     /\ InsertSub(k, a.idx, a.sk, v, a.pos, a.n)
    \/ e.op = "InsertIt"      /\ InsertIt(k, a.ov, a.it, a.n, a.ch)
    \/ e.op = "InsertItSeq"   /\ InsertItSeq(k, a.it, a.sk, v)
    \/ e.op = "Erase"         /\ Erase(k, a.idx, a.n)
    \/ e.op = "EraseIt"       /\ EraseIt(k, a.it)
    \/ e.op = "EraseRange"    /\ EraseRange(k, a.f, a.l)
    \/ e.op = "AppendFill"    /\ AppendFill(k, a.n, a.ch)
    \/ e.op = "AppendSeq"     /\ AppendSeq(k, a.ov, a.sk, v)
    \/ e.op = "AppendSub"     /\ AppendSub(k, a.sk, v, a.pos, a.n)
    \/ e.op = "Compare1"      /\ Compare1(k, a.pos1, a.n1, a.sk, v)
    \/ e.op = "Replace"       /\ Replace(k, a.pos, a.n, a.sk, v)
    \/ e.op = "ReplaceSub"    /\ ReplaceSub(k, a.pos, a.n, a.sk, v, a.pos2, a.n2)
    \/ e.op = "ReplaceFill"   /\ ReplaceFill(k, a.pos, a.n, a.n2, a.ch)
    \/ e.op = "ReplaceIt"     /\ ReplaceIt(k, a.f, a.l, a.sk, v)
    \/ e.op = "ReplaceItFill" /\ ReplaceItFill(k, a.f, a.l, a.n2, a.ch)
    \/ e.op = "Find"          /\ Find(k, a.fam, a.sk, v, a.pos)
    \/ e.op = "Concat" /\ ConcatModelled(a)  /\ Concat(k, a.lk, a.rk, a.src)
    \/ e.op = "Concat" /\ ~ConcatModelled(a) /\ Skip(e)
    \/ e.op \in {"StreamIn", "GetLine"} /\ Resync(e)
    \/ e.op \notin Modelled \cup {"Concat", "StreamIn", "GetLine"} /\ Skip(e)

Dispatch(e) == IF HasNewKind(e) THEN Resync(e) ELSE DispatchOld(e)

CellsAgree(e) == \A k \in {1, 2} :
    /\ \A i \in 1..(N + 1) : mem'[k].b[i] = UNK \/ mem'[k].b[i] = e.raw[k][i]
    /\ cfv'.layout = "sizefield" => mem'[k].z = e.st.o[k].size

TNext ==
    /\ l <= Len(JsonTrace)
    /\ LET e == JsonTrace[l] IN
        /\ Dispatch(e)
        /\ last'.res = e.res
        /\ CellsAgree(e)
        /\ ~oob'
    /\ l' = l + 1

TSpec == TInit /\ [][TNext]_<<ivars, l>>
TraceAccepted == TLCGet("stats").diameter - 1 = Len(JsonTrace)
=============================================================================

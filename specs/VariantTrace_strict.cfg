SPECIFICATION TSpec
CONSTANTS
  Strict = TRUE
  Vals = {}
  MaxFuse = 0
  MaxEv = 0
  CallSet = {}
POSTCONDITION TraceAccepted
CHECK_DEADLOCK FALSE

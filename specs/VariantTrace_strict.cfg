SPECIFICATION TSpec
CONSTANTS
  TrackedAlts = {1, 2, 3}
  NTMAlts = {0, 1}
  Strict = TRUE
  Vals = {}
  MaxFuse = 0
  MaxEv = 0
  CallSet = {}
POSTCONDITION TraceAccepted
CHECK_DEADLOCK FALSE

\* S->C, every (table, call) transition for tables of at most MaxCells registered tuples (VIEW absvars:
\* every table once); Emit writes each transition as one "@E@{cfg, p, l}" line.  Reference instance of
\* what checks/c17.py generates per kind (gen_cfg); OpsTableNoErase where the library has no erase.
SPECIFICATION Spec
CONSTANTS
  Kinds <- KMapDyn
  Arities = {2}
  NXs = {1}
  K = 3
  MaxHist = 999
  MaxCells = 2
  OpClasses <- OpsTable
  EmitMode <- ModeEdges
  Plans <- NoPlans
CONSTRAINT Bound
ACTION_CONSTRAINT Emit
VIEW absvars

SPECIFICATION Spec
CONSTANTS
  W = 3
  MaxBits = 7
  MaxShift = 8
CONSTRAINT SizeBound
VIEW absview
INVARIANTS RepInv ObserversAgree
PROPERTIES Refines

SPECIFICATION TSpec
CONSTANTS
  Modes = {}
  MaxN = 0
  MaxDepth = 0
  MaxE = 5
  Huge = {}
  Kinds = {}
  Classes = {}
  EmitOps = {}
POSTCONDITION TraceAccepted
CHECK_DEADLOCK FALSE

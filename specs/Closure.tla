------------------------------- MODULE Closure -------------------------------
(***************************************************************************)
(* L1 property specification for C07, run-time part: closures alias lvalues *)
(* and own rvalues.  Written from the property statement and the C++ object *)
(* model (an lvalue reference designates an object; a value owns storage    *)
(* that lives as long as its owner; a moved-from object is valid but        *)
(* unspecified), not from xtl's code.                                       *)
(*                                                                          *)
(* Objects ("cells") are named: the caller's variables x1.. (payload),     *)
(* f1.. (bool flags), b1.. (bits of a caller's bitset), s1.. (sequences);   *)
(* the storage owned by component i of the wrapper in slot k, o<k>_<i>;     *)
(* caller temporaries t1...  A wrapper in slot k is                          *)
(*     [kind, c |-> << component, ... >>],                                   *)
(*     component = [m |-> "ref" | "own", id |-> cell, wr |-> writable].      *)
(* Kinds: cw  xclosure_wrapper (closure / const_closure)                     *)
(*        cp  xclosure_pointer (closure_pointer / const_closure_pointer)     *)
(*        pw  xproxy_wrapper   (proxy_wrapper)                               *)
(*        opt xoptional<CT,CB> (optional(value, flag))          2 components *)
(*        cx  xcomplex<CTR,CTI> over closure types              2 components *)
(*        mv  xmasked_value<T,B> (masked_value(value, visible)) 2 components *)
(*        br  bitset element reference (bs[i])                               *)
(*        fs  forward_sequence<R,A>(a)                                       *)
(*        ob  xoptional<T&, bitset::reference> (an element of an              *)
(*            xoptional_vector): value in a caller variable, flag a bit       *)
(*                                                              2 components *)
(* Every public call is one action, its C++ arguments are the action        *)
(* parameters; ghost last = [op,k,a,res], ghost hist = the calls so far.     *)
(* Where C++ leaves a value unspecified (moved-from objects) every allowed   *)
(* value is a successor (Havoc).                                             *)
(***************************************************************************)
EXTENDS Naturals, Sequences, FiniteSets, TLC, Json

CONSTANTS NX, NF, NB, NS,   \* number of caller variables of each class
          NW,               \* wrapper slots
          NT,               \* temporaries that can be alive at once
          Vals,             \* payload values used as call arguments by the model checker
          Kinds,            \* wrapper kinds the model checker constructs
          Payloads,         \* payload types: "int", "counted", "moveonly"
          FeatSets,         \* sets of optional call forms assumed to be available
          Cats,             \* source categories the model checker uses for payload components
          MCVars,           \* the model checker only names variables 1..MCVars
          Classes,          \* operation classes in the model checker's next-state relation
          Havoc,            \* TRUE: moved-from objects take every allowed value
          Depth,            \* model checking: states reached by up to Depth calls are expanded
          Staged,           \* model checking: TRUE = up to Depth constructions/copies of wrappers, then up to Ops other calls
          Ops,              \* (Staged) number of calls after the set-up phase
          EmitOn            \* TRUE: write every transition out as JSON (S->C)

VARIABLES payload,  \* payload type of this execution
          feat,     \* optional call forms available in this execution
          cell,     \* cell id -> [val, live]
          w,        \* slot -> wrapper or NoW
          last,     \* ghost: the call just made and its expected result
          hist      \* ghost: calls so far (a path to the current state)

vars    == <<payload, feat, cell, w, last, hist>>
absvars == <<payload, feat, cell, w>>
SetupOps == {"Make", "CopyW", "MoveW", "RelocW"}
NOps == Cardinality({i \in 1..Len(hist) : hist[i].op \notin SetupOps})      \* calls made after the set-up phase
stageview == <<payload, feat, cell, w, NOps>>        \* staged enumeration: a state of the set-up phase is expanded even if a later call also leads to it
depthview == <<payload, feat, cell, w, Len(hist)>>   \* model checking with several workers: (state, depth) pairs, so that the explored set does not depend on scheduling

MOVED == 9          \* the value a moved-from payload object shows (harness payloads set it)

----------------------------------------------------------------------------
(* Cells *)
NVar(cls)   == CASE cls = "x" -> NX [] cls = "f" -> NF [] cls = "b" -> NB [] cls = "s" -> NS
VarClasses  == {"x", "f", "b", "s"}
(* the names are built once (constant tables): x1, f2, o1_2, t1 ... *)
VTab        == [cls \in VarClasses |-> [i \in 1..NVar(cls) |-> cls \o ToString(i)]]
OTab        == [k \in 1..NW |-> [i \in 1..2 |-> "o" \o ToString(k) \o "_" \o ToString(i)]]
TTab        == [t \in 1..NT |-> "t" \o ToString(t)]
VId(cls, i) == VTab[cls][i]
OId(k, i)   == OTab[k][i]
TId(t)      == TTab[t]
VarIds      == UNION {{VId(cls, i) : i \in 1..NVar(cls)} : cls \in VarClasses}
OwnIds      == {OId(k, i) : k \in 1..NW, i \in 1..2}
TmpIds      == {TId(t) : t \in 1..NT}
CellIds     == VarIds \cup OwnIds \cup TmpIds

Dead        == [val |-> 0, live |-> FALSE]
Obj(v)      == [val |-> v, live |-> TRUE]
InitVal(cls, i) == IF cls \in {"f", "b"} THEN i % 2 ELSE i
InitCell    == [id \in CellIds |->
                  IF id \in VarIds
                    THEN LET cls == CHOOSE c \in VarClasses : \E i \in 1..NVar(c) : VId(c, i) = id
                             i   == CHOOSE j \in 1..NVar(cls) : VId(cls, j) = id
                         IN Obj(InitVal(cls, i))
                    ELSE Dead]
ClsVals(cls) == IF cls \in {"f", "b"} THEN {0, 1} ELSE Vals

Val(id)         == cell[id].val
Upd(c, id, v)   == [c EXCEPT ![id].val = v]
Kill(c, ids)    == [id \in CellIds |-> IF id \in ids THEN Dead ELSE c[id]]
KillOwn(c, k)   == [c EXCEPT ![OTab[k][1]] = Dead, ![OTab[k][2]] = Dead]

----------------------------------------------------------------------------
(* Wrappers *)
NoW         == [kind |-> "none", c |-> <<>>]
AllKinds    == {"cw", "cp", "pw", "opt", "cx", "mv", "br", "fs", "ob"}
NComp(kind) == IF kind \in {"opt", "cx", "mv", "ob"} THEN 2 ELSE 1
CompClass(kind, i) == CASE kind = "br" -> "b"
                        [] kind = "fs" -> "s"
                        [] kind \in {"opt", "mv"} /\ i = 2 -> "f"
                        [] kind = "ob" /\ i = 2 -> "b"
                        [] OTHER -> "x"
Comps(W)       == 1..Len(W.c)
IsRef(W, i)    == W.c[i].m = "ref"
IsOwn(W, i)    == W.c[i].m = "own"
AllOwn(W)      == \A i \in Comps(W) : IsOwn(W, i)
AllRef(W)      == \A i \in Comps(W) : IsRef(W, i)
HasOwn(W)      == \E i \in Comps(W) : IsOwn(W, i)
AllWr(W)       == \A i \in Comps(W) : W.c[i].wr
Shape(W)       == [i \in Comps(W) |-> <<W.c[i].m, W.c[i].wr>>]
OwnCells(k)    == {OId(k, 1), OId(k, 2)}
(* give the owned components of the new wrapper W in slot k their objects (vals[i] = initial value) *)
SetOwn(c, k, W, vals) ==
    LET c1 == IF IsOwn(W, 1) THEN [c EXCEPT ![OTab[k][1]] = Obj(vals[1])] ELSE c
    IN IF Len(W.c) = 2 /\ IsOwn(W, 2) THEN [c1 EXCEPT ![OTab[k][2]] = Obj(vals[2])] ELSE c1
OwnIdsOf(W)    == {W.c[i].id : i \in {j \in Comps(W) : IsOwn(W, j)}}
(* the payload-typed components: those whose construction the copy/move counters see *)
PayloadComps(W) == {i \in Comps(W) : CompClass(W.kind, i) \in {"x", "s"}}
PayloadAllRef(W) == \A i \in PayloadComps(W) : IsRef(W, i)
Copyable       == payload # "moveonly"

----------------------------------------------------------------------------
(* Observable projection, compared after every call.  For a component the    *)
(* harness reports which object the wrapper designates (by address): the     *)
(* name of a caller variable, or "self" = storage inside the wrapper itself. *)
(* A bitset reference has no address: its target is reported as "bit" and    *)
(* its aliasing shows in the values.                                          *)
IsBit(W, i)  == CompClass(W.kind, i) = "b"
Target(W, i) == IF IsBit(W, i) THEN "bit" ELSE IF IsOwn(W, i) THEN "self" ELSE W.c[i].id
ProjW(W) == IF W = NoW THEN [kind |-> "none", c |-> <<>>]
            ELSE [kind |-> W.kind,
                  c |-> [i \in Comps(W) |-> [m |-> W.c[i].m, t |-> Target(W, i), v |-> Val(W.c[i].id)]]]
ProjVars(cls) == [i \in 1..NVar(cls) |-> Val(VId(cls, i))]
ProjAll == [x |-> ProjVars("x"), f |-> ProjVars("f"), b |-> ProjVars("b"), s |-> ProjVars("s"),
            w |-> [k \in 1..NW |-> ProjW(w[k])]]

----------------------------------------------------------------------------
NoArg == [z |-> 0]
(* res: ctor = "none": the call constructed no payload object at all (no copy, no move);     *)
(*             "any":  not constrained;   fwd: what forward_sequence returned (fs only);     *)
(*      val:  observations, each [ts |-> allowed targets, v |-> value]                        *)
Res(ctor, fwd, val) == [ctor |-> ctor, fwd |-> fwd, val |-> val]
Void == Res("any", "na", <<>>)

(* hv: cells whose value may have been moved from.  Without Havoc (S->C enumeration, where only the *)
(* call sequences matter) one representative outcome is taken: payload objects keep their value,    *)
(* a moved-from sequence is emptied (that decides whether a later conversion to a fixed size is a   *)
(* legal call, so the representative has to be the usual one).                                       *)
SeqIds == {VId("s", i) : i \in 1..NS}
Do(op, k, a, res, newcell, neww, hv) ==
    /\ \E mvd \in (IF Havoc THEN SUBSET hv ELSE {hv \cap SeqIds}) :
          cell' = IF mvd = {} THEN newcell
                  ELSE [id \in CellIds |-> IF id \in mvd THEN [newcell[id] EXCEPT !.val = MOVED] ELSE newcell[id]]
    /\ w' = neww
    /\ last' = [op |-> op, k |-> k, a |-> a, res |-> res]
    /\ hist' = Append(hist, [op |-> op, k |-> k, a |-> a])
    /\ UNCHANGED <<payload, feat>>

----------------------------------------------------------------------------
(* Construction.  A source is [cat, i, v]:                                                 *)
(*   "lv"    the caller's variable i, as an lvalue           -> the wrapper aliases it      *)
(*   "clv"   the same through a const lvalue                 -> aliases it, read-only        *)
(*   "xvar"  std::move(variable i)                           -> owns a value; variable may be moved from *)
(*   "cxvar" std::move(as_const(variable i))                 -> owns a copy                   *)
(*   "xtemp" std::move of a caller temporary t holding v that dies at EndTemps -> owns v    *)
(*   "pr"    a prvalue P(v), gone at the end of the full expression              -> owns v    *)
LvCats   == {"lv", "clv"}
VarCats  == {"lv", "clv", "xvar", "cxvar"}
AllCats  == {"lv", "clv", "xvar", "cxvar", "xtemp", "pr"}
Vias(kind) == CASE kind \in {"cw", "cp"} -> {"closure", "const_closure"}
                [] kind = "fs" -> {"same", "diff"}
                [] OTHER -> {"std"}
CatsFor(kind, i) ==
    CASE kind \in {"br", "ob"} -> LvCats
      [] CompClass(kind, i) = "f" -> {"lv", "clv", "pr"}
      [] OTHER -> AllCats

SrcOK(kind, via, i, src) ==
    LET cls == CompClass(kind, i) IN
    /\ src.cat \in CatsFor(kind, i)
    /\ (src.cat \in VarCats) => (src.i \in 1..NVar(cls) /\ src.v = 0)
    /\ (src.cat \notin VarCats) => (src.i = 0 /\ src.v \in Nat)
    /\ (src.cat = "cxvar") => (Copyable /\ via # "const_closure")     \* a const rvalue can only be copied
    /\ (kind = "fs" /\ via = "diff") => Copyable                     \* conversion copies the elements
    /\ (kind = "cw" /\ ~Copyable /\ src.cat \notin LvCats) => "cw_mo_rv" \in feat

MakesRef(kind, via, src) == src.cat \in LvCats /\ ~(kind = "fs" /\ via = "diff")
CompOf(k, kind, via, i, src) ==
    IF MakesRef(kind, via, src)
      THEN [m |-> "ref", id |-> VId(CompClass(kind, i), src.i), wr |-> (src.cat = "lv" /\ via # "const_closure")]
      ELSE [m |-> "own", id |-> OId(k, i), wr |-> (src.cat # "cxvar")]
SrcVal(kind, i, src) == IF src.cat \in VarCats THEN Val(VId(CompClass(kind, i), src.i)) ELSE src.v

FreeT == {t \in 1..NT : ~cell[TId(t)].live}
MinOf(S) == CHOOSE m \in S : \A n \in S : m <= n
(* the temporary used by component i (components take free temporaries in order) *)
TempOf(srcs, i) ==
    LET first == MinOf(FreeT) IN
    IF i = 1 \/ srcs[1].cat # "xtemp" THEN first ELSE MinOf(FreeT \ {first})

Make(k, kind, via, srcs) ==
    /\ kind \in AllKinds /\ via \in Vias(kind)
    /\ Len(srcs) = NComp(kind)
    /\ \A i \in 1..Len(srcs) : SrcOK(kind, via, i, srcs[i])
    /\ Cardinality({i \in 1..Len(srcs) : srcs[i].cat = "xtemp"}) <= Cardinality(FreeT)
    (* caller preconditions: one object is not moved from twice in one expression; a sequence converted *)
    (* to a fixed-size one has that size (a moved-from, emptied sequence has not)                       *)
    /\ (Len(srcs) = 2 /\ "xvar" \in {srcs[1].cat, srcs[2].cat} /\ {srcs[1].cat, srcs[2].cat} \subseteq {"xvar", "cxvar"}
           /\ CompClass(kind, 1) = CompClass(kind, 2)) => srcs[1].i # srcs[2].i
    /\ (kind = "fs" /\ via = "diff") => SrcVal(kind, 1, srcs[1]) # MOVED
    /\ LET n  == Len(srcs)
           W  == [kind |-> kind, c |-> [i \in 1..n |-> CompOf(k, kind, via, i, srcs[i])]]
           c0 == SetOwn(KillOwn(cell, k), k, W, [i \in 1..n |-> SrcVal(kind, i, srcs[i])])
           t1 == IF srcs[1].cat = "xtemp" THEN [c0 EXCEPT ![TId(TempOf(srcs, 1))] = Obj(srcs[1].v)] ELSE c0
           c1 == IF n = 2 /\ srcs[2].cat = "xtemp" THEN [t1 EXCEPT ![TId(TempOf(srcs, 2))] = Obj(srcs[2].v)] ELSE t1
           hv == {VId(CompClass(kind, i), srcs[i].i) : i \in {j \in 1..n : srcs[j].cat = "xvar"}}   \* (a temporary's value is not observed)
           fwd == IF kind # "fs" THEN "na"
                  ELSE IF via = "diff" THEN "value"
                  ELSE IF srcs[1].cat \in LvCats THEN "lref_same" ELSE "rref_same"
       IN Do("Make", k, [kind |-> kind, via |-> via, s |-> srcs],
             Res(IF PayloadAllRef(W) THEN "none" ELSE "any", fwd, <<>>),
             c1, [w EXCEPT ![k] = W], hv)

Destroy(k) ==
    /\ w[k] # NoW
    /\ Do("Destroy", k, NoArg, Res(IF PayloadAllRef(w[k]) THEN "none" ELSE "any", "na", <<>>),
          KillOwn(cell, k), [w EXCEPT ![k] = NoW], {})

(* the caller's temporaries go out of scope; nothing a wrapper designates may be affected *)
EndTemps == Do("EndTemps", 0, NoArg, Void, Kill(cell, TmpIds), w, {})

(* the caller writes one of its own variables directly: every alias must show the new value *)
WriteVar(cls, i, v) ==
    /\ cls \in VarClasses /\ i \in 1..NVar(cls) /\ v \in Nat
    /\ Do("WriteVar", 0, [cls |-> cls, i |-> i, v |-> v], Void, Upd(cell, VId(cls, i), v), w, {})

----------------------------------------------------------------------------
(* Reading through a wrapper, by every access path.  Result per component:  *)
(* which object the returned reference designates (or "value" when the call  *)
(* returns by value) and the value read.                                      *)
ByValForms == {"rget", "conv", "cconv", "rv", "crv", "rfree", "rbind", "crget", "rconv", "rvbind"}   \* return a value when the closure owns its value
(* round 4: the value category of the wrapper is an axis of every access path.                                          *)
(* crget:  std::move(as_const(w)).get() read inside the full expression (a const rvalue wrapper: value or const ref)    *)
(* rconv:  const T& r = W(w);  -- the implicit conversion of a TEMPORARY copy of the wrapper bound to a reference        *)
(* rvbind: auto&& r = O(o).value() / .has_value() / .real() / .imag() / .visible()  -- the rvalue accessor of a          *)
(*         TEMPORARY copy of a two-component wrapper, one temporary per component                                       *)
(* The results of the forms in OutliveForms are read AFTER the temporary wrapper is gone.                               *)
OutliveForms == {"rbind", "rconv", "rvbind"}
(* rbind:  auto&& r = W(w).get();  -- the rvalue accessor of a TEMPORARY copy of the wrapper, its result bound to a     *)
(* reference; the temporary wrapper is gone at the end of the declaration and r is read afterwards: for a reference      *)
(* closure r is the caller's object, for an owning one r must be a value of its own (lifetime-extended), never a         *)
(* reference into the dead wrapper ("stays valid after the temporary is gone")                                           *)
FormsOf(W) ==
    CASE W.kind = "cw" -> {"get", "cget", "rget", "conv", "cconv", "rbind", "crget", "rconv"}
      [] W.kind = "pw" -> IF IsRef(W, 1) THEN {"get", "cget", "rget", "conv", "cconv", "rbind", "crget", "rconv"} ELSE {"base"}
      [] W.kind = "cp" -> {"deref", "cderef", "arrow"}
      [] W.kind \in {"opt", "cx"} -> {"lv", "clv", "rv", "crv", "free", "cfree", "rfree", "rvbind"}   \* members and the free functions value/has_value, real/imag
      [] W.kind = "ob" -> {"lv", "clv", "rv", "crv", "free", "cfree", "rfree"}
      [] W.kind = "mv" -> {"lv", "clv", "rv", "crv", "rvbind"}
      [] W.kind = "br" -> {"conv", "neg"}
      [] W.kind = "fs" -> {"get"}
(* what reading component i of W by access path `form` yields *)
ReadItem(W, i, form) ==
    LET byval == IsOwn(W, i) /\ form \in ByValForms
    IN [ts |-> IF IsBit(W, i) THEN {"bit"}
               ELSE IF IsRef(W, i) THEN {W.c[i].id}
               ELSE IF form \in OutliveForms THEN {"value"}
               ELSE IF byval THEN {"value", "self"} ELSE {"self"},
        v  |-> IF form = "neg" THEN 1 - Val(W.c[i].id) ELSE Val(W.c[i].id)]
Read(k, form) ==
    /\ w[k] # NoW
    /\ form \in FormsOf(w[k])
    /\ (HasOwn(w[k]) /\ form \in ByValForms) => Copyable
    /\ LET W == w[k]
           byval(i) == IsOwn(W, i) /\ form \in ByValForms
       IN Do("Read", k, [form |-> form], Res("any", "na", [i \in Comps(W) |-> ReadItem(W, i, form)]), cell, w,
             {W.c[i].id : i \in {j \in Comps(W) : byval(j)}})

(* value_or(d): the value when the flag says there is one, d otherwise -- always a new value, never *)
(* a reference.  The object is only read (the && overload may move out of a value the optional    *)
(* owns, as std::optional does; never out of an object it merely designates).                      *)
ValueOr(k, v, d, form) ==
    /\ w[k] # NoW /\ w[k].kind \in {"opt", "ob"} /\ Copyable
    /\ v \in Nat /\ d \in {"pr", "lv"} /\ form \in {"clv", "rv", "crv"}
    /\ LET W == w[k] IN
       Do("ValueOr", k, [v |-> v, d |-> d, form |-> form],
          Res("any", "na", <<[ts |-> {"value"}, v |-> IF Val(W.c[2].id) = 1 THEN Val(W.c[1].id) ELSE v]>>),
          cell, w, IF form = "rv" /\ IsOwn(W, 1) /\ W.c[1].wr THEN {W.c[1].id} ELSE {})

----------------------------------------------------------------------------
(* Assigning a value through the wrapper: the designated object changes, the *)
(* wrapper keeps designating it.                                              *)
WholeWr(W) == IF W.kind \in {"opt", "cx", "ob"} THEN AllWr(W) ELSE W.c[1].wr
Assign(k, v, cat) ==
    /\ w[k] # NoW /\ WholeWr(w[k])
    /\ cat \in {"lv", "rv"}
    /\ v \in ClsVals(CompClass(w[k].kind, 1))
    /\ (cat = "lv" \/ w[k].kind = "mv") => Copyable
    /\ (w[k].kind = "cx") => w[k].c[1].id # w[k].c[2].id      \* (order of the two component writes is not specified)
    /\ LET W == w[k]
           c1 == CASE W.kind \in {"opt", "ob"} -> Upd(Upd(cell, W.c[1].id, v), W.c[2].id, 1)     \* value and "has a value"
                   [] W.kind = "cx"  -> Upd(Upd(cell, W.c[1].id, v), W.c[2].id, 0)     \* real part; imaginary part zero
                   [] W.kind = "mv"  -> IF Val(W.c[2].id) = 1 THEN Upd(cell, W.c[1].id, v) ELSE cell   \* masked: untouched
                   [] OTHER          -> Upd(cell, W.c[1].id, v)
       IN Do("Assign", k, [v |-> v, cat |-> cat], Void, c1, w, {})

(* ... through one accessor of a two-component wrapper (value() = v, has_value() = f, real() = v ...). *)
(* The rvalue accessor of a reference closure returns the same lvalue.                                  *)
AssignComp(k, i, v, form) ==
    /\ w[k] # NoW /\ w[k].kind \in {"opt", "cx", "mv", "ob"}
    /\ i \in Comps(w[k]) /\ w[k].c[i].wr
    /\ form \in {"lv", "rv"} /\ (form = "rv" => IsRef(w[k], i))
    /\ v \in ClsVals(CompClass(w[k].kind, i))
    /\ Do("AssignComp", k, [i |-> i, v |-> v, form |-> form], Void, Upd(cell, w[k].c[i].id, v), w, {})

----------------------------------------------------------------------------
(* Copy- and move-construction of a wrapper: reference components designate *)
(* the same object as the source's; owned components are new objects.        *)
(* (the source expression of a copy is the wrapper as a const lvalue, form "clv", or as a non-const  *)
(* lvalue, form "lv": the copy is the same either way)                                               *)
Clone0(op, k, j, move, form) ==
    /\ k # j /\ w[j] # NoW /\ w[j].kind # "fs"
    /\ form \in (IF move THEN {"xv"} ELSE {"clv", "lv"})
    /\ (HasOwn(w[j]) /\ (~move \/ \E i \in Comps(w[j]) : IsOwn(w[j], i) /\ ~w[j].c[i].wr)) => Copyable
    /\ LET J  == w[j]
           W  == [kind |-> J.kind,
                  c |-> [i \in Comps(J) |-> IF IsRef(J, i) THEN J.c[i] ELSE [m |-> "own", id |-> OId(k, i), wr |-> J.c[i].wr]]]
           c1 == SetOwn(KillOwn(cell, k), k, W, [i \in Comps(J) |-> Val(J.c[i].id)])
       IN Do(op, k, IF move THEN [j |-> j] ELSE [j |-> j, form |-> form],
             Res(IF PayloadAllRef(J) THEN "none" ELSE "any", "na", <<>>),
             c1, [w EXCEPT ![k] = W], IF move THEN OwnIdsOf(J) ELSE {})
Clone(k, j, move, form) == Clone0(IF move THEN "MoveW" ELSE "CopyW", k, j, move, form)
CopyW(k, j, form) == Clone(k, j, FALSE, form)
MoveW(k, j) == Clone(k, j, TRUE, "xv")
(* the wrapper of slot j is put into a container (std::vector<xclosure_wrapper<CT>>::push_back(std::move(w_j))), the     *)
(* container grows and relocates its elements, and slot k takes the relocated element: however often the container  *)
(* moved or copied it on the way, a reference closure still designates the caller's object (and no payload object   *)
(* was constructed), an owning one still holds the value.  The source is moved from.                                 *)
RelocW(k, j) == w[j] # NoW /\ w[j].kind = "cw" /\ Clone0("RelocW", k, j, TRUE, "xv")

----------------------------------------------------------------------------
(* Assignment between wrappers: the value(s) designated by j are assigned to *)
(* the object(s) designated by k; no wrapper is rebound.                      *)
OptFamily == {"opt", "ob"}          \* xoptional instantiations assign to one another
TypeOf(W) == <<W.kind, Shape(W)>>
AssignWOK(K, J, mv) ==
    /\ K.kind = J.kind \/ (K.kind \in OptFamily /\ J.kind \in OptFamily)
    /\ CASE K.kind = "cw" -> Shape(K) = Shape(J) /\ AllWr(K) /\ (mv = 0 => Copyable)
         [] K.kind = "pw" -> Shape(K) = Shape(J) /\ AllWr(K) /\ (mv = 0 => Copyable)
         [] K.kind \in {"opt", "mv", "cx", "ob"} ->
                /\ AllWr(K) /\ Copyable
                /\ TypeOf(K) # TypeOf(J) \/ (AllOwn(K) /\ AllWr(J))
                /\ (K.kind = "cx" /\ Shape(K) # Shape(J)) => "cx_xassign" \in feat
                /\ (K.kind = "cx") => (K.c[1].id # J.c[2].id /\ K.c[1].id # K.c[2].id)   \* (order of the component writes is not specified)
         [] K.kind = "br" -> K.c[1].wr
         [] OTHER -> FALSE
(* after w_k = std::move(w_j) the object designated by j is valid but unspecified: it may keep    *)
(* its value, hold k's old value (move-assignment by swapping) or be moved-from                     *)
AssignW(k, j, mv) ==
    /\ k # j /\ w[k] # NoW /\ w[j] # NoW /\ mv \in {0, 1}
    /\ AssignWOK(w[k], w[j], mv)
    /\ LET K == w[k]
           J == w[j]
           vj(i) == Val(J.c[i].id)
           assigned ==
             CASE K.kind = "mv" /\ Shape(K) # Shape(J) ->      \* masked assignment: visible := visible /\ rhs visible; value only if visible
                                   IF Val(K.c[2].id) = 1 /\ vj(2) = 1
                                     THEN Upd(cell, K.c[1].id, vj(1))
                                     ELSE Upd(cell, K.c[2].id, 0)
               (* two xmasked_value objects of one (value) type: the ordinary copy/move assignment of the class, member by member *)
               [] K.kind \in {"opt", "cx", "mv", "ob"} -> Upd(Upd(cell, K.c[1].id, vj(1)), K.c[2].id, vj(2))
               [] OTHER -> Upd(cell, K.c[1].id, vj(1))
           swappy == mv = 1 /\ K.kind \in {"cw", "pw"} /\ IsRef(K, 1) = IsRef(J, 1) /\ K.c[1].id # J.c[1].id
       IN IF swappy
            THEN \E o \in (IF Havoc THEN {"swap", "keep", "moved"} ELSE {"swap"}) :
                   Do("AssignW", k, [j |-> j, mv |-> mv], Void,
                      Upd(assigned, J.c[1].id, CASE o = "swap" -> Val(K.c[1].id) [] o = "keep" -> vj(1) [] o = "moved" -> MOVED),
                      w, {})
            ELSE Do("AssignW", k, [j |-> j, mv |-> mv], Void, assigned, w,
                    IF mv = 1 /\ K.kind # "br" THEN OwnIdsOf(J) ELSE {})

(* swap exchanges the values of the designated objects, component by component *)
SwapHows(kind) == CASE kind \in {"cw", "pw"} -> {"member", "adl"}
                    [] kind \in {"opt", "ob"} -> {"member"}
                    [] kind = "mv" -> {"member", "adl"}
                    [] kind = "br" -> {"adl"}          \* using std::swap; swap(r1, r2) on two bit references
                    [] OTHER -> {}
Swap(k, j, how) ==
    /\ k # j /\ w[k] # NoW /\ w[j] # NoW
    /\ w[k].kind = w[j].kind /\ Shape(w[k]) = Shape(w[j]) /\ AllWr(w[k])
    /\ how \in SwapHows(w[k].kind)
    /\ (w[k].kind = "pw") => IsRef(w[k], 1)
    /\ LET K == w[k]
           J == w[j]
           sw(c, i) == Upd(Upd(c, K.c[i].id, Val(J.c[i].id)), J.c[i].id, Val(K.c[i].id))
           c1 == IF Len(K.c) = 1 THEN sw(cell, 1) ELSE sw(sw(cell, 1), 2)
       IN Do("Swap", k, [j |-> j, how |-> how], Void, c1, w, {})

(* w_k == w_j compares the designated values (closure wrappers) *)
Equal(k, j) ==
    /\ w[k] # NoW /\ w[j] # NoW /\ w[k].kind = "cw" /\ w[j].kind = "cw" /\ Shape(w[k]) = Shape(w[j])
    /\ Do("Equal", k, [j |-> j], Res("any", "na", <<[ts |-> {"value"}, v |-> IF Val(w[k].c[1].id) = Val(w[j].c[1].id) THEN 1 ELSE 0]>>),
          cell, w, {})

----------------------------------------------------------------------------
(* &w : a pointer-like object through which the same object(s) are reached.   *)
(* form "lv": &w, "clv": &as_const(w), "rv": &std::move(w) (the pointer then  *)
(* owns a wrapper move-constructed from w: reference components still         *)
(* designate the same objects, owned ones are the pointer's own).  wr >= 0:   *)
(* additionally write wr to component 1 through the pointer (wr = 99: no write). *)
NoWrite == 99
AddrForms(W) == CASE W.kind = "cw" -> {"lv"}
                  [] W.kind = "pw" -> IF IsRef(W, 1) \/ payload = "int" THEN {"lv"} ELSE {"lv", "rv"}
                  [] W.kind \in {"opt", "cx", "ob"} -> {"lv", "clv", "rv"}
                  [] W.kind = "br" -> {"lv"}
                  [] OTHER -> {}
AddrItem(W, i, form) == [ts |-> IF IsBit(W, i) THEN {"bit"}
                                 ELSE IF IsRef(W, i) THEN {W.c[i].id}
                                 ELSE IF form = "rv" THEN {"value"} ELSE {"self"},
                          v  |-> Val(W.c[i].id)]
AddrOf(k, form, wr) ==
    /\ w[k] # NoW /\ form \in AddrForms(w[k])
    /\ (wr # NoWrite) => (wr \in ClsVals(CompClass(w[k].kind, 1)) /\ w[k].c[1].wr /\ form # "clv")
    /\ (form = "rv" /\ \E i \in Comps(w[k]) : IsOwn(w[k], i) /\ ~w[k].c[i].wr) => Copyable
    /\ LET W == w[k]
           item(i) == AddrItem(W, i, form)
           written == IF wr = NoWrite \/ (form = "rv" /\ IsOwn(W, 1)) THEN cell ELSE Upd(cell, W.c[1].id, wr)
       IN Do("AddrOf", k, [form |-> form, wr |-> wr], Res("any", "na", [i \in Comps(W) |-> item(i)]),
             written, w, IF form = "rv" THEN OwnIdsOf(W) ELSE {})

----------------------------------------------------------------------------
Init ==
    /\ payload \in Payloads
    /\ feat \in FeatSets
    /\ cell = InitCell
    /\ w = [k \in 1..NW |-> NoW]
    /\ last = [op |-> "Init", k |-> 0, a |-> NoArg, res |-> Void]
    /\ hist = <<>>

Src(cat, i, v) == [cat |-> cat, i |-> i, v |-> v]
SrcsFor(kind, i) ==
    LET cls == CompClass(kind, i)
        cats == CatsFor(kind, i) \cap Cats
        maxv == CHOOSE x \in Vals : \A y \in Vals : x >= y
    IN IF cls = "f"
         (* flags: two distinct caller flags (initially true and false), one const alias, one owned "missing" flag, *)
         (* so that two wrappers can differ in their flags                                                           *)
         THEN {Src("lv", j, 0) : j \in 1..NF} \cup {Src("clv", 1, 0), Src("pr", 0, 0)}
         ELSE {Src(cat, j, 0) : cat \in cats \cap VarCats, j \in 1..(IF NVar(cls) < MCVars THEN NVar(cls) ELSE MCVars)}
              \cup {Src(cat, 0, IF cls = "b" THEN 1 ELSE maxv) : cat \in cats \ VarCats}
C(c) == /\ c \in Classes
        /\ IF Staged
             THEN IF c \in {"make", "clone"} THEN NOps = 0 /\ Len(hist) < Depth ELSE NOps < Ops
             ELSE Len(hist) <= Depth
(* one named action per public call family, so that TLC's coverage reports each of them *)
AllForms == {"get", "cget", "rget", "rbind", "crget", "rconv", "rvbind", "conv", "cconv", "base", "deref", "cderef", "arrow",
             "lv", "clv", "rv", "crv", "free", "cfree", "rfree", "neg"}
AMake       == C("make") /\ \E k \in 1..NW, kind \in Kinds : \E via \in Vias(kind) :
                  \/ NComp(kind) = 1 /\ \E s1 \in SrcsFor(kind, 1) : Make(k, kind, via, <<s1>>)
                  \/ NComp(kind) = 2 /\ \E s1 \in SrcsFor(kind, 1), s2 \in SrcsFor(kind, 2) : Make(k, kind, via, <<s1, s2>>)
ADestroy    == C("life") /\ \E k \in 1..NW : Destroy(k)
AEndTemps   == C("life") /\ EndTemps
AWriteVar   == C("var") /\ \E cls \in VarClasses, i \in 1..MCVars, v \in {0} : i <= NVar(cls) /\ WriteVar(cls, i, v)
ARead       == C("read") /\ \E k \in 1..NW, form \in AllForms : Read(k, form)
AValueOr    == C("read") /\ \E k \in 1..NW, v \in Vals, d \in {"pr", "lv"}, form \in {"clv", "rv", "crv"} : ValueOr(k, v, d, form)
AAssign     == C("assign") /\ \E k \in 1..NW, v \in Vals \cup {0, 1}, cat \in {"lv", "rv"} : Assign(k, v, cat)
AAssignComp == C("assign") /\ \E k \in 1..NW, i \in 1..2, v \in Vals \cup {0, 1}, form \in {"lv", "rv"} : AssignComp(k, i, v, form)
ACopyW      == C("clone") /\ \E k, j \in 1..NW, form \in {"clv", "lv"} : CopyW(k, j, form)
AMoveW      == C("clone") /\ \E k, j \in 1..NW : MoveW(k, j)
ARelocW     == C("clone") /\ \E k, j \in 1..NW : RelocW(k, j)
AAssignW    == C("pair") /\ \E k, j \in 1..NW, mv \in {0, 1} : AssignW(k, j, mv)
ASwap       == C("pair") /\ \E k, j \in 1..NW, how \in {"member", "adl"} : Swap(k, j, how)
AEqual      == C("pair") /\ \E k, j \in 1..NW : Equal(k, j)
AAddrOf     == C("addr") /\ \E k \in 1..NW, form \in {"lv", "clv", "rv"}, wr \in {NoWrite, 0} \cup Vals : AddrOf(k, form, wr)
Next == AMake \/ ADestroy \/ AEndTemps \/ AWriteVar \/ ARead \/ AValueOr \/ AAssign \/ AAssignComp \/ ACopyW \/ AMoveW \/ ARelocW
        \/ AAssignW \/ ASwap \/ AEqual \/ AAddrOf

Spec == Init /\ [][Next]_vars

(* S->C: every transition TLC takes is written out as (path to the state, call) *)
Emit == EmitOn => PrintT("@E@" \o ToJson([p |-> payload, f |-> feat, h |-> hist, l |-> [op |-> last'.op, k |-> last'.k, a |-> last'.a]]))
(* random walks (-simulate): only the calls made in the last state of a walk are written out *)
EmitDeep == (EmitOn /\ Len(hist) = Depth) => PrintT("@E@" \o ToJson([p |-> payload, f |-> feat, h |-> hist, l |-> [op |-> last'.op, k |-> last'.k, a |-> last'.a]]))

----------------------------------------------------------------------------
(* Invariants and action properties of the specification itself: the property *)
(* restated over states, independently of the action definitions above.        *)
TypeOK ==
    /\ payload \in {"int", "counted", "moveonly"}
    /\ \A id \in CellIds : cell[id].val \in Nat /\ cell[id].live \in BOOLEAN
    /\ \A k \in 1..NW : w[k] = NoW \/
          (/\ w[k].kind \in AllKinds /\ Len(w[k].c) = NComp(w[k].kind)
           /\ \A i \in Comps(w[k]) : w[k].c[i].m \in {"ref", "own"} /\ w[k].c[i].id \in CellIds /\ w[k].c[i].wr \in BOOLEAN)

(* a wrapper never designates a dead object, never a caller temporary, and owned storage is private *)
NoDangling == \A k \in 1..NW : \A i \in Comps(w[k]) :
    /\ cell[w[k].c[i].id].live
    /\ w[k].c[i].id \notin TmpIds
    /\ IsOwn(w[k], i) <=> w[k].c[i].id = OId(k, i)
    /\ IsRef(w[k], i) => w[k].c[i].id \in {VId(CompClass(w[k].kind, i), n) : n \in 1..NVar(CompClass(w[k].kind, i))}
(* the caller's variables are never destroyed by a wrapper operation; owned cells live exactly with their wrapper *)
Lifetimes ==
    /\ \A id \in VarIds : cell[id].live
    /\ \A k \in 1..NW, i \in 1..2 : cell[OId(k, i)].live <=> (w[k] # NoW /\ i \in Comps(w[k]) /\ IsOwn(w[k], i))

(* made from an lvalue: designates that very object, and constructing it copied/moved nothing *)
LvalueAliases == [][
    (last'.op = "Make") =>
       LET k == last'.k  a == last'.a IN
       \A i \in 1..Len(a.s) :
          IF a.s[i].cat \in LvCats /\ ~(a.kind = "fs" /\ a.via = "diff")
            THEN /\ w'[k].c[i].m = "ref" /\ w'[k].c[i].id = VId(CompClass(a.kind, i), a.s[i].i)
                 /\ \/ cell'[w'[k].c[i].id] = cell[w'[k].c[i].id]
                    \/ \E j \in 1..Len(a.s) : j # i /\ a.s[j].cat = "xvar"       \* unless the caller also moved from it
                                               /\ VId(CompClass(a.kind, j), a.s[j].i) = w'[k].c[i].id
            ELSE (* made from an rvalue: a fresh object holding the source's value, not the source *)
                 /\ w'[k].c[i].m = "own" /\ w'[k].c[i].id \notin VarIds \cup TmpIds
                 /\ cell'[w'[k].c[i].id].val = (IF a.s[i].cat \in VarCats THEN cell[VId(CompClass(a.kind, i), a.s[i].i)].val ELSE a.s[i].v)
    ]_vars
NoCopyForLvalues == [][
    (last'.op = "Make" /\ \A i \in 1..Len(last'.a.s) : CompClass(last'.a.kind, i) \in {"x", "s"} => MakesRef(last'.a.kind, last'.a.via, last'.a.s[i]))
       => last'.res.ctor = "none" ]_vars

(* only construction and destruction change what a wrapper designates: assignment never rebinds *)
BindingOf(W) == [i \in Comps(W) |-> <<W.c[i].m, W.c[i].id>>]
NeverRebinds == [][
    \A k \in 1..NW : (~(last'.op \in {"Make", "Destroy", "CopyW", "MoveW", "RelocW"} /\ last'.k = k)) => w'[k] = w[k] ]_vars
(* copies designate the same referents *)
CopiesAlias == [][
    (last'.op \in {"CopyW", "MoveW", "RelocW"}) =>
       LET k == last'.k  j == last'.a.j IN
       \A i \in Comps(w[j]) : IF IsRef(w[j], i) THEN w'[k].c[i] = w[j].c[i]
                              ELSE w'[k].c[i].id = OId(k, i) /\ (last'.op = "CopyW" => cell'[OId(k, i)].val = cell[w[j].c[i].id].val)
    ]_vars
(* assignment through a reference closure changes exactly the designated object(s) *)
AssignWritesReferent == [][
    (last'.op = "Assign" /\ w[last'.k].kind \in {"cw", "cp", "pw", "br", "fs"}) =>
       /\ cell'[w[last'.k].c[1].id].val = last'.a.v
       /\ \A id \in CellIds \ {w[last'.k].c[1].id} : cell'[id] = cell[id] ]_vars
(* observers change nothing except possibly moving out of storage the call was entitled to consume *)
ObserversPure == [][
    (last'.op \in {"Read", "Equal", "ValueOr"}) => w' = w /\ \A id \in VarIds : cell'[id] = cell[id] ]_vars
(* when the caller's temporaries die nothing else changes *)
TempsIndependent == [][
    (last'.op = "EndTemps") => w' = w /\ \A id \in CellIds \ TmpIds : cell'[id] = cell[id] ]_vars
(* swap: the multiset of values is preserved, bindings unchanged *)
SwapExchanges == [][
    (last'.op = "Swap") =>
       LET k == last'.k  j == last'.a.j IN
       \A i \in Comps(w[k]) : (w[k].c[i].id # w[j].c[i].id) =>
           /\ cell'[w[k].c[i].id].val = cell[w[j].c[i].id].val
           /\ cell'[w[j].c[i].id].val = cell[w[k].c[i].id].val ]_vars
=============================================================================

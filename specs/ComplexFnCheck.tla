---------------------------- MODULE ComplexFnCheck ----------------------------
(* C->S for ComplexFn: every row of the table recorded from the real objects (the case; for each closure kind the     *)
(* result of the xtl call; the result of the same call of <complex> on std::complex<T>) is validated by TLC.          *)
(* "@BAD@" rows break the property; "@ORACLE@" rows mean this specification disagrees with std::complex itself         *)
(* (a bug of the specification: reported as a machinery error, never as a violation).                                  *)
EXTENDS ComplexFn, TLC, Json, IOUtils

VARIABLES c, bad
Table == ndJsonDeserialize(IOEnv.TABLE)

(* row.r is a sequence of [v |-> closure kinds with bit-identical results, z |-> that result] *)
Evaluated(row) == UNION {{row.r[g].v[j] : j \in 1..Len(row.r[g].v)} : g \in 1..Len(row.r)}
KeyOf(row) == [t |-> row.t, b |-> row.b, fn |-> row.fn, x |-> row.x, y |-> row.y]
Same(fn, exp, got) == IF fn \in OwnB THEN got = exp ELSE ResSame(exp, got)
Failures(row) ==
    LET cc == KeyOf(row) IN
    IF ~CaseOK(cc) THEN {[v |-> "-", got |-> "-", exp |-> "not a case of the specification"]}
    ELSE IF Evaluated(row) # Variants THEN {[v |-> "-", got |-> ToJson(Evaluated(row)), exp |-> "a result for each of val, ref, cref"]}
    ELSE LET exp == IF IsOwn(cc.fn) THEN Own(cc.fn, cc.x, cc.y) ELSE row.std IN
         {[v |-> ToJson(row.r[g].v), got |-> ToJson(row.r[g].z), exp |-> ToJson(exp)] : g \in {h \in 1..Len(row.r) : ~Same(cc.fn, exp, row.r[h].z)}}
OracleWrong(row) == LET cc == KeyOf(row) IN CaseOK(cc) /\ IsOwn(cc.fn) /\ ~Same(cc.fn, Own(cc.fn, cc.x, cc.y), row.std)

Init == \E i \in 1..Len(Table) :
            LET row == Table[i]  fl == Failures(row) IN
            /\ c = KeyOf(row) /\ bad = (fl # {})
            /\ (fl = {} \/ PrintT("@BAD@" \o ToJson([key |-> KeyOf(row), fails |-> fl])))
            /\ (~OracleWrong(row) \/ PrintT("@ORACLE@" \o ToJson([key |-> KeyOf(row), std |-> row.std])))
Next == UNCHANGED <<c, bad>>
Spec == Init /\ [][Next]_<<c, bad>>
Conforms == ~bad
=============================================================================

------------------------------ MODULE Base64Gen ------------------------------
(***************************************************************************)
(* C13, round 4: TLC enumerates the arguments of two families of COMPOSED   *)
(* calls over a reduced alphabet, classifies each by its shape, checks the  *)
(* L1 laws of the composition on it (Base64.tla: ReencodeLaws, ConcatLaws)  *)
(* and writes it out as a script case ("@E@" lines) that the harness        *)
(* executes on the real functions; Base64Check.tla then evaluates L1 and    *)
(* the same laws on what the real code returned.                            *)
(*                                                                          *)
(*  kind "R"  text t (EVERY text up to GenMaxText over GenText - the empty  *)
(*            one, only padding, padding in the middle, padding that is not *)
(*            the canonical one, a length that is not a multiple of 4, a    *)
(*            character outside the alphabet at every position):            *)
(*            d = base64decode(t); r = base64encode(d)                      *)
(*  kind "X"  byte strings a, b:  base64decode(base64encode(a) +            *)
(*            base64encode(b)), base64encode(a + b)                         *)
(* Every state is one case; Shape / XShape is the class the check counts    *)
(* (every class must be met: checks/c13.py).                                *)
(***************************************************************************)
EXTENDS Base64, Json, TLC

CONSTANTS GenText, GenMaxText, GenBytes, GenMaxBytes

VARIABLES kind, s, s2
vars == <<kind, s, s2>>

StringsUpTo(A, n) == UNION {[1..k -> A] : k \in 0..n}

Init == \/ kind = "R" /\ s \in StringsUpTo(GenText, GenMaxText) /\ s2 = <<>>
        \/ kind = "X" /\ s \in StringsUpTo(GenBytes, GenMaxBytes) /\ s2 \in StringsUpTo(GenBytes, GenMaxBytes)
Next == UNCHANGED vars
Spec == Init /\ [][Next]_vars

(* shape of a decoder text *)
StopKind(c) == IF c = 32 \/ c = 10 \/ c = 9 \/ c = 13 THEN "blank" ELSE IF c = 0 THEN "nul" ELSE IF c >= 128 THEN "high" ELSE "other"
Shape(t) ==
    LET n == AlphaRun(t) IN
    IF Len(t) = 0 THEN "empty"
    ELSE IF \A k \in 1..Len(t) : t[k] = Pad THEN "all-padding"
    ELSE IF n = Len(t) THEN (IF n % 4 = 0 THEN "whole-groups" ELSE "length-not-multiple-of-4")
    ELSE IF t[n + 1] = Pad THEN
         IF \E k \in (n + 2)..Len(t) : IsAlpha(t[k]) THEN "padding-in-the-middle"
         ELSE IF t = Encode(DecodePrefix(t)) THEN "canonical-padded"
         ELSE IF \A k \in (n + 1)..Len(t) : t[k] = Pad THEN "non-canonical-padding"
         ELSE "padding-then-other"
    ELSE "stops-at-" \o StopKind(t[n + 1])
Shapes == {"empty", "all-padding", "whole-groups", "length-not-multiple-of-4", "padding-in-the-middle", "canonical-padded",
           "non-canonical-padding", "padding-then-other", "stops-at-blank", "stops-at-high"}
XShape(a, b) == <<Len(a) % 3, Len(b) % 3>>

GenLaws == IF kind = "R" THEN ReencodeLaws(s) ELSE ConcatLaws(s, s2)

Emit == PrintT("@E@" \o ToJson(IF kind = "R"
                                 THEN [op |-> "R", t |-> s, cls |-> Shape(s), stop |-> AlphaRun(s) + 1, len |-> Len(s)]
                                 ELSE [op |-> "X", a |-> s, b |-> s2, cls |-> XShape(s, s2)]))
Inv == GenLaws /\ Emit

QuickText  == {65, 47, 61, 32, 128}             \* 'A' (value 0)  '/' (63)  '='  blank  0x80
QuickBytes == {0, 127, 128, 255}
FullText   == {65, 47, 103, 61, 32, 128, 0}     \* ... 'g' (32), NUL
FullBytes  == {0, 1, 127, 128, 255}
=============================================================================

SPECIFICATION SpecB
CONSTANTS
  Modes <- ThrowingM
  MaxN = 3
  MaxDepth = 2
  MaxE = 4
  Huge = {0, 1, 2}
  Kinds <- AllKinds
  Classes <- AllClasses
  EmitOps <- AllOps
ACTION_CONSTRAINT Emit
VIEW absvars

------------------------------ MODULE SpanMode ------------------------------
(***************************************************************************)
(* C16, the configuration axis: which contract-checking mode a translation *)
(* unit gets from the macros it defines before including xspan.hpp.         *)
(*                                                                          *)
(* A configuration is [req, ndebug, cpp]: the set of mode macros defined by *)
(* the user                                                                  *)
(*    "THROW"      TCB_SPAN_THROW_ON_CONTRACT_VIOLATION                      *)
(*    "TERMINATE"  TCB_SPAN_TERMINATE_ON_CONTRACT_VIOLATION                  *)
(*    "NONE"       TCB_SPAN_NO_CONTRACT_CHECKING                             *)
(* whether NDEBUG is defined, and the language level (14 or 17).            *)
(*                                                                          *)
(* L1 (Allowed): the property quantifies over {no checking, throwing        *)
(* contract checks} and says "when contract checking is enabled every       *)
(* out-of-range argument is rejected".  So a translation unit that asks for *)
(* exactly one mode must get that mode whatever NDEBUG and the language     *)
(* level are.  The property does not say which mode a unit gets that asks   *)
(* for nothing or for several modes at once: every mode is allowed there.   *)
(* Documented: what tcb::span documents for those cases (terminate unless   *)
(* NDEBUG is defined, then no checking); a deviation from it is reported    *)
(* as MODEL-DRIFT, never as a violation.                                    *)
(* L2 (Header): the #if cascade of xspan_impl.hpp lines 60-95, transcribed. *)
(***************************************************************************)
EXTENDS Integers, Sequences, FiniteSets, TLC, Json

Macros == {"THROW", "TERMINATE", "NONE"}
AllModes == {"unchecked", "throwing", "terminate"}
ModeOf(m) == CASE m = "THROW" -> "throwing" [] m = "TERMINATE" -> "terminate" [] m = "NONE" -> "unchecked"
Configs == [req : SUBSET Macros, ndebug : BOOLEAN, cpp : {14, 17}]

(* ---- L1 *)
Allowed(cfg) == IF Cardinality(cfg.req) = 1 THEN {ModeOf(m) : m \in cfg.req} ELSE AllModes
(* ---- the documented behaviour where the property is silent *)
Documented(cfg) ==
    IF cfg.req = {} THEN {IF cfg.ndebug THEN "unchecked" ELSE "terminate"}
    ELSE {ModeOf(m) : m \in cfg.req}              \* one of the modes that were asked for

(* ---- L2: the header.  Step 1 (lines 61-69): if none of the three macros is defined, define NONE when NDEBUG is *)
(* defined or the language is older than C++14, TERMINATE otherwise.  Step 2 (71-87): contract_violation throws   *)
(* if THROW is defined, else terminates if TERMINATE is defined, else does not exist.  Step 3 (89-95):            *)
(* TCB_SPAN_EXPECT checks unless NONE is defined.                                                                 *)
Defined(cfg) == IF cfg.req = {} THEN (IF cfg.ndebug \/ cfg.cpp < 14 THEN {"NONE"} ELSE {"TERMINATE"}) ELSE cfg.req
Handler(d) == IF "THROW" \in d THEN "throwing" ELSE IF "TERMINATE" \in d THEN "terminate" ELSE "none"
Header(cfg) == LET d == Defined(cfg) IN IF "NONE" \in d THEN "unchecked" ELSE Handler(d)

VARIABLE cfg
Init == cfg \in Configs
Next == UNCHANGED cfg
Spec == Init /\ [][Next]_cfg

(* the table, one JSON line per configuration, for the runner (which mode's scripts a build is given) *)
Row(c) == [req |-> c.req, ndebug |-> c.ndebug, cpp |-> c.cpp, allowed |-> Allowed(c), documented |-> Documented(c), header |-> Header(c)]
EmitTable == PrintT("@M@" \o ToJson(Row(cfg)))

(* ---- round 3: translation units compiled WITHOUT exception support (-fno-exceptions; the header then defines          *)
(* TCB_SPAN_NO_EXCEPTIONS).  Nothing can be thrown, so "rejected" can only mean: the call does not return (terminate).      *)
(* NxAllowed: a unit that asks for TERMINATE has contract checking enabled, so the statement demands the rejection           *)
(* (verdict); a unit that asks for THROW cannot have what it asks for: terminating, or not compiling at all, are the         *)
(* answers that produce no view outside the parent (advisory); NONE gives no checking; nothing / several: every mode.        *)
(* at() "throws for every index >= size()": without exceptions the only answer that does not hand out a reference outside   *)
(* the view is not to return, whatever the checking mode (advisory: the statement's quantifier has no such build).           *)
NxOutcomes == {"unchecked", "terminate", "does-not-compile"}
NxAllowed(c) == IF c.req = {"TERMINATE"} THEN {"terminate"}
                ELSE IF c.req = {"THROW"} THEN {"terminate", "does-not-compile"}
                ELSE IF c.req = {"NONE"} THEN {"unchecked"}
                ELSE NxOutcomes
NxAtAllowed(c) == IF "THROW" \in c.req THEN {"terminate", "does-not-compile"} ELSE {"terminate"}
NxVerdict(c) == c.req = {"TERMINATE"}
(* L2: the header.  With THROW among the defined macros the unit contains `throw` and std::logic_error without <stdexcept>:   *)
(* it does not compile.  Otherwise the cascade is the one above; at() has no check of its own left and forwards to            *)
(* operator[], which checks unless NONE is defined.                                                                            *)
NxHeader(c) == IF "THROW" \in Defined(c) THEN "does-not-compile" ELSE Header(c)
NxAtHeader(c) == NxHeader(c)
NxRow(c) == [req |-> c.req, ndebug |-> c.ndebug, cpp |-> c.cpp, allowed |-> NxAllowed(c), at |-> NxAtAllowed(c), verdict |-> NxVerdict(c),
             header |-> NxHeader(c), header_at |-> NxAtHeader(c)]
EmitNx == PrintT("@N@" \o ToJson(NxRow(cfg)))
(* the header satisfies the verdict rows; where it leaves the advisory rows is a finding the runner reports *)
NxHeaderRefinesVerdict == NxVerdict(cfg) => NxHeader(cfg) \in NxAllowed(cfg)
NxExplicitIndependent == cfg.req # {} => \A nd \in BOOLEAN, cp \in {14, 17} : NxHeader([cfg EXCEPT !.ndebug = nd, !.cpp = cp]) = NxHeader(cfg)

(* ---- checked by TLC on the 32 configurations *)
HeaderRefinesL1 == Header(cfg) \in Allowed(cfg)
HeaderAsDocumented == Header(cfg) \in Documented(cfg)
(* an explicit request is independent of NDEBUG and of the language level *)
ExplicitIndependent == cfg.req # {} =>
    \A nd \in BOOLEAN, cp \in {14, 17} : Header([cfg EXCEPT !.ndebug = nd, !.cpp = cp]) = Header(cfg)
(* every mode of the property's quantifier can be had, with and without NDEBUG *)
EveryModeReachable == \A m \in AllModes, nd \in BOOLEAN : \E c \in Configs : c.ndebug = nd /\ Cardinality(c.req) = 1 /\ Allowed(c) = {m}
=============================================================================

SPECIFICATION Spec
CONSTANTS
  MaxN = 3
  Steps = {1, 2}
  Cfgs <- AllCfgs
  WriteVals <- OneVal
  EmitOps <- NoEmit
VIEW absvars
INVARIANTS TypeOK Laws
PROPERTIES PostfixReturnsOld ObserversPure OnlyWritesWrite ExtAgrees ResultsInRange AlgoLaws ValueInitLaws

------------------------------ MODULE HalfTrans ------------------------------
(* C09, main clause: the correctly rounded binary16 value of the elementary    *)
(* functions at every binary16 argument, decided with the ball arithmetic of   *)
(* HalfReal.tla.  Written from the mathematical definitions (power series,     *)
(* argument-reduction identities); nothing is transcribed from xtl.            *)
(*                                                                             *)
(* For a finite non-zero half x, Eval(f, x, n) is                              *)
(*    [t |-> "ball", s, b, e] :  f(x) = (-1)^s * v * 2^e for a v in the ball b  *)
(*    [t |-> "bits", v]       :  the rounded result is the half v (overflow /  *)
(*                               underflow regions decided by a crude bound)   *)
(* Decide rounds both ends of the ball with Half!RoundPack: if they agree that *)
(* half is THE correctly rounded value; otherwise the evaluation is repeated   *)
(* with NHi limbs, and if the ends still differ both neighbours are accepted   *)
(* (reported through PrintT as UNDECIDED and counted by the check).  None of   *)
(* the functions below takes a rational value at a non-trivial binary16        *)
(* argument (Lindemann-Weierstrass; exp2 / log2 / log10: only at the points    *)
(* Half!Special1 lists), so a rounding boundary is never hit exactly.          *)
EXTENDS Half, HalfReal

Res(s, b, e)  == [t |-> "ball", s |-> (s + b.s) % 2, b |-> b, e |-> e]
ResBits(v)    == [t |-> "bits", s |-> 0, b |-> BZero, e |-> 0, v |-> v]

(* |x| for finite x, exactly, with n fraction limbs (n >= 3) *)
XFix(h, n) == [s |-> 0, m |-> NShl(NFromInt(NMant(h)), 14 * n + NExp(h)), r |-> 0]
XTop(h)    == NExp(h) + 11                        \* 2^(XTop-1) <= |x| < 2^XTop
(* x^2 (a ball of radius <= 1; exact while 14 n + 2 NExp >= 0) *)
XSquare(h, n) == LET k == 14 * n + 2 * NExp(h)  mm == NFromInt(NMant(h) * NMant(h)) IN
                 IF k >= 0 THEN [s |-> 0, m |-> NShl(mm, k), r |-> 0] ELSE Ball(0, NShr(mm, -k), 1)
(* 1 / |x| for |x| >= 1 *)
XInv(h, n) == IF NExp(h) < 0 THEN BRat(Pow2(-NExp(h)), NMant(h), n) ELSE BRat(1, NMant(h) * Pow2(NExp(h)), n)
BSInt(v, n) == IF v < 0 THEN BNeg(BInt(-v, n)) ELSE BInt(v, n)
BFloor(x, n) == NToInt(NDrop(x.m, n))             \* integer part of the centre (< 2^28)
BFrac(x, n)  == Ball(0, SubSeq(x.m, 1, Min(n, Len(x.m))), x.r)

(* ------------------------------------------------------------------ exp *)
(* e^x = y * 2^k with y in about [1, 2]: [b, k]; |x| < 32 *)
ExpParts(h, neg, n) ==
    LET X  == XFix(h, n)
        k0 == BFloor(BMul(X, InvLn2(n), n), n)
        z0 == BSub(X, BMulSmall(Ln2(n), k0))
        dn == z0.s = 1 /\ ~NIsZero(z0.m)
        up == ~dn /\ NCmp(z0.m, Ln2(n).m) >= 0
        k1 == IF dn THEN k0 - 1 ELSE IF up THEN k0 + 1 ELSE k0
        z  == IF dn THEN BAdd(z0, Ln2(n)) ELSE IF up THEN BSub(z0, Ln2(n)) ELSE z0     \* |x| = k1 log 2 + z, 0 <= z <= log 2 (centre)
    IN  IF ~neg THEN [b |-> ExpSeries(z, n), k |-> k1]
        ELSE [b |-> ExpSeries(BSub(Ln2(n), z), n), k |-> -(k1 + 1)]
ExpEval(h, n) ==
    IF XTop(h) >= 6 THEN ResBits(IF SignOf(h) = 0 THEN PosInf ELSE PosZero)      \* e^32 > 65520, e^-32 < 2^-25
    ELSE LET p == ExpParts(h, SignOf(h) = 1, n) IN Res(0, p.b, p.k - 14 * n)

Exp2Eval(h, n) ==
    IF XTop(h) >= 6 THEN ResBits(IF SignOf(h) = 0 THEN PosInf ELSE PosZero)
    ELSE LET X  == XFix(h, n)
             k  == BFloor(X, n)
             f  == BFrac(X, n)
             fz == NIsZero(f.m)
             neg == SignOf(h) = 1
             g  == IF neg /\ ~fz THEN BSub(BOne(n), f) ELSE f
             kk == IF ~neg THEN k ELSE IF fz THEN -k ELSE -(k + 1)
         IN  Res(0, ExpSeries(BMul(g, Ln2(n), n), n), kk - 14 * n)

(* expm1: x h(x) for |x| < 1/4, e^x - 1 in fixed point otherwise *)
Expm1Eval(h, n) ==
    LET sx == SignOf(h) IN
    IF XTop(h) <= -2 THEN Res(sx, BMulSmall(Expm1Series(BAbsS(XFix(h, n), sx), n), NMant(h)), NExp(h) - 14 * n)
    ELSE IF XTop(h) >= 6 THEN ResBits(IF sx = 0 THEN PosInf ELSE Neg(One))
    ELSE LET p == ExpParts(h, sx = 1, n) IN
         IF sx = 0 THEN (IF p.k >= 17 THEN ResBits(PosInf) ELSE Res(0, BSub(BShl(p.b, p.k), BOne(n)), -14 * n))      \* e^x >= 2^17 overflows
         ELSE Res(1, BSub(BOne(n), BShr(p.b, -p.k)), -14 * n)

(* sinh, cosh, tanh from e^|x| = a 2^k and e^-|x| = c 2^j *)
HypEval(f, h, n) ==
    LET sx == SignOf(h)  sodd == IF f = "cosh" THEN 0 ELSE sx IN
    IF XTop(h) >= 5 THEN ResBits(IF f = "tanh" THEN WithSign(sx, One) ELSE Inf(sodd))         \* |x| >= 16
    ELSE IF XTop(h) <= -2 /\ f # "cosh" THEN
         LET u == XSquare(h, n)
             S == TrigSerR(u, BOne(n), BOne(n), 1, n, TRUE, FALSE)
         IN  IF f = "sinh" THEN Res(sx, BMulSmall(S, NMant(h)), NExp(h) - 14 * n)
             ELSE Res(sx, BMulSmall(BDiv(S, TrigSerR(u, BOne(n), BOne(n), 1, n, FALSE, FALSE), n), NMant(h)), NExp(h) - 14 * n)
    ELSE LET P == ExpParts(h, FALSE, n)
             Q == ExpParts(h, TRUE, n)
             c == BShr(Q.b, P.k - Q.k)                                 \* e^-|x| in units of 2^P.k
         IN  IF f = "sinh" THEN Res(sx, BSub(P.b, c), P.k - 1 - 14 * n)
             ELSE IF f = "cosh" THEN Res(0, BAdd(P.b, c), P.k - 1 - 14 * n)
             ELSE Res(sx, BDiv(BSub(P.b, c), BAdd(P.b, c), n), -14 * n)

(* ------------------------------------------------------------------ log *)
(* log(a / b) = 2 atanh((a - b) / (a + b)) for naturals with 3/4 <= a/b <= 3/2, a + b < 2^24: a signed ball *)
LnRatio(a, b, n) ==
    LET u == BRat(Abs(a - b), a + b, n)
        v == BMulSmall(BMul(u, OddSeries(BMul(u, u, n), n, FALSE), n), 2)
    IN  IF a < b THEN BNeg(v) ELSE v
(* log of a natural 1 <= A < 2^22 *)
LnNat(A, n) ==
    LET L   == BitLen(A)
        big == 2 * A >= 3 * Pow2(L - 1)                                \* A / 2^(L-1) >= 3/2: use A / 2^L in [3/4, 1)
        t   == IF big THEN L ELSE L - 1
    IN  BAdd(BMulSmall(Ln2(n), t), LnRatio(A, Pow2(t), n))
(* log |x| for finite non-zero x *)
LnX(h, n) ==
    LET big == NMant(h) >= 1536
        t   == NExp(h) + 10 + (IF big THEN 1 ELSE 0)
        r   == LnRatio(NMant(h), IF big THEN 2048 ELSE 1024, n)
    IN  [k |-> t, r |-> r]                                            \* log|x| = t log 2 + r
LnXBall(h, n) == LET p == LnX(h, n) IN BAdd(IF p.k < 0 THEN BNeg(BMulSmall(Ln2(n), -p.k)) ELSE BMulSmall(Ln2(n), p.k), p.r)
LogEval(f, h, n) ==
    IF f = "log" THEN Res(0, LnXBall(h, n), -14 * n)
    ELSE IF f = "log10" THEN Res(0, BMul(LnXBall(h, n), InvLn10(n), n), -14 * n)
    ELSE LET p == LnX(h, n) IN Res(0, BAdd(BSInt(p.k, n), BMul(p.r, InvLn2(n), n)), -14 * n)
(* log of a positive ball 1/2 <= y < 8 whose radius is small *)
LnBall(y, n) ==
    LET L   == NBitLen(y.m) - 14 * n                                   \* 2^(L-1) <= y < 2^L
        top == NToInt(NShr(y.m, NBitLen(y.m) - 3))                     \* leading three bits: 4..7
        t   == IF top >= 6 THEN L ELSE L - 1                           \* y / 2^t in [3/4, 3/2)
        z   == BScale2(y, -t)
        one == BOne(n)
        u   == BDiv(BSub(z, one), BAdd(z, one), n)                     \* |u| <= 1/5
        v   == BMulSmall(BMul(u, OddSeries(BMul(u, u, n), n, FALSE), n), 2)
    IN  BAdd(IF t < 0 THEN BNeg(BMulSmall(Ln2(n), -t)) ELSE BMulSmall(Ln2(n), t), v)

Log1pEval(h, n) ==
    LET sx == SignOf(h) IN
    IF XTop(h) <= -3 THEN Res(sx, BMulSmall(Log1pSeries(BAbsS(XFix(h, n), sx), n), NMant(h)), NExp(h) - 14 * n)
    ELSE LET E == NExp(h)  M == NMant(h)
             A == IF E >= 0 THEN M * Pow2(E) + 1 ELSE IF sx = 0 THEN Pow2(-E) + M ELSE Pow2(-E) - M      \* 1 + x = A 2^min(E, 0)
             j == IF E >= 0 THEN 0 ELSE -E
         IN  Res(0, BSub(LnNat(A, n), BMulSmall(Ln2(n), j)), -14 * n)

(* ------------------------------------------------------------------ sin cos tan *)
(* |x| = (q + f) pi/2: x * (2/pi) is formed with n + 1 fraction limbs (exact multiplication by the significand and a shift) *)
TrigReduce(h, n) ==
    IF XTop(h) <= 0 THEN [q |-> 0, r |-> XFix(h, n)]
    ELSE LET y == BScale2(BMulSmall(TwoOverPiX(n), NMant(h)), NExp(h)) IN
         [q |-> BFloor(y, n + 1) % 4, r |-> BMul(BLessLimb(BFrac(y, n + 1)), PiHalf(n), n)]
ResUnd == [t |-> "ball", s |-> 0, b |-> [s |-> 0, m |-> << >>, r |-> 1], e |-> 0]        \* "nothing is known": Decide reports it as undecided
Vague(b, n) == NBitLen(b.m) < 20 \/ BitLen(b.r) + 2 * Max(0, 14 * n - NBitLen(b.m)) > 24       \* BRecip would overflow its radius
TrigEval(f, h, n) ==
    LET sx == SignOf(h) IN
    IF XTop(h) <= -4 /\ f # "cos" THEN
         LET u == XSquare(h, n)
             S == TrigSerR(u, BOne(n), BOne(n), 1, n, TRUE, TRUE)
         IN  IF f = "sin" THEN Res(sx, BMulSmall(S, NMant(h)), NExp(h) - 14 * n)
             ELSE Res(sx, BMulSmall(BDiv(S, TrigSerR(u, BOne(n), BOne(n), 1, n, FALSE, TRUE), n), NMant(h)), NExp(h) - 14 * n)
    ELSE LET rd == TrigReduce(h, n)
             u  == BMul(rd.r, rd.r, n)
             sn == BMul(rd.r, TrigSerR(u, BOne(n), BOne(n), 1, n, TRUE, TRUE), n)
             cs == TrigSerR(u, BOne(n), BOne(n), 1, n, FALSE, TRUE)
             q  == rd.q
         IN  IF f = "sin" THEN Res(sx, IF q = 0 THEN sn ELSE IF q = 1 THEN cs ELSE IF q = 2 THEN BNeg(sn) ELSE BNeg(cs), -14 * n)
             ELSE IF f = "cos" THEN Res(0, IF q = 0 THEN cs ELSE IF q = 1 THEN BNeg(sn) ELSE IF q = 2 THEN BNeg(cs) ELSE sn, -14 * n)
             ELSE IF Vague(IF (q % 2) = 0 THEN cs ELSE sn, n) THEN ResUnd
             ELSE Res(sx, IF (q % 2) = 0 THEN BDiv(sn, cs, n) ELSE BNeg(BDiv(cs, sn, n)), -14 * n)

(* ------------------------------------------------------------------ atan *)
(* atan(a / b) for naturals a <= b, a / b >= 1/32 (or a = 0), 8 b + 8 a < 2^24 *)
AtanRatio(a, b, n) ==
    LET k  == (16 * a + b) \div (2 * b)                                \* nearest eighth, 0..8
        p  == 8 * a - k * b
        u  == BRat(Abs(p), 8 * b + k * a, n)                           \* |(t - k/8) / (1 + t k/8)| <= 1/16
        au == BMul(u, OddSeries(BMul(u, u, n), n, TRUE), n)
    IN  BAdd(AtanEighth(k, n), IF p < 0 THEN BNeg(au) ELSE au)
(* atan of a ball 0 <= t <= 1 (centre), radius small *)
AtanBall01(t, n) ==
    LET k8 == BFloor(BMulSmall(t, 16), n)                              \* floor(16 t)
        k  == Min(8, (k8 + 1) \div 2)
        kb == BRat(k, 8, n)                                            \* exact
        u  == BDiv(BSub(t, kb), BAdd(BOne(n), BDivSmall(BMulSmall(t, k), 8)), n)
        au == BMul(u, OddSeries(BMul(u, u, n), n, TRUE), n)
    IN  BAdd(AtanEighth(k, n), au)
AtanAbs(h, n) ==
    LET NM == NMant(h)  NE == NExp(h) IN
    IF XTop(h) <= -4 THEN [b |-> BMulSmall(OddSeries(XSquare(h, n), n, TRUE), NM), e |-> NE - 14 * n]
    ELSE LET inv == XTop(h) >= 1 /\ ~(NM = 1024 /\ XTop(h) = 1)        \* |x| > 1
             a == IF ~inv THEN NM ELSE IF NE < 0 THEN Pow2(-NE) ELSE 1
             b == IF ~inv THEN Pow2(-NE) ELSE IF NE < 0 THEN NM ELSE NM * Pow2(NE)
             u == BRat(a, b, n)
             t == IF 32 * a < b THEN BMul(u, OddSeries(BMul(u, u, n), n, TRUE), n) ELSE AtanRatio(a, b, n)
         IN  [b |-> IF inv THEN BSub(PiHalf(n), t) ELSE t, e |-> -14 * n]
AtanEval(h, n) == LET p == AtanAbs(h, n) IN Res(SignOf(h), p.b, p.e)

(* ------------------------------------------------------------------ asin acos *)
(* g(w) = sum c_k w^k / (2k+1), c_k = (2k-1)!! / (2k)!!: asin u = u g(u^2), asinh u = u g(-u^2); 0 <= w <= 1/4 *)
RECURSIVE AsinSerR(_, _, _, _, _, _)
AsinSerR(w, p, acc, k, n, alt) ==
    LET p2 == BDivSmall(BMulSmall(BMul(p, w, n), 2 * k - 1), 2 * k)
        t2 == BDivSmall(p2, 2 * k + 1)
    IN  IF SmallTerm(p2) THEN Ball(acc.s, acc.m, acc.r + 2 * (1 + p2.r))
        ELSE IF k > MaxTerms THEN Assert(FALSE, "AsinSer: no convergence")
        ELSE AsinSerR(w, p2, BAdd(acc, IF alt /\ (k % 2) = 1 THEN BNeg(t2) ELSE t2), k + 1, n, alt)
AsinSeries(w, n, alt) == AsinSerR(w, BOne(n), BOne(n), 1, n, alt)

(* asin |x| for 1/16 <= |x| <= 1 as a ball; c = sqrt(1 - x^2) *)
AsinAbs(h, n) ==
    LET X == XFix(h, n) IN
    IF AbsOf(h) = One THEN PiHalf(n)
    ELSE LET c == BSqrt(BSub(BOne(n), XSquare(h, n)), n) IN
         IF NCmp(X.m, c.m) <= 0 THEN AtanBall01(BDiv(X, c, n), n) ELSE BSub(PiHalf(n), AtanBall01(BDiv(c, X, n), n))
AcosAbs(h, n) ==       \* acos |x| for 1/16 <= |x| < 1
    LET X == XFix(h, n)
        c == BSqrt(BSub(BOne(n), XSquare(h, n)), n)
    IN  IF NCmp(X.m, c.m) >= 0 THEN AtanBall01(BDiv(c, X, n), n) ELSE BSub(PiHalf(n), AtanBall01(BDiv(X, c, n), n))
AsinEval(h, n) ==
    IF XTop(h) <= -4 THEN Res(SignOf(h), BMulSmall(AsinSeries(XSquare(h, n), n, FALSE), NMant(h)), NExp(h) - 14 * n)
    ELSE Res(SignOf(h), AsinAbs(h, n), -14 * n)
AcosEval(h, n) ==
    IF XTop(h) <= -4 THEN Res(0, BAdd(PiHalf(n), BAbsS(BScale2(BMulSmall(AsinSeries(XSquare(h, n), n, FALSE), NMant(h)), NExp(h)), 1 - SignOf(h))), -14 * n)
    ELSE IF AbsOf(h) = One THEN Res(0, Pi(n), -14 * n)                 \* acos(-1)  (acos(1) is a special case)
    ELSE Res(0, IF SignOf(h) = 0 THEN AcosAbs(h, n) ELSE BSub(Pi(n), AcosAbs(h, n)), -14 * n)

(* ------------------------------------------------------------------ asinh acosh atanh *)
AsinhEval(h, n) ==
    LET sx == SignOf(h) IN
    IF XTop(h) <= -4 THEN Res(sx, BMulSmall(AsinSeries(XSquare(h, n), n, TRUE), NMant(h)), NExp(h) - 14 * n)
    ELSE IF XTop(h) <= 0 THEN Res(sx, LnBall(BAdd(XFix(h, n), BSqrt(BAdd(BOne(n), XSquare(h, n)), n)), n), -14 * n)
    ELSE LET t == XInv(h, n) IN       \* log|x| + log(1 + sqrt(1 + 1/x^2))
         Res(sx, BAdd(LnXBall(h, n), LnBall(BAdd(BOne(n), BSqrt(BAdd(BOne(n), BMul(t, t, n)), n)), n)), -14 * n)
AcoshEval(h, n) ==     \* x > 1
    IF XTop(h) <= 1 THEN      \* 1 < x < 2: x^2 - 1 exactly
         Res(0, LnBall(BAdd(XFix(h, n), BSqrt(BSub(XSquare(h, n), BOne(n)), n)), n), -14 * n)
    ELSE LET t == XInv(h, n) IN
         Res(0, BAdd(LnXBall(h, n), LnBall(BAdd(BOne(n), BSqrt(BSub(BOne(n), BMul(t, t, n)), n)), n)), -14 * n)
AtanhEval(h, n) ==     \* |x| < 1
    LET sx == SignOf(h) IN
    IF XTop(h) <= -3 THEN Res(sx, BMulSmall(OddSeries(XSquare(h, n), n, FALSE), NMant(h)), NExp(h) - 14 * n)
    ELSE LET j == -NExp(h)  M == NMant(h) IN          \* |x| = M / 2^j, 11 <= j <= 14
         Res(sx, BShr(BSub(LnNat(Pow2(j) + M, n), LnNat(Pow2(j) - M, n)), 1), -14 * n)

(* ------------------------------------------------------------------ dispatch *)
CRFunctions  == {"exp", "exp2", "log", "log10", "log2", "sin", "cos", "tan", "asin", "acos", "atan", "sinh", "cosh", "tanh", "asinh", "acosh", "atanh"}
Ulp1Functions == {"expm1", "log1p"}

Eval(f, h, n) ==
    CASE f = "exp"   -> ExpEval(h, n)
      [] f = "exp2"  -> Exp2Eval(h, n)
      [] f = "expm1" -> Expm1Eval(h, n)
      [] f \in {"log", "log10", "log2"} -> LogEval(f, h, n)
      [] f = "log1p" -> Log1pEval(h, n)
      [] f \in {"sin", "cos", "tan"} -> TrigEval(f, h, n)
      [] f = "atan"  -> AtanEval(h, n)
      [] f = "asin"  -> AsinEval(h, n)
      [] f = "acos"  -> IF IsZero(h) THEN Res(0, PiHalf(n), -14 * n) ELSE AcosEval(h, n)
      [] f \in {"sinh", "cosh", "tanh"} -> HypEval(f, h, n)
      [] f = "asinh" -> AsinhEval(h, n)
      [] f = "acosh" -> AcoshEval(h, n)
      [] f = "atanh" -> AtanhEval(h, n)

(* round w * 2^e (w a natural in limbs) to binary16 *)
RoundW(s, w, e) ==
    LET L == NBitLen(w) IN
    IF L = 0 THEN Zero(s)
    ELSE IF L <= 26 THEN RoundPack(s, NToInt(w), e, FALSE)
    ELSE RoundPack(s, NToInt(NShr(w, L - 26)), e + L - 26, NLowNonzero(w, L - 26))

(* [lo, hi]: the roundings of the two ends of the enclosure (lo = hi: decided); und: the sign is not decided *)
Decide(R) ==
    IF R.t = "bits" THEN [und |-> FALSE, lo |-> R.v, hi |-> R.v]
    ELSE LET rr == NFromInt(R.b.r) IN
         IF NCmp(R.b.m, rr) <= 0 THEN [und |-> TRUE, lo |-> 0, hi |-> 0]
         ELSE [und |-> FALSE, lo |-> RoundW(R.s, NSub(R.b.m, rr), R.e), hi |-> RoundW(R.s, NAdd(R.b.m, rr), R.e)]

Decided(d) == ~d.und /\ d.lo = d.hi
(* the verdict for f at a finite non-zero argument outside Special1's exact cases *)
Enclose(f, h) ==
    LET d1 == Decide(Eval(f, h, NLo)) IN
    IF Decided(d1) THEN d1 ELSE Decide(Eval(f, h, NHi))

(* the argument of f lies where Special1 states no exact requirement and the function is defined *)
SpecOf(f, h) == Special1(f, h)

(* does the recorded result r meet the specification: Special1 where it states one, the enclosure otherwise *)
MeetsReal(f, h, r) ==
    LET sp == Special1(f, h) IN
    IF sp.k # "any" THEN MeetsSpecial(sp, r)
    ELSE LET d == Enclose(f, h) IN
         IF Decided(d)
           THEN (IF f \in Ulp1Functions THEN ~IsNaN(r) /\ Abs(Ord(r) - Ord(d.lo)) <= 1
                 ELSE IF IsZero(d.lo) THEN IsZero(r) ELSE r = d.lo)
         ELSE PrintT(<< "UNDECIDED", f, h, d >>) /\
              (d.und \/ (~IsNaN(r) /\ LET slack == IF f \in Ulp1Functions THEN 1 ELSE 0 IN
                                      Ord(r) >= Min(Ord(d.lo), Ord(d.hi)) - slack /\ Ord(r) <= Max(Ord(d.lo), Ord(d.hi)) + slack))

(* what a counterexample shows *)
ExpectedReal(f, h) == LET sp == Special1(f, h) IN IF sp.k # "any" THEN sp ELSE Enclose(f, h)

=============================================================================

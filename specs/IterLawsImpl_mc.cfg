SPECIFICATION Spec
CONSTANTS
  MaxN = 3
  Steps = {1, 2}
  Impls <- AllImpls
  W = 3
  Mutant = "none"
VIEW absview
INVARIANTS RepInv ObserversAgree
PROPERTIES Refines

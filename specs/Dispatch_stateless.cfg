SPECIFICATION Spec
CONSTANTS
  Kinds <- KNone
  Arities = {1}
  NXs = {0}
  K = 1
  MaxHist = 0
  MaxCells = 0
  OpClasses <- OpsStateless
  EmitMode <- ModeEdges
  Plans <- NoPlans
CONSTRAINT Bound
ACTION_CONSTRAINT Emit
VIEW absvars
INVARIANTS TypeOK OutcomeOK

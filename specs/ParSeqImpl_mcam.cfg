SPECIFICATION Spec
CONSTANTS
  Cfgs <- CfgsSmall
  MaxLen = 2
  Vals = {0, 1}
  ArrayFlagsMove = TRUE
  ObserveMoved = FALSE
CONSTRAINT SizeBound
VIEW absview
INVARIANTS Lockstep EqAgrees
PROPERTIES Refines

---------------------------- MODULE MurmurImpl32 ----------------------------
(***************************************************************************)
(* L2 for C14, 32-bit platforms: the branch of xtl/xhash.hpp selected by    *)
(* INTPTR_MAX == INT32_MAX, transcribed from the code as a state machine.   *)
(* A 64-bit build never compiles this branch; the ILP32 build of the        *)
(* conformance driver (harness/hash/driver32.cpp) runs it.                  *)
(*                                                                          *)
(*  murmur2_x64(buffer, length, uint64_t seed)                              *)
(*      = murmur_hash<8>(buffer, length, std::size_t seed)   (seed narrowed)*)
(*  mmix(h, k, m, r): k *= m; k ^= k >> r; k *= m; h *= m; h ^= k;          *)
(*  murmur_hash<8>:  m = 0x5bd1e995; r = 24; uint32_t l = length;           *)
(*      data = buffer; uint32_t h = seed;                                   *)
(*      while (length >= 4) { k = load32(data);    mmix(h,k,m,r);          *)
(*                            data += 4; length -= 4; }                     *)
(*      uint32_t t = 0;                                                     *)
(*      switch (length) { case 3: t ^= data[2] << 16;   (falls through)     *)
(*                        case 2: t ^= data[1] << 8;    (falls through)     *)
(*                        case 1: t ^= data[0]; }                           *)
(*      mmix(h,t,m,r); mmix(h,l,m,r);                                       *)
(*      h ^= h >> 13; h *= m; h ^= h >> 15;  return h;   (as std::size_t)   *)
(*  hash_bytes = murmur_hash<4> = murmur2_x86_impl: that loop is the "x86"  *)
(*  machine of MurmurImpl.tla and is not repeated here.                     *)
(*                                                                          *)
(* TLC checks (advisory, like every L2): the machine returns                *)
(* Murmur!X64OnILP32 (MurmurHash2A of the LOW HALF of the seed, 32 bits,    *)
(* zero-extended), dereferences exactly the key's bytes, terminates.        *)
(* It does NOT return MurmurHash64A, which is what the property statement   *)
(* demands of murmur2_x64 "for every input": IsMurmur64A below is violated  *)
(* (MurmurImpl32_vs64A.cfg, an expected counterexample recorded in the      *)
(* evidence; proposed fix C14-01).                                          *)
(***************************************************************************)
EXTENDS Murmur, Integers, TLC

CONSTANTS Keys, Seeds

VARIABLES key, seed,
          data,    \* offset of `data` from the buffer start
          length,  \* the remaining `length`
          h, t,    \* 4-digit words
          reads,   \* ghost: key indices (1-based) dereferenced so far
          pc
vars == <<key, seed, data, length, h, t, reads, pc>>

Byte4(b) == FromBytes(<<b>>, 4)

Init == /\ key \in Keys /\ seed \in Seeds
        /\ h = Low(seed, 4)                       \* uint64_t -> std::size_t -> uint32_t
        /\ length = Len(key) /\ data = 0 /\ t = ZeroW(4) /\ reads = {} /\ pc = "loop"

PBlock == /\ pc = "loop" /\ length >= 4
          /\ h' = Mmix(h, FromBytes(SubSeq(key, data + 1, data + 4), 4))
          /\ reads' = reads \cup (data + 1)..(data + 4)
          /\ data' = data + 4 /\ length' = length - 4
          /\ UNCHANGED <<key, seed, t, pc>>
Switch == /\ pc = "loop" /\ length < 4
          /\ pc' = CASE length = 3 -> "case3" [] length = 2 -> "case2" [] length = 1 -> "case1" [] OTHER -> "mixt"
          /\ UNCHANGED <<key, seed, data, length, h, t, reads>>
Case3  == /\ pc = "case3"
          /\ t' = XorW(t, ShlW(Byte4(key[data + 3]), 16))
          /\ reads' = reads \cup {data + 3}
          /\ pc' = "case2"
          /\ UNCHANGED <<key, seed, data, length, h>>
Case2  == /\ pc = "case2"
          /\ t' = XorW(t, ShlW(Byte4(key[data + 2]), 8))
          /\ reads' = reads \cup {data + 2}
          /\ pc' = "case1"
          /\ UNCHANGED <<key, seed, data, length, h>>
Case1  == /\ pc = "case1"
          /\ t' = XorW(t, Byte4(key[data + 1]))
          /\ reads' = reads \cup {data + 1}
          /\ pc' = "mixt"
          /\ UNCHANGED <<key, seed, data, length, h>>
MixT   == /\ pc = "mixt"
          /\ h' = Mmix(h, t)
          /\ pc' = "mixl"
          /\ UNCHANGED <<key, seed, data, length, t, reads>>
MixL   == /\ pc = "mixl"
          /\ h' = Mmix(h, FromNat(Len(key), 4))   \* l = the ORIGINAL length
          /\ pc' = "final"
          /\ UNCHANGED <<key, seed, data, length, t, reads>>
PFinal == /\ pc = "final"
          /\ h' = Final32(h)
          /\ pc' = "done"
          /\ UNCHANGED <<key, seed, data, length, t, reads>>

Next == PBlock \/ Switch \/ Case3 \/ Case2 \/ Case1 \/ MixT \/ MixL \/ PFinal
Spec == Init /\ [][Next]_vars
FairSpec == Spec /\ WF_vars(Next)

Refines     == pc = "done" => FromBytes(h, 8) = X64OnILP32(key, seed)
ReadsInside == /\ reads \subseteq 1..Len(key)
               /\ pc = "done" => reads = 1..Len(key)
TailIsLittleEndian == pc = "mixt" => t = TailWord32(key)
Terminates  == <>(pc = "done")
(* what the statement asks of murmur2_x64; violated by this branch (expected counterexample) *)
IsMurmur64A == pc = "done" => FromBytes(h, 8) = Murmur64A(key, seed)

Pattern(len_, v) == [i \in 1..len_ |-> CASE v = 0 -> 255
                                          [] v = 1 -> ((i * 37) + 1) % 256
                                          [] v = 2 -> IF i % 2 = 0 THEN 128 ELSE 0
                                          [] OTHER -> (i * 131 + 200) % 256]
PatternKeys(maxlen, vs) == {Pattern(m, v) : m \in 0..maxlen, v \in vs}
AllKeys(S, maxlen) == UNION {[1..m -> S] : m \in 0..maxlen}
KeysQ == PatternKeys(13, {0, 1, 2}) \cup AllKeys({127, 128}, 5)
KeysT == PatternKeys(41, {0, 1, 2, 3}) \cup AllKeys({0, 128, 255}, 7)
SeedsQ == {ZeroW(8), <<7, 105, 15, 199, 0, 0, 0, 0>>, [i \in 1..8 |-> 255], <<0, 0, 0, 0, 1, 0, 0, 0>>}
SeedsT == SeedsQ \cup {<<1, 0, 0, 0, 0, 0, 0, 0>>, <<0, 0, 0, 128, 0, 0, 0, 0>>, <<0, 0, 0, 0, 0, 0, 0, 128>>}
=============================================================================

SPECIFICATION Spec
CONSTANTS
  Ts <- AllTs
  FormsOn <- AllForms
  XVals <- XQuick
  CYs <- CYsQuick
  SYs <- SYsQuick
  STs <- AllSTs
  ScaleSet = "few"
INVARIANTS ExactLaws

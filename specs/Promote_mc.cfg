SPECIFICATION Spec
CONSTANTS
  P <- Measured
  MaxPack = 3
  MaxArgs = 3
INVARIANT TypeOK
ACTION_CONSTRAINT Emit

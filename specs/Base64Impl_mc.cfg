SPECIFICATION FairSpec
CONSTANTS
  ByteReps <- BoundaryBytes
  MaxLen = 3
  TextReps <- BoundaryText
  MaxText = 4
  IndexMode = "uchar"
INVARIANTS Refines Progress IndexInTable WindowInv
PROPERTY Terminates

SPECIFICATION FairSpec
CONSTANTS
  ByteReps <- BoundaryBytes
  MaxLen = 3
  TextReps <- BoundaryText
  MaxText = 4
  IndexMode = "uchar"
  ReadMode = "forward"
INVARIANTS Refines Progress IndexInTable WindowInv ReadsInInput ReadsPrefix
PROPERTY Terminates

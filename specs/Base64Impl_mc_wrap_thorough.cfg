SPECIFICATION FairSpec
CONSTANTS
  ByteReps <- WrapBytes
  MaxLen = 8
  TextReps <- WrapText
  MaxText = 9
  IndexMode = "uchar"
  ReadMode = "forward"
INVARIANTS Refines Progress IndexInTable WindowInv ReadsInInput ReadsPrefix
PROPERTY Terminates

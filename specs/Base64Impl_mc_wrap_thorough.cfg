SPECIFICATION FairSpec
CONSTANTS
  ByteReps <- WrapBytes
  MaxLen = 8
  TextReps <- WrapText
  MaxText = 9
  IndexMode = "uchar"
INVARIANTS Refines Progress IndexInTable WindowInv
PROPERTY Terminates

SPECIFICATION TSpec
CONSTANTS
  Kinds = {}
  Arities = {}
  NXs = {}
  K = 1
  MaxHist = 0
  HasErase = TRUE
  Copies = TRUE
  Mutation = "two_fresh"
POSTCONDITION TraceAccepted
CHECK_DEADLOCK FALSE

SPECIFICATION Spec
CONSTANTS
  Anys = {1, 2}
  Types = {"NC", "Sp", "Str", "CStr", "Nest"}
  Vals = {1, 2}
  Fuses = {0, 1}
  AFuses = {0, 1}
  InPlaceTypes = {"NC", "Sp", "CStr"}
  NothrowMove = {"NC", "Sp", "Str", "CStr", "Nest"}
  SelfSwapGuard = TRUE
  EmitMode = "all"
ACTION_CONSTRAINT Emit
VIEW absview
INVARIANTS RepInv
PROPERTIES Refines MovedFromIsEmpty

----------------------------- MODULE Base64Check -----------------------------
(***************************************************************************)
(* C13 conformance (C->S): validates a table recorded from the real         *)
(* xtl::base64encode / base64decode against Base64.tla.                     *)
(*                                                                          *)
(* The table (ndjson, env TRACE) has one line per script line:              *)
(*   {"op":"E","c":[[input, encode(input), decode(encode(input))], ...]}    *)
(*   {"op":"D","c":[[text, decode(text)], ...]}                             *)
(* Round 3, sweeps (one case = 256 calls, the byte / character at position  *)
(* pos of the case's string running over 0..255):                           *)
(*   {"op":"ES","pos":p,"c":[[input, [elen,p1,p2,dlen,dp, ... 256 x 5]], ...]}  *)
(*   {"op":"DS","pos":p,"c":[[text, [[lo,hi,v], ...]], ...]}   (run-length)    *)
(* Round 4, composed calls whose arguments TLC enumerated (Base64Gen.tla):   *)
(*   {"op":"R","c":[[t, decode(t), encode(decode(t))], ...]}                *)
(*   {"op":"X","c":[[a, b, decode(encode(a) + encode(b)), encode(a + b), encode(a)], ...]}  *)
(* checked against L1 AND against the closed forms of ReencodeLaws /        *)
(* ConcatLaws.                                                              *)
(* see harness/base64/driver.cpp for the packing; TLC evaluates L1 for each *)
(* of the 256 strings of a case.                                            *)
(* Every case is one TLC state <<l, j>> (line, case in line); the next      *)
(* state exists only if the recorded outputs are what L1 demands, so the    *)
(* search is a chain and its length is the number of accepted cases.  On    *)
(* the first rejected case the spec prints what it expected and stops.      *)
(* A line with any other op (e.g. the "Crash" event that ends the table     *)
(* when the harness died under a sanitizer) is rejected.                    *)
(***************************************************************************)
EXTENDS Base64, Json, IOUtils, TLC

VARIABLES l, j

Table == ndJsonDeserialize(IOEnv.TRACE)

Ops == {"E", "D", "ES", "DS", "R", "X"}

(* ---- packing used by the sweep ops (strings of at most 4 / 3 elements as numbers below 2^31) *)
Pack2(e, i)  == ByteOr0(e, i) * 256 + ByteOr0(e, i + 1)
PackBytes(d) == IF Len(d) = 0 THEN 0 ELSE IF Len(d) = 1 THEN d[1] ELSE IF Len(d) = 2 THEN d[1] * 256 + d[2]
                ELSE d[1] * 65536 + d[2] * 256 + d[3]                            \* Len(d) <= 3
Subst(t, p, v) == [t EXCEPT ![p] = v]
ESRow(s) == LET en == Encode(s) IN <<Len(en), Pack2(en, 1), Pack2(en, 3), Len(s), PackBytes(s)>>     \* encode, and decode(encode) = s
DSVal(t) == LET d == DecodePrefix(t) IN Len(d) * 16777216 + PackBytes(d)

ESGood(e, c, v) == LET x == ESRow(Subst(c[1], e.pos, v)) IN \A k \in 1..5 : c[2][5 * v + k] = x[k]
ESOK(e, c) == /\ e.pos \in 1..Len(c[1]) /\ Len(c[1]) <= 3 /\ Len(c[2]) = 1280
              /\ \A v \in 0..255 : ESGood(e, c, v)
Tiles(runs) == /\ Len(runs) >= 1 /\ runs[1][1] = 0 /\ runs[Len(runs)][2] = 255
               /\ \A k \in 1..Len(runs) : runs[k][1] <= runs[k][2]
               /\ \A k \in 1..(Len(runs) - 1) : runs[k + 1][1] = runs[k][2] + 1
DSOK(e, c) == /\ e.pos \in 1..Len(c[1]) /\ Len(c[1]) <= 5 /\ Tiles(c[2])
              /\ \A k \in 1..Len(c[2]) : \A v \in c[2][k][1]..c[2][k][2] : DSVal(Subst(c[1], e.pos, v)) = c[2][k][3]

(* second, independent route for an encoder case: the shape of the recorded output and L1's DECODER applied to it *)
ShapeOK(c) == /\ Len(c[2]) = EncLen(Len(c[1]))
              /\ AlphaRun(c[2]) = Len(c[2]) - ((3 - (Len(c[1]) % 3)) % 3)
              /\ \A i \in (AlphaRun(c[2]) + 1)..Len(c[2]) : c[2][i] = Pad
              /\ DecodePrefix(c[2]) = c[1]

(* round 4: composed calls *)
ROK(c) == LET t == c[1]
              n == AlphaRun(t) IN
          /\ c[2] = DecodePrefix(t)
          /\ c[3] = Encode(c[2])
          /\ Len(c[3]) = 4 * ((DecLen(n) + 2) \div 3)                          \* closed forms (ReencodeLaws) on the RECORDED values
          /\ \A i \in 1..((8 * Len(c[2])) \div 6) : i <= Len(c[3]) /\ c[3][i] = t[i]
          /\ n % 4 = 0 => c[3] = SubSeq(t, 1, n)
XOK(c) == LET a == c[1]
              b == c[2] IN
          /\ c[5] = Encode(a)
          /\ c[3] = DecodePrefix(Encode(a) \o Encode(b))
          /\ c[3] = (IF Len(a) % 3 = 0 THEN a \o b ELSE a)                     \* closed form (ConcatLaws)
          /\ c[4] = Encode(a \o b)
          /\ Len(a) % 3 = 0 => c[4] = c[5] \o Encode(b)

Expected(e, c) ==
    IF e.op = "E" THEN [encode |-> Encode(c[1]), decode_of_encode |-> c[1]]
    ELSE IF e.op = "D" THEN [decode |-> DecodePrefix(c[1])]
    ELSE IF e.op = "ES" THEN
         IF ~(e.pos \in 1..Len(c[1]) /\ Len(c[1]) <= 3 /\ Len(c[2]) = 1280) THEN [precondition |-> "malformed ES case"]
         ELSE LET v == CHOOSE v \in 0..255 : ~ESGood(e, c, v) IN
              [input |-> Subst(c[1], e.pos, v), elen_p1_p2_dlen_dp |-> ESRow(Subst(c[1], e.pos, v)), encode |-> Encode(Subst(c[1], e.pos, v))]
    ELSE IF e.op = "DS" THEN
         IF ~(e.pos \in 1..Len(c[1]) /\ Len(c[1]) <= 5 /\ Tiles(c[2])) THEN [runs_must_tile |-> <<0, 255>>]
         ELSE LET k == CHOOSE k \in 1..Len(c[2]) : \E v \in c[2][k][1]..c[2][k][2] : DSVal(Subst(c[1], e.pos, v)) # c[2][k][3]
                  v == CHOOSE v \in c[2][k][1]..c[2][k][2] : DSVal(Subst(c[1], e.pos, v)) # c[2][k][3] IN
              [text |-> Subst(c[1], e.pos, v), decode |-> DecodePrefix(Subst(c[1], e.pos, v))]
    ELSE IF e.op = "R" THEN [decode |-> DecodePrefix(c[1]), encode_of_decode |-> Encode(DecodePrefix(c[1]))]
    ELSE IF e.op = "X" THEN [decode_of_concatenated_encodings |-> DecodePrefix(Encode(c[1]) \o Encode(c[2])),
                             encode_of_concatenation |-> Encode(c[1] \o c[2]), encode_a |-> Encode(c[1])]
    ELSE [no_such_op |-> e.op]

CaseOK(e, c) ==
    \/ /\ e.op = "E"
       /\ c[2] = Encode(c[1])            \* RFC 4648 encoding
       /\ c[3] = c[1]                    \* base64decode(base64encode(s)) == s
       /\ Len(c[1]) <= 400 => ShapeOK(c)
    \/ /\ e.op = "D"
       /\ c[2] = DecodePrefix(c[1])
    \/ /\ e.op = "ES" /\ ESOK(e, c)
    \/ /\ e.op = "DS" /\ DSOK(e, c)
    \/ /\ e.op = "R" /\ ROK(c)
    \/ /\ e.op = "X" /\ XOK(c)

TInit == l = 1 /\ j = 1

TNext ==
    /\ l <= Len(Table)
    /\ LET e == Table[l] IN
        /\ IF e.op \in Ops /\ CaseOK(e, e.c[j])
             THEN TRUE
             ELSE PrintT(<<"REJECT", l, j, IF e.op \in Ops THEN Expected(e, e.c[j]) ELSE [no_such_op |-> e.op]>>) /\ FALSE
        /\ IF j < Len(e.c) THEN l' = l /\ j' = j + 1
                           ELSE l' = l + 1 /\ j' = 1

TSpec == TInit /\ [][TNext]_<<l, j>>
=============================================================================

----------------------------- MODULE Base64Check -----------------------------
(***************************************************************************)
(* C13 conformance (C->S): validates a table recorded from the real         *)
(* xtl::base64encode / base64decode against Base64.tla.                     *)
(*                                                                          *)
(* The table (ndjson, env TRACE) has one line per script line:              *)
(*   {"op":"E","c":[[input, encode(input), decode(encode(input))], ...]}    *)
(*   {"op":"D","c":[[text, decode(text)], ...]}                             *)
(* Every case is one TLC state <<l, j>> (line, case in line); the next      *)
(* state exists only if the recorded outputs are what L1 demands, so the    *)
(* search is a chain and its length is the number of accepted cases.  On    *)
(* the first rejected case the spec prints what it expected and stops.      *)
(* A line with any other op (e.g. the "Crash" event that ends the table     *)
(* when the harness died under a sanitizer) is rejected.                    *)
(***************************************************************************)
EXTENDS Base64, Json, IOUtils, TLC

VARIABLES l, j

Table == ndJsonDeserialize(IOEnv.TRACE)

Expected(e, c) ==
    IF e.op = "E" THEN [encode |-> Encode(c[1]), decode_of_encode |-> c[1]]
    ELSE IF e.op = "D" THEN [decode |-> DecodePrefix(c[1])]
    ELSE [no_such_op |-> e.op]

CaseOK(e, c) ==
    \/ /\ e.op = "E"
       /\ c[2] = Encode(c[1])            \* RFC 4648 encoding
       /\ c[3] = c[1]                    \* base64decode(base64encode(s)) == s
    \/ /\ e.op = "D"
       /\ c[2] = DecodePrefix(c[1])

TInit == l = 1 /\ j = 1

TNext ==
    /\ l <= Len(Table)
    /\ LET e == Table[l] IN
        /\ IF e.op \in {"E", "D"} /\ CaseOK(e, e.c[j])
             THEN TRUE
             ELSE PrintT(<<"REJECT", l, j, IF e.op \in {"E", "D"} THEN Expected(e, e.c[j]) ELSE [no_such_op |-> e.op]>>) /\ FALSE
        /\ IF j < Len(e.c) THEN l' = l /\ j' = j + 1
                           ELSE l' = l + 1 /\ j' = 1

TSpec == TInit /\ [][TNext]_<<l, j>>
=============================================================================

\* L1 theorems on every (tables, call) pair with two dispatcher objects and the copy operations: two classes
SPECIFICATION Spec
CONSTANTS
  Kinds <- KMapFast
  Arities = {1, 2}
  NXs = {0, 2}
  K = 2
  MaxHist = 100
  MaxCells = 3
  OpClasses <- OpsTableClone
  EmitMode <- ModeNone
  Plans <- NoPlans
CONSTRAINT Bound
VIEW absvars
INVARIANTS TypeOK OutcomeOK DispatchExact
PROPERTIES LookupsPure OneCell CopiesAreValues

SPECIFICATION TSpec
CONSTANTS
  Kinds = {}
  Arities = {}
  NXs = {}
  K = 1
  MaxHist = 0
  MaxCells = 0
  OpClasses = {}
  EmitMode = "none"
POSTCONDITION TraceAccepted
CHECK_DEADLOCK FALSE

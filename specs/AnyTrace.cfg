SPECIFICATION TSpec
CONSTANTS
  Anys = {1, 2, 3, 4, 5}
  Types = {"Small", "Big", "STM", "NC", "Int", "Str", "CStr", "Fn", "Sp", "Ov", "Nest", "Ov32", "Ov64", "P16", "P17", "Var", "Fs", "Opt"}
  Strict = FALSE
POSTCONDITION TraceAccepted
CHECK_DEADLOCK FALSE

SPECIFICATION TSpec
CONSTANTS
  Anys = {1, 2, 3}
  Types = {"Small", "Big", "STM"}
POSTCONDITION TraceAccepted
CHECK_DEADLOCK FALSE

SPECIFICATION TSpec
CONSTANTS
  Anys = {1, 2, 3, 4, 5}
  Types = {"Small", "Big", "STM", "NC", "Int", "Str", "CStr", "Fn", "Sp", "Ov", "Nest"}
POSTCONDITION TraceAccepted
CHECK_DEADLOCK FALSE

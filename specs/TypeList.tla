------------------------------ MODULE TypeList ------------------------------
(***************************************************************************)
(* L1 property specification for C18 (first half): the type-list algorithms *)
(* of xtl::mpl (xmeta_utils.hpp) compute "exactly what the corresponding    *)
(* sequence operation on the list of types computes".                       *)
(*                                                                          *)
(* Written from the property statement and the usual meaning of the         *)
(* sequence operations (Boost.MPL / mp11 vocabulary), not from xtl's code.  *)
(*                                                                          *)
(* A C++ type is a TERM [n |-> name, a |-> <<argument terms>>]: an atom of  *)
(* the alphabet is a term without arguments, W<A> is [n |-> "W", a |-> <<A>>]*)
(* and a type list L<T1,...,Tn> is simply the term [n |-> "L", a |-> <<T1,  *)
(* ..., Tn>>] -- so "the list of types" of the property is the field a, and  *)
(* the list template (mpl::vector, any other variadic class template) is n. *)
(*                                                                          *)
(* Every metafunction is one action; its template arguments are the action  *)
(* parameters; the ghost variable last records [op, a, res] where res is the *)
(* SEQUENCE OF ALLOWED RESULTS (one element wherever the property fixes the *)
(* answer; more where the statement leaves it open, see MergeSetAllowed).   *)
(* A behaviour is Init followed by one call: the metafunctions are pure, so  *)
(* the state space is the table (call, arguments) -> allowed results, which  *)
(* the runner turns into static_asserts on the real templates.              *)
(* SIZE_MAX cannot be written in TLC (32 bit integers): it is NPOS == -1.   *)
(***************************************************************************)
EXTENDS Integers, Sequences, FiniteSets, TLC, Json

CONSTANTS Atoms,      \* the alphabet, a sequence of distinct names, e.g. <<"A","B","C">>
          Probe,      \* an atom name that occurs in no list (searched for, pushed)
          MaxLen,     \* lists of every length 0..MaxLen over Atoms are enumerated
          MaxLen2,    \* bound on the second operand of merge_set
          LongLens,   \* additional list lengths (a few patterns each), e.g. 5..9
          Templates,  \* list templates, e.g. {"vector", "other"}
          MaxPush,    \* push_front/push_back take 0..MaxPush types
          MaxCases,   \* switch_ has 1..MaxCases cases before the default
          MaxComp,    \* two-deep compositions: every first operand of length 0..MaxComp (second operands: 0..3)
          MaxMerge    \* merge_set rows: Len(first) + Len(second) <= MaxMerge

VARIABLE last
vars == <<last>>

NPOS == -1

----------------------------------------------------------------------------
(* Terms *)
T(n)        == [n |-> n, a |-> <<>>]
Tm(n, args) == [n |-> n, a |-> args]
AtomSet     == {Atoms[i] : i \in DOMAIN Atoms}
AtomTerms   == {T(x) : x \in AtomSet}
IsAtom(t)   == t.a = <<>> /\ t.n \in AtomSet
AtomIdx(t)  == CHOOSE i \in DOMAIN Atoms : Atoms[i] = t.n

----------------------------------------------------------------------------
(* Sequence algebra on element sequences                                    *)
Has(s, x)      == \E i \in DOMAIN s : s[i] = x
FirstIdx(s, x) == CHOOSE i \in DOMAIN s : s[i] = x /\ \A j \in 1..(i - 1) : s[j] # x
IsSet(s)       == \A i, j \in DOMAIN s : i # j => s[i] # s[j]

RECURSIVE UniqueSeq(_)
UniqueSeq(s) == IF s = <<>> THEN <<>>
                ELSE LET r == UniqueSeq(SubSeq(s, 1, Len(s) - 1))
                         x == s[Len(s)]
                     IN IF Has(r, x) THEN r ELSE Append(r, x)

(* first occurrences, in order, of the elements of t that do not occur in s *)
RECURSIVE NewIn(_, _)
NewIn(s, t) == IF t = <<>> THEN <<>>
               ELSE LET r == NewIn(s, SubSeq(t, 1, Len(t) - 1))
                        x == t[Len(t)]
                    IN IF Has(s, x) \/ Has(r, x) THEN r ELSE Append(r, x)

----------------------------------------------------------------------------
(* Predicates (count_if, find_if): a predicate is the set of atom names on  *)
(* which it holds; it is false on every other type.                         *)
Holds(p, t) == t.a = <<>> /\ t.n \in p

(* Unary metafunctions (transform):                                         *)
(*   "W"      a class template: W<T>                                        *)
(*   "ptr"    std::add_pointer_t (an alias template, as in the upstream test)*)
(*   "rot"    an alias mapping each atom to the next one cyclically, other   *)
(*            types to themselves                                            *)
(*   "const1" an alias mapping everything to the first atom                  *)
(*   "W2"     a class template with a second, defaulted parameter: W2<T>     *)
(*   "tuple1" a variadic class template (std::tuple): std::tuple<T>          *)
Funs == {"W", "ptr", "rot", "const1", "W2", "tuple1"}
App(f, t) == CASE f = "W"      -> Tm("W", <<t>>)
               [] f = "W2"     -> Tm("W2", <<t>>)
               [] f = "tuple1" -> Tm("tuple", <<t>>)
               [] f = "ptr"    -> Tm("ptr", <<t>>)
               [] f = "rot"    -> IF IsAtom(t) THEN T(Atoms[(AtomIdx(t) % Len(Atoms)) + 1]) ELSE t
               [] f = "const1" -> T(Atoms[1])

(* Lazy operands of eval_if: id<X> has a member ::type = X; notype has none, *)
(* so asking for its ::type is ill-formed (no CASE arm: TLC would stop).    *)
Eval(z) == CASE z.n = "id" -> z.a[1]

----------------------------------------------------------------------------
(* The operations of the property, as functions on terms                    *)
Size(L)          == Len(L.a)
Empty(L)         == L.a = <<>>
Front(L)         == L.a[1]
Back(L)          == L.a[Len(L.a)]
PushFront(L, ts) == [L EXCEPT !.a = ts \o @]
PushBack(L, ts)  == [L EXCEPT !.a = @ \o ts]
PopFront(L)      == [L EXCEPT !.a = Tail(@)]
Count(L, v)      == Cardinality({i \in DOMAIN L.a : L.a[i] = v})
CountIf(L, p)    == Cardinality({i \in DOMAIN L.a : Holds(p, L.a[i])})
Contains(L, v)   == Has(L.a, v)
IndexOf(L, v)    == IF Has(L.a, v) THEN FirstIdx(L.a, v) - 1 ELSE NPOS
FindIf(p, L)     == IF \E i \in DOMAIN L.a : Holds(p, L.a[i])
                      THEN (CHOOSE i \in DOMAIN L.a : Holds(p, L.a[i]) /\ \A j \in 1..(i - 1) : ~Holds(p, L.a[j])) - 1
                      ELSE Len(L.a)
Transform(f, L)  == [L EXCEPT !.a = [i \in DOMAIN @ |-> App(f, @[i])]]
Cast(L, B)       == [L EXCEPT !.n = B]
SplitFirst(n, L) == SubSeq(L.a, 1, n)               \* element sequences: the property fixes only that they
SplitSecond(n, L) == SubSeq(L.a, n + 1, Len(L.a))   \* "concatenate back to the input"
Unique(L)        == [L EXCEPT !.a = UniqueSeq(@)]
MergeSet(L1, L2) == [L1 EXCEPT !.a = @ \o NewIn(@, L2.a)]
(* merge_set merges SETS.  When the first operand already has repetitions the *)
(* statement ("keep first occurrences in order") can be read as keeping the   *)
(* first operand as it is or as de-duplicating the whole: both are allowed.   *)
MergeSetAllowed(L1, L2) ==
    IF IsSet(L1.a) THEN <<MergeSet(L1, L2)>>
    ELSE <<MergeSet(L1, L2), [L1 EXCEPT !.a = UniqueSeq(@ \o L2.a)]>>
RECURSIVE SumSeq(_)
SumSeq(s)        == IF s = <<>> THEN 0 ELSE s[1] + SumSeq(Tail(s))
Plus(ns)         == SumSeq(ns)                                  \* mpl::plus<size_t_<n1>, ...>: the sum, 0 for no argument
IfT(b, t, f)     == IF b THEN t ELSE f
EvalIf(b, t, f)  == IF b THEN Eval(t) ELSE Eval(f)            \* the branch not selected is never evaluated
Switch(cs, d)    == IF \E i \in DOMAIN cs : cs[i].c
                      THEN cs[CHOOSE i \in DOMAIN cs : cs[i].c /\ \A j \in 1..(i - 1) : ~cs[j].c].t
                      ELSE d
(* static_if<c>(tf, ff): calls exactly the selected callable, once, and returns *)
(* what it returns (value and type, reference-ness preserved).                  *)
(* callable kinds: "int" (by value), "intref" (int&), "cref" (const int&), "str" (std::string), "nocopy" (a functor  *)
(* that can be neither copied nor moved and returns int: static_if must take its callables by reference)            *)
RetKind(k) == IF k = "nocopy" THEN "int" ELSE k
StaticIf(c, t, f) == [val |-> IF c THEN t.val ELSE f.val, rt |-> RetKind(IF c THEN t.rt ELSE f.rt),
                      tcalls |-> IF c THEN 1 ELSE 0, fcalls |-> IF c THEN 0 ELSE 1]


----------------------------------------------------------------------------
(* Round 3: compositions two deep.  The result of a metafunction is a type   *)
(* list (or a type) like any other, so "for every type list" covers the      *)
(* output of another metafunction: the composition on the real templates     *)
(* must equal the composition of the models.  Where the inner call has more  *)
(* than one allowed result (merge_set with a repeated first operand) the     *)
(* outer model is applied to each.                                           *)
Range(s)   == {s[i] : i \in DOMAIN s}
RECURSIVE SetToSeq(_)
SetToSeq(S) == IF S = {} THEN <<>> ELSE LET x == CHOOSE y \in S : TRUE IN <<x>> \o SetToSeq(S \ {x})
UniqueMerge(L1, L2)        == {Unique(m) : m \in Range(MergeSetAllowed(L1, L2))}
SizeMerge(L1, L2)          == {Size(m) : m \in Range(MergeSetAllowed(L1, L2))}
MergeUnique(L1, L2)        == MergeSet(Unique(L1), Unique(L2))
IndexOfTransform(f, L, v)  == IndexOf(Transform(f, L), App(f, v))      \* v is the pre-image: the value searched for is f<v>
CountTransform(f, L, v)    == Count(Transform(f, L), App(f, v))
TransformTransform(f, g, L) == Transform(f, Transform(g, L))
UniqueTransform(f, L)      == Unique(Transform(f, L))
FindIfUnique(p, L)         == FindIf(p, Unique(L))
IndexOfUnique(L, v)        == IndexOf(Unique(L), v)
ContainsPopFront(L, v)     == Contains(PopFront(L), v)
CastTransform(f, L, B)     == Cast(Transform(f, L), B)
UniquePush(L, ts)          == Unique(PushBack(L, ts))
----------------------------------------------------------------------------
(* Argument domains of the model checker                                    *)
SeqsUpTo(S, n) == UNION {[1..m -> S] : m \in 0..n}
(* a few patterns for each longer length: exercise the recursive cases       *)
Pattern(n, k, d) == [i \in 1..n |-> T(Atoms[(((i - 1) * k + d) % Len(Atoms)) + 1])]
LongSeqs   == {Pattern(n, k, d) : n \in LongLens, k \in 0..2, d \in 0..1}
ElemSeqs   == SeqsUpTo(AtomTerms, MaxLen) \cup LongSeqs
Lists      == {Tm(tm, s) : tm \in Templates, s \in ElemSeqs}
Lists2(tm) == {Tm(tm, s) : s \in SeqsUpTo(AtomTerms, MaxLen2)}
Values     == AtomTerms \cup {T(Probe)}
Preds      == SUBSET AtomSet
PushArgs   == SeqsUpTo({T(Atoms[1]), T(Atoms[Len(Atoms)]), T(Probe)}, MaxPush)
CastTo     == {"vector", "other", "tuple"}
Lazy       == {Tm("id", <<t>>) : t \in AtomTerms} \cup {T("notype")}
Cases      == UNION {[1..m -> [c : BOOLEAN, t : AtomTerms]] : m \in 1..MaxCases}
Callables  == {[val |-> 10, rt |-> "int"], [val |-> 20, rt |-> "intref"], [val |-> 30, rt |-> "str"],
               [val |-> 40, rt |-> "cref"], [val |-> 50, rt |-> "nocopy"]}
CompLists      == {Tm(tm, s) : tm \in Templates, s \in SeqsUpTo(AtomTerms, MaxComp)}
CompLists2(tm) == {Tm(tm, s) : s \in SeqsUpTo(AtomTerms, 3)}
(* std::add_pointer_t is a term constructor here, but NOT injective on C++ types (int and a reference to int both give pointer to int): rows *)
(* whose answer depends on whether two transformed elements are the same type leave it out.                        *)
EqFuns         == Funs \ {"ptr"}
InjFuns        == {"W", "W2", "tuple1", "rot"}                 \* injective on Values, in the model and in C++

----------------------------------------------------------------------------
(* Actions: one per metafunction                                            *)
Call(op, args, allowed) == last' = [op |-> op, a |-> args, res |-> allowed]
One(x) == <<x>>

DoSize(L)           == Call("Size", [l |-> L], One(Size(L)))
DoEmpty(L)          == Call("Empty", [l |-> L], One(Empty(L)))
DoFront(L)          == L.a # <<>> /\ Call("Front", [l |-> L], One(Front(L)))
DoBack(L)           == L.a # <<>> /\ Call("Back", [l |-> L], One(Back(L)))
DoPushFront(L, ts)  == Call("PushFront", [l |-> L, ts |-> ts], One(PushFront(L, ts)))
DoPushBack(L, ts)   == Call("PushBack", [l |-> L, ts |-> ts], One(PushBack(L, ts)))
DoPopFront(L)       == L.a # <<>> /\ Call("PopFront", [l |-> L], One(PopFront(L)))
DoCount(L, v)       == Call("Count", [l |-> L, v |-> v], One(Count(L, v)))
DoCountIf(L, p)     == Call("CountIf", [l |-> L, p |-> p], One(CountIf(L, p)))
DoContains(L, v)    == Call("Contains", [l |-> L, v |-> v], One(Contains(L, v)))
DoIndexOf(L, v)     == Call("IndexOf", [l |-> L, v |-> v], One(IndexOf(L, v)))
DoFindIf(p, L)      == Call("FindIf", [l |-> L, p |-> p], One(FindIf(p, L)))
DoTransform(f, L)   == Call("Transform", [l |-> L, f |-> f], One(Transform(f, L)))
DoCast(L, B)        == Call("Cast", [l |-> L, b |-> B], One(Cast(L, B)))
DoSplit(n, L)       == n <= Len(L.a) /\
                       Call("Split", [l |-> L, n |-> n], One([first |-> SplitFirst(n, L), second |-> SplitSecond(n, L)]))
DoUnique(L)         == Call("Unique", [l |-> L], One(Unique(L)))
DoMergeSet(L1, L2)  == L1.n = L2.n /\ (Len(L1.a) + Len(L2.a) <= MaxMerge \/ Len(L1.a) > MaxLen) /\ Call("MergeSet", [l |-> L1, l2 |-> L2], MergeSetAllowed(L1, L2))
DoPlus(ns)          == Call("Plus", [ns |-> ns], One(Plus(ns)))
DoIf(b, t, f)       == Call("If", [b |-> b, t |-> t, f |-> f], One(IfT(b, t, f)))
DoEvalIf(b, t, f)   == (IF b THEN t ELSE f).n = "id" /\
                       Call("EvalIf", [b |-> b, t |-> t, f |-> f], One(EvalIf(b, t, f)))
DoSwitch(cs, d)     == Call("Switch", [cases |-> cs, d |-> d], One(Switch(cs, d)))
(* form: "tmpl" = static_if<c>(tf, ff), "tag" = static_if(std::integral_constant<bool, c>(), tf, ff) *)
DoStaticIf(c, form, t, f) == Call("StaticIf", [c |-> c, form |-> form, t |-> t, f |-> f], One(StaticIf(c, t, f)))

(* compositions *)
DoUniqueMerge(L1, L2)       == L1.n = L2.n /\ Call("UniqueMerge", [l |-> L1, l2 |-> L2], SetToSeq(UniqueMerge(L1, L2)))
DoSizeMerge(L1, L2)         == L1.n = L2.n /\ Call("SizeMerge", [l |-> L1, l2 |-> L2], SetToSeq(SizeMerge(L1, L2)))
DoMergeUnique(L1, L2)       == L1.n = L2.n /\ Call("MergeUnique", [l |-> L1, l2 |-> L2], One(MergeUnique(L1, L2)))
DoIndexOfTransform(f, L, v) == Call("IndexOfTransform", [l |-> L, f |-> f, v |-> v], One(IndexOfTransform(f, L, v)))
DoCountTransform(f, L, v)   == Call("CountTransform", [l |-> L, f |-> f, v |-> v], One(CountTransform(f, L, v)))
DoTransformTransform(f, g, L) == Call("TransformTransform", [l |-> L, f |-> f, g |-> g], One(TransformTransform(f, g, L)))
DoUniqueTransform(f, L)     == Call("UniqueTransform", [l |-> L, f |-> f], One(UniqueTransform(f, L)))
DoFindIfUnique(p, L)        == Call("FindIfUnique", [l |-> L, p |-> p], One(FindIfUnique(p, L)))
DoIndexOfUnique(L, v)       == Call("IndexOfUnique", [l |-> L, v |-> v], One(IndexOfUnique(L, v)))
DoContainsPopFront(L, v)    == L.a # <<>> /\ Call("ContainsPopFront", [l |-> L, v |-> v], One(ContainsPopFront(L, v)))
DoCastTransform(f, L, B)    == Call("CastTransform", [l |-> L, f |-> f, b |-> B], One(CastTransform(f, L, B)))
DoUniquePush(L, ts)         == Call("UniquePush", [l |-> L, ts |-> ts], One(UniquePush(L, ts)))
DoFrontPopFront(L)          == Len(L.a) >= 2 /\ Call("FrontPopFront", [l |-> L], One(Front(PopFront(L))))
DoBackPushBack(L, ts)       == ts # <<>> /\ Call("BackPushBack", [l |-> L, ts |-> ts], One(Back(PushBack(L, ts))))
DoPopPush(L, ts)            == Len(ts) = 1 /\ Call("PopPush", [l |-> L, ts |-> ts], One(PopFront(PushFront(L, ts))))
(* advisory (not named by the statement): void_t<T...> is void for every pack; the TYPE of the value members *)
DoVoidT(L)                  == Call("VoidT", [l |-> L], One(T("void")))
DoValueKind(L)              == Call("ValueKind", [l |-> L], One([sizes |-> "size_t", bools |-> "bool"]))
DoPlusMixed(bs, ns)         == Call("PlusMixed", [bs |-> bs, ns |-> ns], One(SumSeq(ns) + Cardinality({i \in DOMAIN bs : bs[i]})))

Init == last = [op |-> "Init", a |-> [z |-> 0], res |-> <<>>]

Next == /\ last.op = "Init"
        /\ \/ \E L \in Lists :
                 \/ DoSize(L) \/ DoEmpty(L) \/ DoFront(L) \/ DoBack(L) \/ DoPopFront(L) \/ DoUnique(L)
                 \/ \E ts \in PushArgs : DoPushFront(L, ts) \/ DoPushBack(L, ts)
                 \/ \E v \in Values : DoCount(L, v) \/ DoContains(L, v) \/ DoIndexOf(L, v)
                 \/ \E p \in Preds : DoCountIf(L, p) \/ DoFindIf(p, L)
                 \/ \E f \in Funs : DoTransform(f, L)
                 \/ \E B \in CastTo : DoCast(L, B)
                 \/ \E n \in 0..Len(L.a) : DoSplit(n, L)
                 \/ \E L2 \in Lists2(L.n) : DoMergeSet(L, L2)
           \/ \E L \in CompLists :
                 \/ DoFrontPopFront(L) \/ DoVoidT(L) \/ DoValueKind(L)
                 \/ \E L2 \in CompLists2(L.n) : DoUniqueMerge(L, L2) \/ DoSizeMerge(L, L2) \/ DoMergeUnique(L, L2)
                 \/ \E f \in EqFuns, v \in Values : DoIndexOfTransform(f, L, v) \/ DoCountTransform(f, L, v)
                 \/ \E f, g \in Funs : DoTransformTransform(f, g, L)
                 \/ \E f \in EqFuns : DoUniqueTransform(f, L)
                 \/ \E f \in Funs, B \in CastTo : DoCastTransform(f, L, B)
                 \/ \E p \in Preds : DoFindIfUnique(p, L)
                 \/ \E v \in Values : DoIndexOfUnique(L, v) \/ DoContainsPopFront(L, v)
                 \/ \E ts \in PushArgs : DoUniquePush(L, ts) \/ DoBackPushBack(L, ts) \/ DoPopPush(L, ts)
           \/ \E bs \in SeqsUpTo(BOOLEAN, 2), ns \in SeqsUpTo({0, 7}, 2) : DoPlusMixed(bs, ns)
           \/ \E ns \in SeqsUpTo({0, 1, 7}, IF MaxLen > 4 THEN 4 ELSE MaxLen) : DoPlus(ns)
           \/ \E b \in BOOLEAN, t, f \in AtomTerms : DoIf(b, t, f)
           \/ \E b \in BOOLEAN, t, f \in Lazy : DoEvalIf(b, t, f)
           \/ \E cs \in Cases, d \in AtomTerms : DoSwitch(cs, d)
           \/ \E c \in BOOLEAN, form \in {"tmpl", "tag"}, t, f \in Callables : DoStaticIf(c, form, t, f)

Spec == Init /\ [][Next]_vars

(* S->C: every call of the table is written out as one JSON line *)
Emit == PrintT("@E@" \o ToJson(last'))

----------------------------------------------------------------------------
(* Theorems of the specification itself (they guard the oracle); TLC checks *)
(* them as invariants over every enumerated call.                           *)
TypeOK == /\ last.op \in STRING
          /\ Len(last.res) \in {0, 1, 2}

ListLaws ==
    \A L \in Lists :
        /\ Size(L) = 0 <=> Empty(L)
        /\ Unique(Unique(L)) = Unique(L)
        /\ IsSet(Unique(L).a)
        /\ {Unique(L).a[i] : i \in DOMAIN Unique(L).a} = {L.a[i] : i \in DOMAIN L.a}
        /\ Unique(L) = MergeSet(Tm(L.n, <<>>), L)                     \* unique == merge into the empty set
        /\ \A n \in 0..Len(L.a) : /\ SplitFirst(n, L) \o SplitSecond(n, L) = L.a   \* split concatenates back
                                  /\ Len(SplitFirst(n, L)) = n
        /\ \A v \in Values : /\ Contains(L, v) <=> Count(L, v) > 0
                             /\ Contains(L, v) <=> IndexOf(L, v) # NPOS
                             /\ IndexOf(L, v) # NPOS => /\ L.a[IndexOf(L, v) + 1] = v
                                                        /\ \A j \in 1..IndexOf(L, v) : L.a[j] # v
                             /\ IsAtom(v) => /\ Count(L, v) = CountIf(L, {v.n})
                                             /\ (IndexOf(L, v) = NPOS => FindIf({v.n}, L) = Size(L))
                                             /\ (IndexOf(L, v) # NPOS => FindIf({v.n}, L) = IndexOf(L, v))
        /\ \A p \in Preds : /\ CountIf(L, p) + CountIf(L, AtomSet \ p) = Size(L)
                            /\ FindIf(p, L) <= Size(L)
                            /\ (FindIf(p, L) = Size(L)) <=> (CountIf(L, p) = 0)
        /\ \A ts \in PushArgs : /\ Size(PushBack(L, ts)) = Size(L) + Len(ts)
                                /\ ts # <<>> => Back(PushBack(L, ts)) = ts[Len(ts)] /\ Front(PushFront(L, ts)) = ts[1]
                                /\ Len(ts) = 1 => PopFront(PushFront(L, ts)) = L
        /\ \A f \in Funs : Size(Transform(f, L)) = Size(L)
        /\ Transform("rot", Transform("rot", Transform("rot", L))) = L \/ Len(Atoms) # 3
        /\ \A B \in CastTo : Cast(Cast(L, B), L.n) = L

MergeLaws ==
    \A L \in Lists : \A L2 \in Lists2(L.n) :
        LET M == MergeSet(L, L2) IN
        /\ SubSeq(M.a, 1, Len(L.a)) = L.a                            \* the first operand is a prefix
        /\ {M.a[i] : i \in DOMAIN M.a} = {L.a[i] : i \in DOMAIN L.a} \cup {L2.a[i] : i \in DOMAIN L2.a}
        /\ IsSet(L.a) => IsSet(M.a) /\ M.a = UniqueSeq(L.a \o L2.a)
        /\ IsSet(SubSeq(M.a, Len(L.a) + 1, Len(M.a)))

(* Round 3: laws of the compositions (they relate the composed models to the single ones) *)
CompLaws ==
    \A L \in CompLists :
        /\ \A f \in InjFuns : \A v \in Values :
              /\ IndexOfTransform(f, L, v) = IndexOf(L, v)               \* an injective f moves no position
              /\ CountTransform(f, L, v) = Count(L, v)
        /\ \A v \in Values : /\ CountTransform("const1", L, v) = Size(L)
                             /\ IndexOfTransform("const1", L, v) = (IF Empty(L) THEN NPOS ELSE 0)
                             /\ (IndexOfUnique(L, v) = NPOS) <=> (IndexOf(L, v) = NPOS)
                             /\ IndexOfUnique(L, v) <= IndexOf(L, v)
                             /\ L.a # <<>> => (Contains(L, v) <=> (ContainsPopFront(L, v) \/ Front(L) = v))
        /\ UniqueTransform("const1", L).a = (IF Empty(L) THEN <<>> ELSE <<T(Atoms[1])>>)
        /\ \A f \in InjFuns : UniqueTransform(f, L) = Transform(f, Unique(L))
        /\ \A f, g \in Funs : Size(TransformTransform(f, g, L)) = Size(L)
        /\ TransformTransform("const1", "W", L) = Transform("const1", L)
        /\ \A p \in Preds : /\ FindIfUnique(p, L) <= FindIf(p, L)
                            /\ (FindIfUnique(p, L) = Size(Unique(L))) <=> (FindIf(p, L) = Size(L))
        /\ \A ts \in PushArgs : UniquePush(L, ts) = MergeSet(Unique(L), Tm(L.n, ts))
        /\ \A L2 \in CompLists2(L.n) :
              /\ UniqueMerge(L, L2) = {Unique(PushBack(L, L2.a))}       \* whichever reading of merge_set: the same set
              /\ MergeUnique(L, L2) = Unique(PushBack(L, L2.a))
              /\ \A n \in SizeMerge(L, L2) : n <= Size(L) + Size(L2) /\ n >= Size(Unique(L))
              /\ IsSet(L.a) => SizeMerge(L, L2) = {Size(MergeUnique(L, L2))}

Laws == ListLaws /\ MergeLaws /\ CompLaws
=============================================================================

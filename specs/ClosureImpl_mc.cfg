SPECIFICATION Spec
CONSTANTS
  NX = 2
  NF = 2
  NB = 2
  NS = 1
  NW = 2
  NT = 1
  Vals <- V2
  Kinds <- K3
  Payloads <- PCounted
  FeatSets <- FBoth
  Cats <- CatsAll
  MCVars = 2
  Depth = 2
  Mutation = "none"
VIEW implview
INVARIANTS RepOK AbsInvariants ResultAllowed
PROPERTIES Refines

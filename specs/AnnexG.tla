------------------------------- MODULE AnnexG -------------------------------
(***************************************************************************)
(* L1 property specification for C10, second decidable part: with           *)
(* ieee_compliant = true, xcomplex multiplication and division obey C99     *)
(* Annex G for special operands.  Written from the property statement (and  *)
(* C99 G.3 / G.5.1), not from xtl's code.  Operator-only module.            *)
(*                                                                          *)
(* Every component of an operand or result is abstracted to a class:        *)
(*   nan, pinf, ninf, pz (+0), nz (-0), pfin (> 0, finite), nfin (< 0).     *)
(* A complex value is a pair <<re, im>> of classes.  Following G.3:         *)
(*   - an INFINITY is a value with at least one infinite part, even if the  *)
(*     other part is a NaN;                                                 *)
(*   - a value is FINITE if both parts are finite (neither infinite nor     *)
(*     NaN); a ZERO if both parts are zeros;                                *)
(*   - a NaN is a value with a NaN part that is not an infinity.            *)
(* The property's rules are an allowed-result relation: Allowed(op,x,y,r)   *)
(* holds iff class pair r is a permitted result class of x op y.  Where the *)
(* property says nothing (a NaN operand, infinity times zero, infinity over *)
(* infinity, zero over zero, the sign of anything) every class is allowed.  *)
(***************************************************************************)
EXTENDS Integers, Sequences, FiniteSets

Cls    == {"nan", "pinf", "ninf", "pz", "nz", "pfin", "nfin"}
ClsSeq == <<"nan", "pinf", "ninf", "pz", "nz", "pfin", "nfin">>    \* canonical order (table index)
CC     == Cls \X Cls

InfC(c)  == c \in {"pinf", "ninf"}
ZeroC(c) == c \in {"pz", "nz"}
FinC(c)  == c \in {"pz", "nz", "pfin", "nfin"}

IsInfinity(z)      == InfC(z[1]) \/ InfC(z[2])
IsFinite(z)        == FinC(z[1]) /\ FinC(z[2])
IsZero(z)          == ZeroC(z[1]) /\ ZeroC(z[2])
IsNaN(z)           == ~IsInfinity(z) /\ (z[1] = "nan" \/ z[2] = "nan")
IsNonZeroFinite(z) == IsFinite(z) /\ ~IsZero(z)
NZFinOrInf(z)      == IsNonZeroFinite(z) \/ IsInfinity(z)

(* a real operand is the complex value with a positive-zero imaginary part *)
Embed(c) == <<c, "pz">>

----------------------------------------------------------------------------
(* The rules, one per clause of the property statement.  Each yields the     *)
(* name of the clause when r breaks it.                                      *)
CoreOps == {"mul", "div"}

Broken(op, x, y, r) ==
    (IF op = "mul" /\ ((IsInfinity(x) /\ NZFinOrInf(y)) \/ (IsInfinity(y) /\ NZFinOrInf(x))) /\ ~IsInfinity(r)
       THEN {"an infinity times a non-zero finite value or an infinity is an infinity"} ELSE {})
    \cup
    (IF op = "div" /\ IsInfinity(x) /\ IsFinite(y) /\ ~IsInfinity(r)
       THEN {"an infinity divided by a finite value is an infinity"} ELSE {})
    \cup
    (IF op = "div" /\ IsFinite(x) /\ IsInfinity(y) /\ ~IsZero(r)
       THEN {"a finite value divided by an infinity is a zero"} ELSE {})
    \cup
    (IF op = "div" /\ NZFinOrInf(x) /\ IsZero(y) /\ ~IsInfinity(r)
       THEN {"a non-zero finite value or an infinity divided by a zero is an infinity"} ELSE {})
    \cup
    (IF IsFinite(x) /\ IsFinite(y) /\ ~(op = "div" /\ IsZero(x) /\ IsZero(y)) /\ IsNaN(r)
       THEN {"finite operands never yield NaN except 0/0"} ELSE {})

Allowed(op, x, y, r) == Broken(op, x, y, r) = {}

(* the six operator forms of the real code and the operand pair of the relation they stand for:   *)
(*   mul: z * z'   div: z / z'   mulr: z * d   rmul: d * z   divr: z / d   rdiv: d / z            *)
(* (for the mixed forms the row's x is always the complex operand, y = Embed(class of d))          *)
Forms == {"mul", "div", "mulr", "rmul", "divr", "rdiv"}
CoreOf(f) == IF f \in {"mul", "mulr", "rmul"} THEN "mul" ELSE "div"
LeftOf(f, x, y)  == IF f \in {"rmul", "rdiv"} THEN y ELSE x
RightOf(f, x, y) == IF f \in {"rmul", "rdiv"} THEN x ELSE y

----------------------------------------------------------------------------
(* Theorems of the relation itself (checked by TLC over all 7^4 x 2 combinations).                 *)
Kinds(z) == {k \in {"infinity", "nan", "zero", "nzfinite"} :
               \/ (k = "infinity" /\ IsInfinity(z))
               \/ (k = "nan" /\ IsNaN(z))
               \/ (k = "zero" /\ IsZero(z))
               \/ (k = "nzfinite" /\ IsNonZeroFinite(z))}
Partition(z) == Cardinality(Kinds(z)) = 1             \* the four kinds partition all values
Satisfiable(op, x, y) == \E r \in CC : Allowed(op, x, y, r)   \* the clauses never contradict each other
MulSymmetric(x, y) == \A r \in CC : Allowed("mul", x, y, r) <=> Allowed("mul", y, x, r)
Flip(c) == CASE c = "pinf" -> "ninf" [] c = "ninf" -> "pinf" [] c = "pz" -> "nz" [] c = "nz" -> "pz"
             [] c = "pfin" -> "nfin" [] c = "nfin" -> "pfin" [] OTHER -> c
SignBlind(op, x, y) == \A r \in CC : Allowed(op, x, y, r) <=> Allowed(op, <<Flip(x[1]), x[2]>>, <<y[1], Flip(y[2])>>, <<r[1], Flip(r[2])>>)
(* what C99's reference algorithm returns in the recovered cases is allowed: e.g. (inf,nan)*(fin,fin) *)
(* may be (inf,nan), (nan,inf), (inf,inf) ... ; NaN results are allowed exactly where no clause fires  *)
NaNOnlyWhereUnspecified(op, x, y) ==
    Allowed(op, x, y, <<"nan", "nan">>) <=>
        \/ IsNaN(x) \/ IsNaN(y)
        \/ (op = "mul" /\ ((IsInfinity(x) /\ IsZero(y)) \/ (IsZero(x) /\ IsInfinity(y))))
        \/ (op = "div" /\ ((IsInfinity(x) /\ IsInfinity(y)) \/ (IsZero(x) /\ IsZero(y))))

----------------------------------------------------------------------------
(* "Division by a divisor of extreme but normal magnitude still returns the correctly scaled      *)
(* quotient", on operands where the quotient is exactly representable:                             *)
(*     dividend = (q * u) * 2^m ,   divisor = u * 2^k ,   q, u Gaussian integers,  u # 0          *)
(* so that the quotient is q * 2^(m-k).  A floating-point number is logged as                      *)
(*   [k |-> "num", s |-> sign bit, e |-> e, f |-> <<l3,l2,l1,l0>>]  = (-1)^s * (1 + F/2^64) * 2^e  *)
(*   with F = l3*2^48 + l2*2^32 + l1*2^16 + l0 (16-bit limbs; TLC integers have 32 bits), or       *)
(*   [k |-> "zero" | "inf" | "nan", s |-> sign bit].                                                *)
GMul2(x, y) == <<x[1] * y[1] - x[2] * y[2], x[1] * y[2] + x[2] * y[1]>>
AbsI(n) == IF n < 0 THEN 0 - n ELSE n
RECURSIVE FL2(_)
FL2(n) == IF n <= 1 THEN 0 ELSE 1 + FL2(n \div 2)          \* floor(log2 n), n >= 1
Pow2(n) == 2 ^ n

EMax(t)  == IF t = "double" THEN 1023 ELSE 127              \* largest exponent of a finite number
EMinN(t) == IF t = "double" THEN 0 - 1022 ELSE 0 - 126      \* smallest exponent of a normal number
EMinS(t) == IF t = "double" THEN 0 - 1074 ELSE 0 - 149      \* exponent of the smallest subnormal

(* n * 2^t, n an integer with |n| < 2^16 *)
FpScaled(n, t) == IF n = 0 THEN [k |-> "zero", s |-> 0]
                  ELSE LET b == FL2(AbsI(n)) IN
                       [k |-> "num", s |-> IF n < 0 THEN 1 ELSE 0, e |-> b + t,
                        f |-> <<(AbsI(n) - Pow2(b)) * Pow2(16 - b), 0, 0, 0>>]
(* the sign of a zero component is not specified *)
FpMatches(exp, got) == IF exp.k = "zero" THEN got.k = "zero" ELSE got = exp

NormalC(n, e, t) == n = 0 \/ (FL2(AbsI(n)) + e <= EMax(t) /\ FL2(AbsI(n)) + e >= EMinN(t))
ExactC(n, e, t)  == n = 0 \/ (FL2(AbsI(n)) + e <= EMax(t) /\ e >= EMinS(t))
DyadicRatioG(u) == LET a == AbsI(u[1])  b == AbsI(u[2])
                       mx == IF a < b THEN b ELSE a   mn == IF a < b THEN a ELSE b
                   IN mx # 0 /\ (mn * 1024) % mx = 0
(* a case of the clause: the divisor is finite with normal non-zero parts, the dividend is normal, *)
(* and both parts of the quotient are exactly representable (possibly subnormal)                     *)
ExtremeCase(t, q, u, m, k) ==
    LET n == GMul2(q, u) IN
    /\ DyadicRatioG(u)
    /\ NormalC(u[1], k, t) /\ NormalC(u[2], k, t)
    /\ NormalC(n[1], m, t) /\ NormalC(n[2], m, t)
    /\ ExactC(q[1], m - k, t) /\ ExactC(q[2], m - k, t)
ExtremeExpected(q, m, k) == <<FpScaled(q[1], m - k), FpScaled(q[2], m - k)>>
=============================================================================

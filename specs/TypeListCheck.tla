---------------------------- MODULE TypeListCheck ----------------------------
(* C->S validation for the one run-time member of xmeta_utils.hpp: every line of the   *)
(* ndjson table recorded by harness/c18/static_if_driver.cpp from the real             *)
(* xtl::mpl::static_if must be the StaticIf action of TypeList.tla with the logged     *)
(* arguments, and the logged observation must be one of the results the spec allows.   *)
EXTENDS TypeList, IOUtils

VARIABLE l
JsonTrace == ndJsonDeserialize(IOEnv.TRACE)
ExplainAt == atoi(IOEnv.EXPLAIN)

CheckAtoms == <<"A", "B", "C">>
TInit == l = 1 /\ Init

Dispatch(e) == e.op = "StaticIf" /\ DoStaticIf(e.a.c, e.a.form, e.a.t, e.a.f)

TNext == /\ l <= Len(JsonTrace)
         /\ LET e == JsonTrace[l] IN
               /\ Dispatch(e)
               /\ IF l = ExplainAt THEN PrintT(<<"EXPECTED", last'.res>>)
                                   ELSE \E i \in DOMAIN last'.res : last'.res[i] = e.res
         /\ l' = l + 1

TSpec == TInit /\ [][TNext]_<<vars, l>>
TraceAccepted == TLCGet("stats").diameter - 1 = Len(JsonTrace)
=============================================================================

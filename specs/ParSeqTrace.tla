---------------------------- MODULE ParSeqTrace ----------------------------
(* Trace validation for C11: every line of the ndjson trace recorded from the real       *)
(* xoptional_vector/array and xcomplex_vector/array objects must be a step of ParSeq     *)
(* (L1) with the logged arguments, and the logged result and the full projection of both *)
(* objects must be what the specification yields.                                        *)
EXTENDS ParSeq, IOUtils

VARIABLE l     \* next line of the trace to be explained

JsonTrace == ndJsonDeserialize(IOEnv.TRACE)
ExplainAt == atoi(IOEnv.EXPLAIN)

TInit ==
    /\ l = 1
    /\ cfg = [fl |-> "optional", ct |-> "vector", n |-> 0, fwd |-> 1, cas |-> 1]
    /\ obj = <<<<>>, <<>>>>
    /\ last = [op |-> "Init", k |-> 0, a |-> NoArg, res |-> Void]
    /\ pre = obj

(* a new execution: configuration from the event, fresh objects built by value-initialisation *)
TReset(e) ==
    /\ e.a.fl \in {"optional", "complex"} /\ e.a.ct \in {"vector", "array"}
    /\ (e.a.ct = "vector" => e.a.n = 0 /\ e.a.fwd = 1)
    /\ (e.a.fl = "optional" => e.a.cas = 1)
    /\ e.a.fwd \in {0, 1} /\ e.a.cas \in {0, 1}
    /\ cfg' = [fl |-> e.a.fl, ct |-> e.a.ct, n |-> e.a.n, fwd |-> e.a.fwd, cas |-> e.a.cas]
    /\ obj' = LET n0 == IF e.a.ct = "vector" THEN 0 ELSE e.a.n IN <<Fill(n0, Dflt), Fill(n0, Dflt)>>
    /\ pre' = obj
    /\ last' = [op |-> "Reset", k |-> 1, a |-> e.a, res |-> Void]

Dispatch(e) == LET k == e.k  a == e.a IN
    \/ e.op = "Reset"       /\ TReset(e)
    \/ e.op = "CtorDefault" /\ CtorDefault(k, a.how)
    \/ e.op = "CtorN"       /\ CtorN(k, a.n)
    \/ e.op = "CtorNV"      /\ CtorNV(k, a.n, a.v)
    \/ e.op = "CtorNO"      /\ CtorNO(k, a.n, a.e, a.ck)
    \/ e.op = "CtorIL"      /\ CtorIL(k, a.es)
    \/ e.op = "CtorCopy"    /\ CtorCopy(k)
    \/ e.op = "CopyAssign"  /\ CopyAssign(k)
    \/ e.op = "CtorMove"    /\ CtorMove(k, a.re, e.st.o[Other(k)].idx)
    \/ e.op = "MoveAssign"  /\ MoveAssign(k, a.re, e.st.o[Other(k)].idx)
    \/ e.op = "ProxySwap"   /\ a.i < Len(e.st.o[k].idx) /\ a.j < Len(e.st.o[k].idx)
                            /\ ProxySwap(k, a.i, a.j, e.st.o[k].idx[a.i + 1], e.st.o[k].idx[a.j + 1])
    \/ e.op = "MaxSize"     /\ e.res.exc = "none" /\ MaxSize(k, e.res.val[1])
    \/ e.op = "Rel"         /\ e.res.exc = "none" /\ Rel(k, e.res.val)
    \/ e.op = "Resize"      /\ Resize(k, a.n)
    \/ e.op = "ResizeV"     /\ ResizeV(k, a.n, a.v)
    \/ e.op = "ResizeO"     /\ ResizeO(k, a.n, a.e, a.ck)
    \/ e.op = "At"          /\ At(k, a.c, a.i, a.h)
    \/ e.op = "Read"        /\ Read(k, a.path, a.nav, a.i)
    \/ e.op = "Write"       /\ Write(k, a.path, a.nav, a.i, a.wk, a.e, a.j)
    \/ e.op = "WriteUnder"  /\ WriteUnder(k, a.which, a.i, a.x)
    \/ e.op = "Extract"     /\ Extract(k, a.which)
    \/ e.op = "IterRel"     /\ IterRel(k, a.path, a.i, a.j)
    \/ e.op = "Algo"        /\ Algo(k, a.alg, a.i, a.m, a.j, e.st.o[k].idx)
    \/ e.op = "ResizeFrom"  /\ ResizeFrom(k, a.n, a.s, a.path, a.nav, a.j)
    \/ e.op = "CtorFrom"    /\ CtorFrom(k, a.n, a.path, a.nav, a.j)
    \/ e.op = "XAssign"     /\ XAssign(k, a.path, a.nav, a.i, a.pad, a.spath, a.snav, a.j, a.mv)
    \/ e.op = "XCopy"       /\ XCopy(k, a.pad, a.i, a.j, a.m, a.dir)
    \/ e.op = "Feature"     /\ Feature(k, a.name)

TNext ==
    /\ l <= Len(JsonTrace)
    /\ LET e == JsonTrace[l] IN
        /\ Dispatch(e)
        /\ IF l = ExplainAt
             THEN PrintT(<<"EXPECTED", last'.res, ProjAll'>>)
             ELSE /\ last'.res = e.res
                  /\ ProjAll' = e.st
    /\ l' = l + 1

TSpec == TInit /\ [][TNext]_<<vars, l>>
TraceAccepted == TLCGet("stats").diameter - 1 = Len(JsonTrace)
=============================================================================

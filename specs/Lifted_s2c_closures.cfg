SPECIFICATION Spec
CONSTANTS
  NReg = 3
  Vals <- ValsTiny
  MCKinds <- KindsAll
  Classes <- LiftedClasses
  MCFuns <- EveryFun
  Canonical = TRUE
  EmitOn = TRUE
ACTION_CONSTRAINT Emit

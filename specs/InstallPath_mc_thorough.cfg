SPECIFICATION Spec
CONSTANTS
  Base <- MeasuredBase
  Depths <- D16
  Totals <- TotalsAll
  Extras = {0, 1, 5}
  Patterns <- PatAll
  Vias <- ViaAll
  NameMax = 255
  PathMax = 4095
INVARIANT TypeOK
ACTION_CONSTRAINT Emit

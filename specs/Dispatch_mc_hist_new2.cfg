\* L1 history theorems with independent second objects (New2) among the copy operations
SPECIFICATION Spec
CONSTANTS
  Kinds <- KMapDyn
  Arities = {1, 2}
  NXs = {0}
  K = 2
  MaxHist = 3
  MaxCells = 9
  OpClasses <- OpsHistNew2
  EmitMode <- ModeNone
  Plans <- NoPlans
CONSTRAINT Bound
VIEW histvars
INVARIANTS TypeOK RegIsHistory TablesAreHistory DispatchExact

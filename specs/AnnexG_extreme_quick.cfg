SPECIFICATION Spec
CONSTANTS
  Mode = "extreme"
  QVals <- QQuick
  Us <- UsQuick
  Ms <- MsAll
  KsD <- KsDouble
  KsF <- KsFloat
INVARIANTS ExtremeLaws

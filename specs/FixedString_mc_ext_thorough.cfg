SPECIFICATION Spec
CONSTANTS
  Caps = {3}
  Policies = {"silent", "throwing"}
  Layouts = {"packed", "strlen"}
  Chars <- Chars012
  Lits <- LitsNul
  PosDom <- Pos3
  SubDom <- SubFewer
  Targets = {1, 2}
  OtherInit <- NoOther
  Classes <- ExtOnly
  EmitOps <- NoEmit
VIEW absvars
INVARIANTS TypeOK ExtLaws
PROPERTIES FailedChangesNothing ObserversPure SilentNeverLengthError ExtStep

--------------------------- MODULE FixedStringImpl ---------------------------
(***************************************************************************)
(* L2 representation specification for C01 / C02, transcribed from         *)
(* include/xtl/xbasic_fixed_string.hpp: an N+1-cell character buffer with   *)
(* one of three length encodings                                            *)
(*   "packed"    : N - size() kept in the last cell (it is the terminator   *)
(*                 when the string is full)                                 *)
(*   "sizefield" : separate m_size                                          *)
(*   "strlen"    : no stored length; size() scans for the first NUL, cells  *)
(*                 behind it are stale                                      *)
(* and the member functions written as the code's own steps (check, publish *)
(* the new length, copy_backward / copy / fill cell by cell in the order    *)
(* the algorithms use).  Every cell access goes through Put / Rd, which     *)
(* raise the ghost flag x when the index is outside 0..N.                   *)
(* TLC checks that every step is the step of FixedString (L1) for the same  *)
(* call under the refinement mapping obj[k] = cells 0..size()-1, that the   *)
(* terminator and the length encoding are maintained, that no access ever   *)
(* leaves the buffer, and that a failing call leaves every cell as it was.  *)
(* Verdicts never come from this module (DESIGN.md 2.3): a failure here is  *)
(* reported as MODEL-DRIFT.                                                 *)
(***************************************************************************)
EXTENDS Integers, Sequences, FiniteSets, TLC

CONSTANTS N, Policies, Layouts,   \* the configurations explored (chosen at Init, then fixed)
          Chars, Lits, PosDom, SubDom,
          OtherVals,   \* values given to the second object (it is only a source here)
          Junk,        \* cell values a freshly allocated packed buffer may show before set_size(0)
          AliasMode    \* "none": no aliasing sources; "safe": those the code handles (Safe* below);
                       \* "all": every aliasing source (refinement then fails: finding C01-alias-moved-source);
                       \* "repaired": every aliasing source, and the member functions as proposed_fixes/C01-06 writes
                       \*   them (assign moves the characters before set_size; insert / replace copy a source that
                       \*   lies inside the string into a temporary first)

VARIABLES cfv,   \* [policy, layout] of this behaviour
          mem,   \* mem[k] = [b |-> <<cell 0, .., cell N>>, z |-> m_size (size-field layout only)]
          oob,   \* ghost: some step accessed a cell outside 0..N
          last, pre

ivars == <<cfv, mem, oob, last, pre>>
Policy == cfv.policy
Layout == cfv.layout
NPOS == -1
DFLT == -2
Other(k) == 3 - k
Throwing == Policy = "throwing"
Min(a, b) == IF a < b THEN a ELSE b
Or(p, d) == IF p = DFLT THEN d ELSE p

\* ---------------------------------------------------------------- cells
\* a machine value m = [b, z, x]: buffer, size field, "an access left the buffer"
Cell(m, i)   == IF i \in 0..N THEN m.b[i + 1] ELSE 0
Put(m, i, c) == IF i \in 0..N THEN [m EXCEPT !.b[i + 1] = c] ELSE [m EXCEPT !.x = TRUE]
Rd(m, i)     == IF i \in 0..N THEN m ELSE [m EXCEPT !.x = TRUE]          \* a read of cell i

RECURSIVE PutSeq(_, _, _, _), FillAt(_, _, _, _), CopyFwd(_, _, _, _), CopyBwd(_, _, _, _)
\* traits_type::copy / std::copy from a foreign range v into cells at, at+1, ... (j = next element of v)
PutSeq(m, at, v, j) == IF j > Len(v) THEN m ELSE PutSeq(Put(m, at, v[j]), at + 1, v, j + 1)
\* traits_type::assign(p, n, c)
FillAt(m, at, n, c) == IF n <= 0 THEN m ELSE FillAt(Put(m, at, c), at + 1, n - 1, c)
\* std::copy(first, first+n, d): ascending, one cell at a time (ranges inside the buffer may overlap)
CopyFwd(m, s, d, n) == IF n <= 0 THEN m ELSE CopyFwd(Put(Rd(m, s), d, Cell(m, s)), s + 1, d + 1, n - 1)
\* std::copy_backward(.., sEnd, dEnd): descending
CopyBwd(m, sEnd, dEnd, n) == IF n <= 0 THEN m ELSE CopyBwd(Put(Rd(m, sEnd - 1), dEnd - 1, Cell(m, sEnd - 1)), sEnd - 1, dEnd - 1, n - 1)

\* A source of characters for assign / append / insert / replace:
\*   [al |-> "no",  v |-> seq]     a foreign range (literal, std::string, the other object)
\*   [al |-> "cpy", off, cnt]      cells off .. off+cnt-1 of this very buffer, read by traits_type::copy, i.e. memcpy:
\*                                 ranges that overlap without being identical are undefined behaviour
\*   [al |-> "mov", off, cnt]      the same cells read by std::copy on character pointers, i.e. memmove
\* In both aliasing forms the cells are read when the copy runs, AFTER whatever the member function wrote before.
Foreign(v)        == [al |-> "no", v |-> v, off |-> 0, cnt |-> 0]
Cpy(off, cnt) == [al |-> "cpy", v |-> <<>>, off |-> off, cnt |-> cnt]
Mov(off, cnt) == [al |-> "mov", v |-> <<>>, off |-> off, cnt |-> cnt]
SLen(S)       == IF S.al = "no" THEN Len(S.v) ELSE S.cnt
Overlap(a, b, n) == n > 0 /\ a # b /\ a < b + n /\ b < a + n
Repaired == AliasMode = "repaired"
\* the temporary fixed string the repaired insert / replace build from a source inside the own buffer
Temp(m, S) == IF Repaired /\ S.al # "no" /\ S.cnt > 0 THEN Foreign([i \in 1..S.cnt |-> Cell(m, S.off + i - 1)]) ELSE S
PutSrc(m, at, S) ==
    IF S.al = "no" THEN PutSeq(m, at, S.v, 1)
    ELSE LET n  == S.cnt
             ok == S.off + n <= N + 1 /\ at + n <= N + 1
             m1 == [m EXCEPT !.b = [i \in 1..(N + 1) |->
                        IF i - 1 >= at /\ i - 1 < at + n /\ S.off + (i - 1 - at) <= N THEN m.b[S.off + (i - 1 - at) + 1] ELSE m.b[i]]]
         IN [m1 EXCEPT !.x = m.x \/ ~ok \/ (S.al = "cpy" /\ Overlap(at, S.off, n))]

\* ---------------------------------------------------------------- the three storage classes
HasNul(m) == \E i \in 0..N : m.b[i + 1] = 0
FirstNul(m) == CHOOSE i \in 0..N : m.b[i + 1] = 0 /\ \A j \in 0..(i - 1) : m.b[j + 1] # 0
SizeOf(m) ==                                                       \* storage.size()
    CASE Layout = "packed"    -> N - m.b[N + 1]
      [] Layout = "sizefield" -> m.z
      [] Layout = "strlen"    -> IF HasNul(m) THEN FirstNul(m) ELSE N + 1      \* strlen runs off the buffer
SzRd(m) == IF Layout = "strlen" /\ ~HasNul(m) THEN [m EXCEPT !.x = TRUE] ELSE m   \* ... which is an access outside
SetSize(m, sz) ==                                                  \* storage.set_size(sz)
    CASE Layout = "packed"    -> Put(Put(m, N, N - sz), sz, 0)
      [] Layout = "sizefield" -> Put([m EXCEPT !.z = sz], sz, 0)
      [] Layout = "strlen"    -> Put(m, sz, 0)
AdjustSize(m, d) ==                                                \* storage.adjust_size(d)
    CASE Layout = "packed"    -> SetSize(m, SizeOf(m) + d)
      [] Layout = "sizefield" -> Put([m EXCEPT !.z = m.z + d], m.z + d, 0)
      [] Layout = "strlen"    -> Put(SzRd(m), SizeOf(m) + d, 0)
Zeros == [i \in 1..(N + 1) |-> 0]
\* m_storage(): the packed class has a user-provided constructor (set_size(0) over whatever the memory held);
\* the other two are value-initialised, i.e. zeroed
Fresh(j) == IF Layout = "packed" THEN SetSize([b |-> [i \in 1..(N + 1) |-> j], z |-> 0, x |-> FALSE], 0)
                                 ELSE [b |-> Zeros, z |-> 0, x |-> FALSE]

M(k)       == [b |-> mem[k].b, z |-> mem[k].z, x |-> FALSE]
AbsOf(m)   == SubSeq(m.b, 1, Min(SizeOf(m), N + 1))
AbsStr(k)  == AbsOf(M(k))
AbsObj     == <<AbsStr(1), AbsStr(2)>>
NulFree(v) == \A i \in 1..Len(v) : v[i] # 0
Storable(v) == Layout # "strlen" \/ NulFree(v)

Ok(v)  == [exc |-> "none", val |-> v]
Exc(e) == [exc |-> e, val |-> <<>>]
Void   == Ok(<<>>)
Self   == Ok([self |-> TRUE])
It(i)  == Ok([it |-> i])
StrVal(v) == [chars |-> v, size |-> Len(v), term |-> 0]
StrValOf(m) == [chars |-> AbsOf(m), size |-> SizeOf(m), term |-> Cell(m, SizeOf(m))]   \* a returned fixed string
NoArg  == [z |-> 0]

Do2(op, k, a, mk, mo, res) ==
    /\ pre'  = [obj |-> AbsObj]
    /\ mem'  = [mem EXCEPT ![k] = [b |-> mk.b, z |-> mk.z], ![Other(k)] = [b |-> mo.b, z |-> mo.z]]
    /\ oob'  = (oob \/ mk.x \/ mo.x)
    /\ cfv'  = cfv
    /\ last' = [op |-> op, k |-> k, a |-> a, res |-> res]
Commit(op, k, a, mk, res) == Do2(op, k, a, mk, M(Other(k)), res)
Obs(op, k, a, res)        == Commit(op, k, a, M(k), res)
ObsX(op, k, a, m, res)    == Commit(op, k, a, [M(k) EXCEPT !.x = m.x], res)     \* an observer that walked over cells

\* error_policy::check_size / check_add (throwing_error throws before anything is written; silent_error: the
\* caller's precondition, not modelled).  check_index(_strict) is independent of the policy.
TooLong(sz)  == sz > N
\* st: the characters the call stores (a NUL among them is outside the strlen layout's contract)
Checked(op, k, a, rng, sz, st, mk, res) ==
    IF rng THEN Obs(op, k, a, Exc("out_of_range"))
    ELSE IF TooLong(sz) THEN Throwing /\ Obs(op, k, a, Exc("length_error"))
    ELSE Storable(st) /\ Commit(op, k, a, mk, res)
F(n, ch) == IF n > 0 THEN <<ch>> ELSE <<>>
Bad(p, size) == p = NPOS \/ p > size                   \* check_index_strict(p, size) throws
Cnt(n, rest) == IF n = NPOS \/ n > rest THEN rest ELSE n       \* std::min(count, rest) with size_t npos
SubOf(v, p, n) == SubSeq(v, p + 1, p + Cnt(n, Len(v) - p))

ObjKinds == {"obj", "objm"}
AliasKinds == {"self", "selfp", "selfz", "selfit"}
WithAlias(S) == S \cup (IF "obj" \in S THEN {"self"} ELSE {}) \cup (IF "ptrn" \in S THEN {"selfp"} ELSE {})
                  \cup (IF "ptr" \in S THEN {"selfz"} ELSE {}) \cup (IF "itv" \in S THEN {"selfit"} ELSE {})
SrcOK(k, sk, w) == /\ sk \in ObjKinds => w = AbsStr(Other(k))
                   /\ sk \in {"ptr", "str"} => NulFree(w)
                   /\ sk = "ch" => Len(w) = 1
                   /\ sk = "self" => w = <<>>
                   /\ sk \in {"selfp", "selfit"} => Len(w) = 2 /\ w[1] \in 0..SizeOf(M(k)) /\ w[2] \in 0..(SizeOf(M(k)) - w[1])
                   /\ sk = "selfz" => Len(w) = 1 /\ w[1] \in 0..SizeOf(M(k))
\* traits_type::length(data() + off): distance to the first NUL at or behind cell off
CLen(m, off) == (CHOOSE j \in off..N : m.b[j + 1] = 0 /\ \A i \in off..(j - 1) : m.b[i + 1] # 0) - off
\* how the code reads the source of kind sk: the whole string / pointer + count / C string / iterator pair
SrcOf(k, sk, w) ==
    CASE sk = "self"   -> Cpy(0, SizeOf(M(k)))
      [] sk = "selfp"  -> Cpy(w[1], w[2])
      [] sk = "selfz"  -> Cpy(w[1], CLen(M(k), w[1]))
      [] sk = "selfit" -> Mov(w[1], w[2])
      [] OTHER -> Foreign(w)
\* ... and of the (str, pos, count) overloads: str.data() + pos, min(count, str.size() - pos)
SubSrcOf(k, sk, w, p, n) ==
    IF sk = "self" THEN Cpy(p, Cnt(n, SizeOf(M(k)) - p)) ELSE Foreign(SubOf(w, p, n))
\* the characters the source denotes when the call starts (what L1 sees)
Eff(k, sk, w) ==
    CASE sk = "self" -> AbsStr(k)
      [] sk \in {"selfp", "selfit"} -> SubSeq(AbsStr(k), w[1] + 1, w[1] + w[2])
      [] sk = "selfz" -> SubSeq(AbsStr(k), w[1] + 1, w[1] + CLen(M(k), w[1]))
      [] OTHER -> w

\* ---------------------------------------------------------------- code transcription: primitive member functions
\* assign(s, count) / assign(first, last) / assign(count, ch): publish the length, then write the characters
AssignM(m, S)       == IF Repaired THEN SetSize(PutSrc(m, 0, IF S.al = "no" THEN S ELSE Mov(S.off, S.cnt)), SLen(S))   \* traits_type::move, then set_size
                                   ELSE PutSrc(SetSize(m, SLen(S)), 0, S)
AssignFillM(m, n, c) == FillAt(SetSize(m, n), 0, n, c)
\* append(s, count): old_size = size(); set_size(check_add(size(), count)); copy(data() + old_size, s, count)
AppendM(m, S)       == LET old == SizeOf(m) IN PutSrc(SetSize(m, old + SLen(S)), old, S)
AppendFillM(m, n, c) == LET old == SizeOf(m) IN FillAt(SetSize(m, old + n), old, n, c)
\* insert(index, s, count): old_size; new_size = check_add; set_size(new_size);
\*                          copy_backward(data()+index, data()+old_size, data()+new_size); copy(data()+index, s, count)
InsertM(m, idx, S0) ==
    LET S == Temp(m, S0)
        old == SizeOf(m)  new == old + SLen(S)
        m1 == SetSize(m, new)
        m2 == CopyBwd(m1, old, new, old - idx)
    IN PutSrc(m2, idx, S)
InsertFillM(m, idx, n, c) ==
    LET old == SizeOf(m)  new == old + n
        m1 == SetSize(m, new)
        m2 == CopyBwd(m1, old, new, old - idx)
    IN FillAt(m2, idx, n, c)
\* erase(index, count): erase_count = min(count, size()-index); copy(data()+index+erase_count, data()+size(), data()+index);
\*                      adjust_size(-erase_count)
EraseM(m, idx, n) ==
    LET sz == SizeOf(m)  ec == Cnt(n, sz - idx)
        m1 == CopyFwd(m, idx + ec, idx, sz - idx - ec)
    IN AdjustSize(m1, 0 - ec)
\* replace(pos, count, cstr, count2): three branches, the new length is published last
ReplaceM(m, p, n, S0) ==
    LET S == Temp(m, S0)  sz == SizeOf(m)  ec == Cnt(n, sz - p)  c2 == SLen(S)  new == sz - ec + c2 IN
    IF ec > c2 THEN SetSize(CopyFwd(PutSrc(m, p, S), p + ec, p + c2, sz - p - ec), new)
    ELSE IF ec < c2 THEN SetSize(PutSrc(CopyBwd(m, sz, new, sz - p - ec), p, S), new)
    ELSE PutSrc(m, p, S)
ReplaceFillM(m, p, n, c2, c) ==
    LET sz == SizeOf(m)  ec == Cnt(n, sz - p)  new == sz - ec + c2 IN
    IF ec > c2 THEN SetSize(CopyFwd(FillAt(m, p, c2, c), p + ec, p + c2, sz - p - ec), new)
    ELSE IF ec < c2 THEN SetSize(FillAt(CopyBwd(m, sz, new, sz - p - ec), p, c2, c), new)
    ELSE FillAt(m, p, c2, c)
\* push_back: old_size = size(); check_add(old_size, 1); data()[old_size] = ch; set_size(old_size + 1)
PushBackM(m, c) == LET old == SizeOf(m) IN SetSize(Put(m, old, c), old + 1)
\* resize(count, ch): old_size = size(); set_size(check_size(count)); if (old_size < count) assign(data()+old_size, count-old_size, ch)
ResizeM(m, n, c) == LET old == SizeOf(m)  m1 == SetSize(m, n) IN IF old < n THEN FillAt(m1, old, n - old, c) ELSE m1

\* ---------------------------------------------------------------- actions (one per public call, same names and
\* argument records as in FixedString.tla)
CtorDefault(k, j) == Commit("CtorDefault", k, NoArg, Fresh(j), Void)
CtorFill(k, j, n, ch) ==
    Checked("CtorFill", k, [n |-> n, ch |-> ch], FALSE, n, F(n, ch), AssignFillM(Fresh(j), n, ch), Void)
CtorSub(k, j, sk, v, p, n) ==
    /\ sk \in {"obj", "str"} /\ SrcOK(k, sk, v)
    /\ LET sub == SubOf(v, p, Or(n, NPOS)) IN
       Checked("CtorSub", k, [sk |-> sk, src |-> v, pos |-> p, n |-> n], Bad(p, Len(v)), Len(sub), sub, AssignM(Fresh(j), Foreign(sub)), Void)
CtorSeq(k, j, sk, v) ==
    /\ sk \in {"ptrn", "ptr", "il", "itv", "itl", "str", "obj", "objm"} /\ SrcOK(k, sk, v)
    /\ IF sk \in ObjKinds                              \* defaulted copy / move constructor: the whole storage is copied
         THEN Commit("CtorSeq", k, [sk |-> sk, src |-> v], M(Other(k)), Void)
         ELSE Checked("CtorSeq", k, [sk |-> sk, src |-> v], FALSE, Len(v), v, AssignM(Fresh(j), Foreign(v)), Void)
Overlay(k, cells) ==
    /\ Layout = "strlen" /\ Len(cells) = N + 1 /\ \E i \in 1..(N + 1) : cells[i] = 0
    /\ Commit("Overlay", k, [cells |-> cells], [b |-> cells, z |-> 0, x |-> FALSE], Void)

AssignFill(k, ov, n, ch) ==
    /\ ov \in {"assign", "opch"} /\ (ov = "opch" => n = 1)
    /\ Checked("AssignFill", k, [ov |-> ov, n |-> n, ch |-> ch], FALSE, n, F(n, ch), AssignFillM(M(k), n, ch), Self)
AssignSub(k, sk, w, p, n) ==
    /\ sk \in WithAlias({"obj", "str"}) /\ SrcOK(k, sk, w)
    /\ LET v == Eff(k, sk, w)  sub == SubOf(v, p, Or(n, NPOS)) IN
       Checked("AssignSub", k, [sk |-> sk, src |-> w, pos |-> p, n |-> n], Bad(p, Len(v)), Len(sub), sub,
               AssignM(M(k), SubSrcOf(k, sk, w, p, Or(n, NPOS))), Self)
AssignSeq(k, ov, sk, w) ==
    /\ ov \in {"assign", "op"} /\ SrcOK(k, sk, w)
    /\ sk \in WithAlias(IF ov = "assign" THEN {"ptrn", "ptr", "il", "itv", "itl", "str", "obj", "objm"} ELSE {"ptr", "il", "str", "obj", "objm"})
    /\ LET v == Eff(k, sk, w)  a == [ov |-> ov, sk |-> sk, src |-> w] IN
       IF sk \in ObjKinds /\ ov = "op"                 \* defaulted copy / move assignment: whole storage
         THEN Commit("AssignSeq", k, a, M(Other(k)), Self)
       ELSE IF sk = "self"                             \* assign(const self_type&): if (this != &rhs); s = s: the storage onto itself
         THEN Commit("AssignSeq", k, a, M(k), Self)
         ELSE Checked("AssignSeq", k, a, FALSE, Len(v), v, AssignM(M(k), SrcOf(k, sk, w)), Self)

At(k, c, i) ==
    LET m == M(k) IN
    Obs("At", k, [c |-> c, i |-> i], IF i = NPOS \/ i >= SizeOf(m) THEN Exc("out_of_range") ELSE Ok([ch |-> Cell(m, i)]))
Index(k, c, i) ==
    /\ i # NPOS /\ i <= SizeOf(M(k))
    /\ Obs("Index", k, [c |-> c, i |-> i], Ok([ch |-> Cell(M(k), i)]))
Write(k, path, i, ch) ==
    /\ i # NPOS /\ i < SizeOf(M(k)) /\ Storable(<<ch>>)
    /\ path = "front" => i = 0
    /\ path = "back" => i = SizeOf(M(k)) - 1
    /\ Commit("Write", k, [path |-> path, i |-> i, ch |-> ch], Put(M(k), i, ch), Void)

Clear(k) == Commit("Clear", k, NoArg, SetSize(M(k), 0), Void)
PushBack(k, ov, ch) ==
    /\ ov \in {"push_back", "opch"}
    /\ LET m == M(k)  a == [ov |-> ov, ch |-> ch] IN
       IF ov = "push_back" THEN Checked("PushBack", k, a, FALSE, SizeOf(m) + 1, <<ch>>, PushBackM(m, ch), Void)
                           ELSE Checked("PushBack", k, a, FALSE, SizeOf(m) + 1, <<ch>>, AppendFillM(m, 1, ch), Self)   \* += ch is append(1, ch)
PopBack(k) == SizeOf(M(k)) > 0 /\ Commit("PopBack", k, NoArg, AdjustSize(M(k), 0 - 1), Void)
Resize2(k, n, ch) ==
    Checked("Resize2", k, [n |-> n, ch |-> ch], FALSE, IF n = NPOS THEN N + 1 ELSE n, F(n - SizeOf(M(k)), ch), ResizeM(M(k), n, ch), Void)
\* one-argument resize(n) is resize(n, ' '): transcribed as written; where it grows the string it is the open finding
\* "pads with ' ' instead of CharT()" and is not part of the next-state relation
Resize1(k, n) ==
    Checked("Resize1", k, [n |-> n], FALSE, IF n = NPOS THEN N + 1 ELSE n, <<>>, ResizeM(M(k), n, 32), Void)
Resize1Grows(k, n) == n # NPOS /\ n > SizeOf(M(k)) /\ n <= N
Swap(k, ov) == IF ov \in {"memberself", "freeself"} THEN Commit("Swap", k, [ov |-> ov], M(k), Void)
               ELSE Do2("Swap", k, [ov |-> ov], M(Other(k)), M(k), Void)      \* three whole-storage moves

Substr(k, p, n) ==
    LET m == M(k)  pp == Or(p, 0)  nn == Or(n, NPOS) IN
    IF Bad(pp, SizeOf(m)) THEN Obs("Substr", k, [pos |-> p, n |-> n], Exc("out_of_range"))
    ELSE LET r == AssignM(Fresh(0), Foreign(SubOf(AbsOf(m), pp, nn))) IN
         ObsX("Substr", k, [pos |-> p, n |-> n], r, Ok(StrValOf(r)))
Copy(k, n, p, dn, fill) ==
    LET m == M(k)  pp == Or(p, 0) IN
    /\ ~Bad(pp, SizeOf(m)) => Cnt(n, SizeOf(m) - pp) <= dn
    /\ Obs("Copy", k, [n |-> n, pos |-> p, dn |-> dn, fill |-> fill],
           IF Bad(pp, SizeOf(m)) THEN Exc("out_of_range")
           ELSE LET nb == Cnt(n, SizeOf(m) - pp) IN
                Ok([cnt |-> nb, dest |-> [i \in 1..dn |-> IF i <= nb THEN Cell(m, pp + i - 1) ELSE fill]]))

InsertFill(k, idx, n, ch) ==
    LET m == M(k) IN
    Checked("InsertFill", k, [idx |-> idx, n |-> n, ch |-> ch], Bad(idx, SizeOf(m)), SizeOf(m) + n, F(n, ch), InsertFillM(m, idx, n, ch), Self)
InsertSeq(k, idx, sk, w) ==
    /\ sk \in WithAlias({"ptr", "ptrn", "obj", "str"}) /\ SrcOK(k, sk, w)
    /\ LET m == M(k)  v == Eff(k, sk, w) IN
       Checked("InsertSeq", k, [idx |-> idx, sk |-> sk, src |-> w], Bad(idx, SizeOf(m)), SizeOf(m) + Len(v), v, InsertM(m, idx, SrcOf(k, sk, w)), Self)
InsertSub(k, idx, sk, w, p, n) ==          \* check_index_strict(index_str, str.size()) first, then insert(index, ptr, min)
    /\ sk \in WithAlias({"obj", "str"}) /\ SrcOK(k, sk, w)
    /\ LET m == M(k)  v == Eff(k, sk, w)  sub == SubOf(v, p, Or(n, NPOS)) IN
       Checked("InsertSub", k, [idx |-> idx, sk |-> sk, src |-> w, pos |-> p, n |-> n],
               Bad(p, Len(v)) \/ Bad(idx, SizeOf(m)), SizeOf(m) + Len(sub), sub, InsertM(m, idx, SubSrcOf(k, sk, w, p, Or(n, NPOS))), Self)
\* iterator forms: if (cbegin() <= pos && pos <= cend()) { insert(index, ...); return pos; } return end();
InsertIt(k, ov, it, n, ch) ==
    /\ ov \in {"ch", "fill"} /\ (ov = "ch" => n = 1) /\ it \in 0..SizeOf(M(k))
    /\ Checked("InsertIt", k, [ov |-> ov, it |-> it, n |-> n, ch |-> ch], FALSE, SizeOf(M(k)) + n, F(n, ch), InsertFillM(M(k), it, n, ch), It(it))
InsertItSeq(k, it, sk, w) ==
    /\ sk \in WithAlias({"il", "itv", "itl"}) /\ SrcOK(k, sk, w) /\ it \in 0..SizeOf(M(k))
    /\ LET v == Eff(k, sk, w) IN
       Checked("InsertItSeq", k, [it |-> it, sk |-> sk, src |-> w], FALSE, SizeOf(M(k)) + Len(v), v, InsertM(M(k), it, SrcOf(k, sk, w)), It(it))

Erase(k, idx, n) ==
    LET m == M(k)  ii == Or(idx, 0)  nn == Or(n, NPOS) IN
    Checked("Erase", k, [idx |-> idx, n |-> n], Bad(ii, SizeOf(m)), 0, <<>>, EraseM(m, ii, nn), Self)
\* erase(first, last): if (cbegin() <= first && first < cend()) { ... return first; } return end();
EraseRange(k, f, l) ==
    /\ f \in 0..SizeOf(M(k)) /\ l \in f..SizeOf(M(k))
    /\ Commit("EraseRange", k, [f |-> f, l |-> l], IF f < SizeOf(M(k)) THEN EraseM(M(k), f, l - f) ELSE M(k),
              It(IF f < SizeOf(M(k)) THEN f ELSE SizeOf(M(k))))
EraseIt(k, it) ==
    /\ it \in 0..(SizeOf(M(k)) - 1)
    /\ Commit("EraseIt", k, [it |-> it], EraseM(M(k), it, 1), It(it))

AppendFill(k, n, ch) ==
    Checked("AppendFill", k, [n |-> n, ch |-> ch], FALSE, SizeOf(M(k)) + n, F(n, ch), AppendFillM(M(k), n, ch), Self)
AppendSeq(k, ov, sk, w) ==
    /\ ov \in {"append", "op"} /\ SrcOK(k, sk, w)
    /\ sk \in WithAlias(IF ov = "append" THEN {"obj", "str", "ptrn", "ptr", "il", "itv", "itl"} ELSE {"obj", "str", "ptr", "il"})
    /\ LET v == Eff(k, sk, w) IN
       Checked("AppendSeq", k, [ov |-> ov, sk |-> sk, src |-> w], FALSE, SizeOf(M(k)) + Len(v), v, AppendM(M(k), SrcOf(k, sk, w)), Self)
AppendSub(k, sk, w, p, n) ==
    /\ sk \in WithAlias({"obj", "str"}) /\ SrcOK(k, sk, w)
    /\ LET v == Eff(k, sk, w)  sub == SubOf(v, p, Or(n, NPOS)) IN
       Checked("AppendSub", k, [sk |-> sk, src |-> w, pos |-> p, n |-> n], Bad(p, Len(v)), SizeOf(M(k)) + Len(sub), sub,
               AppendM(M(k), SubSrcOf(k, sk, w, p, Or(n, NPOS))), Self)

Replace(k, p, n, sk, w) ==
    /\ sk \in WithAlias({"obj", "str", "ptrn", "ptr"}) /\ SrcOK(k, sk, w)
    /\ LET m == M(k)  sz == SizeOf(m)  v == Eff(k, sk, w) IN
       Checked("Replace", k, [pos |-> p, n |-> n, sk |-> sk, src |-> w], Bad(p, sz), sz - Cnt(n, sz - p) + Len(v), v, ReplaceM(m, p, n, SrcOf(k, sk, w)), Self)
ReplaceSub(k, p, n, sk, w, p2, n2) ==          \* the source position is checked first
    /\ sk \in WithAlias({"obj", "str"}) /\ SrcOK(k, sk, w)
    /\ LET m == M(k)  sz == SizeOf(m)  v == Eff(k, sk, w)  sub == SubOf(v, p2, Or(n2, NPOS)) IN
       Checked("ReplaceSub", k, [pos |-> p, n |-> n, sk |-> sk, src |-> w, pos2 |-> p2, n2 |-> n2],
               Bad(p2, Len(v)) \/ Bad(p, sz), sz - Cnt(n, sz - p) + Len(sub), sub, ReplaceM(m, p, n, SubSrcOf(k, sk, w, p2, Or(n2, NPOS))), Self)
ReplaceFill(k, p, n, n2, ch) ==
    LET m == M(k)  sz == SizeOf(m) IN
    Checked("ReplaceFill", k, [pos |-> p, n |-> n, n2 |-> n2, ch |-> ch], Bad(p, sz), sz - Cnt(n, sz - p) + n2, F(n2, ch), ReplaceFillM(m, p, n, n2, ch), Self)
\* iterator forms: if (cbegin() <= first && first <= last && last <= cend()) replace(pos, count, ...)
ReplaceIt(k, f, l, sk, w) ==
    /\ sk \in WithAlias({"obj", "str", "ptrn", "ptr", "il", "itv", "itl"}) /\ SrcOK(k, sk, w)
    /\ f \in 0..SizeOf(M(k)) /\ l \in f..SizeOf(M(k))
    /\ LET v == Eff(k, sk, w) IN
       Checked("ReplaceIt", k, [f |-> f, l |-> l, sk |-> sk, src |-> w], FALSE, SizeOf(M(k)) - (l - f) + Len(v), v, ReplaceM(M(k), f, l - f, SrcOf(k, sk, w)), Self)
ReplaceItFill(k, f, l, n2, ch) ==
    /\ f \in 0..SizeOf(M(k)) /\ l \in f..SizeOf(M(k))
    /\ Checked("ReplaceItFill", k, [f |-> f, l |-> l, n2 |-> n2, ch |-> ch], FALSE, SizeOf(M(k)) - (l - f) + n2, F(n2, ch), ReplaceFillM(M(k), f, l - f, n2, ch), Self)

\* compare_impl(s1, count1, s2, count2): traits::compare on the common prefix, then the lengths
CmpImpl(a, b) ==
    LET rlen == Min(Len(a), Len(b))
        d == {i \in 1..rlen : a[i] # b[i]}
    IN IF d = {} THEN (IF Len(a) < Len(b) THEN -1 ELSE IF Len(a) > Len(b) THEN 1 ELSE 0)
       ELSE LET i == CHOOSE x \in d : \A y \in d : x <= y IN IF a[i] < b[i] THEN -1 ELSE 1
Compare1(k, p1, n1, sk, w) ==
    /\ sk \in WithAlias({"obj", "str", "ptr", "ptrn"}) /\ SrcOK(k, sk, w)
    /\ LET m == M(k)  sz == SizeOf(m) IN
       Obs("Compare1", k, [pos1 |-> p1, n1 |-> n1, sk |-> sk, src |-> w],
           IF Bad(p1, sz) THEN Exc("out_of_range") ELSE Ok([sign |-> CmpImpl(SubOf(AbsOf(m), p1, n1), Eff(k, sk, w))]))

\* the search family as written: guards first, then a scan over data()[..size())
RECURSIVE Up(_, _, _), Down(_, _)
Up(G, x, hi) == IF x > hi THEN NPOS ELSE IF x \in G THEN x ELSE Up(G, x + 1, hi)
Down(G, x)   == IF x \in G THEN x ELSE IF x <= 0 THEN NPOS ELSE Down(G, x - 1)      \* for (;; --uptr) { ..; if (uptr == data()) break; }
FindImpl(fam, s, v, p) ==
    LET sz == Len(s)  c == Len(v)
        Match == {x \in 0..sz : x + c <= sz /\ \A i \in 1..c : s[x + i] = v[i]}
        In    == {x \in 0..(sz - 1) : \E i \in 1..c : v[i] = s[x + 1]}
        NotIn == (0..(sz - 1)) \ In
        Lt(a, b) == a # NPOS /\ a < b               \* size_type comparison with npos = SIZE_MAX
        Cap2(a, b) == IF a = NPOS \/ a > b THEN b ELSE a     \* std::min(pos, b)
    IN CASE fam = "find"  -> IF c = 0 /\ p # NPOS /\ p <= sz THEN p
                             ELSE IF Lt(p, sz) /\ c <= sz - p THEN Up(Match, p, sz - c) ELSE NPOS
         [] fam = "rfind" -> IF c = 0 THEN Cap2(p, sz) ELSE IF c <= sz THEN Down(Match, Cap2(p, sz - c)) ELSE NPOS
         [] fam = "ffo"   -> IF 0 < c /\ Lt(p, sz) THEN Up(In, p, sz - 1) ELSE NPOS
         [] fam = "ffno"  -> IF Lt(p, sz) THEN Up(NotIn, p, sz - 1) ELSE NPOS
         [] fam = "flo"   -> IF 0 < c /\ 0 < sz THEN Down(In, Cap2(p, sz - 1)) ELSE NPOS
         [] fam = "flno"  -> IF 0 < sz THEN Down(NotIn, Cap2(p, sz - 1)) ELSE NPOS
FindDefault(fam) == IF fam \in {"find", "ffo", "ffno"} THEN 0 ELSE NPOS
Find(k, fam, sk, w, p) ==
    /\ sk \in WithAlias({"obj", "str", "ptrn", "ptr", "ch"}) /\ SrcOK(k, sk, w)
    /\ sk \in {"ptrn", "selfp"} => p # DFLT
    /\ Obs("Find", k, [fam |-> fam, sk |-> sk, src |-> w, pos |-> p], Ok([pos |-> FindImpl(fam, AbsStr(k), Eff(k, sk, w), Or(p, FindDefault(fam)))]))

\* operator+(lhs, rhs): res(lhs) (whole storage copied); res += rhs
Concat(k, lk, rk, v) ==
    /\ <<lk, rk>> \in {<<"self", "obj">>, <<"self", "ptr">>, <<"self", "ch">>, <<"selfm", "obj">>, <<"self", "objm">>, <<"self", "self">>}
    /\ NulFree(v) /\ (rk = "ch" => Len(v) = 1) /\ (rk \in ObjKinds \cup {"self"} => v = <<>>)
    /\ LET rv == IF rk \in ObjKinds THEN AbsStr(Other(k)) ELSE IF rk = "self" THEN AbsStr(k) ELSE v
           a  == [lk |-> lk, rk |-> rk, src |-> v]
           r  == IF rk = "ch" THEN AppendFillM(M(k), 1, v[1]) ELSE AppendM(M(k), Foreign(rv))      \* res is a copy of lhs: rhs never aliases it
       IN IF TooLong(SizeOf(M(k)) + Len(rv)) THEN Throwing /\ Obs("Concat", k, a, Exc("length_error"))
          ELSE ObsX("Concat", k, a, r, Ok(StrValOf(r)))

\* ---------------------------------------------------------------- next-state relation
Strs(n)  == UNION {[1..m -> Chars] : m \in 0..n}
Nats     == {p \in PosDom : p >= 0}
PosD     == PosDom \cup {DFLT}
NFLits   == {v \in Lits : NulFree(v)}
Its(k)   == 0..SizeOf(M(k))
Ranges(k) == {<<f, l>> \in Its(k) \X Its(k) : f <= l}
O(k)     == AbsStr(Other(k))
Lit(sk)  == IF sk \in {"ptr", "str"} THEN NFLits ELSE Lits
Srcs(k, kinds) == {<<sk, v>> \in kinds \X (Lits \cup {O(k)}) : IF sk \in ObjKinds THEN v = O(k) ELSE v \in Lit(sk)}

\* ---------------------------------------------------------------- aliasing sources
\* Which aliasing calls the code as written handles: every source cell is read before anything the call itself wrote
\* reaches it (the terminator of the new length, the shifted tail), and traits_type::copy never gets ranges that overlap
\* without being identical.  (vlib/fixedstring.py alias_unsafe() is the same predicate for the script generators.)
SafeAssign(S)         == S.cnt = 0 \/ S.off = 0 \/ S.off > S.cnt
SafeInsert(idx, S)    == S.cnt = 0 \/ (IF S.al = "mov" THEN S.off <= idx ELSE S.off + S.cnt <= idx \/ S.off = idx)
SafeReplace(p, ec, S) == LET c2 == S.cnt IN
    c2 = 0 \/ (IF S.al = "mov" THEN S.off <= p \/ ec >= c2
                               ELSE S.off = p \/ S.off + c2 <= p \/ (S.off >= p + c2 /\ ec >= c2))
\* (compared with TRUE so that TLC evaluates the gate as a value instead of splitting the action at its disjunctions)
AGate(safe) == (AliasMode \in {"all", "repaired"} \/ (AliasMode = "safe" /\ safe)) = TRUE
BadOr(bad, gate) == (bad \/ gate) = TRUE
ASrcs(k, kinds) ==
    LET n == SizeOf(M(k)) IN
      (IF "self" \in kinds THEN {<<"self", <<>>>>} ELSE {})
      \cup UNION {{<<sk, <<off, cnt>>>> : cnt \in 0..(n - off)} : sk \in kinds \cap {"selfp", "selfit"}, off \in 0..n}
      \cup {<<"selfz", <<off>>>> : off \in (IF "selfz" \in kinds THEN 0..n ELSE {})}
\* At N >= 3 the C-string form (the pointer form once its length is known) and the aliasing observers (no cell moves)
\* are left to the N = 2 configurations: they triple the transitions without reaching other steps of the code.
AKAll == IF N >= 3 THEN {"self", "selfp", "selfit"} ELSE AliasKinds
AKPtr == IF N >= 3 THEN {"self", "selfp"} ELSE {"self", "selfp", "selfz"}
NextAlias(k) ==
    LET sz == SizeOf(M(k)) IN
    \/ \E q \in PosDom, n \in PosD :
         /\ BadOr(Bad(q, sz), AGate(SafeAssign(SubSrcOf(k, "self", <<>>, q, Or(n, NPOS)))))
         /\ AssignSub(k, "self", <<>>, q, n)
    \/ \E q \in PosDom, n \in PosD : AppendSub(k, "self", <<>>, q, n)
    \/ \E ov \in {"assign", "op"}, x \in ASrcs(k, AKAll) :
         \/ AGate(x[1] = "self" \/ SafeAssign(SrcOf(k, x[1], x[2]))) /\ AssignSeq(k, ov, x[1], x[2])
         \/ AppendSeq(k, ov, x[1], x[2])
    \/ \E idx \in PosDom, x \in ASrcs(k, AKPtr) :
         /\ BadOr(Bad(idx, sz), AGate(SafeInsert(idx, SrcOf(k, x[1], x[2]))))
         /\ InsertSeq(k, idx, x[1], x[2])
    \/ \E idx \in PosDom, q \in SubDom :
         /\ BadOr(Bad(idx, sz) \/ Bad(q[1], sz), AGate(SafeInsert(idx, SubSrcOf(k, "self", <<>>, q[1], Or(q[2], NPOS)))))
         /\ InsertSub(k, idx, "self", <<>>, q[1], q[2])
    \/ \E it \in Its(k), x \in ASrcs(k, {"selfit"}) : AGate(SafeInsert(it, SrcOf(k, x[1], x[2]))) /\ InsertItSeq(k, it, x[1], x[2])
    \/ \E q \in PosDom, n \in PosDom, x \in ASrcs(k, AKPtr) :
         \/ N < 3 /\ Compare1(k, q, n, x[1], x[2])
         \/ /\ BadOr(Bad(q, sz), AGate(SafeReplace(q, Cnt(n, sz - q), SrcOf(k, x[1], x[2]))))
            /\ Replace(k, q, n, x[1], x[2])
    \/ \E q \in PosDom, n \in PosDom, q2 \in SubDom :
         /\ BadOr(Bad(q, sz) \/ Bad(q2[1], sz), AGate(SafeReplace(q, Cnt(n, sz - q), SubSrcOf(k, "self", <<>>, q2[1], Or(q2[2], NPOS)))))
         /\ ReplaceSub(k, q, n, "self", <<>>, q2[1], q2[2])
    \/ \E r \in Ranges(k), x \in ASrcs(k, AKAll) :
         /\ AGate(SafeReplace(r[1], r[2] - r[1], SrcOf(k, x[1], x[2])))
         /\ ReplaceIt(k, r[1], r[2], x[1], x[2])
    \/ N < 3 /\ \E fam \in {"find", "rfind", "ffo", "ffno", "flo", "flno"}, q \in PosD, x \in ASrcs(k, {"self", "selfp", "selfz"}) : Find(k, fam, x[1], x[2], q)
    \/ Concat(k, "self", "self", <<>>) \/ Swap(k, "memberself")

Init ==
    /\ cfv \in [policy : Policies, layout : Layouts]
    /\ \E v \in OtherVals : Storable(v) /\ LET m2 == AssignM(Fresh(0), Foreign(v)) IN mem = <<[b |-> Fresh(0).b, z |-> 0], [b |-> m2.b, z |-> m2.z]>>
    /\ oob = FALSE
    /\ last = [op |-> "Init", k |-> 0, a |-> NoArg, res |-> Void]
    /\ pre = [obj |-> <<<<>>, <<>>>>]

\* (the source kinds of one overload family run the same code here, so one literal kind and the other object suffice)
NextK(k) ==
    \/ \E j \in Junk : CtorDefault(k, j) \/ (\E n \in Nats, ch \in Chars : CtorFill(k, j, n, ch))
    \/ \E j \in Junk, x \in Srcs(k, {"obj", "str"}), p \in PosDom, n \in PosD : CtorSub(k, j, x[1], x[2], p, n)
    \/ \E j \in Junk, x \in Srcs(k, {"ptrn", "obj"}) : CtorSeq(k, j, x[1], x[2])
    \/ Layout = "strlen" /\ \E cells \in [1..(N + 1) -> Chars] : Overlay(k, cells)
    \/ \E ov \in {"assign", "opch"}, n \in Nats, ch \in Chars : AssignFill(k, ov, n, ch)
    \/ \E x \in Srcs(k, {"obj", "str"}), p \in PosDom, n \in PosD : AssignSub(k, x[1], x[2], p, n) \/ AppendSub(k, x[1], x[2], p, n)
    \/ \E ov \in {"assign", "op"}, x \in Srcs(k, {"ptrn", "obj", "objm"}) : AssignSeq(k, ov, x[1], x[2])
    \/ \E c \in {0, 1}, i \in PosDom : At(k, c, i) \/ Index(k, c, i)
    \/ \E i \in Nats, ch \in Chars : Write(k, "index", i, ch)
    \/ Clear(k) \/ PopBack(k) \/ (\E ov \in {"push_back", "opch"}, ch \in Chars : PushBack(k, ov, ch))
    \/ \E n \in PosDom : (~Resize1Grows(k, n) /\ Resize1(k, n)) \/ (\E ch \in Chars : Resize2(k, n, ch))
    \/ Swap(k, "member")
    \/ \E p \in PosD, n \in PosD : Substr(k, p, n) \/ Erase(k, p, n)
    \/ \E p \in PosD, n \in PosDom : LET pp == Or(p, 0)  sz == SizeOf(M(k)) IN Copy(k, n, p, IF Bad(pp, sz) THEN 0 ELSE Cnt(n, sz - pp) + 1, 126)
    \/ \E idx \in PosDom, n \in Nats, ch \in Chars : InsertFill(k, idx, n, ch)
    \/ \E idx \in PosDom, x \in Srcs(k, {"ptrn", "obj"}) : InsertSeq(k, idx, x[1], x[2])
    \/ \E idx \in PosDom, x \in Srcs(k, {"str", "obj"}), q \in SubDom : InsertSub(k, idx, x[1], x[2], q[1], q[2])
    \/ \E it \in Its(k), ch \in Chars : InsertIt(k, "ch", it, 1, ch) \/ (\E n \in Nats : InsertIt(k, "fill", it, n, ch))
    \/ \E it \in Its(k), x \in Srcs(k, {"itv"}) : InsertItSeq(k, it, x[1], x[2])
    \/ (\E it \in Its(k) : EraseIt(k, it)) \/ (\E r \in Ranges(k) : EraseRange(k, r[1], r[2]))
    \/ \E n \in Nats, ch \in Chars : AppendFill(k, n, ch)
    \/ \E ov \in {"append", "op"}, x \in Srcs(k, {"ptrn", "obj"}) : AppendSeq(k, ov, x[1], x[2])
    \/ \E p \in PosDom, n \in PosDom, x \in Srcs(k, {"ptrn", "obj"}) : Replace(k, p, n, x[1], x[2]) \/ Compare1(k, p, n, x[1], x[2])
    \/ \E p \in PosDom, n \in PosDom, x \in Srcs(k, {"str", "obj"}), q \in SubDom : ReplaceSub(k, p, n, x[1], x[2], q[1], q[2])
    \/ \E p \in PosDom, n \in PosDom, n2 \in Nats, ch \in Chars : ReplaceFill(k, p, n, n2, ch)
    \/ \E r \in Ranges(k), x \in Srcs(k, {"ptrn", "obj"}) : ReplaceIt(k, r[1], r[2], x[1], x[2])
    \/ \E r \in Ranges(k), n2 \in Nats, ch \in Chars : ReplaceItFill(k, r[1], r[2], n2, ch)
    \/ \E fam \in {"find", "rfind", "ffo", "ffno", "flo", "flno"}, p \in PosD :
           \/ \E x \in Srcs(k, {"ptrn", "obj"}) : Find(k, fam, x[1], x[2], p)
           \/ \E c \in Chars : Find(k, fam, "ch", <<c>>, p)
    \/ Concat(k, "self", "obj", <<>>) \/ Concat(k, "selfm", "obj", <<>>) \/ Concat(k, "self", "objm", <<>>)
    \/ \E v \in NFLits : Concat(k, "self", "ptr", v) \/ (Len(v) = 1 /\ Concat(k, "self", "ch", v))

Next == NextK(1) \/ (AliasMode # "none" /\ NextAlias(1))
Spec == Init /\ [][Next]_ivars
absview == <<cfv, mem, oob>>
\* the second object is a source only: keep it at its initial values (swap / whole-storage copies would spread it)
OtherBound == AbsStr(2) \in OtherVals

\* ---------------------------------------------------------------- what TLC checks
\* representation invariants: length within the capacity, terminator at data()[size()], encoding consistent,
\* and no step ever accessed a cell outside 0..N (C02: "never writes outside its own N+1 character buffer")
RepInv == \A k \in {1, 2} : LET m == M(k) IN
    /\ Layout = "strlen" => HasNul(m)
    /\ SizeOf(m) \in 0..N
    /\ Cell(m, SizeOf(m)) = 0
    /\ Storable(AbsOf(m))
NoAccessOutside == ~oob
\* C02: "the length is published only after the check": a failing call is a stutter on every cell and on m_size
FailedStutters == [][last'.res.exc # "none" => mem' = mem]_ivars

A == INSTANCE FixedString WITH cf <- [n |-> N, policy |-> Policy, layout |-> Layout], obj <- AbsObj,
                               Caps <- {N}, Targets <- {1},
                               OtherInit <- OtherVals, Classes <- {}, EmitOps <- {}

\* every L2 step is the L1 step of the same call with the same arguments (refinement); an operand passed as an
\* rvalue may be left in any valid state by L1, here it is simply what the code leaves
StepRefines == LET k == last'.k  a == last'.a  o == last'.op  mo == AbsObj'[Other(k)]  mk == AbsObj'[k] IN
    \/ o = "CtorDefault"   /\ A!CtorDefault(k)
    \/ o = "CtorFill"      /\ A!CtorFill(k, a.n, a.ch)
    \/ o = "CtorSub"       /\ A!CtorSub(k, a.sk, a.src, a.pos, a.n)
    \/ o = "CtorSeq"       /\ A!CtorSeq(k, a.sk, a.src, mo)
    \/ o = "Overlay"       /\ A!Overlay(k, a.cells)
    \/ o = "AssignFill"    /\ A!AssignFill(k, a.ov, a.n, a.ch)
    \/ o = "AssignSub"     /\ A!AssignSub(k, a.sk, a.src, a.pos, a.n)
    \/ o = "AssignSeq"     /\ A!AssignSeq(k, a.ov, a.sk, a.src, mo)
    \/ o = "At"            /\ A!At(k, a.c, a.i)
    \/ o = "Index"         /\ A!Index(k, a.c, a.i)
    \/ o = "Write"         /\ A!Write(k, a.path, a.i, a.ch)
    \/ o = "Clear"         /\ A!Clear(k)
    \/ o = "PushBack"      /\ A!PushBack(k, a.ov, a.ch)
    \/ o = "PopBack"       /\ A!PopBack(k)
    \/ o = "Resize1"       /\ A!Resize1(k, a.n)
    \/ o = "Resize2"       /\ A!Resize2(k, a.n, a.ch)
    \/ o = "Swap"          /\ A!Swap(k, a.ov)
    \/ o = "Substr"        /\ A!Substr(k, a.pos, a.n)
    \/ o = "Copy"          /\ A!Copy(k, a.n, a.pos, a.dn, a.fill)
    \/ o = "InsertFill"    /\ A!InsertFill(k, a.idx, a.n, a.ch)
    \/ o = "InsertSeq"     /\ A!InsertSeq(k, a.idx, a.sk, a.src)
    \/ o = "InsertSub"     /\ A!InsertSub(k, a.idx, a.sk, a.src, a.pos, a.n)
    \/ o = "InsertIt"      /\ A!InsertIt(k, a.ov, a.it, a.n, a.ch)
    \/ o = "InsertItSeq"   /\ A!InsertItSeq(k, a.it, a.sk, a.src)
    \/ o = "Erase"         /\ A!Erase(k, a.idx, a.n)
    \/ o = "EraseIt"       /\ A!EraseIt(k, a.it)
    \/ o = "EraseRange"    /\ A!EraseRange(k, a.f, a.l)
    \/ o = "AppendFill"    /\ A!AppendFill(k, a.n, a.ch)
    \/ o = "AppendSeq"     /\ A!AppendSeq(k, a.ov, a.sk, a.src)
    \/ o = "AppendSub"     /\ A!AppendSub(k, a.sk, a.src, a.pos, a.n)
    \/ o = "Compare1"      /\ A!Compare1(k, a.pos1, a.n1, a.sk, a.src)
    \/ o = "Replace"       /\ A!Replace(k, a.pos, a.n, a.sk, a.src)
    \/ o = "ReplaceSub"    /\ A!ReplaceSub(k, a.pos, a.n, a.sk, a.src, a.pos2, a.n2)
    \/ o = "ReplaceFill"   /\ A!ReplaceFill(k, a.pos, a.n, a.n2, a.ch)
    \/ o = "ReplaceIt"     /\ A!ReplaceIt(k, a.f, a.l, a.sk, a.src)
    \/ o = "ReplaceItFill" /\ A!ReplaceItFill(k, a.f, a.l, a.n2, a.ch)
    \/ o = "Find"          /\ A!Find(k, a.fam, a.sk, a.src, a.pos)
    \/ o = "Concat"        /\ A!Concat(k, a.lk, a.rk, a.src, mk, mo)
Refines == [][StepRefines]_ivars
=============================================================================

SPECIFICATION Spec
CONSTANTS
  Kinds <- KMapDyn
  Arities = {1, 2}
  NXs = {0, 1, 2}
  K = 2
  MaxHist = 100
  MaxCells = 4
  OpClasses <- OpsTable
  EmitMode <- ModeNone
CONSTRAINT Bound
VIEW absvars
INVARIANTS TypeOK OutcomeOK DispatchExact
PROPERTIES LookupsPure OneCell

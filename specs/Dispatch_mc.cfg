\* L1 theorems on every (tables, call) pair: two classes, arities 1 and 2, both dispatcher objects, copies included
SPECIFICATION Spec
CONSTANTS
  Kinds <- KMapFast
  Arities = {1, 2}
  NXs = {1}
  K = 2
  MaxHist = 100
  MaxCells = 2
  OpClasses <- OpsTableClone
  EmitMode <- ModeNone
  Plans <- NoPlans
CONSTRAINT Bound
VIEW absvars
INVARIANTS TypeOK OutcomeOK DispatchExact
PROPERTIES LookupsPure OneCell CopiesAreValues

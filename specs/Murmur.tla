------------------------------- MODULE Murmur -------------------------------
(***************************************************************************)
(* L1 property specification for C14: the byte hashes of xtl/xhash.hpp.     *)
(*                                                                          *)
(* Reference definitions of Austin Appleby's MurmurHash2 (32 bit, "x86")    *)
(* and MurmurHash64A (64 bit, "x64"), written from the published algorithm  *)
(* (smhasher/src/MurmurHash2.cpp) on the word arithmetic of Words.tla, not  *)
(* from xtl's code.  A key is a sequence of bytes 0..255; words are         *)
(* little-endian digit sequences; blocks are loaded little-endian (the      *)
(* published algorithm reads native words; the verification values used by  *)
(* MurmurMC.tla are the little-endian ones, which is the only byte order    *)
(* the harness runs on).                                                    *)
(*                                                                          *)
(* The functions take (bytes, seed) and nothing else: that the real         *)
(* functions' results equal these for every buffer address, alignment and   *)
(* surrounding memory is exactly the "pure function of the bytes" part of   *)
(* the property.                                                            *)
(***************************************************************************)
EXTENDS Words
LOCAL INSTANCE SequencesExt          \* FoldLeft

(* 0x5bd1e995 and 0xc6a4a7935bd1e995, least significant byte first *)
M32 == <<149, 233, 209, 91>>
M64 == <<149, 233, 209, 91, 147, 167, 164, 198>>

LenWord(bytes, n) == FromNat(Len(bytes), n)           \* keys shorter than 2^31 bytes

----------------------------------------------------------------------------
(* MurmurHash2, 32 bit:                                                     *)
(*   h = seed ^ len                                                         *)
(*   for each 4-byte block k:  k *= m; k ^= k >> 24; k *= m; h *= m; h ^= k *)
(*   tail (1..3 bytes): h ^= tail bytes as a little-endian number; h *= m   *)
(*   h ^= h >> 13; h *= m; h ^= h >> 15                                     *)

(* (operator parameters, unlike LET definitions, are evaluated at most once by TLC) *)
XorShr(h, s) == XorW(h, ShrW(h, s))                                  \* h ^= h >> s
Mix32(k) == MulW(XorShr(MulW(k, M32), 24), M32)

Block(bytes, b, n) == SubSeq(bytes, n * (b - 1) + 1, n * b)          \* b-th (1-based) n-byte block
Body32(bytes, h0) ==                       \* left fold over the complete blocks
    FoldLeft(LAMBDA h, b : XorW(MulW(h, M32), Mix32(Block(bytes, b, 4))), h0, Indices(Len(bytes) \div 4))

Tail32(bytes, h) ==
    LET rem == Len(bytes) % 4 IN
    IF rem = 0 THEN h
    ELSE MulW(XorW(h, FromBytes(SubSeq(bytes, Len(bytes) - rem + 1, Len(bytes)), 4)), M32)

Final32(h) == XorShr(MulW(XorShr(h, 13), M32), 15)

Murmur2(bytes, seed) ==                    \* seed: 4 digits; result: 4 digits
    Final32(Tail32(bytes, Body32(bytes, XorW(seed, LenWord(bytes, 4)))))

----------------------------------------------------------------------------
(* MurmurHash64A:                                                           *)
(*   h = seed ^ (len * m)                                                   *)
(*   for each 8-byte block k:  k *= m; k ^= k >> 47; k *= m; h ^= k; h *= m *)
(*   tail (1..7 bytes): h ^= tail bytes as a little-endian number; h *= m   *)
(*   h ^= h >> 47; h *= m; h ^= h >> 47                                     *)

Mix64(k) == MulW(XorShr(MulW(k, M64), 47), M64)

Body64(bytes, h0) ==
    FoldLeft(LAMBDA h, b : MulW(XorW(h, Mix64(Block(bytes, b, 8))), M64), h0, Indices(Len(bytes) \div 8))

Tail64(bytes, h) ==
    LET rem == Len(bytes) % 8 IN
    IF rem = 0 THEN h
    ELSE MulW(XorW(h, FromBytes(SubSeq(bytes, Len(bytes) - rem + 1, Len(bytes)), 8)), M64)

Final64(h) == XorShr(MulW(XorShr(h, 47), M64), 47)

Murmur64A(bytes, seed) ==                  \* seed: 8 digits; result: 8 digits
    Final64(Tail64(bytes, Body64(bytes, XorW(seed, MulW(LenWord(bytes, 8), M64)))))

----------------------------------------------------------------------------
(* The three public functions of the header.  seed is always given as the   *)
(* 8-digit value the caller passed; murmur2_x86 takes a uint32_t (the low   *)
(* four digits).  hash_bytes returns std::size_t: MurmurHash64A where       *)
(* sizeof(std::size_t) = 8 and MurmurHash2 where it is 4 (the result        *)
(* zero-extended to 8 digits here).                                         *)

Murmur2X86(bytes, seed8) == Murmur2(bytes, Low(seed8, 4))
Murmur2X64(bytes, seed8) == Murmur64A(bytes, seed8)
HashBytes(bytes, seed8, szt) == IF szt = 8 THEN Murmur64A(bytes, seed8)
                                ELSE FromBytes(Murmur2(bytes, Low(seed8, 4)), 8)

----------------------------------------------------------------------------
(* MurmurHash2A (Appleby, same source file): the Merkle-Damgard variant.    *)
(*   mmix(h,k): k *= m; k ^= k >> 24; k *= m; h *= m; h ^= k                *)
(*   h = seed; for each 4-byte block k: mmix(h,k)                           *)
(*   t = the 0..3 tail bytes as a little-endian number; mmix(h,t);          *)
(*   l = len; mmix(h,l);  h ^= h >> 13; h *= m; h ^= h >> 15                *)
(* NOT one of the functions the property names.  It is here because it is   *)
(* what the header's branch for 32-bit platforms (INTPTR_MAX == INT32_MAX)  *)
(* of murmur_hash<8> computes (MurmurImpl32.tla is the transcription, TLC   *)
(* checks that it refines this definition), so that the ILP32 build of the  *)
(* driver can be compared with a description of the code (advisory) next to *)
(* the comparison with the statement's MurmurHash64A.                       *)
Mmix(h, k) == XorW(MulW(h, M32), Mix32(k))
TailWord32(bytes) == LET rem == Len(bytes) % 4 IN FromBytes(SubSeq(bytes, Len(bytes) - rem + 1, Len(bytes)), 4)
Murmur2A(bytes, seed) ==                   \* seed: 4 digits; result: 4 digits
    Final32(Mmix(Mmix(Body32(bytes, seed), TailWord32(bytes)), LenWord(bytes, 4)))

(* murmur2_x64 as the unchanged header computes it where sizeof(std::size_t) = 4: the uint64_t seed is converted   *)
(* to std::size_t (low four digits), MurmurHash2A is run, the 32-bit result is returned zero-extended              *)
X64OnILP32(bytes, seed8) == FromBytes(Murmur2A(bytes, Low(seed8, 4)), 8)

(* L2 note (advisory only, not part of the property): the header's fallback *)
(* for platforms with an unusual sizeof(std::size_t),                       *)
(*   hash = seed; for each char c: hash = hash * 131 + size_t(c)            *)
(* with plain (signed) char, i.e. bytes >= 0x80 are sign-extended.          *)
SignExt(b, n) == [i \in 1..n |-> IF i = 1 THEN b ELSE IF b >= 128 THEN 255 ELSE 0]
Poly131(bytes, seed8) == FoldLeft(LAMBDA h, c : AddW(MulW(h, FromNat(131, 8)), SignExt(c, 8)), seed8, bytes)
=============================================================================

----------------------------- MODULE AnyTrace -----------------------------
(* Trace validation for C06: every line of the ndjson trace recorded from real xtl::any       *)
(* objects (harness/any/driver.cpp) must be a step of Any (L1) - with the logged arguments,   *)
(* the logged element events, the logged result - and what the observers report afterwards    *)
(* (has_value, empty, type, the pointer any_cast over ALL candidate types, both overloads)    *)
(* must describe the spec's state.                                                            *)
EXTENDS Any, Json, IOUtils

CONSTANT Strict    \* TRUE: also demand the documented (not property-relevant) behaviour, see Any!CastDocOK - a rejection is advisory

VARIABLE l     \* next line of the trace to be explained

JsonTrace == ndJsonDeserialize(IOEnv.TRACE)
ExplainAt == atoi(IOEnv.EXPLAIN)

BADID == -3    \* has_value() is true but no any_cast finds the object

(* contents of the any objects as reported by the observers *)
A2of(st) == [k \in Anys |-> IF st[k].c = 0 THEN RAW
                            ELSE IF ~st[k].has THEN EMPTY
                            ELSE IF st[k].id >= 1 THEN st[k].id
                            ELSE IF st[k].ty \in UntrackedTypes /\ st[k].loc >= 1 THEN UNT ELSE BADID]
U2of(st) == [k \in Anys |-> IF A2of(st)[k] = UNT THEN [t |-> st[k].ty, v |-> st[k].v, loc |-> st[k].loc] ELSE NoU]
SpcOfLog(s) == [v \in {s[i].v : i \in 1..Len(s)} |-> (CHOOSE i \in 1..Len(s) : s[i].v = v) ]
Spc2of(s) == LET f == SpcOfLog(s) IN [v \in DOMAIN f |-> s[f[v]].n]

(* the observers agree with each other and with the lifetime bookkeeping *)
StOK(st, x, U, L) == \A k \in Anys : LET s == st[k] IN
    CASE x[k] = RAW   -> s.c = 0
      [] x[k] = EMPTY -> s.c = 1 /\ ~s.has /\ s.emp /\ s.ty = "void" /\ s.id = 0 /\ s.hits = <<>> /\ s.hitm = <<>>
      [] Has(x[k])    -> /\ s.c = 1 /\ s.has /\ ~s.emp /\ s.id = x[k]
                         /\ x[k] \in Live(L) /\ s.ty = L.typ[x[k]] /\ s.v = L.val[x[k]]
                         /\ s.hits = <<s.ty>> /\ s.hitm = <<s.ty>>      \* exactly the stored type is found, by both overloads
                         /\ s.al                                           \* at an address that is aligned for the type
      [] x[k] = UNT   -> /\ s.c = 1 /\ s.has /\ ~s.emp /\ s.id = 0
                         /\ s.ty = U[k].t /\ s.v = U[k].v /\ s.loc = U[k].loc
                         /\ s.hits = <<s.ty>> /\ s.hitm = <<s.ty>>
                         /\ s.al
      [] OTHER        -> FALSE

TInit ==
    /\ l = 1
    /\ Init

(* a new execution: all storage raw again; the line names the build the execution ran on *)
TReset(e) ==
    /\ a' = [k \in Anys |-> RAW]
    /\ u' = [k \in Anys |-> NoU]
    /\ lt' = NoObjects(e.a.hi)
    /\ env' = [noexc |-> e.a.noexc, mov |-> e.a.mov]
    /\ pre' = [a |-> a, u |-> u, lt |-> lt]
    /\ last' = [op |-> "Reset", k |-> 1, a |-> e.a, ev |-> <<>>, res |-> NoRes]

(* diagnostics for a rejected line: which part of CallOK fails *)
Explain(e) ==
    LET x == A2of(e.st)
        U == U2of(e.st)
        F == Fold(lt, e.ev, 1)
        preok == Pre(e.op, e.k, e.a)
        wf == IF F.ok THEN WFwith(x, F.L) /\ WFU(x, U, Spc2of(e.spc)) ELSE FALSE
    IN PrintT(<<"EXPECTED",
                [state_before |-> [a |-> a, u |-> u, lt |-> lt, env |-> env],
                 precondition |-> preok,
                 lifetime_events_ok |-> F.ok,
                 first_bad_event |-> F.at,
                 bad_event |-> IF F.ok THEN <<>> ELSE e.ev[F.at],
                 lifetimes_at_that_point |-> F.L,
                 no_leak_no_dangling_independent |-> wf,
                 postcondition |-> IF F.ok /\ preok /\ wf
                                     THEN Post(e.op, e.k, e.a, World(a, u, lt), World(x, U, F.L), e.res, Threw(e.ev)) ELSE FALSE,
                 observers_consistent |-> IF F.ok THEN StOK(e.st, x, U, F.L) ELSE FALSE,
                 storage_returned |-> HeapOK(x, e.heap),
                 documented_cast_events |-> CastDocOK(e.op, e.k, e.a, e.ev, e.res)]>>)

TNext ==
    /\ l <= Len(JsonTrace)
    /\ LET e == JsonTrace[l] IN
         IF e.op = "Reset" THEN TReset(e)
         ELSE IF e.op \in {"Crash", "CrashIn"}                 \* the harness died inside the previous call: never accepted
           THEN l = ExplainAt /\ PrintT(<<"EXPECTED", "the call returns (no crash, sanitizer report, std::terminate or endless loop)">>) /\ UNCHANGED vars
         ELSE IF e.op = "Desync"                                 \* the script left the C++ preconditions: nothing to judge here
           THEN l = ExplainAt /\ PrintT(<<"EXPECTED", "a script that stays inside the preconditions of the calls", e.why>>) /\ UNCHANGED vars
         ELSE IF l = ExplainAt THEN Explain(e) /\ UNCHANGED vars
         ELSE /\ Step(e.op, e.k, e.a, e.ev, e.res, A2of(e.st), U2of(e.st), Spc2of(e.spc))
              /\ StOK(e.st, a', u', lt')
              /\ HeapOK(a', e.heap)
              /\ Strict => CastDocOK(e.op, e.k, e.a, e.ev, e.res)
    /\ l' = l + 1

TSpec == TInit /\ [][TNext]_<<vars, l>>
TraceAccepted == TLCGet("stats").diameter - 1 = Len(JsonTrace)
=============================================================================

SPECIFICATION Spec
CONSTANTS
  MaxBits = 12
  Widths = {8}
  MaxShift = 13
  Targets = {1, 2}
  OtherInit <- NoOther
  ILArgs <- RepILB
  LimbReps <- RepLimbs
  Classes <- SimClasses
  EmitOps <- NoEmit
CONSTRAINT SizeBound

SPECIFICATION Spec
CONSTANTS
  Mode = "grid"
  Ts <- AllTs
  FormsOn <- AllForms
  PatSet = "few"
  ExpSet = "few"
  STs <- FewSTs
INVARIANTS Laws

SPECIFICATION TSpec
CONSTANTS
  TrackedAlts = {}
  NTMAlts = {0, 1, 2, 3}
  Strict = TRUE
  Vals = {}
  MaxFuse = 0
  MaxEv = 0
  CallSet = {}
POSTCONDITION TraceAccepted
CHECK_DEADLOCK FALSE

SPECIFICATION Spec
CONSTANTS
  Mode = "classes"
INVARIANT Conforms

SPECIFICATION Spec
CONSTANTS
  NReg = 3
  Vals <- ValsDouble
  MCKinds <- KindsDouble
  Classes <- DoubleClasses
  MCFuns <- EveryFun
  Canonical = TRUE
  EmitOn = TRUE
ACTION_CONSTRAINT Emit

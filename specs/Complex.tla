------------------------------- MODULE Complex -------------------------------
(***************************************************************************)
(* L1 property specification for C10 (exactly decidable part):              *)
(* xtl::xcomplex arithmetic is complex arithmetic, for value closures,      *)
(* reference closures (T&), const reference closures (const T&),            *)
(* std::complex operands (through conversion) and real scalars.             *)
(*                                                                          *)
(* A register machine over exact Gaussian integers.  Memory is a sequence   *)
(* of 13 scalar cells (C++: objects of type T).  A register is a C++ object *)
(* that owns or refers to cells:                                            *)
(*    v1, v2 : xcomplex<T, T, B>              own cells (1,2) and (3,4)     *)
(*    w      : xcomplex<T, T, !B>             owns (5,6) - the other        *)
(*                                            ieee_compliant flag           *)
(*    r1     : xcomplex<T&, T&, B>            refers to lvalues p1,q1 (7,8) *)
(*    k1     : xcomplex<const T&,const T&,B>  refers to the same (7,8)      *)
(*    r2     : xcomplex<T&, T&, B>            refers to lvalues p2,q2 (9,10)*)
(*    s      : std::complex<T>                (11,12)                       *)
(*    d      : T (a real scalar)              (13)                          *)
(* Small integers are exactly representable in float and double and every   *)
(* operation below has an exactly representable result, so "mathematically  *)
(* correct to within rounding" is equality.  The spec is written from       *)
(* complex arithmetic (and C++ reference semantics), not from xtl's code;   *)
(* it is the same for T in {float,double} and B in {false,true}.            *)
(*                                                                          *)
(* Actions: construction (every constructor form), assignment (from a pair,  *)
(* a scalar, another closure kind, std::complex), writes through real() /    *)
(* imag() and xtl::real / xtl::imag, binary + - * / (complex, real on either  *)
(* side, std::complex), compound forms (complex, real, part of another       *)
(* object, std::complex), unary - and +, conj, proj, norm, read accessors in  *)
(* their four forms, == and !=, conversion to and from std::complex,          *)
(* operator<<, and the forwarded elementary functions (equal to <complex>'s). *)
(*                                                                          *)
(* Every public call is one action; its C++ arguments are the action        *)
(* parameters, recorded with the expected result in the ghost variable      *)
(* last; pre is the memory before the call.                                 *)
(***************************************************************************)
EXTENDS Integers, Sequences, FiniteSets, TLC, Json

CONSTANTS MaxAbs,    \* bound on |component| of every stored or returned value (exactness envelope)
          Vals,      \* integers used for operand components / literal arguments by the model checker
          Classes,   \* operation classes enabled in the model checker's next-state relation
          LRegs,     \* registers the model checker uses as left operand / target
          RRegs,     \* registers the model checker uses as right operand
          ScalarTs,  \* C++ types of scalar operands the model checker uses (subset of SCTypes)
          OneStep,   \* TRUE = the model checker only takes steps out of initial states
          EmitOn     \* S->C: TRUE = write every transition out of an initial state as JSON (see Emit)

VARIABLES mem,   \* mem[c], c \in 1..13 : the value of scalar cell c
          last,  \* ghost: [op, a, res] of the call just performed
          pre    \* ghost: mem before that call

vars == <<mem, last, pre>>

NCells == 13
CRegs  == {"v1", "v2", "w", "r1", "r2", "k1"}        \* xcomplex objects
MRegs  == {"v1", "v2", "w", "r1", "r2"}              \* ... that can be modified through themselves
VRegs  == {"v1", "v2", "w"}                          \* value closures (own their parts)
RefRegs == {"r1", "r2"}                              \* T& closures
ReC    == [v1 |-> 1, v2 |-> 3, w |-> 5, r1 |-> 7, k1 |-> 7, r2 |-> 9, s |-> 11, d |-> 13]
Kind   == [v1 |-> "val", v2 |-> "val", w |-> "val", r1 |-> "ref", r2 |-> "ref", k1 |-> "cref",
           s |-> "std", d |-> "real"]
Ops    == {"add", "sub", "mul", "div"}

Abs(n) == IF n < 0 THEN -n ELSE n
MaxOf(a, b) == IF a < b THEN b ELSE a
MinOf(a, b) == IF a < b THEN a ELSE b

----------------------------------------------------------------------------
(* Gaussian integers as pairs <<re, im>>.                                   *)
GAdd(x, y)  == <<x[1] + y[1], x[2] + y[2]>>
GSub(x, y)  == <<x[1] - y[1], x[2] - y[2]>>
GMul(x, y)  == <<x[1] * y[1] - x[2] * y[2], x[1] * y[2] + x[2] * y[1]>>
GNeg(x)     == <<0 - x[1], 0 - x[2]>>
GConj(x)    == <<x[1], 0 - x[2]>>
GNorm(x)    == x[1] * x[1] + x[2] * x[2]
GReal(n)    == <<n, 0>>
(* x / y is defined here only where the quotient is a Gaussian integer: x = q * y *)
GNumRe(x, y) == x[1] * y[1] + x[2] * y[2]
GNumIm(x, y) == x[2] * y[1] - x[1] * y[2]
GDivisible(x, y) == /\ GNorm(y) # 0
                    /\ GNumRe(x, y) % GNorm(y) = 0
                    /\ GNumIm(x, y) % GNorm(y) = 0
GDiv(x, y)  == <<GNumRe(x, y) \div GNorm(y), GNumIm(x, y) \div GNorm(y)>>
(* Equality is demanded of a quotient only where EVERY reasonable algorithm is exact: the        *)
(* divisor's squared modulus is a power of two (the divisor is a power of two times 1, i, 1+i,  *)
(* 1-i or their negatives).  Then the textbook formula, the scaled (Annex G) one, Smith's        *)
(* algorithm and also a multiplication by the reciprocal of the squared modulus (which is exact  *)
(* only for a power of two) all return the exactly representable quotient.  Other exact          *)
(* quotients ((6+3i)/3, (3+4i)/(1+2i)) are checked in ComplexExact.tla to within a few ulps,      *)
(* which is all the property asks for there.                                                      *)
RECURSIVE IsPow2(_)
IsPow2(n) == IF n = 1 THEN TRUE ELSE (n > 1 /\ n % 2 = 0 /\ IsPow2(n \div 2))
DyadicRatio(y) == LET mx == MaxOf(Abs(y[1]), Abs(y[2]))  mn == MinOf(Abs(y[1]), Abs(y[2]))
                  IN mx # 0 /\ (mn * 1024) % mx = 0
DivOK(x, y) == GDivisible(x, y) /\ DyadicRatio(y) /\ IsPow2(GNorm(y))

Apply(o, x, y) == CASE o = "add" -> GAdd(x, y)
                    [] o = "sub" -> GSub(x, y)
                    [] o = "mul" -> GMul(x, y)
                    [] o = "div" -> GDiv(x, y)
Defined(o, x, y) == o = "div" => DivOK(x, y)
InB(z) == Abs(z[1]) <= MaxAbs /\ Abs(z[2]) <= MaxAbs
(* intermediates of * and / stay below 2^24 (exact in float) when operands are within MaxAbs <= 2^10 *)

----------------------------------------------------------------------------
(* Registers and memory.                                                    *)
ValOf(m, r) == IF r = "d" THEN <<m[13], 0>> ELSE <<m[ReC[r]], m[ReC[r] + 1]>>
V(r)        == ValOf(mem, r)
Store(r, z) == [mem EXCEPT ![ReC[r]] = z[1], ![ReC[r] + 1] = z[2]]
CellsOf(r)  == IF r = "d" THEN {13} ELSE {ReC[r], ReC[r] + 1}

(* What every observer reports (compared after each call): all 13 cells read directly        *)
(* (value closures and std::complex through their const accessors, referents and the scalar  *)
(* as plain lvalues), and the parts read through the reference closures.                      *)
ProjOf(m) == [cells |-> m,
              via   |-> [r1 |-> <<m[7], m[8]>>, k1 |-> <<m[7], m[8]>>, r2 |-> <<m[9], m[10]>>]]
ProjAll == ProjOf(mem)

Self == [self |-> TRUE]      \* compound assignment returns *this
None == 0

Do(op, a, newmem, res) ==
    /\ pre'  = mem
    /\ mem'  = newmem
    /\ last' = [op |-> op, a |-> a, res |-> res]
Obs(op, a, res) == Do(op, a, mem, res)

----------------------------------------------------------------------------
(* Direct initialisation of all cells (the harness rebuilds every object).  *)
Load(c) == /\ Len(c) = NCells
           /\ \A i \in 1..NCells : Abs(c[i]) <= MaxAbs
           /\ Do("Load", [c |-> c], c, None)

(* x = xcomplex<T,T,B>(re, im)  : assignment from a temporary of the same value type *)
SetVal(x, re, im) == /\ x \in VRegs /\ InB(<<re, im>>)
                     /\ Do("SetVal", [x |-> x, re |-> re, im |-> im], Store(x, <<re, im>>), None)

(* x.real() = n / x.imag() = n (via "member"), xtl::real(x) = n / xtl::imag(x) = n (via "free").    *)
(* For reference closures this writes the referent.  For s (std::complex) only the free functions  *)
(* exist (forward_offset); for the scalar d only xtl::real(d) = n.                                  *)
PartTargets(via, part) == IF via = "member" THEN MRegs
                          ELSE IF part = "re" THEN MRegs \cup {"s", "d"} ELSE MRegs \cup {"s"}
SetPart(x, part, via, n) ==
    /\ via \in {"member", "free"} /\ part \in {"re", "im"} /\ x \in PartTargets(via, part) /\ Abs(n) <= MaxAbs
    /\ Do("SetPart", [x |-> x, part |-> part, via |-> via, n |-> n],
          [mem EXCEPT ![IF part = "re" THEN ReC[x] ELSE ReC[x] + 1] = n], None)

(* C++ types of a real operand: the element type itself, int, long, and the two floating types   *)
(* (for T = float "double" is the wider, for T = double "float" the narrower one; "T" is passed  *)
(* as the lvalue d, the others as objects of that type holding the same small integer).          *)
SCTypes == {"T", "int", "long", "float", "double"}

(* x = n  (n of scalar type st): real part n, imaginary part zero *)
AssignScalar(x, n, st) ==
    /\ x \in MRegs /\ st \in SCTypes /\ Abs(n) <= MaxAbs
    /\ Do("AssignScalar", [x |-> x, n |-> n, st |-> st], Store(x, <<n, 0>>), Self)

(* x = y between xcomplex objects of any closure kind.  A T& closure cannot be assigned from an    *)
(* object of its own type (C++ deletes the copy assignment of a class with reference members), so  *)
(* that combination is not a call the machine can make.                                             *)
Assignable(x, y) == ~(Kind[x] = "ref" /\ Kind[y] = "ref")
Assign(x, y) == /\ x \in MRegs /\ y \in CRegs /\ Assignable(x, y)
                /\ Do("Assign", [x |-> x, y |-> y], Store(x, V(y)), Self)

(* x = std::move(t), t a value closure holding y's parts (the rvalue assignment operator)           *)
AssignMove(x, y) == /\ x \in MRegs /\ y \in CRegs
                    /\ Do("AssignMove", [x |-> x, y |-> y], Store(x, V(y)), Self)
(* std::swap(x, y) of two value closures of the same type (also x = y: a no-op)                      *)
Swap(x, y) == /\ x \in {"v1", "v2"} /\ y \in {"v1", "v2"}
              /\ Do("Swap", [x |-> x, y |-> y], [mem EXCEPT ![ReC[x]] = mem[ReC[y]], ![ReC[x] + 1] = mem[ReC[y] + 1],
                                                            ![ReC[y]] = mem[ReC[x]], ![ReC[y] + 1] = mem[ReC[x] + 1]], None)

(* new (&x) xcomplex<T,T,B>(p, q) from the lvalues a reference closure refers to: a value closure *)
(* copies, it does not alias                                                                        *)
CtorLv(x, y) == /\ x \in {"v1", "v2"} /\ y \in RefRegs
                /\ Do("CtorLv", [x |-> x, y |-> y], Store(x, V(y)), None)

(* x = s (implicit conversion std::complex -> xcomplex, value closures) ;  s = x (conversion operator) *)
FromStd(x) == /\ x \in VRegs
              /\ Do("FromStd", [x |-> x], Store(x, V("s")), None)
ToStd(x)   == /\ x \in CRegs
              /\ Do("ToStd", [x |-> x], Store("s", V(x)), None)

----------------------------------------------------------------------------
(* Binary operators (results are temporaries: no cell changes).             *)
Bin(o, x, y) == /\ o \in Ops /\ x \in CRegs /\ y \in CRegs
                /\ Defined(o, V(x), V(y)) /\ InB(Apply(o, V(x), V(y)))
                /\ Obs("Bin", [o |-> o, x |-> x, y |-> y], Apply(o, V(x), V(y)))

(* mixed real/complex: side "r": x o d ; side "l": d o x ; the scalar has type st *)
ScalarArgs(x, side) == IF side = "r" THEN <<V(x), V("d")>> ELSE <<V("d"), V(x)>>
BinS(o, x, side, st) ==
    /\ o \in Ops /\ x \in CRegs /\ side \in {"l", "r"} /\ st \in SCTypes
    /\ LET p == ScalarArgs(x, side) IN
         /\ Defined(o, p[1], p[2]) /\ InB(Apply(o, p[1], p[2]))
         /\ Obs("BinS", [o |-> o, x |-> x, side |-> side, st |-> st], Apply(o, p[1], p[2]))

(* std::complex operand: "conv_r": x o xcomplex(s) ; "conv_l": xcomplex(s) o x ; "direct": x o s   *)
(* (the result of the direct form is a std::complex)                                                *)
StdArgs(x, form) == IF form = "conv_l" THEN <<V("s"), V(x)>> ELSE <<V(x), V("s")>>
BinStd(o, x, form) ==
    /\ o \in Ops /\ x \in CRegs /\ form \in {"conv_r", "conv_l", "direct"}
    /\ LET p == StdArgs(x, form) IN
         /\ Defined(o, p[1], p[2]) /\ InB(Apply(o, p[1], p[2]))
         /\ Obs("BinStd", [o |-> o, x |-> x, form |-> form], Apply(o, p[1], p[2]))

(* Compound assignment x o= y.  Through a reference closure the referents change; a value closure *)
(* changes only itself.  Operands are read before anything is written (x o= x, r1 o= k1).          *)
Cmp(o, x, y) == /\ o \in Ops /\ x \in MRegs /\ y \in CRegs
                /\ Defined(o, V(x), V(y)) /\ InB(Apply(o, V(x), V(y)))
                /\ Do("Cmp", [o |-> o, x |-> x, y |-> y], Store(x, Apply(o, V(x), V(y))), Self)
CmpS(o, x, st) == /\ o \in Ops /\ x \in MRegs /\ st \in SCTypes
                  /\ Defined(o, V(x), V("d")) /\ InB(Apply(o, V(x), V("d")))
                  /\ Do("CmpS", [o |-> o, x |-> x, st |-> st], Store(x, Apply(o, V(x), V("d"))), Self)
(* x o= p where the real operand p is an lvalue: the real or imaginary part of register y.  When y   *)
(* shares cells with x (y = x, or r1 and k1) the operand aliases the target: mathematically the     *)
(* operand is the value it had before the call ("aliased" = TRUE; std::complex<float|double> takes   *)
(* the scalar by value and so behaves like this).                                                    *)
Aliased(x, y) == CellsOf(x) \cap CellsOf(y) # {}
CmpP(o, x, y, part) ==
    /\ o \in Ops /\ x \in MRegs /\ y \in CRegs /\ part \in {"re", "im"}
    /\ LET sc == GReal(IF part = "re" THEN V(y)[1] ELSE V(y)[2]) IN
         /\ Defined(o, V(x), sc) /\ InB(Apply(o, V(x), sc))
         /\ Do("CmpP", [o |-> o, x |-> x, y |-> y, part |-> part], Store(x, Apply(o, V(x), sc)), Self)
CmpStd(o, x) == /\ o \in Ops /\ x \in MRegs
                /\ Defined(o, V(x), V("s")) /\ InB(Apply(o, V(x), V("s")))
                /\ Do("CmpStd", [o |-> o, x |-> x], Store(x, Apply(o, V(x), V("s"))), Self)

----------------------------------------------------------------------------
(* Unary operators and forwarded functions that are exact on Gaussian integers:                     *)
(* -x, +x, conj(x), proj(x) (identity on finite values), xcomplex<T,T,B>(x) (explicit conversion to *)
(* a value closure; also from s), norm(x).                                                          *)
UnFns == {"neg", "pos", "conj", "proj", "val"}
UnVal(f, z) == CASE f = "neg" -> GNeg(z) [] f = "conj" -> GConj(z) [] OTHER -> z
Un(f, x) == /\ f \in UnFns /\ (x \in CRegs \/ (f = "val" /\ x = "s"))
            /\ Obs("Un", [f |-> f, x |-> x], UnVal(f, V(x)))
Norm(x)  == /\ x \in CRegs /\ GNorm(V(x)) <= MaxAbs * MaxAbs
            /\ Obs("Norm", [x |-> x], GNorm(V(x)))

(* real()/imag() read accessors: non-const member, const member, xtl::real/xtl::imag on a const    *)
(* lvalue, member on an rvalue copy.  s and d only have the free functions (imag(d) is 0).         *)
PartVias == {"member", "cmember", "free", "rvalue"}
Part(x, part, via) ==
    /\ part \in {"re", "im"} /\ via \in PartVias
    /\ (x \in CRegs \/ (x \in {"s", "d"} /\ via = "free"))
    /\ Obs("Part", [x |-> x, part |-> part, via |-> via], IF part = "re" THEN V(x)[1] ELSE V(x)[2])

(* == and != compare both parts.  Against std::complex: "conv": x == xcomplex(s), "tostd":        *)
(* std::complex(x) == s ; against a real: x == xcomplex(d), i.e. (d, 0).                            *)
Eq(ne, x, y) == /\ ne \in BOOLEAN /\ x \in CRegs /\ y \in CRegs
                /\ Obs("Eq", [ne |-> ne, x |-> x, y |-> y], (V(x) = V(y)) # ne)
EqStd(ne, x, form) == /\ ne \in BOOLEAN /\ x \in CRegs /\ form \in {"conv", "tostd"}
                      /\ Obs("EqStd", [ne |-> ne, x |-> x, form |-> form], (V(x) = V("s")) # ne)
EqReal(ne, x) == /\ ne \in BOOLEAN /\ x \in CRegs
                 /\ Obs("EqReal", [ne |-> ne, x |-> x], (V(x) = V("d")) # ne)

(* Constructors (the result is a fresh object whose parts are read back):                          *)
(*   default: V()  scalar: V(d)  scalar_int: V(int(d))  pair: V(d, real(s))  copy: V(v1)            *)
(*   move: V(std::move(copy of v2))  std: V(s)  stdmove: V(std::move(copy of s))                    *)
(*   ref: xcomplex<T&,T&,B>(p2, q2)  cref: xcomplex<const T&,const T&,B>(p2, q2)                    *)
CtorForms == {"default", "scalar", "scalar_int", "pair", "copy", "move", "std", "stdmove", "ref", "cref"}
CtorVal(f) == CASE f = "default" -> <<0, 0>>
                [] f \in {"scalar", "scalar_int"} -> <<mem[13], 0>>
                [] f = "pair" -> <<mem[13], mem[11]>>
                [] f = "copy" -> V("v1")
                [] f = "move" -> V("v2")
                [] f \in {"std", "stdmove"} -> V("s")
                [] f \in {"ref", "cref"} -> V("r2")
Ctor(f) == /\ f \in CtorForms
           /\ Obs("Ctor", [f |-> f], CtorVal(f))

(* operator<< writes "(re,im)".  The sign of a zero part is not modelled (0 and -0 print            *)
(* differently), so the call is only made when both parts are non-zero.                              *)
StrOf(z) == "(" \o ToString(z[1]) \o "," \o ToString(z[2]) \o ")"
Str(x) == /\ x \in CRegs /\ V(x)[1] # 0 /\ V(x)[2] # 0
          /\ Obs("Str", [x |-> x], StrOf(V(x)))

(* The forwarded elementary functions "equal std::complex's": the call returns whatever the same   *)
(* function of <complex> returns for std::complex<T>(x) (and y: the second operand, an xcomplex     *)
(* register or the scalar d).  L1 cannot compute that value; the harness logs the bits of both      *)
(* results and the trace specification demands that they are the same.                               *)
Fwd1 == {"abs", "arg", "norm", "conj", "proj", "exp", "log", "log10", "sqrt", "sin", "cos", "tan", "asin", "acos", "atan",
         "sinh", "cosh", "tanh", "asinh", "acosh", "atanh"}
Fwd2 == {"pow_cc", "pow_cs", "pow_sc"}
Forwarded == "as std::complex"
Fwd(fn, x, y) == /\ x \in CRegs
                 /\ \/ fn \in Fwd1 /\ y = x
                    \/ fn = "pow_cc" /\ y \in CRegs
                    \/ fn \in {"pow_cs", "pow_sc"} /\ y = "d"
                 /\ Obs("Fwd", [fn |-> fn, x |-> x, y |-> y], Forwarded)

----------------------------------------------------------------------------
(* Model checker's next-state relation.                                     *)
Sides == {"l", "r"}
STs   == ScalarTs
NextOf(C) ==
    \/ /\ "bin" \in C /\ \E o \in Ops, x \in LRegs \cap CRegs, y \in RRegs \cap CRegs : Bin(o, x, y)
    \/ /\ "bins" \in C /\ \E o \in Ops, x \in LRegs \cap CRegs, sd \in Sides, st \in STs : BinS(o, x, sd, st)
    \/ /\ "binstd" \in C /\ \E o \in Ops, x \in LRegs \cap CRegs, f \in {"conv_r", "conv_l", "direct"} : BinStd(o, x, f)
    \/ /\ "cmp" \in C /\ \E o \in Ops, x \in LRegs \cap MRegs, y \in RRegs \cap CRegs : Cmp(o, x, y)
    \/ /\ "cmps" \in C /\ \E o \in Ops, x \in LRegs \cap MRegs, st \in STs : CmpS(o, x, st)
    \/ /\ "cmpstd" \in C /\ \E o \in Ops, x \in LRegs \cap MRegs : CmpStd(o, x)
    \/ /\ "cmpp" \in C /\ \E o \in Ops, x \in LRegs \cap MRegs, y \in RRegs \cap CRegs, p \in {"re", "im"} : ~Aliased(x, y) /\ CmpP(o, x, y, p)
    \/ /\ "alias" \in C /\ \E o \in Ops, x \in LRegs \cap MRegs, y \in RRegs \cap CRegs, p \in {"re", "im"} : Aliased(x, y) /\ CmpP(o, x, y, p)
    \/ /\ "un" \in C /\ ((\E f \in UnFns, x \in LRegs \cap CRegs : Un(f, x)) \/ Un("val", "s")
                           \/ (\E x \in LRegs \cap CRegs : Norm(x)))
    \/ /\ "part" \in C /\ ((\E x \in LRegs \cap CRegs, p \in {"re", "im"}, v \in PartVias : Part(x, p, v))
                             \/ (\E x \in {"s", "d"}, p \in {"re", "im"} : Part(x, p, "free")))
    \/ /\ "eq" \in C /\ ((\E ne \in BOOLEAN, x \in LRegs \cap CRegs, y \in RRegs \cap CRegs : Eq(ne, x, y))
                           \/ (\E ne \in BOOLEAN, x \in LRegs \cap CRegs, f \in {"conv", "tostd"} : EqStd(ne, x, f))
                           \/ (\E ne \in BOOLEAN, x \in LRegs \cap CRegs : EqReal(ne, x)))
    \/ /\ "assign" \in C /\ ((\E x \in LRegs \cap MRegs, y \in RRegs \cap CRegs : Assign(x, y))
                               \/ (\E x \in LRegs \cap MRegs, n \in Vals, st \in STs : AssignScalar(x, n, st))
                               \/ (\E x \in LRegs \cap VRegs, n \in Vals, m \in Vals : SetVal(x, n, m))
                               \/ (\E x \in LRegs \cap {"v1", "v2"}, y \in RefRegs : CtorLv(x, y))
                               \/ (\E x \in LRegs \cap MRegs, y \in RRegs \cap CRegs : AssignMove(x, y))
                               \/ (\E x \in LRegs \cap {"v1", "v2"}, y \in RRegs \cap {"v1", "v2"} : Swap(x, y)))
    \/ /\ "setpart" \in C /\ \E x \in (LRegs \cap MRegs) \cup {"s", "d"}, p \in {"re", "im"}, v \in {"member", "free"}, n \in Vals :
                                  SetPart(x, p, v, n)
    \/ /\ "std" \in C /\ ((\E x \in LRegs \cap VRegs : FromStd(x)) \/ (\E x \in LRegs \cap CRegs : ToStd(x)))
    \/ /\ "ctor" \in C /\ \E f \in CtorForms : Ctor(f)
    \/ /\ "str" \in C /\ \E x \in LRegs \cap CRegs : Str(x)
    \/ /\ "fwd" \in C /\ ((\E fn \in Fwd1, x \in LRegs \cap CRegs : Fwd(fn, x, x))
                            \/ (\E x \in LRegs \cap CRegs, y \in RRegs \cap CRegs : Fwd("pow_cc", x, y))
                            \/ (\E fn \in {"pow_cs", "pow_sc"}, x \in LRegs \cap CRegs : Fwd(fn, x, "d")))

Next == (OneStep => last.op = "Init") /\ NextOf(Classes)

(* Initial states of the model checker: two independent Gaussian integers X, Y laid out so that     *)
(* every register holds some pair of their components (all pairs of values occur for (v1, v2)).     *)
Layout(x1, x2, y1, y2) == <<x1, x2,  y1, y2,  y2, x1,  x2, y1,  y1, x1,  y2, y1,  y2>>
Init == /\ \E x1 \in Vals, x2 \in Vals, y1 \in Vals, y2 \in Vals : mem = Layout(x1, x2, y1, y2)
        /\ last = [op |-> "Init", a |-> [z |-> 0], res |-> None]
        /\ pre = mem

Spec == Init /\ [][Next]_vars

(* S->C enumeration (OneStep): each transition out of an initial state is written as one JSON line *)
(* (memory before the call, the call) from which replay scripts are built.                          *)
Emit == /\ last.op = "Init"
        /\ (EmitOn => PrintT("@E@" \o ToJson([p |-> pre', l |-> [op |-> last'.op, a |-> last'.a]])))

----------------------------------------------------------------------------
(* Invariants and theorems of the specification itself (guard the oracle).  *)
TypeOK == /\ Len(mem) = NCells /\ \A i \in 1..NCells : mem[i] \in Int /\ Abs(mem[i]) <= MaxAbs

GI == Vals \X Vals
Laws == \A x \in GI : \A y \in GI :
    /\ GMul(x, y) = GMul(y, x) /\ GAdd(x, y) = GAdd(y, x)
    /\ GSub(GAdd(x, y), y) = x
    /\ GNorm(GMul(x, y)) = GNorm(x) * GNorm(y)
    /\ GConj(GMul(x, y)) = GMul(GConj(x), GConj(y))
    /\ GMul(x, GConj(x)) = <<GNorm(x), 0>>
    /\ GNeg(x) = GMul(<<0 - 1, 0>>, x)
    /\ (GNorm(y) # 0 => GDivisible(GMul(x, y), y) /\ GDiv(GMul(x, y), y) = x)
    /\ (GDivisible(x, y) => GMul(GDiv(x, y), y) = x)
    /\ \A z \in GI : GMul(x, GAdd(y, z)) = GAdd(GMul(x, y), GMul(x, z))
    /\ (DivOK(x, y) => GMul(GDiv(x, y), y) = x /\ y # <<0, 0>>)

(* a call changes only the cells of the register it targets: value closures never alias, reference *)
(* closures write exactly their referents, observers change nothing                                  *)
ObserverOps == {"Bin", "BinS", "BinStd", "Un", "Norm", "Part", "Eq", "EqStd", "EqReal", "Ctor", "Str", "Fwd"}
Target(l) == IF l.op = "ToStd" THEN "s" ELSE IF l.op \in {"Ctor", "Reset"} THEN "d" ELSE l.a.x
Frame == [][/\ (last'.op \in ObserverOps => mem' = mem)
            /\ (last'.op \notin ObserverOps \cup {"Load"} =>
                  \A c \in 1..NCells : mem'[c] # mem[c] =>
                      c \in CellsOf(Target(last')) \cup (IF last'.op = "Swap" THEN CellsOf(last'.a.y) ELSE {}))]_vars
(* r1 and k1 are views of the same referents, at every moment *)
Aliases == ValOf(mem, "r1") = ValOf(mem, "k1")
=============================================================================

SPECIFICATION Spec
CONSTANTS
  Caps = {2}
  Policies = {"throwing"}
  Layouts = {"packed", "strlen"}
  Chars <- Chars012
  Lits <- LitsFew
  PosDom <- Pos2q
  SubDom <- SubFewer
  Targets = {1}
  OtherInit <- NoOther
  Classes <- AllClassesOv
  EmitOps <- NoEmit
VIEW absvars
INVARIANTS TypeOK Laws
PROPERTIES FailedChangesNothing ObserversPure ReturnedIteratorInRange

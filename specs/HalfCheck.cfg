SPECIFICATION Spec
INVARIANT Conforms
ALIAS Explain
CHECK_DEADLOCK FALSE

SPECIFICATION Spec
CONSTANTS
  P <- Measured
  MaxPack = 4
  MaxArgs = 4
INVARIANT TypeOK
ACTION_CONSTRAINT Emit

SPECIFICATION Spec
CONSTANTS
  Base <- MeasuredBase
  Depths <- D3
  Totals <- TotalsQ
  Extras = {0, 3}
  Patterns <- PatQ
  Vias <- ViaQ
  NameMax = 255
  PathMax = 4095
INVARIANT TypeOK
ACTION_CONSTRAINT Emit

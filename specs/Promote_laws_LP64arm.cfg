SPECIFICATION Spec
CONSTANTS
  P <- LP64arm
  MaxPack = 2
  MaxArgs = 3
INVARIANT TypeOK

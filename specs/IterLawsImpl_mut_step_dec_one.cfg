SPECIFICATION Spec
CONSTANTS
  MaxN = 3
  Steps = {1, 2}
  Impls <- StepOnly
  W = 3
  Mutant = "step_dec_one"
VIEW absview
INVARIANTS RepInv ObserversAgree
PROPERTIES Refines

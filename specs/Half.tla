-------------------------------- MODULE Half --------------------------------
(* IEEE 754-2008 binary16 ("half") as a TLA+ theory: the L1 oracle for the     *)
(* properties C08 and C09 of xtl's half_float::half.                           *)
(*                                                                             *)
(* Written from IEEE 754-2008 (sections 3.4 formats, 4.3.1 roundTiesToEven,    *)
(* 5.4 arithmetic, 5.3.1 nextUp/remainder, 6.1-6.3 infinities, NaNs, signs of  *)
(* zero, 7.2 invalid operations) and from ISO C99/C11 7.12 + Annex F for the   *)
(* <math.h> functions.  Nothing here is transcribed from xtl.                  *)
(*                                                                             *)
(* A half is its bit pattern, an integer in 0..65535:                          *)
(*      bit 15 sign | bits 14..10 biased exponent (bias 15) | bits 9..0 frac   *)
(* A finite half h has the value (-1)^SignOf(h) * Mant(h) * 2^Exp(h) with      *)
(* Mant an integer < 2^11.  All operators are variable-free (constant level),  *)
(* so the module can be EXTENDed by specs with their own variables.            *)
(*                                                                             *)
(* NaN results: IEEE leaves the payload (and C the sign) of a produced NaN     *)
(* unspecified; every operator here returns the canonical QNaN and callers     *)
(* compare with SameH, which identifies all NaNs.                              *)
(* Only the default rounding direction (roundTiesToEven) is modelled; status   *)
(* flags are not modelled.                                                     *)
EXTENDS HalfWide

Halves == 0..65535

PosZero == 0
NegZero == 32768
PosInf  == 31744            \* 0x7C00
NegInf  == 64512            \* 0xFC00
QNaN    == 32256            \* 0x7E00, the canonical NaN returned by this module
One     == 15360            \* 0x3C00
MaxFinite == 31743          \* 0x7BFF = 65504

SignOf(h) == h \div 32768
AbsOf(h)  == h % 32768
ExpOf(h)  == (h \div 1024) % 32
FracOf(h) == h % 1024

IsNaN(h)       == AbsOf(h) > 31744
IsInf(h)       == AbsOf(h) = 31744
IsZero(h)      == AbsOf(h) = 0
IsFinite(h)    == ExpOf(h) # 31
IsNormal(h)    == ExpOf(h) # 0 /\ ExpOf(h) # 31
IsSubnormal(h) == ExpOf(h) = 0 /\ FracOf(h) # 0
SignBit(h)     == SignOf(h) = 1
FpClassify(h)  == IF IsNaN(h) THEN "nan" ELSE IF IsInf(h) THEN "infinite"
                  ELSE IF IsZero(h) THEN "zero" ELSE IF ExpOf(h) = 0 THEN "subnormal" ELSE "normal"

(* sign-bit operations (IEEE 5.5.1: they act on NaNs too, bit-exactly) *)
Neg(h)         == (h + 32768) % 65536
Fabs(h)        == AbsOf(h)
CopySign(x, y) == AbsOf(x) + 32768 * SignOf(y)
WithSign(s, a) == 32768 * s + a
Zero(s)        == 32768 * s
Inf(s)         == 32768 * s + 31744

(* finite h: value = (-1)^s * Mant * 2^Exp *)
Mant(h) == IF ExpOf(h) = 0 THEN FracOf(h) ELSE 1024 + FracOf(h)
Exp(h)  == IF ExpOf(h) = 0 THEN -24 ELSE ExpOf(h) - 25

(* the same value with the significand normalised into [2^10, 2^11) (h finite, non-zero) *)
NMant(h) == Mant(h) * Pow2(11 - BitLen(Mant(h)))
NExp(h)  == Exp(h) - (11 - BitLen(Mant(h)))

(* equality of results: all NaNs are one result *)
SameH(a, b) == IF IsNaN(b) THEN IsNaN(a) ELSE a = b

(* total order key on non-NaN halves with -0 = +0 *)
Ord(h) == IF SignOf(h) = 1 THEN -AbsOf(h) ELSE AbsOf(h)

(* ------------------------------------------------------------------------ *)
(* RoundPack: roundTiesToEven of a non-negative real v to binary16, with      *)
(* gradual underflow and overflow to infinity (IEEE 4.3.1, 7.4, 7.5).         *)
(*   v = m * 2^e                    if ~sticky                                *)
(*   m * 2^e < v < (m+1) * 2^e      if  sticky                                *)
(* 0 <= m < 2^30.  With sticky the caller must supply at least 12 significant *)
(* bits in m (checked by the Assert), so that the unknown part lies strictly  *)
(* below the guard bit.                                                       *)
RoundPack(s, m, e, sticky) ==
    IF m = 0 THEN Zero(s)
    ELSE
    LET L  == BitLen(m)
        q  == Max(L - 11 + e, -24)        \* exponent of the result's unit in the last place
        sh == q - e                       \* number of low bits of m to drop
    IN  IF sh <= 0
          THEN \* exact: m * 2^(-sh) < 2^11 units of 2^q
               IF sticky THEN Assert(FALSE, <<"RoundPack: sticky without guard bits", m, e>>)
               ELSE LET mm == m * Pow2(-sh) IN
                    IF mm < 1024 THEN WithSign(s, mm)
                    ELSE IF q + 25 >= 31 THEN Inf(s) ELSE WithSign(s, (q + 25) * 1024 + (mm - 1024))
        ELSE IF sh > L THEN Zero(s)       \* v < 2^(e+L) <= half a unit of the smallest subnormal
        ELSE
          LET keep == m \div Pow2(sh)
              rem  == m % Pow2(sh)
              half == Pow2(sh - 1)
              up   == rem > half \/ (rem = half /\ (sticky \/ keep % 2 = 1))
              mm   == keep + (IF up THEN 1 ELSE 0)          \* <= 2^11
              q2   == IF mm = 2048 THEN q + 1 ELSE q
              m2   == IF mm = 2048 THEN 1024 ELSE mm
          IN  IF m2 < 1024 THEN WithSign(s, m2)         \* subnormal (q = -24)
              ELSE IF q2 + 25 >= 31 THEN Inf(s)              \* overflow
              ELSE WithSign(s, (q2 + 25) * 1024 + (m2 - 1024))

(* ------------------------------------------------------------------------ *)
(* Arithmetic (IEEE 5.4.1).                                                  *)

(* exact sum of two finite halves, then one rounding; x + y with both zero or *)
(* an exact zero sum follow IEEE 6.3 (default rounding: +0 unless both -0)    *)
AddFinite(x, y) ==
    LET sx == SignOf(x)  sy == SignOf(y) IN
    IF IsZero(x) /\ IsZero(y) THEN (IF sx = 1 /\ sy = 1 THEN NegZero ELSE PosZero)
    ELSE IF IsZero(x) THEN y
    ELSE IF IsZero(y) THEN x
    ELSE
    LET xbig == Exp(x) > Exp(y) \/ (Exp(x) = Exp(y) /\ Mant(x) >= Mant(y))
        big  == IF xbig THEN x ELSE y
        sml  == IF xbig THEN y ELSE x
        d    == Exp(big) - Exp(sml)
        sub  == sx # sy
        r    == AlignSum(Mant(big), d, Mant(sml), sub)
    IN  IF r.m = 0 /\ ~r.st THEN PosZero
        ELSE RoundPack(SignOf(big), r.m, Exp(sml) + r.c, r.st)

Add(x, y) ==
    IF IsNaN(x) \/ IsNaN(y) THEN QNaN
    ELSE IF IsInf(x) /\ IsInf(y) THEN (IF SignOf(x) = SignOf(y) THEN x ELSE QNaN)
    ELSE IF IsInf(x) THEN x
    ELSE IF IsInf(y) THEN y
    ELSE AddFinite(x, y)

Sub(x, y) == IF IsNaN(x) \/ IsNaN(y) THEN QNaN ELSE Add(x, Neg(y))

Mul(x, y) ==
    LET s == (SignOf(x) + SignOf(y)) % 2 IN
    IF IsNaN(x) \/ IsNaN(y) THEN QNaN
    ELSE IF IsInf(x) \/ IsInf(y) THEN (IF IsZero(x) \/ IsZero(y) THEN QNaN ELSE Inf(s))
    ELSE IF IsZero(x) \/ IsZero(y) THEN Zero(s)
    ELSE RoundPack(s, Mant(x) * Mant(y), Exp(x) + Exp(y), FALSE)

Div(x, y) ==
    LET s == (SignOf(x) + SignOf(y)) % 2 IN
    IF IsNaN(x) \/ IsNaN(y) THEN QNaN
    ELSE IF IsInf(x) THEN (IF IsInf(y) THEN QNaN ELSE Inf(s))
    ELSE IF IsInf(y) THEN Zero(s)
    ELSE IF IsZero(y) THEN (IF IsZero(x) THEN QNaN ELSE Inf(s))
    ELSE IF IsZero(x) THEN Zero(s)
    ELSE LET num == NMant(x) * 8192            \* < 2^24
             q   == num \div NMant(y)          \* 2^12 < q < 2^14
             r   == num % NMant(y)
         IN  RoundPack(s, q, NExp(x) - NExp(y) - 13, r # 0)

Sqrt(x) ==
    IF IsNaN(x) THEN QNaN
    ELSE IF IsZero(x) THEN x
    ELSE IF SignOf(x) = 1 THEN QNaN
    ELSE IF IsInf(x) THEN x
    ELSE LET odd == NExp(x) % 2 # 0
             m   == IF odd THEN 2 * NMant(x) ELSE NMant(x)
             e   == IF odd THEN NExp(x) - 1 ELSE NExp(x)
             n   == m * 65536                  \* < 2^28, exponent e - 16 (even)
             r   == ISqrt(n)                   \* 2^13 <= r < 2^14
         IN  RoundPack(0, r, (e - 16) \div 2, r * r # n)

(* x*y + z with a single rounding (IEEE 5.4.1 fusedMultiplyAdd, 7.2 c: 0 x inf *)
(* is invalid whatever z is unless z is a NaN - the result is a NaN either way) *)
Fma(x, y, z) ==
    LET sp == (SignOf(x) + SignOf(y)) % 2 IN
    IF IsNaN(x) \/ IsNaN(y) \/ IsNaN(z) THEN QNaN
    ELSE IF IsInf(x) \/ IsInf(y)
      THEN (IF IsZero(x) \/ IsZero(y) THEN QNaN
            ELSE IF IsInf(z) /\ SignOf(z) # sp THEN QNaN ELSE Inf(sp))
    ELSE IF IsInf(z) THEN z
    ELSE IF IsZero(x) \/ IsZero(y)
      THEN (IF IsZero(z) THEN (IF sp = 1 /\ SignOf(z) = 1 THEN NegZero ELSE PosZero) ELSE z)
    ELSE
    LET p0 == NMant(x) * NMant(y)                       \* [2^20, 2^22)
        lo == p0 < 2097152
        P  == IF lo THEN 2 * p0 ELSE p0                 \* [2^21, 2^22)
        eP == NExp(x) + NExp(y) - (IF lo THEN 1 ELSE 0)
    IN  IF IsZero(z) THEN RoundPack(sp, P, eP, FALSE)
        ELSE
        LET Z   == NMant(z) * 2048                      \* [2^21, 2^22)
            eZ  == NExp(z) - 11
            sz  == SignOf(z)
            pb  == eP > eZ \/ (eP = eZ /\ P >= Z)       \* product has the larger magnitude
            A   == IF pb THEN P ELSE Z
            B   == IF pb THEN Z ELSE P
            eB  == IF pb THEN eZ ELSE eP
            d   == IF pb THEN eP - eZ ELSE eZ - eP
            r   == AlignSum(A, d, B, sp # sz)
        IN  IF r.m = 0 /\ ~r.st THEN PosZero            \* exact cancellation: +0 (IEEE 6.3)
            ELSE RoundPack(IF pb THEN sp ELSE sz, r.m, eB + r.c, r.st)

(* ------------------------------------------------------------------------ *)
(* Comparisons (IEEE 5.11: NaN is unordered, -0 = +0)                        *)
Unordered(x, y) == IsNaN(x) \/ IsNaN(y)
Eq(x, y) == ~Unordered(x, y) /\ Ord(x) = Ord(y)
Ne(x, y) == ~Eq(x, y)
Lt(x, y) == ~Unordered(x, y) /\ Ord(x) < Ord(y)
Gt(x, y) == ~Unordered(x, y) /\ Ord(x) > Ord(y)
Le(x, y) == ~Unordered(x, y) /\ Ord(x) <= Ord(y)
Ge(x, y) == ~Unordered(x, y) /\ Ord(x) >= Ord(y)
LessGreater(x, y) == ~Unordered(x, y) /\ Ord(x) # Ord(y)

(* ------------------------------------------------------------------------ *)
(* Conversions                                                               *)

(* binary32 (sign, 8-bit biased exponent, 23-bit fraction) -> half *)
FromFloat(s, e8, m23) ==
    IF e8 = 255 THEN (IF m23 # 0 THEN QNaN ELSE Inf(s))
    ELSE IF e8 = 0 THEN RoundPack(s, m23, -149, FALSE)            \* binary32 subnormals and zeros
    ELSE RoundPack(s, 8388608 + m23, e8 - 150, FALSE)

(* binary64 (sign, 11-bit biased exponent, fraction as 20 high bits and 32 low  *)
(* bits given as two 16-bit limbs) -> half: the low 32 fraction bits are       *)
(* sticky, they lie 21 bits below the leading bit                              *)
FromDouble(s, e11, fhi20, flo_hi16, flo_lo16) ==
    LET lowNZ == flo_hi16 # 0 \/ flo_lo16 # 0 IN
    IF e11 = 2047 THEN (IF fhi20 # 0 \/ lowNZ THEN QNaN ELSE Inf(s))
    ELSE IF e11 = 0 THEN Zero(s)                                   \* |v| < 2^-1022
    ELSE RoundPack(s, 1048576 + fhi20, e11 - 1043, lowNZ)

(* half -> binary32, exact.  Result [s, e, f] (f = 23-bit fraction); for a NaN  *)
(* only "is a NaN" (e = 255, f # 0) is specified                                *)
ToFloat(h) ==
    LET s == SignOf(h) IN
    IF IsNaN(h) THEN [s |-> s, e |-> 255, f |-> 4194304]
    ELSE IF IsInf(h) THEN [s |-> s, e |-> 255, f |-> 0]
    ELSE IF IsZero(h) THEN [s |-> s, e |-> 0, f |-> 0]
    ELSE [s |-> s, e |-> NExp(h) + 10 + 127, f |-> (NMant(h) - 1024) * 8192]

(* half -> binary64, exact.  [s, e, fhi] with the 52-bit fraction = fhi * 2^32 *)
ToDouble(h) ==
    LET s == SignOf(h) IN
    IF IsNaN(h) THEN [s |-> s, e |-> 2047, fhi |-> 524288]
    ELSE IF IsInf(h) THEN [s |-> s, e |-> 2047, fhi |-> 0]
    ELSE IF IsZero(h) THEN [s |-> s, e |-> 0, fhi |-> 0]
    ELSE [s |-> s, e |-> NExp(h) + 10 + 1023, fhi |-> (NMant(h) - 1024) * 1024]

(* integer -> half (round to nearest even, overflow to infinity), |v| < 2^31 *)
FromInt(v) ==
    LET s == IF v < 0 THEN 1 ELSE 0
        a == Abs(v)
    IN  IF a >= 1073741824 THEN Inf(s) ELSE RoundPack(s, a, 0, FALSE)

(* ------------------------------------------------------------------------ *)
(* Rounding to integral values (C 7.12.9, F.10.6; IEEE 5.3.1, 5.9).          *)
(* mode: "ceil" | "floor" | "trunc" | "round" (ties away) | "even" (ties to   *)
(* even: rint/nearbyint/lrint in the default rounding direction)             *)

(* magnitude of the integral value for finite h *)
IntMag(h, mode) ==
    IF Exp(h) >= 0 THEN Mant(h) * Pow2(Exp(h))        \* <= 2047 * 2^5
    ELSE LET k  == -Exp(h)                            \* 1..24
             ip == ShrFloor(Mant(h), k)
             fr == LowBits(Mant(h), k)
             hf == Pow2(k - 1)
             neg == SignOf(h) = 1
             up == CASE mode = "trunc" -> FALSE
                     [] mode = "ceil"  -> fr # 0 /\ ~neg
                     [] mode = "floor" -> fr # 0 /\ neg
                     [] mode = "round" -> fr >= hf
                     [] mode = "even"  -> fr > hf \/ (fr = hf /\ ip % 2 = 1)
         IN  ip + (IF up THEN 1 ELSE 0)

(* the signed integer (for lround, lrint, half->int casts); finite h only *)
IntVal(h, mode) == IF SignOf(h) = 1 THEN -IntMag(h, mode) ELSE IntMag(h, mode)

(* the integral value as a half: sign of the argument is kept (F.10.6: ceil(-0.5) = -0) *)
RoundToIntegral(h, mode) ==
    IF IsNaN(h) THEN QNaN
    ELSE IF IsInf(h) \/ IsZero(h) THEN h
    ELSE IF Exp(h) >= 0 THEN h
    ELSE RoundPack(SignOf(h), IntMag(h, mode), 0, FALSE)     \* exact: magnitude <= 2^10

Ceil(h)  == RoundToIntegral(h, "ceil")
Floor(h) == RoundToIntegral(h, "floor")
Trunc(h) == RoundToIntegral(h, "trunc")
Round(h) == RoundToIntegral(h, "round")
Rint(h)  == RoundToIntegral(h, "even")

(* ------------------------------------------------------------------------ *)
(* Manipulation functions (C 7.12.6, F.10.3)                                 *)

(* frexp: [f, e] with x = f * 2^e, 0.5 <= |f| < 1; e specified only for finite x *)
Frexp(h) ==
    IF IsNaN(h) THEN [f |-> QNaN, e |-> 0, edef |-> FALSE]
    ELSE IF IsInf(h) THEN [f |-> h, e |-> 0, edef |-> FALSE]
    ELSE IF IsZero(h) THEN [f |-> h, e |-> 0, edef |-> TRUE]
    ELSE [f |-> WithSign(SignOf(h), 14 * 1024 + (NMant(h) - 1024)), e |-> NExp(h) + 11, edef |-> TRUE]

(* ldexp / scalbn / scalbln: x * 2^n correctly rounded; any integer n *)
Ldexp(h, n) ==
    IF IsNaN(h) THEN QNaN
    ELSE IF IsInf(h) \/ IsZero(h) THEN h
    ELSE RoundPack(SignOf(h), Mant(h), Exp(h) + Max(-100, Min(100, n)), FALSE)

(* modf: [frac, int], both with the sign of x (F.10.3.12) *)
Modf(h) ==
    LET s == SignOf(h) IN
    IF IsNaN(h) THEN [frac |-> QNaN, int |-> QNaN]
    ELSE IF IsInf(h) THEN [frac |-> Zero(s), int |-> h]
    ELSE IF IsZero(h) \/ Exp(h) >= 0 THEN [frac |-> Zero(s), int |-> h]
    ELSE LET k == -Exp(h) IN
         [frac |-> RoundPack(s, LowBits(Mant(h), k), Exp(h), FALSE),
          int  |-> RoundPack(s, ShrFloor(Mant(h), k), 0, FALSE)]

(* ilogb: [k, v]: k = "val" (finite non-zero, v the exponent), "zero" (FP_ILOGB0), *)
(* "inf" (INT_MAX), "nan" (FP_ILOGBNAN)                                          *)
Ilogb(h) ==
    IF IsNaN(h) THEN [k |-> "nan", v |-> 0]
    ELSE IF IsInf(h) THEN [k |-> "inf", v |-> 0]
    ELSE IF IsZero(h) THEN [k |-> "zero", v |-> 0]
    ELSE [k |-> "val", v |-> NExp(h) + 10]

Logb(h) ==
    IF IsNaN(h) THEN QNaN
    ELSE IF IsInf(h) THEN PosInf
    ELSE IF IsZero(h) THEN NegInf
    ELSE FromInt(NExp(h) + 10)

(* next representable value (IEEE 5.3.1 nextUp / nextDown), non-NaN h *)
NextUp(h) ==
    IF IsZero(h) THEN 1
    ELSE IF SignOf(h) = 0 THEN (IF h = PosInf THEN h ELSE h + 1)
    ELSE h - 1                                         \* -min subnormal -> -0
NextDown(h) == Neg(NextUp(Neg(h)))

(* nextafter(x, y) (C 7.12.11.3): y if x = y; the sign of a zero result reached *)
(* from a non-zero x is not specified by C: compare with SameValue              *)
NextAfter(x, y) ==
    IF IsNaN(x) \/ IsNaN(y) THEN QNaN
    ELSE IF Ord(x) = Ord(y) THEN y
    ELSE IF Ord(x) < Ord(y) THEN NextUp(x) ELSE NextDown(x)

(* nexttoward(x, (long double) y): y is given as the half hy moved by dy in      *)
(* {-1, 0, 1} long-double ulps, which is what the harness passes                *)
NextToward(x, hy, dy) ==
    IF IsNaN(x) \/ IsNaN(hy) THEN QNaN
    ELSE LET dd == IF (hy = PosInf /\ dy = 1) \/ (hy = NegInf /\ dy = -1) THEN 0 ELSE dy   \* nothing beyond infinity
             c  == IF Ord(x) # Ord(hy) THEN (IF Ord(x) < Ord(hy) THEN -1 ELSE 1)
                   ELSE -dd                                      \* sign of x - y
         IN  IF c = 0 THEN hy
             ELSE IF c < 0 THEN NextUp(x) ELSE NextDown(x)

(* equality of values where C leaves the sign of a zero open *)
SameValue(a, b) == IF IsNaN(b) THEN IsNaN(a) ELSE IF IsZero(b) THEN IsZero(a) ELSE a = b

(* ------------------------------------------------------------------------ *)
(* fmod, remainder, remquo (C 7.12.10, F.10.7; IEEE 5.3.1 remainder).        *)
(* For finite x, y # 0 write |x| = mx * 2^ex, |y| = my * 2^ey (normalised     *)
(* 11-bit significands).  With d = ex - ey >= 0:                              *)
(*     mx * 2^d = Q * my + R,  0 <= R < my,   |x| - Q*|y| = R * 2^ey           *)
(* computed modulo 8*my, which also yields Q mod 8.                            *)
DivMod(x, y) ==        \* [q8 = Q mod 8, r = R, e = exponent of R's unit, zero = Q = 0]
    LET mx == NMant(x)  my == NMant(y)
        d  == NExp(x) - NExp(y)
    IN  IF d < 0 THEN [q8 |-> 0, r |-> mx, e |-> NExp(x), qz |-> TRUE]
        ELSE LET n8 == 8 * my
                 t  == (mx * PowMod2(d, n8)) % n8
             IN  [q8 |-> t \div my, r |-> t % my, e |-> NExp(y), qz |-> (d = 0 /\ mx < my)]

FmodArgsInvalid(x, y) == IsInf(x) \/ IsZero(y)

Fmod(x, y) ==
    IF IsNaN(x) \/ IsNaN(y) THEN QNaN
    ELSE IF FmodArgsInvalid(x, y) THEN QNaN
    ELSE IF IsInf(y) \/ IsZero(x) THEN x
    ELSE LET dm == DivMod(x, y) IN
         IF dm.r = 0 THEN Zero(SignOf(x)) ELSE RoundPack(SignOf(x), dm.r, dm.e, FALSE)

(* IEEE remainder: r = x - n*y, n the integer nearest x/y, ties to even.       *)
(* [r, q8]: q8 = n mod 8 (n taken as a magnitude), neg = sign of x/y           *)
RemParts(x, y) ==
    LET dm  == DivMod(x, y)
        my  == NMant(y)
        \* compare 2*R*2^e with my*2^NExp(y): when d < 0 the units differ
        dd  == NExp(y) - dm.e                       \* 0 when d >= 0, > 0 when |x| has the smaller exponent
        cmp == IF dd = 0 THEN (IF 2 * dm.r > my THEN 1 ELSE IF 2 * dm.r = my THEN 0 ELSE -1)
               ELSE IF dd = 1 THEN (IF dm.r > my THEN 1 ELSE IF dm.r = my THEN 0 ELSE -1)
               ELSE -1
        up  == cmp > 0 \/ (cmp = 0 /\ dm.q8 % 2 = 1)
    IN  IF ~up THEN [mag |-> dm.r, e |-> dm.e, flip |-> FALSE, q8 |-> dm.q8]
        ELSE \* |y| - R, in units of 2^dm.e
             [mag |-> my * Pow2(dd) - dm.r, e |-> dm.e, flip |-> TRUE, q8 |-> (dm.q8 + 1) % 8]

Remainder(x, y) ==
    IF IsNaN(x) \/ IsNaN(y) THEN QNaN
    ELSE IF FmodArgsInvalid(x, y) THEN QNaN
    ELSE IF IsInf(y) \/ IsZero(x) THEN x
    ELSE LET p == RemParts(x, y)
             s == IF p.flip THEN 1 - SignOf(x) ELSE SignOf(x)
         IN  IF p.mag = 0 THEN Zero(SignOf(x)) ELSE RoundPack(s, p.mag, p.e, FALSE)

(* remquo: the remainder and [defined, neg, q8]: quo has the sign of x/y and a  *)
(* magnitude congruent modulo 2^n (n >= 3, implementation-defined) to that of   *)
(* the integral quotient: only its residue modulo 8 is specified                *)
RemquoQuo(x, y) ==
    IF IsNaN(x) \/ IsNaN(y) \/ FmodArgsInvalid(x, y) THEN [def |-> FALSE, neg |-> FALSE, q8 |-> 0]
    ELSE IF IsInf(y) \/ IsZero(x) THEN [def |-> TRUE, neg |-> SignOf(x) # SignOf(y), q8 |-> 0]
    ELSE [def |-> TRUE, neg |-> SignOf(x) # SignOf(y), q8 |-> RemParts(x, y).q8]

(* does the integer quo reported by an implementation satisfy the above *)
QuoOK(x, y, quo) ==
    LET q == RemquoQuo(x, y) IN
    ~q.def \/ ( /\ Abs(quo) % 8 = q.q8
                /\ (quo = 0 \/ (quo < 0) = q.neg) )

(* fdim (C 7.12.12.1): x - y if x > y, +0 if x <= y *)
Fdim(x, y) ==
    IF IsNaN(x) \/ IsNaN(y) THEN QNaN
    ELSE IF Ord(x) > Ord(y) THEN Sub(x, y) ELSE PosZero

(* fmax / fmin (C 7.12.12.2-3, F.10.9.2-3): a NaN argument is missing data;     *)
(* for zeros of different sign either may be returned                          *)
FmaxOK(x, y, r) ==
    IF IsNaN(x) /\ IsNaN(y) THEN IsNaN(r)
    ELSE IF IsNaN(x) THEN r = y
    ELSE IF IsNaN(y) THEN r = x
    ELSE IF Ord(x) = Ord(y) THEN (r = x \/ r = y)
    ELSE r = (IF Ord(x) > Ord(y) THEN x ELSE y)
FminOK(x, y, r) ==
    IF IsNaN(x) /\ IsNaN(y) THEN IsNaN(r)
    ELSE IF IsNaN(x) THEN r = y
    ELSE IF IsNaN(y) THEN r = x
    ELSE IF Ord(x) = Ord(y) THEN (r = x \/ r = y)
    ELSE r = (IF Ord(x) < Ord(y) THEN x ELSE y)

(* ------------------------------------------------------------------------ *)
(* Integer-valuedness of a finite half (used by pow, tgamma, lgamma)          *)
IsInteger(h) == IsFinite(h) /\ (IsZero(h) \/ Exp(h) >= 0 \/ LowBits(Mant(h), -Exp(h)) = 0)
IsOddInteger(h) ==
    /\ IsFinite(h) /\ ~IsZero(h) /\ IsInteger(h)
    /\ IF Exp(h) > 0 THEN FALSE ELSE ShrFloor(Mant(h), -Exp(h)) % 2 = 1
IsNegative(h) == SignOf(h) = 1 /\ ~IsZero(h) /\ ~IsNaN(h)      \* h < 0
IsPositive(h) == SignOf(h) = 0 /\ ~IsZero(h) /\ ~IsNaN(h)      \* h > 0

(* ------------------------------------------------------------------------ *)
(* Correctly rounded constants.  pi lies strictly between 3.1415926 and       *)
(* 3.1415927; the four binary16 roundings below follow from that with         *)
(* integer arithmetic (checked as HalfLaws!PiBounds).                          *)
PiH       == 16968        \* 0x4248 = 3.140625      (next: 0x4249 = 3.142578125, midpoint 3.1416015625 > pi)
PiOver2H  == 15944        \* 0x3E48 = 1.5703125     (midpoint to 0x3E49: 1.57080078125 > pi/2)
PiOver4H  == 14920        \* 0x3A48 = 0.78515625
Pi3Over4H == 16566        \* 0x40B6 = 2.35546875    (3pi/4 = 2.3561944..; 0x40B6 = 2.35546875, 0x40B7 = 2.357421875, midpoint 2.3564453125 > 3pi/4)

(* ------------------------------------------------------------------------ *)
(* Annex F (C99 F.9 / C11 F.10) special cases of the <math.h> functions whose  *)
(* general value is transcendental.  Special1(f, x) is                         *)
(*   [k |-> "bits", v |-> h]   the result must be exactly h                    *)
(*   [k |-> "nan"]             the result must be a NaN                        *)
(*   [k |-> "any"]             no exact requirement is stated here             *)
Bits(h) == [k |-> "bits", v |-> h]
NaNRes  == [k |-> "nan", v |-> 0]
AnyRes  == [k |-> "any", v |-> 0]

AbsGtOne(x) == AbsOf(x) > One /\ ~IsNaN(x)          \* |x| > 1, infinities included
IsOneH(x) == x = One

(* exactly representable results of correctly rounded functions: if f(x) is    *)
(* itself a half then "exact to rounding" forces that half                     *)
IsPow2H(x) == IsPositive(x) /\ IsFinite(x) /\ NMant(x) = 1024
Log2OfPow2(x) == NExp(x) + 10

RECURSIVE ICbrtR(_, _, _)
ICbrtR(n, r, b) == IF b < 0 THEN r
                   ELSE LET t == r + Pow2(b) IN ICbrtR(n, IF t * t * t <= n THEN t ELSE r, b - 1)
ICbrt(n) == ICbrtR(n, 0, 9)                           \* n < 2^30

(* cbrt of finite non-zero x = M*2^E: with E = 3k + j (0 <= j < 3), the root is  *)
(* exact iff M*2^j is a perfect cube (M*2^j < 2^13)                              *)
CbrtExact(x) ==
    LET j == Exp(x) % 3
        n == Mant(x) * Pow2(j)
        c == ICbrt(n)
    IN  [exact |-> c * c * c = n, root |-> c, e |-> (Exp(x) - j) \div 3]

Special1(f, x) ==
    IF IsNaN(x) THEN NaNRes
    ELSE
    CASE f = "exp"   -> IF IsZero(x) THEN Bits(One) ELSE IF x = NegInf THEN Bits(PosZero) ELSE IF x = PosInf THEN Bits(PosInf) ELSE AnyRes
      [] f = "exp2"  -> IF IsZero(x) THEN Bits(One) ELSE IF x = NegInf THEN Bits(PosZero) ELSE IF x = PosInf THEN Bits(PosInf)
                        ELSE IF IsInteger(x) THEN Bits(Ldexp(One, IntVal(x, "trunc")))       \* 2^n exactly (0 or inf when out of range)
                        ELSE AnyRes
      [] f = "expm1" -> IF IsZero(x) THEN Bits(x) ELSE IF x = NegInf THEN Bits(Neg(One)) ELSE IF x = PosInf THEN Bits(PosInf) ELSE AnyRes
      [] f = "log"   -> IF IsZero(x) THEN Bits(NegInf) ELSE IF IsOneH(x) THEN Bits(PosZero) ELSE IF SignOf(x) = 1 THEN NaNRes
                        ELSE IF x = PosInf THEN Bits(PosInf) ELSE AnyRes
      [] f = "log10" -> IF IsZero(x) THEN Bits(NegInf) ELSE IF IsOneH(x) THEN Bits(PosZero) ELSE IF SignOf(x) = 1 THEN NaNRes
                        ELSE IF x = PosInf THEN Bits(PosInf)
                        ELSE IF x = FromInt(10) THEN Bits(FromInt(1)) ELSE IF x = FromInt(100) THEN Bits(FromInt(2))
                        ELSE IF x = FromInt(1000) THEN Bits(FromInt(3)) ELSE IF x = FromInt(10000) THEN Bits(FromInt(4))
                        ELSE AnyRes
      [] f = "log2"  -> IF IsZero(x) THEN Bits(NegInf) ELSE IF IsOneH(x) THEN Bits(PosZero) ELSE IF SignOf(x) = 1 THEN NaNRes
                        ELSE IF x = PosInf THEN Bits(PosInf)
                        ELSE IF IsPow2H(x) THEN Bits(FromInt(Log2OfPow2(x)))
                        ELSE AnyRes
      [] f = "log1p" -> IF IsZero(x) THEN Bits(x) ELSE IF x = Neg(One) THEN Bits(NegInf)
                        ELSE IF SignOf(x) = 1 /\ AbsOf(x) > One THEN NaNRes
                        ELSE IF x = PosInf THEN Bits(PosInf) ELSE AnyRes
      [] f = "cbrt"  -> IF IsZero(x) \/ IsInf(x) THEN Bits(x)
                        ELSE LET c == CbrtExact(x) IN
                             IF c.exact THEN Bits(RoundPack(SignOf(x), c.root, c.e, FALSE)) ELSE AnyRes
      [] f = "sin"   -> IF IsZero(x) THEN Bits(x) ELSE IF IsInf(x) THEN NaNRes ELSE AnyRes
      [] f = "cos"   -> IF IsZero(x) THEN Bits(One) ELSE IF IsInf(x) THEN NaNRes ELSE AnyRes
      [] f = "tan"   -> IF IsZero(x) THEN Bits(x) ELSE IF IsInf(x) THEN NaNRes ELSE AnyRes
      [] f = "asin"  -> IF IsZero(x) THEN Bits(x) ELSE IF AbsGtOne(x) THEN NaNRes ELSE AnyRes
      [] f = "acos"  -> IF IsOneH(x) THEN Bits(PosZero) ELSE IF AbsGtOne(x) THEN NaNRes ELSE AnyRes
      [] f = "atan"  -> IF IsZero(x) THEN Bits(x) ELSE IF IsInf(x) THEN Bits(WithSign(SignOf(x), PiOver2H)) ELSE AnyRes
      [] f = "sinh"  -> IF IsZero(x) \/ IsInf(x) THEN Bits(x) ELSE AnyRes
      [] f = "cosh"  -> IF IsZero(x) THEN Bits(One) ELSE IF IsInf(x) THEN Bits(PosInf) ELSE AnyRes
      [] f = "tanh"  -> IF IsZero(x) THEN Bits(x) ELSE IF IsInf(x) THEN Bits(WithSign(SignOf(x), One)) ELSE AnyRes
      [] f = "asinh" -> IF IsZero(x) \/ IsInf(x) THEN Bits(x) ELSE AnyRes
      [] f = "acosh" -> IF IsOneH(x) THEN Bits(PosZero) ELSE IF x = PosInf THEN Bits(PosInf)
                        ELSE IF SignOf(x) = 1 \/ AbsOf(x) < One THEN NaNRes ELSE AnyRes
      [] f = "atanh" -> IF IsZero(x) THEN Bits(x) ELSE IF AbsOf(x) = One THEN Bits(Inf(SignOf(x)))
                        ELSE IF AbsGtOne(x) THEN NaNRes ELSE AnyRes
      [] f = "erf"   -> IF IsZero(x) THEN Bits(x) ELSE IF IsInf(x) THEN Bits(WithSign(SignOf(x), One)) ELSE AnyRes
      [] f = "erfc"  -> IF x = NegInf THEN Bits(FromInt(2)) ELSE IF x = PosInf THEN Bits(PosZero) ELSE AnyRes
      [] f = "lgamma" -> IF IsInf(x) THEN Bits(PosInf)
                        ELSE IF IsZero(x) \/ (SignOf(x) = 1 /\ IsInteger(x)) THEN Bits(PosInf)
                        ELSE IF x = One \/ x = FromInt(2) THEN Bits(PosZero) ELSE AnyRes
      [] f = "tgamma" -> IF IsZero(x) THEN Bits(Inf(SignOf(x)))
                        ELSE IF x = NegInf THEN NaNRes ELSE IF x = PosInf THEN Bits(PosInf)
                        ELSE IF SignOf(x) = 1 /\ IsInteger(x) THEN NaNRes ELSE AnyRes
      [] OTHER -> AnyRes

(* does the result r of an implementation meet Special1(f, x) *)
MeetsSpecial(sp, r) ==
    CASE sp.k = "bits" -> r = sp.v
      [] sp.k = "nan"  -> IsNaN(r)
      [] sp.k = "ulp1" -> ~IsNaN(r) /\ SignOf(r) = SignOf(sp.v) /\ Abs(AbsOf(r) - AbsOf(sp.v)) <= 1
      [] OTHER -> TRUE

Ulp1(h) == [k |-> "ulp1", v |-> h]

(* atan2(y, x), F.10.1.4.  The results that are multiples of pi/4 are not      *)
(* representable; the function is documented as possibly one ulp off, so the   *)
(* correctly rounded constant +- 1 ulp is allowed there.                       *)
SpecialAtan2(y, x) ==
    LET sy == SignOf(y) IN
    IF IsNaN(x) \/ IsNaN(y) THEN NaNRes
    ELSE IF IsZero(y) THEN (IF SignOf(x) = 1 THEN Ulp1(WithSign(sy, PiH)) ELSE Bits(y))     \* x = -0, x < 0, -inf: +-pi; x = +0, x > 0, +inf: +-0
    ELSE IF IsZero(x) THEN Ulp1(WithSign(sy, PiOver2H))
    ELSE IF IsInf(x) /\ IsInf(y) THEN Ulp1(WithSign(sy, IF SignOf(x) = 1 THEN Pi3Over4H ELSE PiOver4H))
    ELSE IF IsInf(x) THEN (IF SignOf(x) = 1 THEN Ulp1(WithSign(sy, PiH)) ELSE Bits(Zero(sy)))
    ELSE IF IsInf(y) THEN Ulp1(WithSign(sy, PiOver2H))
    ELSE AnyRes

(* pow(x, y), F.10.4.4 *)
SpecialPow(x, y) ==
    IF IsOneH(x) THEN Bits(One)                                 \* pow(+1, y) = 1 even for NaN y
    ELSE IF IsZero(y) THEN Bits(One)                            \* pow(x, +-0) = 1 even for NaN x
    ELSE IF IsNaN(x) \/ IsNaN(y) THEN NaNRes
    ELSE IF IsZero(x) THEN
        (IF SignOf(y) = 1
           THEN (IF IsOddInteger(y) THEN Bits(Inf(SignOf(x))) ELSE Bits(PosInf))       \* includes y = -inf
           ELSE (IF IsOddInteger(y) THEN Bits(x) ELSE Bits(PosZero)))
    ELSE IF IsInf(y) THEN
        (IF AbsOf(x) = One THEN Bits(One)                       \* pow(-1, +-inf) = 1
         ELSE IF (AbsOf(x) < One) = (SignOf(y) = 1) THEN Bits(PosInf) ELSE Bits(PosZero))
    ELSE IF x = NegInf THEN
        (IF SignOf(y) = 1 THEN (IF IsOddInteger(y) THEN Bits(NegZero) ELSE Bits(PosZero))
         ELSE (IF IsOddInteger(y) THEN Bits(NegInf) ELSE Bits(PosInf)))
    ELSE IF x = PosInf THEN (IF SignOf(y) = 1 THEN Bits(PosZero) ELSE Bits(PosInf))
    ELSE IF SignOf(x) = 1 /\ ~IsInteger(y) THEN NaNRes          \* finite x < 0, finite non-integer y
    \* exponents for which the mathematical result is an elementary operation: pow may be one ulp off (documented)
    ELSE IF y = One THEN (IF IsNormal(x) THEN Ulp1(x) ELSE AnyRes)
    ELSE IF y = 16384 THEN (IF IsNormal(Mul(x, x)) THEN Ulp1(Mul(x, x)) ELSE AnyRes)                  \* y = 2
    ELSE IF y = 48128 THEN (IF IsNormal(Div(One, x)) THEN Ulp1(Div(One, x)) ELSE AnyRes)              \* y = -1
    ELSE IF y = 14336 /\ SignOf(x) = 0 THEN (IF IsNormal(Sqrt(x)) THEN Ulp1(Sqrt(x)) ELSE AnyRes)     \* y = 1/2
    ELSE AnyRes

(* hypot(x, y), F.10.4.3: infinite if either argument is, even with a NaN;     *)
(* hypot(x, +-0) = fabs(x)                                                      *)
SpecialHypot(x, y) ==
    IF IsInf(x) \/ IsInf(y) THEN Bits(PosInf)
    ELSE IF IsNaN(x) \/ IsNaN(y) THEN NaNRes
    ELSE IF IsZero(y) THEN Bits(Fabs(x))
    ELSE IF IsZero(x) THEN Bits(Fabs(y))
    ELSE AnyRes

(* hypot for finite non-zero arguments, correctly rounded (the function is     *)
(* documented as exact to rounding):  sqrt(x^2 + y^2) with                     *)
(* |x| = mx*2^ex >= |y| = my*2^ey, d = ex - ey.  For d >= 13 the sum differs   *)
(* from x^2 by less than 2^-24 relative, which cannot move the square root     *)
(* across a rounding boundary of an 11-bit result other than from exactly |x|  *)
(* upwards by less than a quarter ulp: the result is |x|.  Otherwise the       *)
(* radicand mx^2 * 2^(2d) + my^2 (< 2^48) is formed in limbs and compared      *)
(* with squares of candidate boundaries.                                       *)
HypotRadicand(mx, d, my) == WAdd(WShl(WFromNat(mx * mx), 2 * d), WFromNat(my * my))

(* largest t in lo..hi with t^2 * 2^(2*sh) <= rad (wide), by bisection *)
RECURSIVE WSqrtSearch(_, _, _, _)
WSqrtSearch(rad, sh, lo, hi) ==
    IF lo = hi THEN lo
    ELSE LET mid == (lo + hi + 1) \div 2
             sq  == WShl(WFromNat(mid * mid), 2 * sh)
         IN  IF WCmp(sq, rad) <= 0 THEN WSqrtSearch(rad, sh, mid, hi) ELSE WSqrtSearch(rad, sh, lo, mid - 1)

HypotFinite(x, y) ==
    LET xb == NExp(x) > NExp(y) \/ (NExp(x) = NExp(y) /\ NMant(x) >= NMant(y))
        a  == IF xb THEN x ELSE y
        b  == IF xb THEN y ELSE x
        d  == NExp(a) - NExp(b)
    IN  IF d >= 13 THEN Fabs(a)
        ELSE LET rad == HypotRadicand(NMant(a), d, NMant(b))     \* value = rad * 2^(2*NExp(b)); 2^(20+2d) <= rad < 2^(23+2d)
                 \* root r = t * 2^sh * 2^NExp(b) with t having 13..14 bits: t in [2^12, 2^14), sh = d - 2 (may be negative)
                 k   == IF d >= 2 THEN d - 2 ELSE 0                \* shift applied to candidates
                 up  == IF d >= 2 THEN 0 ELSE 2 - d                \* shift applied to the radicand instead
                 R   == WShl(rad, 2 * up)
                 t   == WSqrtSearch(R, k, 1, 32767)
                 ex  == WCmp(WShl(WFromNat(t * t), 2 * k), R) = 0
             IN  RoundPack(0, t, NExp(b) + k - up, ~ex)

Hypot(x, y) ==
    LET sp == SpecialHypot(x, y) IN
    IF sp.k = "bits" THEN sp.v ELSE IF sp.k = "nan" THEN QNaN ELSE HypotFinite(x, y)


(* ------------------------------------------------------------------------ *)
(* Correctly rounded square root of a wide natural: sqrt(rad * 2^(2e)),      *)
(* rad # 0 in limbs.  The radicand is scaled by an even power of two so that *)
(* the integer root t has 14 bits; the remainder is the sticky bit.          *)
SqrtWide(rad, e) ==
    LET L  == WBitLen(rad)
        k  == IF L > 28 THEN (L - 27) \div 2 ELSE 0          \* candidates are t * 2^k
        up == IF L < 27 THEN (28 - L) \div 2 ELSE 0          \* or the radicand is scaled up by 2^(2 up)
        R  == WShl(rad, 2 * up)
        t  == WSqrtSearch(R, k, 1, 32767)
        ex == WCmp(WShl(WFromNat(t * t), 2 * k), R) = 0
    IN  RoundPack(0, t, e + k - up, ~ex)

(* sqrt(x^2 + y^2 + z^2) for finite arguments, correctly rounded: the sum of *)
(* squares is formed exactly in limbs at the exponent of the smallest        *)
(* non-zero argument (at most 2^22 * 2^(2*39) < 2^101)                        *)
HypotExpOr(h, dflt) == IF IsZero(h) THEN dflt ELSE NExp(h)
HypotTerm(h, emin) == IF IsZero(h) THEN << >> ELSE WShl(WFromNat(NMant(h) * NMant(h)), 2 * (NExp(h) - emin))

HypotFinite3(x, y, z) ==
    IF IsZero(x) /\ IsZero(y) /\ IsZero(z) THEN PosZero
    ELSE LET emin == Min(HypotExpOr(x, 100), Min(HypotExpOr(y, 100), HypotExpOr(z, 100)))
             rad  == WAdd(HypotTerm(x, emin), WAdd(HypotTerm(y, emin), HypotTerm(z, emin)))
         IN  SqrtWide(rad, emin)

(* hypot(x, y, z) (C++17 [c.math.hypot3]; the library documents it as exact  *)
(* to rounding).  The standard does not say whether an infinite argument     *)
(* wins over a NaN as it does for the two-argument function (F.10.4.3):      *)
(* Hypot3OK accepts both answers there.                                       *)
Hypot3OK(x, y, z, r) ==
    LET anyinf == IsInf(x) \/ IsInf(y) \/ IsInf(z)
        anynan == IsNaN(x) \/ IsNaN(y) \/ IsNaN(z)
    IN  IF anyinf /\ anynan THEN r = PosInf \/ IsNaN(r)
        ELSE IF anyinf THEN r = PosInf
        ELSE IF anynan THEN IsNaN(r)
        ELSE r = HypotFinite3(x, y, z)

(* the same route for two arguments: a second definition of Hypot (checked    *)
(* equal to it by HalfLaws)                                                    *)
Hypot2ViaWide(x, y) ==
    LET sp == SpecialHypot(x, y) IN
    IF sp.k = "bits" THEN sp.v ELSE IF sp.k = "nan" THEN QNaN ELSE HypotFinite3(x, y, PosZero)

(* ------------------------------------------------------------------------ *)
(* cbrt, correctly rounded (F.10.4.1: cbrt(+-0) = +-0, cbrt(+-inf) = +-inf).  *)
(* |x| = M * 2^E with M in [2^10, 2^11), E = 3k + j: the root is               *)
(* cbrt(M * 2^j * 2^30) * 2^(k - 10); N = M * 2^(j+30) lies in [2^40, 2^43),   *)
(* so t = floor(cbrt(N)) has 14 or 15 bits and the remainder is sticky.        *)
WCube(t) == WMulLimb(WMulLimb(WFromNat(t), t), t)            \* t < 2^15

RECURSIVE WCbrtSearch(_, _, _)
WCbrtSearch(N, lo, hi) ==          \* largest t in lo..hi with t^3 <= N
    IF lo = hi THEN lo
    ELSE LET mid == (lo + hi + 1) \div 2
         IN  IF WCmp(WCube(mid), N) <= 0 THEN WCbrtSearch(N, mid, hi) ELSE WCbrtSearch(N, lo, mid - 1)

Cbrt(x) ==
    IF IsNaN(x) THEN QNaN
    ELSE IF IsZero(x) \/ IsInf(x) THEN x
    ELSE LET j == NExp(x) % 3
             k == (NExp(x) - j) \div 3
             N == WShiftLimbs(WFromNat(NMant(x) * Pow2(j)), 2)
             t == WCbrtSearch(N, 8192, 32767)
         IN  RoundPack(SignOf(x), t, k - 10, WCmp(WCube(t), N) # 0)

(* ------------------------------------------------------------------------ *)
(* Parameters of the format as std::numeric_limits reports them                *)
(* (C++ [numeric.limits.members]; C 5.2.4.2.2), derived from the encoding.     *)
RECURSIVE Pow10(_)
Pow10(n) == IF n = 0 THEN 1 ELSE 10 * Pow10(n - 1)                       \* n <= 9

LimDigits      == BitLen(Mant(One))                                      \* p = 11
LimMax         == NextDown(PosInf)
LimLowest      == Neg(LimMax)
LimMin         == CHOOSE h \in 1..31743 : IsNormal(h) /\ ~IsNormal(h - 1)
LimDenormMin   == NextUp(PosZero)
LimEpsilon     == Sub(NextUp(One), One)
LimRoundError  == RoundPack(0, 1, -1, FALSE)                             \* 1/2 ulp: rounding to nearest
LimDigits10    == CHOOSE d \in 0..9 : Pow10(d) <= Pow2(LimDigits - 1) /\ Pow10(d + 1) > Pow2(LimDigits - 1)
LimMaxDigits10 == CHOOSE d \in 1..9 : Pow10(d - 1) > Pow2(LimDigits) /\ (d = 1 \/ Pow10(d - 2) <= Pow2(LimDigits))
LimMinExp      == Ilogb(LimMin).v + 1
LimMaxExp      == Ilogb(LimMax).v + 1
\* 10^-k is a normal value iff 10^k <= 2^(1 - LimMinExp); 10^k is finite iff 10^k <= value(LimMax)
LimMinExp10    == -(CHOOSE k \in 0..9 : Pow10(k) <= Pow2(1 - LimMinExp) /\ Pow10(k + 1) > Pow2(1 - LimMinExp))
LimMaxExp10    == CHOOSE k \in 0..9 : Pow10(k) <= IntMag(LimMax, "trunc") /\ Pow10(k + 1) > IntMag(LimMax, "trunc")
IsQuietNaN(h)      == IsNaN(h) /\ (FracOf(h) \div 512) = 1
IsSignallingNaN(h) == IsNaN(h) /\ (FracOf(h) \div 512) = 0

=============================================================================

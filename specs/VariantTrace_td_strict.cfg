SPECIFICATION TSpec
CONSTANTS
  TrackedAlts = {0, 1, 2}
  NTMAlts = {1, 3}
  Strict = TRUE
  Vals = {}
  MaxFuse = 0
  MaxEv = 0
  CallSet = {}
POSTCONDITION TraceAccepted
CHECK_DEADLOCK FALSE

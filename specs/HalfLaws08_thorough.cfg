SPECIFICATION Spec
CONSTANT YS <- YThorough
CONSTANT Stride = 16
INVARIANT Laws08
CHECK_DEADLOCK FALSE

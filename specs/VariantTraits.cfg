SPECIFICATION Spec
INVARIANTS EmitRows TraitLaws ConvLaws
CHECK_DEADLOCK FALSE

---------------------------- MODULE ClosureTrace ----------------------------
(* Trace validation for C07: every line of the ndjson trace recorded from the real xtl      *)
(* wrappers must be a step of Closure (L1) with the logged arguments; what the call returned *)
(* must be allowed by the spec's expected result and the logged projection must be the       *)
(* spec's.  Where L1 allows several outcomes (moved-from values) the logged one selects.     *)
EXTENDS Closure, IOUtils

VARIABLE l     \* next line of the trace to be explained

JsonTrace == ndJsonDeserialize(IOEnv.TRACE)
ExplainAt == atoi(IOEnv.EXPLAIN)

TInit ==
    /\ l = 1
    /\ payload = "counted"
    /\ feat = {}
    /\ cell = InitCell
    /\ w = [k \in 1..NW |-> NoW]
    /\ last = [op |-> "Init", k |-> 0, a |-> NoArg, res |-> Void]
    /\ hist = <<>>

(* a new execution: fresh caller variables, empty slots; payload type and available call forms from the event *)
TReset(e) ==
    /\ payload' = e.a.p
    /\ feat' = {e.a.feat[i] : i \in 1..Len(e.a.feat)}
    /\ cell' = InitCell
    /\ w' = [k \in 1..NW |-> NoW]
    /\ last' = [op |-> "Reset", k |-> 0, a |-> NoArg, res |-> Void]
    /\ hist' = <<>>

Dispatch(e) == LET k == e.k  a == e.a IN
    \/ e.op = "Reset"      /\ TReset(e)
    \/ e.op = "Make"       /\ Make(k, a.kind, a.via, a.s)
    \/ e.op = "Destroy"    /\ Destroy(k)
    \/ e.op = "EndTemps"   /\ EndTemps
    \/ e.op = "WriteVar"   /\ WriteVar(a.cls, a.i, a.v)
    \/ e.op = "Read"       /\ Read(k, a.form)
    \/ e.op = "Assign"     /\ Assign(k, a.v, a.cat)
    \/ e.op = "AssignComp" /\ AssignComp(k, a.i, a.v, a.form)
    \/ e.op = "CopyW"      /\ CopyW(k, a.j, a.form)
    \/ e.op = "ValueOr"    /\ ValueOr(k, a.v, a.d, a.form)
    \/ e.op = "MoveW"      /\ MoveW(k, a.j)
    \/ e.op = "RelocW"     /\ RelocW(k, a.j)
    \/ e.op = "AssignW"    /\ AssignW(k, a.j, a.mv)
    \/ e.op = "Swap"       /\ Swap(k, a.j, a.how)
    \/ e.op = "Equal"      /\ Equal(k, a.j)
    \/ e.op = "AddrOf"     /\ AddrOf(k, a.form, a.wr)

(* the logged result against the expected one *)
ResOK(r, er) ==
    /\ er.exc = "none"
    /\ (r.ctor = "none") => (er.copies = 0 /\ er.moves = 0)
    /\ r.fwd = er.fwd
    /\ Len(r.val) = Len(er.val)
    /\ \A i \in 1..Len(r.val) : er.val[i].t \in r.val[i].ts /\ er.val[i].v = r.val[i].v

TNext ==
    /\ l <= Len(JsonTrace)
    /\ LET e == JsonTrace[l] IN
        /\ Dispatch(e)
        /\ IF l = ExplainAt
             THEN PrintT(<<"EXPECTED", last'.res, ProjAll'>>)
             ELSE /\ ResOK(last'.res, e.res)
                  /\ ProjAll' = e.st
    /\ l' = l + 1

TSpec == TInit /\ [][TNext]_<<vars, l>>
TraceAccepted == TLCGet("stats").diameter - 1 = Len(JsonTrace)
=============================================================================

--------------------------- MODULE IterLawsImplMC ---------------------------
(* Model-checking instances of IterLawsImpl: constant definitions that cannot be written in a .cfg *)
EXTENDS IterLawsImpl
AllImpls  == {"pair", "bitset", "stepping", "single"}
PairOnly  == {"pair"}
StepOnly  == {"stepping"}
=============================================================================

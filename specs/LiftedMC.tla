------------------------------ MODULE LiftedMC ------------------------------
(* Model-checking instances of Lifted: constant domains that cannot be written in a .cfg *)
EXTENDS Lifted
ValsQuick     == {-1, 0, 2}
ValsThorough  == {-46000, -1, 0, 2, 3}            \* zero, negative, extreme
ValsTiny      == {0, 2}
KindsCore     == {"plain", "opt", "optref", "masked", "mref"}
KindsAll      == {"plain", "int", "opt", "optref", "optcr", "optvr", "optbr", "masked", "mref"}
KindsMCDeep   == {"plain", "int", "opt", "optref", "optcr", "optvr", "masked", "mref"}   \* the multi-step BFS of the thorough tier (as in round 2)
KindsBits     == {"plain", "opt", "optbr"}             \* the proxy-flag closure beside a value closure and a scalar
KindsDouble   == {"dplain", "dopt", "dmasked", "plain"}    \* (plain: the idle registers of the canonical form)
(* doubles: small integers, NaN (NaNv) and indices into the harness's table of remarkable doubles:           *)
(* 1000000 = 0.5, 1000004 = 0.1, 1000006 = 1e308, 1000016 = +inf, 1000017 = -inf, 1000018 = -0.0                 *)
ValsDouble    == {-1, 0, 2, NaNv, 1000000, 1000006, 1000016, 1000017, 1000018}
ValsDoubleQuick == {0, 2, NaNv, 1000000, 1000016}
(* quotients, products and sums that are inexact or overflow: 3, 7, 0.1, 1e308 *)
ValsDNum      == {0, 3, 7, 1000004, 1000006}
DNumClasses   == {"binary", "compound"}
KindsMix      == {"mo", "po", "plain"}
ValsMix       == {-1, 0, 2, NAv}                  \* (NAv: the inner optional is missing)
ValsMixQuick  == {0, 2, NAv}
KindsRef      == {"optref", "optcr", "optvr", "mref"}
KindsRefQuick == {"optref", "optvr", "mref"}
AliasClassesQuick == {"binary", "compare", "compound", "access"}
ValsSim       == ValsThorough \cup {1, NaNv, NAv, 1000000, 1000016}
DoubleClasses == {"unary", "binary", "ternary", "compare", "compound", "select", "valueor", "access", "assign"}
LiftedClasses == {"unary", "binary", "ternary", "compare", "compound", "select", "valueor"}
MixClasses    == {"unary", "binary", "ternary", "compare", "compound", "access"}
HouseClasses  == {"access", "assign", "load"}
AllClasses    == LiftedClasses \cup HouseClasses \cup {"alias"}
QuickClasses  == LiftedClasses \cup {"assign", "alias"}     \* (every kind is already among the initial registers)
AliasClasses  == LiftedClasses \cup {"access", "assign"}
EveryHow      == LoadHows
(* multi-step exploration: one construction per kind (the others are enumerated one call at a time, Lifted_s2c_house) *)
FewHows       == {"plain", "opt2", "optref", "optvr", "optbr", "masked2", "mref", "mo2", "po2"}
EveryFun      == AllFuns
(* one or two representatives of every macro family: the toy algebra treats the names of a family alike *)
FewFuns       == {"pos", "neg", "lognot", "abs", "isnan", "plus", "div", "mod", "bxor", "land", "lt", "pow", "fma",
                  "eq", "ne", "plus_eq", "div_eq", "mod_eq", "bor_eq"}
(* simulation walks store results whose value the property leaves unspecified (missing results) and go on *)
(* computing with them, so the spec cannot foresee a zero divisor there: walks do not divide             *)
SimFuns       == AllFuns \ {"div", "mod", "div_eq", "mod_eq"}
FewerFuns     == {"neg", "abs", "isnan", "minus", "div", "lt", "pow", "fma", "eq", "ne", "minus_eq", "div_eq"}
=============================================================================

------------------------------ MODULE LiftedMC ------------------------------
(* Model-checking instances of Lifted: constant domains that cannot be written in a .cfg *)
EXTENDS Lifted
ValsQuick     == {-1, 0, 2}
ValsThorough  == {-46000, -1, 0, 2, 3}            \* zero, negative, extreme
ValsTiny      == {0, 2}
KindsCore     == {"plain", "opt", "optref", "masked", "mref"}
KindsAll      == {"plain", "int", "opt", "optref", "optcr", "optvr", "masked", "mref"}
KindsDouble   == {"dplain", "dopt", "dmasked", "plain"}    \* (plain: the idle registers of the canonical form)
ValsDouble    == {-1, 0, 2, NaNv}                 \* (NaNv: how a NaN is written)
ValsDoubleQuick == {0, 2, NaNv}
ValsSim       == ValsThorough \cup {1, NaNv}
DoubleClasses == {"unary", "binary", "ternary", "compare", "compound", "select", "valueor", "access", "assign"}
LiftedClasses == {"unary", "binary", "ternary", "compare", "compound", "select", "valueor"}
HouseClasses  == {"access", "assign", "load"}
AllClasses    == LiftedClasses \cup HouseClasses
QuickClasses  == LiftedClasses \cup {"assign"}     \* (every kind is already among the initial registers)
EveryFun      == AllFuns
(* one or two representatives of every macro family: the toy algebra treats the names of a family alike *)
FewFuns       == {"pos", "neg", "lognot", "abs", "isnan", "plus", "div", "mod", "bxor", "land", "lt", "pow", "fma",
                  "eq", "ne", "plus_eq", "div_eq", "mod_eq", "bor_eq"}
(* simulation walks store results whose value the property leaves unspecified (missing results) and go on *)
(* computing with them, so the spec cannot foresee a zero divisor there: walks do not divide             *)
SimFuns       == AllFuns \ {"div", "mod", "div_eq", "mod_eq"}
FewerFuns     == {"neg", "abs", "isnan", "minus", "div", "lt", "pow", "fma", "eq", "ne", "minus_eq", "div_eq"}
=============================================================================

SPECIFICATION Spec
CONSTANTS
  Modes <- BothModes
  MaxN = 5
  MaxDepth = 4
  MaxE = 5
  Huge = {0, 1, 2}
  Kinds <- AllKinds
  Classes <- AllClasses
  EmitOps <- NoEmit
CONSTRAINT DepthBound

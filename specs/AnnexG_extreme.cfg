SPECIFICATION Spec
CONSTANTS
  Mode = "extreme"
  QVals <- QAll
  Us <- UsAll
  Ms <- MsAll
  KsD <- KsDouble
  KsF <- KsFloat
INVARIANTS ExtremeLaws

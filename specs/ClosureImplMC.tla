---------------------------- MODULE ClosureImplMC ----------------------------
(* Model-checking instances of ClosureImpl (L2 refines L1) *)
EXTENDS ClosureImpl
K3           == {"cw", "cp", "pw"}
PAll         == {"int", "counted", "moveonly"}
PCounted     == {"counted"}
FBoth        == {{"cw_mo_rv", "cx_xassign"}}
CatsAll      == {"lv", "clv", "xvar", "cxvar", "xtemp", "pr"}
CatsFew      == {"lv", "clv", "xvar", "pr"}
V2           == {2}
=============================================================================

SPECIFICATION TSpec
CONSTANTS
  MaxAbs = 1024
  Vals = {}
  Classes = {}
  LRegs = {}
  RRegs = {}
  ScalarTs = {}
  OneStep = FALSE
  EmitOn = FALSE
POSTCONDITION TraceAccepted
CHECK_DEADLOCK FALSE

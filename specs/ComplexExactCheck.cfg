SPECIFICATION Spec
INVARIANT Conforms

SPECIFICATION FairSpec
CONSTANTS
  Keys <- KeysT
  Seeds <- SeedsT
INVARIANTS Refines ReadsInside TailIsLittleEndian
PROPERTY Terminates

SPECIFICATION Spec
CONSTANTS
  MaxBits = 10
  Widths = {8}
  MaxShift = 11
  Targets = {1}
  OtherInit <- NoOther
  ILArgs <- RepSeqsC
  LimbReps <- RepLimbs
  Classes <- UnaryFew
  EmitOps <- AllOps
CONSTRAINT SizeBound
ACTION_CONSTRAINT Emit
VIEW absvars

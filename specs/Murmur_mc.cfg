SPECIFICATION Spec
CONSTANTS
  NatReps <- Nats
  WideReps <- Wides
INVARIANT Laws

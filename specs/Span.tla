-------------------------------- MODULE Span --------------------------------
(***************************************************************************)
(* L1 property specification for C16: xtl::span (= tcb::span, P0122R7 with   *)
(* an unsigned index_type).  Written from the property statement and the    *)
(* wording of [span.cons], [span.sub], [span.elem], not from the code.       *)
(*                                                                          *)
(* `parent` is the sequence of cells the spans look at (a heap buffer, a C   *)
(* array, a std::array, a std::vector or a user container with data() and   *)
(* size(), `mk`); every cell is an object of `esz` bytes.  A view is a       *)
(* window [off, off+len) of it with a static extent `ext` (-1 =              *)
(* dynamic_extent) and an element type that is const-qualified or not (`c`). *)
(* `views` is a stack: view 1 is constructed from the memory, view s+1 is a  *)
(* sub-view (first/last/subspan/copy/conversion) of view s.                  *)
(*                                                                          *)
(* Size arguments are symbolic mathematical integers:                        *)
(*     [t |-> "s", v |-> n]   the small integer n                            *)
(*     [t |-> "h", v |-> d]   the integer SIZE_MAX - d  (d small)            *)
(* so "offset + count <= size()" is decided on mathematical integers and     *)
(* cannot wrap.  dynamic_extent, as an index_type argument, is SIZE_MAX.     *)
(*                                                                          *)
(* mode = "throwing": a call whose precondition does not hold must throw the *)
(* contract violation and produce nothing; mode = "terminate": it must end   *)
(* the program (std::terminate) instead of producing anything - the harness  *)
(* performs the call in a child process and reports "terminated"; mode =     *)
(* "unchecked": such a call is outside the contract and is not enabled here. *)
(* at() throws std::out_of_range for every index >= size() in every mode.    *)
(* Which mode a translation unit gets is SpanMode.tla.                       *)
(***************************************************************************)
EXTENDS Integers, Sequences, FiniteSets, TLC, Json

CONSTANTS Modes,     \* modes explored by the model checker
          MaxN,      \* bound on the number of parent cells
          MaxDepth,  \* bound on the number of stacked views the model checker expands
          MaxE,      \* largest static extent / static argument instantiated
          Huge,      \* the d of the huge arguments SIZE_MAX - d used by the model checker
          Kinds,     \* memory kinds used by the model checker
          Classes,   \* operation classes enabled in the model checker's next-state relation
          EmitOps    \* S->C: operations whose transitions are written out as JSON (see Emit)

VARIABLES mode,    \* "unchecked" | "throwing" | "terminate"
          esz,     \* sizeof(element_type)
          mk,      \* kind of parent memory: "heap" | "carray" | "stdarray" | "vector" | "box"
          parent,  \* the cells
          views,   \* stack of [off, len, ext, c]
          last, pre

vars == <<mode, esz, mk, parent, views, last, pre>>
absvars == <<mode, esz, mk, parent, views>>

DYN == -1
N == Len(parent)
Small(n) == [t |-> "s", v |-> n]
HugeArg(d) == [t |-> "h", v |-> d]
DynArg == HugeArg(0)                    \* static_cast<index_type>(dynamic_extent) = SIZE_MAX

(* comparisons of a symbolic argument with a small mathematical integer m *)
ArgLeq(x, m) == x.t = "s" /\ x.v <= m   \* SIZE_MAX - d is larger than every size in this model
ArgLt(x, m)  == x.t = "s" /\ x.v < m
IsDyn(x)     == x.t = "h" /\ x.v = 0

AllModes == {"unchecked", "throwing", "terminate"}
MemKinds == {"heap", "carray", "stdarray", "vector", "box"}
ArrayKinds == {"carray", "stdarray"}          \* the size is part of the type
ContKinds == {"vector", "box"}                \* data() and size() are asked at run time
Checking == mode \in {"throwing", "terminate"}

----------------------------------------------------------------------------
View(o, l, e, c) == [off |-> o, len |-> l, ext |-> e, c |-> c]
Elems(v) == SubSeq(parent, v.off + 1, v.off + v.len)
RevSeq(s) == [i \in 1..Len(s) |-> s[Len(s) + 1 - i]]

(* What every observer reports about one view (compared after each call) *)
ProjV(v) ==
    [ext   |-> v.ext,                \* the static extent of the C++ type
     c     |-> v.c,                  \* std::is_const<element_type>
     off   |-> v.off,                \* data() - start of the parent memory
     size  |-> v.len,                \* size()
     bytes |-> esz * v.len,          \* size_bytes()
     empty |-> v.len = 0,            \* empty()
     dist  |-> v.len,                \* end() - begin()
     elems |-> Elems(v),             \* operator[] for every index < size()
     fwd   |-> Elems(v),             \* begin()..end()
     rev   |-> RevSeq(Elems(v))]     \* rbegin()..rend()
ProjAll == [mem |-> parent, guard |-> TRUE, views |-> [i \in 1..Len(views) |-> ProjV(views[i])]]

Ok(v)  == [exc |-> "none", val |-> v]
Exc(e) == [exc |-> e, val |-> <<>>]
Void   == Ok(<<>>)
NoArg  == [z |-> 0]
(* how a checking build reports a violated precondition *)
Rejected == Exc(IF mode = "throwing" THEN "contract" ELSE "terminated")

Step(op, a, res, newviews, newparent) ==
    /\ pre' = [parent |-> parent, views |-> views, mk |-> mk]
    /\ last' = [op |-> op, a |-> a, res |-> res]
    /\ views' = newviews
    /\ parent' = newparent
    /\ UNCHANGED <<mode, esz, mk>>
Obs(op, a, res) == Step(op, a, res, views, parent)
(* a call with precondition `ok` producing `newviews`: in a checking mode a violated precondition
   must be reported and change nothing; in unchecked mode the call is then outside the contract *)
Checked(op, a, ok, res, newviews) ==
    IF ok THEN Step(op, a, res, newviews, parent)
          ELSE Checking /\ Obs(op, a, Rejected)
Push(s, v) == Append(SubSeq(views, 1, s), v)
HasView(s) == s \in 1..Len(views)

----------------------------------------------------------------------------
(* New parent memory of the given kind; all views are dropped. *)
Mem(kind, cells) ==
    /\ kind \in MemKinds
    /\ kind = "carray" => Len(cells) >= 1
    /\ pre' = [parent |-> parent, views |-> views, mk |-> mk]
    /\ last' = [op |-> "Mem", a |-> [kind |-> kind, cells |-> cells], res |-> Void]
    /\ mk' = kind /\ parent' = cells /\ views' = <<>> /\ UNCHANGED <<mode, esz>>

(* [span.cons] *)
(* span<T, ext>(p + po, cnt) and span<T, ext>(p + po, p + po + cnt) (T = int or const int, `c`): [p+po, p+po+cnt) must *)
(* be a valid range; for a static extent cnt must equal it                                                             *)
FromPtrCount(po, cnt, ext, c) ==
    /\ po + cnt <= N /\ c \in BOOLEAN
    /\ Checked("FromPtrCount", [po |-> po, cnt |-> cnt, ext |-> ext, c |-> c], ext = DYN \/ cnt = ext, Void, <<View(po, cnt, ext, c)>>)
FromPtrPair(po, cnt, ext, c) ==
    /\ po + cnt <= N /\ c \in BOOLEAN
    /\ Checked("FromPtrPair", [po |-> po, cnt |-> cnt, ext |-> ext, c |-> c], ext = DYN \/ cnt = ext, Void, <<View(po, cnt, ext, c)>>)
(* span<T, ext>(arr) for int arr[N] / std::array<int, N> (c: the array is seen through a const reference and T is *)
(* const int): participates in overload resolution only for ext in {dynamic, N}                                     *)
FromArray(ext, c) ==
    /\ mk = "carray" /\ ext \in {DYN, N} /\ c \in BOOLEAN
    /\ Step("FromArray", [ext |-> ext, c |-> c], Void, <<View(0, N, ext, c)>>, parent)
FromStdArray(ext, c) ==
    /\ mk = "stdarray" /\ ext \in {DYN, N} /\ c \in BOOLEAN
    /\ Step("FromStdArray", [ext |-> ext, c |-> c], Void, <<View(0, N, ext, c)>>, parent)
(* span<T, ext>(container): for a static extent the container's size must equal it *)
FromContainer(ext, c) ==
    /\ mk \in ContKinds /\ c \in BOOLEAN
    /\ Checked("FromContainer", [ext |-> ext, c |-> c], ext = DYN \/ N = ext, Void, <<View(0, N, ext, c)>>)
(* make_span(arr) / make_span(std::array) / make_span(container), of the object or of a const reference to it: *)
(* static extent N for the arrays, dynamic for containers                                                       *)
MemExt == IF mk \in ContKinds THEN DYN ELSE N
MakeSpan(c) ==
    /\ mk \in ArrayKinds \cup ContKinds /\ c \in BOOLEAN
    /\ Step("MakeSpan", [c |-> c], Void, <<View(0, N, MemExt, c)>>, parent)
(* C++17 class template argument deduction: span s(arr), span s(std_array), span s(container) (and of const references) *)
Deduce(c) ==
    /\ mk \in ArrayKinds \cup ContKinds /\ c \in BOOLEAN
    /\ Step("Deduce", [c |-> c], Void, <<View(0, N, MemExt, c)>>, parent)
(* span<T>() / span<T, 0>(): data() == nullptr and size() == 0; reported as <<data() == nullptr, size()>> *)
Default(ext, c) ==
    /\ ext \in {DYN, 0} /\ c \in BOOLEAN
    /\ Step("Default", [ext |-> ext, c |-> c], Ok(<<1, 0>>), <<View(0, 0, ext, c)>>, parent)
(* copy construction, copy assignment of a view, make_span(span) *)
Copy(s, how) ==
    /\ HasView(s) /\ how \in {"ctor", "assign", "make_span"}
    /\ Step("Copy", [s |-> s, how |-> how], Void, Push(s, views[s]), parent)
(* converting constructor span<T2, toext>(span<T1, E>): only for toext in {E, dynamic} and never dropping const *)
Convert(s, toext, toc) ==
    /\ HasView(s) /\ toext \in {DYN, views[s].ext} /\ toc \in BOOLEAN /\ (views[s].c => toc)
    /\ Step("Convert", [s |-> s, ext |-> toext, c |-> toc], Void, Push(s, View(views[s].off, views[s].len, toext, toc)), parent)

----------------------------------------------------------------------------
(* [span.sub] with run-time arguments: always span<T, dynamic_extent>, T as in the source *)
First(s, c) ==
    /\ HasView(s)
    /\ LET v == views[s] IN
       Checked("First", [s |-> s, c |-> c], ArgLeq(c, v.len), Void, Push(s, View(v.off, c.v, DYN, v.c)))
Last(s, c) ==
    /\ HasView(s)
    /\ LET v == views[s] IN
       Checked("Last", [s |-> s, c |-> c], ArgLeq(c, v.len), Void, Push(s, View(v.off + v.len - c.v, c.v, DYN, v.c)))
(* subspan(offset, count): requires offset <= size() and (count == dynamic_extent or offset + count <= size()),  *)
(* on mathematical integers                                                                                       *)
SubOK(v, o, c) == ArgLeq(o, v.len) /\ (IsDyn(c) \/ ArgLeq(c, v.len - o.v))
Subspan(s, o, c) ==
    /\ HasView(s)
    /\ LET v == views[s] IN
       Checked("Subspan", [s |-> s, o |-> o, c |-> c], SubOK(v, o, c), Void,
               Push(s, View(v.off + o.v, IF IsDyn(c) THEN v.len - o.v ELSE c.v, DYN, v.c)))
(* subspan(offset) with the defaulted count *)
Subspan1(s, o) ==
    /\ HasView(s)
    /\ LET v == views[s] IN
       Checked("Subspan1", [s |-> s, o |-> o], ArgLeq(o, v.len), Void, Push(s, View(v.off + o.v, v.len - o.v, DYN, v.c)))

(* extension: non-member first(t, count), last(t, count), subspan(t, offset[, count]) applied to the parent    *)
(* memory itself (a C array, std::array or container); they go through make_span(t), the result replaces the *)
(* view stack.  Their arguments are std::ptrdiff_t: SIZE_MAX - d is passed as -(d+1).                         *)
MemView == View(0, N, MemExt, FALSE)
Nm(fn, o, c) ==
    /\ mk \in ArrayKinds \cup ContKinds
    /\ fn \in {"first", "last", "subspan", "subspan1"}
    /\ fn \in {"first", "last"} => o = Small(0)
    /\ fn = "subspan1" => c = DynArg
    /\ LET v == MemView
           a == [fn |-> fn, o |-> o, c |-> c]
       IN CASE fn = "first"    -> Checked("Nm", a, ArgLeq(c, v.len), Void, <<View(0, c.v, DYN, FALSE)>>)
            [] fn = "last"     -> Checked("Nm", a, ArgLeq(c, v.len), Void, <<View(v.len - c.v, c.v, DYN, FALSE)>>)
            [] fn = "subspan"  -> Checked("Nm", a, SubOK(v, o, c), Void, <<View(o.v, IF IsDyn(c) THEN v.len - o.v ELSE c.v, DYN, FALSE)>>)
            [] fn = "subspan1" -> Checked("Nm", a, ArgLeq(o, v.len), Void, <<View(o.v, v.len - o.v, DYN, FALSE)>>)

(* [span.sub] with template arguments.  Counts are 0..MaxE or one of the two largest values of std::ptrdiff_t, written *)
(* BigC(0) = PTRDIFF_MAX and BigC(1) = PTRDIFF_MAX - 1 (numbers far above every size of this model): never a valid    *)
(* count, and Offset + Count then exceeds PTRDIFF_MAX for every Offset > 0 resp. > 1                                  *)
BigC(d) == 1000000 - d
BigCs == {BigC(0), BigC(1)}
StaticCounts == 0..MaxE \cup BigCs
FirstS(s, C) ==
    /\ HasView(s) /\ C \in StaticCounts
    /\ LET v == views[s] IN
       Checked("FirstS", [s |-> s, C |-> C], C <= v.len, Void, Push(s, View(v.off, C, C, v.c)))
LastS(s, C) ==
    /\ HasView(s) /\ C \in StaticCounts
    /\ LET v == views[s] IN
       Checked("LastS", [s |-> s, C |-> C], C <= v.len, Void, Push(s, View(v.off + v.len - C, C, C, v.c)))
(* subspan<O, C>(): the result has extent C, or E - O for a static source, or is dynamic *)
SubSExt(v, O, C) == IF C # DYN THEN C ELSE IF v.ext # DYN THEN v.ext - O ELSE DYN
SubspanS(s, O, C) ==
    /\ HasView(s) /\ O \in 0..(MaxE + 1) /\ C \in {DYN} \cup StaticCounts
    /\ LET v == views[s] IN
       /\ SubSExt(v, O, C) >= -1                \* otherwise the return type is ill-formed (does not compile)
       /\ SubSExt(v, O, C) <= MaxE \/ C \in BigCs
       /\ Checked("SubspanS", [s |-> s, O |-> O, C |-> C], O <= v.len /\ (C = DYN \/ C <= v.len - O), Void,
                  Push(s, View(v.off + O, IF C = DYN THEN v.len - O ELSE C, SubSExt(v, O, C), v.c)))
(* extension: the non-member template forms first<C>(t), last<C>(t), subspan<O, C>(t) on the memory object itself *)
NmS(fn, O, C) ==
    /\ mk \in ArrayKinds \cup ContKinds
    /\ fn \in {"first", "last", "subspan"}
    /\ fn \in {"first", "last"} => O = 0 /\ C \in 0..MaxE
    /\ fn = "subspan" => O \in 0..(MaxE + 1) /\ C \in {DYN} \cup 0..MaxE
    /\ LET v == MemView
           a == [fn |-> fn, O |-> O, C |-> C]
       IN CASE fn = "first"   -> Checked("NmS", a, C <= v.len, Void, <<View(0, C, C, FALSE)>>)
            [] fn = "last"    -> Checked("NmS", a, C <= v.len, Void, <<View(v.len - C, C, C, FALSE)>>)
            [] fn = "subspan" -> /\ SubSExt(v, O, C) >= -1 /\ SubSExt(v, O, C) <= MaxE
                                 /\ Checked("NmS", a, O <= v.len /\ (C = DYN \/ C <= v.len - O), Void,
                                            <<View(O, IF C = DYN THEN v.len - O ELSE C, SubSExt(v, O, C), FALSE)>>)

----------------------------------------------------------------------------
(* [span.elem] *)
(* operator[] (how = "sub"), the deprecated operator() (how = "call") and get<N>(span) (how = "get", N a template *)
(* argument 0..MaxE): require idx < size()                                                                      *)
Index(s, how, i) ==
    /\ HasView(s) /\ how \in {"sub", "call", "get"}
    /\ how = "get" => i.t = "s" /\ i.v <= MaxE
    /\ LET v == views[s] IN
       Checked("Index", [s |-> s, how |-> how, i |-> i], ArgLt(i, v.len),
               IF ArgLt(i, v.len) THEN Ok(<<parent[v.off + i.v + 1]>>) ELSE Void, views)
(* at(): throws std::out_of_range for every idx >= size(), whatever the mode *)
At(s, i) ==
    /\ HasView(s)
    /\ LET v == views[s] IN
       Obs("At", [s |-> s, i |-> i], IF ArgLt(i, v.len) THEN Ok(<<parent[v.off + i.v + 1]>>) ELSE Exc("out_of_range"))
Front(s) ==
    /\ HasView(s)
    /\ LET v == views[s] IN
       Checked("Front", [s |-> s], v.len > 0, IF v.len > 0 THEN Ok(<<parent[v.off + 1]>>) ELSE Void, views)
Back(s) ==
    /\ HasView(s)
    /\ LET v == views[s] IN
       Checked("Back", [s |-> s], v.len > 0, IF v.len > 0 THEN Ok(<<parent[v.off + v.len]>>) ELSE Void, views)
(* C++17 structured binding of a view with static extent 1..3: auto& [a, b] = sp; names exactly its elements *)
Bind(s) ==
    /\ HasView(s) /\ views[s].ext \in 1..3
    /\ Obs("Bind", [s |-> s], Ok(Elems(views[s])))

(* a write through a view of non-const elements lands in the parent's cell off + i and nowhere else.  Paths: operator[],  *)
(* operator(), at, front, back, data(), begin(), rbegin(), get<i>, all bytes of the element through as_writable_bytes,    *)
(* a C++17 structured binding (static extents 1..3)                                                                       *)
WritePaths == {"sub", "call", "at", "front", "back", "data", "iter", "riter", "get", "wbytes", "sb"}
Write(s, path, i, x) ==
    /\ HasView(s) /\ path \in WritePaths
    /\ LET v == views[s] IN
       /\ ~v.c
       /\ i < v.len
       /\ path = "front" => i = 0
       /\ path = "back" => i = v.len - 1
       /\ path = "get" => i <= MaxE
       /\ path = "sb" => v.ext \in 1..3
       /\ Step("Write", [s |-> s, path |-> path, i |-> i, x |-> x], Void, views, [parent EXCEPT ![v.off + i + 1] = x])

(* comparison operators: std::equal / std::lexicographical_compare on the two element sequences, whatever the *)
(* extents and const-qualifications of the two span types                                                     *)
RECURSIVE LexLt(_, _)
LexLt(a, b) == IF Len(b) = 0 THEN FALSE
               ELSE IF Len(a) = 0 THEN TRUE
               ELSE IF Head(a) < Head(b) THEN TRUE
               ELSE IF Head(a) > Head(b) THEN FALSE
               ELSE LexLt(Tail(a), Tail(b))
B2I(b) == IF b THEN 1 ELSE 0
Cmp(s, t) ==
    /\ HasView(s) /\ HasView(t)
    /\ LET a == Elems(views[s])  b == Elems(views[t]) IN
       Obs("Cmp", [s |-> s, t |-> t],
           Ok(<<B2I(a = b), B2I(a # b), B2I(LexLt(a, b)), B2I(~LexLt(b, a)), B2I(LexLt(b, a)), B2I(~LexLt(a, b))>>))

(* as_bytes / as_writable_bytes (the latter only for non-const elements): <<extent in bytes, offset in bytes, size in bytes>> *)
AsBytes(s, w) ==
    /\ HasView(s) /\ w \in {0, 1}
    /\ LET v == views[s] IN
       /\ w = 1 => ~v.c
       /\ Obs("AsBytes", [s |-> s, w |-> w], Ok(<<IF v.ext = DYN THEN DYN ELSE esz * v.ext, esz * v.off, esz * v.len>>))

----------------------------------------------------------------------------
(* Bounded argument domains for the model checker *)
Cells(n) == [i \in 1..n |-> 10 + i]
SizeArgs(n) == {Small(x) : x \in 0..(n + 1)} \cup {HugeArg(d) : d \in Huge}
CountArgs(n) == SizeArgs(n) \cup {DynArg}
Exts(n) == {DYN} \cup 0..MaxE
Srcs == 1..Len(views)

Init ==
    /\ mode \in Modes
    /\ esz = 4
    /\ mk = "heap"
    /\ parent = <<>>
    /\ views = <<>>
    /\ last = [op |-> "Init", a |-> NoArg, res |-> Void]
    /\ pre = [parent |-> <<>>, views |-> <<>>, mk |-> "heap"]

C(c) == c \in Classes
Next ==
    \/ C("mem")  /\ \E kind \in Kinds, n \in 0..MaxN : Mem(kind, Cells(n))
    \/ C("ctor") /\ \E po \in 0..N, cnt \in 0..N, ext \in Exts(N), c \in BOOLEAN : FromPtrCount(po, cnt, ext, c) \/ FromPtrPair(po, cnt, ext, c)
    \/ C("ctor") /\ \E ext \in Exts(N), c \in BOOLEAN : FromArray(ext, c) \/ FromStdArray(ext, c) \/ FromContainer(ext, c) \/ Default(ext, c)
    \/ C("ctor") /\ \E c \in BOOLEAN : MakeSpan(c) \/ Deduce(c)
    \/ C("copy") /\ \E s \in Srcs : (\E how \in {"ctor", "assign", "make_span"} : Copy(s, how)) \/ (\E e \in Exts(N), c \in BOOLEAN : Convert(s, e, c))
    \/ C("sub")  /\ \E s \in Srcs, c \in CountArgs(N) : First(s, c) \/ Last(s, c)
    \/ C("sub")  /\ \E s \in Srcs, o \in SizeArgs(N), c \in CountArgs(N) : Subspan(s, o, c)
    \/ C("sub")  /\ \E s \in Srcs, o \in SizeArgs(N) : Subspan1(s, o)
    \/ C("sub")  /\ \E fn \in {"first", "last", "subspan", "subspan1"}, o \in SizeArgs(N), c \in CountArgs(N) : Nm(fn, o, c)
    \/ C("subs") /\ \E s \in Srcs, cc \in StaticCounts : FirstS(s, cc) \/ LastS(s, cc)
    \/ C("subs") /\ \E s \in Srcs, oo \in 0..(MaxE + 1), cc \in {DYN} \cup StaticCounts : SubspanS(s, oo, cc)
    \/ C("subs") /\ \E fn \in {"first", "last", "subspan"}, oo \in 0..(MaxE + 1), cc \in {DYN} \cup 0..MaxE : NmS(fn, oo, cc)
    \/ C("elem") /\ \E s \in Srcs, i \in SizeArgs(N) : At(s, i) \/ (\E how \in {"sub", "call", "get"} : Index(s, how, i))
    \/ C("elem") /\ \E s \in Srcs : Front(s) \/ Back(s) \/ Bind(s)
    \/ C("write") /\ \E s \in Srcs, path \in WritePaths, i \in 0..N, x \in {7} : Write(s, path, i, x)
    \/ C("cmp")  /\ \E s \in Srcs, t \in Srcs : Cmp(s, t)
    \/ C("cmp")  /\ \E s \in Srcs, w \in {0, 1} : AsBytes(s, w)

(* the model checker expands states with at most MaxDepth views and untouched memory (SpecB below).  It is *)
(* a condition on the source state: the successors (one view deeper, or with a written cell) are still     *)
(* generated, checked against the invariants and written out by Emit; they are just not expanded.          *)
SrcBound == Len(views) <= MaxDepth /\ parent = Cells(N)

(* S->C enumeration: every transition out of a state is written as one JSON line (pre-state and call); *)
(* calls that do not depend on the kind of memory are written for heap memory only, and calls on a     *)
(* view only while it is the top of the stack (below the top it was the top of a shorter stack)        *)
MemOps == {"FromArray", "FromStdArray", "FromContainer", "MakeSpan", "Deduce", "Nm", "NmS"}
TopOnly == ("s" \notin DOMAIN last'.a) \/ last'.a.s = Len(views)
(* calls that build a view from the memory do not depend on the views already there: written once, from the empty stack *)
CtorOps == {"FromPtrCount", "FromPtrPair", "FromArray", "FromStdArray", "FromContainer", "MakeSpan", "Deduce", "Default", "Nm", "NmS"}
FreshOnly == last'.op \in CtorOps => views = <<>>
Emit == /\ (last'.op \in EmitOps /\ (mk = "heap" \/ last'.op \in MemOps) /\ TopOnly /\ FreshOnly) =>
            PrintT("@E@" \o ToJson([m |-> mode, p |-> pre', l |-> [op |-> last'.op, a |-> last'.a]]))

DepthBound == Len(views) <= MaxDepth

Spec == Init /\ [][Next]_vars
(* the bounded exploration used for model checking and S->C enumeration: only states inside SrcBound are expanded *)
NextB == SrcBound /\ Next
SpecB == Init /\ [][NextB]_vars

----------------------------------------------------------------------------
(* Theorems of the specification itself *)
TypeOK ==
    /\ mode \in AllModes /\ mk \in MemKinds /\ esz \in Nat \ {0}
    /\ \A i \in 1..Len(views) : views[i].off \in Nat /\ views[i].len \in Nat /\ views[i].ext \in {DYN} \cup Nat /\ views[i].c \in BOOLEAN
(* every view lies inside the parent; a static extent is the size; a sub-view lies inside the view it was taken from *)
(* and never loses a const qualification                                                                             *)
Inside == \A i \in 1..Len(views) : LET v == views[i] IN
    /\ v.off + v.len <= N
    /\ v.ext # DYN => v.ext = v.len
    /\ i > 1 => /\ views[i - 1].off <= v.off /\ v.off + v.len <= views[i - 1].off + views[i - 1].len
                /\ views[i - 1].c => v.c
ObserverOps == {"At", "Index", "Front", "Back", "Cmp", "AsBytes", "Bind"}
ObserversPure == [][last'.op \in ObserverOps => views' = views /\ parent' = parent]_vars
FailedChangesNothing == [][last'.res.exc # "none" => views' = views /\ parent' = parent]_vars
(* contract violations are only ever reported by a checking build, and in the way of its mode *)
ContractOnlyWhenChecking == [][/\ last'.res.exc = "contract" => mode = "throwing"
                              /\ last'.res.exc = "terminated" => mode = "terminate"]_vars
(* only Mem and Write change the cells, and Write exactly one cell inside a non-const view written through *)
WriteLaw == [][(last'.op \notin {"Mem", "Write"} => parent' = parent) /\
               (last'.op = "Write" =>
                   LET v == views[last'.a.s] IN
                     /\ ~v.c
                     /\ \A j \in 1..N : parent'[j] # parent[j] => j = v.off + last'.a.i + 1 /\ j > v.off /\ j <= v.off + v.len)]_vars
(* the three modes agree on every call inside the contract (checking never changes what a valid call does): *)
(* a step whose result is not a rejection does not depend on the mode - by construction of Checked, stated  *)
(* here as: a non-rejected step of an observer or sub-view call yields a window inside its source           *)
SubInsideSource == [][(last'.res.exc = "none" /\ "s" \in DOMAIN last'.a /\ last'.op \notin {"Write", "Cmp"} /\ Len(views') > last'.a.s) =>
                        LET src == views[last'.a.s]  nv == views'[last'.a.s + 1] IN
                          src.off <= nv.off /\ nv.off + nv.len <= src.off + src.len]_vars
=============================================================================

---------------------------- MODULE ComplexTrace ----------------------------
(* Trace validation for C10 (register machine): every line of the ndjson trace recorded from   *)
(* the real xcomplex / std::complex / scalar objects must be a step of Complex (L1) with the    *)
(* logged arguments, and the logged result and the full projection must be the spec's.          *)
EXTENDS Complex, IOUtils

VARIABLE l     \* next line of the trace to be explained

JsonTrace == ndJsonDeserialize(IOEnv.TRACE)
ExplainAt == atoi(IOEnv.EXPLAIN)

Zeros == [i \in 1..NCells |-> 0]

TInit == /\ l = 1
         /\ mem = Zeros
         /\ last = [op |-> "Init", a |-> [z |-> 0], res |-> None]
         /\ pre = Zeros

(* a new execution: fresh objects, all cells zero; the event names the instantiation (T, B) *)
TReset(e) == Do("Reset", e.a, Zeros, None)

Dispatch(e) == LET a == e.a IN
    \/ e.op = "Reset"        /\ TReset(e)
    \/ e.op = "Load"         /\ Load(a.c)
    \/ e.op = "SetVal"       /\ SetVal(a.x, a.re, a.im)
    \/ e.op = "SetPart"      /\ SetPart(a.x, a.part, a.via, a.n)
    \/ e.op = "AssignScalar" /\ AssignScalar(a.x, a.n, a.st)
    \/ e.op = "Assign"       /\ Assign(a.x, a.y)
    \/ e.op = "CtorLv"       /\ CtorLv(a.x, a.y)
    \/ e.op = "AssignMove"   /\ AssignMove(a.x, a.y)
    \/ e.op = "Swap"         /\ Swap(a.x, a.y)
    \/ e.op = "FromStd"      /\ FromStd(a.x)
    \/ e.op = "ToStd"        /\ ToStd(a.x)
    \/ e.op = "Bin"          /\ Bin(a.o, a.x, a.y)
    \/ e.op = "BinS"         /\ BinS(a.o, a.x, a.side, a.st)
    \/ e.op = "BinStd"       /\ BinStd(a.o, a.x, a.form)
    \/ e.op = "Cmp"          /\ Cmp(a.o, a.x, a.y)
    \/ e.op = "CmpS"         /\ CmpS(a.o, a.x, a.st)
    \/ e.op = "CmpStd"       /\ CmpStd(a.o, a.x)
    \/ e.op = "CmpP"         /\ CmpP(a.o, a.x, a.y, a.part)
    \/ e.op = "Un"           /\ Un(a.f, a.x)
    \/ e.op = "Norm"         /\ Norm(a.x)
    \/ e.op = "Part"         /\ Part(a.x, a.part, a.via)
    \/ e.op = "Eq"           /\ Eq(a.ne, a.x, a.y)
    \/ e.op = "EqStd"        /\ EqStd(a.ne, a.x, a.form)
    \/ e.op = "EqReal"       /\ EqReal(a.ne, a.x)
    \/ e.op = "Ctor"         /\ Ctor(a.f)
    \/ e.op = "Str"          /\ Str(a.x)
    \/ e.op = "Fwd"          /\ Fwd(a.fn, a.x, a.y)

TNext ==
    /\ l <= Len(JsonTrace)
    /\ LET e == JsonTrace[l] IN
        /\ Dispatch(e)
        /\ IF l = ExplainAt
             THEN PrintT(<<"EXPECTED", last'.res, ProjAll'>>)
             ELSE /\ IF e.op = "Fwd" THEN e.res.xtl = e.res.std      \* bit patterns, as 16-bit limbs
                                     ELSE last'.res = e.res
                  /\ ProjAll' = e.st
    /\ l' = l + 1

TSpec == TInit /\ [][TNext]_<<vars, l>>
TraceAccepted == TLCGet("stats").diameter - 1 = Len(JsonTrace)
=============================================================================

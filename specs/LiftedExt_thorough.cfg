SPECIFICATION Spec
CONSTANTS
  MCTys <- AllTys
  NValOf <- NThorough
  EmitOn = TRUE
ACTION_CONSTRAINT Emit
PROPERTIES PropagationLaw EqualityLaw
CHECK_DEADLOCK FALSE

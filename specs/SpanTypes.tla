------------------------------ MODULE SpanTypes ------------------------------
(***************************************************************************)
(* C16, the type-level part of the property: which span type each           *)
(* constructor and sub-view function yields ("static or dynamic extents"),  *)
(* as a table of rows that the runner renders as one static_assert each     *)
(* (harness/span, generated translation unit) and compiles before it builds *)
(* the conformance driver.  Written from [span.cons], [span.sub],           *)
(* [span.objectrep], [span.tuple] of P0122R7, with the extent arithmetic of *)
(* Span.tla (SubSExt).  Extent -1 is dynamic_extent; c is "the element type *)
(* is const-qualified"; ESZ is sizeof(element type).                        *)
(*                                                                          *)
(* lvl "v": the row is what the property states (the result type of a call  *)
(* the property names; a construction it says is possible).  lvl "a": a     *)
(* fact of P0122R7 the property does not state (which conversions do NOT    *)
(* exist, member typedefs): a failing row is MODEL-DRIFT only.              *)
(***************************************************************************)
EXTENDS Integers, Sequences, FiniteSets, TLC, Json

CONSTANTS MaxE, ESZ
DYN == -1
Exts == {DYN} \cup 0..MaxE
SubSExt(E, O, C) == IF C # DYN THEN C ELSE IF E # DYN THEN E - O ELSE DYN
BytesExt(E) == IF E = DYN THEN DYN ELSE ESZ * E

Rows ==
    (* span<T, E>::first<C>() / last<C>() -> span<T, C> *)
    {[k |-> "firstS", lvl |-> "v", E |-> e, c |-> c, C |-> cc, R |-> cc] : e \in Exts, c \in BOOLEAN, cc \in 0..MaxE}
    \cup {[k |-> "lastS", lvl |-> "v", E |-> e, c |-> c, C |-> cc, R |-> cc] : e \in Exts, c \in BOOLEAN, cc \in 0..MaxE}
    (* subspan<O, C>() -> span<T, C>, or span<T, E - O>, or dynamic; rows whose return type would be ill-formed are not written *)
    \cup {x \in {[k |-> "subspanS", lvl |-> "v", E |-> e, c |-> c, O |-> o, C |-> cc, R |-> SubSExt(e, o, cc)] :
                       e \in Exts, c \in BOOLEAN, o \in 0..(MaxE + 1), cc \in Exts} : x.R >= -1}
    (* the run-time forms always yield a dynamic extent *)
    \cup {[k |-> "rt", lvl |-> "v", E |-> e, c |-> c, fn |-> fn, R |-> DYN] : e \in Exts, c \in BOOLEAN, fn \in {"first", "last", "subspan", "subspan1"}}
    (* as_bytes / as_writable_bytes: extent in bytes; as_writable_bytes does not exist for const elements *)
    \cup {[k |-> "bytes", lvl |-> "v", E |-> e, c |-> c, w |-> 0, R |-> BytesExt(e)] : e \in Exts, c \in BOOLEAN}
    \cup {[k |-> "bytes", lvl |-> "v", E |-> e, c |-> FALSE, w |-> 1, R |-> BytesExt(e)] : e \in Exts}
    \cup {[k |-> "nowbytes", lvl |-> "a", E |-> e, c |-> TRUE] : e \in Exts}
    (* span<T2, E2>(span<T1, E1>) exists iff E2 is E1 or dynamic and const is not dropped *)
    \cup {[k |-> "conv", lvl |-> IF (e2 \in {e1, DYN}) /\ (c1 => c2) THEN "v" ELSE "a", E1 |-> e1, c1 |-> c1, E2 |-> e2, c2 |-> c2,
           ok |-> (e2 \in {e1, DYN}) /\ (c1 => c2)] : e1 \in Exts, e2 \in Exts, c1 \in BOOLEAN, c2 \in BOOLEAN}
    (* default construction exists iff E <= 0 *)
    \cup {[k |-> "defctor", lvl |-> IF e <= 0 THEN "v" ELSE "a", E |-> e, c |-> c, ok |-> e <= 0] : e \in Exts, c \in BOOLEAN}
    (* from T (&)[N], std::array<T, N>&, const std::array<T, N>&: iff E is N or dynamic; a const array only into const elements *)
    \cup {[k |-> "fromarr", lvl |-> IF (e \in {n, DYN}) /\ (ca => c) THEN "v" ELSE "a", src |-> src, N |-> n, ca |-> ca, E |-> e, c |-> c,
           ok |-> (e \in {n, DYN}) /\ (ca => c)] :
              src \in {"carray", "stdarray"}, n \in 1..MaxE, ca \in BOOLEAN, e \in Exts, c \in BOOLEAN}
    (* from a container (std::vector, a user type with data() and size()): every extent compiles (checked at run time) *)
    \cup {[k |-> "fromcont", lvl |-> IF ca => c THEN "v" ELSE "a", src |-> src, ca |-> ca, E |-> e, c |-> c, ok |-> (ca => c)] :
              src \in {"vector", "box"}, ca \in BOOLEAN, e \in Exts, c \in BOOLEAN}
    (* element types that differ in more than a qualification (round 5): the source's elements are of a class derived from  *)
    (* the view's element type and larger than it.  A view of such elements would stride by sizeof(base): s[i] would not be *)
    (* element i and size_bytes() would not cover the source, so "views exactly those elements" can only hold if the       *)
    (* construction does not exist ([span.cons]: an array of the source's element type must convert to an array of ElementType). *)
    (* The reverse direction (base elements into a span of derived) and unrelated element types never convert either.      *)
    \cup {[k |-> "fromrel", lvl |-> "v", src |-> src, rel |-> rel, ca |-> ca, E |-> e, c |-> c, ok |-> FALSE] :
              src \in {"carray", "stdarray", "vector", "box", "span", "spanS"}, rel \in {"derived", "base", "unrelated"},
              ca \in BOOLEAN, e \in {DYN, 2}, c \in BOOLEAN}
    (* the same sources with the element type itself: the qualification rule only (guards the rendering of the rows above) *)
    \cup {[k |-> "fromrel", lvl |-> IF (ca => c) /\ (src = "span" => e = DYN) THEN "v" ELSE "a", src |-> src, rel |-> "same", ca |-> ca, E |-> e, c |-> c,
           ok |-> (ca => c) /\ (src = "span" => e = DYN)] :
              src \in {"carray", "stdarray", "vector", "box", "span", "spanS"}, ca \in BOOLEAN, e \in {DYN, 2}, c \in BOOLEAN}
    (* make_span: arrays keep their size as the extent, containers are dynamic, constness follows the argument *)
    \cup {[k |-> "make", lvl |-> "v", src |-> src, N |-> n, ca |-> ca, R |-> IF src \in {"vector", "box"} THEN DYN ELSE n, Rc |-> ca] :
              src \in {"carray", "stdarray", "vector", "box"}, n \in 1..MaxE, ca \in BOOLEAN}
    \cup {[k |-> "makespan", lvl |-> "v", E |-> e, c |-> c] : e \in Exts, c \in BOOLEAN}
    (* C++17 class template argument deduction (rendered for C++17 translation units only): the same types as make_span *)
    \cup {[k |-> "ctad", lvl |-> "v", src |-> src, N |-> n, ca |-> ca, R |-> IF src \in {"vector", "box"} THEN DYN ELSE n, Rc |-> ca] :
              src \in {"carray", "stdarray", "vector", "box"}, n \in 1..MaxE, ca \in BOOLEAN}
    (* non-member template forms on an array of N elements or a container *)
    \cup {[k |-> "nmFirstS", lvl |-> "v", src |-> src, N |-> n, C |-> cc, R |-> cc] : src \in {"carray", "stdarray", "vector"}, n \in 1..MaxE, cc \in 0..MaxE}
    \cup {x \in {[k |-> "nmSubspanS", lvl |-> "v", src |-> src, N |-> n, O |-> o, C |-> cc, R |-> SubSExt(IF src = "vector" THEN DYN ELSE n, o, cc)] :
                       src \in {"carray", "stdarray", "vector"}, n \in 1..MaxE, o \in 0..(MaxE + 1), cc \in Exts} : x.R >= -1}
    (* [span.tuple]: tuple_size is the extent (static extents only), tuple_element is the element type, get<I> yields a reference to it *)
    \cup {[k |-> "tuple", lvl |-> "v", E |-> e, c |-> c] : e \in 0..MaxE, c \in BOOLEAN}
    \cup {[k |-> "notuple", lvl |-> "a", c |-> c] : c \in BOOLEAN}
    (* the extent constant and the element access types *)
    \cup {[k |-> "members", lvl |-> "v", E |-> e, c |-> c] : e \in Exts, c \in BOOLEAN}

VARIABLE r
Init == r \in Rows
Next == UNCHANGED r
Spec == Init /\ [][Next]_r
EmitRow == PrintT("@T@" \o ToJson(r))
(* sanity of the table itself: every result extent is a legal extent, and a sub-view of a static span of E elements *)
(* never has a static extent above E                                                                                *)
RowsSane == /\ ("R" \in DOMAIN r) => r.R >= -1
            /\ (r.k = "subspanS" /\ r.E # DYN /\ r.C = DYN) => r.R = r.E - r.O
=============================================================================

---------------------------- MODULE ComplexExact ----------------------------
(***************************************************************************)
(* L1 property specification for C10, third decidable part: complex         *)
(* arithmetic on DYADIC operands.  An operand component is n * 2^e with a   *)
(* small integer n; on the cases admitted below every intermediate of every *)
(* reasonable algorithm (textbook, scaled / Annex G, Smith) and the result  *)
(* itself are exactly representable in the element type, so "the            *)
(* mathematically correct complex result to within a few units of rounding" *)
(* is EQUALITY with the exact result - except for a division whose divisor's *)
(* squared modulus is not a power of two: there an implementation may        *)
(* legitimately multiply by a rounded reciprocal, and the result only has to *)
(* be within Ulps units in the last place of the (exactly representable)     *)
(* quotient.  Written from complex arithmetic and IEEE 754 formats, not from *)
(* xtl's code.  Operator-only module.                                        *)
(*                                                                          *)
(* A case is  [t, b, f, x, m, y, k, st] :                                   *)
(*   t   element type "float" | "double" | "ldouble"                        *)
(*   b   ieee_compliant flag of the xcomplex operands                       *)
(*   f   form: add sub mul div        xcomplex (op) xcomplex                *)
(*             adds subs muls divs    xcomplex (op) scalar                  *)
(*             sadd ssub smul sdiv    scalar (op) xcomplex                  *)
(*   x,m the xcomplex operand (x[1] + i x[2]) * 2^m  (the LEFT one of the   *)
(*       first two groups, the RIGHT one of the third)                      *)
(*   y,k the other operand: (y[1] + i y[2]) * 2^k, or the scalar y[1] * 2^k *)
(*   st  the C++ type of the scalar: "T" (the element type), "int", "long", *)
(*       "float", "double", "ldouble"  ("T" for the complex forms)           *)
(***************************************************************************)
EXTENDS Integers, Sequences, FiniteSets

AbsI(n) == IF n < 0 THEN 0 - n ELSE n
MinI(a, b) == IF a < b THEN a ELSE b
MaxI(a, b) == IF a < b THEN b ELSE a
RECURSIVE FL2(_)
FL2(n) == IF n <= 1 THEN 0 ELSE 1 + FL2(n \div 2)              \* floor(log2 n), n >= 1
RECURSIVE TZ(_)
TZ(n) == IF n = 0 \/ n % 2 # 0 THEN 0 ELSE 1 + TZ(n \div 2)    \* trailing zero bits of n >= 1
Pow2(n) == 2 ^ n
IsPow2(n) == n >= 1 /\ Pow2(FL2(n)) = n

FloatTypes == {"float", "double", "ldouble"}
Prec(t)  == CASE t = "float" -> 24   [] t = "double" -> 53   [] t = "ldouble" -> 64      \* significand bits
EMax(t)  == CASE t = "float" -> 127  [] t = "double" -> 1023 [] t = "ldouble" -> 16383   \* largest exponent
EMinN(t) == 1 - EMax(t)                                                                   \* smallest normal exponent
EMinS(t) == EMinN(t) - (Prec(t) - 1)                                                      \* exponent of the smallest subnormal

(* n * 2^e is a value of floating type t (normal or subnormal), exactly *)
(* (IF, not a disjunction: TLC would enumerate the same initial state once per true disjunct)            *)
Rep(n, e, t) == IF n = 0 THEN TRUE
                ELSE LET a == AbsI(n) IN
                  /\ FL2(a) + e <= EMax(t)
                  /\ e + TZ(a) >= EMinS(t)
                  /\ FL2(a) - TZ(a) + 1 <= Prec(t)
Normal(n, e, t) == IF n = 0 THEN TRUE ELSE (Rep(n, e, t) /\ FL2(AbsI(n)) + e >= EMinN(t))
(* ... is a value of the scalar's C++ type st (integers: small and non-negative exponent) *)
RepIn(n, e, st, t) == CASE st = "T" -> Rep(n, e, t)
                        [] st \in {"int", "long"} -> e \in 0..10 /\ AbsI(n) * Pow2(e) <= 30000
                        [] OTHER -> Rep(n, e, st)

----------------------------------------------------------------------------
(* Gaussian integers *)
GAdd(x, y)  == <<x[1] + y[1], x[2] + y[2]>>
GSub(x, y)  == <<x[1] - y[1], x[2] - y[2]>>
GMul(x, y)  == <<x[1] * y[1] - x[2] * y[2], x[1] * y[2] + x[2] * y[1]>>
GConj(x)    == <<x[1], 0 - x[2]>>
GNorm(x)    == x[1] * x[1] + x[2] * x[2]
GScale(x, s) == <<x[1] * s, x[2] * s>>
GDivisible(x, y) == LET w == GMul(x, GConj(y)) IN GNorm(y) # 0 /\ w[1] % GNorm(y) = 0 /\ w[2] % GNorm(y) = 0
GDiv(x, y)  == LET w == GMul(x, GConj(y)) IN <<w[1] \div GNorm(y), w[2] \div GNorm(y)>>
(* ratio of the divisor's smaller to its larger component is dyadic: Smith's algorithm is exact too *)
DyadicRatio(y) == LET mx == MaxI(AbsI(y[1]), AbsI(y[2]))  mn == MinI(AbsI(y[1]), AbsI(y[2]))
                  IN mx # 0 /\ (mn * 1024) % mx = 0

----------------------------------------------------------------------------
CForms == {"add", "sub", "mul", "div"}
RForms == {"adds", "subs", "muls", "divs"}
LForms == {"sadd", "ssub", "smul", "sdiv"}
Forms  == CForms \cup RForms \cup LForms
CoreOf(f) == CASE f \in {"add", "adds", "sadd"} -> "add" [] f \in {"sub", "subs", "ssub"} -> "sub"
               [] f \in {"mul", "muls", "smul"} -> "mul" [] OTHER -> "div"

(* the two operands as scaled Gaussian integers [v, e] = v * 2^e, in the order of the C++ expression *)
Scalar(c) == [v |-> <<c.y[1], 0>>, e |-> c.k]
Cplx(c)   == [v |-> c.x, e |-> c.m]
LeftOf(c)  == IF c.f \in LForms THEN Scalar(c) ELSE Cplx(c)
RightOf(c) == IF c.f \in CForms THEN [v |-> c.y, e |-> c.k] ELSE IF c.f \in RForms THEN Scalar(c) ELSE Cplx(c)

(* The exact result [v, e, tol]: v * 2^e; tol = only required to within Ulps units in the last place *)
Result(op, L, R) ==
    CASE op \in {"add", "sub"} ->
           LET e == MinI(L.e, R.e)
               a == GScale(L.v, Pow2(L.e - e))  b == GScale(R.v, Pow2(R.e - e))
           IN [v |-> IF op = "add" THEN GAdd(a, b) ELSE GSub(a, b), e |-> e, tol |-> FALSE]
      [] op = "mul" -> [v |-> GMul(L.v, R.v), e |-> L.e + R.e, tol |-> FALSE]
      [] op = "div" ->
           IF IsPow2(GNorm(R.v))
             THEN [v |-> GMul(L.v, GConj(R.v)), e |-> L.e - R.e - FL2(GNorm(R.v)), tol |-> FALSE]
             ELSE [v |-> GDiv(L.v, R.v), e |-> L.e - R.e, tol |-> TRUE]
ResultOf(c) == Result(CoreOf(c.f), LeftOf(c), RightOf(c))

MaxAlign == 10
RepPair(v, e, t) == Rep(v[1], e, t) /\ Rep(v[2], e, t)
Products(L, R) == {L.v[i] * R.v[j] : i \in 1..2, j \in 1..2}

(* "finite, well-scaled operands" on which exactness can be demanded *)
Admissible(c) ==
    LET L == LeftOf(c)  R == RightOf(c)  op == CoreOf(c.f)  t == c.t IN
    /\ c.t \in FloatTypes /\ c.f \in Forms /\ c.b \in BOOLEAN
    /\ RepPair(c.x, c.m, t)
    /\ IF c.f \in CForms THEN RepPair(c.y, c.k, t) /\ c.st = "T"
                         ELSE c.y[2] = 0 /\ RepIn(c.y[1], c.k, c.st, t) /\ Rep(c.y[1], c.k, t)
    /\ (op \in {"add", "sub"} => AbsI(L.e - R.e) <= MaxAlign)
    /\ (op = "div" => GNorm(R.v) # 0 /\ (IF IsPow2(GNorm(R.v)) THEN TRUE ELSE (GDivisible(L.v, R.v) /\ DyadicRatio(R.v))))
    /\ AbsI(Result(op, L, R).v[1]) < 65536 /\ AbsI(Result(op, L, R).v[2]) < 65536      \* Fp() handles |n| < 2^16
    /\ CASE op \in {"add", "sub"} -> RepPair(Result(op, L, R).v, Result(op, L, R).e, t)
         [] op = "mul" -> /\ \A pr \in Products(L, R) : Rep(pr, L.e + R.e, t)
                          /\ RepPair(GMul(L.v, R.v), L.e + R.e, t)
         [] op = "div" ->
              LET nrm == GNorm(R.v)  res == Result(op, L, R)  w == GMul(L.v, GConj(R.v))
                  big == MaxI(AbsI(R.v[1]), AbsI(R.v[2])) IN
              /\ nrm # 0
              (* textbook intermediates: c*c, d*d, c*c + d*d, the four products, the two numerators *)
              /\ Rep(R.v[1] * R.v[1], 2 * R.e, t) /\ Rep(R.v[2] * R.v[2], 2 * R.e, t) /\ Rep(nrm, 2 * R.e, t)
              /\ \A pr \in Products(L, R) : Rep(pr, L.e + R.e, t) /\ Rep(pr, L.e - FL2(big), t)
              /\ RepPair(w, L.e + R.e, t) /\ RepPair(w, L.e - FL2(big), t)
              /\ Normal(R.v[1], R.e, t) /\ Normal(R.v[2], R.e, t)
              /\ RepPair(res.v, res.e, t)
              /\ (res.tol => Normal(res.v[1], res.e, t) /\ Normal(res.v[2], res.e, t))

----------------------------------------------------------------------------
(* A floating-point number as the harness logs it:                                                  *)
(*   [k |-> "num", s |-> sign bit, e |-> e, f |-> <<l3,l2,l1,l0>>]  = (-1)^s * (1 + F/2^64) * 2^e    *)
(*   with F = l3*2^48 + l2*2^32 + l1*2^16 + l0 (16-bit limbs; TLC integers have 32 bits), or         *)
(*   [k |-> "zero" | "inf" | "nan", s |-> sign bit].   n * 2^t as such a record, |n| < 2^16:          *)
Fp(n, t) == IF n = 0 THEN [k |-> "zero", s |-> 0]
            ELSE LET b == FL2(AbsI(n)) IN
                 [k |-> "num", s |-> IF n < 0 THEN 1 ELSE 0, e |-> b + t,
                  f |-> <<(AbsI(n) - Pow2(b)) * Pow2(16 - b), 0, 0, 0>>]
(* the sign of a zero component is not specified *)
FpEq(exp, got) == IF exp.k = "zero" THEN got.k = "zero" ELSE got = exp

(* the numbers within j units in the last place above / below a normal number whose fraction has only its top limb set *)
Ulps == 4
UlpLimb(t) == CASE t = "float" -> 2 [] OTHER -> 4                                         \* which limb one ulp lives in
UlpStep(t) == CASE t = "float" -> 512 [] t = "double" -> 4096 [] t = "ldouble" -> 2        \* one ulp in units of that limb
Above(x, t, j) == IF j = 0 THEN x ELSE [x EXCEPT !.f = [x.f EXCEPT ![UlpLimb(t)] = j * UlpStep(t)]]
Below(x, t, j) ==
    IF j = 0 THEN x
    ELSE LET low == IF UlpLimb(t) = 2 THEN <<65536 - j * UlpStep(t), 0, 0>> ELSE <<65535, 65535, 65536 - j * UlpStep(t)>> IN
         IF x.f[1] > 0 THEN [x EXCEPT !.f = <<x.f[1] - 1>> \o low]
                       ELSE [x EXCEPT !.e = x.e - 1, !.f = <<65535>> \o low]      \* across a power of two (ulps of the lower binade)
Near(exp, t) == {Above(exp, t, j) : j \in 0..Ulps} \cup {Below(exp, t, j) : j \in 0..Ulps}
FpNear(exp, got, t) == IF exp.k = "zero" THEN got.k = "zero" ELSE got \in Near(exp, t)

Expected(c) == LET r == ResultOf(c) IN <<Fp(r.v[1], r.e), Fp(r.v[2], r.e)>>
Matches(c, got) == LET r == ResultOf(c)  e == Expected(c) IN
    \A i \in 1..2 : IF r.tol THEN FpNear(e[i], got[i], c.t) ELSE FpEq(e[i], got[i])
=============================================================================

-------------------------------- MODULE Any --------------------------------
(***************************************************************************)
(* L1 property specification for C06: xtl::any "keeps, copies and returns  *)
(* exactly what was stored, with exact-type casts".                        *)
(*                                                                         *)
(* Written from the property statement and the description of std::any in  *)
(* the C++ standard ([any.class], [any.nonmembers]; N4562 6.3/6.4), not    *)
(* from xtl's code.  Where the standard leaves the outcome open (state of  *)
(* a moved-from any, whether a payload object is relocated or its pointer  *)
(* handed over, how many temporaries a call makes, whether any_cast on an  *)
(* rvalue copies or moves) every conforming answer is accepted.            *)
(*                                                                         *)
(* State.  a[k] for k \in Anys is RAW (storage holds no any object),       *)
(* EMPTY, or the id (>= 1) of the payload object the any contains.  lt is  *)
(* the lifetime record of payload objects (AnyLifetime): type and value of *)
(* every LIVE id, and the largest id ever used.                            *)
(*                                                                         *)
(* A step is one public call.  The call is described by                    *)
(*   op, k, g   - operation, the object it is applied to, argument record  *)
(*   evs        - the element events (payload constructors, destructors,   *)
(*                injected throws ...) that happened during the call       *)
(*   res        - what the call returned / threw                           *)
(*   a2         - what the any objects contain afterwards                  *)
(* and CallOK says whether such a call is allowed in the current state:    *)
(*   1. the events respect object lifetimes (Fold): nothing is constructed *)
(*      from, assigned from or destroyed as an object that is not alive;   *)
(*   2. afterwards the live payload objects are exactly the ones contained *)
(*      in the any objects, each in one any only (WF): nothing leaked,     *)
(*      nothing destroyed that is still contained, copies are independent; *)
(*   3. the operation's own post-condition holds (Post): value semantics,  *)
(*      strong guarantee on a throwing copy, cast results.                 *)
(* The spec is used as an oracle by AnyTrace (recorded executions of the   *)
(* real code), explored by TLC through the liberal generator AnyMC, and is *)
(* the refinement target of the code-shaped model AnyImpl.                 *)
(***************************************************************************)
EXTENDS AnyLifetime, TLC

CONSTANTS Anys,     \* the any objects: 1..NA
          Types     \* payload types that can be stored

VARIABLES a,        \* a[k] \in {RAW, EMPTY} \cup ids
          lt,       \* lifetime record of payload objects
          last,     \* ghost: the call just performed [op, k, a, ev, res]
          pre       \* ghost: [a, lt] before that call

vars    == <<a, lt, last, pre>>
absvars == <<a, lt>>

RAW   == -2
EMPTY == -1
Has(x) == x >= 1
NA == Cardinality(Anys)

NoRes   == [exc |-> "none", null |-> FALSE, id |-> 0, v |-> 0, ty |-> ""]
FuseRes == [NoRes EXCEPT !.exc = "fuse"]
BadCast == [NoRes EXCEPT !.exc = "bad_any_cast"]
NullRes == [NoRes EXCEPT !.null = TRUE]

----------------------------------------------------------------------------
(* Operations (every public member and non-member of xany.hpp):
     DefaultConstruct   any()
     Construct          any(ValueType&&)           g.t, g.v: type and value; g.form: how the value is passed
     CopyConstruct      any(const any&)            g.j: source
     MoveConstruct      any(any&&)
     CopyAssign         operator=(const any&)      g.j = k allowed
     MoveAssign         operator=(any&&)           g.j = k allowed
     AssignValue        operator=(ValueType&&)
     Swap, StdSwap      a.swap(b), std::swap(a,b)  g.j = k allowed
     AReset, AClear     reset(), clear()
     Destroy, DestroyIf ~any()  (DestroyIf: only if constructed; used by scripts after a constructor that may have thrown)
     HasValue, Empty, Type   observers
     Cast               any_cast<...>              g.t: decayed target type, g.form: see below
     SetVia             any_cast<T>(&a)->set(v)    the client changes the contained object (independence of copies)
   g.fuse = n > 0: the n-th throwing-capable payload constructor of the call throws. *)

ValueForms == {"lv", "clv", "rv", "crv"}      \* T&, const T&, T&&, const T&&
PtrForms  == {"p_m", "p_mc", "p_c", "p_cc"}    \* any_cast<U>(any*), <const U>(any*), <U>(const any*), <const U>(const any*)
NullForms == {"p_n", "p_nc"}                   \* any_cast<U>((any*)nullptr), ((const any*)nullptr)
ValForms  == {"v_m", "v_mc", "v_c", "v_cc", "v_r"}   \* any_cast<U>(any&), <const U>(any&), <U>(const any&), <const U>(const any&), <U>(any&&)
RefForms  == {"r_m", "r_mc", "r_c", "r_r"}     \* any_cast<U&>(any&), <const U&>(any&), <const U&>(const any&), <const U&>(any&&)
CastForms == PtrForms \cup NullForms \cup ValForms \cup RefForms
NoexceptOps == {"DefaultConstruct", "MoveConstruct", "MoveAssign", "Swap", "StdSwap", "AReset", "AClear", "Destroy",
                "DestroyIf", "HasValue", "Empty", "Type", "SetVia"}
ObserverOps == {"HasValue", "Empty", "Type"}

(* C++ preconditions of the call (and the protocol of explicit construction/destruction) *)
Pre(op, k, g) ==
    /\ k \in Anys
    /\ CASE op \in {"DefaultConstruct", "Construct"} -> a[k] = RAW
         [] op \in {"CopyConstruct", "MoveConstruct"} -> a[k] = RAW /\ g.j \in Anys /\ g.j # k /\ a[g.j] # RAW
         [] op \in {"CopyAssign", "MoveAssign", "Swap", "StdSwap"} -> a[k] # RAW /\ g.j \in Anys /\ a[g.j] # RAW
         [] op \in {"AssignValue", "AReset", "AClear", "Destroy", "HasValue", "Empty", "Type", "SetVia"} -> a[k] # RAW
         [] op = "DestroyIf" -> TRUE
         [] op = "Cast" -> g.form \in CastForms /\ (a[k] # RAW \/ g.form \in NullForms)
         [] OTHER -> FALSE

----------------------------------------------------------------------------
(* Well-formedness after every call: the live payload objects are exactly those contained in
   the any objects, and no two any objects contain the same object. *)
WFwith(x, L) ==
    /\ Live(L) = {x[k] : k \in {i \in Anys : Has(x[i])}}
    /\ \A i, j \in Anys : (i # j /\ Has(x[i])) => x[i] # x[j]

(* x in lifetime L and y in lifetime M are "the same value": both empty, or objects of one type with equal values *)
ValEq(L, x, M, y) ==
    \/ x = EMPTY /\ y = EMPTY
    \/ /\ Has(x) /\ Has(y) /\ y \in Live(M)
       /\ M.typ[y] = L.typ[x] /\ M.val[y] = L.val[x]
(* untouched: still the same object with the same value *)
Same(L, x, M, y) ==
    /\ x = y
    /\ Has(x) => (y \in Live(M) /\ M.val[y] = L.val[x])
Holds(M, y, t, v) == Has(y) /\ y \in Live(M) /\ M.typ[y] = t /\ M.val[y] = v
(* a moved-from any: valid but unspecified - empty, or containing some live object *)
Valid(M, y) == y = EMPTY \/ (Has(y) /\ y \in Live(M))

(* The post-condition of one call.  a, L: before; a2, M: after; threw: an injected constructor fault fired. *)
Post(op, k, g, L, a2, M, res, threw) ==
    LET Fr(T) == \A i \in Anys \ T : Same(L, a[i], M, a2[i])
        None  == res = NoRes /\ ~threw
        Fuse  == res = FuseRes /\ threw /\ g.fuse > 0
        x     == a[k]
    IN CASE op = "DefaultConstruct" -> None /\ a2[k] = EMPTY /\ Fr({k})
         [] op = "Construct" ->
              /\ g.form \in ValueForms /\ g.t \in Types
              /\ \/ None /\ Holds(M, a2[k], g.t, g.v) /\ Fr({k})
                 \/ Fuse /\ a2[k] = RAW /\ Fr({k})                        \* no object, nothing else touched
         [] op = "CopyConstruct" ->
              \/ None /\ ValEq(L, a[g.j], M, a2[k]) /\ Fr({k})            \* equal to the source, source untouched
              \/ Fuse /\ a2[k] = RAW /\ Fr({k})
         [] op = "MoveConstruct" ->
              /\ None /\ ValEq(L, a[g.j], M, a2[k]) /\ Valid(M, a2[g.j]) /\ Fr({k, g.j})
         [] op = "CopyAssign" ->
              \/ None /\ ValEq(L, a[g.j], M, a2[k]) /\ Fr({k})
              \/ Fuse /\ ValEq(L, x, M, a2[k]) /\ Fr({k})                 \* strong guarantee: the target keeps its value
         [] op = "MoveAssign" ->
              /\ None
              /\ IF g.j = k THEN Valid(M, a2[k]) /\ Fr({k})               \* self-move: valid but unspecified
                 ELSE ValEq(L, a[g.j], M, a2[k]) /\ Valid(M, a2[g.j]) /\ Fr({k, g.j})
         [] op = "AssignValue" ->
              /\ g.form \in ValueForms /\ g.t \in Types
              /\ \/ None /\ Holds(M, a2[k], g.t, g.v) /\ Fr({k})
                 \/ Fuse /\ ValEq(L, x, M, a2[k]) /\ Fr({k})              \* strong guarantee
         [] op \in {"Swap", "StdSwap"} ->
              /\ None /\ ValEq(L, a[g.j], M, a2[k]) /\ ValEq(L, x, M, a2[g.j]) /\ Fr({k, g.j})
         [] op \in {"AReset", "AClear"} -> None /\ a2[k] = EMPTY /\ Fr({k})
         [] op = "Destroy" -> None /\ a2[k] = RAW /\ Fr({k})
         [] op = "DestroyIf" -> None /\ a2[k] = RAW /\ Fr({k})
         [] op = "HasValue" -> ~threw /\ res = [NoRes EXCEPT !.v = IF Has(x) THEN 1 ELSE 0] /\ Fr({})
         [] op = "Empty"    -> ~threw /\ res = [NoRes EXCEPT !.v = IF Has(x) THEN 0 ELSE 1] /\ Fr({})
         [] op = "Type"     -> ~threw /\ res = [NoRes EXCEPT !.ty = IF Has(x) THEN L.typ[x] ELSE "void"] /\ Fr({})
         [] op = "Cast" ->
              LET hit   == g.form \notin NullForms /\ Has(x) /\ L.typ[x] = g.t      \* exactly the stored decayed type
                  Found == [NoRes EXCEPT !.id = x, !.v = L.val[x]]                   \* ... and the stored object itself
              IN \/ /\ g.form \in PtrForms \cup NullForms
                    /\ ~threw /\ Fr({}) /\ res = IF hit THEN Found ELSE NullRes
                 \/ /\ g.form \in RefForms
                    /\ ~threw /\ Fr({}) /\ res = IF hit THEN Found ELSE BadCast
                 \/ /\ g.form \in ValForms /\ ~hit
                    /\ ~threw /\ Fr({}) /\ res = BadCast
                 \/ /\ g.form \in ValForms /\ hit
                    /\ \/ /\ ~threw                                                  \* a new object equal to the stored one
                          /\ res = [NoRes EXCEPT !.id = res.id, !.v = L.val[x]] /\ res.id > L.hi
                          /\ IF g.form = "v_r"                                       \* from an rvalue any: copy (N4562) or move (C++17)
                               THEN /\ Fr({k}) /\ a2[k] = x /\ x \in Live(M) /\ M.val[x] \in {L.val[x], MOVED}
                               ELSE Fr({})
                       \/ Fuse /\ Fr({})
         [] op = "SetVia" ->
              IF Has(x) /\ L.typ[x] = g.t
                THEN /\ ~threw /\ res = [NoRes EXCEPT !.id = x, !.v = g.v]
                     /\ a2[k] = x /\ x \in Live(M) /\ M.val[x] = g.v /\ Fr({k})
                ELSE ~threw /\ res = NullRes /\ Fr({})
         [] OTHER -> FALSE

(* Is the call (op, k, g) with element events evs, result res and contents a2 afterwards allowed now? *)
CallOK(op, k, g, evs, res, a2) ==
    LET F == Fold(lt, evs, 1) IN
    /\ Pre(op, k, g)
    /\ F.ok
    /\ WFwith(a2, F.L)
    /\ Post(op, k, g, lt, a2, F.L, res, Threw(evs))

Step(op, k, g, evs, res, a2) ==
    /\ CallOK(op, k, g, evs, res, a2)
    /\ a' = a2
    /\ lt' = Fold(lt, evs, 1).L
    /\ last' = [op |-> op, k |-> k, a |-> g, ev |-> evs, res |-> res]
    /\ pre' = [a |-> a, lt |-> lt]

InitWith(h) ==
    /\ a = [k \in Anys |-> RAW]
    /\ lt = NoObjects(h)
    /\ last = [op |-> "Init", k |-> 0, a |-> [fuse |-> 0], ev |-> <<>>, res |-> NoRes]
    /\ pre = [a |-> [k \in Anys |-> RAW], lt |-> NoObjects(h)]
Init == InitWith(0)

----------------------------------------------------------------------------
(* Payload ids carry no meaning beyond identity.  Canon renames the object contained in any k
   to k (and forgets the history of ids), so that finite-state exploration is possible: in a
   canonical state ids are <= NA and every id used by the next call is > NA.               *)
CanonA(x)     == [k \in Anys |-> IF Has(x[k]) THEN k ELSE x[k]]
CanonL(x, L)  == LET hs == {k \in Anys : Has(x[k])} IN
                 [typ |-> [k \in hs |-> L.typ[x[k]]], val |-> [k \in hs |-> L.val[x[k]]], hi |-> NA]
IsCanon       == /\ lt.hi = NA
                 /\ \A k \in Anys : Has(a[k]) => a[k] = k

----------------------------------------------------------------------------
(* Invariants and theorems of the specification itself (they guard the oracle). *)
TypeOK ==
    /\ \A k \in Anys : a[k] \in {RAW, EMPTY} \/ Has(a[k])
    /\ DOMAIN lt.typ = DOMAIN lt.val
    /\ \A i \in Live(lt) : lt.typ[i] \in Types /\ i <= lt.hi

(* every contained object is alive, nothing else is: no leak, no dangling any *)
NoLeakNoDangling == Live(lt) = {a[k] : k \in {i \in Anys : Has(a[i])}}
(* copies are independent objects *)
Independent == \A i, j \in Anys : (i # j /\ Has(a[i])) => a[i] # a[j]

(* value of any k seen from outside: what has_value(), type() and a successful any_cast report *)
View(x, L, k) == IF x[k] = RAW THEN <<"raw">> ELSE IF x[k] = EMPTY THEN <<"empty">> ELSE <<L.typ[x[k]], L.val[x[k]]>>

ObserversPure     == [][last'.op \in ObserverOps \cup {"Cast"} /\ ~(last'.op = "Cast" /\ last'.a.form = "v_r")
                          => \A k \in Anys : View(a', lt', k) = View(a, lt, k)]_vars
NoexceptNeverThrow == [][last'.op \in NoexceptOps => last'.res.exc = "none"]_vars
(* a call that threw changed no any object's value *)
ThrowChangesNothing == [][last'.res.exc # "none" => \A k \in Anys : View(a', lt', k) = View(a, lt, k)]_vars
(* a call touches only the objects it names *)
OthersUntouched == [][\A k \in Anys : (k # last'.k /\ ("j" \notin DOMAIN last'.a \/ k # last'.a.j))
                                         => View(a', lt', k) = View(a, lt, k)]_vars
(* after a successful copy the target shows the source's value and the source still shows it *)
CopyCopies == [][(last'.op \in {"CopyConstruct", "CopyAssign"} /\ last'.res.exc = "none")
                    => /\ View(a', lt', last'.k) = View(a, lt, last'.a.j)
                       /\ View(a', lt', last'.a.j) = View(a, lt, last'.a.j)]_vars
SwapSwaps == [][last'.op \in {"Swap", "StdSwap"}
                    => /\ View(a', lt', last'.k) = View(a, lt, last'.a.j)
                       /\ View(a', lt', last'.a.j) = View(a, lt, last'.k)]_vars
=============================================================================

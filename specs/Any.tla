-------------------------------- MODULE Any --------------------------------
(***************************************************************************)
(* L1 property specification for C06: xtl::any "keeps, copies and returns  *)
(* exactly what was stored, with exact-type casts".                        *)
(*                                                                         *)
(* Written from the property statement and the description of std::any in  *)
(* the C++ standard ([any.class], [any.nonmembers]; N4562 6.3/6.4), not    *)
(* from xtl's code.  Where the standard leaves the outcome open (state of  *)
(* a moved-from any, whether a payload object is relocated or its pointer  *)
(* handed over, how many temporaries a call makes, whether any_cast on an  *)
(* rvalue copies or moves) every conforming answer is accepted.            *)
(*                                                                         *)
(* State.  a[k] for k \in Anys is RAW (storage holds no any object),       *)
(* EMPTY, UNT (the any contains an object of a type without element events,*)
(* described by u[k]) or the id (>= 1) of the instrumented payload object  *)
(* the any contains.  lt is the lifetime record of instrumented payload    *)
(* objects (AnyLifetime): type and value of every LIVE id, and the largest *)
(* id ever used.  u[k] = [t, v, loc]: type, value and location (an opaque  *)
(* number for the address) of an uninstrumented payload object ("untracked"*)
(* types: int, std::string, const char*, function pointer, shared_ptr<int>,*)
(* an over-aligned struct, a struct containing another any).  For them the *)
(* lifetime part of the property is visible only through values, locations *)
(* and - for the types that own a shared_ptr control block - through the   *)
(* owner count spc the client can read with use_count().                   *)
(*                                                                         *)
(* A step is one public call.  The call is described by                    *)
(*   op, k, g   - operation, the object it is applied to, argument record  *)
(*   evs        - the element events (payload constructors, destructors,   *)
(*                injected throws ...) that happened during the call       *)
(*   res        - what the call returned / threw                           *)
(*   a2, u2, spc- what the any objects contain afterwards, and the owner   *)
(*                counts of the control blocks                             *)
(* and CallOK says whether such a call is allowed in the current state:    *)
(*   1. the events respect object lifetimes (Fold): nothing is constructed *)
(*      from, assigned from or destroyed as an object that is not alive;   *)
(*   2. afterwards the live payload objects are exactly the ones contained *)
(*      in the any objects, each in one any only (WF): nothing leaked,     *)
(*      nothing destroyed that is still contained, copies are independent; *)
(*   3. the operation's own post-condition holds (Post): value semantics,  *)
(*      strong guarantee on a throwing copy, cast results.                 *)
(* The spec is used as an oracle by AnyTrace (recorded executions of the   *)
(* real code), explored by TLC through the liberal generator AnyMC, and is *)
(* the refinement target of the code-shaped model AnyImpl.                 *)
(***************************************************************************)
EXTENDS AnyLifetime, TLC

CONSTANTS Anys,     \* the any objects: 1..NA
          Types     \* payload types that can be stored

VARIABLES a,        \* a[k] \in {RAW, EMPTY, UNT} \cup ids
          u,        \* u[k]: the untracked object contained in any k (NoU if none)
          lt,       \* lifetime record of instrumented payload objects
          env,      \* build configuration the property is parametrised by: [noexc |-> XTL_NO_EXCEPTIONS, mov |-> ANY_IMPL_ANY_CAST_MOVEABLE]
          last,     \* ghost: the call just performed [op, k, a, ev, res]
          pre       \* ghost: [a, u, lt] before that call

vars    == <<a, u, lt, env, last, pre>>
absvars == <<a, u, lt>>

RAW   == -2
EMPTY == -1
UNT   == 0
Has(x) == x >= 1
NA == Cardinality(Anys)

UntrackedTypes == {"Int", "Str", "CStr", "Fn", "Sp", "Ov", "Nest",   \* no element events
                   "Ov32", "Ov64",      \* over-aligned beyond max_align_t (32 / 64 bytes)
                   "P16", "P17",        \* byte-aligned, exactly two words / two words + 1 byte
                   "Var", "Fs", "Opt"}  \* neighbouring components as payloads: xtl::variant<int,string>, xfixed_string, xoptional<int>
CountedTypes   == {"Sp", "Nest"}                                     \* own one shared_ptr control block (named by the value)
DecayTypes     == {"CStr", "Fn"}                                     \* can also be stored from an array / a function (decay)
NeverStored    == {"CharP", "AnyT", "Arr"}                           \* cast targets that are never the decayed type of a stored value
NothrowCopy    == {"NC"} \cup UntrackedTypes                         \* copy constructor cannot be made to throw
NoU == [t |-> "", v |-> 0, loc |-> 0]

NoRes   == [exc |-> "none", null |-> FALSE, id |-> 0, v |-> 0, loc |-> 0, ty |-> ""]
FuseRes == [NoRes EXCEPT !.exc = "fuse"]
BadCast == [NoRes EXCEPT !.exc = "bad_any_cast"]
TermRes == [NoRes EXCEPT !.exc = "terminate"]
NullRes == [NoRes EXCEPT !.null = TRUE]
(* Allocation failure (round 3).  g.afuse = n > 0: the n-th request for storage made while the library executes the call
   fails (the replaced global operator new throws std::bad_alloc).  Whether and how often a call allocates is up to the
   implementation, so an armed afuse may or may not fire; when it fires the call ends with bad_alloc, no element "throw"
   event, and the same guarantees as for a throwing payload constructor: no object from a failed constructor, the
   target of a failed assignment keeps its value. *)
AllocRes == [NoRes EXCEPT !.exc = "bad_alloc"]
AF(g) == IF "afuse" \in DOMAIN g THEN g.afuse ELSE 0
AllocatingOps == {"Construct", "CopyConstruct", "CopyAssign", "AssignValue"}    \* the only calls that may need storage for a new payload
(* a failing reference/value cast: throws bad_any_cast; std::terminate when exceptions are compiled out *)
CastFails == IF env.noexc THEN TermRes ELSE BadCast

----------------------------------------------------------------------------
(* Operations (every public member and non-member of xany.hpp):
     DefaultConstruct   any()
     Construct          any(ValueType&&)           g.t, g.v: type and value; g.form: how the value is passed
     CopyConstruct      any(const any&)            g.j: source (passed as a const lvalue; the other categories: ConstructFrom)
     MoveConstruct      any(any&&)
     ConstructFrom      any(e), e an any expression of category g.cat \in SrcCats (see below); g.j: the source object
     AssignFrom         operator=(e), likewise; g.j = k allowed
     CopyAssign         operator=(const any&)      g.j = k allowed
     MoveAssign         operator=(any&&)           g.j = k allowed
     AssignValue        operator=(ValueType&&)
     Swap, StdSwap      a.swap(b), std::swap(a,b)  g.j = k allowed
     AReset, AClear     reset(), clear()
     Destroy, DestroyIf ~any()  (DestroyIf: only if constructed; used by scripts after a constructor that may have thrown)
     HasValue, Empty, Type   observers
     Cast               any_cast<...>              g.t: decayed target type, g.form: see below
     SetVia             *any_cast<T>(&a) = v       the client changes the contained object (independence of copies)
   g.fuse = n > 0: the n-th throwing-capable payload constructor of the call throws. *)

ValueForms == {"lv", "clv", "rv", "crv"}      \* T&, const T&, T&&, const T&&
(* Round 4: VALUE CATEGORY x CONSTNESS OF AN any SOURCE.  The client writes  any b(e)  /  b = e  where e is an expression of
   type any; which constructor / assignment operator runs is decided by overload resolution and is part of the property:
   [any.cons]/[any.assign] - the converting constructor any(ValueType&&) and operator=(ValueType&&) do not participate when
   decay_t<ValueType> is any, so
       e : any&         (cat "lv")   copies          e : const any&   (cat "clv")  copies
       e : any&&        (cat "rv")   moves           e : const any&&  (cat "crv")  COPIES (a const rvalue cannot be moved from)
   ConstructFrom / AssignFrom are these two calls with the category as an argument; EffOp names the operation that must run.
   A library that stores the source any itself as a payload, or recurses, for one of the categories fails Post (or never
   returns: the trace then ends with a Crash event, which no action matches). *)
SrcCats == {"lv", "clv", "rv", "crv"}
SrcOps  == {"ConstructFrom", "AssignFrom"}
EffOp(op, g) == IF op = "ConstructFrom" THEN (IF g.cat = "rv" THEN "MoveConstruct" ELSE "CopyConstruct")
                ELSE IF op = "AssignFrom" THEN (IF g.cat = "rv" THEN "MoveAssign" ELSE "CopyAssign")
                ELSE op
FormsOf(t) == ValueForms \cup (IF t \in DecayTypes THEN {"decay"} ELSE {})    \* "decay": an array / a function itself
PtrForms  == {"p_m", "p_mc", "p_c", "p_cc"}    \* any_cast<U>(any*), <const U>(any*), <U>(const any*), <const U>(const any*)
NullForms == {"p_n", "p_nc"}                   \* any_cast<U>((any*)nullptr), ((const any*)nullptr)
RvalForms == {"v_r", "v_rc"}                   \* any_cast<U>(any&&), <const U>(any&&)
ValForms  == {"v_m", "v_mc", "v_c", "v_cc"} \cup RvalForms   \* any_cast<U>(any&), <const U>(any&), <U>(const any&), <const U>(const any&)
RefForms  == {"r_m", "r_mc", "r_c", "r_r",     \* any_cast<U&>(any&), <const U&>(any&), <const U&>(const any&), <const U&>(any&&)
              "lr_r", "x_r", "cx_r"}           \* any_cast<U&>(any&&), <U&&>(any&&), <const U&&>(any&&)  (where the library accepts them)
CastForms == PtrForms \cup NullForms \cup ValForms \cup RefForms
NoexceptOps == {"DefaultConstruct", "MoveConstruct", "MoveAssign", "Swap", "StdSwap", "AReset", "AClear", "Destroy",
                "DestroyIf", "HasValue", "Empty", "Type", "SetVia"}
ObserverOps == {"HasValue", "Empty", "Type"}

(* C++ preconditions of the call (and the protocol of explicit construction/destruction) *)
Pre0(op, k, g) ==
    /\ k \in Anys
    /\ (AF(g) > 0 => op \in AllocatingOps)
    /\ CASE op \in {"DefaultConstruct", "Construct"} -> a[k] = RAW
         [] op \in {"CopyConstruct", "MoveConstruct"} -> a[k] = RAW /\ g.j \in Anys /\ g.j # k /\ a[g.j] # RAW
         [] op \in {"CopyAssign", "MoveAssign", "Swap", "StdSwap"} -> a[k] # RAW /\ g.j \in Anys /\ a[g.j] # RAW
         [] op \in {"AssignValue", "AReset", "AClear", "Destroy", "HasValue", "Empty", "Type", "SetVia"} -> a[k] # RAW
         [] op = "DestroyIf" -> TRUE
         [] op = "Cast" -> /\ g.form \in CastForms /\ (a[k] # RAW \/ g.form \in NullForms)
                           /\ (g.t = "Arr" => g.form \in PtrForms \cup NullForms)     \* a function cannot return an array
         [] OTHER -> FALSE
Pre(op, k, g) == /\ (op \in SrcOps => "cat" \in DOMAIN g /\ g.cat \in SrcCats)
                 /\ Pre0(EffOp(op, g), k, g)

----------------------------------------------------------------------------
(* A "world" is a record [a, u, lt] (plus spc for the world after a call). *)
World(x, U, L) == [a |-> x, u |-> U, lt |-> L]

(* any k of world W contains an object that is alive *)
Contains(W, k) == W.a[k] = UNT \/ (Has(W.a[k]) /\ W.a[k] \in Live(W.lt))
(* its type and value (only meaningful under Contains) *)
Ty(W, k) == IF W.a[k] = UNT THEN W.u[k].t ELSE W.lt.typ[W.a[k]]
Va(W, k) == IF W.a[k] = UNT THEN W.u[k].v ELSE W.lt.val[W.a[k]]

(* Well-formedness after every call: the live instrumented payload objects are exactly those contained in the any
   objects, no two any objects contain the same object, and every control block has exactly one owner per any
   that contains it (an owner too many: a payload that was never destroyed; one too few: destroyed twice). *)
WFwith(x, L) ==
    /\ Live(L) = {x[k] : k \in {i \in Anys : Has(x[i])}}
    /\ \A i, j \in Anys : (i # j /\ Has(x[i])) => x[i] # x[j]
Owners(x, U, v) == Cardinality({k \in Anys : x[k] = UNT /\ U[k].t \in CountedTypes /\ U[k].v = v})
WFU(x, U, spc) ==
    /\ \A k \in Anys : IF x[k] = UNT THEN U[k].t \in UntrackedTypes ELSE U[k] = NoU
    /\ \A i, j \in Anys : (i # j /\ x[i] = UNT /\ x[j] = UNT) => U[i].loc # U[j].loc
    /\ \A v \in (DOMAIN spc) \cup {U[k].v : k \in {i \in Anys : x[i] = UNT /\ U[i].t \in CountedTypes /\ U[i].v # MOVED}} :
          Owners(x, U, v) = (IF v \in DOMAIN spc THEN spc[v] ELSE 0)

(* any i of world W and any j of world W2 hold "the same value": both empty, or objects of one type with equal values *)
ValEq(W, i, W2, j) ==
    \/ W.a[i] = EMPTY /\ W2.a[j] = EMPTY
    \/ /\ W.a[i] >= UNT /\ Contains(W2, j)
       /\ Ty(W2, j) = Ty(W, i) /\ Va(W2, j) = Va(W, i)
(* untouched: still the same object (same place) with the same value *)
Same(W, i, W2) ==
    /\ W2.a[i] = W.a[i]
    /\ Has(W.a[i]) => (W.a[i] \in Live(W2.lt) /\ W2.lt.val[W.a[i]] = W.lt.val[W.a[i]])
    /\ W.a[i] = UNT => W2.u[i] = W.u[i]
Holds(W2, k, t, v) == Contains(W2, k) /\ Ty(W2, k) = t /\ Va(W2, k) = v
(* a moved-from any: valid but unspecified - empty, or containing some live object *)
Valid(W2, k) == W2.a[k] = EMPTY \/ Contains(W2, k)

(* The post-condition of one call.  W: before; W2: after; threw: an injected constructor fault fired. *)
Post0(op, k, g, W, W2, res, threw) ==
    LET Fr(T) == \A i \in Anys \ T : Same(W, i, W2)
        None  == res = NoRes /\ ~threw
        Fuse  == \/ res = FuseRes /\ threw /\ g.fuse > 0
                 \/ res = AllocRes /\ ~threw /\ AF(g) > 0 /\ op \in AllocatingOps     \* storage could not be obtained
        x     == W.a[k]
    IN CASE op = "DefaultConstruct" -> None /\ W2.a[k] = EMPTY /\ Fr({k})
         [] op = "Construct" ->
              /\ g.t \in Types /\ g.form \in FormsOf(g.t)
              /\ \/ None /\ Holds(W2, k, g.t, g.v) /\ Fr({k})
                 \/ Fuse /\ W2.a[k] = RAW /\ Fr({k})                      \* no object, nothing else touched
         [] op = "CopyConstruct" ->
              \/ None /\ ValEq(W, g.j, W2, k) /\ Fr({k})                  \* equal to the source, source untouched
              \/ Fuse /\ W2.a[k] = RAW /\ Fr({k})
         [] op = "MoveConstruct" ->
              /\ None /\ ValEq(W, g.j, W2, k) /\ Valid(W2, g.j) /\ Fr({k, g.j})
         [] op = "CopyAssign" ->
              \/ None /\ ValEq(W, g.j, W2, k) /\ Fr({k})
              \/ Fuse /\ ValEq(W, k, W2, k) /\ Fr({k})                    \* strong guarantee: the target keeps its value
         [] op = "MoveAssign" ->
              /\ None
              /\ IF g.j = k THEN Valid(W2, k) /\ Fr({k})                  \* self-move: valid but unspecified
                 ELSE ValEq(W, g.j, W2, k) /\ Valid(W2, g.j) /\ Fr({k, g.j})
         [] op = "AssignValue" ->
              /\ g.t \in Types /\ g.form \in FormsOf(g.t)
              /\ \/ None /\ Holds(W2, k, g.t, g.v) /\ Fr({k})
                 \/ Fuse /\ ValEq(W, k, W2, k) /\ Fr({k})                 \* strong guarantee
         [] op \in {"Swap", "StdSwap"} ->
              /\ None /\ ValEq(W, g.j, W2, k) /\ ValEq(W, k, W2, g.j) /\ Fr({k, g.j})
         [] op \in {"AReset", "AClear"} -> None /\ W2.a[k] = EMPTY /\ Fr({k})
         [] op = "Destroy" -> None /\ W2.a[k] = RAW /\ Fr({k})
         [] op = "DestroyIf" -> None /\ W2.a[k] = RAW /\ Fr({k})
         [] op = "HasValue" -> ~threw /\ res = [NoRes EXCEPT !.v = IF x >= UNT THEN 1 ELSE 0] /\ Fr({})
         [] op = "Empty"    -> ~threw /\ res = [NoRes EXCEPT !.v = IF x >= UNT THEN 0 ELSE 1] /\ Fr({})
         [] op = "Type"     -> ~threw /\ res = [NoRes EXCEPT !.ty = IF x >= UNT THEN Ty(W, k) ELSE "void"] /\ Fr({})
         [] op = "Cast" ->
              LET hit   == g.form \notin NullForms /\ x >= UNT /\ Ty(W, k) = g.t    \* exactly the stored decayed type
                  Found == IF x = UNT THEN [NoRes EXCEPT !.loc = W.u[k].loc, !.v = W.u[k].v]   \* ... and the stored object itself
                                      ELSE [NoRes EXCEPT !.id = x, !.v = W.lt.val[x]]
              IN \/ /\ g.form \in PtrForms \cup NullForms
                    /\ ~threw /\ Fr({}) /\ res = IF hit THEN Found ELSE NullRes
                 \/ /\ g.form \in RefForms
                    /\ ~threw /\ Fr({}) /\ res = IF hit THEN Found ELSE CastFails
                 \/ /\ g.form \in ValForms /\ ~hit
                    /\ ~threw /\ Fr({}) /\ res = CastFails
                 \/ /\ g.form \in ValForms /\ hit /\ Has(x)
                    /\ \/ /\ ~threw                                                  \* a new object equal to the stored one
                          /\ res = [NoRes EXCEPT !.id = res.id, !.v = W.lt.val[x]] /\ res.id > W.lt.hi
                          /\ IF g.form \in RvalForms                                 \* from an rvalue any: copy (N4562) or move (C++17)
                               THEN /\ Fr({k}) /\ W2.a[k] = x /\ x \in Live(W2.lt) /\ W2.lt.val[x] \in {W.lt.val[x], MOVED}
                               ELSE Fr({})
                       \/ Fuse /\ Fr({})
                 \/ /\ g.form \in ValForms /\ hit /\ x = UNT
                    /\ ~threw /\ res = [NoRes EXCEPT !.v = W.u[k].v]                 \* an equal value
                    /\ IF g.form \in RvalForms
                         THEN /\ Fr({k}) /\ W2.a[k] = UNT
                              /\ \E v \in {W.u[k].v, MOVED} : W2.u[k] = [W.u[k] EXCEPT !.v = v]
                         ELSE Fr({})
         [] op = "SetVia" ->
              IF x >= UNT /\ Ty(W, k) = g.t
                THEN IF x = UNT
                       THEN /\ ~threw /\ res = [NoRes EXCEPT !.loc = W.u[k].loc, !.v = g.v]
                            /\ W2.a[k] = UNT /\ W2.u[k] = [W.u[k] EXCEPT !.v = g.v] /\ Fr({k})
                       ELSE /\ ~threw /\ res = [NoRes EXCEPT !.id = x, !.v = g.v]
                            /\ W2.a[k] = x /\ x \in Live(W2.lt) /\ W2.lt.val[x] = g.v /\ Fr({k})
                ELSE ~threw /\ res = NullRes /\ Fr({})
         [] OTHER -> FALSE
(* a call that takes an any expression behaves as the operation overload resolution must select for its category *)
Post(op, k, g, W, W2, res, threw) == Post0(EffOp(op, g), k, g, W, W2, res, threw)

(* Storage (round 3): heap = number of blocks obtained from operator new while the library executed allocating calls and
   not yet given back.  When no any object contains anything, none may be outstanding (a block that outlives its object is
   a leak even if the object's destructor ran); the count is never negative. *)
HeapOK(x, heap) == /\ heap >= 0
                   /\ (\A k \in Anys : x[k] \in {RAW, EMPTY}) => heap = 0

(* Documented behaviour of the value-returning any_cast on tracked payloads (advisory, "strict" trace validation): the
   result is made by exactly ONE constructor call from the stored object - a move if the build defines
   ANY_IMPL_ANY_CAST_MOVEABLE and the operand is an rvalue any and the target is not const-qualified (LWG 2509), a copy
   otherwise (N4562) - so a stored object is moved from at most once per cast and never by an lvalue cast. *)
CtorEvents(evs) == SelectSeq(evs, LAMBDA e : e.e = "ctor")
CastDocOK(op, k, g, evs, res) ==
    (op = "Cast" /\ g.form \in ValForms /\ res.exc = "none" /\ Has(a[k]) /\ res.id > 0) =>
        LET cs == CtorEvents(evs) IN
        /\ Len(cs) = 1
        /\ cs[1].src = a[k] /\ cs[1].id = res.id
        /\ cs[1].kind = (IF env.mov /\ g.form = "v_r" THEN "move" ELSE "copy")

(* Is the call (op, k, g) with element events evs, result res and contents a2, u2 (owner counts spc) afterwards allowed now? *)
CallOK(op, k, g, evs, res, a2, u2, spc) ==
    LET F == Fold(lt, evs, 1) IN
    /\ Pre(op, k, g)
    /\ F.ok
    /\ WFwith(a2, F.L)
    /\ WFU(a2, u2, spc)
    /\ Post(op, k, g, World(a, u, lt), World(a2, u2, F.L), res, Threw(evs))

Step(op, k, g, evs, res, a2, u2, spc) ==
    /\ CallOK(op, k, g, evs, res, a2, u2, spc)
    /\ a' = a2
    /\ u' = u2
    /\ lt' = Fold(lt, evs, 1).L
    /\ env' = env
    /\ last' = [op |-> op, k |-> k, a |-> g, ev |-> evs, res |-> res]
    /\ pre' = [a |-> a, u |-> u, lt |-> lt]

InitWith(h) ==
    /\ a = [k \in Anys |-> RAW]
    /\ u = [k \in Anys |-> NoU]
    /\ lt = NoObjects(h)
    /\ env = [noexc |-> FALSE, mov |-> FALSE]
    /\ last = [op |-> "Init", k |-> 0, a |-> [fuse |-> 0], ev |-> <<>>, res |-> NoRes]
    /\ pre = [a |-> [k \in Anys |-> RAW], u |-> [k \in Anys |-> NoU], lt |-> NoObjects(h)]
Init == InitWith(0)

----------------------------------------------------------------------------
(* Payload ids and locations carry no meaning beyond identity.  Canon renames the object contained in any k
   to k (and forgets the history of ids), so that finite-state exploration is possible: in a
   canonical state ids are <= NA and every id used by the next call is > NA.               *)
CanonA(x)     == [k \in Anys |-> IF Has(x[k]) THEN k ELSE x[k]]
CanonU(x, U)  == [k \in Anys |-> IF x[k] = UNT THEN [U[k] EXCEPT !.loc = k] ELSE NoU]
CanonL(x, L)  == LET hs == {k \in Anys : Has(x[k])} IN
                 [typ |-> [k \in hs |-> L.typ[x[k]]], val |-> [k \in hs |-> L.val[x[k]]], hi |-> NA]
IsCanon       == /\ lt.hi = NA
                 /\ \A k \in Anys : Has(a[k]) => a[k] = k
                 /\ \A k \in Anys : a[k] = UNT => u[k].loc = k
(* the owner counts implied by a state *)
SpcOf(x, U)   == LET vs == {U[k].v : k \in {i \in Anys : x[i] = UNT /\ U[i].t \in CountedTypes /\ U[i].v # MOVED}}
                 IN [v \in vs |-> Owners(x, U, v)]

----------------------------------------------------------------------------
(* Invariants and theorems of the specification itself (they guard the oracle). *)
TypeOK ==
    /\ \A k \in Anys : a[k] \in {RAW, EMPTY, UNT} \/ Has(a[k])
    /\ DOMAIN lt.typ = DOMAIN lt.val
    /\ \A i \in Live(lt) : lt.typ[i] \in Types \ UntrackedTypes /\ i <= lt.hi
    /\ \A k \in Anys : IF a[k] = UNT THEN u[k].t \in Types \cap UntrackedTypes ELSE u[k] = NoU

(* every contained object is alive, nothing else is: no leak, no dangling any *)
NoLeakNoDangling == Live(lt) = {a[k] : k \in {i \in Anys : Has(a[i])}}
(* copies are independent objects *)
Independent == /\ \A i, j \in Anys : (i # j /\ Has(a[i])) => a[i] # a[j]
               /\ \A i, j \in Anys : (i # j /\ a[i] = UNT /\ a[j] = UNT) => u[i].loc # u[j].loc

(* value of any k seen from outside: what has_value(), type() and a successful any_cast report *)
View(x, U, L, k) == IF x[k] = RAW THEN <<"raw">> ELSE IF x[k] = EMPTY THEN <<"empty">>
                    ELSE IF x[k] = UNT THEN <<U[k].t, U[k].v>> ELSE <<L.typ[x[k]], L.val[x[k]]>>
V0(k) == View(a, u, lt, k)
V1(k) == View(a', u', lt', k)

ObserversPure     == [][last'.op \in ObserverOps \cup {"Cast"} /\ ~(last'.op = "Cast" /\ last'.a.form \in RvalForms)
                          => \A k \in Anys : V1(k) = V0(k)]_vars
NoexceptNeverThrow == [][EffOp(last'.op, last'.a) \in NoexceptOps => last'.res.exc = "none"]_vars
(* a call that threw changed no any object's value *)
ThrowChangesNothing == [][last'.res.exc # "none" => \A k \in Anys : V1(k) = V0(k)]_vars
(* a call touches only the objects it names *)
OthersUntouched == [][\A k \in Anys : (k # last'.k /\ ("j" \notin DOMAIN last'.a \/ k # last'.a.j))
                                         => V1(k) = V0(k)]_vars
(* after a successful copy the target shows the source's value and the source still shows it *)
CopyCopies == [][(EffOp(last'.op, last'.a) \in {"CopyConstruct", "CopyAssign"} /\ last'.res.exc = "none")
                    => /\ V1(last'.k) = V0(last'.a.j)
                       /\ V1(last'.a.j) = V0(last'.a.j)]_vars
SwapSwaps == [][last'.op \in {"Swap", "StdSwap"}
                    => /\ V1(last'.k) = V0(last'.a.j)
                       /\ V1(last'.a.j) = V0(last'.k)]_vars
(* two routes to one observable: has_value()/empty()/type() agree with what any_cast finds *)
ObserversAgree == [][/\ last'.op = "HasValue" => (last'.res.v = 1) = (V0(last'.k)[1] \notin {"raw", "empty"})
                     /\ last'.op = "Empty"    => (last'.res.v = 1) = (V0(last'.k)[1] = "empty")
                     /\ last'.op = "Type"     => last'.res.ty = (IF V0(last'.k)[1] = "empty" THEN "void" ELSE V0(last'.k)[1])]_vars
(* round 4: the category of an any source decides copy vs move and nothing else - in particular a CONST RVALUE source is
   copied: afterwards source and target both show the source's value *)
NonRvalueSourceCopies == [][(last'.op \in SrcOps /\ last'.a.cat # "rv" /\ last'.res.exc = "none")
                           => /\ V1(last'.k) = V0(last'.a.j)
                              /\ V1(last'.a.j) = V0(last'.a.j)]_vars
(* ... and an rvalue source gives its value to the target (the source is left valid but unspecified) *)
RvalueMoves == [][(last'.op \in SrcOps /\ last'.a.cat = "rv" /\ last'.a.j # last'.k) => V1(last'.k) = V0(last'.a.j)]_vars
=============================================================================

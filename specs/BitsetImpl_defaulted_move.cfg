SPECIFICATION Spec
CONSTANTS
  W = 2
  MaxBits = 3
  MaxShift = 4
  MoveKeepsSize = TRUE
  ObserveMoved = TRUE
  Targets <- Both
  SplitNext = FALSE
  OtherSeqs <- NoOther
CONSTRAINT SizeBound
VIEW absview
INVARIANTS RepInv

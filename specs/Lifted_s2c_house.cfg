SPECIFICATION Spec
CONSTANTS
  NReg = 2
  Vals <- ValsQuick
  MCKinds <- KindsAll
  Classes <- HouseClasses
  MCFuns <- EveryFun
  Canonical = TRUE
  EmitOn = TRUE
ACTION_CONSTRAINT Emit

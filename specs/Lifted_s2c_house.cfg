SPECIFICATION Spec
CONSTANTS
  NReg = 2
  Vals <- ValsQuick
  MCKinds <- KindsAll
  Classes <- HouseClasses
  MCFuns <- EveryFun
  MCHows <- EveryHow
  Canonical = TRUE
  AliasInit = FALSE
  EmitOn = TRUE
ACTION_CONSTRAINT Emit

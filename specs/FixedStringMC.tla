---------------------------- MODULE FixedStringMC ----------------------------
(* Model-checking instances of FixedString: argument domains that cannot be written in a .cfg *)
EXTENDS FixedString
Chars012   == {0, 1, 2}
Chars12    == {1, 2}
(* literal sources: empty, one character, two, embedded NUL, trailing NUL (a needle that would match the
   terminator), capacity + 1 (for N = 3) *)
LitsNul    == {<<>>, <<1>>, <<1, 2>>, <<1, 0>>, <<2, 0, 1>>, <<1, 2, 1, 2>>}
LitsNoNul  == {<<>>, <<1>>, <<1, 2>>, <<2, 1, 1>>, <<1, 2, 1, 2>>}
Pos3       == {0, 1, 2, 3, 4, 5, NPOS}          \* 0 .. N+2 and npos for N = 3
Pos2       == {0, 1, 2, 3, 4, NPOS}
Pos2q      == {0, 1, 2, 3, NPOS}
Pos4       == {0, 1, 2, 3, 4, 5, 6, NPOS}
Lits4      == {<<>>, <<1>>, <<1, 2>>, <<1, 0>>, <<2, 0, 1>>, <<1, 2, 1, 2, 1>>}          \* for N = 4
Other4     == {<<>>, <<2>>, <<2, 1>>, <<2, 0>>, <<1, 0, 2>>, <<2, 2, 1, 1>>}
Other4NoNul == {<<>>, <<2>>, <<2, 1>>, <<2, 2, 1, 1>>}
SubFew4    == {<<0, DFLT>>, <<0, 1>>, <<1, 1>>, <<1, NPOS>>, <<2, 0>>, <<3, 2>>, <<4, 1>>, <<5, 0>>, <<6, 1>>, <<NPOS, 1>>}
(* simulation walks at N = 8 *)
Pos8       == {0, 1, 2, 4, 7, 8, 9, 10, NPOS}
Lits8      == {<<>>, <<1>>, <<1, 2>>, <<2, 0, 1>>, <<1, 2, 1, 2, 1>>, <<2, 2, 1, 1, 2, 2, 1, 1>>, <<1, 2, 1, 2, 1, 2, 1, 2, 1>>}
SubFew8    == {<<0, DFLT>>, <<0, 1>>, <<1, 3>>, <<1, NPOS>>, <<2, 0>>, <<5, 2>>, <<8, 1>>, <<9, 0>>, <<10, 1>>, <<NPOS, 1>>}
(* round 3: simulation walks at N = 5 and N = 7 *)
Pos5       == {0, 1, 2, 3, 4, 5, 6, 7, NPOS}
Lits5      == {<<>>, <<1>>, <<1, 2>>, <<2, 0, 1>>, <<1, 2, 1, 2, 1>>, <<2, 2, 1, 1, 2, 2>>}
SubFew5    == {<<0, DFLT>>, <<0, 1>>, <<1, 2>>, <<1, NPOS>>, <<2, 0>>, <<4, 2>>, <<5, 1>>, <<6, 0>>, <<7, 1>>, <<NPOS, 1>>}
Pos7       == {0, 1, 2, 3, 6, 7, 8, 9, NPOS}
Lits7      == {<<>>, <<1>>, <<1, 2>>, <<2, 0, 1>>, <<1, 2, 1, 2, 1>>, <<2, 2, 1, 1, 2, 2, 1>>, <<1, 2, 1, 2, 1, 2, 1, 2>>}
SubFew7    == {<<0, DFLT>>, <<0, 1>>, <<1, 3>>, <<1, NPOS>>, <<2, 0>>, <<5, 2>>, <<7, 1>>, <<8, 0>>, <<9, 1>>, <<NPOS, 1>>}
SubAll3    == Pos3 \X (Pos3 \cup {DFLT})
SubFew     == {<<0, DFLT>>, <<0, 1>>, <<1, 1>>, <<1, NPOS>>, <<2, 0>>, <<3, 2>>, <<4, 1>>, <<5, 0>>, <<NPOS, 1>>}
LitsFew    == {<<>>, <<1>>, <<2, 0, 1>>}
SubFewer   == {<<0, DFLT>>, <<1, 1>>, <<3, 0>>, <<NPOS, 1>>}
NoOther    == {}
OtherNul   == {<<>>, <<2>>, <<2, 1>>, <<2, 0>>, <<1, 0, 2>>, <<2, 2, 1>>}
OtherNoNul == {<<>>, <<2>>, <<2, 1>>, <<2, 2, 1>>}
OtherOne   == {<<2, 1>>}
AllClasses == {"ctor", "pair", "assign", "access", "size", "sub", "insert", "erase", "append", "compare", "replace",
               "find", "rel", "concat", "io", "alias", "iter"}
AllClassesOv == AllClasses \cup {"overlay"}
Unary      == AllClasses \ {"pair"}
UnaryOv    == Unary \cup {"overlay"}
PairOnly   == {"pair", "nav"}
ExtOnly    == {"ext", "nav"}
NoEmit     == {}
AllOps     == {"CtorDefault", "CtorFill", "CtorSub", "CtorSeq", "Overlay", "AssignFill", "AssignSub", "AssignSeq", "At", "Index",
               "Front", "Back", "Write", "Iterate", "Clear", "PushBack", "PopBack", "Substr", "Copy", "Resize1", "Resize2",
               "Swap", "InsertFill", "InsertSeq", "InsertSub", "InsertIt", "InsertItSeq", "Erase", "EraseIt", "EraseRange",
               "AppendFill", "AppendSeq", "AppendSub", "Compare", "Compare1", "Compare2", "Replace", "ReplaceSub",
               "ReplaceFill", "ReplaceIt", "ReplaceItFill", "Find", "Rel", "Concat", "ToStd", "StreamOut", "StreamIn", "GetLine"}
=============================================================================

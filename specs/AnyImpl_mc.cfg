SPECIFICATION Spec
CONSTANTS
  Anys = {1, 2, 3}
  Types = {"Small", "Big", "STM"}
  Vals = {1, 2}
  Fuses = {0, 1}
  AFuses = {0, 1}
  InPlaceTypes = {"Small"}
  NothrowMove = {"Small", "Big"}
  SelfSwapGuard = TRUE
  EmitMode = "quick"
ACTION_CONSTRAINT Emit
VIEW absview
INVARIANTS RepInv
PROPERTIES Refines MovedFromIsEmpty

SPECIFICATION Spec
CONSTANTS
  NT = 3
  MaxLen = 4
CHECK_DEADLOCK FALSE

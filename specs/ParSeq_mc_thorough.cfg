SPECIFICATION Spec
CONSTANTS
  Cfgs <- CfgsMC
  MaxLen = 4
  Vals = {0, 1}
  Targets = {1}
  OtherInit <- RepOther
  ILArgs <- AllIL
  Classes <- AllClasses
  EmitOps <- NoEmit
CONSTRAINT SizeBound
VIEW absvars
INVARIANTS TypeOK ArraySizeFixed Lockstep
PROPERTIES ObserversPure FailedChangesNothing ResizeLaw WriteLaw DefaultLaw MoveLaw SwapLaw AlgoLaw XAssignLaw XCopyLaw CtorFromLaw

-------------------------- MODULE FixedStringImplMC --------------------------
(* Model-checking instances of FixedStringImpl *)
EXTENDS FixedStringImpl
Chars012  == {0, 1, 2}
LitsL2    == {<<>>, <<1>>, <<2, 0, 1>>, <<1, 2, 1, 2>>}
Pos2      == {0, 1, 2, 3, 4, NPOS}
Pos2q     == {0, 1, 2, 3, NPOS}
Pos3      == {0, 1, 2, 3, 4, 5, NPOS}
SubL2     == {<<0, DFLT>>, <<1, 1>>, <<3, 0>>, <<NPOS, 1>>}
LitsQ     == {<<>>, <<1>>, <<2, 0, 1>>}
LitsQ3    == {<<>>, <<1>>, <<2, 0, 1>>, <<1, 2, 1, 2>>}
OtherQ3   == {<<>>, <<2, 1>>, <<1, 0, 2>>}
SubQ      == {<<0, DFLT>>, <<1, 1>>, <<NPOS, 1>>}
OtherQ    == {<<>>, <<2, 1>>, <<1, 0>>}
OtherL2   == {<<>>, <<2>>, <<2, 1>>, <<1, 0>>}
OtherL3   == {<<>>, <<2>>, <<2, 1>>, <<1, 0, 2>>, <<2, 2, 1>>}
(* quick tier, N = 3: the smallest capacity at which a tail of two characters is shifted by one, i.e. at which the direction
   of the overlapping copies matters; two non-NUL characters, few literals *)
Chars12   == {1, 2}
LitsN3q   == {<<>>, <<2>>, <<1, 2>>}
Pos3q     == {0, 1, 2, 3, NPOS}
SubN3q    == {<<0, DFLT>>, <<1, 1>>}
OtherN3q  == {<<2, 1>>}
=============================================================================

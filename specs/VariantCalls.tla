---------------------------- MODULE VariantCalls ----------------------------
(* Variable-free vocabulary shared by Variant (L1) and VariantImpl (L2): the alternatives, the two *)
(* variants, and the set of calls the model checker explores.                                       *)
EXTENDS Integers, Sequences

Alts == 0..3      \* set "mixed": 0 = int, 1 = NT (noexcept move), 2 = TM, 3 = TM2 (throwing move); see VariantLifetime
K == {1, 2}       \* the two variants

(* The calls explored by the model checker: every operation family x operands x alternative x     *)
(* value x argument kind, one syntactic form each (the forms - in_place_index / in_place_type /    *)
(* converting, member / free swap, get by index / by type and the four reference kinds - do not     *)
(* differ in meaning; checks/c05.py varies them when it replays the transitions on the real code). *)
(* UNORD: the payload value that is unordered with everything (a NaN of the payload classes with a PARTIAL order, see Variant!ElemRel). *)
(* A model-checking instance whose Vals contains it explores the relational operators (and everything else) on partially      *)
(* ordered payloads; the plain int alternative of the set (totally ordered) never gets it.                                     *)
UNORD == 7777
IntAlts(tracked) == IF 0 \in tracked THEN {3} ELSE {0}     \* sets mixed / triv: alternative 0 is int; set td: alternative 3
MCCallsOver(vals, tracked) ==
    LET KK == {<<1, 2>>, <<2, 1>>}
        ovals == vals \ {UNORD}
        VA == {t \in [alt : Alts, val : vals, ak : {"value", "copy", "move"}] :
                  /\ t.alt \notin tracked => t.ak = "value"
                  /\ t.val = UNORD => t.alt \notin IntAlts(tracked)}
    IN  {[c |-> "CtorDefault", a |-> [k |-> k]] : k \in K}
        \cup {[c |-> "CtorValue", a |-> [k |-> k, alt |-> t.alt, val |-> t.val, ak |-> t.ak, form |-> "index"]] : k \in K, t \in VA}
        \cup {[c |-> "Emplace", a |-> [k |-> k, alt |-> t.alt, val |-> t.val, ak |-> t.ak, form |-> "index"]] : k \in K, t \in VA}
        \cup {[c |-> "ConvAssign", a |-> [k |-> k, alt |-> t.alt, val |-> t.val, ak |-> t.ak]] : k \in K, t \in VA}
        \cup {[c |-> cc, a |-> [k |-> p[1], o |-> p[2]]] : cc \in {"CtorCopy", "CtorMove", "MoveAssign"}, p \in KK}
        \cup {[c |-> "Destroy", a |-> [k |-> k]] : k \in K}
        \cup {[c |-> "CopyAssign", a |-> [k |-> k, o |-> o]] : k \in K, o \in K}
        \cup {[c |-> "Swap", a |-> [k |-> k, o |-> o, form |-> "member"]] : k \in K, o \in K}
        \cup {[c |-> "Get", a |-> [k |-> k, alt |-> j, form |-> "index", ref |-> "l"]] : k \in K, j \in Alts}
        \cup {[c |-> "GetIf", a |-> [k |-> k, alt |-> j, form |-> "index", c |-> 0, null |-> n]] : k \in K, j \in Alts, n \in {0, 1}}
        \cup {[c |-> "Rel", a |-> [k |-> k, o |-> o, rel |-> r]] : k \in K, o \in K, r \in {"eq", "ne", "lt", "gt", "le", "ge"}}
        \cup {[c |-> "Visit", a |-> [ks |-> ks, c |-> 0, r |-> 0, rv |-> 0]] : ks \in {<<>>} \cup [1..1 -> K] \cup [1..2 -> K] \cup [1..3 -> K]}
        \cup {[c |-> "Visit", a |-> [ks |-> ks, c |-> 0, r |-> r, rv |-> rv]] :            \* reference-returning visitor, rvalue variants
                  ks \in [1..1 -> K] \cup {<<1, 2>>}, r \in {0, 1}, rv \in {0, 1}}
        \cup {[c |-> "XRef", a |-> [held |-> h, want |-> w, ref |-> "l", list |-> n, val |-> 5, w |-> wr]] :
                  h \in {"ref", "cref", "other"}, w \in {"ref", "cref"}, n \in {2, 3, 4}, wr \in {0, 1}}
        \cup {[c |-> "Hash", a |-> [k |-> k, o |-> o]] : k \in K, o \in K}
        \cup {[c |-> "Mono", a |-> [q |-> q]] : q \in {"eq", "ne", "lt", "gt", "le", "ge", "hash", "default"}}
        \cup {[c |-> "Nest", a |-> [alt |-> j, val |-> x, mode |-> m]] : j \in Alts, x \in ovals, m \in {"copy", "move", "swap", "visit"}}
        \cup {[c |-> "Up", a |-> [t |-> t, alt |-> j, val |-> x]] : t \in {"overload", "visitret"}, j \in 0..2, x \in ovals}
=============================================================================

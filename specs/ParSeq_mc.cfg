SPECIFICATION Spec
CONSTANTS
  Cfgs <- CfgsSmall
  MaxLen = 2
  Vals = {0, 1}
  Targets = {1, 2}
  OtherInit <- NoOther
  ILArgs <- AllIL
  Classes <- AllClasses
  EmitOps <- NoEmit
CONSTRAINT SizeBound
VIEW absvars
INVARIANTS TypeOK ArraySizeFixed Lockstep
PROPERTIES ObserversPure FailedChangesNothing ResizeLaw WriteLaw DefaultLaw MoveLaw SwapLaw AlgoLaw XAssignLaw XCopyLaw CtorFromLaw

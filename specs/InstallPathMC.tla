---------------------------- MODULE InstallPathMC ----------------------------
(* Model-checking instance of InstallPath: the scratch root is the one the runner measured *)
(* (a JSON record {"base":[{"len":..,"cls":..},...],"totals":[..]} named by the environment variable ROOT). *)
EXTENDS InstallPath, IOUtils
MeasuredBase == ndJsonDeserialize(IOEnv.ROOT)[1].base
(* additional exact total lengths drawn by the runner from VERIF_SEED *)
SeedTotals == LET t == ndJsonDeserialize(IOEnv.ROOT)[1].totals IN {t[i] : i \in DOMAIN t}
D16        == 1..6
D3         == {1, 2, 6}
TotalsAll  == {255, 256, 257, 1022, 1023, 1024, 1025, 1026, 2000, 2047, 2048, 2049, 3000, 4000, 4094, 4095} \cup SeedTotals
TotalsQ    == {256, 1022, 1023, 1024, 1025, 2047, 2048, 2049, 4094, 4095} \cup SeedTotals
(* (the classes ctrl, lead, dots, delsfx, edge occur through the pattern "odd"; "mb" also on its own: NAME_MAX bytes of multi-byte characters) *)
PatAll     == {"ascii", "space", "utf8", "dot", "punct", "mixed", "mb", "odd", "same", "one"}
PatQ       == {"ascii", "punct", "mixed", "odd", "same", "one"}
ViaAll     == {"direct", "relative", "filelink", "dirlink", "fakeargv0", "relcwd", "path", "chain2", "longlink"}
ViaQ       == {"direct", "filelink", "fakeargv0", "relcwd", "path", "chain2", "longlink"}
(* programs installed at the top of a root directory (run by the runner inside a chroot): /x, /d/x, /a/b/x *)
NoBase     == <<>>
D123       == {1, 2, 3}
TotalsJail == {1024, 2049}
ViaJail    == {"direct", "relative", "filelink"}
PatJail    == {"ascii", "punct", "mixed", "one"}
ASSUME Laws
=============================================================================

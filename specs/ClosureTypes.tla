---------------------------- MODULE ClosureTypes ----------------------------
(***************************************************************************)
(* C07, compile-time part: the closure type mappings of xtl as functions on *)
(* type terms, written from the property statement ("an lvalue maps to a    *)
(* (const) reference or pointer, an rvalue to a decayed value, for every    *)
(* cv/reference combination") and from the C++ rules for cv-qualifiers and  *)
(* reference collapsing -- not from xtl's templates.                        *)
(*                                                                          *)
(* A type term is [ptr, pc, pv, c, v, ref] over one symbolic base type T:   *)
(*   ptr = FALSE :  T                c v  ref                               *)
(*   ptr = TRUE  :  T pc pv *        c v  ref     (c, v qualify the pointer)*)
(* e.g. [ptr |-> TRUE, pc |-> TRUE, pv |-> FALSE, c |-> TRUE, v |-> FALSE,  *)
(*       ref |-> "lref"] is   T const * const &.                             *)
(*                                                                          *)
(* Every mapping yields the SET of result types the property allows; where  *)
(* the statement leaves a detail open (a top-level const on an owned value, *)
(* what apply_cv does with an rvalue reference) every conforming answer is  *)
(* in the set.  TLC enumerates all argument terms; each state is one row of *)
(* the table; the rows are written out as JSON and the runner turns them    *)
(* into static_assert(std::is_same<...>) lines compiled against xtl.        *)
(***************************************************************************)
EXTENDS Naturals, Sequences, FiniteSets, TLC, Json

Refs  == {"none", "lref", "rref"}
Term  == [ptr : BOOLEAN, pc : BOOLEAN, pv : BOOLEAN, c : BOOLEAN, v : BOOLEAN, ref : Refs]
(* canonical terms: the pointee qualifiers only mean something for pointers *)
Terms == {t \in Term : ~t.ptr => (~t.pc /\ ~t.pv)}

Obj(t)    == t.ref = "none"                       \* an object (non-reference) type
NoVol(t)  == ~t.v /\ ~t.pv                        \* no volatile anywhere
(* "for every cv/reference combination": volatile is a cv-qualifier.  A reference or pointer closure *)
(* designates the original object, so it keeps every qualifier of its referent (dropping volatile    *)
(* would not even compile: closure(x) for a volatile x); an owned value is the decayed type.         *)
Plain(t)  == ~t.ptr                               \* not a pointer

(* std::decay for these terms (no arrays, no functions): drop the reference, then top-level cv *)
Decay(t)      == [t EXCEPT !.ref = "none", !.c = FALSE, !.v = FALSE]
WithConst(t)  == [t EXCEPT !.c = TRUE]
Referred(t)   == [t EXCEPT !.ref = "none"]        \* std::remove_reference
LRef(t)       == [t EXCEPT !.ref = "lref"]
(* pointer to the object type u (u is not itself a pointer) *)
PtrTo(u)      == [ptr |-> TRUE, pc |-> u.c, pv |-> u.v, c |-> FALSE, v |-> FALSE, ref |-> "none"]

(* an owned value: the decayed type; the statement does not say whether a    *)
(* const source may keep its top-level const on the stored value, so both    *)
OwnedValue(s) == {Decay(s)} \cup (IF s.c THEN {WithConst(Decay(s))} ELSE {})

----------------------------------------------------------------------------
(* The mappings *)

(* closure_type_t<S>: an lvalue reference stays exactly that reference (so the constness of *)
(* the referent is kept); anything else becomes an owned decayed value                     *)
ClosureType(s)      == IF s.ref = "lref" THEN {s} ELSE OwnedValue(s)

(* const_closure_type_t<S>: an lvalue reference becomes a reference to const *)
ConstClosureType(s) == IF s.ref = "lref" THEN {WithConst(s)} ELSE OwnedValue(s)

(* ptr_closure_type_t<S>: an lvalue reference becomes a pointer to the (const) referent *)
PtrClosureType(s)   == IF s.ref = "lref" THEN {PtrTo(Referred(s))} ELSE OwnedValue(s)

(* const_ptr_closure_type_t<S>: pointer to const; an owned value of a const closure may be const *)
ConstPtrClosureType(s) == IF s.ref = "lref" THEN {PtrTo(WithConst(Referred(s)))}
                          ELSE {Decay(s), WithConst(Decay(s))}

(* apply_cv_t<T, U>: U (an object type) with the cv-qualifiers of the type T refers to added;    *)
(* an lvalue reference T makes the result an lvalue reference.  For an rvalue reference T the     *)
(* statement is silent: value and rvalue reference are both accepted.                             *)
ApplyCv(t, u) ==
    LET q == [u EXCEPT !.c = u.c \/ t.c, !.v = u.v \/ t.v]
    IN CASE t.ref = "lref" -> {LRef(q)}
         [] t.ref = "rref" -> {q, [q EXCEPT !.ref = "rref"]}
         [] OTHER          -> {q}

(* constify_t<T>: "adds const to the underlying type of a reference or pointer, or to the type   *)
(* itself if it is neither".  For a cv-qualified pointer object and for an rvalue reference the   *)
(* documentation can be read both ways; both readings are accepted.                               *)
Constify(t) ==
    CASE t.ref = "lref"                          -> {WithConst(t)}
      [] t.ref = "rref"                          -> {WithConst(t), t}
      [] t.ptr /\ ~t.c /\ ~t.v                   -> {[t EXCEPT !.pc = TRUE]}
      [] t.ptr                                   -> {[t EXCEPT !.pc = TRUE], WithConst(t)}
      [] OTHER                                   -> {WithConst(t)}

----------------------------------------------------------------------------
(* Users of the mappings: what the factory functions deduce for a source expression.          *)
(* A source form is the declared type of the expression; a forwarding reference T&& deduces   *)
(* T = U& for an lvalue of type U and T = U for an rvalue.                                    *)
Forms == {"T", "T&", "const T&", "T&&", "const T&&"}
VolForms == {"volatile T&", "const volatile T&"}          \* lvalues of volatile-qualified type
Deduced(f) ==      \* the term for the deduced template argument
    LET base == [ptr |-> FALSE, pc |-> FALSE, pv |-> FALSE, c |-> FALSE, v |-> FALSE, ref |-> "none"]
    IN CASE f = "T"         -> base
         [] f = "T&"        -> [base EXCEPT !.ref = "lref"]
         [] f = "const T&"  -> [base EXCEPT !.ref = "lref", !.c = TRUE]
         [] f = "T&&"       -> base
         [] f = "const T&&" -> [base EXCEPT !.c = TRUE]
         [] f = "volatile T&"       -> [base EXCEPT !.ref = "lref", !.v = TRUE]
         [] f = "const volatile T&" -> [base EXCEPT !.ref = "lref", !.c = TRUE, !.v = TRUE]
Factories == {"closure", "const_closure", "closure_pointer", "const_closure_pointer",
              "proxy_wrapper", "masked_value", "optional", "rvalue_accessor", "lvalue_accessor",
              "forward_same", "forward_diff", "pointer_deref", "pointer_arrow", "address_of",
              "const_lvalue_accessor", "const_rvalue_accessor",
              "conversion_lv", "conversion_clv", "conversion_rv", "conversion_crv"}
VolFactories == {"closure", "const_closure", "closure_pointer", "const_closure_pointer", "proxy_wrapper"}
(* the closure type argument(s) of the wrapper the factory returns for source form f *)
FactoryCT(fac, f) ==
    CASE fac \in {"closure", "closure_pointer", "optional"}        -> ClosureType(Deduced(f))
      [] fac \in {"const_closure", "const_closure_pointer"}        -> ConstClosureType(Deduced(f))
      [] fac \in {"proxy_wrapper", "masked_value"}                 -> {Deduced(f)}   \* the deduced argument itself
      (* accessors of a two-component wrapper whose closure is ClosureType(Deduced(f)):          *)
      (* on an lvalue wrapper always a reference to the stored/aliased object;                    *)
      (* on an rvalue wrapper a reference for reference closures and a VALUE for value closures:   *)
      (* the wrapper is about to die, and what it owned "stays valid after the temporary is gone"  *)
      (* only if it is handed out by value (auto&& r = closure(make()).get(); must not dangle)     *)
      [] fac = "lvalue_accessor"  -> {LRef(ct) : ct \in ClosureType(Deduced(f))}
      [] fac = "rvalue_accessor"  -> UNION {IF ct.ref = "lref" THEN {ct}
                                            ELSE {Decay(ct), ct}
                                            : ct \in ClosureType(Deduced(f))}
      (* round 4: the value category of the WRAPPER is an axis of its own (lvalue, const lvalue, rvalue, const     *)
      (* rvalue).  Constness of the wrapper is never constness lost: through a const wrapper an owned value is     *)
      (* only ever seen as const; a reference closure keeps designating its referent and may (deep const) or may   *)
      (* not (shallow const, as std::reference_wrapper) add const to it -- the statement leaves that open -- but   *)
      (* never drops the referent's own const.                                                                     *)
      [] fac = "const_lvalue_accessor" -> UNION {IF ct.ref = "lref" THEN {ct, WithConst(ct)}
                                                 ELSE {LRef(WithConst(ct))}
                                                 : ct \in ClosureType(Deduced(f))}
      (* a const rvalue wrapper: by value, or (the idiom of std::optional::value() const&&) a reference to const;  *)
      (* never a reference to non-const into the dying wrapper                                                     *)
      [] fac = "const_rvalue_accessor" -> UNION {IF ct.ref = "lref" THEN {ct, WithConst(ct)}
                                                 ELSE {Decay(ct), WithConst(Decay(ct)), LRef(WithConst(ct)), [WithConst(ct) EXCEPT !.ref = "rref"]}
                                                 : ct \in ClosureType(Deduced(f))}
      (* the implicit conversion of a closure wrapper to its closure: the type of the conversion's result.  A     *)
      (* reference closure converts to a reference to the referent in every category of the wrapper (const kept); *)
      (* an owning wrapper converts to a value -- from an lvalue wrapper a reference to its storage would also be *)
      (* sound (as get()), from an rvalue wrapper only a value is ("stays valid after the temporary is gone")     *)
      [] fac \in {"conversion_lv", "conversion_clv", "conversion_rv", "conversion_crv"} ->
             UNION {IF ct.ref = "lref" THEN {ct, WithConst(ct)}
                    ELSE {Decay(ct), WithConst(Decay(ct))}
                         \cup (IF fac = "conversion_lv" THEN {LRef(ct)} ELSE {})
                         \cup (IF fac = "conversion_clv" THEN {LRef(WithConst(ct))} ELSE {})
                         \cup (IF fac = "conversion_crv" THEN {LRef(WithConst(ct)), [WithConst(ct) EXCEPT !.ref = "rref"]} ELSE {})
                    : ct \in ClosureType(Deduced(f))}
      (* a closure pointer p made from source form f: *p and *(p.operator->()) are the designated object;       *)
      (* &w for a closure wrapper w made from f is pointer-like: *(&w) is the designated object.  The row      *)
      (* gives the type of that lvalue (the statement does not fix the pointer-like type itself)               *)
      [] fac \in {"pointer_deref", "pointer_arrow", "address_of"} -> {LRef(ct) : ct \in ClosureType(Deduced(f))}
      (* forward_sequence<R, A>(a): the argument itself (same value category) when the decayed   *)
      (* types agree, a new R by value otherwise                                                   *)
      [] fac = "forward_same"     -> {IF Deduced(f).ref = "lref" THEN Deduced(f) ELSE [Deduced(f) EXCEPT !.ref = "rref"]}
      [] fac = "forward_diff"     -> {Decay(Deduced(f))}

----------------------------------------------------------------------------
(* The table: one row per mapping and argument *)
ObjTerms == {u \in Terms : Obj(u)}
Rows ==
       {[map |-> "closure_type",           a |-> s, b |-> s, allowed |-> ClosureType(s)]         : s \in Terms}
  \cup {[map |-> "const_closure_type",     a |-> s, b |-> s, allowed |-> ConstClosureType(s)]    : s \in Terms}
  \cup {[map |-> "ptr_closure_type",       a |-> s, b |-> s, allowed |-> PtrClosureType(s)]      : s \in {t \in Terms : Plain(t)}}
  \cup {[map |-> "const_ptr_closure_type", a |-> s, b |-> s, allowed |-> ConstPtrClosureType(s)] : s \in {t \in Terms : Plain(t)}}
  \cup {[map |-> "apply_cv",               a |-> t, b |-> u, allowed |-> ApplyCv(t, u)]          : t \in Terms, u \in {o \in ObjTerms : Plain(o)}}
  \cup {[map |-> "constify",               a |-> t, b |-> t, allowed |-> Constify(t)]            : t \in Terms}
FactoryRows ==
  {[map |-> fac, form |-> f, allowed |-> FactoryCT(fac, f)] : fac \in Factories, f \in Forms}
  \cup {[map |-> fac, form |-> f, allowed |-> FactoryCT(fac, f)] : fac \in VolFactories, f \in VolForms}

VARIABLES row, frow
Init == row \in Rows /\ frow \in (FactoryRows \cup {[map |-> "none", form |-> "T", allowed |-> {}]})
               /\ (frow.map # "none" => row = CHOOSE r \in Rows : r.map = "constify")
Next == UNCHANGED <<row, frow>>
Spec == Init /\ [][Next]_<<row, frow>>

(* written once per row: the runner collects the "@E@" lines *)
SetToSeq(S) == CHOOSE q \in [1..Cardinality(S) -> S] : \A i, j \in 1..Cardinality(S) : i # j => q[i] # q[j]
EmitRows ==
    /\ (frow.map = "none") =>
          PrintT("@E@" \o ToJson([map |-> row.map, a |-> row.a, b |-> row.b, allowed |-> SetToSeq(row.allowed)]))
    /\ (frow.map # "none") =>
          PrintT("@F@" \o ToJson([map |-> frow.map, form |-> frow.form, allowed |-> SetToSeq(frow.allowed)]))

----------------------------------------------------------------------------
(* Theorems about the mappings themselves (they guard the oracle); checked on every row *)
TypeOK == row.allowed \subseteq Terms /\ row.allowed # {} /\ frow.allowed \subseteq Terms

(* the sentence of the property: lvalue -> reference/pointer designating the source's referent type, *)
(* rvalue (or plain value) -> an object type whose decayed form is the decayed source               *)
LvalueToRefRvalueToValue ==
    LET s == row.a IN
    /\ row.map \in {"closure_type", "const_closure_type"} =>
          \A r \in row.allowed :
             IF s.ref = "lref" THEN r.ref = "lref" /\ Decay(r) = Decay(s) /\ (s.c => r.c) /\ (s.v <=> r.v)
             ELSE Obj(r) /\ Decay(r) = Decay(s) /\ (r.c => s.c) /\ ~r.v
    /\ row.map \in {"ptr_closure_type", "const_ptr_closure_type"} =>
          \A r \in row.allowed :
             IF s.ref = "lref" THEN Obj(r) /\ r.ptr /\ (s.c => r.pc) /\ (s.v <=> r.pv) /\ ~r.c /\ ~r.v
             ELSE Obj(r) /\ ~r.ptr /\ Decay(r) = Decay(s) /\ ~r.v
    /\ row.map = "const_closure_type" /\ s.ref = "lref" => \A r \in row.allowed : r.c
    /\ row.map = "const_ptr_closure_type" /\ s.ref = "lref" => \A r \in row.allowed : r.pc

(* closure types are fixed points: the closure type of a closure type is itself *)
Idempotent ==
    /\ row.map = "closure_type" => \A r \in row.allowed : r \in ClosureType(r)
    /\ row.map = "const_closure_type" => \A r \in row.allowed : r \in ConstClosureType(r)
    /\ row.map = "constify" => \A r \in row.allowed : r \in Constify(r)
    /\ row.map = "apply_cv" => \A r \in row.allowed : Obj(r) => r \in ApplyCv(row.a, r)

(* apply_cv never drops a qualifier of either argument and yields an lvalue reference exactly for an lvalue reference *)
ApplyCvLaws ==
    row.map = "apply_cv" =>
       \A r \in row.allowed : /\ (row.a.c \/ row.b.c) = r.c /\ (row.a.v \/ row.b.v) = r.v
                               /\ (r.ref = "lref") = (row.a.ref = "lref")
                               /\ Decay(r) = Decay(row.b)
(* constify only ever adds const, to exactly one place *)
ConstifyLaws ==
    row.map = "constify" =>
       \A r \in row.allowed : /\ [r EXCEPT !.c = FALSE, !.pc = FALSE] = [row.a EXCEPT !.c = FALSE, !.pc = FALSE]
                               /\ (row.a.c => r.c) /\ (row.a.pc => r.pc)
(* factories: lvalue sources give reference closures, rvalue sources owned values *)
FactoryLaws ==
    frow.map \in {"closure", "const_closure", "closure_pointer", "const_closure_pointer", "optional"} =>
       \A r \in frow.allowed : (r.ref = "lref") = (frow.form \in {"T&", "const T&"} \cup VolForms) /\ r.ref # "rref"
(* round 4: whatever the value category of the wrapper, an accessor or conversion (a) designates/copies an object of *)
(* the decayed source type, (b) never drops the const of a const source, (c) on a const wrapper never hands out a    *)
(* reference to non-const to a value the wrapper owns, (d) on an rvalue (non-const) wrapper never hands out any      *)
(* reference to a value the wrapper owns                                                                            *)
AccessorFacs == {"lvalue_accessor", "rvalue_accessor", "const_lvalue_accessor", "const_rvalue_accessor",
                 "conversion_lv", "conversion_clv", "conversion_rv", "conversion_crv"}
AccessorLaws ==
    frow.map \in AccessorFacs =>
       LET lvsrc == frow.form \in {"T&", "const T&"}
           csrc  == frow.form \in {"const T&"}
       IN \A r \in frow.allowed :
            /\ Decay(r) = Decay(Deduced(frow.form))
            /\ (lvsrc /\ csrc) => (r.ref # "none" /\ r.c)
            /\ lvsrc => r.ref = "lref"
            /\ (~lvsrc /\ frow.map \in {"const_lvalue_accessor", "const_rvalue_accessor", "conversion_clv", "conversion_crv"} /\ r.ref # "none") => r.c
            /\ (~lvsrc /\ frow.map \in {"rvalue_accessor", "conversion_rv"}) => r.ref = "none"
=============================================================================

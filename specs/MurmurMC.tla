------------------------------ MODULE MurmurMC ------------------------------
(* Model-checking instance for Words.tla / Murmur.tla.  Every element of a   *)
(* finite universe of operands is one TLC state; the invariant checks the    *)
(* word arithmetic against TLA+'s own integers (narrow words), its algebraic *)
(* laws on full-width words, and the reference hashes against the published  *)
(* SMHasher verification values (MurmurHash2: 0x27864C1E, MurmurHash64A:     *)
(* 0x1F0D3804, MurmurHash2A: 0x7FBD4396 - keys {0}, {0,1}, .. of length 0..255 with seed 256 - length, *)
(* the 256 results hashed again with seed 0).                                *)
EXTENDS Murmur, TLC
LOCAL INSTANCE SequencesExt

CONSTANTS NatReps,     \* naturals < 46341 used as narrow-word operands
          WideReps     \* 8-digit words used for the algebraic laws

VARIABLES kind, x, y, z
vars == <<kind, x, y, z>>

(* ---- SMHasher verification *)
Key(i) == [k \in 1..i |-> k - 1]
Lengths == [i \in 1..256 |-> i - 1]
Results32 == FoldLeft(LAMBDA acc, i : acc \o Murmur2(Key(i), FromNat(256 - i, 4)), <<>>, Lengths)
Results64 == FoldLeft(LAMBDA acc, i : acc \o Murmur64A(Key(i), FromNat(256 - i, 8)), <<>>, Lengths)
Verification32 == Low(Murmur2(Results32, ZeroW(4)), 4)
Verification64 == Low(Murmur64A(Results64, ZeroW(8)), 4)
(* MurmurHash2A (not a function of the property; reference for the ILP32 branch, see Murmur.tla): 0x7FBD4396 *)
Results2A == FoldLeft(LAMBDA acc, i : acc \o Murmur2A(Key(i), FromNat(256 - i, 4)), <<>>, Lengths)
Verification2A == Murmur2A(Results2A, ZeroW(4))

(* a handful of independent spot values: empty key, seed 0 hashes to 0 in both algorithms *)
Spot == /\ Murmur2(<<>>, ZeroW(4)) = ZeroW(4)
        /\ Murmur64A(<<>>, ZeroW(8)) = ZeroW(8)
        /\ HashBytes(<<1, 2, 3>>, FromNat(7, 8), 8) = Murmur2X64(<<1, 2, 3>>, FromNat(7, 8))
        /\ Low(HashBytes(<<1, 2, 3>>, FromNat(7, 8), 4), 4) = Murmur2X86(<<1, 2, 3>>, FromNat(7, 8))

(* ---- word arithmetic against integers *)
XorBits(a, b) == LET bit(v, k) == (v \div (2 ^ k)) % 2
                     RECURSIVE S(_)
                     S(k) == IF k = 8 THEN 0 ELSE (IF bit(a, k) # bit(b, k) THEN 2 ^ k ELSE 0) + S(k + 1)
                 IN S(0)
Pow2W(k, n) == [i \in 1..n |-> IF i = (k \div 8) + 1 THEN 2 ^ (k % 8) ELSE 0]

NarrowLaws(a, b) ==
    /\ MulW(FromNat(a, 4), FromNat(b, 4)) = FromNat(a * b, 4)                        \* a, b < 46341: the product fits
    /\ MulW(FromNat(a, 2), FromNat(b, 2)) = FromNat((a * b) % 65536, 2)              \* truncation
    /\ MulW(FromNat(a, 1), FromNat(b, 1)) = FromNat(((a % 256) * (b % 256)) % 256, 1)
    /\ AddW(FromNat(a, 2), FromNat(b, 2)) = FromNat((a + b) % 65536, 2)
    /\ AddW(FromNat(a, 3), FromNat(b, 3)) = FromNat(a + b, 3)
    /\ \A s \in 0..24 : /\ ShrW(FromNat(a * 7 + b, 4), s) = FromNat((a * 7 + b) \div (2 ^ s), 4)
                        /\ s <= 12 => ShlW(FromNat(a, 4), s) = FromNat(a * (2 ^ s), 4)
    /\ FromLimbs16(Limbs16(FromNat(a * b, 4))) = FromNat(a * b, 4)
    /\ Limbs16(FromNat(a * b, 4)) = <<(a * b) % 65536, (a * b) \div 65536>>

WideLaws(a, b, c) ==
    /\ MulW(a, b) = MulW(b, a)
    /\ Mul8(a, b) = MulGeneric(a, b) /\ Mul4(Low(a, 4), Low(c, 4)) = MulGeneric(Low(a, 4), Low(c, 4))   \* unrolled = fold
    /\ MulW(a, MulW(b, c)) = MulW(MulW(a, b), c)
    /\ MulW(a, AddW(b, c)) = AddW(MulW(a, b), MulW(a, c))
    /\ AddW(a, b) = AddW(b, a)
    /\ XorW(XorW(a, b), b) = a
    /\ MulW(a, FromNat(1, 8)) = a /\ MulW(a, ZeroW(8)) = ZeroW(8)
    /\ \A k \in {0, 1, 7, 8, 13, 15, 24, 31, 32, 47, 63} :
          /\ MulW(a, Pow2W(k, 8)) = ShlW(a, k)
          /\ ShlW(ShrW(a, k), k) = XorW(a, ShrW(ShlW(a, 64 - k), 64 - k))      \* clearing the low k bits, two ways
          /\ ShrW(ShrW(a, k), 64 - k) = ZeroW(8)
    /\ FromLimbs16(Limbs16(a)) = a
    /\ Low(MulW(a, b), 4) = MulW(Low(a, 4), Low(b, 4))                         \* low half of a product depends on low halves only

Init == \/ kind = "narrow" /\ x \in NatReps /\ y \in NatReps /\ z = 0
        \/ kind = "wide"   /\ x \in WideReps /\ y \in WideReps /\ z \in WideReps
        \/ kind = "xor"    /\ x \in 0..255 /\ y = 0 /\ z = 0
        \/ kind \in {"verify32", "verify64", "verify2A", "spot"} /\ x = 0 /\ y = 0 /\ z = 0
Next == UNCHANGED vars
Spec == Init /\ [][Next]_vars

Laws == CASE kind = "narrow"   -> NarrowLaws(x, y)
          [] kind = "wide"     -> WideLaws(x, y, z)
          [] kind = "xor"      -> \A b \in 0..255 : (x ^^ b) = XorBits(x, b)
          [] kind = "verify32" -> Verification32 = <<30, 76, 134, 39>>       \* 0x27864C1E
          [] kind = "verify64" -> Verification64 = <<4, 56, 13, 31>>         \* 0x1F0D3804
          [] kind = "verify2A" -> Verification2A = <<150, 67, 189, 127>>     \* 0x7FBD4396
          [] kind = "spot"     -> Spot

Nats  == (0..17) \cup {127, 128, 129, 255, 256, 257, 4095, 4096, 32767, 32768, 32769, 40503, 46340}
Wides == {ZeroW(8), FromNat(1, 8), M64, [i \in 1..8 |-> 255], <<0, 0, 0, 128, 0, 0, 0, 128>>,
          <<255, 255, 255, 255, 0, 0, 0, 0>>, <<1, 2, 3, 4, 5, 6, 7, 8>>, <<0, 0, 0, 0, 0, 0, 0, 128>>, <<149, 233, 209, 91, 0, 0, 0, 0>>}
=============================================================================

SPECIFICATION SpecB
CONSTANTS
  Modes <- Unchecked
  MaxN = 4
  MaxDepth = 2
  MaxE = 5
  Huge = {0, 1, 2}
  Kinds <- AllKinds
  Classes <- AllClasses
  EmitOps <- AllOps
ACTION_CONSTRAINT Emit
VIEW absvars

------------------------------ MODULE ClosureMC ------------------------------
(* Model-checking instances of Closure: constant definitions that cannot be written in a .cfg *)
EXTENDS Closure
FNone        == {{}}
FCw          == {{"cw_mo_rv"}}
FCx          == {{"cx_xassign"}}
FBoth        == {{"cw_mo_rv", "cx_xassign"}}
FEither      == {{}, {"cw_mo_rv", "cx_xassign"}}
PCounted     == {"counted"}
PBoth        == {"counted", "moveonly"}
PAll         == {"int", "counted", "moveonly"}
KAll         == AllKinds
K_cw         == {"cw"}
K_cp         == {"cp"}
K_pw         == {"pw"}
K_opt        == {"opt"}
K_cx         == {"cx"}
K_mv         == {"mv"}
K_br         == {"br"}
K_fs         == {"fs"}
K_ob         == {"ob", "opt"}      \* with the xoptional instantiations it assigns from/to
K1           == {"cw", "cp", "pw", "br", "fs"}
CatsAll      == AllCats
CatsFew      == {"lv", "clv", "xvar", "pr"}
CatsMin      == {"lv", "xtemp"}
CatsMin3     == {"lv", "clv", "pr"}
CatsLv       == {"lv"}
CatsMin2     == {"lv", "pr"}
ClsAll       == {"make", "life", "var", "read", "assign", "clone", "pair", "addr"}
V12          == {1, 2}
V2           == {2}
=============================================================================

------------------------------- MODULE ParSeq -------------------------------
(***************************************************************************)
(* L1 property specification for C11: xoptional_vector / xoptional_array    *)
(* (values + flags) and xcomplex_vector / xcomplex_array (real + imag) are  *)
(* ONE sequence of pairs.  Written from the property statement and the      *)
(* semantics of std::vector / std::array / std::complex / an optional, not  *)
(* from xtl's code.                                                         *)
(*                                                                          *)
(* The abstract state of a container is a sequence of pairs <<a, b>>:       *)
(*   optional flavour:  a = the value,      b = the flag (1 present, 0 missing) *)
(*   complex  flavour:  a = the real part,  b = the imaginary part          *)
(* The two parallel storages of the implementation are *observations* of    *)
(* this single sequence (Proj): both must have length size() and storage A  *)
(* (B) must hold the first (second) components, whichever way an element is *)
(* read or was written.                                                     *)
(*                                                                          *)
(* Two objects obj[1], obj[2] of the same type (==, copy, move).  Every     *)
(* public call is one action; its C++ arguments are the action parameters   *)
(* and are recorded with the expected result in the ghost `last`; `pre` is  *)
(* the abstract state before the call.                                      *)
(***************************************************************************)
EXTENDS Integers, Sequences, FiniteSets, TLC, Json

CONSTANTS Cfgs,      \* configurations explored by the model checker: [fl, ct, n]
          MaxLen,    \* model-checking bound on size()
          Vals,      \* component values used by the model checker
          Targets,   \* objects the model checker applies operations to
          OtherInit, \* sequences of pairs the non-target object may be given directly
          ILArgs,    \* element lists used as initializer-list arguments by the model checker
          Classes,   \* operation classes enabled in the model checker's next-state relation
          EmitOps    \* S->C: operations whose transitions are written out as JSON (see Emit)

VARIABLES cfg,   \* [fl |-> "optional"|"complex", ct |-> "vector"|"array", n |-> array extent (0 for vectors),
                 \*  fwd |-> 1 iff the harness could instantiate begin()/cbegin() for this type,
                 \*  cas |-> 1 iff `proxy = value_type` is well-formed (always for the optional flavour)]
          obj,   \* obj[k]: sequence of pairs; obj[k][i+1] is element i
          last,  \* ghost: [op, k, a, res] of the call just performed
          pre    \* ghost: obj before that call

vars == <<cfg, obj, last, pre>>
absvars == <<cfg, obj>>

Other(k) == 3 - k
IsOpt == cfg.fl = "optional"
IsVec == cfg.ct = "vector"
HasFwd == cfg.fwd = 1
HasAssign == IF IsOpt THEN TRUE ELSE cfg.cas = 1

(* An element created without being given a value: a missing optional (whose *)
(* stored value is value-initialised, as std::vector::resize and T() give)   *)
(* or the complex number zero.                                               *)
Dflt == <<0, 0>>
(* size() of a default-constructed container *)
N0 == IF IsVec THEN 0 ELSE cfg.n
(* a constructor that takes a size must be called with the container's own size *)
SizeOK(n) == IF IsVec THEN TRUE ELSE n = cfg.n

----------------------------------------------------------------------------
(* Sequence algebra *)
Fill(n, e)         == [i \in 1..n |-> e]
ResizeSeq(s, n, e) == [i \in 1..n |-> IF i <= Len(s) THEN s[i] ELSE e]
RevSeq(s)          == [i \in 1..Len(s) |-> s[Len(s) + 1 - i]]
SetAt(s, i, e)     == [s EXCEPT ![i + 1] = e]            \* i is the C++ (0-based) index
CompA(s)           == [i \in 1..Len(s) |-> s[i][1]]
CompB(s)           == [i \in 1..Len(s) |-> s[i][2]]

(* what a value argument of each kind denotes as an element *)
OfValue(v)  == IF IsOpt THEN <<v[1], 1>> ELSE v     \* optional: a plain value is present; complex: value_type
OfScalar(x) == IF IsOpt THEN <<x, 1>> ELSE <<x, 0>> \* proxy = scalar: present value / real number

----------------------------------------------------------------------------
(* What every observer reports about one object (compared after each call). *)
Proj(k) == LET s == obj[k] IN
    [size  |-> Len(s),          \* size()
     empty |-> Len(s) = 0,      \* empty()
     nA    |-> Len(s),          \* value().size()      / real().size()
     nB    |-> Len(s),          \* has_value().size()  / imag().size()
     A     |-> CompA(s),        \* value()[i]          / real()[i]      read from the underlying container
     B     |-> CompB(s),        \* has_value()[i]      / imag()[i]
     idx   |-> s,               \* const operator[] for every index
     fwd   |-> IF HasFwd THEN s ELSE <<>>,   \* cbegin()..cend() (nothing to iterate if the type has no usable forward iterator)
     rev   |-> RevSeq(s)]       \* crbegin()..crend()
ProjAll == [o |-> <<Proj(1), Proj(2)>>, eq |-> obj[1] = obj[2], ne |-> obj[1] # obj[2]]

----------------------------------------------------------------------------
Ok(v)  == [exc |-> "none", val |-> v]
Exc(e) == [exc |-> e, val |-> <<>>]
Void   == Ok(<<>>)
NoArg  == [z |-> 0]

Do(op, k, a, newk, res) ==
    /\ pre'  = obj
    /\ obj'  = [obj EXCEPT ![k] = newk]
    /\ cfg'  = cfg
    /\ last' = [op |-> op, k |-> k, a |-> a, res |-> res]
Obs(op, k, a, res) == Do(op, k, a, obj[k], res)

----------------------------------------------------------------------------
(* Construction: the harness destroys object k and constructs it anew in     *)
(* memory pre-filled with 0xAA.  how: "dinit" = default-initialisation       *)
(* `new (p) T`, "vinit" = value-initialisation `new (p) T()`.                *)
CtorDefault(k, how) == Do("CtorDefault", k, [how |-> how], Fill(N0, Dflt), Void)
(* T(n): complex containers only *)
CtorN(k, n) == ~IsOpt /\ SizeOK(n) /\ Do("CtorN", k, [n |-> n], Fill(n, Dflt), Void)
(* T(n, value): optional: const base_value_type& ; complex: const value_type& *)
CtorNV(k, n, v) == SizeOK(n) /\ Do("CtorNV", k, [n |-> n, v |-> v], Fill(n, OfValue(v)), Void)
(* T(n, xoptional<CTO,CBO>) / T(n, xcomplex<TR,TI,B>) ; ck names the closure kind passed *)
CtorNO(k, n, e, ck) == SizeOK(n) /\ Do("CtorNO", k, [n |-> n, e |-> e, ck |-> ck], Fill(n, e), Void)
(* xcomplex_vector{e0, e1, ...} *)
CtorIL(k, es) == ~IsOpt /\ IsVec /\ Do("CtorIL", k, [es |-> es], es, Void)
CtorCopy(k)   == Do("CtorCopy", k, NoArg, obj[Other(k)], Void)
CopyAssign(k) == Do("CopyAssign", k, NoArg, obj[Other(k)], Void)
(* Move construction / assignment from the other object.  The target holds   *)
(* what the source held.  The moved-from object must stay a valid container   *)
(* of its type (for the array flavours: of its extent), but which one is not  *)
(* specified: `left` is whatever sequence it is observed to hold afterwards   *)
(* (the projection comparison then decides whether all its observers agree    *)
(* with `left`, i.e. whether its two storages are still in lockstep).         *)
(* re = 1: the harness destroys the source immediately and default-constructs *)
(* it again, which is then part of this action.                               *)
DoMove(op, k, re, left) ==
    /\ re \in {0, 1}
    /\ re = 1 => left = Fill(N0, Dflt)
    /\ ~IsVec => Len(left) = cfg.n
    /\ pre'  = obj
    /\ obj'  = IF k = 1 THEN <<obj[2], left>> ELSE <<left, obj[1]>>
    /\ cfg'  = cfg
    /\ last' = [op |-> op, k |-> k, a |-> [re |-> re], res |-> Void]
CtorMove(k, re, left)   == DoMove("CtorMove", k, re, left)
MoveAssign(k, re, left) == DoMove("MoveAssign", k, re, left)

(* resize: vectors only.  Existing elements are preserved, new ones are      *)
(* missing / zero (Resize), the given value (ResizeV) or the given pair.     *)
Resize(k, n)          == IsVec /\ Do("Resize", k, [n |-> n], ResizeSeq(obj[k], n, Dflt), Void)
ResizeV(k, n, v)      == IsVec /\ Do("ResizeV", k, [n |-> n, v |-> v], ResizeSeq(obj[k], n, OfValue(v)), Void)
ResizeO(k, n, e, ck)  == IsVec /\ Do("ResizeO", k, [n |-> n, e |-> e, ck |-> ck], ResizeSeq(obj[k], n, e), Void)

----------------------------------------------------------------------------
(* Checked access: throws exactly when the index is >= size().  c: "m"       *)
(* non-const, "c" const.  h = 1 means the index SIZE_MAX - i.                *)
At(k, c, i, h) == Obs("At", k, [c |-> c, i |-> i, h |-> h],
                      IF h = 0 /\ i < Len(obj[k]) THEN Ok(obj[k][i + 1]) ELSE Exc("out_of_range"))

(* Access paths.  For the iterator paths `nav` says how position i is        *)
(* reached and dereferenced; the result never depends on path or nav.        *)
ReadPaths  == {"index", "cindex", "at", "cat", "front", "cfront", "back", "cback", "iter", "citer", "riter", "criter"}
WritePaths == {"index", "at", "front", "back", "iter", "riter"}
IterPaths  == {"iter", "citer", "riter", "criter"}
Navs       == {"plus", "minus", "inc", "dec", "sub", "arrow", "peq", "meq", "postinc"}
PathOKn(n, path, nav, i) ==
    /\ i < n
    /\ path \in {"front", "cfront"} => i = 0
    /\ path \in {"back", "cback"} => i = n - 1
    /\ IF path \in IterPaths THEN nav \in Navs ELSE nav = "na"
    /\ path \in {"iter", "citer"} => HasFwd
PathOK(k, path, nav, i) == PathOKn(Len(obj[k]), path, nav, i)

(* Read element i: the pair read component-wise from the proxy, followed by  *)
(* the pair obtained by converting the proxy to value_type.                  *)
Read(k, path, nav, i) ==
    /\ path \in ReadPaths
    /\ PathOK(k, path, nav, i)
    /\ Obs("Read", k, [path |-> path, nav |-> nav, i |-> i], Ok(obj[k][i + 1] \o obj[k][i + 1]))

(* Writes through the proxy obtained by `path`.                             *)
(*  wk = "a"      ref.value() = e[1]        / ref.real() = e[1]             *)
(*       "b"      ref.has_value() = e[2]    / ref.imag() = e[2]             *)
(*       "scalar" ref = e[1]                                                *)
(*       "pair"   ref = xoptional<T,bool>(e[1], e[2]) / ref = xcomplex<T>(e[1], e[2]) *)
(*       "from"   ref = value_type(c[j])    (e is ignored)                  *)
(*       "addeq"  ref += e[1]   "muleq"  ref *= e[1]   (plain scalar operand) *)
(*       "addpair" ref += xoptional<T,bool>(e[1], e[2]) / ref += xcomplex<T>(e[1], e[2]) *)
(* The compound forms follow xoptional (a missing target or operand makes the *)
(* result missing and leaves the stored value alone) and complex arithmetic   *)
(* with a real scalar; what C11 adds is that they land in pair i and nowhere else. *)
WriteKinds == {"a", "b", "scalar", "pair", "from", "addeq", "muleq", "addpair"}
Compound(old, wk, e) ==
    IF IsOpt
      THEN CASE wk = "addeq"   -> IF old[2] = 1 THEN <<old[1] + e[1], 1>> ELSE old
             [] wk = "muleq"   -> IF old[2] = 1 THEN <<old[1] * e[1], 1>> ELSE old
             [] wk = "addpair" -> IF old[2] = 1 /\ e[2] = 1 THEN <<old[1] + e[1], 1>> ELSE <<old[1], 0>>
      ELSE CASE wk = "addeq"   -> <<old[1] + e[1], old[2]>>
             [] wk = "muleq"   -> <<old[1] * e[1], old[2] * e[1]>>
             [] wk = "addpair" -> <<old[1] + e[1], old[2] + e[2]>>
Written(old, wk, e, src) ==
    CASE wk = "a"      -> <<e[1], old[2]>>
      [] wk = "b"      -> <<old[1], e[2]>>
      [] wk = "scalar" -> OfScalar(e[1])
      [] wk = "pair"   -> e
      [] wk = "from"   -> src
      [] wk \in {"addeq", "muleq", "addpair"} -> Compound(old, wk, e)
Write(k, path, nav, i, wk, e, j) ==
    /\ path \in WritePaths /\ wk \in WriteKinds
    /\ wk \in {"pair", "from", "addpair"} => HasAssign
    /\ PathOK(k, path, nav, i)
    /\ j < Len(obj[k])
    /\ Do("Write", k, [path |-> path, nav |-> nav, i |-> i, wk |-> wk, e |-> e, j |-> j],
          SetAt(obj[k], i, Written(obj[k][i + 1], wk, e, obj[k][j + 1])), Void)

(* Write straight into one underlying container: c.value()[i] = x, c.has_value()[i] = x, *)
(* c.real()[i] = x, c.imag()[i] = x.  Must be seen through every access path.            *)
WriteUnder(k, which, i, x) ==
    /\ which \in {"a", "b"} /\ i < Len(obj[k])
    /\ Do("WriteUnder", k, [which |-> which, i |-> i, x |-> x],
          SetAt(obj[k], i, IF which = "a" THEN <<x, obj[k][i + 1][2]>> ELSE <<obj[k][i + 1][1], x>>), Void)

(* proxy.swap(proxy) on elements i # j of one optional container (xoptional::swap on the two   *)
(* reference closures).  The property does not name swap and xoptional's own swap is outside  *)
(* C11 (it is known to lose a flag when the flags are bit references); what C11 demands of    *)
(* any write through proxies is that it lands in the pairs it was given and nowhere else:     *)
(* ni, nj are whatever pairs i and j hold afterwards.                                         *)
ProxySwap(k, i, j, ni, nj) ==
    /\ IsOpt /\ i # j /\ i < Len(obj[k]) /\ j < Len(obj[k])
    /\ Do("ProxySwap", k, [i |-> i, j |-> j], SetAt(SetAt(obj[k], i, ni), j, nj), Void)


(* Standard algorithms over the iterators: runs of reads and writes through the proxy references.             *)
(*   copy    : std::copy(other.cbegin()+i, other.cbegin()+j, begin()+m)        (assignments proxy = const proxy) *)
(*   copybwd : std::copy_backward(begin()+i, begin()+j, begin()+j+m)           (assignments proxy = proxy, overlapping) *)
(*   reverse : std::reverse(begin()+i, begin()+j)        rotate : std::rotate(begin()+i, begin()+m, begin()+j) *)
(*   sort    : std::sort(begin()+i, begin()+j, by (first, second) component)                                   *)
(* `new` is the content observed afterwards.  The assignment-only algorithms are pinned down completely.      *)
(* reverse / rotate / sort exchange and move whole elements (swap and move of proxies, which the property does *)
(* not name one by one): the lockstep clause under permutation is what is demanded of them - the pairs of the  *)
(* segment travel together (the new segment is a permutation of the old PAIRS), nothing outside [i, j) and     *)
(* nothing in the other object changes.  (That the permutation is the algorithm's is checked as advisory.)     *)
AlgoExactKinds == {"copy", "copybwd"}
AlgoPermKinds  == {"reverse", "rotate", "sort"}
AlgoKinds      == AlgoExactKinds \cup AlgoPermKinds
SegRev(s, i, j)    == [x \in 1..Len(s) |-> IF x > i /\ x <= j THEN s[i + j + 1 - x] ELSE s[x]]
SegRot(s, i, m, j) == [x \in 1..Len(s) |-> IF x > i /\ x <= j THEN s[i + 1 + (((x - 1 - i) + (m - i)) % (j - i))] ELSE s[x]]
CopyInto(s, t, i, j, m) == [x \in 1..Len(s) |-> IF x > m /\ x <= m + (j - i) THEN t[i + (x - m)] ELSE s[x]]
PairLE(p, q) == p[1] < q[1] \/ (p[1] = q[1] /\ p[2] <= q[2])
RECURSIVE InsertSorted(_, _)
InsertSorted(s, e) == IF s = <<>> THEN <<e>> ELSE IF PairLE(e, Head(s)) THEN <<e>> \o s ELSE <<Head(s)>> \o InsertSorted(Tail(s), e)
RECURSIVE PairSortSeq(_)
PairSortSeq(s) == IF s = <<>> THEN <<>> ELSE InsertSorted(PairSortSeq(Tail(s)), Head(s))
SegSort(s, i, j) == LET srt == PairSortSeq(SubSeq(s, i + 1, j)) IN [x \in 1..Len(s) |-> IF x > i /\ x <= j THEN srt[x - i] ELSE s[x]]
Occ(s, e) == Cardinality({x \in 1..Len(s) : s[x] = e})
IsPermOf(s, t) == Len(s) = Len(t) /\ \A x \in 1..Len(s) : Occ(s, s[x]) = Occ(t, s[x])
AlgoExact(k, alg, i, m, j) == LET s == obj[k] IN
    CASE alg = "copy"    -> CopyInto(s, obj[Other(k)], i, j, m)
      [] alg = "copybwd" -> CopyInto(s, s, i, j, i + m)
      [] alg = "reverse" -> SegRev(s, i, j)
      [] alg = "rotate"  -> SegRot(s, i, m, j)
      [] alg = "sort"    -> SegSort(s, i, j)
AlgoOK(k, alg, i, m, j) == LET n == Len(obj[k]) IN
    CASE alg = "copy"    -> i <= j /\ j <= Len(obj[Other(k)]) /\ m + (j - i) <= n
      [] alg = "copybwd" -> i <= j /\ j + m <= n
      [] alg = "rotate"  -> i <= m /\ m <= j /\ j <= n
      [] OTHER           -> i <= j /\ j <= n /\ m = 0
Algo(k, alg, i, m, j, new) ==
    /\ alg \in AlgoKinds /\ HasFwd /\ HasAssign
    /\ AlgoOK(k, alg, i, m, j)
    /\ IF alg \in AlgoExactKinds THEN new = AlgoExact(k, alg, i, m, j)
       ELSE /\ Len(new) = Len(obj[k])
            /\ \A x \in 1..Len(new) : (x <= i \/ x > j) => new[x] = obj[k][x]
            /\ IsPermOf(SubSeq(new, i + 1, j), SubSeq(obj[k], i + 1, j))
    /\ Do("Algo", k, [alg |-> alg, i |-> i, m |-> m, j |-> j], new, Void)

(* ---- Arguments that are ELEMENT PROXIES (round 4).  A value argument of a mutator may be the proxy of an element of *)
(* a live container - of the very container the call modifies (v.resize(n, v[j]), v.resize(n, v.back()), v.resize(n, *it)): *)
(* the argument ALIASES the storages the call is about to reallocate - or of the other object.  The proxy is obtained *)
(* through any read path (const and non-const) and navigation.  What the statement says about the given value does   *)
(* not depend on where the value lives: the new elements are copies of the pair the proxy designated when the call    *)
(* was made.  s = k is the aliasing case.                                                                             *)
ResizeFrom(k, n, s, spath, snav, j) ==
    /\ IsVec /\ s \in {1, 2} /\ spath \in ReadPaths /\ PathOK(s, spath, snav, j)
    /\ Do("ResizeFrom", k, [n |-> n, s |-> s, path |-> spath, nav |-> snav, j |-> j],
          ResizeSeq(obj[k], n, obj[s][j + 1]), Void)
(* T(n, other[j]): construction from a proxy into the other object *)
CtorFrom(k, n, spath, snav, j) ==
    /\ SizeOK(n) /\ spath \in ReadPaths /\ PathOK(Other(k), spath, snav, j)
    /\ Do("CtorFrom", k, [n |-> n, path |-> spath, nav |-> snav, j |-> j], Fill(n, obj[Other(k)][j + 1]), Void)

(* ---- Element assignment ACROSS containers: dst-proxy = src-proxy, where the source is an element of ANOTHER container   *)
(* F at ANOTHER position.  F is a container of the sibling type (same flavour, same flag container, another value type - *)
(* the only proxy-to-proxy assignment the optional flavour offers for non-const proxies) that holds `pad` default        *)
(* elements followed by the pairs of the other object: the source position pad + j and the destination position i differ *)
(* in general and, with pad >= the flag block width, lie in different flag blocks.  mv = 1: the source proxy is an rvalue *)
(* (std::move).  The write lands in pair i of object k and nowhere else.                                                  *)
XSrc(k, pad) == Fill(pad, Dflt) \o obj[Other(k)]
XAssign(k, path, nav, i, pad, spath, snav, j, mv) ==
    /\ HasAssign /\ path \in WritePaths /\ PathOK(k, path, nav, i)
    /\ pad \in Nat /\ (~IsVec => pad = 0) /\ mv \in {0, 1}
    /\ spath \in ReadPaths /\ j < Len(obj[Other(k)]) /\ PathOKn(pad + Len(obj[Other(k)]), spath, snav, pad + j)
    /\ Do("XAssign", k, [path |-> path, nav |-> nav, i |-> i, pad |-> pad, spath |-> spath, snav |-> snav, j |-> j, mv |-> mv],
          SetAt(obj[k], i, XSrc(k, pad)[pad + j + 1]), Void)
(* std::copy(F.begin() + pad + i, F.begin() + pad + j, dst) with dst = begin() + m (dir "fwd") or rbegin() + m (dir "rev"): *)
(* a run of such assignments through non-const iterators of both containers at shifted positions.                        *)
XCopyInto(sq, t, i, j, m, dir) ==
    [x \in 1..Len(sq) |-> LET d == IF dir = "fwd" THEN x - 1 - m ELSE Len(sq) - x - m IN
                            IF d >= 0 /\ d < j - i THEN t[i + d + 1] ELSE sq[x]]
XCopy(k, pad, i, j, m, dir) ==
    /\ HasAssign /\ HasFwd /\ dir \in {"fwd", "rev"}
    /\ pad \in Nat /\ (~IsVec => pad = 0)
    /\ i <= j /\ j <= Len(obj[Other(k)]) /\ m + (j - i) <= Len(obj[k])
    /\ Do("XCopy", k, [pad |-> pad, i |-> i, j |-> j, m |-> m, dir |-> dir],
          XCopyInto(obj[k], obj[Other(k)], i, j, m, dir), Void)

(* max_size() is at least size() (values >= 2^30 are logged as 2^30) *)
MaxSize(k, m) == m >= Len(obj[k]) /\ Obs("MaxSize", k, NoArg, Ok(<<m>>))

(* <, <=, >, >= of xoptional_sequence: outside the property (only == and != are inside); the  *)
(* call must leave both objects alone, its four answers are recorded and not judged here.     *)
Rel(k, r) == IsOpt /\ Len(r) = 4 /\ (\A i \in 1..4 : r[i] \in {0, 1}) /\ Obs("Rel", k, NoArg, Ok(r))

(* std::move(copy of c).value() etc.: a copy of the underlying container (the harness calls the rvalue accessor on a copy of c) *)
Extract(k, which) == which \in {"a", "b"} /\
    Obs("Extract", k, [which |-> which], Ok(IF which = "a" THEN CompA(obj[k]) ELSE CompB(obj[k])))

(* Iterator arithmetic: p = begin + i, q = begin + j (i, j in 0..size): <<p == q, p != q, q - p, end - begin>> *)
IterRel(k, path, i, j) ==
    /\ path \in IterPaths /\ i <= Len(obj[k]) /\ j <= Len(obj[k])
    /\ path \in {"iter", "citer"} => HasFwd
    /\ Obs("IterRel", k, [path |-> path, i |-> i, j |-> j],
           Ok(<<IF i = j THEN 1 ELSE 0, IF i # j THEN 1 ELSE 0, j - i, Len(obj[k])>>))

(* What the harness build could instantiate.  The property quantifies over forward, const  *)
(* and reverse iterators of the array AND vector variants: forward iterators must exist.    *)
Feature(k, name) == name = "fwd_iter" /\ Obs("Feature", k, [name |-> name], Ok(<<1>>))

----------------------------------------------------------------------------
(* Bounded argument domains for the model checker *)
Sizes   == 0..MaxLen
BDom    == IF IsOpt THEN {0, 1} ELSE Vals
Elems   == Vals \X BDom
Idx(k)  == 0..(Len(obj[k]) - 1)
SeqsUpTo(S, n) == UNION {[1..m -> S] : m \in 0..n}
CKinds  == {"val", "ref", "conv"}

Init ==
    /\ cfg \in Cfgs
    /\ obj = <<Fill(N0, Dflt), Fill(N0, Dflt)>>
    /\ last = [op |-> "Init", k |-> 0, a |-> NoArg, res |-> Void]
    /\ pre = obj

C(c) == c \in Classes
NavsOf(path) == IF path \in IterPaths THEN Navs ELSE {"na"}
(* the model checker's choice of source navigations and paddings for the proxy-argument actions *)
XNavsOf(path) == IF path \in IterPaths THEN {"plus", "dec"} ELSE {"na"}
XPads == IF IsVec THEN {0, 65} ELSE {0}
NextT(k) ==
    \/ C("ctor") /\ \E how \in {"dinit", "vinit"} : CtorDefault(k, how)
    \/ C("ctor") /\ \E n \in Sizes : CtorN(k, n)
    \/ C("ctor") /\ \E n \in Sizes, v \in (IF IsOpt THEN Vals \X {1} ELSE Elems) : CtorNV(k, n, v)
    \/ C("ctor") /\ \E n \in Sizes, e \in Elems, ck \in CKinds : CtorNO(k, n, e, ck)
    \/ C("il")   /\ \E es \in ILArgs : Len(es) <= MaxLen /\ CtorIL(k, es)
    \/ C("pair") /\ (CtorCopy(k) \/ CopyAssign(k))
    \/ C("pair") /\ \E re \in {0, 1}, left \in {Fill(N0, Dflt), obj[Other(k)]} : CtorMove(k, re, left) \/ MoveAssign(k, re, left)
    \/ C("misc") /\ (MaxSize(k, MaxLen) \/ Rel(k, <<0, 1, 0, 1>>))
    \/ C("misc") /\ \E i \in Idx(k), j \in Idx(k) : ProxySwap(k, i, j, obj[k][j + 1], obj[k][i + 1])
    \/ C("size") /\ \E n \in Sizes : Resize(k, n)
    \/ C("size") /\ \E n \in Sizes, v \in (IF IsOpt THEN Vals \X {1} ELSE Elems) : ResizeV(k, n, v)
    \/ C("size") /\ \E n \in Sizes, e \in Elems, ck \in CKinds : ResizeO(k, n, e, ck)
    \/ C("at")   /\ \E c \in {"m", "c"}, i \in 0..(MaxLen + 1), h \in {0, 1} : At(k, c, i, h)
    \/ C("read") /\ \E path \in ReadPaths, i \in Idx(k) : \E nav \in NavsOf(path) : Read(k, path, nav, i)
    \/ C("write") /\ \E path \in WritePaths, i \in Idx(k), wk \in WriteKinds, e \in Elems, j \in Idx(k) :
           \E nav \in NavsOf(path) :
               /\ (wk = "from" => e = <<0, 0>>)
               /\ (wk # "from" => j = 0)
               /\ (wk \in {"a", "scalar", "addeq", "muleq"} => e[2] = 0)
               /\ (wk = "b" => e[1] = 0)
               /\ (wk \in {"addeq", "muleq", "addpair"} => Compound(obj[k][i + 1], wk, e) \in Elems)   \* (model checker: stay inside Vals)
               /\ Write(k, path, nav, i, wk, e, j)
    \/ C("under") /\ \E which \in {"a", "b"}, i \in Idx(k), x \in Vals :
           /\ (which = "b" => x \in BDom)
           /\ WriteUnder(k, which, i, x)
    \/ C("under") /\ \E which \in {"a", "b"} : Extract(k, which)
    \/ C("alias") /\ \E n \in Sizes, s \in {1, 2}, spath \in ReadPaths : \E j \in Idx(s), snav \in XNavsOf(spath) :
           /\ (s # k => spath \in {"index", "citer", "back"})
           /\ ResizeFrom(k, n, s, spath, snav, j)
    \/ C("alias") /\ \E n \in Sizes, spath \in {"index", "cindex", "front", "cback", "iter", "criter"}, j \in Idx(Other(k)) :
           \E snav \in XNavsOf(spath) : CtorFrom(k, n, spath, snav, j)
    \/ C("xassign") /\ \E i \in Idx(k), j \in Idx(Other(k)), pad \in XPads, mv \in {0, 1} :
           \/ \E path \in WritePaths : \E nav \in NavsOf(path) : mv = 0 /\ XAssign(k, path, nav, i, pad, "index", "na", j, mv)
           \/ \E spath \in ReadPaths : \E snav \in XNavsOf(spath) : XAssign(k, "index", "na", i, pad, spath, snav, j, mv)
    \/ C("xassign") /\ \E i \in 0..Len(obj[Other(k)]), j \in 0..Len(obj[Other(k)]), m \in 0..Len(obj[k]), pad \in XPads, dir \in {"fwd", "rev"} :
           XCopy(k, pad, i, j, m, dir)
    \/ C("iter") /\ \E path \in IterPaths, i \in 0..Len(obj[k]), j \in 0..Len(obj[k]) : IterRel(k, path, i, j)
    \/ C("iter") /\ Feature(k, "fwd_iter")
    \/ C("algo") /\ \E i \in 0..Len(obj[k]), j \in 0..Len(obj[k]) : i <= j /\
           \/ \E alg \in {"reverse", "sort"} : Algo(k, alg, i, 0, j, AlgoExact(k, alg, i, 0, j))
           \/ \E m \in 0..Len(obj[k]) : \E alg \in {"rotate", "copy", "copybwd"} :
                  AlgoOK(k, alg, i, m, j) /\ Algo(k, alg, i, m, j, AlgoExact(k, alg, i, m, j))

NextO(k) == \E s \in OtherInit : Len(s) \in (IF IsVec THEN Sizes ELSE {cfg.n}) /\ Do("Set", k, [es |-> s], s, Void)

Next == (\E k \in Targets : NextT(k)) \/ (\E k \in {1, 2} \ Targets : NextO(k))

(* S->C enumeration: with VIEW absvars every abstract state is expanded once; this action   *)
(* constraint writes each transition (pre-state, call) as one JSON line on TLC's output.    *)
(* Calls that do not involve the other object are written once (other object as default-    *)
(* constructed), copy/move calls for every content the other object is given.               *)
PairOps == {"CtorCopy", "CopyAssign", "CtorMove", "MoveAssign", "Rel", "Algo", "CtorFrom", "XAssign", "XCopy"}
Emit == (last'.op \in EmitOps /\ (last'.op \in PairOps \/ pre'[2] = Fill(N0, Dflt) \/ (last'.op = "ResizeFrom" /\ last'.a.s # last'.k))) =>
            PrintT("@E@" \o ToJson([c |-> cfg, p |-> pre', l |-> [op |-> last'.op, k |-> last'.k, a |-> last'.a]]))

SizeBound == Len(obj[1]) <= MaxLen /\ Len(obj[2]) <= MaxLen

Spec == Init /\ [][Next]_vars

----------------------------------------------------------------------------
(* Theorems of the specification itself (they guard the oracle).            *)
TypeOK ==
    /\ cfg \in Cfgs
    /\ \A k \in {1, 2} : \A i \in 1..Len(obj[k]) : obj[k][i] \in Elems

(* an array flavour always has exactly its extent *)
ArraySizeFixed == \A k \in {1, 2} : ~IsVec => Len(obj[k]) = cfg.n

(* the two observed storages are always as long as the container and pair up to the elements *)
Lockstep == \A k \in {1, 2} : LET p == Proj(k) IN
    /\ p.nA = p.size /\ p.nB = p.size
    /\ \A i \in 1..p.size : p.idx[i] = <<p.A[i], p.B[i]>> /\ (HasFwd => p.fwd[i] = p.idx[i]) /\ p.rev[p.size + 1 - i] = p.idx[i]

ObserverOps == {"At", "Read", "Extract", "IterRel", "Feature", "MaxSize", "Rel"}
ObserversPure == [][last'.op \in ObserverOps => obj' = obj]_vars
FailedChangesNothing == [][last'.res.exc # "none" => obj' = obj]_vars
(* resize keeps the common prefix, creates exactly the requested new elements and never touches the other object *)
ResizeOps == {"Resize", "ResizeV", "ResizeO", "ResizeFrom"}
ResizeLaw == [][last'.op \in ResizeOps =>
                  LET k == last'.k  n == last'.a.n IN
                    /\ Len(obj'[k]) = n
                    /\ \A i \in 1..n : i <= Len(obj[k]) => obj'[k][i] = obj[k][i]
                    /\ \A i \in 1..n : i > Len(obj[k]) =>
                          obj'[k][i] = (CASE last'.op = "Resize" -> <<0, 0>>
                                          [] last'.op = "ResizeV" -> (IF IsOpt THEN <<last'.a.v[1], 1>> ELSE last'.a.v)
                                          [] last'.op = "ResizeFrom" -> obj[last'.a.s][last'.a.j + 1]     \* the pair the proxy designated BEFORE the call
                                          [] OTHER -> last'.a.e)
                    /\ obj'[Other(k)] = obj[Other(k)]]_vars
(* a move leaves the target with exactly what the source held *)
MoveLaw == [][last'.op \in {"CtorMove", "MoveAssign"} => obj'[last'.k] = obj[Other(last'.k)]]_vars
(* a proxy swap touches at most the two elements it was given *)
SwapLaw == [][last'.op = "ProxySwap" =>
                  LET k == last'.k IN
                    /\ Len(obj'[k]) = Len(obj[k]) /\ obj'[Other(k)] = obj[Other(k)]
                    /\ \A m \in 1..Len(obj[k]) : (m # last'.a.i + 1 /\ m # last'.a.j + 1) => obj'[k][m] = obj[k][m]]_vars
(* a write changes exactly one element of exactly one object *)
WriteLaw == [][last'.op \in {"Write", "WriteUnder", "XAssign"} =>
                  LET k == last'.k  i == last'.a.i IN
                    /\ Len(obj'[k]) = Len(obj[k])
                    /\ \A m \in 1..Len(obj[k]) : m # i + 1 => obj'[k][m] = obj[k][m]
                    /\ obj'[Other(k)] = obj[Other(k)]]_vars
(* an algorithm keeps the size, the other object and everything outside its segment; its segment is a permutation of the
   old pairs (reverse, rotate, sort) - both components of every element moved together *)
AlgoLaw == [][last'.op = "Algo" =>
                LET k == last'.k  i == last'.a.i  j == last'.a.j IN
                  /\ Len(obj'[k]) = Len(obj[k]) /\ obj'[Other(k)] = obj[Other(k)]
                  /\ (last'.a.alg \in AlgoPermKinds =>
                        /\ IsPermOf(SubSeq(obj'[k], i + 1, j), SubSeq(obj[k], i + 1, j))
                        /\ IsPermOf(CompA(SubSeq(obj'[k], i + 1, j)), CompA(SubSeq(obj[k], i + 1, j)))
                        /\ \A x \in 1..Len(obj[k]) : (x <= i \/ x > j) => obj'[k][x] = obj[k][x])
                  /\ (last'.a.alg = "sort" => \A x \in (i + 1)..(j - 1) : PairLE(obj'[k][x], obj'[k][x + 1]))
                  /\ (last'.a.alg = "reverse" => SegRev(obj'[k], i, j) = obj[k])]_vars
(* a cross-container element assignment stores exactly the pair the source proxy designated; a cross-container copy keeps the size,
   the other object and everything outside its destination window, and the window holds the source run in order *)
XAssignLaw == [][last'.op = "XAssign" => obj'[last'.k][last'.a.i + 1] = obj[Other(last'.k)][last'.a.j + 1]]_vars
XCopyLaw == [][last'.op = "XCopy" =>
                LET k == last'.k  i == last'.a.i  j == last'.a.j  m == last'.a.m  n == Len(obj[k]) IN
                  /\ Len(obj'[k]) = n /\ obj'[Other(k)] = obj[Other(k)]
                  /\ \A d \in 0..(j - i - 1) :
                        obj'[k][IF last'.a.dir = "fwd" THEN m + d + 1 ELSE n - m - d] = obj[Other(k)][i + d + 1]
                  /\ Cardinality({x \in 1..n : obj'[k][x] # obj[k][x]}) <= j - i]_vars
(* construction from a proxy: n copies of the designated pair *)
CtorFromLaw == [][last'.op = "CtorFrom" =>
                   /\ Len(obj'[last'.k]) = last'.a.n
                   /\ \A x \in 1..last'.a.n : obj'[last'.k][x] = obj[Other(last'.k)][last'.a.j + 1]]_vars
(* elements created by default construction are missing / zero *)
DefaultLaw == [][last'.op \in {"CtorDefault", "CtorN"} =>
                  \A i \in 1..Len(obj'[last'.k]) : obj'[last'.k][i] = <<0, 0>>]_vars
=============================================================================

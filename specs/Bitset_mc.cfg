SPECIFICATION Spec
CONSTANTS
  MaxBits = 4
  Widths = {2, 3}
  MaxShift = 5
  Targets = {1, 2}
  OtherInit <- NoOther
  ILArgs <- AllIL
  LimbReps <- AllLimbs
  Classes <- AllClasses
  EmitOps <- NoEmit
CONSTRAINT SizeBound
VIEW absvars
INVARIANTS TypeOK PackRoundTrip UnusedZero Laws AlgoLaws
PROPERTIES ObserversPure ViewSizeFixed FailedChangesNothing MoveLaw SwapLaw SelfLaw AlgoSizeLaw

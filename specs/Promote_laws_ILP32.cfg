SPECIFICATION Spec
CONSTANTS
  P <- ILP32
  MaxPack = 2
  MaxArgs = 3
INVARIANT TypeOK

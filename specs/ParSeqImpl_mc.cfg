SPECIFICATION Spec
CONSTANTS
  Cfgs <- CfgsSmall
  MaxLen = 2
  Vals = {0, 1}
  ArrayFlagsMove = FALSE
  ObserveMoved = TRUE
CONSTRAINT SizeBound
VIEW absview
INVARIANTS Lockstep EqAgrees
PROPERTIES Refines

----------------------------- MODULE DispatchMC -----------------------------
(* Model-checking instances of Dispatch: constant values that cannot be written in a .cfg, and the   *)
(* plan-driven exploration used for S->C (several dispatcher configurations, each with its own      *)
(* bounds and operation classes, enumerated by one TLC run).                                         *)
EXTENDS Dispatch

CONSTANT Plans   \* set of [cfg, mh, mc, ops]: configuration, bound on the history, bound on the registered tuples,
                 \* operation classes.  checks/c17.py writes a root module that defines the set (RunPlans).
KMapDyn     == {"map_dyn"}
KMapStatic  == {"map_static"}
KFastDyn    == {"fast_dyn"}
KFastStatic == {"fast_static"}
KRawMap     == {"raw_map"}
KRawFast    == {"raw_fast"}
KVMapDyn    == {"vmap_dyn"}
KVFastDyn   == {"vfast_dyn"}
KMaps       == {"map_dyn", "map_static"}
KFasts      == {"fast_dyn", "fast_static"}
KMapFast    == {"map_dyn", "fast_static"}
KAll        == {"map_dyn", "map_static", "fast_dyn", "fast_static"}
KNone       == {"none"}
OpsTable     == {"insert2", "erase", "dispatch"}
OpsTableNoErase == {"insert2", "dispatch"}
OpsTableClone == {"insert2", "erase", "dispatch", "clone"}
OpsHistTable == {"insert2", "erase", "clone"}
OpsHistIns   == {"insert"}
OpsHistInsEr == {"insert", "erase"}
OpsHistInsClone   == {"insert", "clone"}
OpsHistInsErClone == {"insert", "erase", "clone"}
OpsSimIns    == {"insert", "dispatch", "clone"}
OpsSimInsEr  == {"insert", "erase", "dispatch", "clone"}
OpsTableBeh  == {"insertb", "dispatch", "new2"}
OpsHistNew2  == {"insert2", "erase", "clone", "new2"}
OpsStateless == {"static", "accept", "cyclic"}
OpsAll       == {"insert2", "erase", "dispatch", "clone", "static", "accept", "cyclic"}
NoPlans   == {}
ExamplePlans == {[cfg |-> [kind |-> "fast_static", ar |-> 2, nx |-> 1, k |-> 3, fl |-> "exc"], mh |-> 3, mc |-> 99, ops |-> {"insert"}],
                 [cfg |-> [kind |-> "map_dyn", ar |-> 1, nx |-> 0, k |-> 2, fl |-> "exc"], mh |-> 3, mc |-> 99, ops |-> {"insert", "erase", "clone"}]}
ModeNone  == "none"
ModeHist  == "hist"
ModeEdges == "edges"

PlanOf == CHOOSE p \in Plans : p.cfg = cfg
PC(x)  == x \in PlanOf.ops
PInit ==
    /\ cfg \in {p.cfg : p \in Plans}
    /\ CfgOK(cfg)
    /\ reg = ZeroReg(cfg.ar, cfg.k)
    /\ reg2 = ZeroReg(cfg.ar, cfg.k)
    /\ has2 = FALSE
    /\ seen = {}
    /\ hist = <<>>
    /\ last = [op |-> "Init", a |-> NoArg, res |-> Void]
    /\ pre = [reg |-> reg, reg2 |-> reg2, has2 |-> has2]
PNext ==
    \/ PC("insert")   /\ \E d \in SlotsLive, t \in MyTuples : Insert(d, t, Len(hist) + 1)
    \/ PC("insert2")  /\ \E d \in SlotsLive, t \in MyTuples, h \in 1..2 : Insert(d, t, h)
    \/ PC("erase")    /\ \E d \in SlotsLive, t \in MyTuples : Erase(d, t)
    \/ PC("dispatch") /\ \E d \in SlotsLive, os \in ObjTuples(cfg.ar, cfg.k), xs \in XsDomain(cfg.nx) : Dispatch(d, os, xs)
    \/ PC("insertb")  /\ \E d \in SlotsLive, t \in MyTuples, h \in BehIds : Insert(d, t, h)
    \/ PC("new2")     /\ New2
    \/ PC("clone")    /\ ((\E how \in CloneHows : Clone(how)) \/ (\E how \in TakeHows : Take(how)) \/ Drop2)
PSpec  == PInit /\ [][PNext]_vars
PBound == Len(hist) <= PlanOf.mh /\ Cardinality(Registered) <= PlanOf.mc /\ Cardinality(Registered2) <= PlanOf.mc
PEmit ==
    /\ (EmitMode = "hist" /\ Len(hist') = PlanOf.mh /\ Len(hist) < PlanOf.mh) =>
           PrintT("@H@" \o ToJson([cfg |-> cfg', hist |-> hist']))
    /\ (EmitMode = "edges") =>
           PrintT("@E@" \o ToJson([cfg |-> cfg, p |-> Tab, l |-> [op |-> last'.op, a |-> last'.a]]))
=============================================================================

----------------------------- MODULE DispatchMC -----------------------------
(* Model-checking instances of Dispatch: constant values that cannot be written in a .cfg *)
EXTENDS Dispatch
KMapDyn     == {"map_dyn"}
KMapStatic  == {"map_static"}
KFastDyn    == {"fast_dyn"}
KFastStatic == {"fast_static"}
KMaps       == {"map_dyn", "map_static"}
KFasts      == {"fast_dyn", "fast_static"}
KAll        == {"map_dyn", "map_static", "fast_dyn", "fast_static"}
KNone       == {"none"}
OpsTable     == {"insert2", "erase", "dispatch"}
OpsTableNoErase == {"insert2", "dispatch"}
OpsHistIns   == {"insert"}
OpsHistInsEr == {"insert", "erase"}
OpsSimIns    == {"insert", "dispatch"}
OpsSimInsEr  == {"insert", "erase", "dispatch"}
OpsStateless == {"static", "accept", "cyclic"}
OpsAll       == {"insert2", "erase", "dispatch", "static", "accept", "cyclic"}
ModeNone  == "none"
ModeHist  == "hist"
ModeEdges == "edges"
=============================================================================

SPECIFICATION Spec
CONSTANTS
  ByteReps <- WrapBytes
  MaxLen = 0
  TextReps <- WrapText
  MaxText = 4
  IndexMode = "uchar"
  ReadMode = "strip_trailing_pad"
INVARIANTS ReadsInInput

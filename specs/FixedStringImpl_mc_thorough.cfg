SPECIFICATION Spec
CONSTANTS
  N = 3
  Policies = {"silent"}
  Layouts = {"packed", "sizefield", "strlen"}
  Chars <- Chars012
  Lits <- LitsQ3
  PosDom <- Pos3
  SubDom <- SubQ
  OtherVals <- OtherQ3
  Junk = {9}
CONSTRAINT OtherBound
VIEW absview
INVARIANTS RepInv NoAccessOutside
PROPERTIES Refines FailedStutters

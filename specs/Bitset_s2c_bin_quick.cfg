SPECIFICATION Spec
CONSTANTS
  MaxBits = 9
  Widths = {8}
  MaxShift = 10
  Targets = {1}
  OtherInit <- RepSeqsC
  ILArgs <- RepSeqsC
  LimbReps <- RepLimbs
  Classes <- BinaryNav
  EmitOps <- PairOps
CONSTRAINT SizeBound
ACTION_CONSTRAINT Emit
VIEW absvars
